(** Theorems about the run-time semantics (Runtime/RT.v, Runtime/Load.v).

    1. tagged collections (C04)            2. single-chunk / multi-chunk patterns, parameter cache (C03)
    4. errors never become objects (C02/C15)   6. histories (C15)
    3. creation order (C02)                5. fuel / termination (C07) *)
From GV Require Import Base.Str Base.Quote Base.Sort Model.Env Model.Input Model.Imports Model.Token Model.Compile Model.OutVal
  Runtime.RT Runtime.Load Proofs.SortProofs.
From Coq Require Import Sorting.Sorted Sorting.Permutation Lia.

(** * 0. Association lists: [assoc_set] / [assoc_del] *)

Section AssocSet.
  Context {A : Type}.
  Implicit Types m : list (str * A).

  Lemma lookup_filter_ne k k' m :
    k <> k' -> lookup k (filter (fun kv => negb (str_eqb (fst kv) k')) m) = lookup k m.
  Proof.
    intros Hn. induction m as [|[k0 v0] m IH]; [reflexivity|].
    cbn [filter fst]. destruct (str_eqb_spec k0 k') as [->|Hn0]; cbn [negb].
    - rewrite lookup_cons. destruct (str_eqb_spec k k'); [contradiction|exact IH].
    - rewrite !lookup_cons. destruct (str_eqb k k0); [reflexivity|exact IH].
  Qed.

  Lemma lookup_filter_same k m :
    lookup k (filter (fun kv => negb (str_eqb (fst kv) k)) m) = None.
  Proof.
    induction m as [|[k0 v0] m IH]; [reflexivity|].
    cbn [filter fst]. destruct (str_eqb_spec k0 k) as [->|Hn0]; cbn [negb]; [exact IH|].
    rewrite lookup_cons. destruct (str_eqb_spec k k0) as [->|_]; [contradiction|exact IH].
  Qed.

  Lemma lookup_assoc_set_same k (v : A) m : lookup k (assoc_set k v m) = Some v.
  Proof. unfold assoc_set. rewrite lookup_cons, str_eqb_refl. reflexivity. Qed.

  Lemma lookup_assoc_set_other k k' (v : A) m : k <> k' -> lookup k (assoc_set k' v m) = lookup k m.
  Proof.
    intros Hn. unfold assoc_set. rewrite lookup_cons.
    destruct (str_eqb_spec k k'); [contradiction|]. apply lookup_filter_ne; exact Hn.
  Qed.

  Lemma lookup_assoc_del_same k m : lookup k (assoc_del k m) = None.
  Proof. apply lookup_filter_same. Qed.

  Lemma lookup_assoc_del_other k k' m : k <> k' -> lookup k (assoc_del k' m) = lookup k m.
  Proof. apply lookup_filter_ne. Qed.
End AssocSet.

(** * 1. Tagged collections (C04) *)

(** ** [tag_lt] is a strict total order on pairs with distinct names *)

Lemma tag_lt_irrefl a : tag_lt a a = false.
Proof. unfold tag_lt. rewrite Z.eqb_refl. apply str_ltb_irrefl. Qed.

Lemma tag_lt_asym a b : tag_lt a b = true -> tag_lt b a = false.
Proof.
  unfold tag_lt. rewrite (Z.eqb_sym (snd b)).
  destruct (Z.eqb_spec (snd a) (snd b)) as [E|E].
  - apply str_ltb_asym.
  - intros H. apply Z.ltb_lt in H. apply Z.ltb_ge. lia.
Qed.

Lemma tag_lt_trans a b c : tag_lt a b = true -> tag_lt b c = true -> tag_lt a c = true.
Proof.
  unfold tag_lt.
  destruct (Z.eqb_spec (snd a) (snd b)), (Z.eqb_spec (snd b) (snd c)), (Z.eqb_spec (snd a) (snd c));
    intros H1 H2; rewrite ?Z.ltb_lt in *; try lia.
  eapply str_ltb_trans; eassumption.
Qed.

Lemma tag_lt_total a b : fst a <> fst b -> tag_lt a b = true \/ tag_lt b a = true.
Proof.
  intros Hn. unfold tag_lt. rewrite (Z.eqb_sym (snd b)).
  destruct (Z.eqb_spec (snd a) (snd b)) as [E|E].
  - destruct (str_ltb_trichotomy (fst a) (fst b)) as [H|[H|H]]; [left; exact H | contradiction | right; exact H].
  - rewrite !Z.ltb_lt. lia.
Qed.

(** the associated non-strict order [a <= b := tag_lt b a = false] *)
Lemma tag_le_spec a b :
  tag_lt b a = false <-> (snd b < snd a)%Z \/ (snd a = snd b /\ str_ltb (fst b) (fst a) = false).
Proof.
  unfold tag_lt. destruct (Z.eqb_spec (snd b) (snd a)) as [E|E].
  - split; [intros H; right; split; [symmetry; exact E|exact H] | intros [H|[_ H]]; [lia|exact H]].
  - rewrite Z.ltb_ge. split; [intros H; left; lia | intros [H|[H _]]; [lia|congruence]].
Qed.

Lemma tag_le_trans a b c : le_of tag_lt a b -> le_of tag_lt b c -> le_of tag_lt a c.
Proof.
  unfold le_of. rewrite !tag_le_spec. intros [H1|[E1 H1]] [H2|[E2 H2]]; try (left; lia).
  right. split; [congruence|]. eapply str_le_trans; eassumption.
Qed.

Lemma tag_le_total a b : le_of tag_lt a b \/ le_of tag_lt b a.
Proof.
  unfold le_of. destruct (tag_lt b a) eqn:E; [right; apply tag_lt_asym; exact E | left; reflexivity].
Qed.

(** ** the sorted list of (name, priority) pairs behind [tagged] *)

Definition carriers (st : rt) (t : str) : list (str * Z) :=
  flat_map (fun kv : str * sdef => match lookup t (sd_tags (snd kv)) with Some p => [(fst kv, p)] | None => [] end) (rt_services st).
Definition tagged_pairs (st : rt) (t : str) : list (str * Z) := sort_by tag_lt (carriers st t).

Lemma tagged_eq st t : tagged st t = map fst (tagged_pairs st t).
Proof. reflexivity. Qed.

Lemma In_carriers st t n p :
  In (n, p) (carriers st t) <-> exists d, In (n, d) (rt_services st) /\ lookup t (sd_tags d) = Some p.
Proof.
  unfold carriers. rewrite in_flat_map. split.
  - intros [[n' d] [HI H]]. cbn [fst snd] in H. destruct (lookup t (sd_tags d)) as [p'|] eqn:E; [|destruct H].
    destruct H as [H|[]]. inversion H; subst. exists d. split; [exact HI|exact E].
  - intros [d [HI E]]. exists (n, d). split; [exact HI|]. cbn [fst snd]. rewrite E. left; reflexivity.
Qed.

Lemma In_tagged_pairs st t n p :
  In (n, p) (tagged_pairs st t) <-> exists d, In (n, d) (rt_services st) /\ lookup t (sd_tags d) = Some p.
Proof. unfold tagged_pairs. rewrite In_sort_by. apply In_carriers. Qed.

Theorem tagged_pairs_sorted st t : StronglySorted (le_of tag_lt) (tagged_pairs st t).
Proof. apply sort_by_sorted_gen; [apply tag_lt_asym | apply tag_le_trans]. Qed.

(** priority of a service for a tag, looked up in its definition *)
Definition prio_of (st : rt) (t n : str) : option Z :=
  match lookup n (rt_services st) with Some d => lookup t (sd_tags d) | None => None end.

Lemma tagged_pairs_prio st t n p :
  NoDup (map fst (rt_services st)) -> In (n, p) (tagged_pairs st t) -> prio_of st t n = Some p.
Proof.
  intros ND H. apply In_tagged_pairs in H. destruct H as [d [HI E]].
  unfold prio_of. rewrite (In_lookup n d (rt_services st) ND HI). exact E.
Qed.

(** [n1] comes before [n2]: higher priority first, then names ascending *)
Definition tag_before (st : rt) (t n1 n2 : str) : Prop :=
  exists p1 p2, prio_of st t n1 = Some p1 /\ prio_of st t n2 = Some p2 /\
                ((p2 < p1)%Z \/ (p1 = p2 /\ str_ltb n2 n1 = false)).

Lemma StronglySorted_map {A B} (R : A -> A -> Prop) (R' : B -> B -> Prop) (f : A -> B) l :
  (forall a b, In a l -> In b l -> R a b -> R' (f a) (f b)) ->
  StronglySorted R l -> StronglySorted R' (map f l).
Proof.
  intros H S. induction S as [|a l S IH F]; cbn [map]; constructor.
  - apply IH. intros x y Hx Hy. apply H; right; assumption.
  - rewrite Forall_forall in *. intros y Hy. apply in_map_iff in Hy. destruct Hy as [b [<- Hb]].
    apply H; [left; reflexivity | right; exact Hb | apply F; exact Hb].
Qed.

Theorem tagged_sorted st t :
  NoDup (map fst (rt_services st)) -> StronglySorted (tag_before st t) (tagged st t).
Proof.
  intros ND. rewrite tagged_eq.
  apply (StronglySorted_map (le_of tag_lt)); [|apply tagged_pairs_sorted].
  intros [n1 p1] [n2 p2] H1 H2 H. exists p1, p2. cbn [fst].
  split; [eapply tagged_pairs_prio; eassumption|]. split; [eapply tagged_pairs_prio; eassumption|].
  unfold le_of in H. apply tag_le_spec in H. exact H.
Qed.

Lemma StronglySorted_split {A} (R : A -> A -> Prop) l1 x l2 y l3 :
  StronglySorted R (l1 ++ x :: l2 ++ y :: l3) -> R x y.
Proof.
  induction l1 as [|a l1 IH]; cbn [app]; intros S; inversion S as [|? ? S' F]; subst.
  - rewrite Forall_forall in F. apply F. apply in_or_app. right. left. reflexivity.
  - apply IH; exact S'.
Qed.

(** any earlier [n1] and later [n2] *)
Corollary tagged_order st t l1 n1 l2 n2 l3 :
  NoDup (map fst (rt_services st)) -> tagged st t = l1 ++ n1 :: l2 ++ n2 :: l3 -> tag_before st t n1 n2.
Proof. intros ND E. eapply StronglySorted_split. rewrite <- E. apply tagged_sorted; exact ND. Qed.

(** ** [tagged] is a permutation of the names of the services carrying the tag *)

Definition carries (t : str) (kv : str * sdef) : bool := match lookup t (sd_tags (snd kv)) with Some _ => true | None => false end.

Lemma carriers_names st t : map fst (carriers st t) = map fst (filter (carries t) (rt_services st)).
Proof.
  unfold carriers, carries. induction (rt_services st) as [|[n d] l IH]; [reflexivity|].
  cbn [flat_map filter fst snd]. destruct (lookup t (sd_tags d)); cbn [app map fst]; rewrite IH; reflexivity.
Qed.

Theorem tagged_perm st t : Permutation (tagged st t) (map fst (filter (carries t) (rt_services st))).
Proof. rewrite tagged_eq, <- carriers_names. apply Permutation_map. apply sort_by_perm. Qed.

Lemma In_tagged st t n :
  In n (tagged st t) <-> exists d, In (n, d) (rt_services st) /\ lookup t (sd_tags d) <> None.
Proof.
  rewrite tagged_eq, in_map_iff. split.
  - intros [[n' p] [<- H]]. apply In_tagged_pairs in H. destruct H as [d [HI E]]. exists d. split; [exact HI|congruence].
  - intros [d [HI E]]. destruct (lookup t (sd_tags d)) as [p|] eqn:El; [|congruence].
    exists (n, p). split; [reflexivity|]. apply In_tagged_pairs. exists d. split; assumption.
Qed.

Lemma tagged_NoDup st t : NoDup (map fst (rt_services st)) -> NoDup (tagged st t).
Proof.
  intros ND. eapply Permutation_NoDup; [apply Permutation_sym, tagged_perm|].
  induction (rt_services st) as [|[n d] l IH]; cbn [filter map]; [constructor|].
  cbn [map fst] in ND. inversion ND as [|? ? Hn ND']; subst.
  destruct (carries t (n, d)); [|apply IH; exact ND'].
  cbn [map fst]. constructor; [|apply IH; exact ND'].
  intros H. apply Hn. apply in_map_iff in H. destruct H as [kv [E H]]. apply filter_In in H.
  apply in_map_iff. exists kv. split; [exact E|apply H].
Qed.

(** with distinct service names the order is strict: equal priorities are ordered by strictly ascending name *)
Corollary tagged_order_strict st t l1 n1 l2 n2 l3 :
  NoDup (map fst (rt_services st)) -> tagged st t = l1 ++ n1 :: l2 ++ n2 :: l3 ->
  exists p1 p2, prio_of st t n1 = Some p1 /\ prio_of st t n2 = Some p2 /\
                ((p2 < p1)%Z \/ (p1 = p2 /\ str_ltb n1 n2 = true)).
Proof.
  intros ND E. destruct (tagged_order st t l1 n1 l2 n2 l3 ND E) as [p1 [p2 [H1 [H2 H]]]].
  exists p1, p2. split; [exact H1|]. split; [exact H2|].
  destruct H as [H|[Ep H]]; [left; exact H|right; split; [exact Ep|]].
  assert (Hne : n1 <> n2).
  { pose proof (tagged_NoDup st t ND) as N. rewrite E in N.
    apply NoDup_remove_2 in N. intros ->. apply N. apply in_or_app. right. apply in_or_app. right. left. reflexivity. }
  destruct (str_ltb_trichotomy n1 n2) as [T|[T|T]]; [exact T|contradiction|congruence].
Qed.

(** ** [resolve_dep (DTag t)] *)

Section TagLoop.
  Variable depsf : rt -> str -> list str.
  Variable f : nat.

  (** the inner [fix each] of [resolve_dep]'s [DTag] case *)
  Fixpoint tag_loop (l : list str) (st : rt) (b : bag) (acc : list value) : (rt * bag) * result value :=
    match l with
    | [] => ((st, b), ROk (VList (rev acc)))
    | n :: l' => match get depsf f st b n with
                 | ((st', b'), ROk v) => tag_loop l' st' b' (v :: acc)
                 | ((st', b'), RErr e) => ((st', b'), RErr e)
                 end
    end.

  Lemma resolve_dep_tag st b t : resolve_dep depsf (S f) st b (DTag t) = tag_loop (tagged st t) st b [].
  Proof. reflexivity. Qed.

  (** [get] on each name in turn, threading the state and the bag *)
  Inductive gets_chain : rt -> bag -> list str -> rt -> bag -> list value -> Prop :=
  | gc_nil st b : gets_chain st b [] st b []
  | gc_cons st b n l st1 b1 v st2 b2 vs :
      get depsf f st b n = ((st1, b1), ROk v) -> gets_chain st1 b1 l st2 b2 vs -> gets_chain st b (n :: l) st2 b2 (v :: vs).

  Lemma gets_chain_length st b l st' b' vs : gets_chain st b l st' b' vs -> length vs = length l.
  Proof. induction 1; cbn [length]; congruence. Qed.

  Lemma tag_loop_ok l : forall st b acc st' b' v,
    tag_loop l st b acc = ((st', b'), ROk v) <-> exists vs, gets_chain st b l st' b' vs /\ v = VList (rev acc ++ vs).
  Proof.
    induction l as [|n l IH]; intros st b acc st' b' v; cbn [tag_loop].
    - split.
      + intros H. inversion H; subst. exists []. split; [constructor|]. rewrite app_nil_r. reflexivity.
      + intros [vs [C ->]]. inversion C; subst. rewrite app_nil_r. reflexivity.
    - destruct (get depsf f st b n) as [[st1 b1] [v1|e]] eqn:G.
      + rewrite IH. split.
        * intros [vs [C ->]]. exists (v1 :: vs). split; [econstructor; eassumption|].
          cbn [rev]. rewrite <- app_assoc. reflexivity.
        * intros [vs [C ->]]. inversion C; subst.
          match goal with H1 : get _ _ _ _ _ = (_, ROk ?w), H2 : get _ _ _ _ _ = _ |- _ => rewrite H1 in H2; inversion H2; subst end.
          eexists. split; [eassumption|]. cbn [rev]. rewrite <- app_assoc. reflexivity.
      + split; [discriminate|]. intros [vs [C _]]. inversion C; subst. congruence.
  Qed.

  (** on success the result is the list of the [get] results on [tagged st t], in that order *)
  Theorem resolve_dep_tag_ok st b t st' b' v :
    resolve_dep depsf (S f) st b (DTag t) = ((st', b'), ROk v) <->
    exists vs, gets_chain st b (tagged st t) st' b' vs /\ v = VList vs.
  Proof. rewrite resolve_dep_tag, tag_loop_ok. reflexivity. Qed.

  Corollary resolve_dep_tag_length st b t st' b' v :
    resolve_dep depsf (S f) st b (DTag t) = ((st', b'), ROk v) ->
    exists vs, v = VList vs /\ length vs = length (tagged st t).
  Proof.
    intros H. apply resolve_dep_tag_ok in H. destruct H as [vs [C ->]].
    exists vs. split; [reflexivity|]. eapply gets_chain_length; exact C.
  Qed.

  (** the first failing [get] is the result; nothing after it is evaluated *)
  Lemma tag_loop_err l1 n l2 : forall st b acc st1 b1 vs st2 b2 e,
    gets_chain st b l1 st1 b1 vs -> get depsf f st1 b1 n = ((st2, b2), RErr e) ->
    tag_loop (l1 ++ n :: l2) st b acc = ((st2, b2), RErr e).
  Proof.
    induction l1 as [|m l1 IH]; intros st b acc st1 b1 vs st2 b2 e C G; inversion C; subst; cbn [app tag_loop].
    - rewrite G. reflexivity.
    - match goal with H : get _ _ _ _ _ = (_, ROk _) |- _ => rewrite H end. eapply IH; eassumption.
  Qed.
End TagLoop.


(** * 2. Patterns and parameters (C03) *)

(** [get_param], [eval_tok], [eval_pattern] do not depend on [depsf]: they are not abstracted over the section variable. *)

(** the inner [fix cat] of [eval_pattern], as a top-level function *)
Section CatLoop.
  Variable f : nat.
  Fixpoint cat_loop (l : list rtok) (st : rt) (acc : str) : rt * result value :=
    match l with
    | [] => (st, ROk (VStr acc))
    | t :: l' =>
      match eval_tok f st t with
      | (st1, ROk v) => match cast_to_string v with ROk x => cat_loop l' st1 (acc ++ x) | RErr e => (st1, RErr e) end
      | (st1, RErr e) => (st1, RErr e)
      end
    end.
End CatLoop.

Lemma eval_pattern_unfold f st toks :
  eval_pattern (S f) st toks = match toks with [t] => eval_tok f st t | _ => cat_loop f toks st [] end.
Proof. reflexivity. Qed.

(** a single chunk keeps the value and its type *)
Theorem eval_pattern_single f st t : eval_pattern (S f) st [t] = eval_tok f st t.
Proof. reflexivity. Qed.

Lemma eval_pattern_multi f st toks : length toks <> 1 -> eval_pattern (S f) st toks = cat_loop f toks st [].
Proof. destruct toks as [|t [|t' l]]; cbn [length]; intros H; [reflexivity|lia|reflexivity]. Qed.

Lemma get_param_0 st id : get_param 0 st id = (st, RErr (s "out of fuel")). Proof. reflexivity. Qed.
Lemma eval_tok_0 st t : eval_tok 0 st t = (st, RErr (s "out of fuel")). Proof. reflexivity. Qed.
Lemma eval_pattern_0 st toks : eval_pattern 0 st toks = (st, RErr (s "out of fuel")). Proof. reflexivity. Qed.

(** ** tokens *)
Lemma eval_tok_lit f st x : eval_tok (S f) st (KLit x) = (st, ROk (VStr x)). Proof. reflexivity. Qed.
Lemma eval_tok_percent f st : eval_tok (S f) st KPercent = (st, ROk (VStr (s "%"))). Proof. reflexivity. Qed.
Lemma eval_tok_ref f st n : eval_tok (S f) st (KRef n) = get_param f st n. Proof. reflexivity. Qed.
Lemma eval_tok_call f st o a l :
  eval_tok (S f) st (KCall o a l) =
  match call_fn st o a l with
  | ROk v => (with_trace st (s "fn:" ++ o), ROk v)
  | RErr e => (with_trace st (s "fn:" ++ o), RErr (s "cannot execute " ++ l ++ s ": provider returned error: " ++ e))
  end.
Proof. reflexivity. Qed.

(** ** [cast_to_string] *)
Lemma cast_str x : cast_to_string (VStr x) = ROk x. Proof. reflexivity. Qed.
Lemma cast_true : cast_to_string (VBool true) = ROk (s "true"). Proof. reflexivity. Qed.
Lemma cast_false : cast_to_string (VBool false) = ROk (s "false"). Proof. reflexivity. Qed.
Lemma cast_nil : cast_to_string VNil = ROk (s "nil"). Proof. reflexivity. Qed.
Lemma cast_num k t : cast_to_string (VNum k t) = ROk t. Proof. reflexivity. Qed.
Lemma cast_obj o a fl lg sr : cast_to_string (VObj o a fl lg sr) = RErr (s "is not supported"). Proof. reflexivity. Qed.
Lemma cast_list l : cast_to_string (VList l) = RErr (s "is not supported"). Proof. reflexivity. Qed.
Lemma cast_container : cast_to_string VContainer = RErr (s "is not supported"). Proof. reflexivity. Qed.

Lemma cast_err v e : cast_to_string v = RErr e -> e = s "is not supported".
Proof. destruct v as [|[|]| | | | |]; cbn [cast_to_string]; intros H; inversion H; reflexivity. Qed.

Theorem cast_to_string_table v :
  cast_to_string v =
  match v with
  | VStr x => ROk x | VBool b => ROk (if b then s "true" else s "false") | VNil => ROk (s "nil") | VNum _ t => ROk t
  | VObj _ _ _ _ _ | VList _ | VContainer => RErr (s "is not supported")
  end.
Proof. destruct v as [|[|]| | | | |]; reflexivity. Qed.

(** ** multi-chunk patterns: every chunk is cast to a string and the strings are concatenated *)

(** all tokens evaluate, left to right threading the state, to values that cast to the strings [xs] *)
Inductive toks_ok (f : nat) : rt -> list rtok -> rt -> list str -> Prop :=
| to_nil st : toks_ok f st [] st []
| to_cons st t st1 v x l st2 xs :
    eval_tok f st t = (st1, ROk v) -> cast_to_string v = ROk x -> toks_ok f st1 l st2 xs -> toks_ok f st (t :: l) st2 (x :: xs).

(** some token fails (to evaluate, or to cast), the earlier ones being fine *)
Inductive toks_fail (f : nat) : rt -> list rtok -> rt -> str -> Prop :=
| tf_eval st t l st1 e : eval_tok f st t = (st1, RErr e) -> toks_fail f st (t :: l) st1 e
| tf_cast st t l st1 v e : eval_tok f st t = (st1, ROk v) -> cast_to_string v = RErr e -> toks_fail f st (t :: l) st1 e
| tf_later st t l st1 v x st2 e :
    eval_tok f st t = (st1, ROk v) -> cast_to_string v = ROk x -> toks_fail f st1 l st2 e -> toks_fail f st (t :: l) st2 e.

Lemma cat_loop_ok f st l st' xs : toks_ok f st l st' xs -> forall acc, cat_loop f l st acc = (st', ROk (VStr (acc ++ concat xs))).
Proof.
  induction 1 as [st|st t st1 v x l st2 xs Ht Hc _ IH]; intros acc; cbn [cat_loop concat].
  - rewrite app_nil_r. reflexivity.
  - rewrite Ht, Hc, IH, app_assoc. reflexivity.
Qed.

Lemma cat_loop_fail f st l st' e : toks_fail f st l st' e -> forall acc, cat_loop f l st acc = (st', RErr e).
Proof.
  induction 1 as [st t l st1 e Ht|st t l st1 v e Ht Hc|st t l st1 v x st2 e Ht Hc _ IH]; intros acc; cbn [cat_loop]; rewrite Ht.
  - reflexivity.
  - rewrite Hc. reflexivity.
  - rewrite Hc. apply IH.
Qed.

Lemma cat_loop_inv f l : forall st acc st' r, cat_loop f l st acc = (st', r) ->
  (exists xs, toks_ok f st l st' xs /\ r = ROk (VStr (acc ++ concat xs))) \/ (exists e, toks_fail f st l st' e /\ r = RErr e).
Proof.
  induction l as [|t l IH]; intros st acc st' r H; cbn [cat_loop] in H.
  - inversion H; subst. left. exists []. split; [constructor|]. cbn [concat]. rewrite app_nil_r. reflexivity.
  - destruct (eval_tok f st t) as [st1 [v|e]] eqn:Ht.
    + destruct (cast_to_string v) as [x|e] eqn:Hc.
      * apply IH in H. destruct H as [[xs [Hok ->]]|[e [Hf ->]]].
        -- left. exists (x :: xs). split; [econstructor; eassumption|]. cbn [concat]. rewrite app_assoc. reflexivity.
        -- right. exists e. split; [eapply tf_later; eassumption|reflexivity].
      * inversion H; subst. right. exists e. split; [eapply tf_cast; eassumption|reflexivity].
    + inversion H; subst. right. exists e. split; [eapply tf_eval; eassumption|reflexivity].
Qed.

Theorem multi_chunk_ok f st toks st' xs :
  length toks <> 1 -> toks_ok f st toks st' xs -> eval_pattern (S f) st toks = (st', ROk (VStr (concat xs))).
Proof. intros HL H. rewrite (eval_pattern_multi f st toks HL). apply (cat_loop_ok f st toks st' xs H []). Qed.

Theorem multi_chunk_fail f st toks st' e :
  length toks <> 1 -> toks_fail f st toks st' e -> eval_pattern (S f) st toks = (st', RErr e).
Proof. intros HL H. rewrite (eval_pattern_multi f st toks HL). apply (cat_loop_fail f st toks st' e H []). Qed.

(** the version of the task statement: at least two chunks *)
Corollary multi_chunk_ok2 f st toks st' xs :
  2 <= length toks -> toks_ok f st toks st' xs -> eval_pattern (S f) st toks = (st', ROk (VStr (concat xs))).
Proof. intros HL. apply multi_chunk_ok. lia. Qed.
Corollary multi_chunk_fail2 f st toks st' e :
  2 <= length toks -> toks_fail f st toks st' e -> eval_pattern (S f) st toks = (st', RErr e).
Proof. intros HL. apply multi_chunk_fail. lia. Qed.

(** conversely these are the only two outcomes; in particular a multi-chunk pattern never yields anything but a string *)
Theorem multi_chunk_inv f st toks st' r :
  length toks <> 1 -> eval_pattern (S f) st toks = (st', r) ->
  (exists xs, toks_ok f st toks st' xs /\ r = ROk (VStr (concat xs))) \/ (exists e, toks_fail f st toks st' e /\ r = RErr e).
Proof. intros HL H. rewrite (eval_pattern_multi f st toks HL) in H. apply cat_loop_inv in H. exact H. Qed.

Corollary multi_chunk_is_string f st toks st' v :
  length toks <> 1 -> eval_pattern (S f) st toks = (st', ROk v) -> exists x, v = VStr x.
Proof.
  intros HL H. destruct (multi_chunk_inv f st toks st' (ROk v) HL H) as [[xs [_ E]]|[e [_ E]]]; [|discriminate].
  inversion E. eexists; reflexivity.
Qed.

(** ** parameters *)

Definition param_body (f : nat) (st : rt) (d : rdep) : rt * result value :=
  match d with
  | DLit p => (st, ROk (value_of_prim p))
  | DValue v => (st, ROk v)
  | DPattern toks => eval_pattern f st toks
  | _ => (st, RErr (s "invalid dependency"))
  end.

Lemma get_param_unfold f st id :
  get_param (S f) st id =
  match lookup id (rt_params st) with
  | None => (st, RErr (s "param does not exist"))
  | Some d =>
    match lookup id (rt_pcache st) with
    | Some v => (st, ROk v)
    | None =>
      let '(st1, r) := param_body f st d in
      match r with
      | ROk v => (with_pcache st1 (assoc_set id v (rt_pcache st1)), ROk v)
      | RErr e => (st1, RErr e)
      end
    end
  end.
Proof. reflexivity. Qed.

(** what parameter evaluation leaves alone: everything but the parameter cache and the trace *)
Record pframe (st st' : rt) : Prop := {
  pf_params : rt_params st' = rt_params st;
  pf_services : rt_services st' = rt_services st;
  pf_shared : rt_shared st' = rt_shared st;
  pf_decorators : rt_decorators st' = rt_decorators st;
  pf_bags : rt_bags st' = rt_bags st;
  pf_serial : rt_serial st' = rt_serial st;
  pf_env : rt_env st' = rt_env st }.

Lemma pframe_refl st : pframe st st.
Proof. constructor; reflexivity. Qed.
Lemma pframe_trans a b c : pframe a b -> pframe b c -> pframe a c.
Proof. intros [] []. constructor; congruence. Qed.
Lemma pframe_with_pcache st c : pframe st (with_pcache st c).
Proof. constructor; reflexivity. Qed.
Lemma pframe_with_trace st e : pframe st (with_trace st e).
Proof. constructor; reflexivity. Qed.

Lemma cat_loop_frame f :
  (forall st t st' r, eval_tok f st t = (st', r) -> pframe st st') ->
  forall l st acc st' r, cat_loop f l st acc = (st', r) -> pframe st st'.
Proof.
  intros IHt. induction l as [|t l IH]; intros st acc st' r H; cbn [cat_loop] in H.
  - inversion H; subst. apply pframe_refl.
  - destruct (eval_tok f st t) as [st1 [v|e]] eqn:Ht; pose proof (IHt _ _ _ _ Ht) as F1.
    + destruct (cast_to_string v) as [x|e]; [|inversion H; subst; exact F1].
      eapply pframe_trans; [exact F1|eapply IH; exact H].
    + inversion H; subst; exact F1.
Qed.

Lemma param_frames f :
  (forall st id st' r, get_param f st id = (st', r) -> pframe st st') /\
  (forall st t st' r, eval_tok f st t = (st', r) -> pframe st st') /\
  (forall st toks st' r, eval_pattern f st toks = (st', r) -> pframe st st').
Proof.
  induction f as [|f (IHp & IHt & IHpat)].
  - split; [|split]; intros ? ? ? ? H; inversion H; subst; apply pframe_refl.
  - split; [|split].
    + intros st id st' r H. rewrite get_param_unfold in H.
      destruct (lookup id (rt_params st)) as [d|]; [|inversion H; subst; apply pframe_refl].
      destruct (lookup id (rt_pcache st)) as [v|]; [inversion H; subst; apply pframe_refl|].
      destruct (param_body f st d) as [st1 r1] eqn:B.
      assert (F1 : pframe st st1).
      { destruct d; cbn [param_body] in B; try (inversion B; subst; apply pframe_refl). eapply IHpat; exact B. }
      destruct r1 as [v|e]; inversion H; subst; [|exact F1].
      eapply pframe_trans; [exact F1|apply pframe_with_pcache].
    + intros st t st' r H. destruct t as [x| |n|o a l].
      * inversion H; subst; apply pframe_refl.
      * inversion H; subst; apply pframe_refl.
      * rewrite eval_tok_ref in H. eapply IHp; exact H.
      * rewrite eval_tok_call in H. destruct (call_fn st o a l); inversion H; subst; apply pframe_with_trace.
    + intros st toks st' r H. rewrite eval_pattern_unfold in H.
      destruct toks as [|t [|t' l]]; try (eapply (cat_loop_frame f IHt); exact H).
      eapply IHt; exact H.
Qed.

(** [get_param] never changes the definitions, the service caches or the serial *)
Theorem get_param_frame f st id st' r : get_param f st id = (st', r) -> pframe st st'.
Proof. apply (param_frames f). Qed.
Theorem eval_tok_frame f st t st' r : eval_tok f st t = (st', r) -> pframe st st'.
Proof. apply (param_frames f). Qed.
Theorem eval_pattern_frame f st toks st' r : eval_pattern f st toks = (st', r) -> pframe st st'.
Proof. apply (param_frames f). Qed.

(** parameters are cached *)
Theorem get_param_cached f st id st' v :
  get_param f st id = (st', ROk v) -> lookup id (rt_pcache st') = Some v.
Proof.
  destruct f as [|f]; [intros H; inversion H|]. rewrite get_param_unfold.
  destruct (lookup id (rt_params st)) as [d|]; [|intros H; inversion H].
  destruct (lookup id (rt_pcache st)) as [v0|] eqn:C; [intros H; inversion H; subst; exact C|].
  destruct (param_body f st d) as [st1 [v1|e]]; intros H; inversion H; subst.
  cbn [with_pcache rt_pcache]. apply lookup_assoc_set_same.
Qed.

Theorem get_param_again f st id st' v :
  get_param f st id = (st', ROk v) -> forall f', get_param (S f') st' id = (st', ROk v).
Proof.
  intros H f'. pose proof (get_param_cached _ _ _ _ _ H) as C. pose proof (get_param_frame _ _ _ _ _ H) as F.
  rewrite get_param_unfold, (pf_params _ _ F), C.
  destruct f as [|f]; [inversion H|]. rewrite get_param_unfold in H.
  destruct (lookup id (rt_params st)); [reflexivity|inversion H].
Qed.

(** the value was computed from a definition: a successful [get_param] means the parameter exists *)
Lemma get_param_ok_exists f st id st' v : get_param f st id = (st', ROk v) -> lookup id (rt_params st) <> None.
Proof.
  destruct f as [|f]; [intros H; inversion H|]. rewrite get_param_unfold.
  destruct (lookup id (rt_params st)); [congruence|intros H; inversion H].
Qed.

(** ** errors are not cached

    In-progress parameters [W] (all uncached) each wait for a parameter that is in progress or is the one being evaluated now:
    then none of them can be completed by the current evaluation, so none gets cached. *)
Definition is_err {A} (r : result A) : Prop := match r with RErr _ => True | ROk _ => False end.

Section NoCacheOnError.
  Variable ps : list (str * rdep).

  Definition waits (W : list str) (cur : str) : Prop :=
    forall w, In w W -> exists toks y, lookup w ps = Some (DPattern toks) /\ In (KRef y) toks /\ (In y W \/ cur = y).
  Definition uncached (W : list str) (st : rt) : Prop := forall w, In w W -> lookup w (rt_pcache st) = None.

  Lemma waits_push W id toks y :
    lookup id ps = Some (DPattern toks) -> In (KRef y) toks -> waits W id -> waits (id :: W) y.
  Proof.
    intros Hd Hy HW w [<-|Hw].
    - exists toks, y. split; [exact Hd|]. split; [exact Hy|]. right; reflexivity.
    - destruct (HW w Hw) as [toks' [y' [Hd' [Hy' Hor]]]]. exists toks', y'. split; [exact Hd'|]. split; [exact Hy'|].
      left. destruct Hor as [Hor|<-]; [right; exact Hor|left; reflexivity].
  Qed.

  Definition cat_inv (f : nat) : Prop :=
    forall W st t st' r, rt_params st = ps -> uncached W st -> (forall y, t = KRef y -> waits W y) ->
      eval_tok f st t = (st', r) ->
      uncached W st' /\ (forall y, t = KRef y -> In y W -> is_err r).

  Lemma cat_loop_blocked f W : cat_inv f ->
    forall l st acc st' r, rt_params st = ps -> uncached W st -> (forall y, In (KRef y) l -> waits W y) ->
      cat_loop f l st acc = (st', r) ->
      uncached W st' /\ (forall y, In (KRef y) l -> In y W -> is_err r).
  Proof.
    intros IHt. induction l as [|t l IH]; intros st acc st' r HP HU HW H; cbn [cat_loop] in H.
    - inversion H; subst. split; [exact HU|]. intros y [].
    - destruct (eval_tok f st t) as [st1 r1] eqn:Ht.
      assert (HW1 : forall y, t = KRef y -> waits W y) by (intros y ->; apply HW; left; reflexivity).
      destruct (IHt W st t st1 r1 HP HU HW1 Ht) as [HU1 HE1].
      assert (HP1 : rt_params st1 = ps) by (rewrite (pf_params _ _ (eval_tok_frame _ _ _ _ _ Ht)); exact HP).
      destruct r1 as [v|e]; [|inversion H; subst; split; [exact HU1|intros; exact I]].
      destruct (cast_to_string v) as [x|e]; [|inversion H; subst; split; [exact HU1|intros; exact I]].
      assert (HW2 : forall y, In (KRef y) l -> waits W y) by (intros y Hy; apply HW; right; exact Hy).
      destruct (IH st1 (acc ++ x) st' r HP1 HU1 HW2 H) as [HU2 HE2].
      split; [exact HU2|]. intros y [Hy|Hy] Hin; [|apply (HE2 y); assumption].
      destruct (HE1 y Hy Hin).
  Qed.

  Lemma blocked f :
    (forall W st id st' r, rt_params st = ps -> uncached W st -> waits W id ->
       get_param f st id = (st', r) ->
       uncached W st' /\ (In id W -> is_err r) /\ (is_err r -> lookup id (rt_pcache st') = lookup id (rt_pcache st))) /\
    cat_inv f /\
    (forall W st toks st' r, rt_params st = ps -> uncached W st -> (forall y, In (KRef y) toks -> waits W y) ->
       eval_pattern f st toks = (st', r) ->
       uncached W st' /\ (forall y, In (KRef y) toks -> In y W -> is_err r)).
  Proof.
    induction f as [|f (IHp & IHt & IHpat)].
    - split; [|split].
      + intros W st id st' r _ HU _ H. inversion H; subst. split; [exact HU|]. split; intros; [exact I|reflexivity].
      + intros W st t st' r _ HU _ H. inversion H; subst. split; [exact HU|]. intros; exact I.
      + intros W st toks st' r _ HU _ H. inversion H; subst. split; [exact HU|]. intros; exact I.
    - split; [|split].
      + intros W st id st' r HP HU HW H. rewrite get_param_unfold, HP in H.
        destruct (lookup id ps) as [d|] eqn:Hd.
        2:{ inversion H; subst. split; [exact HU|]. split; intros; [exact I|reflexivity]. }
        destruct (lookup id (rt_pcache st)) as [v0|] eqn:C.
        { inversion H; subst. split; [exact HU|]. split; [|intros []].
          intros Hin. rewrite (HU id Hin) in C. discriminate. }
        destruct (param_body f st d) as [st1 r1] eqn:B.
        assert (HU' : uncached (id :: W) st) by (intros w [<-|Hw]; [exact C|apply HU; exact Hw]).
        assert (S1 : uncached (id :: W) st1 /\ (In id W -> is_err r1)).
        { destruct d as [p|v| | | |toks]; cbn [param_body] in B;
            try (inversion B; subst; split; [exact HU'|];
                 intros Hin; destruct (HW id Hin) as [toks' [y' [Hd' _]]]; rewrite Hd in Hd'; discriminate).
          assert (HW' : forall y, In (KRef y) toks -> waits (id :: W) y)
            by (intros y Hy; eapply waits_push; eassumption).
          destruct (IHpat (id :: W) st toks st1 r1 HP HU' HW' B) as [HU1 HE1].
          split; [exact HU1|]. intros Hin. destruct (HW id Hin) as [toks' [y' [Hd' [Hy' Hor]]]].
          rewrite Hd in Hd'. inversion Hd'; subst toks'.
          apply (HE1 y' Hy'). destruct Hor as [Hor|<-]; [right; exact Hor|left; reflexivity]. }
        destruct S1 as [HU1 HE1].
        destruct r1 as [v|e]; inversion H; subst.
        * split; [|split; [exact HE1|intros []]].
          intros w Hw. cbn [with_pcache rt_pcache].
          rewrite lookup_assoc_set_other; [apply HU1; right; exact Hw|].
          intros ->. exact (HE1 Hw).
        * split; [intros w Hw; apply HU1; right; exact Hw|]. split; [intros; exact I|].
          intros _. rewrite ?C. apply HU1. left; reflexivity.
      + intros W st t st' r HP HU HW H. destruct t as [x| |n|o a l].
        * inversion H; subst. split; [exact HU|]. intros y Hy; discriminate Hy.
        * inversion H; subst. split; [exact HU|]. intros y Hy; discriminate Hy.
        * rewrite eval_tok_ref in H. destruct (IHp W st n st' r HP HU (HW n eq_refl) H) as [HU1 [HE1 _]].
          split; [exact HU1|]. intros y Hy. inversion Hy; subst. exact HE1.
        * rewrite eval_tok_call in H. split; [|intros y Hy; discriminate Hy].
          destruct (call_fn st o a l); inversion H; subst; exact HU.
      + intros W st toks st' r HP HU HW H. rewrite eval_pattern_unfold in H.
        destruct toks as [|t [|t' l]]; try (eapply (cat_loop_blocked f W IHt); eassumption).
        assert (HW1 : forall y, t = KRef y -> waits W y) by (intros y ->; apply HW; left; reflexivity).
        destruct (IHt W st t st' r HP HU HW1 H) as [HU1 HE1].
        split; [exact HU1|]. intros y [Hy|[]]. apply HE1. exact Hy.
  Qed.
End NoCacheOnError.

(** errors are not cached: a failing [get_param] leaves the cache entry of its parameter as it was *)
Theorem get_param_err_not_cached f st id st' e :
  get_param f st id = (st', RErr e) -> lookup id (rt_pcache st') = lookup id (rt_pcache st).
Proof.
  intros H.
  destruct (proj1 (blocked (rt_params st) f) [] st id st' (RErr e) eq_refl) as [_ [_ HE]]; [intros w []|intros w []|exact H|].
  apply HE. exact I.
Qed.

(** a bonus of the same invariant: parameters on a reference cycle (each one of [W] refers to one of [W]) never evaluate,
    whatever the fuel, and never get cached *)
Theorem param_cycle_fails f st W id st' r :
  (forall w, In w W -> exists toks y, lookup w (rt_params st) = Some (DPattern toks) /\ In (KRef y) toks /\ In y W) ->
  (forall w, In w W -> lookup w (rt_pcache st) = None) ->
  In id W -> get_param f st id = (st', r) ->
  is_err r /\ (forall w, In w W -> lookup w (rt_pcache st') = None).
Proof.
  intros HW HU Hin H.
  destruct (proj1 (blocked (rt_params st) f) W st id st' r eq_refl HU) as [HU1 [HE _]]; [|exact H|].
  - intros w Hw. destruct (HW w Hw) as [toks [y [Hd [Hy HyW]]]]. exists toks, y. auto.
  - split; [apply HE; exact Hin|exact HU1].
Qed.

(** * The shape of [get]: the inner loops as top-level functions *)

Definition cached_of (sc : oscope) (st : rt) (b : bag) (id : str) : option value :=
  match sc with OScShared => lookup id (rt_shared st) | OScContextual => lookup id b | _ => None end.

(** store in the cache that matches the scope *)
Definition store (sc : oscope) (id : str) (v : value) (st : rt) (b : bag) : (rt * bag) * result value :=
  match sc with
  | OScShared => ((with_shared st (assoc_set id v (rt_shared st)), b), ROk v)
  | OScContextual => ((st, assoc_set id v b), ROk v)
  | _ => ((st, b), ROk v)
  end.

Section GetShape.
  Variable depsf : rt -> str -> list str.
  Variable f : nat.

  (** the inner [fix each] of [resolve_deps]: every dependency is evaluated; the first error is kept in [err] *)
  Fixpoint deps_loop (l : list rdep) (st : rt) (b : bag) (acc : list value) (err : option str) : (rt * bag) * result (list value) :=
    match l with
    | [] => ((st, b), fin err (rev acc))
    | d :: l' => match resolve_dep depsf f st b d with
                 | ((st', b'), ROk v) => deps_loop l' st' b' (v :: acc) err
                 | ((st', b'), RErr e) => deps_loop l' st' b' acc (keep_err err e)
                 end
    end.

  Lemma resolve_deps_unfold st b ds : resolve_deps depsf (S f) st b ds = deps_loop ds st b [] None.
  Proof. reflexivity. Qed.

  Lemma resolve_dep_unfold st b d :
    resolve_dep depsf (S f) st b d =
    match d with
    | DLit p => ((st, b), ROk (value_of_prim p))
    | DValue v => ((st, b), ROk v)
    | DService n => get depsf f st b n
    | DTag t => tag_loop depsf f (tagged st t) st b []
    | DContainer => ((st, b), ROk VContainer)
    | DPattern toks => let '(st', r) := eval_pattern f st toks in ((st', b), r)
    end.
  Proof. reflexivity. Qed.

  (** createNewService *)
  Definition create (d : sdef) (st : rt) (b : bag) : (rt * bag) * result value :=
    match sd_create d with
    | CTodo => ((st, b), RErr (s "service todo"))
    | CZero => ((st, b), ROk (VObj [] [] [] [] 0))
    | CValue v => ((st, b), ROk v)
    | CCtor o fails deps =>
      match resolve_deps depsf f st b deps with
      | ((st', b'), ROk args) =>
        let st'' := with_trace st' (s "ctor:" ++ o) in
        if fails then ((st'', b'), RErr (s "constructor failed on purpose"))
        else let '(sr, st3) := alloc st'' in ((st3, b'), ROk (VObj o args [] [] (sr + 1)))
      | ((st', b'), RErr e) => ((st', b'), RErr e)
      end
    end.

  (** setServiceFields: every field is evaluated; the first error is kept in [err] *)
  Fixpoint fields_loop (l : list (str * rdep)) (st : rt) (b : bag) (v : value) (err : option str) : (rt * bag) * result value :=
    match l with
    | [] => ((st, b), fin err v)
    | (n, dp) :: l' =>
      match resolve_dep depsf f st b dp with
      | ((st', b'), ROk x) => match obj_set v n x with ROk v' => fields_loop l' st' b' v' err | RErr e => fields_loop l' st' b' v (keep_err err e) end
      | ((st', b'), RErr e) => fields_loop l' st' b' v (keep_err err e)
      end
    end.

  (** executeServiceCalls: every call is evaluated, except after a failing wither; the first error is kept in [err] *)
  Fixpoint calls_loop (l : list rcall) (st : rt) (b : bag) (v : value) (err : option str) : (rt * bag) * result value :=
    match l with
    | [] => ((st, b), fin err v)
    | c :: l' =>
      match resolve_deps depsf f st b (rc_deps c) with
      | ((st', b'), ROk args) =>
        match obj_call v (rc_method c) args with
        | ROk v' => calls_loop l' st' b' v' err
        | RErr e => if rc_wither c then ((st', b'), RErr (match err with Some e0 => e0 | None => e end)) else calls_loop l' st' b' v (keep_err err e)
        end
      | ((st', b'), RErr e) => calls_loop l' st' b' v (keep_err err e)
      end
    end.

  (** decorateService *)
  Definition decs_loop (d : sdef) (id : str) : list ddef -> rt -> bag -> value -> (rt * bag) * result value :=
    fix decs (l : list ddef) (st : rt) (b : bag) (v : value) : (rt * bag) * result value :=
    match l with
    | [] => ((st, b), ROk v)
    | dd :: l' =>
      match lookup (dd_tag dd) (sd_tags d) with
      | None => decs l' st b v
      | Some _ =>
        match resolve_deps depsf f st b (dd_deps dd) with
        | ((st', b'), ROk args) =>
          let st'' := with_trace st' (s "dec:" ++ dd_origin dd) in
          let '(sr, st3) := alloc st'' in
          decs l' st3 b' (VObj (dd_origin dd) (VStr (dd_tag dd) :: VStr id :: v :: args) [] [] (sr + 1))
        | ((st', b'), RErr e) => ((st', b'), RErr e)
        end
      end
    end.

  (** [get], literally, with the loops named *)
  Lemma get_unfold_raw st b id :
    get depsf (S f) st b id =
    match lookup id (rt_services st) with
    | None => ((st, b), RErr (s "service does not exist"))
    | Some d =>
      let sc := resolve_scope depsf st id in
      match cached_of sc st b id with
      | Some v => ((st, b), ROk v)
      | None =>
        let '((st1, b1), r1) := create d st b in
        match r1 with
        | RErr e => ((st1, b1), RErr e)
        | ROk v1 =>
          let '((st2, b2), r2) := fields_loop (sd_fields d) st1 b1 v1 None in
          match r2 with
          | RErr e => ((st2, b2), RErr e)
          | ROk v2 =>
            let '((st3, b3), r3) := calls_loop (sd_calls d) st2 b2 v2 None in
            match r3 with
            | RErr e => ((st3, b3), RErr e)
            | ROk v3 =>
              let '((st4, b4), r4) := decs_loop d id (rt_decorators st3) st3 b3 v3 in
              match r4 with
              | RErr e => ((st4, b4), RErr e)
              | ROk v4 => store sc id v4 st4 b4
              end
            end
          end
        end
      end
    end.
  Proof. reflexivity. Qed.

  (** create -> fields -> calls -> decorators *)
  Definition build (d : sdef) (id : str) (st : rt) (b : bag) : (rt * bag) * result value :=
    match create d st b with
    | (sb1, RErr e) => (sb1, RErr e)
    | ((st1, b1), ROk v1) =>
      match fields_loop (sd_fields d) st1 b1 v1 None with
      | (sb2, RErr e) => (sb2, RErr e)
      | ((st2, b2), ROk v2) =>
        match calls_loop (sd_calls d) st2 b2 v2 None with
        | (sb3, RErr e) => (sb3, RErr e)
        | ((st3, b3), ROk v3) => decs_loop d id (rt_decorators st3) st3 b3 v3
        end
      end
    end.

  (** the top-level shape: cache lookup, else build, then store in the cache that matches the scope (only with [ROk]) *)
  Theorem get_shape st b id :
    get depsf (S f) st b id =
    match lookup id (rt_services st) with
    | None => ((st, b), RErr (s "service does not exist"))
    | Some d =>
      match cached_of (resolve_scope depsf st id) st b id with
      | Some v => ((st, b), ROk v)
      | None =>
        match build d id st b with
        | (sb4, RErr e) => (sb4, RErr e)
        | ((st4, b4), ROk v4) => store (resolve_scope depsf st id) id v4 st4 b4
        end
      end
    end.
  Proof.
    rewrite get_unfold_raw. destruct (lookup id (rt_services st)) as [d|]; [|reflexivity]. cbv zeta.
    destruct (cached_of (resolve_scope depsf st id) st b id); [reflexivity|]. unfold build.
    destruct (create d st b) as [[st1 b1] [v1|e]]; [|reflexivity].
    destruct (fields_loop (sd_fields d) st1 b1 v1 None) as [[st2 b2] [v2|e]]; [|reflexivity].
    destruct (calls_loop (sd_calls d) st2 b2 v2 None) as [[st3 b3] [v3|e]]; [|reflexivity].
    destruct (decs_loop d id (rt_decorators st3) st3 b3 v3) as [[st4 b4] [v4|e]]; reflexivity.
  Qed.

  Lemma get_0 st b id : get depsf 0 st b id = ((st, b), RErr (s "out of fuel")). Proof. reflexivity. Qed.
  Lemma resolve_dep_0 st b d : resolve_dep depsf 0 st b d = ((st, b), RErr (s "out of fuel")). Proof. reflexivity. Qed.
  Lemma resolve_deps_0 st b ds : resolve_deps depsf 0 st b ds = ((st, b), RErr (s "out of fuel")). Proof. reflexivity. Qed.

  (** * 4. Errors never become objects (C02 / C15) *)

  (** a cache hit returns the cached value and changes nothing *)
  Theorem get_cached st b id d v :
    lookup id (rt_services st) = Some d -> cached_of (resolve_scope depsf st id) st b id = Some v ->
    get depsf (S f) st b id = ((st, b), ROk v).
  Proof. intros Hd Hc. rewrite get_shape, Hd, Hc. reflexivity. Qed.

  (** a todo service: an error, and nothing at all changes *)
  Theorem get_todo st b id d :
    lookup id (rt_services st) = Some d -> sd_create d = CTodo -> cached_of (resolve_scope depsf st id) st b id = None ->
    get depsf (S f) st b id = ((st, b), RErr (s "service todo")).
  Proof. intros Hd Hc Hm. rewrite get_shape, Hd, Hm. unfold build, create. rewrite Hc. reflexivity. Qed.

  (** a failing constructor: the arguments are resolved, the constructor is traced, the result is an error and
      nothing is stored: the caches are as the resolution of the arguments left them *)
  Theorem get_failing_ctor st b id d o deps :
    lookup id (rt_services st) = Some d -> sd_create d = CCtor o true deps -> cached_of (resolve_scope depsf st id) st b id = None ->
    get depsf (S f) st b id =
    match resolve_deps depsf f st b deps with
    | ((st', b'), ROk _) => ((with_trace st' (s "ctor:" ++ o), b'), RErr (s "constructor failed on purpose"))
    | ((st', b'), RErr e) => ((st', b'), RErr e)
    end.
  Proof.
    intros Hd Hc Hm. rewrite get_shape, Hd, Hm. unfold build, create. rewrite Hc.
    destruct (resolve_deps depsf f st b deps) as [[st' b'] [args|e]]; reflexivity.
  Qed.

  Corollary get_failing_ctor_err st b id d o deps :
    lookup id (rt_services st) = Some d -> sd_create d = CCtor o true deps -> cached_of (resolve_scope depsf st id) st b id = None ->
    exists st1 b1 r1 st' e,
      resolve_deps depsf f st b deps = ((st1, b1), r1) /\
      get depsf (S f) st b id = ((st', b1), RErr e) /\
      rt_shared st' = rt_shared st1 /\ rt_serial st' = rt_serial st1 /\ rt_pcache st' = rt_pcache st1.
  Proof.
    intros Hd Hc Hm. rewrite (get_failing_ctor st b id d o deps Hd Hc Hm).
    destruct (resolve_deps depsf f st b deps) as [[st1 b1] [args|e]].
    - exists st1, b1, (ROk args), (with_trace st1 (s "ctor:" ++ o)), (s "constructor failed on purpose"). repeat split.
    - exists st1, b1, (RErr e), st1, e. repeat split.
  Qed.

  (** in general: [get] stores into the cache for [id] only together with [ROk]:
      on an error the final state is exactly the one the creation pipeline left (no [store]);
      on success either the cache was hit and nothing changes, or the pipeline succeeded and its value is stored and returned *)
  Theorem get_err_no_store st b id st' b' e :
    get depsf (S f) st b id = ((st', b'), RErr e) ->
    (lookup id (rt_services st) = None /\ st' = st /\ b' = b) \/
    (exists d, lookup id (rt_services st) = Some d /\ cached_of (resolve_scope depsf st id) st b id = None /\
               build d id st b = ((st', b'), RErr e)).
  Proof.
    rewrite get_shape. destruct (lookup id (rt_services st)) as [d|].
    2:{ intros H; inversion H; subst. left. auto. }
    destruct (cached_of (resolve_scope depsf st id) st b id) as [v|]; [intros H; inversion H|].
    destruct (build d id st b) as [[st4 b4] [v4|e4]] eqn:B.
    - unfold store. destruct (resolve_scope depsf st id); intros H; inversion H.
    - intros H; inversion H; subst. right. exists d. auto.
  Qed.

  Theorem get_ok_inv st b id st' b' v :
    get depsf (S f) st b id = ((st', b'), ROk v) ->
    exists d, lookup id (rt_services st) = Some d /\
      ((cached_of (resolve_scope depsf st id) st b id = Some v /\ st' = st /\ b' = b) \/
       (cached_of (resolve_scope depsf st id) st b id = None /\
        exists st4 b4, build d id st b = ((st4, b4), ROk v) /\ store (resolve_scope depsf st id) id v st4 b4 = ((st', b'), ROk v))).
  Proof.
    intros H. rewrite get_shape in H. destruct (lookup id (rt_services st)) as [d|]; [|inversion H].
    exists d. split; [reflexivity|].
    destruct (cached_of (resolve_scope depsf st id) st b id) as [v0|].
    { inversion H; subst. left. auto. }
    destruct (build d id st b) as [[st4 b4] [v4|e4]] eqn:B; [|inversion H].
    right. split; [reflexivity|]. exists st4, b4.
    assert (v4 = v) by (unfold store in H; destruct (resolve_scope depsf st id); inversion H; reflexivity). subst v4.
    split; [reflexivity|exact H].
  Qed.

  (** after a successful [get] of a shared / contextual service, the matching cache holds exactly the returned value *)
  Theorem get_ok_cached st b id st' b' v :
    get depsf (S f) st b id = ((st', b'), ROk v) ->
    match resolve_scope depsf st id with
    | OScShared => lookup id (rt_shared st') = Some v
    | OScContextual => lookup id b' = Some v
    | _ => True
    end.
  Proof.
    intros H. apply get_ok_inv in H. destruct H as [d [Hd [[Hc [-> ->]]|[Hc [st4 [b4 [B St]]]]]]].
    - unfold cached_of in Hc. destruct (resolve_scope depsf st id); auto.
    - unfold store in St. destruct (resolve_scope depsf st id); inversion St; subst; auto; cbn [with_shared rt_shared];
        apply lookup_assoc_set_same.
  Qed.
End GetShape.

(** * 6. Histories (C15) *)

Lemma fuel_of_S st : exists f, fuel_of st = S f.
Proof. unfold fuel_of. exists (4 * (length (rt_services st) + length (rt_params st) + length (rt_decorators st)) + 15). lia. Qed.

(** the state after [OverrideParam p v] *)
Definition overridden_param (st : rt) (p : str) (v : prim) : rt :=
  {| rt_params := assoc_set p (DLit v) (rt_params st); rt_pcache := assoc_del p (rt_pcache st); rt_services := rt_services st;
     rt_shared := rt_shared st; rt_decorators := rt_decorators st; rt_bags := rt_bags st; rt_serial := rt_serial st;
     rt_env := rt_env st; rt_trace := rt_trace st |}.

Lemma step_override_param st p v : step st (OOverrideParam p v) = (overridden_param st p v, ROk VNil).
Proof. reflexivity. Qed.

Lemma step_get_param st p : step st (OGetParam p) = get_param (fuel_of st) st p.
Proof. reflexivity. Qed.

(** reading an overridden parameter gives the overriding value (and caches it) *)
Lemma get_param_overridden st p v :
  step (overridden_param st p v) (OGetParam p) =
  (with_pcache (overridden_param st p v) (assoc_set p (value_of_prim v) (assoc_del p (rt_pcache st))), ROk (value_of_prim v)).
Proof.
  rewrite step_get_param. destruct (fuel_of_S (overridden_param st p v)) as [f ->].
  rewrite get_param_unfold. cbn [overridden_param rt_params rt_pcache].
  rewrite lookup_assoc_set_same, lookup_assoc_del_same. reflexivity.
Qed.

Theorem override_then_get st p v rest :
  exists st2 rs, run_ops st (OOverrideParam p v :: OGetParam p :: rest) = (st2, ROk VNil :: ROk (value_of_prim v) :: rs).
Proof.
  cbn [run_ops]. rewrite step_override_param, get_param_overridden.
  destruct (run_ops _ rest) as [st2 rs]. exists st2, rs. reflexivity.
Qed.

Corollary override_then_get_results st p v rest :
  exists rs, snd (run_ops st (OOverrideParam p v :: OGetParam p :: rest)) = ROk VNil :: ROk (value_of_prim v) :: rs.
Proof. destruct (override_then_get st p v rest) as [st2 [rs E]]. exists rs. rewrite E. reflexivity. Qed.

(** overriding a parameter forgets its own cache entry and leaves every other parameter's entry untouched *)
Theorem override_param_own_cache st p v : lookup p (rt_pcache (fst (step st (OOverrideParam p v)))) = None.
Proof. rewrite step_override_param. cbn [fst overridden_param rt_pcache]. apply lookup_assoc_del_same. Qed.

Theorem override_param_other_cache st p v q :
  q <> p -> lookup q (rt_pcache (fst (step st (OOverrideParam p v)))) = lookup q (rt_pcache st).
Proof. intros Hn. rewrite step_override_param. cbn [fst overridden_param rt_pcache]. apply lookup_assoc_del_other; exact Hn. Qed.

Theorem override_param_other_def st p v q :
  q <> p -> lookup q (rt_params (fst (step st (OOverrideParam p v)))) = lookup q (rt_params st).
Proof. intros Hn. rewrite step_override_param. cbn [fst overridden_param rt_params]. apply lookup_assoc_set_other; exact Hn. Qed.

(** ... and an already constructed shared service untouched (as well as the definitions, bags and serial) *)
Theorem override_param_shared st p v :
  let st' := fst (step st (OOverrideParam p v)) in
  rt_shared st' = rt_shared st /\ rt_services st' = rt_services st /\ rt_decorators st' = rt_decorators st /\
  rt_bags st' = rt_bags st /\ rt_serial st' = rt_serial st /\ rt_trace st' = rt_trace st.
Proof. repeat split. Qed.

(** [OverrideService n] removes exactly [n] from the shared cache *)
Theorem override_service_shared st n o args :
  rt_shared (fst (step st (OOverrideService n o args))) = assoc_del n (rt_shared st).
Proof. reflexivity. Qed.

Theorem override_service_own st n o args : lookup n (rt_shared (fst (step st (OOverrideService n o args)))) = None.
Proof. rewrite override_service_shared. apply lookup_assoc_del_same. Qed.

Theorem override_service_other st n o args m :
  m <> n -> lookup m (rt_shared (fst (step st (OOverrideService n o args)))) = lookup m (rt_shared st).
Proof. intros Hn. rewrite override_service_shared. apply lookup_assoc_del_other; exact Hn. Qed.

Theorem override_service_exactly st n o args kv :
  In kv (rt_shared (fst (step st (OOverrideService n o args)))) <-> In kv (rt_shared st) /\ fst kv <> n.
Proof.
  rewrite override_service_shared. unfold assoc_del. rewrite filter_In.
  destruct (str_eqb_spec (fst kv) n) as [E|E]; cbn [negb]; split; intros [H1 H2]; split; auto; try discriminate; try contradiction.
Qed.

(** the parameter cache, bags and serial are untouched by [OverrideService]; the new definition is a constructor over literals *)
Theorem override_service_rest st n o args :
  let st' := fst (step st (OOverrideService n o args)) in
  rt_pcache st' = rt_pcache st /\ rt_params st' = rt_params st /\ rt_bags st' = rt_bags st /\ rt_serial st' = rt_serial st /\
  lookup n (rt_services st') =
    Some {| sd_create := CCtor o (failing o) (map DLit args); sd_fields := []; sd_calls := []; sd_tags := []; sd_scope := OScDefault |}.
Proof. repeat split. cbn [step fst rt_services]. apply lookup_assoc_set_same. Qed.

(** * 3. Creation order (C02) *)

Lemma lookup_app {A} k (l1 l2 : list (str * A)) :
  lookup k (l1 ++ l2) = match lookup k l1 with Some v => Some v | None => lookup k l2 end.
Proof.
  induction l1 as [|[k0 v0] l1 IH]; [reflexivity|]. cbn [app]. rewrite !lookup_cons.
  destruct (str_eqb k k0); [reflexivity|exact IH].
Qed.

(** the declared fields set in order *)
Definition set_fields (kvs : list (str * value)) (m : list (str * value)) : list (str * value) :=
  fold_left (fun m kv => assoc_set (fst kv) (snd kv) m) kvs m.

(** the later [assoc_set] wins *)
Lemma lookup_set_fields k kvs : forall m,
  lookup k (set_fields kvs m) = match lookup k (rev kvs) with Some v => Some v | None => lookup k m end.
Proof.
  induction kvs as [|[k0 v0] kvs IH]; intros m; [reflexivity|].
  unfold set_fields in *. cbn [fold_left rev fst snd]. rewrite IH, lookup_app.
  destruct (lookup k (rev kvs)); [reflexivity|]. rewrite lookup_cons. cbn [lookup].
  destruct (str_eqb_spec k k0) as [->|Hn]; [apply lookup_assoc_set_same|apply lookup_assoc_set_other; exact Hn].
Qed.

(** [obj_set] / [obj_call] as total functions (identity where the partial ones fail) *)
Definition set_pure (v : value) (kv : str * value) : value :=
  match obj_set v (fst kv) (snd kv) with ROk v' => v' | RErr _ => v end.
Definition call_pure (v : value) (ca : rcall * list value) : value :=
  match obj_call v (rc_method (fst ca)) (snd ca) with ROk v' => v' | RErr _ => v end.
Definition call_entry (ca : rcall * list value) : list value := VStr (s "<" ++ rc_method (fst ca) ++ s ">") :: snd ca.

Lemma fold_set_pure kvs : forall o a fl lg sr,
  fold_left set_pure kvs (VObj o a fl lg sr) = VObj o a (set_fields kvs fl) lg sr.
Proof.
  induction kvs as [|kv kvs IH]; intros o a fl lg sr; [reflexivity|].
  cbn [fold_left]. unfold set_pure at 2. cbn [obj_set]. rewrite IH. reflexivity.
Qed.

Lemma fold_call_pure cas : forall o a fl lg sr,
  fold_left call_pure cas (VObj o a fl lg sr) =
  VObj o (a ++ concat (map call_entry cas)) fl (lg ++ map (fun ca => rc_method (fst ca)) cas) sr.
Proof.
  induction cas as [|ca cas IH]; intros o a fl lg sr.
  - cbn [fold_left map concat]. rewrite !app_nil_r. reflexivity.
  - cbn [fold_left]. unfold call_pure at 2. cbn [obj_call]. rewrite IH.
    cbn [map concat]. unfold call_entry at 2. rewrite <- !app_assoc. reflexivity.
Qed.

Lemma map_fst_combine {A B} (l : list A) (l' : list B) : length l = length l' -> map fst (combine l l') = l.
Proof.
  revert l'; induction l as [|x l IH]; intros [|y l'] H; cbn [combine map fst]; try reflexivity; try discriminate.
  f_equal. apply IH. cbn [length] in H. lia.
Qed.

(** ** accumulated errors: the first one is kept *)
Definition or_else (a b : option str) : option str := match a with Some _ => a | None => b end.
Definition is_ok {A} (r : result A) : bool := match r with ROk _ => true | RErr _ => false end.
Definition is_obj (v : value) : bool := match v with VObj _ _ _ _ _ => true | _ => false end.
(** the error of the first failing element *)
Fixpoint first_err {A} (rs : list (result A)) : option str :=
  match rs with [] => None | RErr e :: _ => Some e | ROk _ :: rs' => first_err rs' end.
(** the values of the succeeding elements *)
Fixpoint oks {A} (rs : list (result A)) : list A :=
  match rs with [] => [] | ROk a :: rs' => a :: oks rs' | RErr _ :: rs' => oks rs' end.

Lemma keep_err_or_else err e : keep_err err e = or_else err (Some e).
Proof. destruct err; reflexivity. Qed.
Lemma or_else_none err : or_else err None = err.
Proof. destruct err; reflexivity. Qed.
Lemma or_else_keep err e x : or_else (keep_err err e) x = or_else err (Some e).
Proof. destruct err; reflexivity. Qed.
Lemma fin_some {A} e (v : A) : fin (Some e) v = RErr e.
Proof. reflexivity. Qed.
Lemma fin_ok {A} err (v w : A) : fin err v = ROk w <-> err = None /\ v = w.
Proof. destruct err; cbn [fin]; split; try (intros [? ?]); try discriminate; [intros H; inversion H; auto|subst; reflexivity]. Qed.

Lemma first_err_spec {A} (rs : list (result A)) e :
  first_err rs = Some e <-> exists rs1 rs2, rs = rs1 ++ RErr e :: rs2 /\ forallb is_ok rs1 = true.
Proof.
  induction rs as [|[a|e0] rs IH]; cbn [first_err].
  - split; [discriminate|]. intros [[|r rs1] [rs2 [E _]]]; discriminate E.
  - rewrite IH. split.
    + intros [rs1 [rs2 [-> H]]]. exists (ROk a :: rs1), rs2. split; [reflexivity|exact H].
    + intros [[|r rs1] [rs2 [E H]]]; [discriminate E|]. inversion E; subst. exists rs1, rs2. split; [reflexivity|].
      cbn [forallb is_ok andb] in H. exact H.
  - split.
    + intros H; inversion H; subst. exists [], rs. split; reflexivity.
    + intros [[|r rs1] [rs2 [E H]]]; [inversion E; reflexivity|]. inversion E; subst. discriminate H.
Qed.

Lemma oks_length {A} (rs : list (result A)) : length (oks rs) <= length rs.
Proof. induction rs as [|[?|?] rs IH]; cbn [oks length]; lia. Qed.

Lemma first_err_none {A} (rs : list (result A)) : first_err rs = None <-> rs = map ROk (oks rs).
Proof.
  induction rs as [|[a|e0] rs IH]; cbn [first_err oks map].
  - split; reflexivity.
  - rewrite IH. split; [intros H; f_equal; exact H|intros H; injection H as H; exact H].
  - split; [discriminate|]. intros H. exfalso. assert (L : length (RErr e0 :: rs) = length (map ROk (oks rs))) by (rewrite <- H; reflexivity).
    cbn [length] in L. rewrite map_length in L. pose proof (oks_length rs). lia.
Qed.

Lemma first_err_oks {A} (vs : list A) : first_err (map ROk vs) = None /\ oks (map ROk vs) = vs.
Proof. induction vs as [|v vs [IH1 IH2]]; cbn [map first_err oks]; [split; reflexivity|]. rewrite IH1, IH2. split; reflexivity. Qed.

Section Creation.
  Variable depsf : rt -> str -> list str.
  Variable f : nat.

  (** ** dependency lists: each dependency in turn, threading the state and the bag *)
  Inductive deps_ok : rt -> bag -> list rdep -> rt -> bag -> list value -> Prop :=
  | dk_nil st b : deps_ok st b [] st b []
  | dk_cons st b d l st1 b1 v st2 b2 vs :
      resolve_dep depsf f st b d = ((st1, b1), ROk v) -> deps_ok st1 b1 l st2 b2 vs -> deps_ok st b (d :: l) st2 b2 (v :: vs).

  Lemma deps_ok_length st b l st' b' vs : deps_ok st b l st' b' vs -> length vs = length l.
  Proof. induction 1; cbn [length]; congruence. Qed.

  (** [resolve_dep] threaded through ALL the dependencies, whatever their results *)
  Fixpoint deps_thread (l : list rdep) (st : rt) (b : bag) : (rt * bag) * list (result value) :=
    match l with
    | [] => ((st, b), [])
    | d :: l' => match resolve_dep depsf f st b d with
                 | ((st', b'), r) => match deps_thread l' st' b' with (sb, rs) => (sb, r :: rs) end
                 end
    end.

  Lemma deps_thread_length l : forall st b, length (snd (deps_thread l st b)) = length l.
  Proof.
    induction l as [|d l IH]; intros st b; cbn [deps_thread]; [reflexivity|].
    destruct (resolve_dep depsf f st b d) as [[st1 b1] r]. specialize (IH st1 b1).
    destruct (deps_thread l st1 b1) as [sb rs]. cbn [snd length] in *. congruence.
  Qed.

  (** all succeed iff the thread consists of [ROk]s *)
  Lemma deps_ok_thread l : forall st b st' b' vs,
    deps_ok st b l st' b' vs <-> deps_thread l st b = ((st', b'), map ROk vs).
  Proof.
    induction l as [|d l IH]; intros st b st' b' vs; cbn [deps_thread].
    - split.
      + intros H; inversion H; subst. reflexivity.
      + destruct vs; intros H; inversion H; subst. constructor.
    - destruct (resolve_dep depsf f st b d) as [[st1 b1] r] eqn:G. split.
      + intros H; inversion H; subst.
        match goal with H1 : resolve_dep _ _ _ _ _ = (_, ROk ?w) |- _ => rewrite H1 in G; inversion G; subst end.
        match goal with H1 : deps_ok _ _ l _ _ _ |- _ => apply IH in H1; rewrite H1 end. reflexivity.
      + destruct (deps_thread l st1 b1) as [[st2 b2] rs] eqn:T. destruct vs as [|v vs]; intros H; inversion H; subst.
        econstructor; [exact G|]. apply IH. exact T.
  Qed.

  (** the loop: the state is the one after ALL evaluations, the error is the first one *)
  Lemma deps_loop_thread l : forall st b acc err,
    deps_loop depsf f l st b acc err =
    (fst (deps_thread l st b),
     fin (or_else err (first_err (snd (deps_thread l st b)))) (rev acc ++ oks (snd (deps_thread l st b)))).
  Proof.
    induction l as [|d l IH]; intros st b acc err; cbn [deps_loop deps_thread].
    - cbn [fst snd first_err oks]. rewrite app_nil_r, or_else_none. reflexivity.
    - destruct (resolve_dep depsf f st b d) as [[st1 b1] [v|e]]; rewrite IH;
        destruct (deps_thread l st1 b1) as [sb rs]; cbn [fst snd first_err oks].
      + cbn [rev]. rewrite <- app_assoc. reflexivity.
      + rewrite or_else_keep. reflexivity.
  Qed.

  (** [resolve_deps] evaluates every dependency: its final state / bag is the one of the complete thread, whether it succeeds
      or fails; it fails iff some element fails, with the error of the FIRST failing element; otherwise it returns the values in order *)
  Theorem resolve_deps_all_evaluated st b ds :
    resolve_deps depsf (S f) st b ds =
    (fst (deps_thread ds st b),
     match first_err (snd (deps_thread ds st b)) with Some e => RErr e | None => ROk (oks (snd (deps_thread ds st b))) end).
  Proof. rewrite resolve_deps_unfold, deps_loop_thread. cbn [or_else rev app]. destruct (first_err _); reflexivity. Qed.

  Corollary resolve_deps_state st b ds : fst (resolve_deps depsf (S f) st b ds) = fst (deps_thread ds st b).
  Proof. rewrite resolve_deps_all_evaluated. reflexivity. Qed.

  Corollary resolve_deps_err_iff st b ds e :
    snd (resolve_deps depsf (S f) st b ds) = RErr e <->
    exists rs1 rs2, snd (deps_thread ds st b) = rs1 ++ RErr e :: rs2 /\ forallb is_ok rs1 = true.
  Proof.
    rewrite resolve_deps_all_evaluated. cbn [snd]. rewrite <- first_err_spec.
    destruct (first_err (snd (deps_thread ds st b))); split; intros H; inversion H; reflexivity.
  Qed.

  (** once an error has been recorded the loop ends with it *)
  Lemma deps_loop_some l st b acc e : snd (deps_loop depsf f l st b acc (Some e)) = RErr e.
  Proof. rewrite deps_loop_thread. reflexivity. Qed.

  Lemma deps_loop_ok_gen l : forall st b acc err st' b' vs,
    deps_loop depsf f l st b acc err = ((st', b'), ROk vs) <-> err = None /\ exists ws, deps_ok st b l st' b' ws /\ vs = rev acc ++ ws.
  Proof.
    intros st b acc err st' b' vs. rewrite deps_loop_thread. split.
    - intros H. inversion H as [[H1 H2]]. apply fin_ok in H2. destruct H2 as [H2 <-].
      destruct err as [e|]; [discriminate H2|]. split; [reflexivity|]. cbn [or_else] in H2. apply first_err_none in H2.
      exists (oks (snd (deps_thread l st b))). split; [|reflexivity]. apply deps_ok_thread.
      rewrite <- H2, <- H1. destruct (deps_thread l st b); reflexivity.
    - intros [-> [ws [C ->]]]. apply deps_ok_thread in C. rewrite C. cbn [fst snd or_else].
      destruct (first_err_oks ws) as [-> ->]. reflexivity.
  Qed.

  Lemma deps_loop_ok l st b acc st' b' vs :
    deps_loop depsf f l st b acc None = ((st', b'), ROk vs) <-> exists ws, deps_ok st b l st' b' ws /\ vs = rev acc ++ ws.
  Proof. rewrite deps_loop_ok_gen. split; [intros [_ H]; exact H|intros H; split; [reflexivity|exact H]]. Qed.

  (** [resolve_deps] resolves left to right and returns the values in order *)
  Theorem resolve_deps_ok st b ds st' b' vs :
    resolve_deps depsf (S f) st b ds = ((st', b'), ROk vs) <-> deps_ok st b ds st' b' vs.
  Proof.
    rewrite resolve_deps_unfold, deps_loop_ok. split.
    - intros [ws [C ->]]. exact C.
    - intros C. exists vs. split; [exact C|reflexivity].
  Qed.

  (** the first failing dependency gives the error; the ones after it are evaluated all the same *)
  Lemma deps_loop_err l1 d l2 : forall st b acc st1 b1 vs st2 b2 e,
    deps_ok st b l1 st1 b1 vs -> resolve_dep depsf f st1 b1 d = ((st2, b2), RErr e) ->
    deps_loop depsf f (l1 ++ d :: l2) st b acc None = (fst (deps_thread l2 st2 b2), RErr e).
  Proof.
    induction l1 as [|d1 l1 IH]; intros st b acc st1 b1 vs st2 b2 e C G; inversion C; subst; cbn [app deps_loop].
    - rewrite G. cbn [keep_err]. rewrite deps_loop_thread. reflexivity.
    - match goal with H : resolve_dep _ _ _ _ _ = (_, ROk _) |- _ => rewrite H end. eapply IH; eassumption.
  Qed.

  Corollary resolve_deps_err l1 d l2 st b st1 b1 vs st2 b2 e :
    deps_ok st b l1 st1 b1 vs -> resolve_dep depsf f st1 b1 d = ((st2, b2), RErr e) ->
    resolve_deps depsf (S f) st b (l1 ++ d :: l2) = (fst (deps_thread l2 st2 b2), RErr e).
  Proof. intros C G. rewrite resolve_deps_unfold. eapply deps_loop_err; eassumption. Qed.

  (** ** [fields_loop] applies [obj_set] left to right *)

  (** the result of the loop from the names and the results of the dependencies *)
  Fixpoint fields_res (ns : list str) (rs : list (result value)) (v : value) (err : option str) : result value :=
    match ns, rs with
    | n :: ns', ROk x :: rs' =>
      match obj_set v n x with ROk v' => fields_res ns' rs' v' err | RErr e => fields_res ns' rs' v (keep_err err e) end
    | n :: ns', RErr e :: rs' => fields_res ns' rs' v (keep_err err e)
    | _, _ => fin err v
    end.

  (** every field's dependency is evaluated: the final state / bag is the one of the complete thread, success or failure *)
  Theorem fields_loop_all_evaluated l : forall st b v err,
    fields_loop depsf f l st b v err =
    (fst (deps_thread (map snd l) st b), fields_res (map fst l) (snd (deps_thread (map snd l) st b)) v err).
  Proof.
    induction l as [|[n dp] l IH]; intros st b v err; cbn [fields_loop map fst snd deps_thread]; [reflexivity|].
    destruct (resolve_dep depsf f st b dp) as [[st1 b1] [x|e]].
    - destruct (obj_set v n x) as [v'|e] eqn:O; rewrite IH; destruct (deps_thread (map snd l) st1 b1) as [sb rs];
        cbn [fst snd fields_res]; rewrite O; reflexivity.
    - rewrite IH; destruct (deps_thread (map snd l) st1 b1) as [sb rs]; reflexivity.
  Qed.

  Lemma fields_res_some ns : forall rs v e, fields_res ns rs v (Some e) = RErr e.
  Proof.
    induction ns as [|n ns IH]; intros [|[x|e'] rs] v e; cbn [fields_res keep_err]; try reflexivity; [|apply IH].
    destruct (obj_set v n x); apply IH.
  Qed.

  Lemma set_fields_cons n x kvs fl : set_fields ((n, x) :: kvs) fl = set_fields kvs (assoc_set n x fl).
  Proof. reflexivity. Qed.

  (** on an object: the error is the recorded one, else the one of the first failing dependency; else all the fields are set *)
  Lemma fields_res_obj ns : forall rs o a fl lg sr err, length ns = length rs ->
    fields_res ns rs (VObj o a fl lg sr) err =
    match or_else err (first_err rs) with
    | Some e => RErr e
    | None => ROk (VObj o a (set_fields (combine ns (oks rs)) fl) lg sr)
    end.
  Proof.
    induction ns as [|n ns IH]; intros [|[x|e] rs] o a fl lg sr err HL; cbn [length] in HL; try discriminate HL.
    - cbn [fields_res first_err oks combine]. rewrite or_else_none. destruct err; reflexivity.
    - cbn [fields_res obj_set first_err oks combine]. rewrite IH by lia. rewrite set_fields_cons. reflexivity.
    - cbn [fields_res first_err]. rewrite keep_err_or_else. destruct err as [e0|]; cbn [or_else]; rewrite fields_res_some; reflexivity.
  Qed.

  Corollary fields_loop_obj l st b o a fl lg sr err :
    fields_loop depsf f l st b (VObj o a fl lg sr) err =
    (fst (deps_thread (map snd l) st b),
     match or_else err (first_err (snd (deps_thread (map snd l) st b))) with
     | Some e => RErr e
     | None => ROk (VObj o a (set_fields (combine (map fst l) (oks (snd (deps_thread (map snd l) st b)))) fl) lg sr)
     end).
  Proof. rewrite fields_loop_all_evaluated, fields_res_obj; [reflexivity|]. rewrite deps_thread_length, !map_length. reflexivity. Qed.

  Lemma fields_loop_some l st b v e : snd (fields_loop depsf f l st b v (Some e)) = RErr e.
  Proof. rewrite fields_loop_all_evaluated. apply fields_res_some. Qed.

  Theorem fields_loop_fold l : forall st b st' b' xs o a fl lg sr,
    deps_ok st b (map snd l) st' b' xs ->
    fields_loop depsf f l st b (VObj o a fl lg sr) None =
    ((st', b'), ROk (fold_left set_pure (combine (map fst l) xs) (VObj o a fl lg sr))).
  Proof.
    induction l as [|[n dp] l IH]; intros st b st' b' xs o a fl lg sr C; cbn [map snd fst] in C; inversion C; subst.
    - reflexivity.
    - cbn [fields_loop]. match goal with H : resolve_dep _ _ _ _ _ = _ |- _ => rewrite H end.
      cbn [obj_set map fst combine fold_left]. unfold set_pure at 2. cbn [obj_set fst snd]. apply IH. assumption.
  Qed.

  Corollary fields_loop_ok l st b st' b' xs o a fl lg sr :
    deps_ok st b (map snd l) st' b' xs ->
    fields_loop depsf f l st b (VObj o a fl lg sr) None =
    ((st', b'), ROk (VObj o a (set_fields (combine (map fst l) xs) fl) lg sr)).
  Proof. intros C. rewrite (fields_loop_fold l _ _ _ _ _ _ _ _ _ _ C). rewrite fold_set_pure. reflexivity. Qed.

  (** the first field whose dependency fails gives the error; the remaining fields are evaluated all the same *)
  Lemma fields_loop_err l1 n dp l2 : forall st b st1 b1 xs st2 b2 e o a fl lg sr,
    deps_ok st b (map snd l1) st1 b1 xs -> resolve_dep depsf f st1 b1 dp = ((st2, b2), RErr e) ->
    fields_loop depsf f (l1 ++ (n, dp) :: l2) st b (VObj o a fl lg sr) None = (fst (deps_thread (map snd l2) st2 b2), RErr e).
  Proof.
    induction l1 as [|[n1 d1] l1 IH]; intros st b st1 b1 xs st2 b2 e o a fl lg sr C G; cbn [map snd] in C; inversion C; subst;
      cbn [app fields_loop].
    - rewrite G. cbn [keep_err]. rewrite fields_loop_all_evaluated, fields_res_some. reflexivity.
    - match goal with H : resolve_dep _ _ _ _ _ = (_, ROk _) |- _ => rewrite H end. cbn [obj_set]. eapply IH; eassumption.
  Qed.

  (** setting a field on something that is not an object is an error (and the remaining fields are evaluated) *)
  Lemma fields_loop_nonobj n dp l st b st' b' x v :
    (forall o a fl lg sr, v <> VObj o a fl lg sr) -> resolve_dep depsf f st b dp = ((st', b'), ROk x) ->
    fields_loop depsf f ((n, dp) :: l) st b v None = (fst (deps_thread (map snd l) st' b'), RErr (s "cannot set field " ++ n)).
  Proof.
    intros Hv G. cbn [fields_loop]. rewrite G.
    destruct v; try (cbn [obj_set keep_err]; rewrite fields_loop_all_evaluated, fields_res_some; reflexivity).
    exfalso. eapply Hv; reflexivity.
  Qed.

  (** ** [calls_loop] applies [obj_call] left to right *)
  Inductive calls_ok : rt -> bag -> list rcall -> rt -> bag -> list (list value) -> Prop :=
  | ck_nil st b : calls_ok st b [] st b []
  | ck_cons st b c l st1 b1 args st2 b2 argss :
      resolve_deps depsf f st b (rc_deps c) = ((st1, b1), ROk args) -> calls_ok st1 b1 l st2 b2 argss ->
      calls_ok st b (c :: l) st2 b2 (args :: argss).

  Lemma calls_ok_length st b l st' b' argss : calls_ok st b l st' b' argss -> length l = length argss.
  Proof. induction 1; cbn [length]; congruence. Qed.

  (** [resolve_deps] threaded through the calls; with [stopw] the thread stops after a wither whose arguments resolved
      (on a receiver that is not an object such a wither fails, and a failing wither breaks the loop) *)
  Fixpoint calls_thread (stopw : bool) (l : list rcall) (st : rt) (b : bag) : (rt * bag) * list (result (list value)) :=
    match l with
    | [] => ((st, b), [])
    | c :: l' => match resolve_deps depsf f st b (rc_deps c) with
                 | ((st', b'), r) =>
                   if stopw && rc_wither c && is_ok r then ((st', b'), [r])
                   else match calls_thread stopw l' st' b' with (sb, rs) => (sb, r :: rs) end
                 end
    end.

  Lemma calls_thread_length l : forall st b, length (snd (calls_thread false l st b)) = length l.
  Proof.
    induction l as [|c l IH]; intros st b; cbn [calls_thread andb]; [reflexivity|].
    destruct (resolve_deps depsf f st b (rc_deps c)) as [[st1 b1] r]. specialize (IH st1 b1).
    destruct (calls_thread false l st1 b1) as [sb rs]. cbn [snd length] in *. congruence.
  Qed.

  Lemma calls_ok_thread l : forall st b st' b' argss,
    calls_ok st b l st' b' argss <-> calls_thread false l st b = ((st', b'), map ROk argss).
  Proof.
    induction l as [|c l IH]; intros st b st' b' argss; cbn [calls_thread andb].
    - split.
      + intros H; inversion H; subst. reflexivity.
      + destruct argss; intros H; inversion H; subst. constructor.
    - destruct (resolve_deps depsf f st b (rc_deps c)) as [[st1 b1] r] eqn:G. split.
      + intros H; inversion H; subst.
        match goal with H1 : resolve_deps _ _ _ _ _ = (_, ROk ?w) |- _ => rewrite H1 in G; inversion G; subst end.
        match goal with H1 : calls_ok _ _ l _ _ _ |- _ => apply IH in H1; rewrite H1 end. reflexivity.
      + destruct (calls_thread false l st1 b1) as [[st2 b2] rs] eqn:T. destruct argss as [|args argss]; intros H; inversion H; subst.
        econstructor; [exact G|]. apply IH. exact T.
  Qed.

  (** every call's arguments are evaluated -- except after a failing wither: the final state / bag is the one of the thread *)
  Theorem calls_loop_all_evaluated l : forall st b v err,
    fst (calls_loop depsf f l st b v err) = fst (calls_thread (negb (is_obj v)) l st b).
  Proof.
    induction l as [|c l IH]; intros st b v err; cbn [calls_loop calls_thread]; [reflexivity|].
    destruct (resolve_deps depsf f st b (rc_deps c)) as [[st1 b1] [args|e]]; cbn [is_ok].
    - rewrite Bool.andb_true_r.
      destruct v; cbn [obj_call is_obj negb andb];
        try (destruct (rc_wither c); [reflexivity|]);
        rewrite IH; cbn [is_obj negb]; match goal with |- context [calls_thread ?w l st1 b1] => destruct (calls_thread w l st1 b1) end; reflexivity.
    - rewrite Bool.andb_false_r, IH. destruct (calls_thread (negb (is_obj v)) l st1 b1). reflexivity.
  Qed.

  Lemma calls_loop_some l : forall st b v e, snd (calls_loop depsf f l st b v (Some e)) = RErr e.
  Proof.
    induction l as [|c l IH]; intros st b v e; cbn [calls_loop]; [reflexivity|].
    destruct (resolve_deps depsf f st b (rc_deps c)) as [[st1 b1] [args|e1]]; [|apply IH].
    destruct (obj_call v (rc_method c) args); [apply IH|]. destruct (rc_wither c); [reflexivity|apply IH].
  Qed.

  Lemma call_pure_obj o a fl lg sr c args :
    call_pure (VObj o a fl lg sr) (c, args) = VObj o (a ++ VStr (s "<" ++ rc_method c ++ s ">") :: args) fl (lg ++ [rc_method c]) sr.
  Proof. reflexivity. Qed.

  (** on an object no call can fail by itself: everything is evaluated, the error is the recorded one or the one of the
      first call whose arguments fail *)
  Theorem calls_loop_obj l : forall st b o a fl lg sr err,
    calls_loop depsf f l st b (VObj o a fl lg sr) err =
    (fst (calls_thread false l st b),
     match or_else err (first_err (snd (calls_thread false l st b))) with
     | Some e => RErr e
     | None => ROk (fold_left call_pure (combine l (oks (snd (calls_thread false l st b)))) (VObj o a fl lg sr))
     end).
  Proof.
    induction l as [|c l IH]; intros st b o a fl lg sr err; cbn [calls_loop calls_thread andb].
    - cbn [fst snd first_err oks combine fold_left]. rewrite or_else_none. destruct err; reflexivity.
    - destruct (resolve_deps depsf f st b (rc_deps c)) as [[st1 b1] [args|e]]; cbn [obj_call]; rewrite IH;
        destruct (calls_thread false l st1 b1) as [sb rs]; cbn [fst snd first_err oks combine fold_left].
      + rewrite call_pure_obj. reflexivity.
      + rewrite or_else_keep. destruct err; reflexivity.
  Qed.

  (** on anything else the very first call fails: with the error of its arguments, or because nothing can be called *)
  Definition call_err (c : rcall) (r : result (list value)) : str :=
    match r with ROk _ => s "cannot call " ++ rc_method c | RErr e => e end.

  Lemma calls_loop_nonobj_res l st b v err : is_obj v = false ->
    snd (calls_loop depsf f l st b v err) =
    fin (or_else err (match l with c :: _ => Some (call_err c (snd (resolve_deps depsf f st b (rc_deps c)))) | [] => None end)) v.
  Proof.
    intros Hv. destruct l as [|c l]; cbn [calls_loop]; [rewrite or_else_none; reflexivity|].
    destruct (resolve_deps depsf f st b (rc_deps c)) as [[st1 b1] [args|e]]; cbn [snd call_err].
    - assert (O : obj_call v (rc_method c) args = RErr (s "cannot call " ++ rc_method c)) by (destruct v; try reflexivity; discriminate Hv).
      rewrite O. destruct (rc_wither c); [destruct err; reflexivity|].
      destruct err as [e0|]; cbn [keep_err or_else fin]; apply calls_loop_some.
    - destruct err as [e0|]; cbn [keep_err or_else fin]; apply calls_loop_some.
  Qed.

  Theorem calls_loop_fold st b l st' b' argss : calls_ok st b l st' b' argss ->
    forall o a fl lg sr,
    calls_loop depsf f l st b (VObj o a fl lg sr) None =
    ((st', b'), ROk (fold_left call_pure (combine l argss) (VObj o a fl lg sr))).
  Proof.
    induction 1 as [st b|st b c l st1 b1 args st2 b2 argss G _ IH]; intros o a fl lg sr; [reflexivity|].
    cbn [calls_loop]. rewrite G. cbn [obj_call combine fold_left]. rewrite call_pure_obj. apply IH.
  Qed.

  (** the log of the result is the old log ++ the methods in order; the arguments are appended, each call behind a ["<method>"] marker *)
  Corollary calls_loop_ok st b l st' b' argss o a fl lg sr : calls_ok st b l st' b' argss ->
    calls_loop depsf f l st b (VObj o a fl lg sr) None =
    ((st', b'), ROk (VObj o (a ++ concat (map call_entry (combine l argss))) fl (lg ++ map rc_method l) sr)).
  Proof.
    intros C. rewrite (calls_loop_fold _ _ _ _ _ _ C), fold_call_pure.
    rewrite <- (map_map fst rc_method), (map_fst_combine l argss (calls_ok_length _ _ _ _ _ _ C)). reflexivity.
  Qed.

  (** the first call whose arguments fail gives the error; the remaining calls are evaluated all the same *)
  Lemma calls_loop_err l1 c l2 : forall st b st1 b1 argss st2 b2 e o a fl lg sr,
    calls_ok st b l1 st1 b1 argss -> resolve_deps depsf f st1 b1 (rc_deps c) = ((st2, b2), RErr e) ->
    calls_loop depsf f (l1 ++ c :: l2) st b (VObj o a fl lg sr) None = (fst (calls_thread false l2 st2 b2), RErr e).
  Proof.
    induction l1 as [|c1 l1 IH]; intros st b st1 b1 argss st2 b2 e o a fl lg sr C G; inversion C; subst; cbn [app calls_loop].
    - rewrite G. cbn [keep_err]. rewrite calls_loop_obj. reflexivity.
    - match goal with H : resolve_deps _ _ _ _ _ = (_, ROk _) |- _ => rewrite H end. cbn [obj_call]. eapply IH; eassumption.
  Qed.

  (** a call on something that is not an object is an error; a wither stops there, otherwise the remaining calls are evaluated *)
  Lemma calls_loop_nonobj c l st b st' b' args v :
    (forall o a fl lg sr, v <> VObj o a fl lg sr) -> resolve_deps depsf f st b (rc_deps c) = ((st', b'), ROk args) ->
    calls_loop depsf f (c :: l) st b v None =
    ((if rc_wither c then (st', b') else fst (calls_thread true l st' b')), RErr (s "cannot call " ++ rc_method c)).
  Proof.
    intros Hv G. cbn [calls_loop]. rewrite G.
    destruct v; try (exfalso; eapply Hv; reflexivity); cbn [obj_call keep_err]; (destruct (rc_wither c); [reflexivity|]);
      match goal with |- ?x = _ => rewrite (surjective_pairing x) end; rewrite calls_loop_some, calls_loop_all_evaluated; reflexivity.
  Qed.

  (** ** [decs_loop]: one wrapping per applicable decorator, in the order of the decorator list *)
  Definition applies (d : sdef) (dd : ddef) : bool := match lookup (dd_tag dd) (sd_tags d) with Some _ => true | None => false end.

  (** the state after a decorator ran: traced, one serial allocated *)
  Definition decorated_state (st : rt) (dd : ddef) : rt := with_serial (with_trace st (s "dec:" ++ dd_origin dd)) (rt_serial st + 1).
  Definition decorated_value (id : str) (dd : ddef) (v : value) (args : list value) (st : rt) : value :=
    VObj (dd_origin dd) (VStr (dd_tag dd) :: VStr id :: v :: args) [] [] (rt_serial st + 1).

  Lemma decs_loop_nil d id st b v : decs_loop depsf f d id [] st b v = ((st, b), ROk v).
  Proof. reflexivity. Qed.

  Lemma decs_loop_skip d id dd l st b v :
    applies d dd = false -> decs_loop depsf f d id (dd :: l) st b v = decs_loop depsf f d id l st b v.
  Proof. unfold applies. intros H. cbn [decs_loop]. destruct (lookup (dd_tag dd) (sd_tags d)); [discriminate|reflexivity]. Qed.

  Lemma decs_loop_apply d id dd l st b v st' b' args :
    applies d dd = true -> resolve_deps depsf f st b (dd_deps dd) = ((st', b'), ROk args) ->
    decs_loop depsf f d id (dd :: l) st b v =
    decs_loop depsf f d id l (decorated_state st' dd) b' (decorated_value id dd v args st').
  Proof.
    unfold applies. intros H G. cbn [decs_loop]. destruct (lookup (dd_tag dd) (sd_tags d)); [|discriminate].
    rewrite G. reflexivity.
  Qed.

  Lemma decs_loop_apply_err d id dd l st b v st' b' e :
    applies d dd = true -> resolve_deps depsf f st b (dd_deps dd) = ((st', b'), RErr e) ->
    decs_loop depsf f d id (dd :: l) st b v = ((st', b'), RErr e).
  Proof.
    unfold applies. intros H G. cbn [decs_loop]. destruct (lookup (dd_tag dd) (sd_tags d)); [|discriminate].
    rewrite G. reflexivity.
  Qed.

  (** decorators whose tag the service does not carry are skipped *)
  Lemma decs_loop_filter d id l : forall st b v,
    decs_loop depsf f d id l st b v = decs_loop depsf f d id (filter (applies d) l) st b v.
  Proof.
    induction l as [|dd l IH]; intros st b v; [reflexivity|]. cbn [filter].
    destruct (applies d dd) eqn:A.
    - cbn [decs_loop]. unfold applies in A. destruct (lookup (dd_tag dd) (sd_tags d)); [|discriminate].
      destruct (resolve_deps depsf f st b (dd_deps dd)) as [[st' b'] [args|e]]; [|reflexivity]. apply IH.
    - rewrite decs_loop_skip by exact A. apply IH.
  Qed.

  Lemma decs_loop_none d id l st b v :
    (forall dd, In dd l -> lookup (dd_tag dd) (sd_tags d) = None) -> decs_loop depsf f d id l st b v = ((st, b), ROk v).
  Proof.
    intros H. induction l as [|dd l IH]; [reflexivity|].
    rewrite decs_loop_skip; [apply IH; intros dd' Hd; apply H; right; exact Hd|].
    unfold applies. rewrite (H dd (or_introl eq_refl)). reflexivity.
  Qed.

  Lemma decs_loop_app d id l1 l2 : forall st b v,
    decs_loop depsf f d id (l1 ++ l2) st b v =
    match decs_loop depsf f d id l1 st b v with
    | ((st1, b1), ROk v1) => decs_loop depsf f d id l2 st1 b1 v1
    | (sb, RErr e) => (sb, RErr e)
    end.
  Proof.
    induction l1 as [|dd l1 IH]; intros st b v; [reflexivity|]. cbn [app].
    destruct (applies d dd) eqn:A.
    - destruct (resolve_deps depsf f st b (dd_deps dd)) as [[st' b'] [args|e]] eqn:G.
      + rewrite !(decs_loop_apply d id dd _ st b v st' b' args A G). apply IH.
      + rewrite !(decs_loop_apply_err d id dd _ st b v st' b' e A G). reflexivity.
    - rewrite !decs_loop_skip by exact A. apply IH.
  Qed.

  (** the result's outermost origin is the origin of the LAST applicable decorator; its third argument is the value produced by
      the previous ones; exactly one serial is allocated for it *)
  Theorem decs_loop_last d id l1 dd l2 st b v st1 b1 v1 st2 b2 args :
    decs_loop depsf f d id l1 st b v = ((st1, b1), ROk v1) ->
    applies d dd = true -> (forall dd', In dd' l2 -> lookup (dd_tag dd') (sd_tags d) = None) ->
    resolve_deps depsf f st1 b1 (dd_deps dd) = ((st2, b2), ROk args) ->
    decs_loop depsf f d id (l1 ++ dd :: l2) st b v =
    ((decorated_state st2 dd, b2),
     ROk (VObj (dd_origin dd) (VStr (dd_tag dd) :: VStr id :: v1 :: args) [] [] (rt_serial st2 + 1))).
  Proof.
    intros H1 A Hn G. rewrite decs_loop_app, H1, (decs_loop_apply d id dd l2 st1 b1 v1 st2 b2 args A G).
    apply decs_loop_none. exact Hn.
  Qed.

  Lemma decorated_state_serial st dd : rt_serial (decorated_state st dd) = (rt_serial st + 1)%N.
  Proof. reflexivity. Qed.

  (** the whole loop, relationally *)
  Inductive decs_ok (d : sdef) (id : str) : rt -> bag -> list ddef -> value -> rt -> bag -> value -> Prop :=
  | do_nil st b v : decs_ok d id st b [] v st b v
  | do_skip st b dd l v st' b' v' :
      applies d dd = false -> decs_ok d id st b l v st' b' v' -> decs_ok d id st b (dd :: l) v st' b' v'
  | do_apply st b dd l v st1 b1 args st' b' v' :
      applies d dd = true -> resolve_deps depsf f st b (dd_deps dd) = ((st1, b1), ROk args) ->
      decs_ok d id (decorated_state st1 dd) b1 l (decorated_value id dd v args st1) st' b' v' ->
      decs_ok d id st b (dd :: l) v st' b' v'.

  Theorem decs_loop_ok d id l : forall st b v st' b' v',
    decs_loop depsf f d id l st b v = ((st', b'), ROk v') <-> decs_ok d id st b l v st' b' v'.
  Proof.
    induction l as [|dd l IH]; intros st b v st' b' v'.
    - rewrite decs_loop_nil. split; [intros H; inversion H; constructor|intros H; inversion H; reflexivity].
    - destruct (applies d dd) eqn:A.
      + destruct (resolve_deps depsf f st b (dd_deps dd)) as [[st1 b1] [args|e]] eqn:G.
        * rewrite (decs_loop_apply d id dd l st b v st1 b1 args A G), IH. split.
          -- intros H. eapply do_apply; eassumption.
          -- intros H. inversion H; subst; [congruence|].
             match goal with H1 : resolve_deps _ _ _ _ _ = (_, ROk ?w), H2 : resolve_deps _ _ _ _ _ = _ |- _ => rewrite H1 in H2; inversion H2; subst end.
             assumption.
        * rewrite (decs_loop_apply_err d id dd l st b v st1 b1 e A G). split; [discriminate|].
          intros H. inversion H; subst; congruence.
      + rewrite (decs_loop_skip d id dd l st b v A), IH. split.
        * intros H. apply do_skip; assumption.
        * intros H. inversion H; subst; [assumption|congruence].
  Qed.

  (** the number of serials the decorators themselves allocate is the number of applicable decorators
      (each wraps once: [decorated_state] adds one to the serial left by the resolution of its arguments) *)

  (** ** the whole constructor pipeline *)
  Theorem get_ctor_pipeline st b id d o deps st1 b1 args st2 b2 xs st3 b3 argss st4 b4 v4 :
    lookup id (rt_services st) = Some d -> sd_create d = CCtor o false deps ->
    cached_of (resolve_scope depsf st id) st b id = None ->
    resolve_deps depsf f st b deps = ((st1, b1), ROk args) ->
    deps_ok (with_serial (with_trace st1 (s "ctor:" ++ o)) (rt_serial st1 + 1)) b1 (map snd (sd_fields d)) st2 b2 xs ->
    calls_ok st2 b2 (sd_calls d) st3 b3 argss ->
    decs_ok d id st3 b3 (rt_decorators st3)
      (VObj o (args ++ concat (map call_entry (combine (sd_calls d) argss)))
            (set_fields (combine (map fst (sd_fields d)) xs) []) (map rc_method (sd_calls d)) (rt_serial st1 + 1))
      st4 b4 v4 ->
    get depsf (S f) st b id = store (resolve_scope depsf st id) id v4 st4 b4.
  Proof.
    intros Hd Hc Hm Ha Hf Hcl Hdec. rewrite get_shape, Hd, Hm. unfold build, create. rewrite Hc, Ha.
    cbn [alloc with_trace rt_serial].
    change (with_serial _ _) with (with_serial (with_trace st1 (s "ctor:" ++ o)) (rt_serial st1 + 1)).
    rewrite (fields_loop_ok _ _ _ _ _ _ _ _ _ _ _ Hf).
    rewrite (calls_loop_ok _ _ _ _ _ _ _ _ _ _ _ Hcl). cbn [app].
    apply decs_loop_ok in Hdec. rewrite Hdec. reflexivity.
  Qed.

  (** non-shared scope, no applicable decorator: the object, nothing cached *)
  Corollary get_ctor_nonshared st b id d o deps st1 b1 args st2 b2 xs st3 b3 argss :
    lookup id (rt_services st) = Some d -> sd_create d = CCtor o false deps ->
    resolve_scope depsf st id = OScNonShared ->
    resolve_deps depsf f st b deps = ((st1, b1), ROk args) ->
    deps_ok (with_serial (with_trace st1 (s "ctor:" ++ o)) (rt_serial st1 + 1)) b1 (map snd (sd_fields d)) st2 b2 xs ->
    calls_ok st2 b2 (sd_calls d) st3 b3 argss ->
    (forall dd, In dd (rt_decorators st3) -> lookup (dd_tag dd) (sd_tags d) = None) ->
    get depsf (S f) st b id =
    ((st3, b3), ROk (VObj o (args ++ concat (map call_entry (combine (sd_calls d) argss)))
                          (set_fields (combine (map fst (sd_fields d)) xs) []) (map rc_method (sd_calls d)) (rt_serial st1 + 1))).
  Proof.
    intros Hd Hc Hs Ha Hf Hcl Hn.
    assert (Hm : cached_of (resolve_scope depsf st id) st b id = None) by (rewrite Hs; reflexivity).
    pose proof (proj1 (decs_loop_ok d id (rt_decorators st3) st3 b3 _ st3 b3 _)
                      (decs_loop_none d id (rt_decorators st3) st3 b3
                         (VObj o (args ++ concat (map call_entry (combine (sd_calls d) argss)))
                               (set_fields (combine (map fst (sd_fields d)) xs) []) (map rc_method (sd_calls d)) (rt_serial st1 + 1)) Hn)) as Hdec.
    rewrite (get_ctor_pipeline _ _ _ _ _ _ _ _ _ _ _ _ _ _ _ _ _ _ Hd Hc Hm Ha Hf Hcl Hdec), Hs. reflexivity.
  Qed.
End Creation.

(** * 5. Fuel (termination, C07) *)

Definition not_oof {A} (r : result A) : Prop := r <> RErr (s "out of fuel").

Ltac neq_oof := let H := fresh "Hoof" in unfold not_oof; intros H; cbv in H; discriminate H.

Lemma ok_not_oof {A} (a : A) : not_oof (ROk a).
Proof. intros H; discriminate H. Qed.

(** ** parameters: acyclic references imply termination within a fuel linear in the rank *)
Section ParamFuel.
  Variable st0 : rt.
  Local Notation ps := (rt_params st0).
  Variable rkp : str -> nat.
  (** references to existing parameters decrease the rank (references to missing parameters are errors, not loops) *)
  Hypothesis rkp_dec : forall id toks n,
    lookup id ps = Some (DPattern toks) -> In (KRef n) toks -> lookup n ps <> None -> rkp n < rkp id.

  Lemma cat_loop_noof f l :
    (forall st t st' r, rt_params st = ps -> In t l -> eval_tok f st t = (st', r) -> not_oof r) ->
    forall st acc st' r, rt_params st = ps -> cat_loop f l st acc = (st', r) -> not_oof r.
  Proof.
    induction l as [|t l IH]; intros Ht st acc st' r HP H; cbn [cat_loop] in H.
    - inversion H; subst. apply ok_not_oof.
    - destruct (eval_tok f st t) as [st1 [v|e]] eqn:E.
      + destruct (cast_to_string v) as [x|e] eqn:C.
        * eapply IH; [| |exact H].
          -- intros st2 t2 st2' r2 HP2 Hin. apply Ht; [exact HP2|right; exact Hin].
          -- rewrite (pf_params _ _ (eval_tok_frame _ _ _ _ _ E)). exact HP.
        * inversion H; subst. apply cast_err in C. subst e. neq_oof.
      + inversion H; subst. eapply Ht; [exact HP|left; reflexivity|exact E].
  Qed.

  Lemma param_fuel f :
    (forall st id st' r, rt_params st = ps -> 1 <= f -> (lookup id ps <> None -> 3 * rkp id + 4 <= f) ->
       get_param f st id = (st', r) -> not_oof r) /\
    (forall st t st' r, rt_params st = ps -> 2 <= f -> (forall n, t = KRef n -> lookup n ps <> None -> 3 * rkp n + 5 <= f) ->
       eval_tok f st t = (st', r) -> not_oof r) /\
    (forall st toks st' r, rt_params st = ps -> 3 <= f -> (forall n, In (KRef n) toks -> lookup n ps <> None -> 3 * rkp n + 6 <= f) ->
       eval_pattern f st toks = (st', r) -> not_oof r).
  Proof.
    induction f as [|f (IHp & IHt & IHpat)].
    - split; [|split]; intros; lia.
    - split; [|split].
      + intros st id st' r HP _ Hf H. rewrite get_param_unfold, HP in H.
        destruct (lookup id ps) as [d|] eqn:Hd; [|inversion H; subst; neq_oof].
        destruct (lookup id (rt_pcache st)) as [v0|]; [inversion H; subst; apply ok_not_oof|].
        assert (Hf' : 3 * rkp id + 4 <= S f) by (apply Hf; discriminate).
        destruct (param_body f st d) as [st1 r1] eqn:B.
        assert (N1 : not_oof r1).
        { destruct d as [p|v| | | |toks]; cbn [param_body] in B; try (inversion B; subst; first [apply ok_not_oof|neq_oof]).
          eapply IHpat; [exact HP|lia| |exact B].
          intros n Hn He. pose proof (rkp_dec id toks n Hd Hn He). lia. }
        destruct r1 as [v|e]; inversion H; subst; [apply ok_not_oof|exact N1].
      + intros st t st' r HP Hf2 Hf H. destruct t as [x| |n|o a l].
        * inversion H; subst; apply ok_not_oof.
        * inversion H; subst; apply ok_not_oof.
        * rewrite eval_tok_ref in H. eapply IHp; [exact HP|lia| |exact H].
          intros He. pose proof (Hf n eq_refl He). lia.
        * rewrite eval_tok_call in H. destruct (call_fn st o a l); inversion H; subst; [apply ok_not_oof|neq_oof].
      + intros st toks st' r HP Hf3 Hf H. rewrite eval_pattern_unfold in H.
        assert (Htok : forall st t st' r, rt_params st = ps -> In t toks -> eval_tok f st t = (st', r) -> not_oof r).
        { intros st2 t2 st2' r2 HP2 Hin H2. eapply IHt; [exact HP2|lia| |exact H2].
          intros n -> He. pose proof (Hf n Hin He). lia. }
        destruct toks as [|t [|t' l]]; try (eapply cat_loop_noof; [exact Htok|exact HP|exact H]).
        eapply Htok; [exact HP|left; reflexivity|exact H].
  Qed.
End ParamFuel.

(** acyclic parameter references: [get_param] never runs out of a fuel linear in the rank of the parameter *)
Theorem get_param_fuel (rkp : str -> nat) f st id st' r :
  (forall id toks n, lookup id (rt_params st) = Some (DPattern toks) -> In (KRef n) toks -> lookup n (rt_params st) <> None ->
                     rkp n < rkp id) ->
  3 * rkp id + 4 <= f -> get_param f st id = (st', r) -> r <> RErr (s "out of fuel").
Proof.
  intros Hr Hf H. eapply (proj1 (param_fuel st rkp Hr f)); [reflexivity|lia|intros _; exact Hf|exact H].
Qed.

(** with ranks below the number of parameters (as for any acyclic reference graph), the fuel of [step] is enough *)
Corollary get_param_fuel_of (rkp : str -> nat) st id :
  (forall id toks n, lookup id (rt_params st) = Some (DPattern toks) -> In (KRef n) toks -> lookup n (rt_params st) <> None ->
                     rkp n < rkp id) ->
  (lookup id (rt_params st) <> None -> rkp id < length (rt_params st)) ->
  snd (step st (OGetParam id)) <> RErr (s "out of fuel").
Proof.
  intros Hr Hb. rewrite step_get_param. destruct (get_param (fuel_of st) st id) as [st' r] eqn:H. cbn [snd].
  eapply (proj1 (param_fuel st rkp Hr (fuel_of st))); [reflexivity| | |exact H]; unfold fuel_of; [lia|].
  intros He. specialize (Hb He). lia.
Qed.

(** ** what [get] leaves alone: the definitions (parameters, services, decorators), the attached bags, the environment;
       the serial only grows *)
Record gframe (st st' : rt) : Prop := {
  gf_params : rt_params st' = rt_params st;
  gf_services : rt_services st' = rt_services st;
  gf_decorators : rt_decorators st' = rt_decorators st;
  gf_bags : rt_bags st' = rt_bags st;
  gf_env : rt_env st' = rt_env st;
  gf_serial : (rt_serial st <= rt_serial st')%N }.

Lemma gframe_refl st : gframe st st.
Proof. constructor; try reflexivity; try apply N.le_refl. Qed.
Lemma gframe_trans a b c : gframe a b -> gframe b c -> gframe a c.
Proof. intros [] []. constructor; try congruence. eapply N.le_trans; eassumption. Qed.
Lemma pframe_gframe st st' : pframe st st' -> gframe st st'.
Proof. intros F. constructor; try apply F. rewrite (pf_serial _ _ F). apply N.le_refl. Qed.
Lemma gframe_with_trace st e : gframe st (with_trace st e).
Proof. constructor; try reflexivity; try apply N.le_refl. Qed.
Lemma gframe_with_shared st c : gframe st (with_shared st c).
Proof. constructor; try reflexivity; try apply N.le_refl. Qed.
Lemma gframe_allocated st e : gframe st (with_serial (with_trace st e) (rt_serial st + 1)).
Proof. constructor; try reflexivity. cbn [with_serial rt_serial]. lia. Qed.

Section LoopFrames.
  Variable depsf : rt -> str -> list str.
  Variable f : nat.
  Hypothesis Hg : forall st b n st' b' r, get depsf f st b n = ((st', b'), r) -> gframe st st'.
  Hypothesis Hd : forall st b d st' b' r, resolve_dep depsf f st b d = ((st', b'), r) -> gframe st st'.
  Hypothesis Hds : forall st b ds st' b' r, resolve_deps depsf f st b ds = ((st', b'), r) -> gframe st st'.

  Lemma tag_loop_frame l : forall st b acc st' b' r, tag_loop depsf f l st b acc = ((st', b'), r) -> gframe st st'.
  Proof.
    induction l as [|n l IH]; intros st b acc st' b' r H; cbn [tag_loop] in H.
    - inversion H; subst; apply gframe_refl.
    - destruct (get depsf f st b n) as [[st1 b1] [v|e]] eqn:G; pose proof (Hg _ _ _ _ _ _ G) as F1.
      + eapply gframe_trans; [exact F1|eapply IH; exact H].
      + inversion H; subst; exact F1.
  Qed.

  Lemma deps_loop_frame l : forall st b acc err st' b' r, deps_loop depsf f l st b acc err = ((st', b'), r) -> gframe st st'.
  Proof.
    induction l as [|d l IH]; intros st b acc err st' b' r H; cbn [deps_loop] in H.
    - inversion H; subst; apply gframe_refl.
    - destruct (resolve_dep depsf f st b d) as [[st1 b1] [v|e]] eqn:G; pose proof (Hd _ _ _ _ _ _ G) as F1;
        (eapply gframe_trans; [exact F1|eapply IH; exact H]).
  Qed.

  Lemma fields_loop_frame l : forall st b v err st' b' r, fields_loop depsf f l st b v err = ((st', b'), r) -> gframe st st'.
  Proof.
    induction l as [|[n dp] l IH]; intros st b v err st' b' r H; cbn [fields_loop] in H.
    - inversion H; subst; apply gframe_refl.
    - destruct (resolve_dep depsf f st b dp) as [[st1 b1] [x|e]] eqn:G; pose proof (Hd _ _ _ _ _ _ G) as F1.
      + destruct (obj_set v n x) as [v'|e]; (eapply gframe_trans; [exact F1|eapply IH; exact H]).
      + eapply gframe_trans; [exact F1|eapply IH; exact H].
  Qed.

  Lemma calls_loop_frame l : forall st b v err st' b' r, calls_loop depsf f l st b v err = ((st', b'), r) -> gframe st st'.
  Proof.
    induction l as [|c l IH]; intros st b v err st' b' r H; cbn [calls_loop] in H.
    - inversion H; subst; apply gframe_refl.
    - destruct (resolve_deps depsf f st b (rc_deps c)) as [[st1 b1] [x|e]] eqn:G; pose proof (Hds _ _ _ _ _ _ G) as F1.
      + destruct (obj_call v (rc_method c) x) as [v'|e]; [eapply gframe_trans; [exact F1|eapply IH; exact H]|].
        destruct (rc_wither c); [inversion H; subst; exact F1|]. eapply gframe_trans; [exact F1|eapply IH; exact H].
      + eapply gframe_trans; [exact F1|eapply IH; exact H].
  Qed.

  Lemma decs_loop_frame d id l : forall st b v st' b' r, decs_loop depsf f d id l st b v = ((st', b'), r) -> gframe st st'.
  Proof.
    induction l as [|dd l IH]; intros st b v st' b' r H.
    - inversion H; subst; apply gframe_refl.
    - destruct (applies d dd) eqn:A.
      + destruct (resolve_deps depsf f st b (dd_deps dd)) as [[st1 b1] [args|e]] eqn:G; pose proof (Hds _ _ _ _ _ _ G) as F1.
        * rewrite (decs_loop_apply depsf f d id dd l st b v st1 b1 args A G) in H.
          eapply gframe_trans; [exact F1|]. eapply gframe_trans; [|eapply IH; exact H]. apply gframe_allocated.
        * rewrite (decs_loop_apply_err depsf f d id dd l st b v st1 b1 e A G) in H. inversion H; subst; exact F1.
      + rewrite (decs_loop_skip depsf f d id dd l st b v A) in H. eapply IH; exact H.
  Qed.

  Lemma create_frame d st b st' b' r : create depsf f d st b = ((st', b'), r) -> gframe st st'.
  Proof.
    unfold create. destruct (sd_create d) as [o fails deps|v| |]; try (intros H; inversion H; subst; apply gframe_refl).
    destruct (resolve_deps depsf f st b deps) as [[st1 b1] [args|e]] eqn:G; pose proof (Hds _ _ _ _ _ _ G) as F1.
    - destruct fails; cbn [alloc]; intros H; inversion H; subst; (eapply gframe_trans; [exact F1|]).
      + apply gframe_with_trace.
      + apply gframe_allocated.
    - intros H; inversion H; subst; exact F1.
  Qed.

  Lemma build_frame d id st b st' b' r : build depsf f d id st b = ((st', b'), r) -> gframe st st'.
  Proof.
    unfold build.
    destruct (create depsf f d st b) as [[st1 b1] [v1|e]] eqn:C; pose proof (create_frame _ _ _ _ _ _ C) as F1;
      [|intros H; inversion H; subst; exact F1].
    destruct (fields_loop depsf f (sd_fields d) st1 b1 v1 None) as [[st2 b2] [v2|e]] eqn:Fl;
      pose proof (gframe_trans _ _ _ F1 (fields_loop_frame _ _ _ _ _ _ _ _ Fl)) as F2; [|intros H; inversion H; subst; exact F2].
    destruct (calls_loop depsf f (sd_calls d) st2 b2 v2 None) as [[st3 b3] [v3|e]] eqn:Cl;
      pose proof (gframe_trans _ _ _ F2 (calls_loop_frame _ _ _ _ _ _ _ _ Cl)) as F3; [|intros H; inversion H; subst; exact F3].
    intros H. eapply gframe_trans; [exact F3|eapply decs_loop_frame; exact H].
  Qed.
End LoopFrames.

Lemma get_frames depsf f :
  (forall st b n st' b' r, get depsf f st b n = ((st', b'), r) -> gframe st st') /\
  (forall st b d st' b' r, resolve_dep depsf f st b d = ((st', b'), r) -> gframe st st') /\
  (forall st b ds st' b' r, resolve_deps depsf f st b ds = ((st', b'), r) -> gframe st st').
Proof.
  induction f as [|f (IHg & IHd & IHds)].
  - split; [|split]; intros ? ? ? ? ? ? H; inversion H; subst; apply gframe_refl.
  - split; [|split].
    + intros st b id st' b' r H. rewrite get_shape in H.
      destruct (lookup id (rt_services st)) as [d|]; [|inversion H; subst; apply gframe_refl].
      destruct (cached_of (resolve_scope depsf st id) st b id); [inversion H; subst; apply gframe_refl|].
      destruct (build depsf f d id st b) as [[st4 b4] [v4|e4]] eqn:B;
        pose proof (build_frame depsf f IHd IHds _ _ _ _ _ _ _ B) as F4; [|inversion H; subst; exact F4].
      unfold store in H. destruct (resolve_scope depsf st id); inversion H; subst; try exact F4.
      eapply gframe_trans; [exact F4|apply gframe_with_shared].
    + intros st b d st' b' r H. rewrite resolve_dep_unfold in H.
      destruct d as [p|v|n|t| |toks]; try (inversion H; subst; apply gframe_refl).
      * eapply IHg; exact H.
      * eapply (tag_loop_frame depsf f IHg); exact H.
      * destruct (eval_pattern f st toks) as [st1 r1] eqn:E. inversion H; subst.
        apply pframe_gframe. eapply eval_pattern_frame; exact E.
    + intros st b ds st' b' r H. rewrite resolve_deps_unfold in H. eapply (deps_loop_frame depsf f IHd); exact H.
Qed.

(** [get] never changes the definitions, the attached bags or the environment; serials only grow *)
Theorem get_frame depsf f st b n st' b' r : get depsf f st b n = ((st', b'), r) -> gframe st st'.
Proof. apply (get_frames depsf f). Qed.
Theorem resolve_dep_frame depsf f st b d st' b' r : resolve_dep depsf f st b d = ((st', b'), r) -> gframe st st'.
Proof. apply (get_frames depsf f). Qed.
Theorem resolve_deps_frame depsf f st b ds st' b' r : resolve_deps depsf f st b ds = ((st', b'), r) -> gframe st st'.
Proof. apply (get_frames depsf f). Qed.

Lemma tagged_ext st st' t : rt_services st' = rt_services st -> tagged st' t = tagged st t.
Proof. intros E. unfold tagged. rewrite E. reflexivity. Qed.

(** closed versions of the loop frame lemmas (the error accumulator is implicit: the positional uses keep their arity) *)
Lemma tag_loop_frame' depsf f l st b acc st' b' r : tag_loop depsf f l st b acc = ((st', b'), r) -> gframe st st'.
Proof. apply (tag_loop_frame depsf f (get_frame depsf f)). Qed.
Lemma deps_loop_frame' depsf f l st b acc {err} st' b' r : deps_loop depsf f l st b acc err = ((st', b'), r) -> gframe st st'.
Proof. apply (deps_loop_frame depsf f (resolve_dep_frame depsf f)). Qed.
Lemma fields_loop_frame' depsf f l st b v {err} st' b' r : fields_loop depsf f l st b v err = ((st', b'), r) -> gframe st st'.
Proof. apply (fields_loop_frame depsf f (resolve_dep_frame depsf f)). Qed.
Lemma calls_loop_frame' depsf f l st b v {err} st' b' r : calls_loop depsf f l st b v err = ((st', b'), r) -> gframe st st'.
Proof. apply (calls_loop_frame depsf f (resolve_deps_frame depsf f)). Qed.
Lemma decs_loop_frame' depsf f d id l st b v st' b' r : decs_loop depsf f d id l st b v = ((st', b'), r) -> gframe st st'.
Proof. apply (decs_loop_frame depsf f (resolve_deps_frame depsf f)). Qed.
Lemma create_frame' depsf f d st b st' b' r : create depsf f d st b = ((st', b'), r) -> gframe st st'.
Proof. apply (create_frame depsf f (resolve_deps_frame depsf f)). Qed.
Lemma build_frame' depsf f d id st b st' b' r : build depsf f d id st b = ((st', b'), r) -> gframe st st'.
Proof. apply (build_frame depsf f (resolve_dep_frame depsf f) (resolve_deps_frame depsf f)). Qed.

Lemma not_oof_err {A B} e : @not_oof A (RErr e) -> @not_oof B (RErr e).
Proof. intros H E. apply H. injection E as ->. reflexivity. Qed.

(** the accumulated error is not "out of fuel" *)
Definition err_noof (err : option str) : Prop := match err with Some e => e <> s "out of fuel" | None => True end.
Lemma not_oof_str {A} e : @not_oof A (RErr e) -> e <> s "out of fuel".
Proof. intros H E. apply H. rewrite E. reflexivity. Qed.
Lemma str_not_oof {A} e : e <> s "out of fuel" -> @not_oof A (RErr e).
Proof. intros H E. apply H. injection E as E. exact E. Qed.
Lemma fin_noof {A} err (v : A) : err_noof err -> not_oof (fin err v).
Proof. destruct err as [e|]; cbn [err_noof fin]; intros H; [intros E; injection E as E; exact (H E)|apply ok_not_oof]. Qed.
Lemma keep_err_noof err e : err_noof err -> e <> s "out of fuel" -> err_noof (keep_err err e).
Proof. destruct err; cbn [keep_err err_noof]; auto. Qed.

Lemma obj_set_err v n x e : obj_set v n x = RErr e -> e = s "cannot set field " ++ n.
Proof. destruct v; cbn [obj_set]; intros H; inversion H; reflexivity. Qed.
Lemma obj_call_err v m args e : obj_call v m args = RErr e -> e = s "cannot call " ++ m.
Proof. destruct v; cbn [obj_call]; intros H; inversion H; reflexivity. Qed.

(** ** services: a rank decreasing along every dependency bounds the fuel [get] needs *)
Section GetFuel.
  Variable depsf : rt -> str -> list str.
  Variable st0 : rt.
  Variables rk rkp : str -> nat.
  Variable M : nat.

  (** parameters: references (to existing parameters) decrease [rkp], which is bounded by [M] *)
  Hypothesis Hpar : forall id toks n,
    lookup id (rt_params st0) = Some (DPattern toks) -> In (KRef n) toks -> lookup n (rt_params st0) <> None -> rkp n < rkp id.
  Hypothesis HM : forall n, lookup n (rt_params st0) <> None -> rkp n <= M.

  (** a dependency only reaches services of rank below [k] *)
  Definition dep_ok (k : nat) (d : rdep) : Prop :=
    match d with
    | DService n => rk n < k
    | DTag t => forall n, In n (tagged st0 t) -> rk n < k
    | _ => True
    end.
  (** every dependency inside the definition of [m] (constructor, fields, calls, applicable decorators) decreases the rank *)
  Definition svc_ok (m : str) (d : sdef) : Prop :=
    (forall o fl deps, sd_create d = CCtor o fl deps -> Forall (dep_ok (rk m)) deps) /\
    Forall (fun nd : str * rdep => dep_ok (rk m) (snd nd)) (sd_fields d) /\
    Forall (fun c => Forall (dep_ok (rk m)) (rc_deps c)) (sd_calls d) /\
    Forall (fun dd => lookup (dd_tag dd) (sd_tags d) <> None -> Forall (dep_ok (rk m)) (dd_deps dd)) (rt_decorators st0).
  Hypothesis Hsvc : forall m d, lookup m (rt_services st0) = Some d -> svc_ok m d.

  Lemma pattern_noof f st toks st' r : gframe st0 st -> 3 * M + 6 <= f -> eval_pattern f st toks = (st', r) -> not_oof r.
  Proof.
    intros F Hf H. eapply (proj2 (proj2 (param_fuel st0 rkp Hpar f))); [apply (gf_params _ _ F)|lia| |exact H].
    intros n _ He. pose proof (HM n He). lia.
  Qed.

  Lemma tag_loop_noof f l :
    (forall st b n st' b' r, gframe st0 st -> In n l -> get depsf f st b n = ((st', b'), r) -> not_oof r) ->
    forall st b acc st' b' r, gframe st0 st -> tag_loop depsf f l st b acc = ((st', b'), r) -> not_oof r.
  Proof.
    induction l as [|n l IH]; intros Hn st b acc st' b' r F H; cbn [tag_loop] in H.
    - inversion H; subst. apply ok_not_oof.
    - destruct (get depsf f st b n) as [[st1 b1] [v|e]] eqn:G.
      + eapply IH; [| |exact H].
        * intros sta ba m sta' ba' ra Fa Hin Ha. eapply Hn; [exact Fa|right; exact Hin|exact Ha].
        * eapply gframe_trans; [exact F|eapply get_frame; exact G].
      + inversion H; subst. eapply Hn; [exact F|left; reflexivity|exact G].
  Qed.

  Lemma deps_loop_noof f l :
    (forall st b d st' b' r, gframe st0 st -> In d l -> resolve_dep depsf f st b d = ((st', b'), r) -> not_oof r) ->
    forall st b acc err st' b' r, gframe st0 st -> err_noof err -> deps_loop depsf f l st b acc err = ((st', b'), r) -> not_oof r.
  Proof.
    induction l as [|d l IH]; intros Hn st b acc err st' b' r F He H; cbn [deps_loop] in H.
    - inversion H; subst. apply fin_noof; exact He.
    - assert (Hn' : forall st b d st' b' r, gframe st0 st -> In d l -> resolve_dep depsf f st b d = ((st', b'), r) -> not_oof r).
      { intros sta ba m sta' ba' ra Fa Hin Ha. eapply Hn; [exact Fa|right; exact Hin|exact Ha]. }
      destruct (resolve_dep depsf f st b d) as [[st1 b1] [v|e]] eqn:G;
        pose proof (gframe_trans _ _ _ F (resolve_dep_frame _ _ _ _ _ _ _ _ G)) as F1.
      + eapply IH; [exact Hn'|exact F1|exact He|exact H].
      + eapply IH; [exact Hn'|exact F1| |exact H]. apply keep_err_noof; [exact He|].
        apply (not_oof_str (A := value)). eapply Hn; [exact F|left; reflexivity|exact G].
  Qed.

  Lemma fields_loop_noof f l :
    (forall st b nd st' b' r, gframe st0 st -> In nd l -> resolve_dep depsf f st b (snd nd) = ((st', b'), r) -> not_oof r) ->
    forall st b v err st' b' r, gframe st0 st -> err_noof err -> fields_loop depsf f l st b v err = ((st', b'), r) -> not_oof r.
  Proof.
    induction l as [|[n dp] l IH]; intros Hn st b v err st' b' r F He H; cbn [fields_loop] in H.
    - inversion H; subst. apply fin_noof; exact He.
    - assert (Hn' : forall st b nd st' b' r, gframe st0 st -> In nd l -> resolve_dep depsf f st b (snd nd) = ((st', b'), r) -> not_oof r).
      { intros sta ba m sta' ba' ra Fa Hin Ha. eapply Hn; [exact Fa|right; exact Hin|exact Ha]. }
      destruct (resolve_dep depsf f st b dp) as [[st1 b1] [x|e]] eqn:G;
        pose proof (gframe_trans _ _ _ F (resolve_dep_frame _ _ _ _ _ _ _ _ G)) as F1.
      + destruct (obj_set v n x) as [v'|e] eqn:O.
        * eapply IH; [exact Hn'|exact F1|exact He|exact H].
        * eapply IH; [exact Hn'|exact F1| |exact H]. apply keep_err_noof; [exact He|].
          apply obj_set_err in O. subst e. intros Hoof; cbv in Hoof; discriminate Hoof.
      + eapply IH; [exact Hn'|exact F1| |exact H]. apply keep_err_noof; [exact He|].
        apply (not_oof_str (A := value)). eapply (Hn st b (n, dp)); [exact F|left; reflexivity|exact G].
  Qed.

  Lemma calls_loop_noof f l :
    (forall st b c st' b' r, gframe st0 st -> In c l -> resolve_deps depsf f st b (rc_deps c) = ((st', b'), r) -> not_oof r) ->
    forall st b v err st' b' r, gframe st0 st -> err_noof err -> calls_loop depsf f l st b v err = ((st', b'), r) -> not_oof r.
  Proof.
    induction l as [|c l IH]; intros Hn st b v err st' b' r F He H; cbn [calls_loop] in H.
    - inversion H; subst. apply fin_noof; exact He.
    - assert (Hn' : forall st b c st' b' r, gframe st0 st -> In c l -> resolve_deps depsf f st b (rc_deps c) = ((st', b'), r) -> not_oof r).
      { intros sta ba m sta' ba' ra Fa Hin Ha. eapply Hn; [exact Fa|right; exact Hin|exact Ha]. }
      destruct (resolve_deps depsf f st b (rc_deps c)) as [[st1 b1] [x|e]] eqn:G;
        pose proof (gframe_trans _ _ _ F (resolve_deps_frame _ _ _ _ _ _ _ _ G)) as F1.
      + destruct (obj_call v (rc_method c) x) as [v'|e] eqn:O.
        * eapply IH; [exact Hn'|exact F1|exact He|exact H].
        * apply obj_call_err in O. subst e.
          assert (Hc : s "cannot call " ++ rc_method c <> s "out of fuel") by (intros Hoof; cbv in Hoof; discriminate Hoof).
          destruct (rc_wither c).
          -- inversion H; subst. apply str_not_oof. destruct err as [e0|]; [exact He|exact Hc].
          -- eapply IH; [exact Hn'|exact F1| |exact H]. apply keep_err_noof; [exact He|exact Hc].
      + eapply IH; [exact Hn'|exact F1| |exact H]. apply keep_err_noof; [exact He|].
        apply (not_oof_str (A := list value)). eapply Hn; [exact F|left; reflexivity|exact G].
  Qed.

  Lemma decs_loop_noof f d id l :
    (forall st b dd st' b' r, gframe st0 st -> In dd l -> applies d dd = true ->
                              resolve_deps depsf f st b (dd_deps dd) = ((st', b'), r) -> not_oof r) ->
    forall st b v st' b' r, gframe st0 st -> decs_loop depsf f d id l st b v = ((st', b'), r) -> not_oof r.
  Proof.
    induction l as [|dd l IH]; intros Hn st b v st' b' r F H.
    - inversion H; subst. apply ok_not_oof.
    - assert (Hn' : forall st b dd st' b' r, gframe st0 st -> In dd l -> applies d dd = true ->
                              resolve_deps depsf f st b (dd_deps dd) = ((st', b'), r) -> not_oof r).
      { intros sta ba m sta' ba' ra Fa Hin Hap Ha. eapply Hn; [exact Fa|right; exact Hin|exact Hap|exact Ha]. }
      destruct (applies d dd) eqn:A.
      + destruct (resolve_deps depsf f st b (dd_deps dd)) as [[st1 b1] [args|e]] eqn:G.
        * rewrite (decs_loop_apply depsf f d id dd l st b v st1 b1 args A G) in H.
          eapply IH; [exact Hn'| |exact H].
          eapply gframe_trans; [exact F|]. eapply gframe_trans; [eapply resolve_deps_frame; exact G|apply gframe_allocated].
        * rewrite (decs_loop_apply_err depsf f d id dd l st b v st1 b1 e A G) in H. inversion H; subst.
          eapply not_oof_err. eapply Hn; [exact F|left; reflexivity|exact A|exact G].
      + rewrite (decs_loop_skip depsf f d id dd l st b v A) in H. eapply IH; [exact Hn'|exact F|exact H].
  Qed.

  Lemma build_noof f id d :
    svc_ok id d ->
    (forall st b dp st' b' r, gframe st0 st -> dep_ok (rk id) dp -> resolve_dep depsf f st b dp = ((st', b'), r) -> not_oof r) ->
    (forall st b ds st' b' r, gframe st0 st -> Forall (dep_ok (rk id)) ds -> resolve_deps depsf f st b ds = ((st', b'), r) -> not_oof r) ->
    forall st b st' b' r, gframe st0 st -> build depsf f d id st b = ((st', b'), r) -> not_oof r.
  Proof.
    intros (Hc & Hfl & Hcl & Hdc) Hd Hds st b st' b' r F H. unfold build in H.
    destruct (create depsf f d st b) as [[st1 b1] r1] eqn:C.
    assert (N1 : not_oof r1).
    { unfold create in C. destruct (sd_create d) as [o fails deps|v| |] eqn:Sc;
        try (inversion C; subst; first [apply ok_not_oof|neq_oof]).
      destruct (resolve_deps depsf f st b deps) as [[sta ba] [args|e]] eqn:G.
      - destruct fails; cbn [alloc] in C; inversion C; subst; first [apply ok_not_oof|neq_oof].
      - inversion C; subst. eapply not_oof_err. eapply Hds; [exact F|eapply Hc; reflexivity|exact G]. }
    pose proof (gframe_trans _ _ _ F (create_frame' _ _ _ _ _ _ _ _ C)) as F1.
    destruct r1 as [v1|e]; [|inversion H; subst; exact N1].
    destruct (fields_loop depsf f (sd_fields d) st1 b1 v1 None) as [[st2 b2] r2] eqn:Fl.
    assert (N2 : not_oof r2).
    { eapply (fields_loop_noof f (sd_fields d)); [|exact F1| |exact Fl]; [|exact I].
      intros sta ba nd sta' ba' ra Fa Hin Ha. eapply Hd; [exact Fa| |exact Ha].
      rewrite Forall_forall in Hfl. apply (Hfl nd Hin). }
    pose proof (gframe_trans _ _ _ F1 (fields_loop_frame' _ _ _ _ _ _ _ _ _ Fl)) as F2.
    destruct r2 as [v2|e]; [|inversion H; subst; exact N2].
    destruct (calls_loop depsf f (sd_calls d) st2 b2 v2 None) as [[st3 b3] r3] eqn:Cl.
    assert (N3 : not_oof r3).
    { eapply (calls_loop_noof f (sd_calls d)); [|exact F2| |exact Cl]; [|exact I].
      intros sta ba c sta' ba' ra Fa Hin Ha. eapply Hds; [exact Fa| |exact Ha].
      rewrite Forall_forall in Hcl. apply (Hcl c Hin). }
    pose proof (gframe_trans _ _ _ F2 (calls_loop_frame' _ _ _ _ _ _ _ _ _ Cl)) as F3.
    destruct r3 as [v3|e]; [|inversion H; subst; exact N3].
    rewrite (gf_decorators _ _ F3) in H.
    eapply (decs_loop_noof f d id (rt_decorators st0)); [|exact F3|exact H].
    intros sta ba dd sta' ba' ra Fa Hin Hap Ha. eapply Hds; [exact Fa| |exact Ha].
    rewrite Forall_forall in Hdc. apply (Hdc dd Hin). unfold applies in Hap.
    destruct (lookup (dd_tag dd) (sd_tags d)); [discriminate|discriminate Hap].
  Qed.

  Lemma get_fuel f :
    (forall st b id st' b' r, gframe st0 st -> 3 * rk id + 3 * M + 9 <= f -> get depsf f st b id = ((st', b'), r) -> not_oof r) /\
    (forall st b d k st' b' r, gframe st0 st -> dep_ok k d -> 3 * k + 3 * M + 7 <= f ->
                               resolve_dep depsf f st b d = ((st', b'), r) -> not_oof r) /\
    (forall st b ds k st' b' r, gframe st0 st -> Forall (dep_ok k) ds -> 3 * k + 3 * M + 8 <= f ->
                                resolve_deps depsf f st b ds = ((st', b'), r) -> not_oof r).
  Proof.
    induction f as [|f (IHg & IHd & IHds)].
    - split; [|split]; intros; lia.
    - split; [|split].
      + intros st b id st' b' r F Hf H. rewrite get_shape in H. rewrite (gf_services _ _ F) in H.
        destruct (lookup id (rt_services st0)) as [d|] eqn:Hd; [|inversion H; subst; neq_oof].
        destruct (cached_of (resolve_scope depsf st id) st b id); [inversion H; subst; apply ok_not_oof|].
        destruct (build depsf f d id st b) as [[st4 b4] r4] eqn:B.
        assert (N4 : not_oof r4).
        { eapply (build_noof f id d (Hsvc id d Hd)); [| |exact F|exact B].
          - intros sta ba dp sta' ba' ra Fa Hk Ha. eapply (IHd _ _ _ (rk id)); [exact Fa|exact Hk|lia|exact Ha].
          - intros sta ba ds sta' ba' ra Fa Hk Ha. eapply (IHds _ _ _ (rk id)); [exact Fa|exact Hk|lia|exact Ha]. }
        destruct r4 as [v4|e4]; [|inversion H; subst; exact N4].
        unfold store in H. destruct (resolve_scope depsf st id); inversion H; subst; apply ok_not_oof.
      + intros st b d k st' b' r F Hk Hf H. rewrite resolve_dep_unfold in H.
        destruct d as [p|v|n|t| |toks]; try (inversion H; subst; apply ok_not_oof).
        * unfold dep_ok in Hk. eapply IHg; [exact F| |exact H]. lia.
        * unfold dep_ok in Hk. eapply (tag_loop_noof f (tagged st t)); [|exact F|exact H].
          intros sta ba n sta' ba' ra Fa Hin Ha. eapply IHg; [exact Fa| |exact Ha].
          rewrite (tagged_ext st0 st t (gf_services _ _ F)) in Hin. pose proof (Hk n Hin). lia.
        * destruct (eval_pattern f st toks) as [st1 r1] eqn:E. inversion H; subst.
          eapply pattern_noof; [exact F| |exact E]. lia.
      + intros st b ds k st' b' r F Hk Hf H. rewrite resolve_deps_unfold in H.
        eapply (deps_loop_noof f ds); [|exact F| |exact H]; [|exact I].
        intros sta ba d sta' ba' ra Fa Hin Ha. eapply (IHd _ _ _ k); [exact Fa| |lia|exact Ha].
        rewrite Forall_forall in Hk. apply Hk. exact Hin.
  Qed.
End GetFuel.

(** Termination: with ranks decreasing along all dependencies, [get] never runs out of a fuel linear in the ranks.
    (With dangling parameter references allowed -- they are errors, not loops -- 9 is the least constant that works.) *)
Theorem get_never_out_of_fuel depsf (rk rkp : str -> nat) (M : nat) st f b id st' b' r :
  (forall id toks n, lookup id (rt_params st) = Some (DPattern toks) -> In (KRef n) toks -> lookup n (rt_params st) <> None ->
                     rkp n < rkp id) ->
  (forall n, lookup n (rt_params st) <> None -> rkp n <= M) ->
  (forall m d, lookup m (rt_services st) = Some d -> svc_ok st rk m d) ->
  3 * rk id + 3 * M + 9 <= f ->
  get depsf f st b id = ((st', b'), r) -> r <> RErr (s "out of fuel").
Proof.
  intros Hpar HM Hsvc Hf H.
  eapply (proj1 (get_fuel depsf st rk rkp M Hpar HM Hsvc f)); [apply gframe_refl|exact Hf|exact H].
Qed.

Corollary get_never_out_of_fuel_4 depsf (rk rkp : str -> nat) (M : nat) st f b id st' b' r :
  (forall id toks n, lookup id (rt_params st) = Some (DPattern toks) -> In (KRef n) toks -> lookup n (rt_params st) <> None ->
                     rkp n < rkp id) ->
  (forall n, lookup n (rt_params st) <> None -> rkp n <= M) ->
  (forall m d, lookup m (rt_services st) = Some d -> svc_ok st rk m d) ->
  4 * rk id + 4 * M + 9 <= f ->
  get depsf f st b id = ((st', b'), r) -> r <> RErr (s "out of fuel").
Proof. intros Hpar HM Hsvc Hf. eapply get_never_out_of_fuel; try eassumption. lia. Qed.

(** the tagged collection as well *)
Theorem tagged_never_out_of_fuel depsf (rk rkp : str -> nat) (M : nat) st f b t k st' b' r :
  (forall id toks n, lookup id (rt_params st) = Some (DPattern toks) -> In (KRef n) toks -> lookup n (rt_params st) <> None ->
                     rkp n < rkp id) ->
  (forall n, lookup n (rt_params st) <> None -> rkp n <= M) ->
  (forall m d, lookup m (rt_services st) = Some d -> svc_ok st rk m d) ->
  (forall n, In n (tagged st t) -> rk n < k) ->
  3 * k + 3 * M + 7 <= f ->
  resolve_dep depsf f st b (DTag t) = ((st', b'), r) -> r <> RErr (s "out of fuel").
Proof.
  intros Hpar HM Hsvc Hk Hf H.
  eapply (proj1 (proj2 (get_fuel depsf st rk rkp M Hpar HM Hsvc f)) st b (DTag t) k); [apply gframe_refl|exact Hk|exact Hf|exact H].
Qed.

(** ranks below the numbers of services / parameters: the fuel [step] provides is enough *)
Corollary step_get_never_out_of_fuel (rk rkp : str -> nat) st id :
  (forall id toks n, lookup id (rt_params st) = Some (DPattern toks) -> In (KRef n) toks -> lookup n (rt_params st) <> None ->
                     rkp n < rkp id) ->
  (forall n, lookup n (rt_params st) <> None -> rkp n <= length (rt_params st)) ->
  (forall m d, lookup m (rt_services st) = Some d -> svc_ok st rk m d) ->
  rk id <= length (rt_services st) ->
  snd (step st (OGet id)) <> RErr (s "out of fuel").
Proof.
  intros Hpar HM Hsvc Hr. cbn [step].
  destruct (get rt_depsf (fuel_of st) st [] id) as [[st' b'] r] eqn:H. cbn [snd].
  eapply get_never_out_of_fuel; [exact Hpar|exact HM|exact Hsvc| |exact H]. unfold fuel_of. lia.
Qed.

(** the constant 8 would not do: a dangling reference two patterns deep needs 9 *)
Example fuel_8_is_not_enough :
  let st := {| rt_params := [(s "p", DPattern [KRef (s "q"); KLit (s "y")])]; rt_pcache := [];
               rt_services := [(s "a", {| sd_create := CCtor (s "o") false [DPattern [KRef (s "p"); KLit (s "x")]];
                                          sd_fields := []; sd_calls := []; sd_tags := []; sd_scope := OScDefault |})];
               rt_shared := []; rt_decorators := []; rt_bags := []; rt_serial := 0; rt_env := []; rt_trace := [] |} in
  snd (get (fun _ _ => []) 8 st [] (s "a")) = RErr (s "out of fuel") /\
  snd (get (fun _ _ => []) 9 st [] (s "a")) = RErr (s "param does not exist").
Proof. split; vm_compute; reflexivity. Qed.

(** * 4'. Errors never become objects, semantically: with acyclic (ranked) dependencies a failing [get] leaves the cache
      entries of its service exactly as they were, and [get] never touches the entries of higher-ranked services *)

(** generic invariants of the loops: [R] relates the (state, bag) before and after; it must be transitive and hold for
    every step that leaves [rt_shared] and the bag alone *)
Section LoopInv.
  Variable depsf : rt -> str -> list str.
  Variable f : nat.
  Variable st0 : rt.
  Variable R : rt -> bag -> rt -> bag -> Prop.
  Hypothesis R_admin : forall st b st', rt_shared st' = rt_shared st -> R st b st' b.
  Hypothesis R_trans : forall st1 b1 st2 b2 st3 b3, R st1 b1 st2 b2 -> R st2 b2 st3 b3 -> R st1 b1 st3 b3.

  Lemma tag_loop_inv l :
    (forall st b n st' b' r, gframe st0 st -> In n l -> get depsf f st b n = ((st', b'), r) -> R st b st' b') ->
    forall st b acc st' b' r, gframe st0 st -> tag_loop depsf f l st b acc = ((st', b'), r) -> R st b st' b'.
  Proof.
    induction l as [|n l IH]; intros Hn st b acc st' b' r F H; cbn [tag_loop] in H.
    - inversion H; subst. apply R_admin; reflexivity.
    - destruct (get depsf f st b n) as [[st1 b1] [v|e]] eqn:G;
        pose proof (Hn _ _ _ _ _ _ F (or_introl eq_refl) G) as R1.
      + eapply R_trans; [exact R1|]. eapply IH; [| |exact H].
        * intros sta ba m sta' ba' ra Fa Hin Ha. eapply Hn; [exact Fa|right; exact Hin|exact Ha].
        * eapply gframe_trans; [exact F|eapply get_frame; exact G].
      + inversion H; subst. exact R1.
  Qed.

  Lemma deps_loop_inv l :
    (forall st b d st' b' r, gframe st0 st -> In d l -> resolve_dep depsf f st b d = ((st', b'), r) -> R st b st' b') ->
    forall st b acc err st' b' r, gframe st0 st -> deps_loop depsf f l st b acc err = ((st', b'), r) -> R st b st' b'.
  Proof.
    induction l as [|d l IH]; intros Hn st b acc err st' b' r F H; cbn [deps_loop] in H.
    - inversion H; subst. apply R_admin; reflexivity.
    - destruct (resolve_dep depsf f st b d) as [[st1 b1] [v|e]] eqn:G;
        pose proof (Hn _ _ _ _ _ _ F (or_introl eq_refl) G) as R1;
        (eapply R_trans; [exact R1|]; eapply IH; [| |exact H];
         [intros sta ba m sta' ba' ra Fa Hin Ha; eapply Hn; [exact Fa|right; exact Hin|exact Ha]
         |eapply gframe_trans; [exact F|eapply resolve_dep_frame; exact G]]).
  Qed.

  Lemma fields_loop_inv l :
    (forall st b nd st' b' r, gframe st0 st -> In nd l -> resolve_dep depsf f st b (snd nd) = ((st', b'), r) -> R st b st' b') ->
    forall st b v err st' b' r, gframe st0 st -> fields_loop depsf f l st b v err = ((st', b'), r) -> R st b st' b'.
  Proof.
    induction l as [|[n dp] l IH]; intros Hn st b v err st' b' r F H; cbn [fields_loop] in H.
    - inversion H; subst. apply R_admin; reflexivity.
    - assert (Hn' : forall st b nd st' b' r, gframe st0 st -> In nd l -> resolve_dep depsf f st b (snd nd) = ((st', b'), r) -> R st b st' b').
      { intros sta ba m sta' ba' ra Fa Hin Ha. eapply Hn; [exact Fa|right; exact Hin|exact Ha]. }
      destruct (resolve_dep depsf f st b dp) as [[st1 b1] [x|e]] eqn:G;
        pose proof (Hn st b (n, dp) _ _ _ F (or_introl eq_refl) G) as R1;
        pose proof (gframe_trans _ _ _ F (resolve_dep_frame _ _ _ _ _ _ _ _ G)) as F1.
      + destruct (obj_set v n x) as [v'|e]; (eapply R_trans; [exact R1|]; eapply IH; [exact Hn'|exact F1|exact H]).
      + eapply R_trans; [exact R1|]. eapply IH; [exact Hn'|exact F1|exact H].
  Qed.

  Lemma calls_loop_inv l :
    (forall st b c st' b' r, gframe st0 st -> In c l -> resolve_deps depsf f st b (rc_deps c) = ((st', b'), r) -> R st b st' b') ->
    forall st b v err st' b' r, gframe st0 st -> calls_loop depsf f l st b v err = ((st', b'), r) -> R st b st' b'.
  Proof.
    induction l as [|c l IH]; intros Hn st b v err st' b' r F H; cbn [calls_loop] in H.
    - inversion H; subst. apply R_admin; reflexivity.
    - assert (Hn' : forall st b c st' b' r, gframe st0 st -> In c l -> resolve_deps depsf f st b (rc_deps c) = ((st', b'), r) -> R st b st' b').
      { intros sta ba m sta' ba' ra Fa Hin Ha. eapply Hn; [exact Fa|right; exact Hin|exact Ha]. }
      destruct (resolve_deps depsf f st b (rc_deps c)) as [[st1 b1] [x|e]] eqn:G;
        pose proof (Hn _ _ _ _ _ _ F (or_introl eq_refl) G) as R1;
        pose proof (gframe_trans _ _ _ F (resolve_deps_frame _ _ _ _ _ _ _ _ G)) as F1.
      + destruct (obj_call v (rc_method c) x) as [v'|e].
        * eapply R_trans; [exact R1|]. eapply IH; [exact Hn'|exact F1|exact H].
        * destruct (rc_wither c); [inversion H; subst; exact R1|].
          eapply R_trans; [exact R1|]. eapply IH; [exact Hn'|exact F1|exact H].
      + eapply R_trans; [exact R1|]. eapply IH; [exact Hn'|exact F1|exact H].
  Qed.

  Lemma decs_loop_inv d id l :
    (forall st b dd st' b' r, gframe st0 st -> In dd l -> applies d dd = true ->
                              resolve_deps depsf f st b (dd_deps dd) = ((st', b'), r) -> R st b st' b') ->
    forall st b v st' b' r, gframe st0 st -> decs_loop depsf f d id l st b v = ((st', b'), r) -> R st b st' b'.
  Proof.
    induction l as [|dd l IH]; intros Hn st b v st' b' r F H.
    - inversion H; subst. apply R_admin; reflexivity.
    - assert (Hn' : forall st b dd st' b' r, gframe st0 st -> In dd l -> applies d dd = true ->
                              resolve_deps depsf f st b (dd_deps dd) = ((st', b'), r) -> R st b st' b').
      { intros sta ba m sta' ba' ra Fa Hin Hap Ha. eapply Hn; [exact Fa|right; exact Hin|exact Hap|exact Ha]. }
      destruct (applies d dd) eqn:A.
      + destruct (resolve_deps depsf f st b (dd_deps dd)) as [[st1 b1] [args|e]] eqn:G;
          pose proof (Hn _ _ _ _ _ _ F (or_introl eq_refl) A G) as R1.
        * rewrite (decs_loop_apply depsf f d id dd l st b v st1 b1 args A G) in H.
          eapply R_trans; [exact R1|]. eapply R_trans; [apply (R_admin st1 b1 (decorated_state st1 dd)); reflexivity|].
          eapply IH; [exact Hn'| |exact H].
          eapply gframe_trans; [exact F|]. eapply gframe_trans; [eapply resolve_deps_frame; exact G|apply gframe_allocated].
        * rewrite (decs_loop_apply_err depsf f d id dd l st b v st1 b1 e A G) in H. inversion H; subst. exact R1.
      + rewrite (decs_loop_skip depsf f d id dd l st b v A) in H. eapply IH; [exact Hn'|exact F|exact H].
  Qed.

  Lemma build_inv d id :
    (forall st b dp st' b' r, gframe st0 st -> In dp (map snd (sd_fields d)) ->
                              resolve_dep depsf f st b dp = ((st', b'), r) -> R st b st' b') ->
    (forall st b ds st' b' r, gframe st0 st ->
        ((exists o fl, sd_create d = CCtor o fl ds) \/ (exists c, In c (sd_calls d) /\ ds = rc_deps c) \/
         (exists dd, In dd (rt_decorators st0) /\ applies d dd = true /\ ds = dd_deps dd)) ->
        resolve_deps depsf f st b ds = ((st', b'), r) -> R st b st' b') ->
    forall st b st' b' r, gframe st0 st -> build depsf f d id st b = ((st', b'), r) -> R st b st' b'.
  Proof.
    intros Hd Hds st b st' b' r F H. unfold build in H.
    destruct (create depsf f d st b) as [[st1 b1] r1] eqn:C.
    assert (R1 : R st b st1 b1).
    { unfold create in C. destruct (sd_create d) as [o fails deps|v| |] eqn:Sc;
        try (inversion C; subst; apply R_admin; reflexivity).
      destruct (resolve_deps depsf f st b deps) as [[sta ba] [args|e]] eqn:G;
        assert (Ra : R st b sta ba) by (eapply Hds; [exact F|left; exists o, fails; reflexivity|exact G]).
      - destruct fails; cbn [alloc] in C; inversion C; subst; (eapply R_trans; [exact Ra|apply R_admin; reflexivity]).
      - inversion C; subst. exact Ra. }
    pose proof (gframe_trans _ _ _ F (create_frame' _ _ _ _ _ _ _ _ C)) as F1.
    destruct r1 as [v1|e]; [|inversion H; subst; exact R1].
    destruct (fields_loop depsf f (sd_fields d) st1 b1 v1 None) as [[st2 b2] r2] eqn:Fl.
    assert (R2 : R st1 b1 st2 b2).
    { eapply (fields_loop_inv (sd_fields d)); [|exact F1|exact Fl].
      intros sta ba nd sta' ba' ra Fa Hin Ha. eapply Hd; [exact Fa|apply in_map; exact Hin|exact Ha]. }
    pose proof (gframe_trans _ _ _ F1 (fields_loop_frame' _ _ _ _ _ _ _ _ _ Fl)) as F2.
    destruct r2 as [v2|e]; [|inversion H; subst; eapply R_trans; eassumption].
    destruct (calls_loop depsf f (sd_calls d) st2 b2 v2 None) as [[st3 b3] r3] eqn:Cl.
    assert (R3 : R st2 b2 st3 b3).
    { eapply (calls_loop_inv (sd_calls d)); [|exact F2|exact Cl].
      intros sta ba c sta' ba' ra Fa Hin Ha. eapply Hds; [exact Fa| |exact Ha].
      right; left. exists c. split; [exact Hin|reflexivity]. }
    pose proof (gframe_trans _ _ _ F2 (calls_loop_frame' _ _ _ _ _ _ _ _ _ Cl)) as F3.
    destruct r3 as [v3|e]; [|inversion H; subst; eapply R_trans; [exact R1|eapply R_trans; eassumption]].
    rewrite (gf_decorators _ _ F3) in H.
    eapply R_trans; [exact R1|]. eapply R_trans; [exact R2|]. eapply R_trans; [exact R3|].
    eapply (decs_loop_inv d id (rt_decorators st0)); [|exact F3|exact H].
    intros sta ba dd sta' ba' ra Fa Hin Hap Ha. eapply Hds; [exact Fa| |exact Ha].
    right; right. exists dd. split; [exact Hin|]. split; [exact Hap|reflexivity].
  Qed.
End LoopInv.

Section Below.
  Variable depsf : rt -> str -> list str.
  Variable st0 : rt.
  Variable rk : str -> nat.
  Hypothesis Hsvc : forall m d, lookup m (rt_services st0) = Some d -> svc_ok st0 rk m d.

  (** the cache entries (shared and contextual) of the services of rank at least [K] are untouched *)
  Definition below (K : nat) (st : rt) (b : bag) (st' : rt) (b' : bag) : Prop :=
    forall n, K <= rk n -> lookup n (rt_shared st') = lookup n (rt_shared st) /\ lookup n b' = lookup n b.

  Lemma below_admin K st b st' : rt_shared st' = rt_shared st -> below K st b st' b.
  Proof. intros E n _. rewrite E. split; reflexivity. Qed.
  Lemma below_trans K st1 b1 st2 b2 st3 b3 : below K st1 b1 st2 b2 -> below K st2 b2 st3 b3 -> below K st1 b1 st3 b3.
  Proof. intros H1 H2 n Hn. destruct (H1 n Hn) as [A1 B1]. destruct (H2 n Hn) as [A2 B2]. split; congruence. Qed.
  Lemma below_mono K K' st b st' b' : K <= K' -> below K st b st' b' -> below K' st b st' b'.
  Proof. intros HK H n Hn. apply H. lia. Qed.

  Lemma get_below f :
    (forall st b id st' b' r, gframe st0 st -> get depsf f st b id = ((st', b'), r) ->
       below (S (rk id)) st b st' b' /\ (is_err r -> below (rk id) st b st' b')) /\
    (forall st b d k st' b' r, gframe st0 st -> dep_ok st0 rk k d -> resolve_dep depsf f st b d = ((st', b'), r) -> below k st b st' b') /\
    (forall st b ds k st' b' r, gframe st0 st -> Forall (dep_ok st0 rk k) ds -> resolve_deps depsf f st b ds = ((st', b'), r) ->
       below k st b st' b').
  Proof.
    induction f as [|f (IHg & IHd & IHds)].
    - split; [|split].
      + intros st b id st' b' r _ H. inversion H; subst. split; [|intros _]; apply below_admin; reflexivity.
      + intros st b d k st' b' r _ _ H. inversion H; subst. apply below_admin; reflexivity.
      + intros st b ds k st' b' r _ _ H. inversion H; subst. apply below_admin; reflexivity.
    - split; [|split].
      + intros st b id st' b' r F H. rewrite get_shape in H. rewrite (gf_services _ _ F) in H.
        destruct (lookup id (rt_services st0)) as [d|] eqn:Hd.
        2:{ inversion H; subst. split; [|intros _]; apply below_admin; reflexivity. }
        destruct (cached_of (resolve_scope depsf st id) st b id).
        { inversion H; subst. split; [|intros _]; apply below_admin; reflexivity. }
        destruct (build depsf f d id st b) as [[st4 b4] r4] eqn:B.
        destruct (Hsvc id d Hd) as (Hc & Hfl & Hcl & Hdc).
        assert (B4 : below (rk id) st b st4 b4).
        { eapply (build_inv depsf f st0 (below (rk id)) (below_admin (rk id)) (below_trans (rk id)) d id); [| |exact F|exact B].
          - intros sta ba dp sta' ba' ra Fa Hin Ha. eapply IHd; [exact Fa| |exact Ha].
            apply in_map_iff in Hin. destruct Hin as [nd [<- Hin]]. rewrite Forall_forall in Hfl. apply (Hfl nd Hin).
          - intros sta ba ds sta' ba' ra Fa Hor Ha. eapply IHds; [exact Fa| |exact Ha].
            destruct Hor as [[o [fl Ec]]|[[c [Hin ->]]|[dd [Hin [Hap ->]]]]].
            + eapply Hc; exact Ec.
            + rewrite Forall_forall in Hcl. apply (Hcl c Hin).
            + rewrite Forall_forall in Hdc. apply (Hdc dd Hin). unfold applies in Hap.
              destruct (lookup (dd_tag dd) (sd_tags d)); [discriminate|discriminate Hap]. }
        destruct r4 as [v4|e4].
        2:{ inversion H; subst. split; [eapply below_mono; [|exact B4]; lia|intros _; exact B4]. }
        split; [|unfold store in H; destruct (resolve_scope depsf st id); inversion H; subst; intros []].
        eapply below_trans; [eapply below_mono; [|exact B4]; lia|].
        unfold store in H. destruct (resolve_scope depsf st id); inversion H; subst;
          try (apply below_admin; reflexivity); intros n Hn; cbn [with_shared rt_shared];
          (assert (Hne : n <> id) by (intros ->; lia)).
        * split; [apply lookup_assoc_set_other; exact Hne|reflexivity].
        * split; [reflexivity|apply lookup_assoc_set_other; exact Hne].
      + intros st b d k st' b' r F Hk H. rewrite resolve_dep_unfold in H.
        destruct d as [p|v|n|t| |toks]; try (inversion H; subst; apply below_admin; reflexivity).
        * unfold dep_ok in Hk. destruct (IHg _ _ _ _ _ _ F H) as [Hb _]. eapply below_mono; [|exact Hb]. lia.
        * unfold dep_ok in Hk.
          eapply (tag_loop_inv depsf f st0 (below k) (below_admin k) (below_trans k) (tagged st t)); [|exact F|exact H].
          intros sta ba n sta' ba' ra Fa Hin Ha. destruct (IHg _ _ _ _ _ _ Fa Ha) as [Hb _].
          rewrite (tagged_ext st0 st t (gf_services _ _ F)) in Hin. pose proof (Hk n Hin).
          eapply below_mono; [|exact Hb]. lia.
        * destruct (eval_pattern f st toks) as [st1 r1] eqn:E. inversion H; subst.
          apply below_admin. apply (pf_shared _ _ (eval_pattern_frame _ _ _ _ _ E)).
      + intros st b ds k st' b' r F Hk H. rewrite resolve_deps_unfold in H.
        eapply (deps_loop_inv depsf f st0 (below k) (below_admin k) (below_trans k) ds); [|exact F|exact H].
        intros sta ba d sta' ba' ra Fa Hin Ha. eapply IHd; [exact Fa| |exact Ha].
        rewrite Forall_forall in Hk. apply Hk. exact Hin.
  Qed.
End Below.

(** errors are never cached: with ranked (acyclic) service dependencies, a failing [get] leaves both cache entries of its
    service -- shared and contextual -- exactly as they were (whatever the fuel) *)
Theorem get_err_not_cached depsf (rk : str -> nat) f st b id st' b' e :
  (forall m d, lookup m (rt_services st) = Some d -> svc_ok st rk m d) ->
  get depsf f st b id = ((st', b'), RErr e) ->
  lookup id (rt_shared st') = lookup id (rt_shared st) /\ lookup id b' = lookup id b.
Proof.
  intros Hsvc H. destruct (proj1 (get_below depsf st rk Hsvc f) st b id st' b' (RErr e) (gframe_refl st) H) as [_ Hb].
  apply (Hb I). apply Nat.le_refl.
Qed.

(** and [get] only ever writes the entries of its own service and of lower-ranked ones *)
Theorem get_touches_only_lower depsf (rk : str -> nat) f st b id st' b' r n :
  (forall m d, lookup m (rt_services st) = Some d -> svc_ok st rk m d) ->
  get depsf f st b id = ((st', b'), r) -> rk id < rk n ->
  lookup n (rt_shared st') = lookup n (rt_shared st) /\ lookup n b' = lookup n b.
Proof.
  intros Hsvc H Hn. destruct (proj1 (get_below depsf st rk Hsvc f) st b id st' b' r (gframe_refl st) H) as [Hb _].
  apply Hb. lia.
Qed.

(** * 3'. The constructor pipeline, with the decorator hypothesis on the initial state (decorators never change) *)
Lemma deps_ok_frame depsf f st b l st' b' vs : deps_ok depsf f st b l st' b' vs -> gframe st st'.
Proof.
  induction 1 as [|st b d l st1 b1 v st2 b2 vs G _ IH]; [apply gframe_refl|].
  eapply gframe_trans; [eapply resolve_dep_frame; exact G|exact IH].
Qed.
Lemma calls_ok_frame depsf f st b l st' b' argss : calls_ok depsf f st b l st' b' argss -> gframe st st'.
Proof.
  induction 1 as [|st b c l st1 b1 args st2 b2 argss G _ IH]; [apply gframe_refl|].
  eapply gframe_trans; [eapply resolve_deps_frame; exact G|exact IH].
Qed.

Theorem get_ctor_nonshared_init depsf f st b id d o deps st1 b1 args st2 b2 xs st3 b3 argss :
  lookup id (rt_services st) = Some d -> sd_create d = CCtor o false deps ->
  (forall dd, In dd (rt_decorators st) -> lookup (dd_tag dd) (sd_tags d) = None) ->
  resolve_scope depsf st id = OScNonShared ->
  resolve_deps depsf f st b deps = ((st1, b1), ROk args) ->
  deps_ok depsf f (with_serial (with_trace st1 (s "ctor:" ++ o)) (rt_serial st1 + 1)) b1 (map snd (sd_fields d)) st2 b2 xs ->
  calls_ok depsf f st2 b2 (sd_calls d) st3 b3 argss ->
  get depsf (S f) st b id =
  ((st3, b3), ROk (VObj o (args ++ concat (map call_entry (combine (sd_calls d) argss)))
                        (set_fields (combine (map fst (sd_fields d)) xs) []) (map rc_method (sd_calls d)) (rt_serial st1 + 1))).
Proof.
  intros Hd Hc Hn Hs Ha Hf Hcl. eapply get_ctor_nonshared; try eassumption.
  assert (F : gframe st st3).
  { eapply gframe_trans; [eapply resolve_deps_frame; exact Ha|].
    eapply gframe_trans; [apply (gframe_allocated st1 (s "ctor:" ++ o))|].
    eapply gframe_trans; [eapply deps_ok_frame; exact Hf|eapply calls_ok_frame; exact Hcl]. }
  rewrite (gf_decorators _ _ F). exact Hn.
Qed.

Print Assumptions tagged_sorted.
Print Assumptions tagged_perm.
Print Assumptions resolve_dep_tag_ok.
Print Assumptions eval_pattern_single.
Print Assumptions multi_chunk_ok.
Print Assumptions multi_chunk_fail.
Print Assumptions multi_chunk_inv.
Print Assumptions get_param_cached.
Print Assumptions get_param_again.
Print Assumptions get_param_frame.
Print Assumptions get_param_err_not_cached.
Print Assumptions param_cycle_fails.
Print Assumptions get_shape.
Print Assumptions get_todo.
Print Assumptions get_failing_ctor.
Print Assumptions get_err_no_store.
Print Assumptions get_ok_inv.
Print Assumptions override_then_get.
Print Assumptions override_param_other_cache.
Print Assumptions override_service_exactly.
Print Assumptions fields_loop_ok.
Print Assumptions calls_loop_ok.
Print Assumptions decs_loop_last.
Print Assumptions decs_loop_ok.
Print Assumptions get_ctor_pipeline.
Print Assumptions get_ctor_nonshared.
Print Assumptions get_param_fuel.
Print Assumptions get_param_fuel_of.
Print Assumptions get_frame.
Print Assumptions get_never_out_of_fuel.
Print Assumptions tagged_never_out_of_fuel.
Print Assumptions step_get_never_out_of_fuel.
Print Assumptions get_err_not_cached.
Print Assumptions get_touches_only_lower.
Print Assumptions get_ctor_nonshared_init.
Print Assumptions resolve_deps_all_evaluated.
Print Assumptions resolve_deps_err_iff.
Print Assumptions resolve_deps_err.
Print Assumptions fields_loop_all_evaluated.
Print Assumptions fields_loop_obj.
Print Assumptions fields_loop_err.
Print Assumptions calls_loop_all_evaluated.
Print Assumptions calls_loop_obj.
Print Assumptions calls_loop_nonobj_res.
Print Assumptions calls_loop_err.
Print Assumptions get_failing_ctor_err.
