(** The dependency graph built from a compiled configuration (Model/OutVal.v), seen through NAMES:
    - Part 1: the builder [add_dep] folded over a list of calls; invariants; string paths vs numeric paths; [deps_of];
              [build_graph] as such a fold ([dep_calls]).
    - Part 2: the edges of [dep_calls o] explicitly; the documented relation [svc_dep] between services; [service_reach].
    - Part 3: the scope rule [validate_scopes].
    - Part 4: the cycle rule [validate_circular]. *)
From GV Require Import Base.Str Base.Quote Base.Gerr Base.Sort Model.Input Model.Compile Model.OutVal
  Proofs.SortProofs Proofs.GraphProofs.
From Coq Require Import Relations.Relation_Operators Sorting.Sorted Sorting.Permutation Lia.

Local Open Scope nat_scope.

(** * Part 1 — string-level view of the builder *)

Definition named (g : graph) (i : nat) (x : str) : Prop := nth_error (g_nodes g) i = Some (Some x).
Definition hidden (g : graph) (h : nat) : Prop := nth_error (g_nodes g) h = Some None.
Definition ix (g : graph) (x : str) : option nat := index_of x (g_nodes g) 0.

(** the graph obtained from [g] by a sequence of [add_dep] calls *)
Definition build (calls : list (str * str)) (g : graph) : graph :=
  fold_left (fun g e => add_dep (fst e) (snd e) g) calls g.

(** ** [index_of] *)

Lemma index_of_Some x : forall l k i, index_of x l k = Some i -> k <= i /\ nth_error l (i - k) = Some (Some x).
Proof.
  induction l as [|[m|] l IH]; intros k i H; cbn [index_of] in H.
  - discriminate.
  - destruct (str_eqb_spec x m) as [->|Hne].
    + injection H as <-. rewrite Nat.sub_diag. split; [lia | reflexivity].
    + apply IH in H. destruct H as [H1 H2]. split; [lia|].
      replace (i - k) with (S (i - S k)) by lia. exact H2.
  - apply IH in H. destruct H as [H1 H2]. split; [lia|].
    replace (i - k) with (S (i - S k)) by lia. exact H2.
Qed.

Lemma index_of_None x : forall l k, index_of x l k = None -> forall j, nth_error l j <> Some (Some x).
Proof.
  induction l as [|[m|] l IH]; intros k H j; cbn [index_of] in H.
  - destruct j; discriminate.
  - destruct (str_eqb_spec x m) as [->|Hne]; [discriminate|].
    destruct j as [|j]; cbn [nth_error]; [congruence | eapply IH; exact H].
  - destruct j as [|j]; cbn [nth_error]; [congruence | eapply IH; exact H].
Qed.

(** named nodes carry pairwise different names *)
Definition uniq_names (l : list (option str)) : Prop :=
  forall i j x, nth_error l i = Some (Some x) -> nth_error l j = Some (Some x) -> i = j.

Lemma uniq_index_of l i x : uniq_names l -> nth_error l i = Some (Some x) -> index_of x l 0 = Some i.
Proof.
  intros Hu Hi. destruct (index_of x l 0) as [j|] eqn:E.
  - apply index_of_Some in E. destruct E as [_ E]. rewrite Nat.sub_0_r in E.
    f_equal. eapply Hu; eassumption.
  - exfalso. eapply index_of_None; eassumption.
Qed.

Lemma nth_error_snoc_inv (A : Type) (l : list A) (a : A) i v :
  nth_error (l ++ [a]) i = Some v -> (i < length l /\ nth_error l i = Some v) \/ (i = length l /\ v = a).
Proof.
  intros H. destruct (Nat.lt_ge_cases i (length l)) as [Hlt|Hge].
  - left. rewrite nth_error_app1 in H by exact Hlt. auto.
  - right. rewrite nth_error_app2 in H by exact Hge.
    destruct (i - length l) as [|k] eqn:E.
    + cbn in H. split; [lia | congruence].
    + cbn in H. destruct k; discriminate.
Qed.

Lemma nth_error_snoc_old (A : Type) (l : list A) (a : A) i v :
  nth_error l i = Some v -> nth_error (l ++ [a]) i = Some v.
Proof.
  intros H. rewrite nth_error_app1; [exact H|]. apply nth_error_Some. congruence.
Qed.

Lemma nth_error_snoc_new (A : Type) (l : list A) (a : A) : nth_error (l ++ [a]) (length l) = Some a.
Proof. rewrite nth_error_app2 by lia. rewrite Nat.sub_diag. reflexivity. Qed.

Lemma nth_error_lt (A : Type) (l : list A) i v : nth_error l i = Some v -> i < length l.
Proof. intros H. apply nth_error_Some. congruence. Qed.

Lemma uniq_names_snoc_named l x : uniq_names l -> index_of x l 0 = None -> uniq_names (l ++ [Some x]).
Proof.
  intros Hu Hn i j y Hi Hj.
  apply nth_error_snoc_inv in Hi. apply nth_error_snoc_inv in Hj.
  destruct Hi as [[_ Hi]|[-> Hi]], Hj as [[_ Hj]|[-> Hj]].
  - eapply Hu; eassumption.
  - injection Hj as ->. exfalso. eapply index_of_None; eassumption.
  - injection Hi as ->. exfalso. eapply index_of_None; eassumption.
  - reflexivity.
Qed.

Lemma uniq_names_snoc_hidden l : uniq_names l -> uniq_names (l ++ [None]).
Proof.
  intros Hu i j y Hi Hj.
  apply nth_error_snoc_inv in Hi. apply nth_error_snoc_inv in Hj.
  destruct Hi as [[_ Hi]|[_ Hi]]; [|discriminate].
  destruct Hj as [[_ Hj]|[_ Hj]]; [|discriminate].
  eapply Hu; eassumption.
Qed.

(** ** [set_edge] *)

Lemma has_edge_In e l : has_edge e l = true <-> In e l.
Proof.
  unfold has_edge. rewrite existsb_exists. split.
  - intros ([a b] & Hin & H). destruct e as [c d]. cbn [fst snd] in H.
    apply andb_true_iff in H. destruct H as [H1 H2].
    apply Nat.eqb_eq in H1. apply Nat.eqb_eq in H2. subst. exact Hin.
  - intros H. exists e. split; [exact H|]. rewrite !Nat.eqb_refl. reflexivity.
Qed.

Lemma set_edge_nodes e g : g_nodes (set_edge e g) = g_nodes g.
Proof. unfold set_edge. destruct (has_edge e (g_edges g)); reflexivity. Qed.

Lemma set_edge_In e g e' : In e' (g_edges (set_edge e g)) <-> In e' (g_edges g) \/ e' = e.
Proof.
  unfold set_edge. destruct (has_edge e (g_edges g)) eqn:E.
  - apply has_edge_In in E. split; [tauto|]. intros [H| ->]; assumption.
  - cbn [g_edges]. rewrite in_app_iff. cbn [In]. split; intros [H|H]; auto.
    + destruct H as [<-|[]]. right. reflexivity.
Qed.

Lemma set_edge_NoDup e g : NoDup (g_edges g) -> NoDup (g_edges (set_edge e g)).
Proof.
  intros Hnd. unfold set_edge. destruct (has_edge e (g_edges g)) eqn:E; [exact Hnd|].
  cbn [g_edges]. apply NoDup_app_intro; [exact Hnd | constructor; [intros []|constructor] |].
  intros x Hx [<-|[]]. apply has_edge_In in Hx. congruence.
Qed.

(** ** the invariant linking a graph to the calls that built it *)

Record ginv (calls : list (str * str)) (g : graph) : Prop := {
  gi_wf : wf_graph g;
  gi_nd : NoDup (g_edges g);
  gi_uniq : uniq_names (g_nodes g);
  (** a hidden node has exactly one incoming and one outgoing edge, both with the same named node, whose
      name [x] was used in a call [add_dep x x] *)
  gi_hid : forall h, hidden g h ->
    exists n x, named g n x /\ In (x, x) calls /\ In (n, h) (g_edges g) /\ In (h, n) (g_edges g) /\
                (forall a, In (a, h) (g_edges g) -> a = n) /\ (forall b, In (h, b) (g_edges g) -> b = n);
  gi_edge : forall a b, In (a, b) (g_edges g) ->
    (exists x y, named g a x /\ named g b y /\ x <> y /\ In (x, y) calls) \/ hidden g a \/ hidden g b;
  gi_call : forall x y, In (x, y) calls -> x <> y ->
    exists i j, named g i x /\ named g j y /\ In (i, j) (g_edges g);
  gi_self : forall x, In (x, x) calls ->
    exists i h, named g i x /\ hidden g h /\ In (i, h) (g_edges g) /\ In (h, i) (g_edges g);
  (** a hidden node is created after the node it belongs to *)
  gi_hlt : forall h n, hidden g h -> In (h, n) (g_edges g) -> n < h
}.

Lemma ginv_g0 : ginv [] g0.
Proof.
  split; cbn.
  - intros a b [].
  - constructor.
  - intros [|i] j x H; discriminate.
  - intros [|h] H; discriminate.
  - intros a b [].
  - intros x y [].
  - intros x [].
  - intros h n _ [].
Qed.

Lemma named_hidden_excl g i x : named g i x -> hidden g i -> False.
Proof. unfold named, hidden. congruence. Qed.

Ltac nh := exfalso; first [ match goal with H1 : named ?g ?i _, H2 : hidden ?g ?i |- _ => exact (named_hidden_excl _ _ _ H1 H2) end
                          | unfold named, hidden in *; congruence ].

Lemma named_fun g i x y : named g i x -> named g i y -> x = y.
Proof. unfold named. congruence. Qed.

(** *** step A: [node_of] *)
Lemma node_of_inv calls x g : ginv calls g ->
  ginv calls (fst (node_of x g)) /\ named (fst (node_of x g)) (snd (node_of x g)) x /\
  (forall j y, named g j y -> named (fst (node_of x g)) j y).
Proof.
  intros I. unfold node_of. destruct (index_of x (g_nodes g) 0) as [i|] eqn:E; cbn [fst snd].
  - split; [exact I|]. split; [|auto].
    apply index_of_Some in E. destruct E as [_ E]. rewrite Nat.sub_0_r in E. exact E.
  - set (g' := {| g_nodes := g_nodes g ++ [Some x]; g_edges := g_edges g |}).
    assert (Hn : forall j y, named g j y -> named g' j y).
    { intros j y H. unfold named, g'. cbn [g_nodes]. apply nth_error_snoc_old. exact H. }
    assert (Hh : forall j, hidden g j -> hidden g' j).
    { intros j H. unfold hidden, g'. cbn [g_nodes]. apply nth_error_snoc_old. exact H. }
    assert (Hh' : forall j, hidden g' j -> hidden g j).
    { intros j H. unfold hidden, g' in H. cbn [g_nodes] in H. apply nth_error_snoc_inv in H.
      destruct H as [[_ H]|[_ H]]; [exact H | discriminate]. }
    split; [|split; [|exact Hn]].
    + destruct I as [Iwf Ind Iu Ihid Iedge Icall Iself Ihlt]. split; try (unfold g' at 1; cbn [g_edges g_nodes]).
      * intros a b H. cbn [g_edges g_nodes] in *. apply Iwf in H. rewrite app_length. cbn [length]. lia.
      * exact Ind.
      * apply uniq_names_snoc_named; assumption.
      * intros h Hhid. apply Hh' in Hhid. destruct (Ihid h Hhid) as (n & y & H1 & H2).
        exists n, y. split; [apply Hn; exact H1 | exact H2].
      * intros a b H. destruct (Iedge a b H) as [(y & z & H1 & H2 & H3)|[H1|H1]].
        -- left. exists y, z. split; [apply Hn; exact H1|]. split; [apply Hn; exact H2 | exact H3].
        -- right. left. apply Hh. exact H1.
        -- right. right. apply Hh. exact H1.
      * intros y z H Hne. destruct (Icall y z H Hne) as (i & j & H1 & H2 & H3).
        exists i, j. split; [apply Hn; exact H1|]. split; [apply Hn; exact H2 | exact H3].
      * intros y H. destruct (Iself y H) as (i & h & H1 & H2 & H3).
        exists i, h. split; [apply Hn; exact H1|]. split; [apply Hh; exact H2 | exact H3].
      * intros h n Hhid H. apply Hh' in Hhid. exact (Ihlt h n Hhid H).
    + unfold named, g'. cbn [g_nodes]. apply nth_error_snoc_new.
Qed.

(** *** step B: an edge between two differently named nodes *)
Lemma set_edge_inv calls g f t x y :
  ginv calls g -> named g f x -> named g t y -> x <> y -> ginv (calls ++ [(x, y)]) (set_edge (f, t) g).
Proof.
  intros [Iwf Ind Iu Ihid Iedge Icall Iself Ihlt] Hf Ht Hne.
  assert (Hn : forall j z, named (set_edge (f, t) g) j z <-> named g j z).
  { intros j z. unfold named. rewrite set_edge_nodes. tauto. }
  assert (Hh : forall j, hidden (set_edge (f, t) g) j <-> hidden g j).
  { intros j. unfold hidden. rewrite set_edge_nodes. tauto. }
  split.
  - intros a b H. rewrite set_edge_nodes. apply set_edge_In in H. destruct H as [H|H].
    + apply Iwf. exact H.
    + injection H as -> ->. split; eapply nth_error_lt; eassumption.
  - apply set_edge_NoDup. exact Ind.
  - rewrite set_edge_nodes. exact Iu.
  - intros h Hhid. apply Hh in Hhid. destruct (Ihid h Hhid) as (n & z & H1 & H2 & H3 & H4 & H5 & H6).
    exists n, z. split; [apply Hn; exact H1|]. split; [apply in_app_iff; left; exact H2|].
    split; [apply set_edge_In; left; exact H3|]. split; [apply set_edge_In; left; exact H4|].
    split.
    + intros a H. apply set_edge_In in H. destruct H as [H|H]; [apply H5; exact H|].
      injection H as -> ->. nh.
    + intros b H. apply set_edge_In in H. destruct H as [H|H]; [apply H6; exact H|].
      injection H as -> ->. nh.
  - intros a b H. apply set_edge_In in H. destruct H as [H|H].
    + destruct (Iedge a b H) as [(u & v & H1 & H2 & H3 & H4)|[H1|H1]].
      * left. exists u, v. split; [apply Hn; exact H1|]. split; [apply Hn; exact H2|].
        split; [exact H3 | apply in_app_iff; left; exact H4].
      * right. left. apply Hh. exact H1.
      * right. right. apply Hh. exact H1.
    + injection H as -> ->. left. exists x, y. split; [apply Hn; exact Hf|]. split; [apply Hn; exact Ht|].
      split; [exact Hne | apply in_app_iff; right; left; reflexivity].
  - intros u v H Huv. apply in_app_iff in H. destruct H as [H|[H|[]]].
    + destruct (Icall u v H Huv) as (i & j & H1 & H2 & H3).
      exists i, j. split; [apply Hn; exact H1|]. split; [apply Hn; exact H2 | apply set_edge_In; left; exact H3].
    + injection H as <- <-. exists f, t. split; [apply Hn; exact Hf|]. split; [apply Hn; exact Ht|].
      apply set_edge_In. right. reflexivity.
  - intros u H. apply in_app_iff in H. destruct H as [H|[H|[]]].
    + destruct (Iself u H) as (i & h & H1 & H2 & H3 & H4).
      exists i, h. split; [apply Hn; exact H1|]. split; [apply Hh; exact H2|].
      split; apply set_edge_In; left; assumption.
    + injection H as <- <-. congruence.
  - intros h n Hhid H. apply Hh in Hhid. apply set_edge_In in H. destruct H as [H|H].
    + exact (Ihlt h n Hhid H).
    + injection H as -> ->. nh.
Qed.

(** *** step C: the self edge through a fresh hidden node *)
Definition add_hidden (g : graph) : graph := {| g_nodes := g_nodes g ++ [None]; g_edges := g_edges g |}.

Lemma self_edge_inv calls g f x :
  ginv calls g -> named g f x ->
  ginv (calls ++ [(x, x)])
       (set_edge (length (g_nodes g), f) (set_edge (f, length (g_nodes g)) (add_hidden g))).
Proof.
  intros [Iwf Ind Iu Ihid Iedge Icall Iself Ihlt] Hf.
  set (tmp := length (g_nodes g)).
  set (g' := set_edge (tmp, f) (set_edge (f, tmp) (add_hidden g))).
  assert (Hnodes : g_nodes g' = g_nodes g ++ [None]).
  { unfold g'. rewrite !set_edge_nodes. reflexivity. }
  assert (HE : forall e, In e (g_edges g') <-> In e (g_edges g) \/ e = (f, tmp) \/ e = (tmp, f)).
  { intros e. unfold g'. rewrite !set_edge_In. cbn [add_hidden g_edges]. tauto. }
  assert (Hflt : f < tmp) by (eapply nth_error_lt; exact Hf).
  assert (Hn : forall j z, named g j z -> named g' j z).
  { intros j z H. unfold named. rewrite Hnodes. apply nth_error_snoc_old. exact H. }
  assert (Hh : forall j, hidden g j -> hidden g' j).
  { intros j H. unfold hidden. rewrite Hnodes. apply nth_error_snoc_old. exact H. }
  assert (Htmp : hidden g' tmp).
  { unfold hidden. rewrite Hnodes. apply nth_error_snoc_new. }
  assert (Hold : forall a b, In (a, b) (g_edges g) -> a < tmp /\ b < tmp) by exact Iwf.
  split.
  - intros a b H. rewrite Hnodes, app_length. cbn [length]. fold tmp.
    apply HE in H. destruct H as [H|[H|H]].
    + apply Hold in H. lia.
    + injection H as -> ->. lia.
    + injection H as -> ->. lia.
  - unfold g'. apply set_edge_NoDup. apply set_edge_NoDup. exact Ind.
  - rewrite Hnodes. apply uniq_names_snoc_hidden. exact Iu.
  - intros h Hhid. unfold hidden in Hhid. rewrite Hnodes in Hhid. apply nth_error_snoc_inv in Hhid.
    destruct Hhid as [[Hlt Hhid]|[-> _]].
    + destruct (Ihid h Hhid) as (n & z & H1 & H2 & H3 & H4 & H5 & H6).
      exists n, z. split; [apply Hn; exact H1|]. split; [apply in_app_iff; left; exact H2|].
      split; [apply HE; left; exact H3|]. split; [apply HE; left; exact H4|].
      split.
      * intros a H. apply HE in H. destruct H as [H|[H|H]]; [apply H5; exact H | |].
        -- injection H as -> ->. fold tmp in Hlt. lia.
        -- injection H as -> ->. nh.
      * intros b H. apply HE in H. destruct H as [H|[H|H]]; [apply H6; exact H | |].
        -- injection H as -> ->. nh.
        -- injection H as -> ->. fold tmp in Hlt. lia.
    + fold tmp. exists f, x. split; [apply Hn; exact Hf|].
      split; [apply in_app_iff; right; left; reflexivity|].
      split; [apply HE; right; left; reflexivity|]. split; [apply HE; right; right; reflexivity|].
      split.
      * intros a H. apply HE in H. destruct H as [H|[H|H]].
        -- apply Hold in H. lia.
        -- injection H as ->. reflexivity.
        -- injection H as -> H. lia.
      * intros b H. apply HE in H. destruct H as [H|[H|H]].
        -- apply Hold in H. lia.
        -- injection H as H ->. lia.
        -- injection H as ->. reflexivity.
  - intros a b H. apply HE in H. destruct H as [H|[H|H]].
    + destruct (Iedge a b H) as [(u & v & H1 & H2 & H3 & H4)|[H1|H1]].
      * left. exists u, v. split; [apply Hn; exact H1|]. split; [apply Hn; exact H2|].
        split; [exact H3 | apply in_app_iff; left; exact H4].
      * right. left. apply Hh. exact H1.
      * right. right. apply Hh. exact H1.
    + injection H as -> ->. right. right. exact Htmp.
    + injection H as -> ->. right. left. exact Htmp.
  - intros u v H Huv. apply in_app_iff in H. destruct H as [H|[H|[]]].
    + destruct (Icall u v H Huv) as (i & j & H1 & H2 & H3).
      exists i, j. split; [apply Hn; exact H1|]. split; [apply Hn; exact H2 | apply HE; left; exact H3].
    + injection H as <- <-. congruence.
  - intros u H. apply in_app_iff in H. destruct H as [H|[H|[]]].
    + destruct (Iself u H) as (i & h & H1 & H2 & H3 & H4).
      exists i, h. split; [apply Hn; exact H1|]. split; [apply Hh; exact H2|].
      split; apply HE; left; assumption.
    + injection H as <-. exists f, tmp. split; [apply Hn; exact Hf|]. split; [exact Htmp|].
      split; apply HE; right; [left | right]; reflexivity.
  - intros h n Hhid H. unfold hidden in Hhid. rewrite Hnodes in Hhid. apply nth_error_snoc_inv in Hhid.
    apply HE in H. destruct Hhid as [[Hlt Hhid]|[-> _]]; destruct H as [H|[H|H]].
    + exact (Ihlt h n Hhid H).
    + injection H as -> ->. nh.
    + injection H as -> ->. fold tmp in Hlt. lia.
    + apply Hold in H. fold tmp in H. lia.
    + injection H as H ->. fold tmp in H. lia.
    + injection H as ->. fold tmp. exact Hflt.
Qed.

(** *** one call *)
Lemma add_dep_inv calls g x y : ginv calls g -> ginv (calls ++ [(x, y)]) (add_dep x y g).
Proof.
  intros I. unfold add_dep.
  pose proof (node_of_inv calls x g I) as H1.
  destruct (node_of x g) as [g1 f]. cbn [fst snd] in H1. destruct H1 as (I1 & Hf & _).
  pose proof (node_of_inv calls y g1 I1) as H2.
  destruct (node_of y g1) as [g2 t]. cbn [fst snd] in H2. destruct H2 as (I2 & Ht & Hmono).
  apply Hmono in Hf.
  destruct (Nat.eqb_spec f t) as [->|Hne].
  - assert (x = y) by (eapply named_fun; eassumption). subst y.
    apply (self_edge_inv calls g2 t x I2 Ht).
  - apply set_edge_inv; try assumption.
    intros ->. apply Hne. eapply (gi_uniq _ _ I2); eassumption.
Qed.

Lemma build_inv : forall calls pre g, ginv pre g -> ginv (pre ++ calls) (build calls g).
Proof.
  induction calls as [|[x y] calls IH]; intros pre g I; cbn [build fold_left].
  - rewrite app_nil_r. exact I.
  - change (pre ++ (x, y) :: calls) with (pre ++ [(x, y)] ++ calls). rewrite app_assoc.
    apply IH. cbn [fst snd]. apply add_dep_inv. exact I.
Qed.

(** 1a. the invariants of the built graph *)
Theorem build_ginv calls : ginv calls (build calls g0).
Proof. apply (build_inv calls [] g0). exact ginv_g0. Qed.

Theorem build_wf calls : wf_graph (build calls g0).
Proof. apply (gi_wf _ _ (build_ginv calls)). Qed.

Theorem build_edges_NoDup calls : NoDup (g_edges (build calls g0)).
Proof. apply (gi_nd _ _ (build_ginv calls)). Qed.

Lemma ginv_index_of calls g i x : ginv calls g -> nth_error (g_nodes g) i = Some (Some x) -> index_of x (g_nodes g) 0 = Some i.
Proof. intros I. apply uniq_index_of. apply (gi_uniq _ _ I). Qed.

Theorem build_named_unique calls i x :
  nth_error (g_nodes (build calls g0)) i = Some (Some x) -> index_of x (g_nodes (build calls g0)) 0 = Some i.
Proof. apply (ginv_index_of calls). apply build_ginv. Qed.

Theorem build_hidden calls h :
  let g := build calls g0 in
  nth_error (g_nodes g) h = Some None ->
  exists n x, nth_error (g_nodes g) n = Some (Some x) /\ In (x, x) calls /\
              In (n, h) (g_edges g) /\ In (h, n) (g_edges g) /\
              (forall a, In (a, h) (g_edges g) -> a = n) /\ (forall b, In (h, b) (g_edges g) -> b = n).
Proof. intros g. apply (gi_hid _ _ (build_ginv calls)). Qed.

Theorem build_hidden_after calls h n :
  let g := build calls g0 in
  nth_error (g_nodes g) h = Some None -> In (h, n) (g_edges g) -> n < h.
Proof. intros g. apply (gi_hlt _ _ (build_ginv calls)). Qed.

(** every node is named or hidden *)
Lemma node_cases g a : a < length (g_nodes g) -> (exists x, named g a x) \/ hidden g a.
Proof.
  intros H. unfold named, hidden. destruct (nth_error (g_nodes g) a) as [[x|]|] eqn:E.
  - left. exists x. reflexivity.
  - right. reflexivity.
  - apply nth_error_None in E. lia.
Qed.

(** ** 1b. string paths and numeric paths *)

Definition sedge (calls : list (str * str)) (x y : str) : Prop := In (x, y) calls.
Definition spath (calls : list (str * str)) : str -> str -> Prop := clos_trans_1n str (sedge calls).

Lemma spath_step calls x y : sedge calls x y -> spath calls x y.
Proof. intros H. apply t1n_step. exact H. Qed.

Lemma spath_trans calls x y z : spath calls x y -> spath calls y z -> spath calls x z.
Proof.
  intros H1 H2. induction H1 as [x y Hxy | x y w Hxy Hyw IH].
  - eapply t1n_trans; eassumption.
  - eapply t1n_trans; [exact Hxy | apply IH; exact H2].
Qed.

Lemma spath_snoc calls x y z : spath calls x y -> sedge calls y z -> spath calls x z.
Proof. intros H1 H2. eapply spath_trans; [exact H1 | apply spath_step; exact H2]. Qed.

Lemma ix_named calls g x i : ginv calls g -> (ix g x = Some i <-> named g i x).
Proof.
  intros I. unfold ix. split.
  - intros H. apply index_of_Some in H. destruct H as [_ H]. rewrite Nat.sub_0_r in H. exact H.
  - apply (ginv_index_of calls g i x I).
Qed.

(** a string edge is a numeric path between the named nodes *)
Lemma sedge_path calls g x y : ginv calls g -> sedge calls x y ->
  exists i j, named g i x /\ named g j y /\ path g i j.
Proof.
  intros I H. unfold sedge in H. destruct (str_eq_dec x y) as [->|Hne].
  - destruct (gi_self _ _ I y H) as (i & h & H1 & H2 & H3 & H4).
    exists i, i. split; [exact H1|]. split; [exact H1|].
    eapply t1n_trans; [exact H3 | apply t1n_step; exact H4].
  - destruct (gi_call _ _ I x y H Hne) as (i & j & H1 & H2 & H3).
    exists i, j. split; [exact H1|]. split; [exact H2|]. apply path_step. exact H3.
Qed.

Lemma spath_to_path calls g x y : ginv calls g -> spath calls x y ->
  exists i j, named g i x /\ named g j y /\ path g i j.
Proof.
  intros I H. induction H as [x y Hxy | x y z Hxy Hyz IH].
  - eapply sedge_path; eassumption.
  - destruct (sedge_path calls g x y I Hxy) as (i & j & H1 & H2 & H3).
    destruct IH as (j' & k & H4 & H5 & H6).
    assert (j = j') by (eapply (gi_uniq _ _ I); eassumption). subst j'.
    exists i, k. split; [exact H1|]. split; [exact H5|]. eapply path_trans; eassumption.
Qed.

(** the name a node stands for: its own, or the one of the unique neighbour of a hidden node *)
Definition stands_for (g : graph) (a : nat) (x : str) : Prop :=
  named g a x \/ (hidden g a /\ exists n, named g n x /\ In (a, n) (g_edges g)).

Lemma path_to_spath calls g a b y : ginv calls g -> path g a b -> named g b y ->
  forall x, stands_for g a x -> spath calls x y.
Proof.
  intros I H. induction H as [a b He | a c b He Hcb IH]; intros Hb x Hx.
  - destruct (gi_edge _ _ I a b He) as [(u & v & H1 & H2 & H3 & H4)|[H1|H1]].
    + assert (v = y) by (eapply named_fun; eassumption). subst v.
      destruct Hx as [Hx|[Hx _]]; [|nh].
      assert (u = x) by (eapply named_fun; eassumption). subst u.
      apply spath_step. exact H4.
    + destruct Hx as [Hx|[_ (n & Hn & Hen)]]; [nh|].
      destruct (gi_hid _ _ I a H1) as (n' & z & G1 & G2 & G3 & G4 & G5 & G6).
      assert (b = n') by (apply G6; exact He). assert (n = n') by (apply G6; exact Hen). subst b n.
      assert (z = y) by (eapply named_fun; eassumption).
      assert (z = x) by (eapply named_fun; eassumption). subst y x.
      apply spath_step. exact G2.
    + nh.
  - specialize (IH Hb).
    destruct (gi_edge _ _ I a c He) as [(u & v & H1 & H2 & H3 & H4)|[H1|H1]].
    + destruct Hx as [Hx|[Hx _]]; [|nh].
      assert (u = x) by (eapply named_fun; eassumption). subst u.
      eapply t1n_trans; [exact H4|]. apply IH. left. exact H2.
    + destruct Hx as [Hx|[_ (n & Hn & Hen)]]; [nh|].
      destruct (gi_hid _ _ I a H1) as (n' & z & G1 & G2 & G3 & G4 & G5 & G6).
      assert (c = n') by (apply G6; exact He). assert (n = n') by (apply G6; exact Hen). subst c n.
      apply IH. left. exact Hn.
    + destruct (gi_hid _ _ I c H1) as (n' & z & G1 & G2 & G3 & G4 & G5 & G6).
      assert (a = n') by (apply G5; exact He). subst n'.
      destruct Hx as [Hx|[Hx _]]; [|nh].
      assert (z = x) by (eapply named_fun; eassumption). subst z.
      apply IH. right. split; [exact H1|]. exists a. split; [exact Hx | exact G4].
Qed.

Theorem spath_path_inv calls g x y : ginv calls g ->
  (spath calls x y <-> exists i j, ix g x = Some i /\ ix g y = Some j /\ path g i j).
Proof.
  intros I. split.
  - intros H. destruct (spath_to_path calls g x y I H) as (i & j & H1 & H2 & H3).
    exists i, j. split; [apply (ix_named calls g x i I); exact H1|].
    split; [apply (ix_named calls g y j I); exact H2 | exact H3].
  - intros (i & j & H1 & H2 & H3).
    apply (ix_named calls g x i I) in H1. apply (ix_named calls g y j I) in H2.
    eapply path_to_spath; try eassumption. left. exact H1.
Qed.

(** 1b, for the graph built from [g0] *)
Theorem spath_path calls x y :
  let g := build calls g0 in
  spath calls x y <-> exists i j, ix g x = Some i /\ ix g y = Some j /\ path g i j.
Proof. intros g. apply spath_path_inv. apply build_ginv. Qed.

(** ** 1c. [deps_of] *)

Lemma keep_some_In (A : Type) (l : list (option A)) y : In y (keep_some l) <-> In (Some y) l.
Proof.
  induction l as [|[a|] l IH]; cbn [keep_some In].
  - tauto.
  - rewrite IH. split; intros [H|H]; auto; left; congruence.
  - rewrite IH. split; [auto|]. intros [H|H]; [discriminate | exact H].
Qed.

Lemma keep_some_map_NoDup (A B : Type) (F : A -> option B) (l : list A) :
  NoDup l -> (forall a b y, In a l -> In b l -> F a = Some y -> F b = Some y -> a = b) ->
  NoDup (keep_some (map F l)).
Proof.
  induction l as [|a l IH]; intros Hnd Hinj; cbn [map keep_some]; [constructor|].
  inversion Hnd as [|? ? Hni Hnd']; subst.
  assert (IH' : NoDup (keep_some (map F l))).
  { apply IH; [exact Hnd'|]. intros a' b y Ha Hb. apply Hinj; right; assumption. }
  destruct (F a) as [y|] eqn:E; [|exact IH'].
  constructor; [|exact IH'].
  intros Hin. apply keep_some_In in Hin. apply in_map_iff in Hin. destruct Hin as (b & Hb & Hin).
  assert (a = b) by (eapply Hinj; [left; reflexivity | right; exact Hin | exact E | exact Hb]).
  subst. contradiction.
Qed.

Lemma node_name_named g m y : node_name g m = Some y <-> named g m y.
Proof.
  unfold node_name, named. destruct (nth_error (g_nodes g) m) as [[z|]|]; split; congruence.
Qed.

(** what [deps_of] lists, for an arbitrary graph satisfying the invariant *)
Theorem deps_of_inv calls g id y : ginv calls g -> (In y (deps_of g id) <-> y <> id /\ spath calls id y).
Proof.
  intros I. unfold deps_of.
  pose proof (node_of_inv calls id g I) as H1.
  destruct (node_of id g) as [g1 n]. cbn [fst snd] in H1. destruct H1 as (I1 & Hn & _).
  rewrite In_sort_strs, keep_some_In, in_map_iff. split.
  - intros (m & HF & Hm). apply reachable_from_sound in Hm.
    revert HF. destruct (Nat.eqb_spec m n) as [Heq|Hne]; intros HF; [discriminate|].
    apply node_name_named in HF. split.
    + intros ->. apply Hne. eapply (gi_uniq _ _ I1); eassumption.
    + eapply path_to_spath; try eassumption. left. exact Hn.
  - intros [Hne Hp]. destruct (spath_to_path calls g1 id y I1 Hp) as (i & j & H1 & H2 & H3).
    assert (i = n) by (eapply (gi_uniq _ _ I1); eassumption). subst i.
    exists j. split.
    + destruct (Nat.eqb_spec j n) as [->|_].
      * exfalso. apply Hne. eapply named_fun; eassumption.
      * apply node_name_named. exact H2.
    + apply reachable_from_complete_strong; [apply (gi_wf _ _ I1) | exact H3].
Qed.

Theorem deps_of_NoDup_inv calls g id : ginv calls g -> NoDup (deps_of g id).
Proof.
  intros I. unfold deps_of.
  pose proof (node_of_inv calls id g I) as H1.
  destruct (node_of id g) as [g1 n]. cbn [fst snd] in H1. destruct H1 as (I1 & Hn & _).
  apply sort_strs_NoDup. apply keep_some_map_NoDup; [apply reachable_from_NoDup|].
  intros a b y _ _ Ha Hb.
  destruct (Nat.eqb a n); [discriminate|]. destruct (Nat.eqb b n); [discriminate|].
  apply node_name_named in Ha. apply node_name_named in Hb.
  eapply (gi_uniq _ _ I1); eassumption.
Qed.

Theorem deps_of_sorted_inv calls g id : ginv calls g ->
  StronglySorted (fun a b => str_ltb a b = true) (deps_of g id).
Proof.
  intros I. pose proof (deps_of_NoDup_inv calls g id I) as Hnd. revert Hnd. unfold deps_of.
  destruct (node_of id g) as [g1 n]. intros Hnd.
  apply sort_strs_strict.
  eapply Permutation_NoDup; [apply sort_strs_perm | exact Hnd].
Qed.

(** 1c, for the graph built from [g0]: the transitive dependencies of [id], [id] itself excluded
    (even when it lies on a cycle), strictly sorted. No assumption on [id]: when it does not occur in
    [calls] there is no [spath] from it and the list is empty. *)
Theorem deps_of_spec calls id y :
  In y (deps_of (build calls g0) id) <-> y <> id /\ spath calls id y.
Proof. apply deps_of_inv. apply build_ginv. Qed.

Theorem deps_of_sorted calls id : StronglySorted (fun a b => str_ltb a b = true) (deps_of (build calls g0) id).
Proof. apply (deps_of_sorted_inv calls). apply build_ginv. Qed.

Theorem deps_of_NoDup calls id : NoDup (deps_of (build calls g0) id).
Proof. apply (deps_of_NoDup_inv calls). apply build_ginv. Qed.

Lemma spath_occurs calls x y : spath calls x y -> exists z, In (x, z) calls.
Proof. intros H. destruct H as [y H|y z H _]; exists y; exact H. Qed.

Corollary deps_of_not_occurring calls id :
  (forall z, ~ In (id, z) calls) -> deps_of (build calls g0) id = [].
Proof.
  intros Hno. destruct (deps_of (build calls g0) id) as [|y l] eqn:E; [reflexivity|]. exfalso.
  assert (H : In y (deps_of (build calls g0) id)) by (rewrite E; left; reflexivity).
  apply deps_of_spec in H. destruct H as [_ H]. apply spath_occurs in H. destruct H as (z & H).
  exact (Hno z H).
Qed.

(** ** 1d. [build_graph] as a fold of [add_dep] *)

Definition edges_from (from : str) (tos : list str) : list (str * str) := map (fun t => (from, t)) tos.

Definition tag_calls (sid : str) (t : tag) : list (str * str) :=
  [(id_tag (t_name t), sid); (sid, id_decorate (t_name t))].

Definition arg_calls (from : str) (args : list arg) : list (str * str) :=
  edges_from from (map id_service (flat_map a_services args)) ++
  edges_from from (map id_tag (flat_map a_tags args)) ++
  edges_from from (map id_param (flat_map a_params args)).

Definition svc_calls (sv : oservice) : list (str * str) :=
  flat_map (tag_calls (id_service (os_name sv))) (os_tags sv) ++ arg_calls (id_service (os_name sv)) (all_args sv).

Definition dec_calls_one (j : nat) (d : odecorator) : list (str * str) :=
  (id_decorate (od_tag d), id_decorator j) :: arg_calls (id_decorator j) (od_args d).

Fixpoint dec_calls (j : nat) (l : list odecorator) : list (str * str) :=
  match l with
  | [] => []
  | d :: l' => dec_calls_one j d ++ dec_calls (S j) l'
  end.

Definition param_calls (p : oparam) : list (str * str) :=
  edges_from (id_param (op_name p)) (map id_param (op_depends p)).

(** the calls of [add_dep] made by Output.BuildDependencyGraph, in order *)
Definition dep_calls (o : output) : list (str * str) :=
  flat_map svc_calls (o_services o) ++ dec_calls 0 (o_decorators o) ++ flat_map param_calls (o_params o).

Lemma build_app l1 l2 g : build (l1 ++ l2) g = build l2 (build l1 g).
Proof. apply fold_left_app. Qed.

Lemma add_deps_build from : forall tos g, add_deps from tos g = build (edges_from from tos) g.
Proof. induction tos as [|t tos IH]; intros g; [reflexivity|]. cbn [add_deps edges_from map build fold_left fst snd]. apply IH. Qed.

Lemma arg_calls_build from args g :
  add_deps from (map id_param (flat_map a_params args))
    (add_deps from (map id_tag (flat_map a_tags args))
       (add_deps from (map id_service (flat_map a_services args)) g)) = build (arg_calls from args) g.
Proof. unfold arg_calls. rewrite !build_app, !add_deps_build. reflexivity. Qed.

Lemma tags_build sid : forall tags g,
  fold_left (fun g t => add_dep sid (id_decorate (t_name t)) (add_dep (id_tag (t_name t)) sid g)) tags g
  = build (flat_map (tag_calls sid) tags) g.
Proof. induction tags as [|t tags IH]; intros g; [reflexivity|]. cbn [fold_left flat_map tag_calls app build fst snd]. apply IH. Qed.

Lemma graph_service_build g sv : graph_service g sv = build (svc_calls sv) g.
Proof. unfold graph_service, svc_calls. rewrite build_app, <- arg_calls_build, tags_build. reflexivity. Qed.

Lemma graph_services_build : forall svs g, fold_left graph_service svs g = build (flat_map svc_calls svs) g.
Proof.
  induction svs as [|sv svs IH]; intros g; [reflexivity|].
  cbn [fold_left flat_map]. rewrite build_app, IH, graph_service_build. reflexivity.
Qed.

Lemma graph_decorators_build : forall l j g, graph_decorators j l g = build (dec_calls j l) g.
Proof.
  induction l as [|d l IH]; intros j g; [reflexivity|].
  cbn [graph_decorators dec_calls]. rewrite build_app, IH. f_equal.
  unfold dec_calls_one. cbn [build fold_left fst snd]. apply arg_calls_build.
Qed.

Lemma graph_params_build : forall l g, graph_params l g = build (flat_map param_calls l) g.
Proof.
  unfold graph_params. induction l as [|p l IH]; intros g; [reflexivity|].
  cbn [fold_left flat_map]. rewrite build_app, IH. f_equal. apply add_deps_build.
Qed.

Theorem build_graph_calls o :
  build_graph o = fold_left (fun g e => add_dep (fst e) (snd e) g) (dep_calls o) g0.
Proof.
  change (build_graph o = build (dep_calls o) g0).
  unfold build_graph, dep_calls. rewrite !build_app.
  rewrite graph_params_build, graph_decorators_build, graph_services_build. reflexivity.
Qed.

Corollary build_graph_ginv o : ginv (dep_calls o) (build_graph o).
Proof. rewrite build_graph_calls. apply build_ginv. Qed.

Print Assumptions spath_path.
Print Assumptions deps_of_spec.
Print Assumptions build_graph_calls.

(** * Part 2 — the documented dependency relation *)

(** ** the id constructors are injective and pairwise disjoint *)

(** decimal printing is injective *)
Definition dval (l : str) : N := fold_left (fun v c => (10 * v + (code c - 48))%N) l 0%N.

Lemma code_digit d : (d < 10)%N -> code (digit_char d) = (48 + d)%N.
Proof. intros H. unfold code, digit_char, ch. apply N_ascii_embedding. lia. Qed.

Lemma dec_pos_fuel_val : forall f n acc, (n < 2 ^ N.of_nat f)%N ->
  exists l, dec_pos_fuel (S f) n acc = l ++ acc /\ dval l = n.
Proof.
  induction f as [|f IH]; intros n acc Hn; cbn [dec_pos_fuel]; destruct (N.ltb_spec n 10) as [Hlt|Hge].
  - exists [digit_char n]. split; [reflexivity|]. unfold dval. cbn [fold_left]. rewrite code_digit by exact Hlt. lia.
  - cbn in Hn. lia.
  - exists [digit_char n]. split; [reflexivity|]. unfold dval. cbn [fold_left]. rewrite code_digit by exact Hlt. lia.
  - rewrite Nat2N.inj_succ, N.pow_succ_r' in Hn.
    destruct (IH (n / 10)%N (digit_char (n mod 10) :: acc)) as (l & Hl & Hv).
    { apply N.div_lt_upper_bound; lia. }
    change (dec_pos_fuel (S f) (n / 10) (digit_char (n mod 10) :: acc) = l ++ digit_char (n mod 10) :: acc) in Hl.
    exists (l ++ [digit_char (n mod 10)]). split.
    + rewrite <- app_assoc. exact Hl.
    + unfold dval in *. rewrite fold_left_app. cbn [fold_left]. rewrite Hv.
      rewrite code_digit by (apply N.mod_lt; lia).
      pose proof (N.div_mod' n 10) as Hd. clear - Hd.
      generalize dependent (n / 10)%N. generalize (n mod 10)%N. intros r q Hd. lia.
Qed.

Lemma pos_lt_pow2 p : (Npos p < 2 ^ N.of_nat (Pos.size_nat p))%N.
Proof.
  induction p as [p IH|p IH|]; cbn [Pos.size_nat]; rewrite ?Nat2N.inj_succ, ?N.pow_succ_r'; cbn [N.of_nat N.pow]; lia.
Qed.

Lemma dec_of_N_val n : exists l, dec_of_N n = l /\ dval l = n.
Proof.
  unfold dec_of_N. destruct (dec_pos_fuel_val (N.size_nat n) n []) as (l & Hl & Hv).
  - destruct n as [|p]; [cbn; lia | apply pos_lt_pow2].
  - exists l. rewrite app_nil_r in Hl. auto.
Qed.

Lemma dec_of_N_inj a b : dec_of_N a = dec_of_N b -> a = b.
Proof.
  intros H. destruct (dec_of_N_val a) as (la & Ha & Va). destruct (dec_of_N_val b) as (lb & Hb & Vb).
  congruence.
Qed.

Lemma id_service_inj a b : id_service a = id_service b -> a = b.
Proof. unfold id_service. intros H. apply app_inv_head in H. apply app_inv_tail in H. exact H. Qed.
Lemma id_param_inj a b : id_param a = id_param b -> a = b.
Proof. unfold id_param. intros H. apply app_inv_head in H. apply app_inv_tail in H. exact H. Qed.
Lemma id_tag_inj a b : id_tag a = id_tag b -> a = b.
Proof. unfold id_tag. intros H. apply app_inv_head in H. apply app_inv_tail in H. exact H. Qed.
Lemma id_decorate_inj a b : id_decorate a = id_decorate b -> a = b.
Proof. unfold id_decorate. intros H. apply app_inv_head in H. apply app_inv_tail in H. exact H. Qed.
Lemma id_decorator_inj a b : id_decorator a = id_decorator b -> a = b.
Proof.
  unfold id_decorator. intros H. apply app_inv_head in H. apply app_inv_tail in H.
  apply dec_of_N_inj in H. apply Nat2N.inj. exact H.
Qed.

Inductive kind := KService | KParam | KTag | KDecorate | KDecorator | KOther.
Definition kind_of (x : str) : kind :=
  if has_prefix (s "service(") x then KService
  else if has_prefix (s "param(") x then KParam
  else if has_prefix (s "tag(") x then KTag
  else if has_prefix (s "decorate(") x then KDecorate
  else if has_prefix (s "decorator(#") x then KDecorator
  else KOther.

Lemma kind_service a : kind_of (id_service a) = KService. Proof. reflexivity. Qed.
Lemma kind_param a : kind_of (id_param a) = KParam. Proof. reflexivity. Qed.
Lemma kind_tag a : kind_of (id_tag a) = KTag. Proof. reflexivity. Qed.
Lemma kind_decorate a : kind_of (id_decorate a) = KDecorate. Proof. reflexivity. Qed.
Lemma kind_decorator j : kind_of (id_decorator j) = KDecorator. Proof. reflexivity. Qed.

Ltac id_absurd H :=
  exfalso; apply (f_equal kind_of) in H;
  rewrite ?kind_service, ?kind_param, ?kind_tag, ?kind_decorate, ?kind_decorator in H; discriminate H.

(** normalise every equation between ids: injectivity or contradiction *)
Ltac id_simp :=
  repeat match goal with
  | H : id_service _ = id_service _ |- _ => apply id_service_inj in H; subst
  | H : id_param _ = id_param _ |- _ => apply id_param_inj in H; subst
  | H : id_tag _ = id_tag _ |- _ => apply id_tag_inj in H; subst
  | H : id_decorate _ = id_decorate _ |- _ => apply id_decorate_inj in H; subst
  | H : id_decorator _ = id_decorator _ |- _ => apply id_decorator_inj in H; subst
  | H : ?f _ = ?g _ |- _ => solve [id_absurd H]
  end.

Lemma id_service_neq_tag a t : id_service a <> id_tag t. Proof. intros H. id_absurd H. Qed.
Lemma id_service_neq_param a t : id_service a <> id_param t. Proof. intros H. id_absurd H. Qed.
Lemma id_service_neq_decorate a t : id_service a <> id_decorate t. Proof. intros H. id_absurd H. Qed.
Lemma id_service_neq_decorator a j : id_service a <> id_decorator j. Proof. intros H. id_absurd H. Qed.
Lemma id_tag_neq_param a t : id_tag a <> id_param t. Proof. intros H. id_absurd H. Qed.
Lemma id_tag_neq_decorate a t : id_tag a <> id_decorate t. Proof. intros H. id_absurd H. Qed.
Lemma id_tag_neq_decorator a j : id_tag a <> id_decorator j. Proof. intros H. id_absurd H. Qed.
Lemma id_param_neq_decorate a t : id_param a <> id_decorate t. Proof. intros H. id_absurd H. Qed.
Lemma id_param_neq_decorator a j : id_param a <> id_decorator j. Proof. intros H. id_absurd H. Qed.
Lemma id_decorate_neq_decorator a j : id_decorate a <> id_decorator j. Proof. intros H. id_absurd H. Qed.

(** ** the edges of [dep_calls o], explicitly *)

(** "service [a] carries tag [t]" etc.: the vocabulary of the documentation, on names *)
Definition carries (o : output) (a t : str) : Prop :=
  exists sv tg, In sv (o_services o) /\ os_name sv = a /\ In tg (os_tags sv) /\ t_name tg = t.
Definition svc_refs (o : output) (a b : str) : Prop :=
  exists sv, In sv (o_services o) /\ os_name sv = a /\ In b (flat_map a_services (all_args sv)).
Definition svc_wants (o : output) (a t : str) : Prop :=
  exists sv, In sv (o_services o) /\ os_name sv = a /\ In t (flat_map a_tags (all_args sv)).
Definition svc_uses (o : output) (a p : str) : Prop :=
  exists sv, In sv (o_services o) /\ os_name sv = a /\ In p (flat_map a_params (all_args sv)).
Definition dec_on (o : output) (j : nat) (t : str) : Prop :=
  exists d, nth_error (o_decorators o) j = Some d /\ od_tag d = t.
Definition dec_refs (o : output) (j : nat) (b : str) : Prop :=
  exists d, nth_error (o_decorators o) j = Some d /\ In b (flat_map a_services (od_args d)).
Definition dec_wants (o : output) (j : nat) (t : str) : Prop :=
  exists d, nth_error (o_decorators o) j = Some d /\ In t (flat_map a_tags (od_args d)).
Definition dec_uses (o : output) (j : nat) (p : str) : Prop :=
  exists d, nth_error (o_decorators o) j = Some d /\ In p (flat_map a_params (od_args d)).
Definition param_dep (o : output) (p q : str) : Prop :=
  exists P, In P (o_params o) /\ op_name P = p /\ In q (op_depends P).

(** the ten kinds of edges *)
Inductive dedge (o : output) : str -> str -> Prop :=
| DE_tag_svc a t : carries o a t -> dedge o (id_tag t) (id_service a)
| DE_svc_decorate a t : carries o a t -> dedge o (id_service a) (id_decorate t)
| DE_svc_svc a b : svc_refs o a b -> dedge o (id_service a) (id_service b)
| DE_svc_tag a t : svc_wants o a t -> dedge o (id_service a) (id_tag t)
| DE_svc_param a p : svc_uses o a p -> dedge o (id_service a) (id_param p)
| DE_decorate_dec j t : dec_on o j t -> dedge o (id_decorate t) (id_decorator j)
| DE_dec_svc j b : dec_refs o j b -> dedge o (id_decorator j) (id_service b)
| DE_dec_tag j t : dec_wants o j t -> dedge o (id_decorator j) (id_tag t)
| DE_dec_param j p : dec_uses o j p -> dedge o (id_decorator j) (id_param p)
| DE_param p q : param_dep o p q -> dedge o (id_param p) (id_param q).

Lemma In_edges_from from tos x y : In (x, y) (edges_from from tos) <-> x = from /\ In y tos.
Proof.
  unfold edges_from. rewrite in_map_iff. split.
  - intros (t & H & Hin). injection H as <- <-. auto.
  - intros [-> H]. exists y. auto.
Qed.

Definition arg_target (args : list arg) (y : str) : Prop :=
  (exists n, In n (flat_map a_services args) /\ y = id_service n) \/
  (exists n, In n (flat_map a_tags args) /\ y = id_tag n) \/
  (exists n, In n (flat_map a_params args) /\ y = id_param n).

Lemma In_arg_calls from args x y : In (x, y) (arg_calls from args) <-> x = from /\ arg_target args y.
Proof.
  unfold arg_calls, arg_target. rewrite !in_app_iff, !In_edges_from, !in_map_iff. split.
  - intros [[-> (n & <- & H)]|[[-> (n & <- & H)]|[-> (n & <- & H)]]]; (split; [reflexivity|]).
    + left. exists n. auto.
    + right. left. exists n. auto.
    + right. right. exists n. auto.
  - intros [-> [(n & H & ->)|[(n & H & ->)|(n & H & ->)]]].
    + left. split; [reflexivity|]. exists n. auto.
    + right. left. split; [reflexivity|]. exists n. auto.
    + right. right. split; [reflexivity|]. exists n. auto.
Qed.

Lemma In_svc_calls sv x y : In (x, y) (svc_calls sv) <->
  (exists tg, In tg (os_tags sv) /\
              ((x = id_tag (t_name tg) /\ y = id_service (os_name sv)) \/
               (x = id_service (os_name sv) /\ y = id_decorate (t_name tg)))) \/
  (x = id_service (os_name sv) /\ arg_target (all_args sv) y).
Proof.
  unfold svc_calls. rewrite in_app_iff, In_arg_calls, in_flat_map. unfold tag_calls. cbn [In]. split.
  - intros [(tg & Hin & [H|[H|[]]])|H]; [| |right; exact H]; injection H as <- <-; left; exists tg; auto.
  - intros [(tg & Hin & [[-> ->]|[-> ->]])|H]; [| |right; exact H]; left; exists tg; auto.
Qed.

Lemma In_dec_calls : forall l k e, In e (dec_calls k l) <-> exists j d, nth_error l j = Some d /\ In e (dec_calls_one (k + j) d).
Proof.
  induction l as [|d l IH]; intros k e; cbn [dec_calls].
  - split; [intros [] | intros ([|j] & d & H & _); discriminate].
  - rewrite in_app_iff, IH. split.
    + intros [H|(j & d' & H1 & H2)].
      * exists 0, d. rewrite Nat.add_0_r. auto.
      * exists (S j), d'. rewrite Nat.add_succ_r. auto.
    + intros ([|j] & d' & H1 & H2); cbn [nth_error] in H1.
      * injection H1 as <-. rewrite Nat.add_0_r in H2. auto.
      * right. exists j, d'. rewrite Nat.add_succ_r in H2. auto.
Qed.

(** Part 2, first half: the string edges are exactly the ten documented kinds *)
Theorem dep_calls_dedge o x y : In (x, y) (dep_calls o) <-> dedge o x y.
Proof.
  unfold dep_calls. rewrite !in_app_iff, !in_flat_map. split.
  - intros [(sv & Hsv & H)|[H|(P & HP & H)]].
    + apply In_svc_calls in H.
      destruct H as [(tg & Htg & [[-> ->]|[-> ->]])|[-> [(n & H & ->)|[(n & H & ->)|(n & H & ->)]]]].
      * apply DE_tag_svc. exists sv, tg. auto.
      * apply DE_svc_decorate. exists sv, tg. auto.
      * apply DE_svc_svc. exists sv. auto.
      * apply DE_svc_tag. exists sv. auto.
      * apply DE_svc_param. exists sv. auto.
    + apply In_dec_calls in H. destruct H as (j & d & Hd & H). cbn [Nat.add] in H.
      unfold dec_calls_one in H. cbn [In] in H. rewrite In_arg_calls in H.
      destruct H as [H|[-> [(n & H & ->)|[(n & H & ->)|(n & H & ->)]]]].
      * injection H as <- <-. apply DE_decorate_dec. exists d. auto.
      * apply DE_dec_svc. exists d. auto.
      * apply DE_dec_tag. exists d. auto.
      * apply DE_dec_param. exists d. auto.
    + unfold param_calls in H. apply In_edges_from in H. destruct H as [-> H].
      apply in_map_iff in H. destruct H as (q & <- & H). apply DE_param. exists P. auto.
  - intros H. destruct H as [a t (sv & tg & H1 & <- & H2 & <-) | a t (sv & tg & H1 & <- & H2 & <-)
                            | a b (sv & H1 & <- & H2) | a t (sv & H1 & <- & H2) | a p (sv & H1 & <- & H2)
                            | j t (d & H1 & <-) | j b (d & H1 & H2) | j t (d & H1 & H2) | j p (d & H1 & H2)
                            | p q (P & H1 & <- & H2)].
    + left. exists sv. split; [exact H1|]. apply In_svc_calls. left. exists tg. auto.
    + left. exists sv. split; [exact H1|]. apply In_svc_calls. left. exists tg. auto.
    + left. exists sv. split; [exact H1|]. apply In_svc_calls. right. split; [reflexivity|]. left. exists b. auto.
    + left. exists sv. split; [exact H1|]. apply In_svc_calls. right. split; [reflexivity|]. right. left. exists t. auto.
    + left. exists sv. split; [exact H1|]. apply In_svc_calls. right. split; [reflexivity|]. right. right. exists p. auto.
    + right. left. apply In_dec_calls. exists j, d. split; [exact H1|]. left. reflexivity.
    + right. left. apply In_dec_calls. exists j, d. split; [exact H1|]. right. apply In_arg_calls.
      split; [reflexivity|]. left. exists b. auto.
    + right. left. apply In_dec_calls. exists j, d. split; [exact H1|]. right. apply In_arg_calls.
      split; [reflexivity|]. right. left. exists t. auto.
    + right. left. apply In_dec_calls. exists j, d. split; [exact H1|]. right. apply In_arg_calls.
      split; [reflexivity|]. right. right. exists p. auto.
    + right. right. exists P. split; [exact H1|]. unfold param_calls. apply In_edges_from.
      split; [reflexivity|]. apply in_map. exact H2.
Qed.

(** the same, in the explicit disjunctive form *)
Corollary dep_calls_edges o x y : In (x, y) (dep_calls o) <->
  (exists a t, carries o a t /\ x = id_tag t /\ y = id_service a) \/
  (exists a t, carries o a t /\ x = id_service a /\ y = id_decorate t) \/
  (exists a b, svc_refs o a b /\ x = id_service a /\ y = id_service b) \/
  (exists a t, svc_wants o a t /\ x = id_service a /\ y = id_tag t) \/
  (exists a p, svc_uses o a p /\ x = id_service a /\ y = id_param p) \/
  (exists j t, dec_on o j t /\ x = id_decorate t /\ y = id_decorator j) \/
  (exists j b, dec_refs o j b /\ x = id_decorator j /\ y = id_service b) \/
  (exists j t, dec_wants o j t /\ x = id_decorator j /\ y = id_tag t) \/
  (exists j p, dec_uses o j p /\ x = id_decorator j /\ y = id_param p) \/
  (exists p q, param_dep o p q /\ x = id_param p /\ y = id_param q).
Proof.
  rewrite dep_calls_dedge. split.
  - intros [a t H|a t H|a b H|a t H|a p H|j t H|j b H|j t H|j p H|p q H].
    + left. exists a, t. auto.
    + right. left. exists a, t. auto.
    + do 2 right. left. exists a, b. auto.
    + do 3 right. left. exists a, t. auto.
    + do 4 right. left. exists a, p. auto.
    + do 5 right. left. exists j, t. auto.
    + do 6 right. left. exists j, b. auto.
    + do 7 right. left. exists j, t. auto.
    + do 8 right. left. exists j, p. auto.
    + do 9 right. exists p, q. auto.
  - intros [(a & t & H & -> & ->)|[(a & t & H & -> & ->)|[(a & b & H & -> & ->)|[(a & t & H & -> & ->)|
           [(a & p & H & -> & ->)|[(j & t & H & -> & ->)|[(j & b & H & -> & ->)|[(j & t & H & -> & ->)|
           [(j & p & H & -> & ->)|(p & q & H & -> & ->)]]]]]]]]]; constructor; exact H.
Qed.

(** ** the documented relation between services *)

(** what decorator #j makes the decorated service depend on *)
Definition dec_target (o : output) (j : nat) (b : str) : Prop :=
  dec_refs o j b \/ exists t, dec_wants o j t /\ carries o b t.

(** [a] references [@b] in an argument, or requests [!tagged t] carried by [b], or carries a tag with a decorator
    attached which references [@b] or requests [!tagged t'] carried by [b] *)
Definition svc_dep (o : output) (a b : str) : Prop :=
  svc_refs o a b \/
  (exists t, svc_wants o a t /\ carries o b t) \/
  (exists t j, carries o a t /\ dec_on o j t /\ dec_target o j b).

Definition dpath (o : output) : str -> str -> Prop := spath (dep_calls o).

Lemma dedge_dpath o x y : dedge o x y -> dpath o x y.
Proof. intros H. apply spath_step. apply dep_calls_dedge. exact H. Qed.

Lemma dec_target_dpath o j b : dec_target o j b -> dpath o (id_decorator j) (id_service b).
Proof.
  intros [H|(t & H1 & H2)].
  - apply dedge_dpath. constructor. exact H.
  - eapply spath_trans; apply dedge_dpath; [apply DE_dec_tag; exact H1 | apply DE_tag_svc; exact H2].
Qed.

Lemma svc_dep_dpath o a b : svc_dep o a b -> dpath o (id_service a) (id_service b).
Proof.
  intros [H|[(t & H1 & H2)|(t & j & H1 & H2 & H3)]].
  - apply dedge_dpath. constructor. exact H.
  - eapply spath_trans; apply dedge_dpath; [apply DE_svc_tag; exact H1 | apply DE_tag_svc; exact H2].
  - eapply spath_trans; [apply dedge_dpath; apply DE_svc_decorate; exact H1|].
    eapply spath_trans; [apply dedge_dpath; apply DE_decorate_dec; exact H2|].
    apply dec_target_dpath. exact H3.
Qed.

Definition reach_or_eq (o : output) (c b : str) : Prop := c = b \/ clos_trans str (svc_dep o) c b.

Lemma svc_dep_roe o a c b : svc_dep o a c -> reach_or_eq o c b -> clos_trans str (svc_dep o) a b.
Proof.
  intros H [->|H']; [apply t_step; exact H|]. eapply t_trans; [apply t_step; exact H | exact H'].
Qed.

(** what a node that reaches service [b] looks like, by kind *)
Definition leads_to (o : output) (b : str) (x : str) : Prop :=
  (forall a, x = id_service a -> clos_trans str (svc_dep o) a b) /\
  (forall t, x = id_tag t -> exists c, carries o c t /\ reach_or_eq o c b) /\
  (forall j, x = id_decorator j -> exists c, dec_target o j c /\ reach_or_eq o c b) /\
  (forall t, x = id_decorate t -> exists j c, dec_on o j t /\ dec_target o j c /\ reach_or_eq o c b) /\
  (forall p, x = id_param p -> False).

Lemma leads_to_base o b x : dedge o x (id_service b) -> leads_to o b x.
Proof.
  intros H. remember (id_service b) as y eqn:Ey.
  destruct H as [a t H|a t H|a b' H|a t H|a p H|j t H|j b' H|j t H|j p H|p q H]; id_simp;
    repeat split; intros; id_simp.
  - exists b. split; [exact H | left; reflexivity].
  - apply t_step. left. exact H.
  - exists b. split; [left; exact H | left; reflexivity].
Qed.

Lemma leads_to_step o b x z : dedge o x z -> leads_to o b z -> leads_to o b x.
Proof.
  intros H (L1 & L2 & L3 & L4 & L5).
  destruct H as [a t H|a t H|a b' H|a t H|a p H|j t H|j b' H|j t H|j p H|p q H];
    repeat split; intros; id_simp.
  - exists a. split; [exact H|]. right. apply L1. reflexivity.
  - destruct (L4 t eq_refl) as (j & c & H1 & H2 & H3).
    eapply svc_dep_roe; [|exact H3]. right. right. exists t, j. auto.
  - eapply svc_dep_roe; [left; exact H|]. right. apply L1. reflexivity.
  - destruct (L2 t eq_refl) as (c & H1 & H2).
    eapply svc_dep_roe; [|exact H2]. right. left. exists t. auto.
  - exfalso. eapply L5. reflexivity.
  - destruct (L3 j eq_refl) as (c & H1 & H2). exists j, c. auto.
  - exists b'. split; [left; exact H|]. right. apply L1. reflexivity.
  - destruct (L2 t eq_refl) as (c & H1 & H2). exists c. split; [|exact H2]. right. exists t. auto.
  - exfalso. eapply L5. reflexivity.
  - eapply L5. reflexivity.
Qed.

Lemma dpath_leads_to o b x : dpath o x (id_service b) -> leads_to o b x.
Proof.
  intros H. remember (id_service b) as y eqn:Ey. induction H as [x y H|x z y H Hzy IH]; subst y.
  - apply leads_to_base. apply dep_calls_dedge. exact H.
  - eapply leads_to_step; [apply dep_calls_dedge; exact H | apply IH; reflexivity].
Qed.

(** Part 2, main theorem: reachability between two service nodes of the graph is the transitive closure of
    the documented relation (no assumption on [a], [b]: they may be undeclared) *)
Theorem service_reach o a b :
  spath (dep_calls o) (id_service a) (id_service b) <-> clos_trans str (svc_dep o) a b.
Proof.
  split.
  - intros H. apply dpath_leads_to in H. destruct H as (L1 & _). apply L1. reflexivity.
  - intros H. induction H as [a b H|a c b _ IH1 _ IH2].
    + apply svc_dep_dpath. exact H.
    + eapply spath_trans; eassumption.
Qed.

(** params are sinks: from a param node only param nodes are reachable, along [param_dep] *)
Lemma param_reach o p y : spath (dep_calls o) (id_param p) y -> exists q, y = id_param q /\ clos_trans str (param_dep o) p q.
Proof.
  intros H. remember (id_param p) as x eqn:Ex. revert p Ex.
  induction H as [x y H|x z y H Hzy IH]; intros p ->; apply dep_calls_dedge in H.
  - remember (id_param p) as x eqn:Ex.
    destruct H as [a t H|a t H|a b' H|a t H|a p' H|j t H|j b' H|j t H|j p' H|p' q H]; id_simp.
    exists q. split; [reflexivity | apply t_step; exact H].
  - remember (id_param p) as x eqn:Ex.
    destruct H as [a t H|a t H|a b' H|a t H|a p' H|j t H|j b' H|j t H|j p' H|p' q H]; id_simp.
    destruct (IH q eq_refl) as (r & -> & Hr). exists r. split; [reflexivity|].
    eapply t_trans; [apply t_step; exact H | exact Hr].
Qed.

Lemma param_dep_dpath o p q : clos_trans str (param_dep o) p q -> spath (dep_calls o) (id_param p) (id_param q).
Proof.
  intros H. induction H as [p q H|p r q _ IH1 _ IH2].
  - apply dedge_dpath. constructor. exact H.
  - eapply spath_trans; eassumption.
Qed.

Theorem param_reach_iff o p q :
  spath (dep_calls o) (id_param p) (id_param q) <-> clos_trans str (param_dep o) p q.
Proof.
  split; [|apply param_dep_dpath].
  intros H. apply param_reach in H. destruct H as (r & Hr & H). id_simp. exact H.
Qed.

Print Assumptions dep_calls_dedge.
Print Assumptions service_reach.

(** * Part 3 — the scope rule *)

Lemma resource_of_service b : resource_of (id_service b) = b.
Proof.
  unfold resource_of. change (drop_to_paren (id_service b)) with (b ++ [")"%char]). apply removelast_last.
Qed.
Lemma resource_of_param b : resource_of (id_param b) = b.
Proof.
  unfold resource_of. change (drop_to_paren (id_param b)) with (b ++ [")"%char]). apply removelast_last.
Qed.
Lemma resource_of_tag b : resource_of (id_tag b) = b.
Proof.
  unfold resource_of. change (drop_to_paren (id_tag b)) with (b ++ [")"%char]). apply removelast_last.
Qed.
Lemma resource_of_decorate b : resource_of (id_decorate b) = b.
Proof.
  unfold resource_of. change (drop_to_paren (id_decorate b)) with (b ++ [")"%char]). apply removelast_last.
Qed.

Lemma spath_target calls x y : spath calls x y -> exists z, In (z, y) calls.
Proof. intros H. induction H as [x y H|x z y _ _ IH]; [exists x; exact H | exact IH]. Qed.

(** a reachable node whose id starts with "service(" is a service node *)
Lemma service_id_target o x y : spath (dep_calls o) x y -> is_service_id y = true -> exists b, y = id_service b.
Proof.
  intros H Hs. apply spath_target in H. destruct H as (z & H). apply dep_calls_dedge in H.
  destruct H as [a t H|a t H|a b' H|a t H|a p' H|j t H|j b' H|j t H|j p' H|p' q H];
    try (exfalso; discriminate Hs); eexists; reflexivity.
Qed.

Definition scope_msg (a b : str) : str :=
  s "output.ValidateServicesScopes: " ++ quote a ++ s ": service is shared, but dependant " ++ quote b ++ s " is contextual".

Lemma scope_errors_leaf o g sv e : In e (scope_errors_of o g sv) ->
  os_scope sv = OScShared /\
  exists id, In id (deps_of g (id_service (os_name sv))) /\ is_service_id id = true /\
             is_contextual o (resource_of id) = true /\
             e = leaf (quote (os_name sv) ++ s ": service is shared, but dependant " ++ quote (resource_of id) ++ s " is contextual").
Proof.
  unfold scope_errors_of. destruct (os_scope sv); try (intros []).
  intros H. apply in_map_iff in H. destruct H as (id & <- & H). apply filter_In in H. destruct H as [H1 H2].
  apply andb_true_iff in H2. destruct H2 as [H2 H3]. split; [reflexivity|]. exists id. auto.
Qed.

(** the errors of [validate_scopes], exactly. [a <> b] comes from [deps_of] excluding the node itself: a shared
    service that is on a cycle never reports itself (and it is not contextual anyway when names are unique). *)
Theorem validate_scopes_spec o m :
  In m (collect (validate_scopes o)) <->
  exists sa b, In sa (o_services o) /\ os_scope sa = OScShared /\ os_name sa <> b /\
               clos_trans str (svc_dep o) (os_name sa) b /\ is_contextual o b = true /\
               m = scope_msg (os_name sa) b.
Proof.
  unfold validate_scopes. rewrite collect_gprefix, in_map_iff. split.
  - intros (x & <- & H). apply in_flat_map in H. destruct H as (e & He & Hx).
    apply in_flat_map in He. destruct He as (sv & Hsv & He). apply sort_by_In in Hsv.
    apply scope_errors_leaf in He. destruct He as (Hsc & id & Hid & Hs & Hc & ->).
    destruct Hx as [<-|[]].
    apply (deps_of_inv (dep_calls o)) in Hid; [|apply build_graph_ginv]. destruct Hid as [Hne Hp].
    destruct (service_id_target o _ _ Hp Hs) as (b & ->). rewrite resource_of_service in *.
    exists sv, b. split; [exact Hsv|]. split; [exact Hsc|]. split; [congruence|].
    split; [apply service_reach; exact Hp|]. split; [exact Hc | reflexivity].
  - intros (sa & b & Hsa & Hsc & Hne & Hp & Hc & ->).
    exists (quote (os_name sa) ++ s ": service is shared, but dependant " ++ quote b ++ s " is contextual").
    split; [reflexivity|]. apply in_flat_map.
    exists (leaf (quote (os_name sa) ++ s ": service is shared, but dependant " ++ quote b ++ s " is contextual")).
    split; [|left; reflexivity]. apply in_flat_map. exists sa. split; [apply sort_by_In; exact Hsa|].
    unfold scope_errors_of. rewrite Hsc. apply in_map_iff. exists (id_service b).
    rewrite resource_of_service. split; [reflexivity|]. apply filter_In. split.
    + apply (deps_of_inv (dep_calls o)); [apply build_graph_ginv|]. split.
      * intros H. apply id_service_inj in H. congruence.
      * apply service_reach. exact Hp.
    + rewrite resource_of_service, Hc. reflexivity.
Qed.

Lemma gprefix_leaves_none p l : (forall e, In e l -> exists m, e = leaf m) ->
  (gprefix p l = None <-> forall m, ~ In m (collect (gprefix p l))).
Proof.
  intros Hl. rewrite gprefix_none. split.
  - intros H m Hm. rewrite collect_gprefix in Hm. apply in_map_iff in Hm. destruct Hm as (x & _ & Hx).
    apply in_flat_map in Hx. destruct Hx as (e & He & Hx). rewrite (H e He) in Hx. destruct Hx.
  - intros H e He. exfalso. destruct (Hl e He) as (m & ->). apply (H (p ++ m)).
    rewrite collect_gprefix. apply in_map. apply in_flat_map. exists (leaf m). split; [exact He | left; reflexivity].
Qed.

Lemma validate_scopes_none_collect o : validate_scopes o = None <-> forall m, ~ In m (collect (validate_scopes o)).
Proof.
  unfold validate_scopes. apply gprefix_leaves_none.
  intros e He. apply in_flat_map in He. destruct He as (sv & _ & He). apply scope_errors_leaf in He.
  destruct He as (_ & id & _ & _ & _ & ->). eexists. reflexivity.
Qed.

(** C05, build-time half: the validator accepts iff no shared service transitively depends on a different
    contextual service *)
Theorem validate_scopes_none o :
  validate_scopes o = None <->
  forall sa b, In sa (o_services o) -> os_scope sa = OScShared -> os_name sa <> b ->
               clos_trans str (svc_dep o) (os_name sa) b -> is_contextual o b = false.
Proof.
  rewrite validate_scopes_none_collect. split.
  - intros H sa b H1 H2 H3 H4. destruct (is_contextual o b) eqn:E; [|reflexivity]. exfalso.
    apply (H (scope_msg (os_name sa) b)). apply validate_scopes_spec. exists sa, b. auto 10.
  - intros H m Hm. apply validate_scopes_spec in Hm. destruct Hm as (sa & b & H1 & H2 & H3 & H4 & H5 & _).
    rewrite (H sa b H1 H2 H3 H4) in H5. discriminate.
Qed.

(** with unique service names, [is_contextual] is what it says *)
Lemma NoDup_map_inj (A B : Type) (f : A -> B) (l : list A) a b :
  NoDup (map f l) -> In a l -> In b l -> f a = f b -> a = b.
Proof.
  induction l as [|c l IH]; intros Hnd Ha Hb Hf; [destruct Ha|].
  cbn [map] in Hnd. inversion Hnd as [|? ? Hni Hnd']; subst.
  destruct Ha as [->|Ha], Hb as [->|Hb].
  - reflexivity.
  - exfalso. apply Hni. rewrite Hf. apply in_map. exact Hb.
  - exfalso. apply Hni. rewrite <- Hf. apply in_map. exact Ha.
  - apply IH; assumption.
Qed.

Lemma find_service_iff o b sb : NoDup (map os_name (o_services o)) ->
  (find_service o b = Some sb <-> In sb (o_services o) /\ os_name sb = b).
Proof.
  intros Hnd. unfold find_service. split.
  - intros H. apply find_some in H. destruct H as [H1 H2]. apply in_rev in H1. apply str_eqb_eq in H2. auto.
  - intros [H1 H2].
    destruct (find (fun sv => str_eqb (os_name sv) b) (rev (o_services o))) as [sv|] eqn:E.
    + apply find_some in E. destruct E as [E1 E2]. apply in_rev in E1. apply str_eqb_eq in E2.
      f_equal. eapply NoDup_map_inj; [exact Hnd | exact E1 | exact H1 | congruence].
    + exfalso. apply in_rev in H1. pose proof (find_none _ _ E sb H1) as Hf.
      cbv beta in Hf. rewrite H2, str_eqb_refl in Hf. discriminate.
Qed.

Lemma is_contextual_iff o b : NoDup (map os_name (o_services o)) ->
  (is_contextual o b = true <-> exists sb, In sb (o_services o) /\ os_name sb = b /\ os_scope sb = OScContextual).
Proof.
  intros Hnd. unfold is_contextual. split.
  - destruct (find_service o b) as [sv|] eqn:E; [|discriminate].
    apply (find_service_iff o b sv Hnd) in E. destruct E as [E1 E2].
    destruct (os_scope sv) eqn:Es; try discriminate. intros _. exists sv. auto.
  - intros (sb & H1 & H2 & H3). assert (E : find_service o b = Some sb) by (apply find_service_iff; auto).
    rewrite E, H3. reflexivity.
Qed.

Theorem validate_scopes_none_uniq o : NoDup (map os_name (o_services o)) ->
  (validate_scopes o = None <->
   forall sa sb, In sa (o_services o) -> In sb (o_services o) ->
                 os_scope sa = OScShared -> os_scope sb = OScContextual -> os_name sa <> os_name sb ->
                 ~ clos_trans str (svc_dep o) (os_name sa) (os_name sb)).
Proof.
  intros Hnd. rewrite validate_scopes_none. split.
  - intros H sa sb H1 H2 H3 H4 H5 H6.
    assert (E : is_contextual o (os_name sb) = true) by (apply is_contextual_iff; [exact Hnd|]; exists sb; auto).
    rewrite (H sa (os_name sb) H1 H3 H5 H6) in E. discriminate.
  - intros H sa b H1 H2 H3 H4. destruct (is_contextual o b) eqn:E; [|reflexivity]. exfalso.
    apply is_contextual_iff in E; [|exact Hnd]. destruct E as (sb & E1 & <- & E3).
    exact (H sa sb H1 E1 H2 E3 H3 H4).
Qed.

Print Assumptions validate_scopes_spec.
Print Assumptions validate_scopes_none_uniq.

(** * Part 4 — the cycle rule *)

Lemma path_src_bounded g a b : wf_graph g -> path g a b -> a < length (g_nodes g).
Proof. intros Hwf H. destruct H as [b H|c b H _]; apply Hwf in H; tauto. Qed.

(** the numeric graph has a closed walk iff the string relation has one *)
Lemma acyclic_iff calls g : ginv calls g -> ((forall a, ~ path g a a) <-> forall x, ~ spath calls x x).
Proof.
  intros I. split.
  - intros H x Hx. destruct (spath_to_path calls g x x I Hx) as (i & j & H1 & H2 & H3).
    assert (i = j) by (eapply (gi_uniq _ _ I); eassumption). subst j. exact (H i H3).
  - intros H a Ha. pose proof (path_src_bounded g a a (gi_wf _ _ I) Ha) as Hlt.
    destruct (node_cases g a Hlt) as [(x & Hx)|Hh].
    + apply (H x). eapply path_to_spath; try eassumption. left. exact Hx.
    + destruct (gi_hid _ _ I a Hh) as (n & x & _ & Hxx & _). apply (H x). apply spath_step. exact Hxx.
Qed.

Lemma validate_circular_none_cycles o : validate_circular o = None <-> all_cycles (build_graph o) = [].
Proof.
  unfold validate_circular. rewrite gprefix_none. split.
  - intros H. specialize (H _ (or_introl eq_refl)). unfold gjoin in H. rewrite gprefix_none in H.
    unfold cycle_errors in H. destruct (all_cycles (build_graph o)) as [|c l]; [reflexivity|]. exfalso.
    cbn [map] in H. specialize (H _ (or_introl eq_refl)). discriminate.
  - intros H e [<-|[]]. unfold cycle_errors. rewrite H. reflexivity.
Qed.

(** C07: the validator accepts iff the string relation has no closed walk *)
Theorem validate_circular_none o : validate_circular o = None <-> forall x, ~ spath (dep_calls o) x x.
Proof.
  rewrite validate_circular_none_cycles.
  rewrite (all_cycles_nil_iff_acyclic _ (gi_wf _ _ (build_graph_ginv o))).
  apply acyclic_iff. apply build_graph_ginv.
Qed.

(** a closed walk can be restarted at the successor of its first node *)
Lemma spath_rot calls x : spath calls x x -> exists z, sedge calls x z /\ spath calls z z.
Proof.
  intros H. inversion H as [y Hxy|y z Hxy Hyx]; subst.
  - exists x. auto.
  - exists y. split; [exact Hxy|]. eapply spath_snoc; eassumption.
Qed.

Definition has_doc_cycle (o : output) : Prop :=
  (exists a, clos_trans str (svc_dep o) a a) \/ (exists p, clos_trans str (param_dep o) p p).

Lemma cyc_service o a : spath (dep_calls o) (id_service a) (id_service a) -> has_doc_cycle o.
Proof. intros H. left. exists a. apply service_reach. exact H. Qed.

Lemma cyc_param o p : spath (dep_calls o) (id_param p) (id_param p) -> has_doc_cycle o.
Proof. intros H. right. exists p. apply param_reach_iff. exact H. Qed.

Lemma cyc_tag o t : spath (dep_calls o) (id_tag t) (id_tag t) -> has_doc_cycle o.
Proof.
  intros H. apply spath_rot in H. destruct H as (z & H & Hz). apply dep_calls_dedge in H.
  remember (id_tag t) as x eqn:Ex.
  destruct H as [a t' H|a t' H|a b' H|a t' H|a p' H|j t' H|j b' H|j t' H|j p' H|p' q H]; id_simp.
  eapply cyc_service. exact Hz.
Qed.

Lemma cyc_decorator o j : spath (dep_calls o) (id_decorator j) (id_decorator j) -> has_doc_cycle o.
Proof.
  intros H. apply spath_rot in H. destruct H as (z & H & Hz). apply dep_calls_dedge in H.
  remember (id_decorator j) as x eqn:Ex.
  destruct H as [a t' H|a t' H|a b' H|a t' H|a p' H|j' t' H|j' b' H|j' t' H|j' p' H|p' q H]; id_simp.
  - eapply cyc_service. exact Hz.
  - eapply cyc_tag. exact Hz.
  - eapply cyc_param. exact Hz.
Qed.

Lemma cyc_decorate o t : spath (dep_calls o) (id_decorate t) (id_decorate t) -> has_doc_cycle o.
Proof.
  intros H. apply spath_rot in H. destruct H as (z & H & Hz). apply dep_calls_dedge in H.
  remember (id_decorate t) as x eqn:Ex.
  destruct H as [a t' H|a t' H|a b' H|a t' H|a p' H|j' t' H|j' b' H|j' t' H|j' p' H|p' q H]; id_simp.
  eapply cyc_decorator. exact Hz.
Qed.

(** a cycle of the graph contains a service node or consists of param nodes only *)
Lemma cyc_any o x : spath (dep_calls o) x x -> has_doc_cycle o.
Proof.
  intros H. destruct (spath_occurs _ _ _ H) as (z & Hz). apply dep_calls_dedge in Hz.
  destruct Hz as [a t' Hz|a t' Hz|a b' Hz|a t' Hz|a p' Hz|j' t' Hz|j' b' Hz|j' t' Hz|j' p' Hz|p' q Hz].
  - eapply cyc_tag; exact H.
  - eapply cyc_service; exact H.
  - eapply cyc_service; exact H.
  - eapply cyc_service; exact H.
  - eapply cyc_service; exact H.
  - eapply cyc_decorate; exact H.
  - eapply cyc_decorator; exact H.
  - eapply cyc_decorator; exact H.
  - eapply cyc_decorator; exact H.
  - eapply cyc_param; exact H.
Qed.

Lemma doc_cycle_iff o : (exists x, spath (dep_calls o) x x) <-> has_doc_cycle o.
Proof.
  split.
  - intros (x & H). eapply cyc_any. exact H.
  - intros [(a & H)|(p & H)].
    + exists (id_service a). apply service_reach. exact H.
    + exists (id_param p). apply param_reach_iff. exact H.
Qed.

(** C07 in terms of the documented relations *)
Theorem validate_circular_documented o :
  validate_circular o = None <->
  (forall a, ~ clos_trans str (svc_dep o) a a) /\ (forall p, ~ clos_trans str (param_dep o) p p).
Proof.
  rewrite validate_circular_none. split.
  - intros H. split.
    + intros a Ha. apply (H (id_service a)). apply service_reach. exact Ha.
    + intros p Hp. apply (H (id_param p)). apply param_reach_iff. exact Hp.
  - intros [H1 H2] x Hx. destruct (cyc_any o x Hx) as [(a & Ha)|(p & Hp)].
    + exact (H1 a Ha).
    + exact (H2 p Hp).
Qed.

(** ** the reported cycles: complete and sound *)

Lemma cycle_ids_In g c x : In x (cycle_ids g c) <-> exists i, In i c /\ named g i x.
Proof.
  unfold cycle_ids. rewrite keep_some_In, in_map_iff. split.
  - intros (i & H1 & H2). exists i. split; [exact H2 | apply node_name_named; exact H1].
  - intros (i & H1 & H2). exists i. split; [apply node_name_named; exact H2 | exact H1].
Qed.

(** every node on a cycle is on a listed cycle *)
Theorem cycle_shown o x : spath (dep_calls o) x x ->
  exists c, In c (all_cycles (build_graph o)) /\ In x (cycle_ids (build_graph o) c).
Proof.
  intros H. pose proof (build_graph_ginv o) as I.
  destruct (spath_to_path _ _ x x I H) as (i & j & H1 & H2 & H3).
  assert (i = j) by (eapply (gi_uniq _ _ I); eassumption). subst j.
  destruct (on_cycle_covered _ i (gi_wf _ _ I) H3) as (c & Hc & Hi).
  exists c. split; [exact Hc|]. apply cycle_ids_In. exists i. auto.
Qed.

(** every listed cycle is a real one *)
Theorem cycle_sound o c x : In c (all_cycles (build_graph o)) -> In x (cycle_ids (build_graph o) c) ->
  spath (dep_calls o) x x.
Proof.
  intros Hc Hx. pose proof (build_graph_ginv o) as I.
  apply cycle_ids_In in Hx. destruct Hx as (i & Hi & Hn).
  assert (Hp : path (build_graph o) i i).
  { apply (on_cycle_iff _ i (gi_wf _ _ I)). exists c. auto. }
  eapply path_to_spath; try eassumption. left. exact Hn.
Qed.

Print Assumptions validate_circular_none.
Print Assumptions validate_circular_documented.
Print Assumptions cycle_shown.
Print Assumptions cycle_sound.

(** ** the messages: every node of a cycle appears, pretty-printed, in a message of [cycle_errors] *)

(** the first node of a listed cycle (its smallest node) is never a hidden node *)
Lemma listed_cycle_head_named calls g v rest :
  ginv calls g -> is_cycle g (v :: rest ++ [v]) -> exists x, named g v x.
Proof.
  intros I (v' & rest' & Heq & Hnd & Hch & Hmin).
  injection Heq as <- Heq. apply app_inv_tail in Heq. subst rest'.
  assert (Hlt : v < length (g_nodes g)).
  { destruct rest as [|r rest]; cbn [app] in Hch; apply chain_cons in Hch; destruct Hch as [He _];
      apply (gi_wf _ _ I) in He; tauto. }
  destruct (node_cases g v Hlt) as [Hx|Hh]; [exact Hx|]. exfalso.
  destruct rest as [|r rest]; cbn [app] in Hch; apply chain_cons in Hch; destruct Hch as [He _].
  - pose proof (gi_hlt _ _ I v v Hh He). lia.
  - pose proof (gi_hlt _ _ I v r Hh He) as H1.
    rewrite Forall_forall in Hmin. specialize (Hmin r (or_introl eq_refl)). lia.
Qed.

(** lists whose first and last element coincide *)
Definition closed (l : list str) : Prop := exists a m, l = a :: m ++ [a].

Lemma rot1_closed l : closed l -> closed (rot1 l) /\ forall x, In x (rot1 l) <-> In x l.
Proof.
  intros (a & m & ->). destruct m as [|b m]; cbn [app rot1].
  - split; [exists a, []; reflexivity | tauto].
  - split.
    + exists b, (m ++ [a]). reflexivity.
    + intros x. cbn [In]. rewrite !in_app_iff. cbn [In]. tauto.
Qed.

Lemma iter_rot1_closed n l : closed l -> closed (Nat.iter n rot1 l) /\ forall x, In x (Nat.iter n rot1 l) <-> In x l.
Proof.
  intros Hc. induction n as [|n [IH1 IH2]]; cbn [Nat.iter nat_rect].
  - split; [exact Hc | tauto].
  - destruct (rot1_closed _ IH1) as [H1 H2]. split; [exact H1|].
    intros x. rewrite H2. apply IH2.
Qed.

Lemma normalize_cycle_In l x : closed l -> (In x (normalize_cycle l) <-> In x l).
Proof. intros Hc. unfold normalize_cycle. apply iter_rot1_closed. exact Hc. Qed.

Lemma listed_cycle_ids_closed calls g c : ginv calls g -> In c (all_cycles g) -> closed (cycle_ids g c).
Proof.
  intros I Hc. apply all_cycles_sound in Hc. pose proof Hc as (v & rest & -> & _).
  destruct (listed_cycle_head_named calls g v rest I Hc) as (x & Hx).
  apply node_name_named in Hx. unfold cycle_ids.
  cbn [map]. rewrite map_app. cbn [map]. rewrite Hx. cbn [keep_some]. rewrite keep_some_app. cbn [keep_some].
  exists x, (keep_some (map (node_name g) rest)). reflexivity.
Qed.

Lemma join_In_sub sep : forall l y, In y l -> exists u v, join sep l = u ++ y ++ v.
Proof.
  induction l as [|a l IH]; intros y Hy; [destruct Hy|].
  destruct l as [|b l].
  - destruct Hy as [->|[]]. exists [], []. cbn [join app]. rewrite app_nil_r. reflexivity.
  - change (join sep (a :: b :: l)) with (a ++ sep ++ join sep (b :: l)).
    destruct Hy as [->|Hy].
    + exists [], (sep ++ join sep (b :: l)). reflexivity.
    + destruct (IH y Hy) as (u & v & ->). exists (a ++ sep ++ u), v. rewrite <- !app_assoc. reflexivity.
Qed.

(** every node [x] on a cycle appears in the (normalised) id list of a reported message ... *)
Theorem cycle_error_shown o x : spath (dep_calls o) x x ->
  exists ids, In x ids /\ In (join (s " -> ") (map pretty ids)) (cycle_errors o).
Proof.
  intros H. destruct (cycle_shown o x H) as (c & Hc & Hx).
  exists (normalize_cycle (cycle_ids (build_graph o) c)). split.
  - apply normalize_cycle_In; [|exact Hx].
    eapply listed_cycle_ids_closed; [apply build_graph_ginv | exact Hc].
  - unfold cycle_errors.
    apply (in_map (fun c => join (s " -> ") (map pretty (normalize_cycle (cycle_ids (build_graph o) c))))).
    exact Hc.
Qed.

(** ... hence [pretty x] is a substring of that message *)
Corollary cycle_error_shown_sub o x : spath (dep_calls o) x x ->
  exists m u v, In m (cycle_errors o) /\ m = u ++ pretty x ++ v.
Proof.
  intros H. destruct (cycle_error_shown o x H) as (ids & Hx & Hm).
  destruct (join_In_sub (s " -> ") (map pretty ids) (pretty x) (in_map pretty _ _ Hx)) as (u & v & E).
  exists (join (s " -> ") (map pretty ids)), u, v. auto.
Qed.

(** and conversely every id mentioned by a message lies on a cycle *)
Theorem cycle_error_sound o m : In m (cycle_errors o) ->
  exists ids, m = join (s " -> ") (map pretty ids) /\ ids <> [] /\ forall x, In x ids -> spath (dep_calls o) x x.
Proof.
  unfold cycle_errors. intros H. apply in_map_iff in H. destruct H as (c & <- & Hc).
  pose proof (listed_cycle_ids_closed _ _ c (build_graph_ginv o) Hc) as Hcl.
  exists (normalize_cycle (cycle_ids (build_graph o) c)). split; [reflexivity|]. split.
  - destruct Hcl as (a & l & E). intros Hn.
    assert (Ha : In a (normalize_cycle (cycle_ids (build_graph o) c))).
    { apply normalize_cycle_In; [exists a, l; exact E | rewrite E; left; reflexivity]. }
    rewrite Hn in Ha. destruct Ha.
  - intros x Hx. apply (normalize_cycle_In _ x Hcl) in Hx. eapply cycle_sound; eassumption.
Qed.

Print Assumptions cycle_error_shown_sub.
Print Assumptions cycle_error_sound.
