(** Instance identity over arbitrary operation histories (sequential semantics, Runtime/RT.v + Runtime/Load.v).

    0. serial invariant: [serial_inv], [get_serial_inv], [resolve_dep_serial_inv], [step_serial_inv], [run_ops_serial_inv],
       [load_serial_inv], freshness of cache-missing gets: [get_miss_fresh]
    1. shared identity: [shared_identity] (headline), [shared_entry_kept], [shared_get_establishes], [shared_identity_window];
       scopes: [step_scope], [run_ops_scope], [override_service_scope_self], [override_service_scope_declared]
    2. contextual identity: [contextual_same_context], [contextual_distinct] (+ corollaries)
    3. non-shared freshness: [nonshared_fresh]
    4. serial monotonicity / definitions change only at overrides: [run_ops_serial_mono], [run_ops_defs], ...
    5. a concrete history: [Example.example_history] and friends

    Tools: [gen_inv] (an induction principle for get / resolve_dep / resolve_deps over a transitive relation on (state, bag)),
    [two_pos] (two positions of a history). *)
From GV Require Import Base.Str Base.Quote Base.Sort Model.Env Model.Input Model.Imports Model.Token Model.Compile Model.OutVal
  Runtime.RT Runtime.Load Proofs.SortProofs Proofs.RTProofs.
From Coq Require Import Lia.

(** * Top-level serials *)

Definition top_serial (v : value) : option N := match v with VObj _ _ _ _ sr => Some sr | _ => None end.

(** if [v] is an object, its serial is at most [n] *)
Definition top_le (v : value) (n : N) : Prop := forall sr, top_serial v = Some sr -> (sr <= n)%N.

(** [v] is an object allocated after serial [lo] and not after [hi] *)
Definition fresh_in (lo hi : N) (v : value) : Prop := exists sr, top_serial v = Some sr /\ (lo < sr)%N /\ (sr <= hi)%N.

Lemma top_le_mono v n m : top_le v n -> (n <= m)%N -> top_le v m.
Proof. intros H L sr E. specialize (H sr E). lia. Qed.

Lemma fresh_in_mono lo hi lo' hi' v : fresh_in lo hi v -> (lo' <= lo)%N -> (hi <= hi')%N -> fresh_in lo' hi' v.
Proof. intros [sr [E [L H]]] L' H'. exists sr. split; [exact E|]. lia. Qed.

Lemma fresh_in_top_le lo hi v : fresh_in lo hi v -> top_le v hi.
Proof. intros [sr [E [_ H]]] sr' E'. rewrite E in E'. inversion E'; subst. exact H. Qed.

Lemma fresh_in_top lo hi v v' : top_serial v' = top_serial v -> fresh_in lo hi v -> fresh_in lo hi v'.
Proof. intros E [sr [E1 H]]. exists sr. rewrite E. split; [exact E1|exact H]. Qed.

Lemma top_le_top n v v' : top_serial v' = top_serial v -> top_le v n -> top_le v' n.
Proof. intros E H sr E1. apply H. rewrite <- E. exact E1. Qed.

Lemma obj_set_top v n x v' : obj_set v n x = ROk v' -> top_serial v' = top_serial v.
Proof. destruct v; cbn [obj_set]; intros H; inversion H; reflexivity. Qed.

Lemma obj_call_top v m args v' : obj_call v m args = ROk v' -> top_serial v' = top_serial v.
Proof. destruct v; cbn [obj_call]; intros H; inversion H; reflexivity. Qed.

(** ** what the creation pipeline does to the top-level serial *)
Section BuildTop.
  Variable depsf : rt -> str -> list str.
  Variable f : nat.

  Lemma fields_loop_top l : forall st b v err st' b' v',
    fields_loop depsf f l st b v err = ((st', b'), ROk v') -> top_serial v' = top_serial v.
  Proof.
    induction l as [|[n dp] l IH]; intros st b v err st' b' v' H; cbn [fields_loop] in H.
    - inversion H as [[E1 E2 E3]]. apply fin_ok in E3. destruct E3 as [_ ->]. reflexivity.
    - destruct (resolve_dep depsf f st b dp) as [[st1 b1] [x|e]]; [|eapply IH; exact H].
      destruct (obj_set v n x) as [v1|e] eqn:O; [|eapply IH; exact H].
      rewrite (IH _ _ _ _ _ _ _ H). eapply obj_set_top; exact O.
  Qed.

  Lemma calls_loop_top l : forall st b v err st' b' v',
    calls_loop depsf f l st b v err = ((st', b'), ROk v') -> top_serial v' = top_serial v.
  Proof.
    induction l as [|c l IH]; intros st b v err st' b' v' H; cbn [calls_loop] in H.
    - inversion H as [[E1 E2 E3]]. apply fin_ok in E3. destruct E3 as [_ ->]. reflexivity.
    - destruct (resolve_deps depsf f st b (rc_deps c)) as [[st1 b1] [x|e]]; [|eapply IH; exact H].
      destruct (obj_call v (rc_method c) x) as [v1|e] eqn:O.
      + rewrite (IH _ _ _ _ _ _ _ H). eapply obj_call_top; exact O.
      + destruct (rc_wither c); [discriminate|eapply IH; exact H].
  Qed.

  (** decorators: the value is kept, or the result is a wrapper allocated during the loop *)
  Lemma decs_loop_top d id l : forall st b v st' b' v',
    decs_loop depsf f d id l st b v = ((st', b'), ROk v') ->
    top_serial v' = top_serial v \/ fresh_in (rt_serial st) (rt_serial st') v'.
  Proof.
    induction l as [|dd l IH]; intros st b v st' b' v' H.
    - inversion H; subst. left; reflexivity.
    - destruct (applies d dd) eqn:A.
      + destruct (resolve_deps depsf f st b (dd_deps dd)) as [[st1 b1] [args|e]] eqn:G.
        * rewrite (decs_loop_apply depsf f d id dd l st b v st1 b1 args A G) in H.
          pose proof (gf_serial _ _ (resolve_deps_frame _ _ _ _ _ _ _ _ G)) as L1.
          pose proof (gf_serial _ _ (decs_loop_frame' _ _ _ _ _ _ _ _ _ _ _ H)) as L2.
          rewrite decorated_state_serial in L2.
          right. destruct (IH _ _ _ _ _ _ H) as [E|Fr].
          -- exists (rt_serial st1 + 1)%N. split; [rewrite E; reflexivity|]. lia.
          -- eapply fresh_in_mono; [exact Fr| |apply N.le_refl]. rewrite decorated_state_serial. lia.
        * rewrite (decs_loop_apply_err depsf f d id dd l st b v st1 b1 e A G) in H. discriminate.
      + rewrite (decs_loop_skip depsf f d id dd l st b v A) in H. eapply IH; exact H.
  Qed.

  Lemma create_top d st b st' b' v :
    create depsf f d st b = ((st', b'), ROk v) ->
    match sd_create d with
    | CCtor _ _ _ => fresh_in (rt_serial st) (rt_serial st') v
    | CZero => v = VObj [] [] [] [] 0 /\ st' = st
    | CValue w => v = w /\ st' = st
    | CTodo => False
    end.
  Proof.
    unfold create. destruct (sd_create d) as [o fails deps|w| |]; intros H; try (inversion H; subst; auto; fail).
    destruct (resolve_deps depsf f st b deps) as [[st1 b1] [args|e]] eqn:G; [|discriminate].
    pose proof (gf_serial _ _ (resolve_deps_frame _ _ _ _ _ _ _ _ G)) as L1.
    destruct fails; [discriminate|]. cbn [alloc with_trace rt_serial] in H. inversion H; subst.
    exists (rt_serial st1 + 1)%N. split; [reflexivity|]. cbn [with_serial rt_serial]. lia.
  Qed.

  (** a constructor service: the built value is an object allocated during the build *)
  Lemma build_fresh d id st b st' b' v o fl deps :
    sd_create d = CCtor o fl deps -> build depsf f d id st b = ((st', b'), ROk v) ->
    fresh_in (rt_serial st) (rt_serial st') v.
  Proof.
    intros Hc H. unfold build in H.
    destruct (create depsf f d st b) as [[st1 b1] [v1|e]] eqn:C; [|discriminate].
    pose proof (create_top _ _ _ _ _ _ C) as T1. rewrite Hc in T1.
    destruct (fields_loop depsf f (sd_fields d) st1 b1 v1 None) as [[st2 b2] [v2|e]] eqn:Fl; [|discriminate].
    pose proof (fields_loop_top _ _ _ _ _ _ _ _ Fl) as T2.
    pose proof (gf_serial _ _ (fields_loop_frame' _ _ _ _ _ _ _ _ _ Fl)) as L2.
    destruct (calls_loop depsf f (sd_calls d) st2 b2 v2 None) as [[st3 b3] [v3|e]] eqn:Cl; [|discriminate].
    pose proof (calls_loop_top _ _ _ _ _ _ _ _ Cl) as T3.
    pose proof (gf_serial _ _ (calls_loop_frame' _ _ _ _ _ _ _ _ _ Cl)) as L3.
    pose proof (gf_serial _ _ (decs_loop_frame' _ _ _ _ _ _ _ _ _ _ _ H)) as L4.
    pose proof (gf_serial _ _ (create_frame' _ _ _ _ _ _ _ _ C)) as L1.
    destruct (decs_loop_top _ _ _ _ _ _ _ _ _ H) as [E|Fr].
    - eapply fresh_in_top; [rewrite E, T3, T2; reflexivity|]. eapply fresh_in_mono; [exact T1|apply N.le_refl|lia].
    - eapply fresh_in_mono; [exact Fr|lia|apply N.le_refl].
  Qed.

  (** any service whose [value:] (if it is one) respects the bound: the built value respects the bound *)
  Lemma build_top_le d id st b st' b' v :
    (forall w, sd_create d = CValue w -> top_le w (rt_serial st)) ->
    build depsf f d id st b = ((st', b'), ROk v) -> top_le v (rt_serial st').
  Proof.
    intros Hv H. unfold build in H.
    destruct (create depsf f d st b) as [[st1 b1] [v1|e]] eqn:C; [|discriminate].
    pose proof (create_top _ _ _ _ _ _ C) as T1.
    pose proof (gf_serial _ _ (create_frame' _ _ _ _ _ _ _ _ C)) as L1.
    assert (B1 : top_le v1 (rt_serial st1)).
    { destruct (sd_create d) as [o fails deps|w| |].
      - eapply fresh_in_top_le; exact T1.
      - destruct T1 as [-> ->]. apply Hv; reflexivity.
      - destruct T1 as [-> ->]. intros sr E. inversion E; subst. lia.
      - destruct T1. }
    destruct (fields_loop depsf f (sd_fields d) st1 b1 v1 None) as [[st2 b2] [v2|e]] eqn:Fl; [|discriminate].
    pose proof (fields_loop_top _ _ _ _ _ _ _ _ Fl) as T2.
    pose proof (gf_serial _ _ (fields_loop_frame' _ _ _ _ _ _ _ _ _ Fl)) as L2.
    destruct (calls_loop depsf f (sd_calls d) st2 b2 v2 None) as [[st3 b3] [v3|e]] eqn:Cl; [|discriminate].
    pose proof (calls_loop_top _ _ _ _ _ _ _ _ Cl) as T3.
    pose proof (gf_serial _ _ (calls_loop_frame' _ _ _ _ _ _ _ _ _ Cl)) as L3.
    pose proof (gf_serial _ _ (decs_loop_frame' _ _ _ _ _ _ _ _ _ _ _ H)) as L4.
    destruct (decs_loop_top _ _ _ _ _ _ _ _ _ H) as [E|Fr].
    - eapply top_le_top; [rewrite E, T3, T2; reflexivity|]. eapply top_le_mono; [exact B1|lia].
    - eapply fresh_in_top_le; exact Fr.
  Qed.
End BuildTop.

(** [store] only touches the caches *)
Lemma store_frame sc id v st b st' b' r : store sc id v st b = ((st', b'), r) -> gframe st st' /\ rt_serial st' = rt_serial st /\ r = ROk v.
Proof.
  unfold store. destruct sc; intros H; inversion H; subst; (split; [|split; reflexivity]);
    try apply gframe_refl. apply gframe_with_shared.
Qed.

(** * A generic induction principle for [get] / [resolve_dep] / [resolve_deps]

    [R] relates the (state, bag) before and after.  It must hold for the administrative steps (the definitions, bags and
    shared cache are unchanged, the serial may grow), be transitive, and hold across the final [store] of a cache-missing
    [get] given that it holds for the build. *)
Section GenInv.
  Variable depsf : rt -> str -> list str.
  Variable st0 : rt.
  Variable R : rt -> bag -> rt -> bag -> Prop.
  Hypothesis R_admin : forall st b st', gframe st st' -> rt_shared st' = rt_shared st -> R st b st' b.
  Hypothesis R_trans : forall st1 b1 st2 b2 st3 b3, R st1 b1 st2 b2 -> R st2 b2 st3 b3 -> R st1 b1 st3 b3.
  Hypothesis R_store : forall f st b n d st4 b4 v4 st' b',
    gframe st0 st -> lookup n (rt_services st) = Some d -> cached_of (resolve_scope depsf st n) st b n = None ->
    build depsf f d n st b = ((st4, b4), ROk v4) -> R st b st4 b4 ->
    store (resolve_scope depsf st n) n v4 st4 b4 = ((st', b'), ROk v4) -> R st b st' b'.

  Lemma R_refl st b : R st b st b.
  Proof. apply R_admin; [apply gframe_refl|reflexivity]. Qed.

  Section Loops.
    Variable f : nat.
    Hypothesis Hg : forall st b n st' b' r, gframe st0 st -> get depsf f st b n = ((st', b'), r) -> R st b st' b'.
    Hypothesis Hd : forall st b d st' b' r, gframe st0 st -> resolve_dep depsf f st b d = ((st', b'), r) -> R st b st' b'.
    Hypothesis Hds : forall st b ds st' b' r, gframe st0 st -> resolve_deps depsf f st b ds = ((st', b'), r) -> R st b st' b'.

    Lemma tag_loop_R l : forall st b acc st' b' r, gframe st0 st -> tag_loop depsf f l st b acc = ((st', b'), r) -> R st b st' b'.
    Proof.
      induction l as [|n l IH]; intros st b acc st' b' r F H; cbn [tag_loop] in H.
      - inversion H; subst. apply R_refl.
      - destruct (get depsf f st b n) as [[st1 b1] [v|e]] eqn:G; pose proof (Hg _ _ _ _ _ _ F G) as R1.
        + eapply R_trans; [exact R1|]. eapply IH; [|exact H].
          eapply gframe_trans; [exact F|eapply get_frame; exact G].
        + inversion H; subst. exact R1.
    Qed.

    Lemma deps_loop_R l : forall st b acc err st' b' r, gframe st0 st -> deps_loop depsf f l st b acc err = ((st', b'), r) -> R st b st' b'.
    Proof.
      induction l as [|d l IH]; intros st b acc err st' b' r F H; cbn [deps_loop] in H.
      - inversion H; subst. apply R_refl.
      - destruct (resolve_dep depsf f st b d) as [[st1 b1] [v|e]] eqn:G; pose proof (Hd _ _ _ _ _ _ F G) as R1;
          (eapply R_trans; [exact R1|]; eapply IH; [|exact H];
           eapply gframe_trans; [exact F|eapply resolve_dep_frame; exact G]).
    Qed.

    Lemma fields_loop_R l : forall st b v err st' b' r, gframe st0 st -> fields_loop depsf f l st b v err = ((st', b'), r) -> R st b st' b'.
    Proof.
      induction l as [|[n dp] l IH]; intros st b v err st' b' r F H; cbn [fields_loop] in H.
      - inversion H; subst. apply R_refl.
      - destruct (resolve_dep depsf f st b dp) as [[st1 b1] [x|e]] eqn:G; pose proof (Hd _ _ _ _ _ _ F G) as R1;
          pose proof (gframe_trans _ _ _ F (resolve_dep_frame _ _ _ _ _ _ _ _ G)) as F1.
        + destruct (obj_set v n x) as [v'|e]; (eapply R_trans; [exact R1|]; eapply IH; [exact F1|exact H]).
        + eapply R_trans; [exact R1|]. eapply IH; [exact F1|exact H].
    Qed.

    Lemma calls_loop_R l : forall st b v err st' b' r, gframe st0 st -> calls_loop depsf f l st b v err = ((st', b'), r) -> R st b st' b'.
    Proof.
      induction l as [|c l IH]; intros st b v err st' b' r F H; cbn [calls_loop] in H.
      - inversion H; subst. apply R_refl.
      - destruct (resolve_deps depsf f st b (rc_deps c)) as [[st1 b1] [x|e]] eqn:G; pose proof (Hds _ _ _ _ _ _ F G) as R1;
          pose proof (gframe_trans _ _ _ F (resolve_deps_frame _ _ _ _ _ _ _ _ G)) as F1.
        + destruct (obj_call v (rc_method c) x) as [v'|e]; [eapply R_trans; [exact R1|]; eapply IH; [exact F1|exact H]|].
          destruct (rc_wither c); [inversion H; subst; exact R1|].
          eapply R_trans; [exact R1|]. eapply IH; [exact F1|exact H].
        + eapply R_trans; [exact R1|]. eapply IH; [exact F1|exact H].
    Qed.

    Lemma decs_loop_R d id l : forall st b v st' b' r, gframe st0 st -> decs_loop depsf f d id l st b v = ((st', b'), r) -> R st b st' b'.
    Proof.
      induction l as [|dd l IH]; intros st b v st' b' r F H.
      - inversion H; subst. apply R_refl.
      - destruct (applies d dd) eqn:A.
        + destruct (resolve_deps depsf f st b (dd_deps dd)) as [[st1 b1] [args|e]] eqn:G; pose proof (Hds _ _ _ _ _ _ F G) as R1.
          * rewrite (decs_loop_apply depsf f d id dd l st b v st1 b1 args A G) in H.
            eapply R_trans; [exact R1|].
            eapply R_trans; [apply (R_admin st1 b1 (decorated_state st1 dd)); [apply gframe_allocated|reflexivity]|].
            eapply IH; [|exact H].
            eapply gframe_trans; [exact F|]. eapply gframe_trans; [eapply resolve_deps_frame; exact G|apply gframe_allocated].
          * rewrite (decs_loop_apply_err depsf f d id dd l st b v st1 b1 e A G) in H. inversion H; subst. exact R1.
        + rewrite (decs_loop_skip depsf f d id dd l st b v A) in H. eapply IH; [exact F|exact H].
    Qed.

    Lemma create_R d st b st' b' r : gframe st0 st -> create depsf f d st b = ((st', b'), r) -> R st b st' b'.
    Proof.
      intros F. unfold create. destruct (sd_create d) as [o fails deps|v| |]; try (intros H; inversion H; subst; apply R_refl).
      destruct (resolve_deps depsf f st b deps) as [[st1 b1] [args|e]] eqn:G; pose proof (Hds _ _ _ _ _ _ F G) as R1.
      - destruct fails; cbn [alloc]; intros H; inversion H; subst; (eapply R_trans; [exact R1|]); apply R_admin; try reflexivity.
        + apply gframe_with_trace.
        + apply gframe_allocated.
      - intros H; inversion H; subst; exact R1.
    Qed.

    Lemma build_R d id st b st' b' r : gframe st0 st -> build depsf f d id st b = ((st', b'), r) -> R st b st' b'.
    Proof.
      intros F H. unfold build in H.
      destruct (create depsf f d st b) as [[st1 b1] [v1|e]] eqn:C; pose proof (create_R _ _ _ _ _ _ F C) as R1;
        [|inversion H; subst; exact R1].
      pose proof (gframe_trans _ _ _ F (create_frame' _ _ _ _ _ _ _ _ C)) as F1.
      destruct (fields_loop depsf f (sd_fields d) st1 b1 v1 None) as [[st2 b2] [v2|e]] eqn:Fl;
        pose proof (R_trans _ _ _ _ _ _ R1 (fields_loop_R _ _ _ _ _ _ _ _ F1 Fl)) as R2; [|inversion H; subst; exact R2].
      pose proof (gframe_trans _ _ _ F1 (fields_loop_frame' _ _ _ _ _ _ _ _ _ Fl)) as F2.
      destruct (calls_loop depsf f (sd_calls d) st2 b2 v2 None) as [[st3 b3] [v3|e]] eqn:Cl;
        pose proof (R_trans _ _ _ _ _ _ R2 (calls_loop_R _ _ _ _ _ _ _ _ F2 Cl)) as R3; [|inversion H; subst; exact R3].
      pose proof (gframe_trans _ _ _ F2 (calls_loop_frame' _ _ _ _ _ _ _ _ _ Cl)) as F3.
      eapply R_trans; [exact R3|eapply decs_loop_R; [exact F3|exact H]].
    Qed.
  End Loops.

  Lemma gen_inv f :
    (forall st b n st' b' r, gframe st0 st -> get depsf f st b n = ((st', b'), r) -> R st b st' b') /\
    (forall st b d st' b' r, gframe st0 st -> resolve_dep depsf f st b d = ((st', b'), r) -> R st b st' b') /\
    (forall st b ds st' b' r, gframe st0 st -> resolve_deps depsf f st b ds = ((st', b'), r) -> R st b st' b').
  Proof.
    induction f as [|f (IHg & IHd & IHds)].
    - split; [|split]; intros ? ? ? ? ? ? _ H; inversion H; subst; apply R_refl.
    - split; [|split].
      + intros st b id st' b' r F H. rewrite get_shape in H.
        destruct (lookup id (rt_services st)) as [d|] eqn:Hd; [|inversion H; subst; apply R_refl].
        destruct (cached_of (resolve_scope depsf st id) st b id) eqn:Hc; [inversion H; subst; apply R_refl|].
        destruct (build depsf f d id st b) as [[st4 b4] [v4|e4]] eqn:B;
          pose proof (build_R f IHd IHds _ _ _ _ _ _ _ F B) as R4; [|inversion H; subst; exact R4].
        destruct (store_frame _ _ _ _ _ _ _ _ H) as [_ [_ ->]].
        eapply R_store; eassumption.
      + intros st b d st' b' r F H. rewrite resolve_dep_unfold in H.
        destruct d as [p|v|n|t| |toks]; try (inversion H; subst; apply R_refl).
        * eapply IHg; eassumption.
        * eapply (tag_loop_R f IHg); eassumption.
        * destruct (eval_pattern f st toks) as [st1 r1] eqn:E. inversion H; subst.
          pose proof (eval_pattern_frame _ _ _ _ _ E) as PF.
          apply R_admin; [apply pframe_gframe; exact PF|apply (pf_shared _ _ PF)].
      + intros st b ds st' b' r F H. rewrite resolve_deps_unfold in H. eapply (deps_loop_R f IHd); eassumption.
  Qed.
End GenInv.

(** * Scopes depend only on the definitions *)

(** [depsf] is a function of the service and decorator definitions only *)
Definition def_ext (depsf : rt -> str -> list str) : Prop :=
  forall st st' n, rt_services st' = rt_services st -> rt_decorators st' = rt_decorators st -> depsf st' n = depsf st n.

Lemma rt_depsf_ext : def_ext rt_depsf.
Proof. intros st st' n Es Ed. unfold rt_depsf, rt_graph. rewrite Es, Ed. reflexivity. Qed.

Lemma resolve_scope_ext depsf st st' n :
  rt_services st' = rt_services st -> depsf st' n = depsf st n -> resolve_scope depsf st' n = resolve_scope depsf st n.
Proof. intros Es Ed. unfold resolve_scope, declared_scope. rewrite Es, Ed. reflexivity. Qed.

Lemma resolve_scope_defs depsf st st' n :
  def_ext depsf -> rt_services st' = rt_services st -> rt_decorators st' = rt_decorators st ->
  resolve_scope depsf st' n = resolve_scope depsf st n.
Proof. intros Hx Es Ed. apply resolve_scope_ext; [exact Es|apply Hx; assumption]. Qed.

Lemma resolve_scope_gframe depsf st st' n :
  def_ext depsf -> gframe st st' -> resolve_scope depsf st' n = resolve_scope depsf st n.
Proof. intros Hx F. apply resolve_scope_defs; [exact Hx|apply (gf_services _ _ F)|apply (gf_decorators _ _ F)]. Qed.

(** the resolved scope is never [OScDefault]; it is [OScNonShared] exactly when declared so *)
Lemma resolve_scope_not_default depsf st n : resolve_scope depsf st n <> OScDefault.
Proof.
  unfold resolve_scope. destruct (declared_scope st n) eqn:E; try discriminate.
  destruct (existsb _ _); discriminate.
Qed.

Lemma resolve_scope_nonshared depsf st n : resolve_scope depsf st n = OScNonShared <-> declared_scope st n = OScNonShared.
Proof.
  unfold resolve_scope. destruct (declared_scope st n) eqn:E; split; try discriminate; try reflexivity.
  destruct (existsb _ _); discriminate.
Qed.

Lemma In_assoc_set {A} k (v : A) k' v' m : In (k, v) (assoc_set k' v' m) -> (k, v) = (k', v') \/ In (k, v) m.
Proof.
  unfold assoc_set. intros [E|H]; [left; symmetry; exact E|right]. apply filter_In in H. apply H.
Qed.

(** * 0. The serial invariant: definitions *)

Definition shared_le (st : rt) : Prop := forall k v, In (k, v) (rt_shared st) -> top_le v (rt_serial st).
Definition bag_le (b : bag) (n : N) : Prop := forall k v, In (k, v) b -> top_le v n.
Definition bags_le (st : rt) : Prop := forall c b, In (c, b) (rt_bags st) -> bag_le b (rt_serial st).

(** every object stored in the shared cache and in every attached bag was allocated: its serial is at most [rt_serial] *)
Definition serial_inv (st : rt) : Prop := shared_le st /\ bags_le st.

(** the objects that [value:] services hand out (they are not allocated by the container) respect the bound as well;
    this is about the definitions: without it a [value:] service could put an arbitrary serial into the caches *)
Definition defs_le (st : rt) : Prop :=
  forall n d w, lookup n (rt_services st) = Some d -> sd_create d = CValue w -> top_le w (rt_serial st).

Lemma bag_le_mono b n m : bag_le b n -> (n <= m)%N -> bag_le b m.
Proof. intros H L k v I. eapply top_le_mono; [eapply H; exact I|exact L]. Qed.

Lemma bag_le_nil n : bag_le [] n.
Proof. intros k v []. Qed.

Lemma defs_le_gframe st st' : defs_le st -> gframe st st' -> defs_le st'.
Proof.
  intros H F n d w Hd Hc. rewrite (gf_services _ _ F) in Hd.
  eapply top_le_mono; [eapply H; eassumption|apply (gf_serial _ _ F)].
Qed.

Lemma bags_le_gframe st st' : bags_le st -> gframe st st' -> bags_le st'.
Proof.
  intros H F c b I. rewrite (gf_bags _ _ F) in I.
  eapply bag_le_mono; [eapply H; exact I|apply (gf_serial _ _ F)].
Qed.

(** * Instances of the induction principle *)

(** ** cache entries are never overwritten or removed *)
Definition keeps (st : rt) (b : bag) (st' : rt) (b' : bag) : Prop :=
  (forall k v, lookup k (rt_shared st) = Some v -> lookup k (rt_shared st') = Some v) /\
  (forall k v, lookup k b = Some v -> lookup k b' = Some v).

(** ** the entries of a service that appear were allocated in between *)
Definition origin (id : str) (st : rt) (b : bag) (st' : rt) (b' : bag) : Prop :=
  gframe st st' /\
  (forall v, lookup id (rt_shared st') = Some v -> lookup id (rt_shared st) = Some v \/ fresh_in (rt_serial st) (rt_serial st') v) /\
  (forall v, lookup id b' = Some v -> lookup id b = Some v \/ fresh_in (rt_serial st) (rt_serial st') v).

(** ** the serial bound on the caches *)
Definition sle (st : rt) (b : bag) (st' : rt) (b' : bag) : Prop :=
  gframe st st' /\ (shared_le st -> bag_le b (rt_serial st) -> shared_le st' /\ bag_le b' (rt_serial st')).

Section Instances.
  Variable depsf : rt -> str -> list str.
  Variable st0 : rt.

  Lemma keeps_admin st b st' : gframe st st' -> rt_shared st' = rt_shared st -> keeps st b st' b.
  Proof. intros _ E. split; [intros k v H; rewrite E; exact H|auto]. Qed.

  Lemma keeps_trans st1 b1 st2 b2 st3 b3 : keeps st1 b1 st2 b2 -> keeps st2 b2 st3 b3 -> keeps st1 b1 st3 b3.
  Proof. intros [A1 B1] [A2 B2]. split; auto. Qed.

  Lemma keeps_store f st b n d st4 b4 v4 st' b' :
    gframe st0 st -> lookup n (rt_services st) = Some d -> cached_of (resolve_scope depsf st n) st b n = None ->
    build depsf f d n st b = ((st4, b4), ROk v4) -> keeps st b st4 b4 ->
    store (resolve_scope depsf st n) n v4 st4 b4 = ((st', b'), ROk v4) -> keeps st b st' b'.
  Proof.
    intros _ _ Hc _ [K1 K2] St. unfold store in St.
    destruct (resolve_scope depsf st n); inversion St; subst; try (split; assumption); cbn [cached_of] in Hc.
    - split; [|exact K2]. intros k v Hl. cbn [with_shared rt_shared].
      destruct (str_eqb_spec k n) as [->|Hn]; [congruence|].
      rewrite lookup_assoc_set_other by exact Hn. apply K1; exact Hl.
    - split; [exact K1|]. intros k v Hl.
      destruct (str_eqb_spec k n) as [->|Hn]; [congruence|].
      rewrite lookup_assoc_set_other by exact Hn. apply K2; exact Hl.
  Qed.

  Lemma keeps_all f :
    (forall st b n st' b' r, gframe st0 st -> get depsf f st b n = ((st', b'), r) -> keeps st b st' b') /\
    (forall st b d st' b' r, gframe st0 st -> resolve_dep depsf f st b d = ((st', b'), r) -> keeps st b st' b') /\
    (forall st b ds st' b' r, gframe st0 st -> resolve_deps depsf f st b ds = ((st', b'), r) -> keeps st b st' b').
  Proof. apply gen_inv; [apply keeps_admin|apply keeps_trans|apply keeps_store]. Qed.

  (** *** origin *)
  Variable id : str.

  Lemma origin_admin st b st' : gframe st st' -> rt_shared st' = rt_shared st -> origin id st b st' b.
  Proof. intros F E. split; [exact F|]. split; intros v H; left; [rewrite <- E|]; exact H. Qed.

  Lemma origin_trans st1 b1 st2 b2 st3 b3 : origin id st1 b1 st2 b2 -> origin id st2 b2 st3 b3 -> origin id st1 b1 st3 b3.
  Proof.
    intros [F1 [S1 B1]] [F2 [S2 B2]]. pose proof (gf_serial _ _ F1) as L1. pose proof (gf_serial _ _ F2) as L2.
    split; [eapply gframe_trans; eassumption|]. split; intros v H.
    - destruct (S2 v H) as [H2|Fr]; [|right; eapply fresh_in_mono; [exact Fr|exact L1|apply N.le_refl]].
      destruct (S1 v H2) as [H1|Fr]; [left; exact H1|right; eapply fresh_in_mono; [exact Fr|apply N.le_refl|exact L2]].
    - destruct (B2 v H) as [H2|Fr]; [|right; eapply fresh_in_mono; [exact Fr|exact L1|apply N.le_refl]].
      destruct (B1 v H2) as [H1|Fr]; [left; exact H1|right; eapply fresh_in_mono; [exact Fr|apply N.le_refl|exact L2]].
  Qed.

  Section OriginStore.
    Variables (d0 : sdef) (o0 : str) (fl0 : bool) (deps0 : list rdep).
    Hypothesis Hd0 : lookup id (rt_services st0) = Some d0.
    Hypothesis Hc0 : sd_create d0 = CCtor o0 fl0 deps0.

    Lemma origin_store f st b n d st4 b4 v4 st' b' :
      gframe st0 st -> lookup n (rt_services st) = Some d -> cached_of (resolve_scope depsf st n) st b n = None ->
      build depsf f d n st b = ((st4, b4), ROk v4) -> origin id st b st4 b4 ->
      store (resolve_scope depsf st n) n v4 st4 b4 = ((st', b'), ROk v4) -> origin id st b st' b'.
    Proof.
      intros F Hd _ B [F4 [S4 B4]] St.
      assert (Fr : n = id -> fresh_in (rt_serial st) (rt_serial st4) v4).
      { intros ->. rewrite (gf_services _ _ F), Hd0 in Hd. inversion Hd; subst d. eapply build_fresh; eassumption. }
      unfold store in St. destruct (resolve_scope depsf st n); inversion St; subst; try (split; [exact F4|split; assumption]).
      - split; [eapply gframe_trans; [exact F4|apply gframe_with_shared]|]. cbn [with_shared rt_shared rt_serial].
        split; [|exact B4]. intros v H. destruct (str_eqb_spec id n) as [->|Hn].
        + rewrite lookup_assoc_set_same in H. inversion H; subst. right. apply Fr; reflexivity.
        + rewrite lookup_assoc_set_other in H by exact Hn. apply S4; exact H.
      - split; [exact F4|]. split; [exact S4|]. intros v H. destruct (str_eqb_spec id n) as [->|Hn].
        + rewrite lookup_assoc_set_same in H. inversion H; subst. right. apply Fr; reflexivity.
        + rewrite lookup_assoc_set_other in H by exact Hn. apply B4; exact H.
    Qed.

    Lemma origin_all f :
      (forall st b n st' b' r, gframe st0 st -> get depsf f st b n = ((st', b'), r) -> origin id st b st' b') /\
      (forall st b d st' b' r, gframe st0 st -> resolve_dep depsf f st b d = ((st', b'), r) -> origin id st b st' b') /\
      (forall st b ds st' b' r, gframe st0 st -> resolve_deps depsf f st b ds = ((st', b'), r) -> origin id st b st' b').
    Proof. apply gen_inv; [apply origin_admin|apply origin_trans|apply origin_store]. Qed.
  End OriginStore.

  (** *** serial bound *)
  Lemma sle_admin st b st' : gframe st st' -> rt_shared st' = rt_shared st -> sle st b st' b.
  Proof.
    intros F E. split; [exact F|]. intros HS HB. pose proof (gf_serial _ _ F) as L. split.
    - intros k v I. rewrite E in I. eapply top_le_mono; [eapply HS; exact I|exact L].
    - eapply bag_le_mono; eassumption.
  Qed.

  Lemma sle_trans st1 b1 st2 b2 st3 b3 : sle st1 b1 st2 b2 -> sle st2 b2 st3 b3 -> sle st1 b1 st3 b3.
  Proof.
    intros [F1 H1] [F2 H2]. split; [eapply gframe_trans; eassumption|].
    intros HS HB. destruct (H1 HS HB) as [HS2 HB2]. apply H2; assumption.
  Qed.

  Hypothesis Hdefs : defs_le st0.

  Lemma sle_store f st b n d st4 b4 v4 st' b' :
    gframe st0 st -> lookup n (rt_services st) = Some d -> cached_of (resolve_scope depsf st n) st b n = None ->
    build depsf f d n st b = ((st4, b4), ROk v4) -> sle st b st4 b4 ->
    store (resolve_scope depsf st n) n v4 st4 b4 = ((st', b'), ROk v4) -> sle st b st' b'.
  Proof.
    intros F Hd _ B [F4 H4] St.
    assert (T4 : top_le v4 (rt_serial st4)).
    { eapply build_top_le; [|exact B]. intros w Hw. eapply (defs_le_gframe _ _ Hdefs F); eassumption. }
    unfold store in St. destruct (resolve_scope depsf st n); inversion St; subst; try (split; assumption).
    - split; [eapply gframe_trans; [exact F4|apply gframe_with_shared]|]. cbn [with_shared rt_shared rt_serial].
      intros HS HB. destruct (H4 HS HB) as [HS4 HB4]. split; [|exact HB4].
      intros k v I. cbn [with_shared rt_shared rt_serial] in *. apply In_assoc_set in I. destruct I as [E|I].
      + inversion E; subst. exact T4.
      + eapply HS4; exact I.
    - split; [exact F4|]. intros HS HB. destruct (H4 HS HB) as [HS4 HB4]. split; [exact HS4|].
      intros k v I. apply In_assoc_set in I. destruct I as [E|I].
      + inversion E; subst. exact T4.
      + eapply HB4; exact I.
  Qed.

  Lemma sle_all f :
    (forall st b n st' b' r, gframe st0 st -> get depsf f st b n = ((st', b'), r) -> sle st b st' b') /\
    (forall st b d st' b' r, gframe st0 st -> resolve_dep depsf f st b d = ((st', b'), r) -> sle st b st' b') /\
    (forall st b ds st' b' r, gframe st0 st -> resolve_deps depsf f st b ds = ((st', b'), r) -> sle st b st' b').
  Proof. apply gen_inv; [apply sle_admin|apply sle_trans|apply sle_store]. Qed.
End Instances.

(** ** closed forms, for any fuel and any [depsf] *)
Definition call_ok (st : rt) (b : bag) (st' : rt) (b' : bag) : Prop :=
  gframe st st' /\ keeps st b st' b' /\ (defs_le st -> sle st b st' b') /\
  (forall id d o fl deps, lookup id (rt_services st) = Some d -> sd_create d = CCtor o fl deps -> origin id st b st' b').

Theorem get_call_ok depsf f st b n st' b' r : get depsf f st b n = ((st', b'), r) -> call_ok st b st' b'.
Proof.
  intros H. split; [eapply get_frame; exact H|]. split; [|split].
  - eapply (proj1 (keeps_all depsf st f)); [apply gframe_refl|exact H].
  - intros Hd. eapply (proj1 (sle_all depsf st Hd f)); [apply gframe_refl|exact H].
  - intros id d o fl deps Hl Hc. eapply (proj1 (origin_all depsf st id d o fl deps Hl Hc f)); [apply gframe_refl|exact H].
Qed.

Theorem resolve_dep_call_ok depsf f st b d st' b' r : resolve_dep depsf f st b d = ((st', b'), r) -> call_ok st b st' b'.
Proof.
  intros H. split; [eapply resolve_dep_frame; exact H|]. split; [|split].
  - eapply (proj1 (proj2 (keeps_all depsf st f))); [apply gframe_refl|exact H].
  - intros Hd. eapply (proj1 (proj2 (sle_all depsf st Hd f))); [apply gframe_refl|exact H].
  - intros id d0 o fl deps Hl Hc. eapply (proj1 (proj2 (origin_all depsf st id d0 o fl deps Hl Hc f))); [apply gframe_refl|exact H].
Qed.

Theorem resolve_deps_call_ok depsf f st b ds st' b' r : resolve_deps depsf f st b ds = ((st', b'), r) -> call_ok st b st' b'.
Proof.
  intros H. split; [eapply resolve_deps_frame; exact H|]. split; [|split].
  - eapply (proj2 (proj2 (keeps_all depsf st f))); [apply gframe_refl|exact H].
  - intros Hd. eapply (proj2 (proj2 (sle_all depsf st Hd f))); [apply gframe_refl|exact H].
  - intros id d0 o fl deps Hl Hc. eapply (proj2 (proj2 (origin_all depsf st id d0 o fl deps Hl Hc f))); [apply gframe_refl|exact H].
Qed.

(** *** item 0 for [get], [resolve_dep], [resolve_deps]: the invariant is preserved *)
Lemma call_ok_serial_inv st b st' b' :
  call_ok st b st' b' -> defs_le st -> serial_inv st -> bag_le b (rt_serial st) ->
  defs_le st' /\ serial_inv st' /\ bag_le b' (rt_serial st').
Proof.
  intros [F [_ [HS _]]] Hd [Sh Bg] Hb. destruct (HS Hd) as [_ HS']. destruct (HS' Sh Hb) as [Sh' Hb'].
  split; [eapply defs_le_gframe; eassumption|]. split; [|exact Hb']. split; [exact Sh'|eapply bags_le_gframe; eassumption].
Qed.

(** a cache-missing successful [get] of a constructor service returns an object allocated during the call *)
Theorem get_miss_fresh depsf f st b id d o fl deps st' b' v :
  lookup id (rt_services st) = Some d -> sd_create d = CCtor o fl deps ->
  cached_of (resolve_scope depsf st id) st b id = None ->
  get depsf f st b id = ((st', b'), ROk v) -> fresh_in (rt_serial st) (rt_serial st') v.
Proof.
  intros Hd Hc Hm H. destruct f as [|f]; [discriminate|].
  apply get_ok_inv in H. destruct H as [d' [Hd' [[Hh _]|[_ [st4 [b4 [B St]]]]]]]; [congruence|].
  rewrite Hd in Hd'. inversion Hd'; subst d'.
  destruct (store_frame _ _ _ _ _ _ _ _ St) as [_ [E _]]. rewrite E. eapply build_fresh; eassumption.
Qed.

(** a successful [get] returns either the cached value or (constructor services) a fresh object *)
Theorem get_hit_or_fresh depsf f st b id d o fl deps st' b' v :
  lookup id (rt_services st) = Some d -> sd_create d = CCtor o fl deps ->
  get depsf f st b id = ((st', b'), ROk v) ->
  (cached_of (resolve_scope depsf st id) st b id = Some v /\ st' = st /\ b' = b) \/
  (cached_of (resolve_scope depsf st id) st b id = None /\ fresh_in (rt_serial st) (rt_serial st') v).
Proof.
  intros Hd Hc H. destruct f as [|f]; [discriminate|].
  destruct (get_ok_inv _ _ _ _ _ _ _ _ H) as [d' [Hd' [[Hh [-> ->]]|[Hm _]]]]; [left; auto|].
  right. split; [exact Hm|]. exact (get_miss_fresh _ _ _ _ _ _ _ _ _ _ _ _ Hd Hc Hm H).
Qed.

Theorem get_serial_inv depsf f st b n st' b' r :
  defs_le st -> serial_inv st -> bag_le b (rt_serial st) -> get depsf f st b n = ((st', b'), r) ->
  defs_le st' /\ serial_inv st' /\ bag_le b' (rt_serial st') /\ (forall v, r = ROk v -> top_le v (rt_serial st')).
Proof.
  intros Hd Hi Hb H.
  destruct (call_ok_serial_inv _ _ _ _ (get_call_ok _ _ _ _ _ _ _ _ H) Hd Hi Hb) as [Hd' [Hi' Hb']].
  split; [exact Hd'|]. split; [exact Hi'|]. split; [exact Hb'|]. intros v ->.
  destruct f as [|f]; [discriminate|].
  destruct (get_ok_inv _ _ _ _ _ _ _ _ H) as [d [Hl [[Hh [-> ->]]|[_ [st4 [b4 [B St]]]]]]].
  - unfold cached_of in Hh. destruct (resolve_scope depsf st n); try discriminate.
    + eapply (proj1 Hi). eapply lookup_In; exact Hh.
    + eapply Hb. eapply lookup_In; exact Hh.
  - destruct (store_frame _ _ _ _ _ _ _ _ St) as [_ [E _]]. rewrite E.
    eapply build_top_le; [|exact B]. intros w Hw. eapply Hd; eassumption.
Qed.

Theorem resolve_dep_serial_inv depsf f st b d st' b' r :
  defs_le st -> serial_inv st -> bag_le b (rt_serial st) -> resolve_dep depsf f st b d = ((st', b'), r) ->
  defs_le st' /\ serial_inv st' /\ bag_le b' (rt_serial st').
Proof. intros Hd Hi Hb H. eapply call_ok_serial_inv; [eapply resolve_dep_call_ok; exact H|assumption..]. Qed.

Theorem resolve_deps_serial_inv depsf f st b ds st' b' r :
  defs_le st -> serial_inv st -> bag_le b (rt_serial st) -> resolve_deps depsf f st b ds = ((st', b'), r) ->
  defs_le st' /\ serial_inv st' /\ bag_le b' (rt_serial st').
Proof. intros Hd Hi Hb H. eapply call_ok_serial_inv; [eapply resolve_deps_call_ok; exact H|assumption..]. Qed.

(** * Steps *)

(** ** bags *)
Lemma find_filter_other (c c' : N) (l : list (N * bag)) :
  c' <> c -> find (fun kv => N.eqb (fst kv) c') (filter (fun kv => negb (N.eqb (fst kv) c)) l) = find (fun kv => N.eqb (fst kv) c') l.
Proof.
  intros Hn. induction l as [|[k x] l IH]; [reflexivity|]. cbn [filter find fst].
  destruct (N.eqb_spec k c) as [->|Hk]; cbn [negb].
  - destruct (N.eqb_spec c c') as [E|_]; [congruence|exact IH].
  - cbn [find fst]. destruct (N.eqb k c'); [reflexivity|exact IH].
Qed.

Lemma bag_of_set_bag_same st c b : bag_of (set_bag st c b) c = b.
Proof. unfold bag_of, set_bag. cbn [rt_bags find fst]. rewrite N.eqb_refl. reflexivity. Qed.

Lemma bag_of_ext st st' c : rt_bags st' = rt_bags st -> bag_of st' c = bag_of st c.
Proof. intros E. unfold bag_of. rewrite E. reflexivity. Qed.

Lemma bag_of_set_bag_other st c b c' : c' <> c -> bag_of (set_bag st c b) c' = bag_of st c'.
Proof.
  intros Hn. unfold bag_of, set_bag. cbn [rt_bags find fst].
  destruct (N.eqb_spec c c') as [E|_]; [congruence|]. rewrite find_filter_other by exact Hn. reflexivity.
Qed.

Lemma bag_of_le st c : bags_le st -> bag_le (bag_of st c) (rt_serial st).
Proof.
  intros H. unfold bag_of. destruct (find _ (rt_bags st)) as [[k x]|] eqn:E; [|apply bag_le_nil].
  apply find_some in E. destruct E as [I _]. cbn [snd]. eapply H; exact I.
Qed.

Lemma bags_le_set_bag st c b : bags_le st -> bag_le b (rt_serial st) -> bags_le (set_bag st c b).
Proof.
  intros H Hb k x I. unfold set_bag in I. cbn [rt_bags rt_serial] in *. destruct I as [E|I].
  - inversion E; subst. exact Hb.
  - apply filter_In in I. eapply H. apply I.
Qed.

(** ** the shape of a step *)
Definition overridden_service (st : rt) (n origin : str) (args : list prim) : rt :=
  {| rt_params := rt_params st; rt_pcache := rt_pcache st;
     rt_services := assoc_set n {| sd_create := CCtor origin (failing origin) (map DLit args); sd_fields := []; sd_calls := []; sd_tags := []; sd_scope := OScDefault |} (rt_services st);
     rt_shared := assoc_del n (rt_shared st); rt_decorators := rt_decorators st; rt_bags := rt_bags st; rt_serial := rt_serial st; rt_env := rt_env st;
     rt_trace := rt_trace st |}.

(** the context an operation works in *)
Definition op_ctx (o : op) : option N :=
  match o with OGetCtx c _ | OTaggedCtx c _ | ONewCtx c => Some c | _ => None end.

Lemma step_OGet st n st' r : step st (OGet n) = (st', r) -> exists b', get rt_depsf (fuel_of st) st [] n = ((st', b'), r).
Proof. cbn [step]. destruct (get rt_depsf (fuel_of st) st [] n) as [[st1 b1] r1]. intros H; inversion H; subst. exists b1; reflexivity. Qed.

Lemma step_OGetCtx st c n st' r :
  step st (OGetCtx c n) = (st', r) -> exists st1 b1, get rt_depsf (fuel_of st) st (bag_of st c) n = ((st1, b1), r) /\ st' = set_bag st1 c b1.
Proof. cbn [step]. destruct (get rt_depsf (fuel_of st) st (bag_of st c) n) as [[st1 b1] r1]. intros H; inversion H; subst. exists st1, b1; auto. Qed.

Definition is_call (o : op) : Prop := match o with OGet _ | OGetCtx _ _ | OTagged _ | OTaggedCtx _ _ => True | _ => False end.

Inductive step_kind (st : rt) : op -> rt -> Prop :=
| sk_plain o st' b' : is_call o -> op_ctx o = None -> call_ok st [] st' b' -> step_kind st o st'
| sk_ctx o c st1 b1 : is_call o -> op_ctx o = Some c -> call_ok st (bag_of st c) st1 b1 -> step_kind st o (set_bag st1 c b1)
| sk_param p st' : pframe st st' -> step_kind st (OGetParam p) st'
| sk_oparam p v : step_kind st (OOverrideParam p v) (overridden_param st p v)
| sk_oservice n o a : step_kind st (OOverrideService n o a) (overridden_service st n o a)
| sk_newctx c : step_kind st (ONewCtx c) (set_bag st c []).

Lemma step_kind_of st o st' r : step st o = (st', r) -> step_kind st o st'.
Proof.
  destruct o as [n|c n|t|c t|p|p v|n og args|c]; cbn [step].
  - destruct (get rt_depsf (fuel_of st) st [] n) as [[st1 b1] r1] eqn:G. intros H; inversion H; subst.
    eapply sk_plain; [exact I|reflexivity|eapply get_call_ok; exact G].
  - destruct (get rt_depsf (fuel_of st) st (bag_of st c) n) as [[st1 b1] r1] eqn:G. intros H; inversion H; subst.
    eapply sk_ctx; [exact I|reflexivity|eapply get_call_ok; exact G].
  - destruct (resolve_dep rt_depsf (fuel_of st) st [] (DTag t)) as [[st1 b1] r1] eqn:G. intros H; inversion H; subst.
    eapply sk_plain; [exact I|reflexivity|eapply resolve_dep_call_ok; exact G].
  - destruct (resolve_dep rt_depsf (fuel_of st) st (bag_of st c) (DTag t)) as [[st1 b1] r1] eqn:G. intros H; inversion H; subst.
    eapply sk_ctx; [exact I|reflexivity|eapply resolve_dep_call_ok; exact G].
  - intros H. apply sk_param. eapply get_param_frame; exact H.
  - intros H; inversion H; subst. apply sk_oparam.
  - intros H; inversion H; subst. apply sk_oservice.
  - intros H; inversion H; subst. apply sk_newctx.
Qed.

Definition is_override_service (o : op) : Prop := match o with OOverrideService _ _ _ => True | _ => False end.
Definition is_override_param (o : op) : Prop := match o with OOverrideParam _ _ => True | _ => False end.
Definition overrides_service (id : str) (o : op) : Prop := match o with OOverrideService n _ _ => n = id | _ => False end.

(** ** 4. what a step leaves alone *)
Lemma step_kind_serial st o st' : step_kind st o st' -> (rt_serial st <= rt_serial st')%N.
Proof.
  intros K. destruct K as [o st' b' _ _ [F _]|o c st1 b1 _ _ [F _]|p st' F| | |]; cbn [set_bag overridden_param overridden_service rt_serial];
    try apply N.le_refl; try apply (gf_serial _ _ F). rewrite (pf_serial _ _ F). apply N.le_refl.
Qed.

Lemma step_kind_decorators st o st' : step_kind st o st' -> rt_decorators st' = rt_decorators st.
Proof.
  intros K. destruct K as [o st' b' _ _ [F _]|o c st1 b1 _ _ [F _]|p st' F| | |]; cbn [set_bag overridden_param overridden_service rt_decorators];
    try reflexivity; try apply (gf_decorators _ _ F). apply (pf_decorators _ _ F).
Qed.

Lemma step_kind_services st o st' : step_kind st o st' -> ~ is_override_service o -> rt_services st' = rt_services st.
Proof.
  intros K. destruct K as [o st' b' _ _ [F _]|o c st1 b1 _ _ [F _]|p st' F| | |]; cbn [set_bag overridden_param overridden_service rt_services is_override_service];
    intros N; try reflexivity; try apply (gf_services _ _ F); [apply (pf_services _ _ F)|destruct N; exact I].
Qed.

Lemma step_kind_params st o st' : step_kind st o st' -> ~ is_override_param o -> rt_params st' = rt_params st.
Proof.
  intros K. destruct K as [o st' b' _ _ [F _]|o c st1 b1 _ _ [F _]|p st' F| | |]; cbn [set_bag overridden_param overridden_service rt_params is_override_param];
    intros N; try reflexivity; try apply (gf_params _ _ F); [apply (pf_params _ _ F)|destruct N; exact I].
Qed.

Lemma step_kind_env st o st' : step_kind st o st' -> rt_env st' = rt_env st.
Proof.
  intros K. destruct K as [o st' b' _ _ [F _]|o c st1 b1 _ _ [F _]|p st' F| | |]; cbn [set_bag overridden_param overridden_service rt_env];
    try reflexivity; try apply (gf_env _ _ F). apply (pf_env _ _ F).
Qed.

(** an override of service [n] leaves every other definition alone *)
Lemma step_kind_service_other st o st' id :
  step_kind st o st' -> ~ overrides_service id o -> lookup id (rt_services st') = lookup id (rt_services st).
Proof.
  intros K N. destruct o as [n|c n|t|c t|p|p v|n og args|c];
    try (rewrite (step_kind_services _ _ _ K) by (intros []); reflexivity).
  inversion K; subst; try discriminate; try match goal with H : is_call _ |- _ => destruct H end. cbn [overridden_service rt_services].
  apply lookup_assoc_set_other. intros ->. apply N. reflexivity.
Qed.

Theorem step_serial_mono st o st' r : step st o = (st', r) -> (rt_serial st <= rt_serial st')%N.
Proof. intros H. eapply step_kind_serial, step_kind_of, H. Qed.
Theorem step_decorators st o st' r : step st o = (st', r) -> rt_decorators st' = rt_decorators st.
Proof. intros H. eapply step_kind_decorators, step_kind_of, H. Qed.
Theorem step_services st o st' r : step st o = (st', r) -> ~ is_override_service o -> rt_services st' = rt_services st.
Proof. intros H. eapply step_kind_services, step_kind_of, H. Qed.
Theorem step_params st o st' r : step st o = (st', r) -> ~ is_override_param o -> rt_params st' = rt_params st.
Proof. intros H. eapply step_kind_params, step_kind_of, H. Qed.
Theorem step_service_other st o st' r id :
  step st o = (st', r) -> ~ overrides_service id o -> lookup id (rt_services st') = lookup id (rt_services st).
Proof. intros H. eapply step_kind_service_other, step_kind_of, H. Qed.

(** hence the resolved scope of every service is unchanged by every step that is not an [OOverrideService] *)
Theorem step_scope st o st' r id :
  step st o = (st', r) -> ~ is_override_service o -> resolve_scope rt_depsf st' id = resolve_scope rt_depsf st id.
Proof.
  intros H N. apply resolve_scope_defs; [apply rt_depsf_ext|eapply step_services; eassumption|eapply step_decorators; eassumption].
Qed.

(** ** 0. the serial invariant is preserved by every step *)
Lemma serial_inv_ext st st' :
  rt_shared st' = rt_shared st -> rt_bags st' = rt_bags st -> rt_serial st' = rt_serial st -> serial_inv st -> serial_inv st'.
Proof. intros E1 E2 E3 [A B]. unfold serial_inv, shared_le, bags_le. rewrite E1, E2, E3. split; assumption. Qed.

Lemma defs_le_ext st st' : rt_services st' = rt_services st -> rt_serial st' = rt_serial st -> defs_le st -> defs_le st'.
Proof. intros E1 E2 H. unfold defs_le. rewrite E1, E2. exact H. Qed.

Lemma step_kind_serial_inv st o st' : defs_le st -> serial_inv st -> step_kind st o st' -> defs_le st' /\ serial_inv st'.
Proof.
  intros Hd Hi K. destruct K as [o st' b' _ _ C|o c st1 b1 _ _ C|p st' F|p v|n og a|c].
  - destruct (call_ok_serial_inv _ _ _ _ C Hd Hi (bag_le_nil _)) as [Hd' [Hi' _]]. split; assumption.
  - destruct (call_ok_serial_inv _ _ _ _ C Hd Hi (bag_of_le _ _ (proj2 Hi))) as [Hd' [[Sh' Bg'] Hb']].
    split; [eapply defs_le_ext; [| |exact Hd']; reflexivity|]. split; [exact Sh'|apply bags_le_set_bag; assumption].
  - split; [eapply defs_le_ext; [apply (pf_services _ _ F)|apply (pf_serial _ _ F)|exact Hd]|].
    eapply serial_inv_ext; [apply (pf_shared _ _ F)|apply (pf_bags _ _ F)|apply (pf_serial _ _ F)|exact Hi].
  - split; [eapply defs_le_ext; [| |exact Hd]; reflexivity|eapply serial_inv_ext; [| | |exact Hi]; reflexivity].
  - split.
    + intros m d w Hl Hc. cbn [overridden_service rt_services rt_serial] in *.
      destruct (str_eqb_spec m n) as [->|Hn].
      * rewrite lookup_assoc_set_same in Hl. inversion Hl; subst d. discriminate Hc.
      * rewrite lookup_assoc_set_other in Hl by exact Hn. eapply Hd; eassumption.
    + destruct Hi as [Sh Bg]. split; [|exact Bg]. intros k v I. cbn [overridden_service rt_shared rt_serial] in *.
      unfold assoc_del in I. apply filter_In in I. eapply Sh. apply I.
  - split; [eapply defs_le_ext; [| |exact Hd]; reflexivity|]. destruct Hi as [Sh Bg].
    split; [exact Sh|apply bags_le_set_bag; [exact Bg|apply bag_le_nil]].
Qed.

Definition is_get_param (o : op) : Prop := match o with OGetParam _ => True | _ => False end.

Theorem step_serial_inv st o st' r :
  defs_le st -> serial_inv st -> step st o = (st', r) ->
  defs_le st' /\ serial_inv st' /\ (forall v, r = ROk v -> ~ is_get_param o -> top_le v (rt_serial st')).
Proof.
  intros Hd Hi H. destruct (step_kind_serial_inv _ _ _ Hd Hi (step_kind_of _ _ _ _ H)) as [Hd' Hi'].
  split; [exact Hd'|]. split; [exact Hi'|]. intros v -> Np.
  destruct o as [n|c n|t|c t|p|p w|n og args|c].
  - apply step_OGet in H. destruct H as [b' G].
    eapply (get_serial_inv _ _ _ _ _ _ _ _ Hd Hi (bag_le_nil _) G); reflexivity.
  - apply step_OGetCtx in H. destruct H as [st1 [b1 [G ->]]].
    eapply (get_serial_inv _ _ _ _ _ _ _ _ Hd Hi (bag_of_le _ _ (proj2 Hi)) G); reflexivity.
  - cbn [step] in H. destruct (fuel_of_S st) as [f Ef]. rewrite Ef in H.
    destruct (resolve_dep rt_depsf (S f) st [] (DTag t)) as [[st1 b1] r1] eqn:G. inversion H; subst.
    apply resolve_dep_tag_length in G. destruct G as [vs [-> _]]. intros sr E; discriminate E.
  - cbn [step] in H. destruct (fuel_of_S st) as [f Ef]. rewrite Ef in H.
    destruct (resolve_dep rt_depsf (S f) st (bag_of st c) (DTag t)) as [[st1 b1] r1] eqn:G. inversion H; subst.
    apply resolve_dep_tag_length in G. destruct G as [vs [-> _]]. intros sr E; discriminate E.
  - destruct Np; exact I.
  - inversion H; subst. intros sr E; discriminate E.
  - inversion H; subst. intros sr E; discriminate E.
  - inversion H; subst. intros sr E; discriminate E.
Qed.

(** * Histories *)

Lemma run_ops_cons st o ops st' rs :
  run_ops st (o :: ops) = (st', rs) ->
  exists st1 r rs', step st o = (st1, r) /\ run_ops st1 ops = (st', rs') /\ rs = r :: rs'.
Proof.
  cbn [run_ops]. destruct (step st o) as [st1 r] eqn:E1. destruct (run_ops st1 ops) as [st2 rs'] eqn:E2.
  intros H; inversion H; subst. exists st1, r, rs'. auto.
Qed.

Lemma run_ops_length : forall ops st st' rs, run_ops st ops = (st', rs) -> length rs = length ops.
Proof.
  induction ops as [|o ops IH]; intros st st' rs H.
  - inversion H; reflexivity.
  - apply run_ops_cons in H. destruct H as [st1 [r [rs' [_ [Hr ->]]]]]. cbn [length]. f_equal. eapply IH; exact Hr.
Qed.

(** ** 4. serial monotonicity; the definitions change only at overrides *)
Theorem run_ops_serial_mono : forall ops st st' rs, run_ops st ops = (st', rs) -> (rt_serial st <= rt_serial st')%N.
Proof.
  induction ops as [|o ops IH]; intros st st' rs H.
  - inversion H; subst. apply N.le_refl.
  - apply run_ops_cons in H. destruct H as [st1 [r [rs' [Hs [Hr _]]]]].
    eapply N.le_trans; [eapply step_serial_mono; exact Hs|eapply IH; exact Hr].
Qed.

Theorem run_ops_decorators : forall ops st st' rs, run_ops st ops = (st', rs) -> rt_decorators st' = rt_decorators st.
Proof.
  induction ops as [|o ops IH]; intros st st' rs H.
  - inversion H; reflexivity.
  - apply run_ops_cons in H. destruct H as [st1 [r [rs' [Hs [Hr _]]]]].
    rewrite (IH _ _ _ Hr). eapply step_decorators; exact Hs.
Qed.

Theorem run_ops_services : forall ops st st' rs,
  Forall (fun o => ~ is_override_service o) ops -> run_ops st ops = (st', rs) -> rt_services st' = rt_services st.
Proof.
  induction ops as [|o ops IH]; intros st st' rs HA H.
  - inversion H; reflexivity.
  - apply run_ops_cons in H. destruct H as [st1 [r [rs' [Hs [Hr _]]]]]. inversion HA; subst.
    rewrite (IH _ _ _ ltac:(assumption) Hr). eapply step_services; eassumption.
Qed.

Theorem run_ops_params : forall ops st st' rs,
  Forall (fun o => ~ is_override_param o) ops -> run_ops st ops = (st', rs) -> rt_params st' = rt_params st.
Proof.
  induction ops as [|o ops IH]; intros st st' rs HA H.
  - inversion H; reflexivity.
  - apply run_ops_cons in H. destruct H as [st1 [r [rs' [Hs [Hr _]]]]]. inversion HA; subst.
    rewrite (IH _ _ _ ltac:(assumption) Hr). eapply step_params; eassumption.
Qed.

(** the definition of [id] changes only at [OOverrideService id] *)
Theorem run_ops_service_other id : forall ops st st' rs,
  Forall (fun o => ~ overrides_service id o) ops -> run_ops st ops = (st', rs) ->
  lookup id (rt_services st') = lookup id (rt_services st).
Proof.
  induction ops as [|o ops IH]; intros st st' rs HA H.
  - inversion H; reflexivity.
  - apply run_ops_cons in H. destruct H as [st1 [r [rs' [Hs [Hr _]]]]]. inversion HA; subst.
    rewrite (IH _ _ _ ltac:(assumption) Hr). eapply step_service_other; eassumption.
Qed.

(** all three together *)
Corollary run_ops_defs ops st st' rs :
  Forall (fun o => ~ is_override_service o /\ ~ is_override_param o) ops -> run_ops st ops = (st', rs) ->
  rt_params st' = rt_params st /\ rt_services st' = rt_services st /\ rt_decorators st' = rt_decorators st.
Proof.
  intros HA H. split; [|split].
  - eapply run_ops_params; [|exact H]. eapply Forall_impl; [|exact HA]. intros o [_ N]; exact N.
  - eapply run_ops_services; [|exact H]. eapply Forall_impl; [|exact HA]. intros o [N _]; exact N.
  - eapply run_ops_decorators; exact H.
Qed.

Theorem run_ops_scope ops st st' rs id :
  Forall (fun o => ~ is_override_service o) ops -> run_ops st ops = (st', rs) ->
  resolve_scope rt_depsf st' id = resolve_scope rt_depsf st id.
Proof.
  intros HA H. apply resolve_scope_defs; [apply rt_depsf_ext|eapply run_ops_services; eassumption|eapply run_ops_decorators; eassumption].
Qed.

(** ** 0. the serial invariant over histories *)
Theorem run_ops_serial_inv : forall ops st st' rs,
  defs_le st -> serial_inv st -> run_ops st ops = (st', rs) ->
  defs_le st' /\ serial_inv st' /\
  (forall k o v, nth_error ops k = Some o -> nth_error rs k = Some (ROk v) -> ~ is_get_param o -> top_le v (rt_serial st')).
Proof.
  induction ops as [|o ops IH]; intros st st' rs Hd Hi H.
  - inversion H; subst. split; [exact Hd|]. split; [exact Hi|]. intros [|k]; discriminate.
  - apply run_ops_cons in H. destruct H as [st1 [r [rs' [Hs [Hr ->]]]]].
    destruct (step_serial_inv _ _ _ _ Hd Hi Hs) as [Hd1 [Hi1 Hv1]].
    destruct (IH _ _ _ Hd1 Hi1 Hr) as [Hd' [Hi' Hv']].
    split; [exact Hd'|]. split; [exact Hi'|]. intros [|k] o' v Ho Hv Np; cbn [nth_error] in *.
    + inversion Ho; subst o'. inversion Hv; subst r.
      eapply top_le_mono; [apply Hv1; [reflexivity|exact Np]|eapply run_ops_serial_mono; exact Hr].
    + eapply Hv'; eassumption.
Qed.

(** ** the state built by [Load.load] satisfies the invariant (its caches are empty, its [value:] objects have serial 0) *)
Lemma lookup_map_Some {X A} (g : X -> str) (h : X -> A) k l v :
  lookup k (map (fun x => (g x, h x)) l) = Some v -> exists x, In x l /\ v = h x.
Proof.
  induction l as [|x l IH]; [discriminate|]. cbn [map]. rewrite lookup_cons.
  destruct (str_eqb k (g x)).
  - intros H; inversion H; subst. exists x. split; [left; reflexivity|reflexivity].
  - intros H. destruct (IH H) as [y [I E]]. exists y. split; [right; exact I|exact E].
Qed.

Lemma goexpr_value_top i code : top_serial (goexpr_value i code) = Some 0%N.
Proof. unfold goexpr_value. destruct (qualified i _) as [p sym]. destruct (has_suffix _ sym); reflexivity. Qed.

Theorem load_serial_inv E o c envv : defs_le (load E o c envv) /\ serial_inv (load E o c envv).
Proof.
  split; [|split].
  - intros n d w Hl Hc. unfold load in Hl. cbn [rt_services] in Hl.
    apply lookup_map_Some in Hl. destruct Hl as [sv [_ ->]]. unfold sdef_of in Hc. cbn [sd_create] in Hc.
    destruct (os_todo sv); [discriminate|].
    destruct (os_constructor sv); [|discriminate].
    destruct (os_value sv).
    + destruct (has_prefix _ _); [|discriminate]. inversion Hc; subst. intros sr E0; discriminate E0.
    + inversion Hc; subst. intros sr E0. rewrite goexpr_value_top in E0. inversion E0; subst. apply N.le_0_l.
  - intros k v [].
  - intros k b [].
Qed.

(** ** two positions of a history

    [okA] restricts all operations, [okB] those strictly between the two positions; [P] is a state invariant;
    [Q_first] is the situation where the first position is the head of the history. *)
Section TwoPos.
  Variables okA okB : op -> Prop.
  Variable P : rt -> Prop.
  Variable Q : op -> value -> op -> value -> Prop.
  Hypothesis P_step : forall st o st' r, P st -> okA o -> step st o = (st', r) -> P st'.
  Hypothesis Q_first : forall st oi vi st1 ops st' rs k oj vj,
    P st -> okA oi -> step st oi = (st1, ROk vi) -> Forall okA ops -> run_ops st1 ops = (st', rs) ->
    (forall m o, m < k -> nth_error ops m = Some o -> okB o) ->
    nth_error ops k = Some oj -> nth_error rs k = Some (ROk vj) -> Q oi vi oj vj.

  Lemma two_pos : forall ops st st' rs, P st -> Forall okA ops -> run_ops st ops = (st', rs) ->
    forall i j oi oj vi vj, i < j -> (forall m o, i < m < j -> nth_error ops m = Some o -> okB o) ->
    nth_error ops i = Some oi -> nth_error rs i = Some (ROk vi) ->
    nth_error ops j = Some oj -> nth_error rs j = Some (ROk vj) -> Q oi vi oj vj.
  Proof.
    induction ops as [|o ops IH]; intros st st' rs HP HA H i j oi oj vi vj Hij HB Hoi Hri Hoj Hrj.
    - destruct i; discriminate.
    - apply run_ops_cons in H. destruct H as [st1 [r [rs' [Hs [Hr ->]]]]]. inversion HA as [|? ? HA1 HA2]; subst.
      destruct j as [|j]; [lia|]. destruct i as [|i]; cbn [nth_error] in *.
      + inversion Hoi; subst. inversion Hri; subst.
        eapply Q_first; try eassumption. intros m o' Hm Ho'. apply (HB (S m)); [lia|exact Ho'].
      + eapply (IH st1 st' rs' (P_step _ _ _ _ HP HA1 Hs) HA2 Hr i j); try eassumption; [lia|].
        intros m o' Hm Ho'. apply (HB (S m)); [lia|exact Ho'].
  Qed.
End TwoPos.

Definition is_get_of (id : str) (o : op) : Prop := match o with OGet n | OGetCtx _ n => n = id | _ => False end.

Definition no_override_service (ops : list op) : Prop := Forall (fun o => ~ is_override_service o) ops.

(** what a get of [id] runs *)
Lemma step_get_of st o id st' r :
  is_get_of id o -> step st o = (st', r) ->
  exists b st1 b1, get rt_depsf (fuel_of st) st b id = ((st1, b1), r) /\
    match o with
    | OGet _ => b = [] /\ st' = st1
    | OGetCtx c _ => b = bag_of st c /\ st' = set_bag st1 c b1
    | _ => False
    end.
Proof.
  destruct o as [n|c n| | | | | |]; cbn [is_get_of]; intros Hg H; try destruct Hg; subst.
  - apply step_OGet in H. destruct H as [b' G]. exists [], st', b'. auto.
  - apply step_OGetCtx in H. destruct H as [st1 [b1 [G ->]]]. exists (bag_of st c), st1, b1. auto.
Qed.

(** * 1. Shared identity *)
Section Shared.
  Variable id : str.

  Lemma step_kind_keeps_shared st o st' v :
    ~ is_override_service o -> step_kind st o st' ->
    lookup id (rt_shared st) = Some v -> lookup id (rt_shared st') = Some v.
  Proof.
    intros N K Hl. destruct K as [o st' b' _ _ [_ [[Ks _] _]]|o c st1 b1 _ _ [_ [[Ks _] _]]|p st' F|p w|n og a|c];
      cbn [set_bag overridden_param rt_shared]; try exact Hl; try (apply Ks; exact Hl).
    - rewrite (pf_shared _ _ F). exact Hl.
    - destruct N; exact I.
  Qed.

  (** a successful get of a shared service establishes the entry ... *)
  Theorem shared_get_establishes st o st' v :
    resolve_scope rt_depsf st id = OScShared -> is_get_of id o -> step st o = (st', ROk v) ->
    lookup id (rt_shared st') = Some v.
  Proof.
    intros Hs Hg H. destruct (step_get_of _ _ _ _ _ Hg H) as [b [st1 [b1 [G M]]]].
    destruct (fuel_of_S st) as [f Ef]. rewrite Ef in G. pose proof (get_ok_cached _ _ _ _ _ _ _ _ G) as C. rewrite Hs in C.
    destruct o; try contradiction; destruct M as [_ ->]; [exact C|cbn [set_bag rt_shared]; exact C].
  Qed.

  (** ... and while the entry is there, a successful get returns it *)
  Lemma shared_step_hit st o st' v w :
    resolve_scope rt_depsf st id = OScShared -> lookup id (rt_shared st) = Some v ->
    is_get_of id o -> step st o = (st', ROk w) -> w = v.
  Proof.
    intros Hs Hl Hg H. destruct (step_get_of _ _ _ _ _ Hg H) as [b [st1 [b1 [G _]]]].
    destruct (fuel_of_S st) as [f Ef]. rewrite Ef in G.
    destruct (get_ok_inv _ _ _ _ _ _ _ _ G) as [d [_ [[Hh _]|[Hm _]]]]; rewrite Hs in *; cbn [cached_of] in *; congruence.
  Qed.

  (** second form: once the entry is there, it stays for the whole history and every successful get returns it *)
  Theorem shared_entry_kept : forall ops st st' rs v,
    resolve_scope rt_depsf st id = OScShared -> no_override_service ops ->
    lookup id (rt_shared st) = Some v -> run_ops st ops = (st', rs) ->
    lookup id (rt_shared st') = Some v /\
    (forall k o w, nth_error ops k = Some o -> is_get_of id o -> nth_error rs k = Some (ROk w) -> w = v).
  Proof.
    induction ops as [|o ops IH]; intros st st' rs v Hs HA Hl H.
    - inversion H; subst. split; [exact Hl|]. intros [|k]; discriminate.
    - apply run_ops_cons in H. destruct H as [st1 [r [rs' [Hst [Hr ->]]]]]. inversion HA as [|? ? HA1 HA2]; subst.
      assert (Hs1 : resolve_scope rt_depsf st1 id = OScShared) by (rewrite (step_scope _ _ _ _ id Hst HA1); exact Hs).
      assert (Hl1 : lookup id (rt_shared st1) = Some v)
        by (eapply step_kind_keeps_shared; [exact HA1|eapply step_kind_of; exact Hst|exact Hl]).
      destruct (IH _ _ _ _ Hs1 HA2 Hl1 Hr) as [Hl' Hv']. split; [exact Hl'|].
      intros [|k] o' w Ho Hg Hw; cbn [nth_error] in *.
      + inversion Ho; subst o'. inversion Hw; subst r. exact (shared_step_hit _ _ _ _ _ Hs Hl Hg Hst).
      + eapply Hv'; eassumption.
  Qed.

  Lemma shared_identity_lt ops st st' rs :
    run_ops st ops = (st', rs) -> resolve_scope rt_depsf st id = OScShared -> no_override_service ops ->
    forall i j oi oj vi vj, i < j ->
      nth_error ops i = Some oi -> is_get_of id oi -> nth_error rs i = Some (ROk vi) ->
      nth_error ops j = Some oj -> is_get_of id oj -> nth_error rs j = Some (ROk vj) -> vi = vj.
  Proof.
    intros H Hs HA i j oi oj vi vj Hij Hoi Hgi Hri Hoj Hgj Hrj.
    refine (two_pos (fun o => ~ is_override_service o) (fun _ => True)
              (fun st => resolve_scope rt_depsf st id = OScShared)
              (fun oi vi oj vj => is_get_of id oi -> is_get_of id oj -> vi = vj) _ _
              ops st st' rs Hs HA H i j oi oj vi vj Hij (fun _ _ _ _ => I) Hoi Hri Hoj Hrj Hgi Hgj).
    - intros sa o sb r Hsa N Hst. rewrite (step_scope _ _ _ _ id Hst N). exact Hsa.
    - intros sa o1 v1 sb ops' sc rs' k o2 v2 Hsa N Hst HA' Hr _ Ho2 Hr2 Hg1 Hg2.
      pose proof (shared_get_establishes _ _ _ _ Hsa Hg1 Hst) as Hl.
      assert (Hsb : resolve_scope rt_depsf sb id = OScShared) by (rewrite (step_scope _ _ _ _ id Hst N); exact Hsa).
      destruct (shared_entry_kept _ _ _ _ _ Hsb HA' Hl Hr) as [_ Hv]. symmetry. eapply Hv; eassumption.
  Qed.

  (** HEADLINE: in a history without [OOverrideService] (overriding parameters is allowed), any two successful gets of a
      shared service -- with or without a context, whatever the contexts -- return the same value *)
  Theorem shared_identity ops st st' rs :
    run_ops st ops = (st', rs) -> resolve_scope rt_depsf st id = OScShared -> no_override_service ops ->
    forall i j oi oj vi vj,
      nth_error ops i = Some oi -> is_get_of id oi -> nth_error rs i = Some (ROk vi) ->
      nth_error ops j = Some oj -> is_get_of id oj -> nth_error rs j = Some (ROk vj) -> vi = vj.
  Proof.
    intros H Hs HA i j oi oj vi vj Hoi Hgi Hri Hoj Hgj Hrj.
    destruct (Nat.lt_trichotomy i j) as [L|[E|L]].
    - eapply (shared_identity_lt ops st st' rs H Hs HA i j); eassumption.
    - subst j. congruence.
    - symmetry. eapply (shared_identity_lt ops st st' rs H Hs HA j i); eassumption.
  Qed.
End Shared.

(** * 2. Contextual identity *)

(** [id] is a constructor service *)
Definition ctor_at (id : str) (st : rt) : Prop :=
  exists d o fl deps, lookup id (rt_services st) = Some d /\ sd_create d = CCtor o fl deps.

(** the invariant on the attached bags: the instances of [id] they hold are allocated objects, and two different contexts
    never hold instances with the same serial *)
Definition ctx_inv (id : str) (st : rt) : Prop :=
  (forall c v, lookup id (bag_of st c) = Some v -> exists sr, top_serial v = Some sr /\ (sr <= rt_serial st)%N) /\
  (forall c1 c2 v1 v2, c1 <> c2 -> lookup id (bag_of st c1) = Some v1 -> lookup id (bag_of st c2) = Some v2 ->
                       top_serial v1 <> top_serial v2).

(** it holds when no bag has an instance of [id], e.g. when there are no bags yet, e.g. after [load] *)
Lemma ctx_inv_init id st : (forall c, lookup id (bag_of st c) = None) -> ctx_inv id st.
Proof. intros H. split; [intros c v E|intros c1 c2 v1 v2 _ E _]; rewrite H in E; discriminate. Qed.

Lemma ctx_inv_no_bags id st : rt_bags st = [] -> ctx_inv id st.
Proof. intros E. apply ctx_inv_init. intros c. unfold bag_of. rewrite E. reflexivity. Qed.

Lemma ctx_inv_load id E o c envv : ctx_inv id (load E o c envv).
Proof. apply ctx_inv_no_bags. reflexivity. Qed.

Section Contextual.
  Variable id : str.

  (** a step touches at most the bag of its own context *)
  Lemma step_kind_bag_other st o st' c : step_kind st o st' -> op_ctx o <> Some c -> bag_of st' c = bag_of st c.
  Proof.
    intros K N. destruct K as [o st' b' _ _ [F _]|o c0 st1 b1 _ Hc [F _]|p st' F|p w|n og a|c0].
    - apply bag_of_ext. apply (gf_bags _ _ F).
    - rewrite bag_of_set_bag_other by (intros ->; apply N; exact Hc). apply bag_of_ext. apply (gf_bags _ _ F).
    - apply bag_of_ext. apply (pf_bags _ _ F).
    - apply bag_of_ext. reflexivity.
    - apply bag_of_ext. reflexivity.
    - apply bag_of_set_bag_other. intros ->. apply N. reflexivity.
  Qed.

  (** an entry of a bag stays, unless the context is re-created *)
  Lemma step_kind_bag_keep st o st' c v :
    o <> ONewCtx c -> step_kind st o st' -> lookup id (bag_of st c) = Some v -> lookup id (bag_of st' c) = Some v.
  Proof.
    intros N K Hl. destruct (N.eq_dec c c) as [_|]; [|congruence].
    destruct K as [o st' b' _ _ [F _]|o c0 st1 b1 _ Hc [F [[_ Kb] _]]|p st' F|p w|n og a|c0].
    - rewrite (bag_of_ext _ _ c (gf_bags _ _ F)). exact Hl.
    - destruct (N.eq_dec c c0) as [->|Hn].
      + rewrite bag_of_set_bag_same. apply Kb. exact Hl.
      + rewrite bag_of_set_bag_other by exact Hn. rewrite (bag_of_ext _ _ c (gf_bags _ _ F)). exact Hl.
    - rewrite (bag_of_ext _ _ c (pf_bags _ _ F)). exact Hl.
    - exact Hl.
    - exact Hl.
    - rewrite bag_of_set_bag_other; [exact Hl|]. intros ->. apply N. reflexivity.
  Qed.

  (** an entry of [id] that is in a bag after a step was there before, or was allocated during the step *)
  Lemma step_kind_bag_origin st o st' c v :
    ctor_at id st -> step_kind st o st' -> lookup id (bag_of st' c) = Some v ->
    lookup id (bag_of st c) = Some v \/ fresh_in (rt_serial st) (rt_serial st') v.
  Proof.
    intros [d [og [fl [deps [Hd Hc]]]]] K Hl.
    destruct K as [o st' b' _ _ [F _]|o c0 st1 b1 _ Hc0 [F [_ [_ Ho]]]|p st' F|p w|n og' a|c0].
    - left. rewrite <- (bag_of_ext _ _ c (gf_bags _ _ F)). exact Hl.
    - destruct (N.eq_dec c c0) as [->|Hn].
      + rewrite bag_of_set_bag_same in Hl. destruct (Ho id d og fl deps Hd Hc) as [_ [_ Hb]]. apply Hb. exact Hl.
      + rewrite bag_of_set_bag_other in Hl by exact Hn. left. rewrite <- (bag_of_ext _ _ c (gf_bags _ _ F)). exact Hl.
    - left. rewrite <- (bag_of_ext _ _ c (pf_bags _ _ F)). exact Hl.
    - left. exact Hl.
    - left. exact Hl.
    - destruct (N.eq_dec c c0) as [->|Hn].
      + rewrite bag_of_set_bag_same in Hl. discriminate.
      + rewrite bag_of_set_bag_other in Hl by exact Hn. left. exact Hl.
  Qed.

  Lemma ctx_inv_distinct st c1 c2 v1 v2 hi :
    ctx_inv id st -> c1 <> c2 -> lookup id (bag_of st c1) = Some v1 ->
    (lookup id (bag_of st c2) = Some v2 \/ fresh_in (rt_serial st) hi v2) -> top_serial v1 <> top_serial v2.
  Proof.
    intros [I1 I2] Hn H1 [H2|[s2 [E2 [L2 _]]]]; [eapply I2; eassumption|].
    destruct (I1 _ _ H1) as [s1 [E1 L1]]. rewrite E1, E2. intros E. inversion E. lia.
  Qed.

  Lemma ctx_inv_step_kind st o st' : ctor_at id st -> ctx_inv id st -> step_kind st o st' -> ctx_inv id st'.
  Proof.
    intros Hc Hi K. pose proof (step_kind_serial _ _ _ K) as L. split.
    - intros c v Hl. destruct (step_kind_bag_origin _ _ _ _ _ Hc K Hl) as [Ho|[sr [E [_ Hh]]]].
      + destruct (proj1 Hi _ _ Ho) as [sr [E Hh]]. exists sr. split; [exact E|lia].
      + exists sr. split; [exact E|exact Hh].
    - intros c1 c2 v1 v2 Hn H1 H2.
      assert (Hor : op_ctx o <> Some c1 \/ op_ctx o <> Some c2).
      { destruct (op_ctx o) as [c0|]; [|left; discriminate].
        destruct (N.eq_dec c0 c1) as [->|N1]; [right; intros E; inversion E; congruence|left; intros E; inversion E; congruence]. }
      destruct Hor as [N1|N2].
      + rewrite (step_kind_bag_other _ _ _ _ K N1) in H1.
        eapply (ctx_inv_distinct st c1 c2); [exact Hi|exact Hn|exact H1|]. eapply step_kind_bag_origin; eassumption.
      + rewrite (step_kind_bag_other _ _ _ _ K N2) in H2. intros E. symmetry in E. revert E.
        eapply (ctx_inv_distinct st c2 c1); [exact Hi|congruence|exact H2|]. eapply step_kind_bag_origin; eassumption.
  Qed.

  (** the state invariant of this section *)
  Definition ctx_P (st : rt) : Prop := resolve_scope rt_depsf st id = OScContextual /\ ctor_at id st /\ ctx_inv id st.

  Lemma ctor_at_step st o st' r : ctor_at id st -> ~ overrides_service id o -> step st o = (st', r) -> ctor_at id st'.
  Proof.
    intros [d [og [fl [deps [Hd Hc]]]]] N H. exists d, og, fl, deps. split; [|exact Hc].
    rewrite (step_service_other _ _ _ _ id H N). exact Hd.
  Qed.

  Lemma not_override_not_overrides o : ~ is_override_service o -> ~ overrides_service id o.
  Proof. destruct o; cbn; auto. Qed.

  Lemma ctx_P_step st o st' r : ctx_P st -> ~ is_override_service o -> step st o = (st', r) -> ctx_P st'.
  Proof.
    intros [Hs [Hc Hi]] N H. split; [rewrite (step_scope _ _ _ _ id H N); exact Hs|].
    split; [eapply ctor_at_step; [exact Hc|apply not_override_not_overrides; exact N|exact H]|].
    eapply ctx_inv_step_kind; [exact Hc|exact Hi|eapply step_kind_of; exact H].
  Qed.

  (** what a successful get of a contextual constructor service returns *)
  Lemma ctx_step_result st o st' w :
    resolve_scope rt_depsf st id = OScContextual -> ctor_at id st -> is_get_of id o -> step st o = (st', ROk w) ->
    match o with
    | OGet _ => fresh_in (rt_serial st) (rt_serial st') w
    | OGetCtx c _ => (lookup id (bag_of st c) = Some w \/ fresh_in (rt_serial st) (rt_serial st') w) /\
                     lookup id (bag_of st' c) = Some w
    | _ => False
    end.
  Proof.
    intros Hs [d [og [fl [deps [Hd Hc]]]]] Hg H. destruct (step_get_of _ _ _ _ _ Hg H) as [b [st1 [b1 [G M]]]].
    pose proof (get_hit_or_fresh _ _ _ _ _ _ _ _ _ _ _ _ Hd Hc G) as HF. rewrite Hs in HF. cbn [cached_of] in HF.
    destruct o as [n|c n| | | | | |]; try contradiction; destruct M as [-> ->].
    - destruct HF as [[Hh _]|[_ Fr]]; [discriminate Hh|exact Fr].
    - split.
      + destruct HF as [[Hh _]|[_ Fr]]; [left; exact Hh|right; exact Fr].
      + rewrite bag_of_set_bag_same. destruct (fuel_of_S st) as [f Ef]. rewrite Ef in G.
        pose proof (get_ok_cached _ _ _ _ _ _ _ _ G) as C. rewrite Hs in C. exact C.
  Qed.

  (** over a history: a later successful get returns what the bag of its context held at the start, or a fresh object;
      without a context always a fresh object *)
  Lemma ctx_origin_hist : forall ops st st' rs,
    ctx_P st -> no_override_service ops -> run_ops st ops = (st', rs) ->
    forall k o w, nth_error ops k = Some o -> is_get_of id o -> nth_error rs k = Some (ROk w) ->
    match o with
    | OGet _ => fresh_in (rt_serial st) (rt_serial st') w
    | OGetCtx c _ => lookup id (bag_of st c) = Some w \/ fresh_in (rt_serial st) (rt_serial st') w
    | _ => False
    end.
  Proof.
    induction ops as [|o ops IH]; intros st st' rs HP HA H k o' w Ho Hg Hw.
    - destruct k; discriminate.
    - apply run_ops_cons in H. destruct H as [st1 [r [rs' [Hst [Hr ->]]]]]. inversion HA as [|? ? HA1 HA2]; subst.
      pose proof (step_serial_mono _ _ _ _ Hst) as L1. pose proof (run_ops_serial_mono _ _ _ _ Hr) as L2.
      destruct k as [|k]; cbn [nth_error] in *.
      + inversion Ho; subst o'. inversion Hw; subst r. destruct HP as [Hs [Hc _]].
        pose proof (ctx_step_result _ _ _ _ Hs Hc Hg Hst) as R. destruct o; try contradiction.
        * eapply fresh_in_mono; [exact R|apply N.le_refl|exact L2].
        * destruct R as [[R|R] _]; [left; exact R|right; eapply fresh_in_mono; [exact R|apply N.le_refl|exact L2]].
      + pose proof (IH _ _ _ (ctx_P_step _ _ _ _ HP HA1 Hst) HA2 Hr k o' w Ho Hg Hw) as R.
        destruct o'; try contradiction.
        * eapply fresh_in_mono; [exact R|exact L1|apply N.le_refl].
        * destruct R as [R|R]; [|right; eapply fresh_in_mono; [exact R|exact L1|apply N.le_refl]].
          destruct HP as [_ [Hc _]].
          destruct (step_kind_bag_origin _ _ _ _ _ Hc (step_kind_of _ _ _ _ Hst) R) as [R'|R']; [left; exact R'|].
          right. eapply fresh_in_mono; [exact R'|apply N.le_refl|exact L2].
  Qed.

  (** ** 2a. the same context: the same value (unless the context is re-created in between) *)
  Lemma ctx_step_hit st c st' v w :
    resolve_scope rt_depsf st id = OScContextual -> lookup id (bag_of st c) = Some v ->
    step st (OGetCtx c id) = (st', ROk w) -> w = v.
  Proof.
    intros Hs Hl H. apply step_OGetCtx in H. destruct H as [st1 [b1 [G _]]].
    destruct (fuel_of_S st) as [f Ef]. rewrite Ef in G.
    destruct (get_ok_inv _ _ _ _ _ _ _ _ G) as [d [_ [[Hh _]|[Hm _]]]]; rewrite Hs in *; cbn [cached_of] in *; congruence.
  Qed.

  Theorem ctx_entry_kept c : forall ops st st' rs v,
    resolve_scope rt_depsf st id = OScContextual -> no_override_service ops ->
    lookup id (bag_of st c) = Some v -> run_ops st ops = (st', rs) ->
    forall k w, (forall m o, m < k -> nth_error ops m = Some o -> o <> ONewCtx c) ->
      nth_error ops k = Some (OGetCtx c id) -> nth_error rs k = Some (ROk w) -> w = v.
  Proof.
    induction ops as [|o ops IH]; intros st st' rs v Hs HA Hl H k w HB Ho Hw.
    - destruct k; discriminate.
    - apply run_ops_cons in H. destruct H as [st1 [r [rs' [Hst [Hr ->]]]]]. inversion HA as [|? ? HA1 HA2]; subst.
      destruct k as [|k]; cbn [nth_error] in *.
      + inversion Ho; subst o. inversion Hw; subst r. eapply ctx_step_hit; eassumption.
      + assert (Hs1 : resolve_scope rt_depsf st1 id = OScContextual) by (rewrite (step_scope _ _ _ _ id Hst HA1); exact Hs).
        assert (Hl1 : lookup id (bag_of st1 c) = Some v).
        { eapply step_kind_bag_keep; [|eapply step_kind_of; exact Hst|exact Hl]. apply (HB 0 o); [lia|reflexivity]. }
        eapply (IH st1 st' rs' v Hs1 HA2 Hl1 Hr k w); [|exact Ho|exact Hw].
        intros m o' Hm Ho'. apply (HB (S m)); [lia|exact Ho'].
  Qed.

  Lemma contextual_same_context_lt c ops st st' rs :
    run_ops st ops = (st', rs) -> resolve_scope rt_depsf st id = OScContextual -> no_override_service ops ->
    forall i j vi vj, i < j -> (forall m o, i < m < j -> nth_error ops m = Some o -> o <> ONewCtx c) ->
      nth_error ops i = Some (OGetCtx c id) -> nth_error rs i = Some (ROk vi) ->
      nth_error ops j = Some (OGetCtx c id) -> nth_error rs j = Some (ROk vj) -> vi = vj.
  Proof.
    intros H Hs HA i j vi vj Hij HB Hoi Hri Hoj Hrj.
    refine (two_pos (fun o => ~ is_override_service o) (fun o => o <> ONewCtx c)
              (fun st => resolve_scope rt_depsf st id = OScContextual)
              (fun oi vi oj vj => oi = OGetCtx c id -> oj = OGetCtx c id -> vi = vj) _ _
              ops st st' rs Hs HA H i j _ _ vi vj Hij HB Hoi Hri Hoj Hrj eq_refl eq_refl).
    - intros sa o sb r Hsa N Hst. rewrite (step_scope _ _ _ _ id Hst N). exact Hsa.
    - intros sa o1 v1 sb ops' sc rs' k o2 v2 Hsa N Hst HA' Hr HB' Ho2 Hr2 -> ->.
      assert (Hl : lookup id (bag_of sb c) = Some v1).
      { apply step_OGetCtx in Hst. destruct Hst as [st1 [b1 [G ->]]]. rewrite bag_of_set_bag_same.
        destruct (fuel_of_S sa) as [f Ef]. rewrite Ef in G.
        pose proof (get_ok_cached _ _ _ _ _ _ _ _ G) as C. rewrite Hsa in C. exact C. }
      assert (Hsb : resolve_scope rt_depsf sb id = OScContextual) by (rewrite (step_scope _ _ _ _ id Hst N); exact Hsa).
      symmetry. eapply (ctx_entry_kept c ops' sb sc rs' v1 Hsb HA' Hl Hr k v2); eassumption.
  Qed.

  (** in a history without [OOverrideService], two successful [OGetCtx c id] of a contextual service in the SAME context
      return the same value, provided the context is not re-created ([ONewCtx c]) between them *)
  Theorem contextual_same_context c ops st st' rs :
    run_ops st ops = (st', rs) -> resolve_scope rt_depsf st id = OScContextual -> no_override_service ops ->
    forall i j vi vj,
      (forall m o, (i < m < j \/ j < m < i) -> nth_error ops m = Some o -> o <> ONewCtx c) ->
      nth_error ops i = Some (OGetCtx c id) -> nth_error rs i = Some (ROk vi) ->
      nth_error ops j = Some (OGetCtx c id) -> nth_error rs j = Some (ROk vj) -> vi = vj.
  Proof.
    intros H Hs HA i j vi vj HB Hoi Hri Hoj Hrj.
    destruct (Nat.lt_trichotomy i j) as [L|[E|L]].
    - eapply (contextual_same_context_lt c ops st st' rs H Hs HA i j); try eassumption. intros m o Hm. apply HB. left; exact Hm.
    - subst j. congruence.
    - symmetry. eapply (contextual_same_context_lt c ops st st' rs H Hs HA j i); try eassumption. intros m o Hm. apply HB. right; exact Hm.
  Qed.

  (** ** 2b / 2c. different contexts, or no context: different instances *)

  (** not both in the same context *)
  Definition same_ctx (oi oj : op) : Prop := exists c, op_ctx oi = Some c /\ op_ctx oj = Some c.

  Definition ctx_Q (oi : op) (vi : value) (oj : op) (vj : value) : Prop :=
    is_get_of id oi -> is_get_of id oj -> ~ same_ctx oi oj ->
    exists si sj, top_serial vi = Some si /\ top_serial vj = Some sj /\ si <> sj /\ (op_ctx oj = None -> (si < sj)%N).

  Lemma ctx_Q_first st oi vi st1 ops st' rs k oj vj :
    ctx_P st -> ~ is_override_service oi -> step st oi = (st1, ROk vi) -> no_override_service ops -> run_ops st1 ops = (st', rs) ->
    nth_error ops k = Some oj -> nth_error rs k = Some (ROk vj) -> ctx_Q oi vi oj vj.
  Proof.
    intros HP N Hst HA Hr Hoj Hrj Hgi Hgj Hns.
    pose proof (ctx_P_step _ _ _ _ HP N Hst) as HP1. destruct HP as [Hs [Hc Hi]].
    pose proof (ctx_step_result _ _ _ _ Hs Hc Hgi Hst) as Ri.
    pose proof (ctx_origin_hist _ _ _ _ HP1 HA Hr k oj vj Hoj Hgj Hrj) as Rj.
    pose proof (step_serial_mono _ _ _ _ Hst) as L1.
    destruct oi as [ni|ci ni| | | | | |]; try contradiction.
    - (* the first one without a context: a fresh object *)
      destruct Ri as [si [Ei [Lo Hi1]]].
      destruct oj as [nj|cj nj| | | | | |]; try contradiction.
      + destruct Rj as [sj [Ej [Loj _]]]. exists si, sj. repeat split; try assumption; intros; lia.
      + destruct Rj as [Rj|[sj [Ej [Loj _]]]].
        * rewrite (step_kind_bag_other _ _ _ cj (step_kind_of _ _ _ _ Hst)) in Rj by discriminate.
          destruct (proj1 Hi _ _ Rj) as [sj [Ej Hj]]. exists si, sj. repeat split; try assumption; [lia|discriminate].
        * exists si, sj. repeat split; try assumption; [lia|discriminate].
    - (* the first one in context [ci]: it is in the bag of [ci] afterwards *)
      destruct Ri as [_ Hl1]. destruct HP1 as [_ [_ Hi1]].
      destruct (proj1 Hi1 _ _ Hl1) as [si [Ei Hi']].
      destruct oj as [nj|cj nj| | | | | |]; try contradiction.
      + destruct Rj as [sj [Ej [Loj _]]]. exists si, sj. repeat split; try assumption; intros; lia.
      + assert (Hn : ci <> cj) by (intros ->; apply Hns; exists cj; split; reflexivity).
        pose proof (ctx_inv_distinct st1 ci cj vi vj _ Hi1 Hn Hl1 Rj) as D.
        assert (Ej : exists sj, top_serial vj = Some sj).
        { destruct Rj as [Rj|[sj [Ej _]]]; [destruct (proj1 Hi1 _ _ Rj) as [sj [Ej _]]|]; exists sj; exact Ej. }
        destruct Ej as [sj Ej]. exists si, sj. repeat split; try assumption; [|discriminate].
        intros ->. apply D. congruence.
  Qed.

  Lemma contextual_distinct_lt ops st st' rs :
    run_ops st ops = (st', rs) -> resolve_scope rt_depsf st id = OScContextual -> ctor_at id st -> ctx_inv id st ->
    no_override_service ops ->
    forall i j oi oj vi vj, i < j ->
      nth_error ops i = Some oi -> is_get_of id oi -> nth_error rs i = Some (ROk vi) ->
      nth_error ops j = Some oj -> is_get_of id oj -> nth_error rs j = Some (ROk vj) -> ~ same_ctx oi oj ->
      exists si sj, top_serial vi = Some si /\ top_serial vj = Some sj /\ si <> sj /\ (op_ctx oj = None -> (si < sj)%N).
  Proof.
    intros H Hs Hc Hi HA i j oi oj vi vj Hij Hoi Hgi Hri Hoj Hgj Hrj Hns.
    refine (two_pos (fun o => ~ is_override_service o) (fun _ => True) ctx_P ctx_Q _ _
              ops st st' rs (conj Hs (conj Hc Hi)) HA H i j oi oj vi vj Hij (fun _ _ _ _ => I) Hoi Hri Hoj Hrj Hgi Hgj Hns).
    - apply ctx_P_step.
    - intros sa o1 v1 sb ops' sc rs' k o2 v2 HPa N Hst HA' Hr _ Ho2 Hr2. eapply ctx_Q_first; eassumption.
  Qed.

  (** In a history without [OOverrideService], two successful gets of a contextual constructor service at different positions
      that are not both in the same context (different contexts, or at least one [OGet] without a context) return objects
      with different top-level serials; when the later one is an [OGet] without a context, its serial is the larger one *)
  Theorem contextual_distinct ops st st' rs :
    run_ops st ops = (st', rs) -> resolve_scope rt_depsf st id = OScContextual -> ctor_at id st -> ctx_inv id st ->
    no_override_service ops ->
    forall i j oi oj vi vj, i <> j ->
      nth_error ops i = Some oi -> is_get_of id oi -> nth_error rs i = Some (ROk vi) ->
      nth_error ops j = Some oj -> is_get_of id oj -> nth_error rs j = Some (ROk vj) -> ~ same_ctx oi oj ->
      exists si sj, top_serial vi = Some si /\ top_serial vj = Some sj /\ si <> sj.
  Proof.
    intros H Hs Hc Hi HA i j oi oj vi vj Hij Hoi Hgi Hri Hoj Hgj Hrj Hns.
    destruct (Nat.lt_trichotomy i j) as [L|[E|L]]; [|contradiction|].
    - destruct (contextual_distinct_lt ops st st' rs H Hs Hc Hi HA i j oi oj vi vj L Hoi Hgi Hri Hoj Hgj Hrj Hns)
        as [si [sj [Ei [Ej [D _]]]]]. exists si, sj. auto.
    - assert (Hns' : ~ same_ctx oj oi) by (intros [c [A B]]; apply Hns; exists c; auto).
      destruct (contextual_distinct_lt ops st st' rs H Hs Hc Hi HA j i oj oi vj vi L Hoj Hgj Hrj Hoi Hgi Hri Hns')
        as [sj [si [Ej [Ei [D _]]]]]. exists si, sj. auto.
  Qed.

  (** 2b as stated: different contexts *)
  Corollary contextual_distinct_contexts ops st st' rs :
    run_ops st ops = (st', rs) -> resolve_scope rt_depsf st id = OScContextual -> ctor_at id st -> ctx_inv id st ->
    no_override_service ops ->
    forall i j c1 c2 vi vj, c1 <> c2 ->
      nth_error ops i = Some (OGetCtx c1 id) -> nth_error rs i = Some (ROk vi) ->
      nth_error ops j = Some (OGetCtx c2 id) -> nth_error rs j = Some (ROk vj) ->
      exists si sj, top_serial vi = Some si /\ top_serial vj = Some sj /\ si <> sj.
  Proof.
    intros H Hs Hc Hi HA i j c1 c2 vi vj Hn Hoi Hri Hoj Hrj.
    eapply (contextual_distinct ops st st' rs H Hs Hc Hi HA i j); try eassumption; try reflexivity.
    - intros ->. rewrite Hoi in Hoj. inversion Hoj. contradiction.
    - intros [c [A B]]. cbn [op_ctx] in A, B. congruence.
  Qed.

  (** 2c: every [OGet id] (no context) of a contextual service builds a fresh instance: its serial is larger than the serial
      of every instance returned earlier, and differs from every instance returned later *)
  Corollary contextual_plain_get_fresh ops st st' rs :
    run_ops st ops = (st', rs) -> resolve_scope rt_depsf st id = OScContextual -> ctor_at id st -> ctx_inv id st ->
    no_override_service ops ->
    forall i j oi vi vj, i < j ->
      nth_error ops i = Some oi -> is_get_of id oi -> nth_error rs i = Some (ROk vi) ->
      nth_error ops j = Some (OGet id) -> nth_error rs j = Some (ROk vj) ->
      exists si sj, top_serial vi = Some si /\ top_serial vj = Some sj /\ (si < sj)%N.
  Proof.
    intros H Hs Hc Hi HA i j oi vi vj Hij Hoi Hgi Hri Hoj Hrj.
    destruct (contextual_distinct_lt ops st st' rs H Hs Hc Hi HA i j oi (OGet id) vi vj Hij Hoi Hgi Hri Hoj eq_refl Hrj)
      as [si [sj [Ei [Ej [_ Lt]]]]].
    - intros [c [_ B]]. discriminate B.
    - exists si, sj. split; [exact Ei|]. split; [exact Ej|]. apply Lt. reflexivity.
  Qed.
End Contextual.

(** * 3. Non-shared freshness *)
Section NonShared.
  Variable id : str.

  Definition ns_P (st : rt) : Prop := resolve_scope rt_depsf st id = OScNonShared /\ ctor_at id st.

  Lemma ns_P_step st o st' r : ns_P st -> ~ overrides_service id o -> step st o = (st', r) -> ns_P st'.
  Proof.
    intros [Hs Hc] N H. split; [|eapply ctor_at_step; eassumption].
    apply resolve_scope_nonshared. apply resolve_scope_nonshared in Hs. unfold declared_scope in *.
    rewrite (step_service_other _ _ _ _ id H N). exact Hs.
  Qed.

  (** every successful get of a non-shared constructor service returns an object allocated during that very step *)
  Lemma ns_step_result st o st' w :
    ns_P st -> is_get_of id o -> step st o = (st', ROk w) -> fresh_in (rt_serial st) (rt_serial st') w.
  Proof.
    intros [Hs [d [og [fl [deps [Hd Hc]]]]]] Hg H. destruct (step_get_of _ _ _ _ _ Hg H) as [b [st1 [b1 [G M]]]].
    assert (Fr : fresh_in (rt_serial st) (rt_serial st1) w).
    { eapply get_miss_fresh; [exact Hd|exact Hc| |exact G]. rewrite Hs. reflexivity. }
    destruct o; try contradiction; destruct M as [_ ->]; exact Fr.
  Qed.

  Lemma ns_hist : forall ops st st' rs,
    ns_P st -> Forall (fun o => ~ overrides_service id o) ops -> run_ops st ops = (st', rs) ->
    forall k o w, nth_error ops k = Some o -> is_get_of id o -> nth_error rs k = Some (ROk w) ->
    fresh_in (rt_serial st) (rt_serial st') w.
  Proof.
    induction ops as [|o ops IH]; intros st st' rs HP HA H k o' w Ho Hg Hw.
    - destruct k; discriminate.
    - apply run_ops_cons in H. destruct H as [st1 [r [rs' [Hst [Hr ->]]]]]. inversion HA as [|? ? HA1 HA2]; subst.
      pose proof (step_serial_mono _ _ _ _ Hst) as L1. pose proof (run_ops_serial_mono _ _ _ _ Hr) as L2.
      destruct k as [|k]; cbn [nth_error] in *.
      + inversion Ho; subst o'. inversion Hw; subst r.
        eapply fresh_in_mono; [eapply ns_step_result; eassumption|apply N.le_refl|exact L2].
      + eapply fresh_in_mono; [eapply (IH st1 st' rs' (ns_P_step _ _ _ _ HP HA1 Hst) HA2 Hr k); eassumption|exact L1|apply N.le_refl].
  Qed.

  (** In a history that does not override [id] itself (other services and parameters may be overridden), any two successful
      gets of a non-shared constructor service return objects whose top-level serials strictly increase with the position *)
  Theorem nonshared_fresh ops st st' rs :
    run_ops st ops = (st', rs) -> resolve_scope rt_depsf st id = OScNonShared -> ctor_at id st ->
    Forall (fun o => ~ overrides_service id o) ops ->
    forall i j oi oj vi vj, i < j ->
      nth_error ops i = Some oi -> is_get_of id oi -> nth_error rs i = Some (ROk vi) ->
      nth_error ops j = Some oj -> is_get_of id oj -> nth_error rs j = Some (ROk vj) ->
      exists si sj, top_serial vi = Some si /\ top_serial vj = Some sj /\ (si < sj)%N.
  Proof.
    intros H Hs Hc HA i j oi oj vi vj Hij Hoi Hgi Hri Hoj Hgj Hrj.
    refine (two_pos (fun o => ~ overrides_service id o) (fun _ => True) ns_P
              (fun oi vi oj vj => is_get_of id oi -> is_get_of id oj ->
                 exists si sj, top_serial vi = Some si /\ top_serial vj = Some sj /\ (si < sj)%N) _ _
              ops st st' rs (conj Hs Hc) HA H i j oi oj vi vj Hij (fun _ _ _ _ => I) Hoi Hri Hoj Hrj Hgi Hgj).
    - apply ns_P_step.
    - intros sa o1 v1 sb ops' sc rs' k o2 v2 HPa N Hst HA' Hr _ Ho2 Hr2 Hg1 Hg2.
      destruct (ns_step_result _ _ _ _ HPa Hg1 Hst) as [s1 [E1 [_ Hi1]]].
      destruct (ns_hist ops' sb sc rs' (ns_P_step _ _ _ _ HPa N Hst) HA' Hr k o2 v2 Ho2 Hg2 Hr2) as [s2 [E2 [Lo2 _]]].
      exists s1, s2. split; [exact E1|]. split; [exact E2|]. lia.
  Qed.

  Corollary nonshared_distinct ops st st' rs :
    run_ops st ops = (st', rs) -> resolve_scope rt_depsf st id = OScNonShared -> ctor_at id st ->
    Forall (fun o => ~ overrides_service id o) ops ->
    forall i j oi oj vi vj, i <> j ->
      nth_error ops i = Some oi -> is_get_of id oi -> nth_error rs i = Some (ROk vi) ->
      nth_error ops j = Some oj -> is_get_of id oj -> nth_error rs j = Some (ROk vj) ->
      top_serial vi <> top_serial vj.
  Proof.
    intros H Hs Hc HA i j oi oj vi vj Hij Hoi Hgi Hri Hoj Hgj Hrj.
    destruct (Nat.lt_trichotomy i j) as [L|[E|L]]; [|contradiction|].
    - destruct (nonshared_fresh ops st st' rs H Hs Hc HA i j oi oj vi vj L Hoi Hgi Hri Hoj Hgj Hrj) as [si [sj [Ei [Ej Lt]]]].
      rewrite Ei, Ej. intros E; inversion E; lia.
    - destruct (nonshared_fresh ops st st' rs H Hs Hc HA j i oj oi vj vi L Hoj Hgj Hrj Hoi Hgi Hri) as [sj [si [Ej [Ei Lt]]]].
      rewrite Ei, Ej. intros E; inversion E; lia.
  Qed.
End NonShared.

(** * What [OOverrideService] does to the scopes

    [OOverrideService n] replaces the definition of [n] by a default-scoped constructor over literals, drops the shared
    entry of [n] ([override_service_own] in RTProofs) and leaves all bags alone.  So: the resolved scope of [n] itself becomes
    shared or contextual (never non-shared); services with a declared (non-default) scope keep their scope; a
    default-scoped service that reaches [n] may flip (see [example_override_flips_scope]). *)
Theorem override_service_scope_self st n og args :
  let st' := fst (step st (OOverrideService n og args)) in
  declared_scope st' n = OScDefault /\
  (resolve_scope rt_depsf st' n = OScShared \/ resolve_scope rt_depsf st' n = OScContextual).
Proof.
  cbn zeta. cbn [step fst].
  assert (D : forall st', rt_services st' = assoc_set n {| sd_create := CCtor og (failing og) (map DLit args); sd_fields := []; sd_calls := [];
                                                 sd_tags := []; sd_scope := OScDefault |} (rt_services st) ->
                          declared_scope st' n = OScDefault).
  { intros st' E. unfold declared_scope. rewrite E, lookup_assoc_set_same. reflexivity. }
  split; [apply D; reflexivity|]. unfold resolve_scope. rewrite D by reflexivity.
  destruct (existsb _ _); [right|left]; reflexivity.
Qed.

Theorem override_service_scope_declared st n og args m :
  m <> n -> declared_scope st m <> OScDefault ->
  resolve_scope rt_depsf (fst (step st (OOverrideService n og args))) m = resolve_scope rt_depsf st m.
Proof.
  intros Hn Hd. cbn [step fst]. unfold resolve_scope.
  match goal with |- match declared_scope ?a m with _ => _ end = _ =>
    assert (E : declared_scope a m = declared_scope st m)
      by (unfold declared_scope; cbn [rt_services]; rewrite lookup_assoc_set_other by exact Hn; reflexivity) end.
  rewrite E. destruct (declared_scope st m); try reflexivity. contradiction.
Qed.

Theorem override_service_bags st n og args : rt_bags (fst (step st (OOverrideService n og args))) = rt_bags st.
Proof. reflexivity. Qed.

(** * Windows: the identity theorems apply to any window of a history in which no service is overridden *)
Lemma run_ops_app : forall ops1 ops2 st,
  run_ops st (ops1 ++ ops2) =
  let '(st1, rs1) := run_ops st ops1 in let '(st2, rs2) := run_ops st1 ops2 in (st2, rs1 ++ rs2).
Proof.
  induction ops1 as [|o ops1 IH]; intros ops2 st.
  - cbn [app run_ops]. destruct (run_ops st ops2); reflexivity.
  - cbn [app run_ops]. destruct (step st o) as [st1 r]. rewrite IH.
    destruct (run_ops st1 ops1) as [st2 rs1]. destruct (run_ops st2 ops2) as [st3 rs2]. reflexivity.
Qed.

Lemma nth_error_window {A} (pre mid post : list A) i : i < length mid -> nth_error (pre ++ mid ++ post) (length pre + i) = nth_error mid i.
Proof.
  intros H. rewrite nth_error_app2 by lia. replace (length pre + i - length pre) with i by lia. apply nth_error_app1. exact H.
Qed.

(** overrides before and after the window are allowed: the scope is taken at the start of the window *)
Theorem shared_identity_window id pre mid post st st1 rs1 st' rs :
  run_ops st pre = (st1, rs1) -> run_ops st (pre ++ mid ++ post) = (st', rs) ->
  resolve_scope rt_depsf st1 id = OScShared -> no_override_service mid ->
  forall i j oi oj vi vj, i < length mid -> j < length mid ->
    nth_error mid i = Some oi -> is_get_of id oi -> nth_error rs (length pre + i) = Some (ROk vi) ->
    nth_error mid j = Some oj -> is_get_of id oj -> nth_error rs (length pre + j) = Some (ROk vj) -> vi = vj.
Proof.
  intros H1 H Hs HA i j oi oj vi vj Li Lj Hoi Hgi Hri Hoj Hgj Hrj.
  rewrite run_ops_app, H1 in H. rewrite run_ops_app in H.
  destruct (run_ops st1 mid) as [st2 rs2] eqn:H2. destruct (run_ops st2 post) as [st3 rs3] eqn:H3.
  inversion H; subst st' rs. pose proof (run_ops_length _ _ _ _ H1) as L1. pose proof (run_ops_length _ _ _ _ H2) as L2.
  rewrite <- L1 in Hri, Hrj. rewrite nth_error_window in Hri, Hrj by lia.
  eapply (shared_identity id mid st1 st2 rs2 H2 Hs HA i j); eassumption.
Qed.

(** * 5. A concrete history *)
Module Example.
  Definition ctor (o : string) (deps : list rdep) (sc : oscope) : sdef :=
    {| sd_create := CCtor (s o) false deps; sd_fields := []; sd_calls := []; sd_tags := []; sd_scope := sc |}.

  (** one shared, one contextual, one non-shared constructor service; and [m], default-scoped, depending on [c] *)
  Definition st0 : rt :=
    {| rt_params := []; rt_pcache := [];
       rt_services := [(s "s", ctor "S" [] OScShared); (s "c", ctor "C" [] OScContextual); (s "n", ctor "N" [] OScNonShared);
                       (s "m", ctor "M" [DService (s "c")] OScDefault)];
       rt_shared := []; rt_decorators := []; rt_bags := []; rt_serial := 0; rt_env := []; rt_trace := [] |}.

  Definition hist : list op :=
    [OGet (s "s"); OGetCtx 1 (s "s"); OGetCtx 1 (s "c"); OGetCtx 2 (s "c"); OGetCtx 1 (s "c"); OGet (s "n"); OGet (s "n")].

  Definition obj (o : string) (sr : N) : result value := ROk (VObj (s o) [] [] [] sr).

  (** the shared service: one instance (serial 1) for both gets; the contextual one: serial 2 in context 1 (twice), serial 3 in
      context 2; the non-shared one: serials 4 and 5 *)
  Example example_history :
    snd (run_ops st0 hist) = [obj "S" 1; obj "S" 1; obj "C" 2; obj "C" 3; obj "C" 2; obj "N" 4; obj "N" 5] /\
    rt_serial (fst (run_ops st0 hist)) = 5%N.
  Proof. split; vm_compute; reflexivity. Qed.

  Example example_scopes :
    resolve_scope rt_depsf st0 (s "s") = OScShared /\ resolve_scope rt_depsf st0 (s "c") = OScContextual /\
    resolve_scope rt_depsf st0 (s "n") = OScNonShared /\ resolve_scope rt_depsf st0 (s "m") = OScContextual.
  Proof. repeat split; vm_compute; reflexivity. Qed.

  (** a contextual service fetched without a context: a fresh instance every time, never stored *)
  Example example_plain_get_of_contextual :
    snd (run_ops st0 [OGet (s "c"); OGetCtx 1 (s "c"); OGet (s "c"); OGetCtx 1 (s "c")]) = [obj "C" 1; obj "C" 2; obj "C" 3; obj "C" 2].
  Proof. vm_compute; reflexivity. Qed.

  (** re-creating the context forgets its instances: the hypothesis of [contextual_same_context] about [ONewCtx] is needed *)
  Example example_new_ctx :
    snd (run_ops st0 [OGetCtx 1 (s "c"); ONewCtx 1; OGetCtx 1 (s "c")]) = [obj "C" 1; ROk VNil; obj "C" 2].
  Proof. vm_compute; reflexivity. Qed.

  (** overriding [c] makes it default-scoped, hence shared, and flips the default-scoped [m] from contextual to shared *)
  Example example_override_flips_scope :
    let st1 := fst (step st0 (OOverrideService (s "c") (s "C2") [])) in
    resolve_scope rt_depsf st0 (s "m") = OScContextual /\ resolve_scope rt_depsf st1 (s "m") = OScShared /\
    resolve_scope rt_depsf st1 (s "c") = OScShared.
  Proof. repeat split; vm_compute; reflexivity. Qed.

  (** ... and the instance of the OLD definition stays in the bag of context 1, while the new definition is shared: after the
      override the gets of [c] return the new shared instance everywhere (the identity theorems exclude [OOverrideService]) *)
  Example example_override_history :
    snd (run_ops st0 [OGetCtx 1 (s "c"); OOverrideService (s "c") (s "C2") []; OGetCtx 1 (s "c"); OGetCtx 2 (s "c")]) =
    [obj "C" 1; ROk VNil; obj "C2" 2; obj "C2" 2].
  Proof. vm_compute; reflexivity. Qed.

  (** a [value:] service with a serial above [rt_serial] breaks [serial_inv]: [defs_le] is needed *)
  Example example_defs_le_needed :
    let st := {| rt_params := []; rt_pcache := [];
                 rt_services := [(s "v", {| sd_create := CValue (VObj (s "V") [] [] [] 7); sd_fields := []; sd_calls := []; sd_tags := [];
                                            sd_scope := OScShared |})];
                 rt_shared := []; rt_decorators := []; rt_bags := []; rt_serial := 0; rt_env := []; rt_trace := [] |} in
    serial_inv st /\ run_ops st [OGet (s "v")] = (with_shared st [(s "v", VObj (s "V") [] [] [] 7)], [obj "V" 7]).
  Proof. split; [split; intros ? ? []|vm_compute; reflexivity]. Qed.

  (** the theorems apply to this history (their hypotheses are satisfiable) *)
  Lemma hist_no_override : no_override_service hist.
  Proof. repeat constructor; intros []. Qed.

  Lemma ctor_at_st0 id o deps sc : lookup id (rt_services st0) = Some (ctor o deps sc) -> ctor_at id st0.
  Proof. intros H. exists (ctor o deps sc), (s o), false, deps. split; [exact H|reflexivity]. Qed.

  Example example_shared_by_theorem v1 v2 :
    nth_error (snd (run_ops st0 hist)) 0 = Some (ROk v1) -> nth_error (snd (run_ops st0 hist)) 1 = Some (ROk v2) -> v1 = v2.
  Proof.
    intros H1 H2. destruct (run_ops st0 hist) as [st' rs] eqn:E.
    eapply (shared_identity (s "s") hist st0 st' rs E (proj1 example_scopes) hist_no_override 0 1); try eassumption; reflexivity.
  Qed.

  Example example_contextual_by_theorem v1 v2 v3 :
    nth_error (snd (run_ops st0 hist)) 2 = Some (ROk v1) -> nth_error (snd (run_ops st0 hist)) 3 = Some (ROk v2) ->
    nth_error (snd (run_ops st0 hist)) 4 = Some (ROk v3) ->
    v1 = v3 /\ exists s1 s2, top_serial v1 = Some s1 /\ top_serial v2 = Some s2 /\ s1 <> s2.
  Proof.
    intros H1 H2 H3. destruct (run_ops st0 hist) as [st' rs] eqn:E. cbn [snd] in *.
    pose proof (proj1 (proj2 example_scopes)) as Hs. split.
    - eapply (contextual_same_context (s "c") 1%N hist st0 st' rs E Hs hist_no_override 2 4); try eassumption; try reflexivity.
      intros m o [Hm|Hm] Ho; [|lia]. assert (m = 3) by lia. subst m. inversion Ho. discriminate.
    - eapply (contextual_distinct_contexts (s "c") hist st0 st' rs E Hs (ctor_at_st0 (s "c") "C" [] OScContextual eq_refl)
                (ctx_inv_no_bags (s "c") st0 eq_refl) hist_no_override 2 3 1%N 2%N); try eassumption; try reflexivity. discriminate.
  Qed.

  Example example_nonshared_by_theorem v1 v2 :
    nth_error (snd (run_ops st0 hist)) 5 = Some (ROk v1) -> nth_error (snd (run_ops st0 hist)) 6 = Some (ROk v2) ->
    exists s1 s2, top_serial v1 = Some s1 /\ top_serial v2 = Some s2 /\ (s1 < s2)%N.
  Proof.
    intros H1 H2. destruct (run_ops st0 hist) as [st' rs] eqn:E. cbn [snd] in *.
    eapply (nonshared_fresh (s "n") hist st0 st' rs E (proj1 (proj2 (proj2 example_scopes)))
              (ctor_at_st0 (s "n") "N" [] OScNonShared eq_refl)); try eassumption; try reflexivity; [|lia].
    repeat constructor; intros [].
  Qed.
End Example.

Print Assumptions get_serial_inv.
Print Assumptions resolve_dep_serial_inv.
Print Assumptions get_miss_fresh.
Print Assumptions step_serial_inv.
Print Assumptions run_ops_serial_inv.
Print Assumptions load_serial_inv.
Print Assumptions shared_identity.
Print Assumptions shared_identity_window.
Print Assumptions shared_entry_kept.
Print Assumptions shared_get_establishes.
Print Assumptions contextual_same_context.
Print Assumptions contextual_distinct.
Print Assumptions contextual_distinct_contexts.
Print Assumptions contextual_plain_get_fresh.
Print Assumptions nonshared_fresh.
Print Assumptions nonshared_distinct.
Print Assumptions run_ops_serial_mono.
Print Assumptions run_ops_defs.
Print Assumptions run_ops_scope.
Print Assumptions step_scope.
Print Assumptions override_service_scope_self.
Print Assumptions override_service_scope_declared.
Print Assumptions Example.example_history.
Print Assumptions Example.example_contextual_by_theorem.
