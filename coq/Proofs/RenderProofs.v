(** API surface of the generated container: getters, must-getters, stub parity, absence of name collisions
    (properties C13 and C17).  Note: [getter_methods], [all_getter_methods], [iface_getters], [constructor_decl],
    [head_lines] do not depend on the environment (they lose the section variable [E] of Model/Render.v). *)
From Coq Require Import Lia Permutation.
From GV Require Import Base.Str Base.Quote Base.Sort Base.Gerr Regex.Re Model.Env Model.Input Model.Imports Model.Compile
  Model.Validate Model.Render Proofs.ImportsProofs Proofs.SortProofs.

(** * String lemmas: the prefix "Must", the suffix "InContext" *)

Definition MUST : str := s "Must".
Definition INCTX : str := s "InContext".

Lemma has_prefix_app p x : has_prefix p (p ++ x) = true.
Proof.
  induction p as [|c p IH]; [reflexivity|].
  cbn [app has_prefix]. rewrite Ascii.eqb_refl, IH. reflexivity.
Qed.

Lemma has_prefix_iff p x : has_prefix p x = true <-> exists r, x = p ++ r.
Proof.
  split.
  - revert x; induction p as [|c p IH]; intros x H.
    + exists x; reflexivity.
    + destruct x as [|d x]; cbn [has_prefix] in H; [discriminate|].
      apply andb_true_iff in H. destruct H as [Hc Hp].
      apply Ascii.eqb_eq in Hc. subst d. destruct (IH _ Hp) as [r ->]. exists r; reflexivity.
  - intros [r ->]. apply has_prefix_app.
Qed.

Lemma has_suffix_app p x : has_suffix p (x ++ p) = true.
Proof. unfold has_suffix. rewrite rev_app_distr. apply has_prefix_app. Qed.

Lemma has_suffix_iff p x : has_suffix p x = true <-> exists r, x = r ++ p.
Proof.
  unfold has_suffix. rewrite has_prefix_iff. split; intros [r H].
  - exists (rev r). rewrite <- (rev_involutive x), H, rev_app_distr, rev_involutive. reflexivity.
  - exists (rev r). rewrite H, rev_app_distr. reflexivity.
Qed.

Lemma drop_prefix_app p x : drop_prefix p (p ++ x) = x.
Proof. induction p as [|c p IH]; [reflexivity|]. cbn [app drop_prefix]. exact IH. Qed.

Lemma must_inj a b : MUST ++ a = MUST ++ b -> a = b.
Proof. apply app_inv_head. Qed.

Lemma inctx_inj a b : a ++ INCTX = b ++ INCTX -> a = b.
Proof. apply app_inv_tail. Qed.

(** the mixed case: a name ending in "InContext" that starts with "Must" has a getter starting with "Must" *)
Lemma mixed_must_inctx g h : g ++ INCTX = MUST ++ h -> has_prefix MUST g = true.
Proof.
  intros H. apply has_prefix_iff.
  destruct g as [|c1 [|c2 [|c3 [|c4 g]]]];
    cbn [app MUST INCTX s list_ascii_of_string] in H; try discriminate H.
  injection H as -> -> -> -> _. exists g. reflexivity.
Qed.

(** the four names generated for a getter, indexed by (Must?, InContext?) *)
Definition nm (p q : bool) (g : str) : str :=
  match p, q with
  | false, false => g
  | false, true => g ++ INCTX
  | true, false => MUST ++ g
  | true, true => MUST ++ g ++ INCTX
  end.

(** what the input validators guarantee of a getter *)
Definition good_getter (g : str) : Prop := has_prefix MUST g = false /\ has_suffix INCTX g = false.

Lemma not_prefix g x : has_prefix MUST g = false -> g = MUST ++ x -> False.
Proof. intros H ->. rewrite has_prefix_app in H. discriminate. Qed.

Lemma not_suffix g x : has_suffix INCTX g = false -> g = x ++ INCTX -> False.
Proof. intros H ->. rewrite has_suffix_app in H. discriminate. Qed.

Lemma not_mixed g h : has_prefix MUST g = false -> g ++ INCTX = MUST ++ h -> False.
Proof. intros H E. rewrite (mixed_must_inctx _ _ E) in H. discriminate. Qed.

Theorem nm_inj p q g1 p' q' g2 :
  good_getter g1 -> good_getter g2 -> nm p q g1 = nm p' q' g2 -> p = p' /\ q = q' /\ g1 = g2.
Proof.
  intros [P1 S1] [P2 S2] H.
  destruct p, q, p', q'; cbn [nm] in H.
  - (* MgI = MgI *) apply must_inj, inctx_inj in H. auto.
  - (* M g1 I = M g2 *) apply must_inj in H. exfalso. exact (not_suffix _ _ S2 (eq_sym H)).
  - (* M g1 I = g2 I *) rewrite app_assoc in H. apply inctx_inj in H. exfalso. exact (not_prefix _ _ P2 (eq_sym H)).
  - (* M g1 I = g2 *) exfalso. exact (not_prefix _ _ P2 (eq_sym H)).
  - (* M g1 = M g2 I *) apply must_inj in H. exfalso. exact (not_suffix _ _ S1 H).
  - apply must_inj in H. auto.
  - (* M g1 = g2 I *) exfalso. exact (not_mixed _ _ P2 (eq_sym H)).
  - (* M g1 = g2 *) exfalso. exact (not_prefix _ _ P2 (eq_sym H)).
  - (* g1 I = M g2 I *) rewrite app_assoc in H. apply inctx_inj in H. exfalso. exact (not_prefix _ _ P1 H).
  - (* g1 I = M g2 *) exfalso. exact (not_mixed _ _ P1 H).
  - apply inctx_inj in H. auto.
  - (* g1 I = g2 *) exfalso. exact (not_suffix _ _ S2 (eq_sym H)).
  - (* g1 = M g2 I *) exfalso. exact (not_prefix _ _ P1 H).
  - (* g1 = M g2 *) exfalso. exact (not_prefix _ _ P1 H).
  - (* g1 = g2 I *) exfalso. exact (not_suffix _ _ S1 H).
  - auto.
Qed.

Definition four_names (g : str) : list str := [g; g ++ INCTX; MUST ++ g; MUST ++ g ++ INCTX].

Lemma four_names_nm g : four_names g = [nm false false g; nm false true g; nm true false g; nm true true g].
Proof. reflexivity. Qed.

Lemma In_four_names x g : In x (four_names g) -> exists p q, x = nm p q g.
Proof.
  rewrite four_names_nm. cbn [In].
  intros [H|[H|[H|[H|[]]]]]; subst x; eauto.
Qed.

Lemma NoDup_app_intro {A} (a b : list A) :
  NoDup a -> NoDup b -> (forall x, In x a -> In x b -> False) -> NoDup (a ++ b).
Proof.
  induction a as [|x a IH]; intros Ha Hb Hd; [exact Hb|].
  inversion Ha as [|? ? Hx Ha']; subst. cbn [app]. constructor.
  - rewrite in_app_iff. intros [H|H]; [exact (Hx H)|]. apply (Hd x); [left; reflexivity|exact H].
  - apply IH; auto. intros y Hy. apply Hd. right; exact Hy.
Qed.

Lemma four_names_NoDup g : good_getter g -> NoDup (four_names g).
Proof.
  intros G. rewrite four_names_nm.
  assert (K : forall p q p' q', nm p q g = nm p' q' g -> p = p' /\ q = q').
  { intros p q p' q' H. apply (nm_inj _ _ _ _ _ _ G G) in H. tauto. }
  repeat constructor; cbn [In]; intros H;
    repeat (destruct H as [H|H]; [apply K in H; destruct H; discriminate|]); exact H.
Qed.

Lemma four_names_disjoint g1 g2 x :
  good_getter g1 -> good_getter g2 -> g1 <> g2 -> In x (four_names g1) -> In x (four_names g2) -> False.
Proof.
  intros G1 G2 Hne H1 H2.
  apply In_four_names in H1. apply In_four_names in H2.
  destruct H1 as (p & q & ->). destruct H2 as (p' & q' & H).
  apply (nm_inj _ _ _ _ _ _ G1 G2) in H. destruct H as (_ & _ & H). exact (Hne H).
Qed.

(** ** C13, the collision theorem as stated in the task *)
Theorem getter_names_NoDup g1 g2 :
  g1 <> g2 ->
  has_prefix (s "Must") g1 = false -> has_suffix (s "InContext") g1 = false ->
  has_prefix (s "Must") g2 = false -> has_suffix (s "InContext") g2 = false ->
  NoDup ([g1; g1 ++ s "InContext"; s "Must" ++ g1; s "Must" ++ g1 ++ s "InContext"] ++
         [g2; g2 ++ s "InContext"; s "Must" ++ g2; s "Must" ++ g2 ++ s "InContext"]).
Proof.
  intros Hne P1 S1 P2 S2.
  assert (G1 : good_getter g1) by (split; assumption).
  assert (G2 : good_getter g2) by (split; assumption).
  change (NoDup (four_names g1 ++ four_names g2)).
  apply NoDup_app_intro; try (apply four_names_NoDup; assumption).
  intros x. apply four_names_disjoint; assumption.
Qed.

(** * 1. The method set of one service (C13) *)

Definition gen_names (g : str) (mg : bool) : list str :=
  match g with
  | [] => []
  | _ => [g; g ++ INCTX] ++ (if mg then [MUST ++ g; MUST ++ g ++ INCTX] else [])
  end.

Theorem getter_methods_names stub n ct sv :
  os_getter sv <> [] ->
  map mt_name (getter_methods stub n ct sv) =
  [os_getter sv; os_getter sv ++ s "InContext"] ++
  (if os_must_getter sv then [s "Must" ++ os_getter sv; s "Must" ++ os_getter sv ++ s "InContext"] else []).
Proof.
  intros Hg. unfold getter_methods.
  destruct (os_getter sv) as [|c g]; [congruence|].
  destruct (os_must_getter sv); reflexivity.
Qed.

Theorem getter_methods_no_getter stub n ct sv : os_getter sv = [] -> getter_methods stub n ct sv = [].
Proof. intros H. unfold getter_methods. rewrite H. reflexivity. Qed.

Lemma getter_methods_gen_names stub n ct sv :
  map mt_name (getter_methods stub n ct sv) = gen_names (os_getter sv) (os_must_getter sv).
Proof.
  unfold getter_methods, gen_names.
  destruct (os_getter sv) as [|c g]; [reflexivity|].
  destruct (os_must_getter sv); reflexivity.
Qed.

(** structured view of a method signature, independent of stub mode and of the allocated aliases *)
Record msig := { sg_name : str; sg_ctx : bool; sg_fallible : bool; sg_type : str }.

Definition sigs_of (sv : oservice) : list msig :=
  match os_getter sv with
  | [] => []
  | g =>
    [ {| sg_name := g; sg_ctx := false; sg_fallible := true; sg_type := os_type sv |};
      {| sg_name := g ++ s "InContext"; sg_ctx := true; sg_fallible := true; sg_type := os_type sv |} ] ++
    (if os_must_getter sv then
       [ {| sg_name := s "Must" ++ g; sg_ctx := false; sg_fallible := false; sg_type := os_type sv |};
         {| sg_name := s "Must" ++ g ++ s "InContext"; sg_ctx := true; sg_fallible := false; sg_type := os_type sv |} ]
     else [])
  end.

(** how a signature is printed: parameters (exactly [ctx <context alias>.Context] or nothing) and results *)
Definition print_params (cx : str) (sg : msig) : str :=
  if sg_ctx sg then s "ctx " ++ cx ++ s ".Context" else [].
Definition print_results (stub : bool) (sg : msig) : str :=
  if sg_fallible sg
  then (if stub then s "(" ++ sg_type sg ++ s ", error)" else s "(result " ++ sg_type sg ++ s ", err error)")
  else sg_type sg.

Definition method_sig (m : method) : str * str * str := (mt_name m, mt_params m, mt_results m).

Theorem getter_methods_signatures stub n ct sv :
  map method_sig (getter_methods stub n ct sv) =
  map (fun sg => (sg_name sg, print_params (n_context n) sg, print_results stub sg)) (sigs_of sv).
Proof.
  unfold getter_methods, sigs_of.
  destruct (os_getter sv) as [|c g]; [reflexivity|].
  destruct (os_must_getter sv), stub; reflexivity.
Qed.

(** the explicit form of the same statement *)
Corollary getter_methods_signatures_explicit (stub : bool) (n : names) (ct : str) (sv : oservice) :
  os_getter sv <> [] ->
  let g := os_getter sv in
  let T := os_type sv in
  let ctxp := s "ctx " ++ n_context n ++ s ".Context" in
  let res := if stub then s "(" ++ T ++ s ", error)" else s "(result " ++ T ++ s ", err error)" in
  map method_sig (getter_methods stub n ct sv) =
  [ (g, ([] : str), res); (g ++ s "InContext", ctxp, res) ] ++
  (if os_must_getter sv then [ (s "Must" ++ g, ([] : str), T); (s "Must" ++ g ++ s "InContext", ctxp, T) ] else []).
Proof.
  intros Hg. cbv zeta. unfold getter_methods.
  destruct (os_getter sv) as [|c g]; [congruence|].
  destruct (os_must_getter sv), stub; reflexivity.
Qed.

(** the interface literal checked in init() lists exactly the signatures of the generated methods (in stub form) *)
Theorem iface_getters_methods n ct sv :
  iface_getters n sv =
  map (fun m => mt_name m ++ s "(" ++ mt_params m ++ s ") " ++ mt_results m) (getter_methods true n ct sv).
Proof.
  unfold iface_getters, getter_methods.
  destruct (os_getter sv) as [|c g]; [reflexivity|].
  set (G := c :: g).
  destruct (os_must_getter sv); cbn [map app mt_name mt_params mt_results];
    repeat rewrite <- app_assoc; cbn [app s list_ascii_of_string]; reflexivity.
Qed.

(** * 2. The must-getter truth table *)
Section WithEnv.
Variable E : env.

Theorem getter_truth_table (sv : service) (m : meta) :
  let '((g, mg), e) := getter_of E sv m in
  g = opt_or (sv_getter sv) [] /\
  (((sv_getter sv = None \/ sv_getter sv = Some []) /\ sv_must_getter sv = Some true) -> e <> None) /\
  (~ ((sv_getter sv = None \/ sv_getter sv = Some []) /\ sv_must_getter sv = Some true) ->
   e = None /\
   (mg = true <->
    g <> [] /\ (sv_must_getter sv = Some true \/
                (sv_must_getter sv = None /\ opt_or (m_default_must_getter m) (k_default_must E) = true)))).
Proof.
  unfold getter_of.
  destruct (sv_getter sv) as [[|c g]|]; destruct (sv_must_getter sv) as [[|]|]; cbn [opt_or];
    (split; [reflexivity|split]);
    try (intros [[H|H] H']; discriminate);
    try (intros _; unfold leaf; discriminate);
    try (intros H; exfalso; apply H; auto; fail);
    intros _; (split; [reflexivity|]);
    try (split; [discriminate|intros [H _]; congruence]);
    try (split; [intros _; split; [discriminate|auto] | reflexivity]);
    try (split; [discriminate | intros [_ [H|[H _]]]; discriminate]).
  (* getter given, must_getter unset: the default decides *)
  split.
  - intros H. split; [discriminate|]. right. auto.
  - intros [_ [H|[_ H]]]; [discriminate|exact H].
Qed.

Lemma getter_of_getter sv m : fst (fst (getter_of E sv m)) = opt_or (sv_getter sv) [].
Proof.
  pose proof (getter_truth_table sv m) as H.
  destruct (getter_of E sv m) as [[g mg] e]. exact (proj1 H).
Qed.

(** a must-getter is never generated without a getter *)
Corollary getter_of_must_needs_getter sv m :
  snd (getter_of E sv m) = None -> snd (fst (getter_of E sv m)) = true -> fst (fst (getter_of E sv m)) <> [].
Proof.
  pose proof (getter_truth_table sv m) as H.
  destruct (getter_of E sv m) as [[g mg] e]. cbn [fst snd]. destruct H as (_ & H1 & H2).
  intros -> Hmg.
  assert (Hn : ~ ((sv_getter sv = None \/ sv_getter sv = Some []) /\ sv_must_getter sv = Some true)).
  { intros H. exact (H1 H eq_refl). }
  destruct (H2 Hn) as (_ & H3). apply H3 in Hmg. exact (proj1 Hmg).
Qed.

(** * 5. Package / type / constructor names *)
Theorem step_meta_names i o c :
  let o' := fst (fst (step_meta E i o c)) in
  om_pkg (o_meta o') = opt_or (m_pkg (i_meta i)) (k_default_pkg E) /\
  om_type (o_meta o') = opt_or (m_container_type (i_meta i)) (k_default_type E) /\
  om_ctor (o_meta o') = opt_or (m_container_constructor (i_meta i)) (k_default_ctor E) /\
  o_params o' = o_params o /\ o_services o' = o_services o /\ o_decorators o' = o_decorators o.
Proof.
  cbv zeta. unfold step_meta.
  destruct (register_imports _ _) as [es is1]. cbn [fst o_meta om_pkg om_type om_ctor o_params o_services o_decorators].
  repeat split.
Qed.

End WithEnv.

(** * 3. Stub parity (C17) *)

Lemma map_flat_map {A B C} (f : B -> C) (g : A -> list B) l :
  map f (flat_map g l) = flat_map (fun x => map f (g x)) l.
Proof. induction l as [|x l IH]; [reflexivity|]. cbn [flat_map]. rewrite map_app, IH. reflexivity. Qed.

Lemma flat_map_ext' {A B} (f g : A -> list B) l : (forall x, f x = g x) -> flat_map f l = flat_map g l.
Proof. intros H. induction l as [|x l IH]; [reflexivity|]. cbn [flat_map]. rewrite H, IH. reflexivity. Qed.

Lemma all_getter_methods_names stub n o :
  map mt_name (all_getter_methods stub n o) =
  flat_map (fun sv => gen_names (os_getter sv) (os_must_getter sv)) (o_services o).
Proof.
  unfold all_getter_methods. rewrite map_flat_map. apply flat_map_ext'. intros sv. apply getter_methods_gen_names.
Qed.

Lemma all_getter_methods_signatures stub n o :
  map method_sig (all_getter_methods stub n o) =
  map (fun sg => (sg_name sg, print_params (n_context n) sg, print_results stub sg)) (flat_map sigs_of (o_services o)).
Proof.
  unfold all_getter_methods. rewrite !map_flat_map. apply flat_map_ext'. intros sv. apply getter_methods_signatures.
Qed.

Lemma map_method_sig_name l : map mt_name l = map (fun x => fst (fst x)) (map method_sig l).
Proof. rewrite map_map. reflexivity. Qed.
Lemma map_method_sig_params l : map mt_params l = map (fun x => snd (fst x)) (map method_sig l).
Proof. rewrite map_map. reflexivity. Qed.
Lemma map_method_sig_results l : map mt_results l = map (fun x => snd x) (map method_sig l).
Proof. rewrite map_map. reflexivity. Qed.

(** erasing the result names of the non-stub form gives the stub form *)
Definition erase_names (x : str) : str :=
  if has_prefix (s "(result ") x && has_suffix (s ", err error)") x
  then s "(" ++ rev (drop_prefix (rev (s ", err error)")) (rev (drop_prefix (s "(result ") x))) ++ s ", error)"
  else x.

Lemma erase_names_spec T : erase_names (s "(result " ++ T ++ s ", err error)") = s "(" ++ T ++ s ", error)".
Proof.
  unfold erase_names.
  rewrite has_prefix_app.
  replace (has_suffix (s ", err error)") (s "(result " ++ T ++ s ", err error)")) with true.
  2:{ rewrite app_assoc. symmetry. apply has_suffix_app. }
  cbn [andb]. rewrite drop_prefix_app, rev_app_distr, drop_prefix_app, rev_involutive. reflexivity.
Qed.

Lemma print_results_erase sg :
  print_results true sg = if sg_fallible sg then erase_names (print_results false sg) else print_results false sg.
Proof. unfold print_results. destruct (sg_fallible sg); [|reflexivity]. rewrite erase_names_spec. reflexivity. Qed.

Lemma getter_methods_stub_bodies n ct sv :
  Forall (fun m => mt_body m = [s "panic(""stub"")"]) (getter_methods true n ct sv).
Proof.
  unfold getter_methods. destruct (os_getter sv) as [|c g]; [constructor|].
  destruct (os_must_getter sv); repeat constructor.
Qed.

Lemma all_getter_methods_stub_bodies n o :
  Forall (fun m => mt_body m = [s "panic(""stub"")"]) (all_getter_methods true n o).
Proof.
  unfold all_getter_methods. induction (o_services o) as [|sv l IH]; [constructor|].
  cbn [flat_map]. apply Forall_app. split; [apply getter_methods_stub_bodies|exact IH].
Qed.

(** the stub container and the real one declare the same methods with the same signatures *)
Theorem stub_parity (n n' : names) (o : output) :
  let ms := all_getter_methods true n o in
  let mf := all_getter_methods false n' o in
  let sgs := flat_map sigs_of (o_services o) in
  map mt_name ms = map mt_name mf /\
  (n_context n = n_context n' -> map mt_params ms = map mt_params mf) /\
  map mt_name ms = map sg_name sgs /\
  map mt_params ms = map (print_params (n_context n)) sgs /\
  map mt_params mf = map (print_params (n_context n')) sgs /\
  map mt_results ms = map (print_results true) sgs /\
  map mt_results mf = map (print_results false) sgs /\
  map mt_results ms =
    map (fun sg => if sg_fallible sg then erase_names (print_results false sg) else print_results false sg) sgs /\
  Forall (fun m => mt_body m = [s "panic(""stub"")"]) ms.
Proof.
  cbv zeta.
  assert (P : forall stub k, map mt_params (all_getter_methods stub k o) =
                             map (print_params (n_context k)) (flat_map sigs_of (o_services o))).
  { intros stub k. rewrite map_method_sig_params, all_getter_methods_signatures, map_map. reflexivity. }
  assert (R : forall stub k, map mt_results (all_getter_methods stub k o) =
                             map (print_results stub) (flat_map sigs_of (o_services o))).
  { intros stub k. rewrite map_method_sig_results, all_getter_methods_signatures, map_map. reflexivity. }
  assert (N : forall stub k, map mt_name (all_getter_methods stub k o) = map sg_name (flat_map sigs_of (o_services o))).
  { intros stub k. rewrite map_method_sig_name, all_getter_methods_signatures, map_map. reflexivity. }
  repeat split.
  - rewrite !N. reflexivity.
  - intros H. rewrite !P, H. reflexivity.
  - apply N.
  - apply P.
  - apply P.
  - apply R.
  - apply R.
  - rewrite R. apply map_ext. intros sg. apply print_results_erase.
  - apply all_getter_methods_stub_bodies.
Qed.

(** [sig_of] (names and types only) is the common projection of both forms *)
(** the task's [sig_of]: (name, parameter types, result types), computed without stub flag and without any
    parameter/result names; both forms of [getter_methods] are printings of it *)
Definition sig_of (cx : str) (sv : oservice) : list (str * list str * list str) :=
  map (fun sg => (sg_name sg,
                  (if sg_ctx sg then [cx ++ s ".Context"] else []),
                  (if sg_fallible sg then [sg_type sg; s "error"] else [sg_type sg]))) (sigs_of sv).

Definition with_names (names_ types : list str) : list str :=
  map (fun nt => fst nt ++ s " " ++ snd nt) (combine names_ types).
Definition print_ptypes (l : list str) : str := join (s ", ") (with_names [s "ctx"] l).
Definition print_rtypes (stub : bool) (l : list str) : str :=
  match l with
  | [t] => t
  | _ => s "(" ++ join (s ", ") (if stub then l else with_names [s "result"; s "err"] l) ++ s ")"
  end.

Theorem getter_methods_sig_of (stub : bool) (n : names) (ct : str) (sv : oservice) :
  map method_sig (getter_methods stub n ct sv) =
  map (fun x => (fst (fst x), print_ptypes (snd (fst x)), print_rtypes stub (snd x))) (sig_of (n_context n) sv).
Proof.
  unfold getter_methods, sig_of, sigs_of.
  destruct (os_getter sv) as [|c g]; [reflexivity|].
  destruct (os_must_getter sv), stub;
    cbn [map app sg_name sg_ctx sg_fallible sg_type fst snd print_ptypes print_rtypes with_names combine join];
    unfold method_sig; cbn [mt_name mt_params mt_results];
    repeat rewrite <- app_assoc; reflexivity.
Qed.

Corollary sig_of_stub_independent n n' ct ct' sv :
  n_context n = n_context n' ->
  exists sg, sg = sig_of (n_context n) sv /\
    map method_sig (getter_methods true n ct sv) =
      map (fun x => (fst (fst x), print_ptypes (snd (fst x)), print_rtypes true (snd x))) sg /\
    map method_sig (getter_methods false n' ct' sv) =
      map (fun x => (fst (fst x), print_ptypes (snd (fst x)), print_rtypes false (snd x))) sg.
Proof.
  intros H. eexists. split; [reflexivity|]. split; [apply getter_methods_sig_of|].
  rewrite H. apply getter_methods_sig_of.
Qed.

(** the constructor: same name, same container type; the stub only panics *)
Theorem constructor_decl_stub n o :
  constructor_decl true n o =
  [ s "func " ++ om_ctor (o_meta o) ++ s "() ( *" ++ om_type (o_meta o) ++ s ") {"; s "panic(""stub"")"; s "}"; [] ].
Proof. reflexivity. Qed.

Theorem constructor_decl_real n o :
  exists body,
    constructor_decl false n o =
    [ s "func " ++ om_ctor (o_meta o) ++ s "() (rootGontainer *" ++ om_type (o_meta o) ++ s ") {" ] ++ body ++ [ s "}"; [] ].
Proof. eexists. reflexivity. Qed.

(** build constraints *)
Definition BUILD1 : str := s "//go:build gontainerstub".
Definition BUILD2 : str := s "// +build gontainerstub".
Definition GENERATED : str := s "// Code generated by https://github.com/gontainer/gontainer; DO NOT EDIT.".

Theorem head_lines_stub bi o i :
  exists rest, head_lines true bi o i = BUILD1 :: BUILD2 :: [] :: GENERATED :: rest.
Proof. eexists. reflexivity. Qed.

Theorem head_lines_real_first bi o i : hd_error (head_lines false bi o i) = Some GENERATED.
Proof. reflexivity. Qed.

Lemma import_line_last (a p : str) : exists x, a ++ s " """ ++ p ++ s """" = x ++ [""""%char].
Proof. exists (a ++ s " """ ++ p). rewrite <- !app_assoc. reflexivity. Qed.

Lemma not_import_line (l a p x : str) (c : ascii) :
  l = x ++ [c] -> c <> """"%char -> l <> a ++ s " """ ++ p ++ s """".
Proof.
  intros -> Hc H. destruct (import_line_last a p) as [y Hy]. rewrite Hy in H.
  apply app_inj_tail in H. destruct H as [_ H]. exact (Hc H).
Qed.

(** no line of the real head is a build constraint (unconditionally: an import line ends with a double quote,
    the package line starts with "p", the version line differs at its third/fourth byte) *)
Theorem head_lines_real_no_build_constraint bi o i :
  ~ In BUILD1 (head_lines false bi o i) /\ ~ In BUILD2 (head_lines false bi o i).
Proof.
  unfold head_lines. cbn [app].
  split; intros H; cbn [In] in H; rewrite in_app_iff, in_map_iff in H; cbn [In] in H;
    repeat (destruct H as [H|H]; [try discriminate H|]).
  - destruct H as [kv [H _]]. symmetry in H. revert H.
    apply (not_import_line _ _ _ (s "//go:build gontainerstu") "b"%char); [reflexivity|discriminate].
  - exact H.
  - destruct H as [kv [H _]]. symmetry in H. revert H.
    apply (not_import_line _ _ _ (s "// +build gontainerstu") "b"%char); [reflexivity|discriminate].
  - exact H.
Qed.

(** * 4. No collisions between generated method names (C13) *)

Definition nonempty (g : str) : bool := match g with [] => false | _ => true end.

(** the getter a service ends up with: none for a todo service *)
Definition eff_getter (kv : str * service) : str :=
  if opt_or (sv_todo (snd kv)) false then [] else opt_or (sv_getter (snd kv)) [].

Lemma In_dedup x l : In x (dedup l) <-> In x l.
Proof.
  induction l as [|y l IH]; cbn [dedup]; [tauto|].
  destruct (mem y l) eqn:M.
  - rewrite IH. cbn [In]. split; [auto|]. intros [<-|H]; [apply mem_In; exact M|exact H].
  - cbn [In]. rewrite IH. tauto.
Qed.

Lemma owners_of_cons g a b l :
  owners_of g ((a, b) :: l) = if str_eqb a g then b :: owners_of g l else owners_of g l.
Proof. unfold owners_of. cbn [filter fst]. destruct (str_eqb a g); reflexivity. Qed.

Lemma owners_of_In g (l : list (str * str)) : In g (map fst l) -> (1 <= length (owners_of g l))%nat.
Proof.
  induction l as [|[a b] l IH]; cbn [map In fst]; [tauto|].
  rewrite owners_of_cons. intros [->|H].
  - rewrite str_eqb_refl. cbn [length]. lia.
  - destruct (str_eqb a g); cbn [length]; [lia|auto].
Qed.

Lemma owners_unique_NoDup (l : list (str * str)) :
  (forall g, In g (map fst l) -> (length (owners_of g l) <= 1)%nat) -> NoDup (map fst l).
Proof.
  induction l as [|[a b] l IH]; intros H; cbn [map fst]; constructor.
  - intros Hin. specialize (H a (or_introl eq_refl)).
    rewrite owners_of_cons, str_eqb_refl in H. cbn [length] in H.
    pose proof (owners_of_In a l Hin). lia.
  - apply IH. intros g Hg. specialize (H g (or_intror Hg)).
    rewrite owners_of_cons in H. destruct (str_eqb a g); cbn [length] in H; lia.
Qed.

Lemma v_unique_getters_NoDup i :
  (forall e, In e (v_unique_getters i) -> e = None) -> NoDup (map fst (getter_owners i)).
Proof.
  intros H. apply owners_unique_NoDup. intros g Hg.
  unfold v_unique_getters in H.
  specialize (H (if Nat.ltb 1 (length (owners_of g (getter_owners i)))
                 then leaf (s "getter " ++ quote g ++ s " is defined by more than one service: " ++
                            join (s ", ") (owners_of g (getter_owners i)))
                 else None)).
  destruct (Nat.ltb 1 (length (owners_of g (getter_owners i)))) eqn:L.
  - exfalso. assert (K : leaf (s "getter " ++ quote g ++ s " is defined by more than one service: " ++
                            join (s ", ") (owners_of g (getter_owners i))) = None); [|discriminate K].
    apply H. apply in_map_iff. exists g. rewrite L. split; [reflexivity|].
    apply In_sort_strs, In_dedup. exact Hg.
  - apply Nat.ltb_ge in L. exact L.
Qed.

Lemma getter_owners_eff (l : list (str * service)) :
  map fst (flat_map (fun kv : str * service =>
                       if opt_or (sv_todo (snd kv)) false then []
                       else match sv_getter (snd kv) with
                            | Some (c :: g) => [(c :: g, quote (fst kv))]
                            | _ => []
                            end) l)
  = filter nonempty (map eff_getter l).
Proof.
  induction l as [|kv l IH]; [reflexivity|].
  cbn [flat_map map filter]. rewrite map_app, IH.
  pose proof (eq_refl (eff_getter kv)) as EG. unfold eff_getter at 2 in EG. revert EG.
  destruct (opt_or (sv_todo (snd kv)) false); [intros ->; reflexivity|].
  destruct (sv_getter (snd kv)) as [[|c g]|]; cbn [opt_or]; intros ->; reflexivity.
Qed.

Lemma sorted_entries_In {A} (m : list (str * A)) x : In x (sorted_entries m) <-> In x m.
Proof.
  unfold sorted_entries. split; apply Permutation_in; [|apply Permutation_sym]; apply sort_by_perm.
Qed.

Lemma In_two_split {A} (x y : A) l :
  In x l -> In y l -> x <> y ->
  exists l1 l2 l3, l = l1 ++ x :: l2 ++ y :: l3 \/ l = l1 ++ y :: l2 ++ x :: l3.
Proof.
  intros Hx Hy Hne. apply in_split in Hx. destruct Hx as (l1 & r & ->).
  apply in_app_or in Hy. destruct Hy as [Hy|[Hy|Hy]]; [|congruence|].
  - apply in_split in Hy. destruct Hy as (a & b & ->). exists a, b, r. right.
    rewrite <- app_assoc. reflexivity.
  - apply in_split in Hy. destruct Hy as (a & b & ->). exists l1, a, b. left. reflexivity.
Qed.

Lemma NoDup_two_split {A} (x : A) l1 l2 l3 : NoDup (l1 ++ x :: l2 ++ x :: l3) -> False.
Proof.
  intros H. apply NoDup_remove_2 in H. apply H. rewrite !in_app_iff. right. right. left. reflexivity.
Qed.

Section Validated.
Variable E : env.

Lemma v_service_getter n sv : v_service E n sv = None -> opt_or (sv_todo sv) false = false -> v_getter E sv = None.
Proof.
  unfold v_service. intros H T. rewrite T in H.
  apply (proj1 (gprefix_none _ _) H). cbn [In]. auto.
Qed.

(** what [v_getter] enforces *)
Lemma v_getter_none sv g :
  v_getter E sv = None -> sv_getter sv = Some g ->
  mem g (k_reserved_getters E) = false /\ has_prefix (s "Must") g = false /\ has_suffix (s "InContext") g = false /\
  site_match (re_in_ServiceGetter E) g = true.
Proof.
  unfold v_getter. intros H G. rewrite G in H.
  destruct (mem g (k_reserved_getters E)); [discriminate H|].
  split; [reflexivity|].
  pose proof (proj1 (gprefix_none _ _) H) as K. clear H.
  split; [|split].
  - destruct (has_prefix (s "Must") g); [|reflexivity].
    specialize (K _ (or_introl eq_refl)). discriminate K.
  - destruct (has_suffix (s "InContext") g); [|reflexivity].
    specialize (K _ (or_intror (or_introl eq_refl))). discriminate K.
  - specialize (K _ (or_intror (or_intror (or_introl eq_refl)))). unfold regex_field in K.
    destruct (site_match (re_in_ServiceGetter E) g); [reflexivity|discriminate K].
Qed.

(** ** what passing validators guarantee of the getters *)
Theorem validated_getters i :
  v_services E i = None ->
  NoDup (filter nonempty (map eff_getter (sorted_entries (i_services i)))) /\
  (forall n sv g, In (n, sv) (i_services i) -> opt_or (sv_todo sv) false = false -> sv_getter sv = Some g ->
     ~ In g (k_reserved_getters E) /\ has_prefix (s "Must") g = false /\ has_suffix (s "InContext") g = false /\
     site_match (re_in_ServiceGetter E) g = true).
Proof.
  unfold v_services. intros H. pose proof (proj1 (gprefix_none _ _) H) as K. clear H. split.
  - rewrite <- getter_owners_eff. apply v_unique_getters_NoDup.
    intros e He. apply K. apply in_or_app. right. exact He.
  - intros n sv g Hin T G.
    assert (V : v_service E n sv = None).
    { apply K. apply in_or_app. left. apply in_map_iff. exists (n, sv). split; [reflexivity|].
      apply sorted_entries_In. exact Hin. }
    destruct (v_getter_none sv g (v_service_getter n sv V T) G) as (R & P & S & M).
    repeat split; try assumption.
    intros HR. apply mem_In in HR. congruence.
Qed.

(** pairwise form: two different non-todo services never share a (non-empty) getter *)
Corollary validated_getters_distinct i n1 sv1 n2 sv2 g :
  v_services E i = None ->
  In (n1, sv1) (i_services i) -> In (n2, sv2) (i_services i) -> (n1, sv1) <> (n2, sv2) ->
  opt_or (sv_todo sv1) false = false -> opt_or (sv_todo sv2) false = false ->
  sv_getter sv1 = Some g -> sv_getter sv2 = Some g -> g = [].
Proof.
  intros V I1 I2 Hne T1 T2 G1 G2.
  destruct (validated_getters i V) as [ND _].
  destruct g as [|c g]; [reflexivity|exfalso].
  apply (proj2 (sorted_entries_In _ _)) in I1. apply (proj2 (sorted_entries_In _ _)) in I2.
  assert (E1 : eff_getter (n1, sv1) = c :: g) by (unfold eff_getter; cbn [snd]; rewrite T1, G1; reflexivity).
  assert (E2 : eff_getter (n2, sv2) = c :: g) by (unfold eff_getter; cbn [snd]; rewrite T2, G2; reflexivity).
  destruct (In_two_split _ _ _ I1 I2 Hne) as (l1 & l2 & l3 & [L|L]); rewrite L in ND;
    rewrite !map_app in ND; cbn [map] in ND; rewrite !map_app in ND; cbn [map] in ND;
    rewrite E1, E2 in ND;
    rewrite !filter_app in ND; cbn [filter nonempty] in ND; rewrite !filter_app in ND; cbn [filter nonempty] in ND;
    exact (NoDup_two_split _ _ _ _ ND).
Qed.

(** ** the compiled services carry exactly these getters *)
Lemma process_service_getter k v m c :
  os_getter (fst (fst (process_service E k v m c))) = eff_getter (k, v) /\
  os_must_getter (fst (fst (process_service E k v m c))) =
    (if opt_or (sv_todo v) false then false else snd (fst (getter_of E v m))).
Proof.
  unfold process_service, eff_getter. cbn [snd].
  destruct (opt_or (sv_todo v) false); [split; reflexivity|].
  destruct (compile_fields E _ c) as [[fields ferrs] c1].
  destruct (resolve_args E _ c1) as [[args aerr] c2].
  destruct (compile_calls E _ _ c2) as [[calls cerrs] c3].
  pose proof (getter_of_getter E v m) as HG.
  destruct (getter_of E v m) as [[g mg] ge]. cbn [fst snd] in HG.
  destruct (service_type E _ _) as [ty i4].
  destruct (sv_value v) as [va|].
  - destruct (compile_service_value E i4 va) as [va' i5].
    destruct (service_constructor E _ i5) as [co i6]. cbn [fst snd os_getter os_must_getter]. auto.
  - destruct (service_constructor E _ i4) as [co i6]. cbn [fst snd os_getter os_must_getter]. auto.
Qed.

Lemma compile_services_getters l m : forall c,
  map os_getter (fst (fst (compile_services E l m c))) = map eff_getter l.
Proof.
  induction l as [|[k v] l IH]; intros c; [reflexivity|].
  cbn [compile_services].
  pose proof (process_service_getter k v m c) as [HG _].
  destruct (process_service E k v m c) as [[sv e] c1]. cbn [fst] in HG.
  specialize (IH c1). destruct (compile_services E l m c1) as [[svs es] c2]. cbn [fst] in IH.
  cbn [fst map]. rewrite IH. f_equal. exact HG.
Qed.

(** general list lemma: distinct good getters generate pairwise distinct names *)
Lemma In_gen_names x g mg : In x (gen_names g mg) -> g <> [] /\ exists p q, x = nm p q g.
Proof.
  unfold gen_names. destruct g as [|c g]; [intros []|].
  intros H. split; [discriminate|]. apply In_four_names.
  unfold four_names. destruct mg; cbn [app In] in *; tauto.
Qed.

Lemma gen_names_NoDup g mg : good_getter g -> NoDup (gen_names g mg).
Proof.
  intros G. unfold gen_names. destruct g as [|c g]; [constructor|].
  pose proof (four_names_NoDup _ G) as H. destruct mg; [exact H|].
  unfold four_names in H. cbn [app].
  inversion H as [|? ? H1 H2]; subst. inversion H2 as [|? ? H3 H4]; subst.
  constructor.
  - cbn [In] in *. tauto.
  - constructor; [intros []|constructor].
Qed.

Lemma flat_gen_names_NoDup (l : list oservice) :
  NoDup (filter nonempty (map os_getter l)) ->
  (forall sv, In sv l -> os_getter sv <> [] -> good_getter (os_getter sv)) ->
  NoDup (flat_map (fun sv => gen_names (os_getter sv) (os_must_getter sv)) l).
Proof.
  induction l as [|sv l IH]; intros ND G; [constructor|].
  cbn [flat_map map filter] in *.
  destruct (os_getter sv) as [|c g] eqn:Hg.
  - cbn [nonempty gen_names app] in *. apply IH; [exact ND|]. intros sv' H. apply G. right. exact H.
  - cbn [nonempty] in ND. inversion ND as [|? ? Hn ND']; subst.
    assert (Gsv : good_getter (c :: g)).
    { rewrite <- Hg. apply G; [left; reflexivity|]. rewrite Hg. discriminate. }
    apply NoDup_app_intro.
    + apply gen_names_NoDup. exact Gsv.
    + apply IH; [exact ND'|]. intros sv' H. apply G. right. exact H.
    + intros x H1 H2. apply In_gen_names in H1. destruct H1 as (_ & p & q & ->).
      apply in_flat_map in H2. destruct H2 as (sv' & Hin & H2).
      apply In_gen_names in H2. destruct H2 as (Hne & p' & q' & H2).
      apply nm_inj in H2; [|exact Gsv|apply G; [right; exact Hin|exact Hne]].
      destruct H2 as (_ & _ & H2). apply Hn. apply filter_In. split.
      * apply in_map_iff. exists sv'. split; [symmetry; exact H2|exact Hin].
      * reflexivity.
Qed.

(** ** end to end: validated input => all generated getter methods have distinct names *)
Theorem generated_method_names_NoDup i m c stub n o :
  v_services E i = None ->
  o_services o = fst (fst (compile_services E (sorted_entries (i_services i)) m c)) ->
  NoDup (map mt_name (all_getter_methods stub n o)).
Proof.
  intros V Ho. rewrite all_getter_methods_names, Ho.
  destruct (validated_getters i V) as [ND GOOD].
  pose proof (compile_services_getters (sorted_entries (i_services i)) m c) as HG.
  apply flat_gen_names_NoDup.
  - rewrite HG. exact ND.
  - intros sv Hin Hne.
    assert (Hin' : In (os_getter sv) (map eff_getter (sorted_entries (i_services i)))).
    { rewrite <- HG. apply in_map. exact Hin. }
    apply in_map_iff in Hin'. destruct Hin' as ([k v] & Hk & Hkv).
    apply (proj1 (sorted_entries_In _ _)) in Hkv. unfold eff_getter in Hk. cbn [snd] in Hk.
    destruct (opt_or (sv_todo v) false) eqn:T; [congruence|].
    destruct (sv_getter v) as [g|] eqn:Gv; cbn [opt_or] in Hk; [|congruence].
    destruct (GOOD k v g Hkv T Gv) as (_ & P & S & _). rewrite <- Hk. split; assumption.
Qed.

Corollary step_services_method_names_NoDup i o0 c stub n :
  v_services E i = None ->
  NoDup (map mt_name (all_getter_methods stub n (fst (fst (step_services E i o0 c))))).
Proof.
  intros V. apply (generated_method_names_NoDup i (i_meta i) c); [exact V|].
  unfold step_services. destruct (compile_services E _ _ c) as [[svs es] c1]. reflexivity.
Qed.

(** ** reserved names.  The validators only compare the getter itself with the reserved list; the derived names stay
    clear of it when the list is closed under removing "InContext" and contains no "Must..." name. *)
Definition stem (r : str) : str := rev (drop_prefix (rev INCTX) (rev r)).
Definition reserved_closedb (R : list str) : bool :=
  forallb (fun r => negb (has_prefix MUST r) && (if has_suffix INCTX r then mem (stem r) R else true)) R.

Lemma stem_app x : stem (x ++ INCTX) = x.
Proof. unfold stem. rewrite rev_app_distr, drop_prefix_app, rev_involutive. reflexivity. Qed.

Theorem generated_names_not_reserved R g p q :
  reserved_closedb R = true -> ~ In g R -> In (nm p q g) R -> False.
Proof.
  unfold reserved_closedb. rewrite forallb_forall. intros C Hg Hin.
  specialize (C _ Hin). apply andb_true_iff in C. destruct C as [C1 C2].
  destruct p, q; cbn [nm] in *.
  - rewrite has_prefix_app in C1. discriminate.
  - rewrite has_prefix_app in C1. discriminate.
  - rewrite has_suffix_app, stem_app in C2. apply mem_In in C2. exact (Hg C2).
  - exact (Hg Hin).
Qed.

End Validated.

Print Assumptions getter_truth_table.
Print Assumptions getter_methods_names.
Print Assumptions getter_methods_signatures.
Print Assumptions stub_parity.
Print Assumptions getter_methods_sig_of.
Print Assumptions head_lines_real_no_build_constraint.
Print Assumptions getter_names_NoDup.
Print Assumptions validated_getters.
Print Assumptions validated_getters_distinct.
Print Assumptions generated_method_names_NoDup.
Print Assumptions generated_names_not_reserved.
Print Assumptions step_meta_names.
