(** Properties of the straight-line pipeline: exit/write contract, flags only narrow diagnostics. *)
From GV Require Import Base.Str Base.Quote Base.Gerr Base.Sort Regex.Re Model.Env Model.Input Model.Merge Model.Imports
  Model.Token Model.Compile Model.Validate Model.OutVal Model.Runner Spec.Pipeline.

Section WithEnv.
Variable E : env.

Definition set_ignore (fl : flags) (fp fs : bool) : flags :=
  {| f_ignore_params := fp; f_ignore_services := fs; f_quiet := f_quiet fl; f_stub := f_stub fl |}.

(** ** exit status and the single write *)
Lemma pipeline_contract B fl w :
  let v := pipeline E B fl w in
  (vd_exit v = 0 /\ vd_wrote v = true /\ vd_errors v = [] /\ vd_stage v = StDone) \/
  (vd_exit v = 1 /\ vd_wrote v = false /\ vd_stage v <> StDone).
Proof.
  unfold pipeline.
  destruct (read_config E w (builtin_input E empty_input)) as [[i1 e_read] lines].
  destruct e_read as [g|]; [right; cbn; repeat split; discriminate|].
  destruct (compile E B i1) as [[o e_c] c].
  destruct e_c as [g|]; [right; cbn; repeat split; discriminate|].
  destruct (vo_error fl o) as [g|]; [right; cbn; repeat split; discriminate|].
  destruct (wd_build_err w) as [m|]; [right; cbn; repeat split; discriminate|].
  destruct (wd_write_err w) as [m|]; [right; cbn; repeat split; discriminate|].
  left. cbn. repeat split.
Qed.

(** the pipeline does not look at --quiet / --stub *)
Lemma pipeline_quiet_stub B fl fl' w :
  f_ignore_params fl = f_ignore_params fl' -> f_ignore_services fl = f_ignore_services fl' ->
  pipeline E B fl w = pipeline E B fl' w.
Proof.
  intros Hp Hs. unfold pipeline, vo_error. rewrite Hp, Hs. reflexivity.
Qed.

(** ** the ignore flags *)

(** diagnostics of the four rules of the output validation step *)
Definition d_scope (o : output) := collect (validate_scopes o).
Definition d_cycle (o : output) := collect (validate_circular o).
Definition d_params (o : output) := collect (validate_params_exist o).
Definition d_services (o : output) := collect (validate_services_exist o).

Lemma vo_error_collect fl o :
  collect (vo_error fl o) =
  d_scope o ++ d_cycle o ++ (if f_ignore_params fl then [] else d_params o) ++ (if f_ignore_services fl then [] else d_services o).
Proof.
  unfold vo_error. rewrite collect_gjoin. cbn [flat_map]. rewrite app_nil_r.
  unfold d_scope, d_cycle, d_params, d_services.
  destruct (f_ignore_params fl), (f_ignore_services fl); reflexivity.
Qed.

Lemma collect_nil_iff (e : err) : (forall g, e = Some g -> collection g <> []) -> (collect e = [] <-> e = None).
Proof.
  intros H. destruct e as [g|]; cbn; split; intros; try reflexivity; try discriminate.
  exfalso. apply (H g eq_refl). assumption.
Qed.

(** everything before the output validation is independent of the flags *)
Definition front (B : str) (w : world) : option (input * output * cst) :=
  let i0 := builtin_input E empty_input in
  let '((i1, e_read), _) := read_config E w i0 in
  match e_read with
  | Some _ => None
  | None => let '((o, e_c), c) := compile E B i1 in
            match e_c with Some _ => None | None => Some (i1, o, c) end
  end.

Lemma pipeline_front_fail B fl fl' w : front B w = None -> pipeline E B fl w = pipeline E B fl' w.
Proof.
  unfold front, pipeline.
  destruct (read_config E w (builtin_input E empty_input)) as [[i1 e_read] lines].
  destruct e_read as [g|]; [reflexivity|].
  destruct (compile E B i1) as [[o e_c] c].
  destruct e_c as [g|]; [reflexivity|discriminate].
Qed.

(** with a compiled output, the diagnostics are exactly those of the active rules *)
Lemma pipeline_validate B fl w i o c : front B w = Some (i, o, c) ->
  let v := pipeline E B fl w in
  vd_output v = o /\ vd_cst v = c /\
  match vo_error fl o with
  | Some g => vd_stage v = StValidate /\ vd_exit v = 1 /\
              vd_errors v = d_scope o ++ d_cycle o ++ (if f_ignore_params fl then [] else d_params o)
                                      ++ (if f_ignore_services fl then [] else d_services o)
  | None => vd_stage v <> StValidate /\ vd_stage v <> StRead /\ vd_stage v <> StCompile
  end.
Proof.
  unfold front, pipeline.
  destruct (read_config E w (builtin_input E empty_input)) as [[i1 e_read] lines].
  destruct e_read as [g|]; [discriminate|].
  destruct (compile E B i1) as [[o' e_c] c'].
  destruct e_c as [g|]; [discriminate|]. intros H; injection H as <- <- <-.
  pose proof (vo_error_collect fl o') as Hc.
  destruct (vo_error fl o') as [g|].
  - cbn. repeat split. exact Hc.
  - destruct (wd_build_err w); [|destruct (wd_write_err w)]; cbn; repeat split; discriminate.
Qed.

(** accepted without flags => accepted under every flag combination with the same compiled output and alias table *)
Lemma vo_error_mono fl o : vo_error (set_ignore fl false false) o = None -> vo_error fl o = None.
Proof.
  unfold vo_error, set_ignore. cbn. unfold gjoin. rewrite !gprefix_none. intros H e He.
  destruct (f_ignore_params fl), (f_ignore_services fl); cbn in He;
    repeat (destruct He as [<-|He]; [try reflexivity; apply H; cbn; tauto|]); contradiction.
Qed.

Theorem accepted_flag_invariant B fl w :
  vd_exit (pipeline E B (set_ignore fl false false) w) = 0 ->
  pipeline E B fl w = pipeline E B (set_ignore fl false false) w.
Proof.
  unfold pipeline.
  destruct (read_config E w (builtin_input E empty_input)) as [[i1 e_read] lines].
  destruct e_read as [g|]; [reflexivity|].
  destruct (compile E B i1) as [[o e_c] c].
  destruct e_c as [g|]; [reflexivity|].
  destruct (vo_error (set_ignore fl false false) o) as [g|] eqn:Hv; [cbn; discriminate|].
  rewrite (vo_error_mono fl o Hv). reflexivity.
Qed.

End WithEnv.
