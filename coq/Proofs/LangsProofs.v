(** Independent recognisers for the documented grammar of Regex/Langs.v.

    Every recogniser below is a plain structural recursion on the byte string (no regular-expression machinery); the
    theorems state that it coincides with the derivative matcher run on the corresponding spec expression, for strings
    of any length. *)
From GV Require Import Base.Str Regex.Re Proofs.RegexProofs Regex.Langs.
From Coq Require Import Lia.
Local Open Scope N_scope.
Local Open Scope char_scope.

(** * byte classes *)

Definition dq : ascii := """".                       (* the double quote, byte 34 *)
Definition nl : ascii := ascii_of_N 10.              (* newline *)

Definition is_underscore (c : ascii) : bool := Ascii.eqb c "_".
Definition is_ident (c : ascii) : bool := is_alnum c || is_underscore c.                       (* [A-Za-z0-9_] *)
Definition is_sep (c : ascii) : bool := Ascii.eqb c "." || Ascii.eqb c "-" || Ascii.eqb c "_". (* [._-] *)
Definition is_pathc (c : ascii) : bool := is_alnum c || is_sep c.                              (* [A-Za-z0-9._-] *)
Definition is_slash (c : ascii) : bool := Ascii.eqb c "/".
Definition is_ws (c : ascii) : bool :=                                                         (* \s of RE2: \t \n \f \r space *)
  N.eqb (code c) 9 || N.eqb (code c) 10 || N.eqb (code c) 12 || N.eqb (code c) 13 || N.eqb (code c) 32.
Definition is_nl (c : ascii) : bool := Ascii.eqb c nl.

(** * the recognisers *)

(** 1. Go identifier: a letter, then letters, digits, underscores *)
Definition is_go_token (x : str) : bool :=
  match x with
  | [] => false
  | c :: r => is_alpha c && forallb is_ident r
  end.

(** a sequence of groups, each group one byte of class [cl] optionally preceded by ONE byte of class [sep];
    [prev_sep] remembers that the previous byte was a separator (which therefore still waits for its [cl] byte) *)
Fixpoint sep_groups (cl sep : ascii -> bool) (prev_sep : bool) (x : str) : bool :=
  match x with
  | [] => negb prev_sep
  | c :: r =>
      if cl c then sep_groups cl sep false r
      else if sep c then negb prev_sep && sep_groups cl sep true r
      else false
  end.

(** 2. names: a letter, then alphanumerics each optionally preceded by a single '.', '-' or '_' *)
Definition is_yaml_token (x : str) : bool :=
  match x with
  | [] => false
  | c :: r => is_alpha c && sep_groups is_alnum is_sep false r
  end.

(** 3. import path: a letter, then bytes of [A-Za-z0-9._-] each optionally preceded by a single '/' *)
Definition is_base_import (x : str) : bool :=
  match x with
  | [] => false
  | c :: r => is_alpha c && sep_groups is_pathc is_slash false r
  end.

(** 4. import: path | "path" | "." *)
Definition is_quoted_import (x : str) : bool :=
  match x with
  | [] => false
  | q :: r =>
      Ascii.eqb q dq &&
      match rev r with
      | [] => false
      | q' :: y' => Ascii.eqb q' dq && is_base_import (rev y')
      end
  end.

Definition is_import (x : str) : bool :=
  is_base_import x || is_quoted_import x || str_eqb x [dq; "."; dq].

(** * byte classes of the spec expressions, by exhaustion of the 256 bytes *)

Ltac by_bytes :=
  let c := fresh "c" in intros c; destruct c as [[] [] [] [] [] [] [] []]; vm_compute; reflexivity.

Lemma m_alpha : forall c, cls_match [(65,90);(97,122)] c = is_alpha c.
Proof. by_bytes. Qed.
Lemma m_alnum : forall c, cls_match [(48,57);(65,90);(97,122)] c = is_alnum c.
Proof. by_bytes. Qed.
Lemma m_ident : forall c, cls_match [(48,57);(65,90);(95,95);(97,122)] c = is_ident c.
Proof. by_bytes. Qed.
Lemma m_pathc : forall c, cls_match [(45,46);(48,57);(65,90);(95,95);(97,122)] c = is_pathc c.
Proof. by_bytes. Qed.
Lemma m_sep : forall c, cls_match [(45,46);(95,95)] c = is_sep c.
Proof. by_bytes. Qed.
Lemma m_slash : forall c, cls_match [(47,47)] c = is_slash c.
Proof. by_bytes. Qed.
Lemma m_ws : forall c, cls_match [(9,10);(12,13);(32,32)] c = is_ws c.
Proof. by_bytes. Qed.
Lemma m_notnl : forall c, cls_match [(0,9);(11,255)] c = negb (is_nl c).
Proof. by_bytes. Qed.

Lemma alnum_sep_disj : forall c, is_alnum c && is_sep c = false.
Proof. by_bytes. Qed.
Lemma pathc_slash_disj : forall c, is_pathc c && is_slash c = false.
Proof. by_bytes. Qed.

Lemma alnum_not_sep : forall c, is_alnum c = true -> is_sep c = false.
Proof. intros c H; generalize (alnum_sep_disj c); rewrite H; exact (fun E => E). Qed.
Lemma pathc_not_slash : forall c, is_pathc c = true -> is_slash c = false.
Proof. intros c H; generalize (pathc_slash_disj c); rewrite H; exact (fun E => E). Qed.

Lemma alpha_alnum : forall c, is_alpha c = true -> is_alnum c = true.
Proof. intros c H; unfold is_alnum; rewrite H; reflexivity. Qed.

Lemma is_sep_iff : forall c, is_sep c = true <-> c = "." \/ c = "-" \/ c = "_".
Proof.
  intros c; unfold is_sep; rewrite !orb_true_iff, !Ascii.eqb_eq; tauto.
Qed.

(** * generic facts about [Sem] *)

Lemma dmatch_bool : forall r f, (forall x, Sem r x <-> f x = true) -> forall x, dmatch r x = f x.
Proof. intros r f H x; apply eq_true_iff_eq; rewrite dmatch_spec; apply H. Qed.

Lemma Sem_Cls_f : forall l f x, (forall c, cls_match l c = f c) ->
  (Sem (Cls l) x <-> exists c, x = [c] /\ f c = true).
Proof.
  intros l f x E; rewrite Sem_Cls; split; intros [c [-> H]]; exists c; (split; [reflexivity|]);
    [rewrite <- E | rewrite E]; exact H.
Qed.

Lemma Sem_Cat_Cls : forall l f r x, (forall c, cls_match l c = f c) ->
  (Sem (Cat (Cls l) r) x <-> exists c y, x = c :: y /\ f c = true /\ Sem r y).
Proof.
  intros l f r x E; rewrite Sem_Cat; split.
  - intros [y [z [-> [Hy Hz]]]]. apply (Sem_Cls_f l f y E) in Hy; destruct Hy as [c [-> Hc]].
    exists c, z; auto.
  - intros [c [y [-> [Hc Hy]]]]. exists [c], y; split; [reflexivity|]; split; [|exact Hy].
    apply (Sem_Cls_f l f [c] E); exists c; auto.
Qed.

Lemma Sem_Star_Cls : forall l f, (forall c, cls_match l c = f c) ->
  forall x, Sem (Star (Cls l)) x <-> forallb f x = true.
Proof.
  intros l f E; induction x as [|c x IH]; cbn [forallb].
  - split; [reflexivity | intros _; apply SStar0].
  - rewrite Sem_Star_cons, andb_true_iff, <- IH; split.
    + intros [y [z [-> [Hy Hz]]]]. apply (Sem_Cls_f l f (c :: y) E) in Hy; destruct Hy as [d [Ed Hd]].
      injection Ed as <- ->. auto.
    + intros [Hc Hx]. exists [], x; split; [reflexivity|]; split; [|exact Hx].
      apply (Sem_Cls_f l f [c] E); exists c; auto.
Qed.

(** single bytes *)
Lemma Sem_chr : forall d x, Sem (chr (code d)) x <-> x = [d].
Proof. intros d x; apply (Sem_Lit [d]). Qed.

Lemma Sem_Cat_chr : forall d r x, Sem (Cat (chr (code d)) r) x <-> exists y, x = d :: y /\ Sem r y.
Proof.
  intros d r x; rewrite Sem_Cat; split.
  - intros [y [z [-> [Hy Hz]]]]. apply Sem_chr in Hy; subst y. exists z; auto.
  - intros [y [-> Hy]]. exists [d], y; split; [reflexivity|]; split; [apply Sem_chr; reflexivity | exact Hy].
Qed.

Lemma Sem_Cat_chr_r : forall d r x, Sem (Cat r (chr (code d))) x <-> exists y, x = y ++ [d] /\ Sem r y.
Proof.
  intros d r x; rewrite Sem_Cat; split.
  - intros [y [z [-> [Hy Hz]]]]. apply Sem_chr in Hz; subst z. exists y; auto.
  - intros [y [-> Hy]]. exists y, [d]; split; [reflexivity|]; split; [exact Hy | apply Sem_chr; reflexivity].
Qed.

(** * groups with an optional separator *)

Lemma Sem_group_cons : forall ls lc cl sep c y,
  (forall c, cls_match lc c = cl c) -> (forall c, cls_match ls c = sep c) ->
  (Sem (Cat (Quest (Cls ls)) (Cls lc)) (c :: y) <->
   (y = [] /\ cl c = true) \/ (exists d, y = [d] /\ sep c = true /\ cl d = true)).
Proof.
  intros ls lc cl sep c y Ec Es; rewrite Sem_Cat_cons; split.
  - intros [[u [v [-> [Hu Hv]]]] | [_ Hv]].
    + right. apply Sem_Quest in Hu; destruct Hu as [Hu|Hu]; [|discriminate].
      apply (Sem_Cls_f ls sep _ Es) in Hu; destruct Hu as [d [Ed Hd]]. injection Ed as <- ->.
      apply (Sem_Cls_f lc cl _ Ec) in Hv; destruct Hv as [e [-> He]].
      exists e; auto.
    + left. apply (Sem_Cls_f lc cl _ Ec) in Hv; destruct Hv as [e [Ee He]]. injection Ee as <- ->. auto.
  - intros [[-> Hc] | [d [-> [Hc Hd]]]].
    + right; split.
      * apply Sem_Quest; right; reflexivity.
      * apply (Sem_Cls_f lc cl _ Ec); exists c; auto.
    + left; exists [], [d]; split; [reflexivity|]; split.
      * apply Sem_Quest; left. apply (Sem_Cls_f ls sep _ Es); exists c; auto.
      * apply (Sem_Cls_f lc cl _ Ec); exists d; auto.
Qed.

Lemma Sem_groups_aux : forall ls lc cl sep,
  (forall c, cls_match lc c = cl c) -> (forall c, cls_match ls c = sep c) ->
  (forall c, cl c = true -> sep c = false) ->
  forall x,
    (Sem (Star (Cat (Quest (Cls ls)) (Cls lc))) x <-> sep_groups cl sep false x = true) /\
    ((exists d z, x = d :: z /\ cl d = true /\ Sem (Star (Cat (Quest (Cls ls)) (Cls lc))) z) <->
     sep_groups cl sep true x = true).
Proof.
  intros ls lc cl sep Ec Es Hd.
  induction x as [|c x [IHa IHb]].
  - split; cbn [sep_groups negb].
    + split; [reflexivity | intros _; apply SStar0].
    + split; [intros [d [z [E _]]]; discriminate | discriminate].
  - assert (Ha : Sem (Star (Cat (Quest (Cls ls)) (Cls lc))) (c :: x) <->
                 (cl c = true /\ sep_groups cl sep false x = true) \/
                 (sep c = true /\ sep_groups cl sep true x = true)).
    { rewrite Sem_Star_cons; split.
      - intros [y [z [-> [Hy Hz]]]].
        apply (Sem_group_cons ls lc cl sep c y Ec Es) in Hy.
        destruct Hy as [[-> Hc] | [d [-> [Hc Hdd]]]].
        + left; split; [exact Hc | apply IHa; exact Hz].
        + right; split; [exact Hc | apply IHb; exists d, z; auto].
      - intros [[Hc Hx] | [Hc Hx]].
        + exists [], x; split; [reflexivity|]; split; [|apply IHa; exact Hx].
          apply (Sem_group_cons ls lc cl sep c [] Ec Es); left; auto.
        + apply IHb in Hx; destruct Hx as [d [z [-> [Hdd Hz]]]].
          exists [d], z; split; [reflexivity|]; split; [|exact Hz].
          apply (Sem_group_cons ls lc cl sep c [d] Ec Es); right; exists d; auto. }
    split.
    + rewrite Ha; cbn [sep_groups negb andb].
      destruct (cl c) eqn:Hc.
      * rewrite (Hd c Hc). split; [intros [[_ H]|[H _]]; [exact H | discriminate] | auto].
      * destruct (sep c); split; try discriminate; try (intros [[H _]|[H _]]; discriminate).
        -- intros [[H _]|[_ H]]; [discriminate | exact H].
        -- auto.
    + cbn [sep_groups negb andb]. split.
      * intros [d [z [E [Hdd Hz]]]]. injection E as <- <-. rewrite Hdd. apply IHa; exact Hz.
      * destruct (cl c) eqn:Hc.
        -- intros H; exists c, x; split; [reflexivity|]; split; [exact Hc | apply IHa; exact H].
        -- destruct (sep c); discriminate.
Qed.

Lemma Sem_groups : forall ls lc cl sep,
  (forall c, cls_match lc c = cl c) -> (forall c, cls_match ls c = sep c) ->
  (forall c, cl c = true -> sep c = false) ->
  forall x, Sem (Star (Cat (Quest (Cls ls)) (Cls lc))) x <-> sep_groups cl sep false x = true.
Proof. intros ls lc cl sep Ec Es Hd x; apply (Sem_groups_aux ls lc cl sep Ec Es Hd x). Qed.

Lemma sep_groups_chars : forall cl sep x p,
  sep_groups cl sep p x = true -> Forall (fun c => cl c = true \/ sep c = true) x.
Proof.
  intros cl sep; induction x as [|c x IH]; intros p H; [constructor|].
  cbn [sep_groups] in H. destruct (cl c) eqn:Hc.
  - constructor; [left; exact Hc | eapply IH; exact H].
  - destruct (sep c) eqn:Hs; [|discriminate].
    apply andb_true_iff in H; destruct H as [_ H].
    constructor; [right; exact Hs | eapply IH; exact H].
Qed.

(** * 1. go_token *)

Lemma go_token_sem : forall x, Sem go_token x <-> is_go_token x = true.
Proof.
  intros x; unfold go_token, cls_alpha, cls_ident.
  rewrite (Sem_Cat_Cls _ is_alpha _ _ m_alpha); split.
  - intros [c [y [-> [Hc Hy]]]]. apply (Sem_Star_Cls _ is_ident m_ident) in Hy.
    cbn [is_go_token]. rewrite Hc, Hy; reflexivity.
  - destruct x as [|c y]; cbn [is_go_token]; [discriminate|].
    intros H; apply andb_true_iff in H; destruct H as [Hc Hy].
    exists c, y; split; [reflexivity|]; split; [exact Hc|].
    apply (Sem_Star_Cls _ is_ident m_ident); exact Hy.
Qed.

Theorem go_token_spec : forall x, dmatch go_token x = is_go_token x.
Proof. apply dmatch_bool, go_token_sem. Qed.

(** * 2. yaml_token *)

Lemma yaml_token_sem : forall x, Sem yaml_token x <-> is_yaml_token x = true.
Proof.
  intros x; unfold yaml_token, cls_alpha, cls_alnum.
  rewrite (Sem_Cat_Cls _ is_alpha _ _ m_alpha); split.
  - intros [c [y [-> [Hc Hy]]]].
    apply (Sem_groups _ _ is_alnum is_sep m_alnum m_sep alnum_not_sep) in Hy.
    cbn [is_yaml_token]. rewrite Hc, Hy; reflexivity.
  - destruct x as [|c y]; cbn [is_yaml_token]; [discriminate|].
    intros H; apply andb_true_iff in H; destruct H as [Hc Hy].
    exists c, y; split; [reflexivity|]; split; [exact Hc|].
    apply (Sem_groups _ _ is_alnum is_sep m_alnum m_sep alnum_not_sep); exact Hy.
Qed.

Theorem yaml_token_spec : forall x, dmatch yaml_token x = is_yaml_token x.
Proof. apply dmatch_bool, yaml_token_sem. Qed.

(** * 3. base_import *)

Lemma base_import_sem : forall x, Sem base_import x <-> is_base_import x = true.
Proof.
  intros x; unfold base_import, cls_alpha, cls_import, chr.
  rewrite (Sem_Cat_Cls _ is_alpha _ _ m_alpha); split.
  - intros [c [y [-> [Hc Hy]]]].
    apply (Sem_groups _ _ is_pathc is_slash m_pathc m_slash pathc_not_slash) in Hy.
    cbn [is_base_import]. rewrite Hc, Hy; reflexivity.
  - destruct x as [|c y]; cbn [is_base_import]; [discriminate|].
    intros H; apply andb_true_iff in H; destruct H as [Hc Hy].
    exists c, y; split; [reflexivity|]; split; [exact Hc|].
    apply (Sem_groups _ _ is_pathc is_slash m_pathc m_slash pathc_not_slash); exact Hy.
Qed.

Theorem base_import_spec : forall x, dmatch base_import x = is_base_import x.
Proof. apply dmatch_bool, base_import_sem. Qed.

(** * 4. import *)

Lemma is_quoted_import_iff : forall x,
  is_quoted_import x = true <-> exists y, x = dq :: y ++ [dq] /\ is_base_import y = true.
Proof.
  intros x; split.
  - destruct x as [|q r]; cbn [is_quoted_import]; [discriminate|].
    intros H; apply andb_true_iff in H; destruct H as [Hq H].
    apply Ascii.eqb_eq in Hq; subst q.
    destruct (rev r) as [|q' y'] eqn:Er; [discriminate|].
    apply andb_true_iff in H; destruct H as [Hq' Hy].
    apply Ascii.eqb_eq in Hq'; subst q'.
    exists (rev y'); split; [|exact Hy].
    rewrite <- (rev_involutive r), Er; reflexivity.
  - intros [y [-> Hy]]. cbn [is_quoted_import].
    rewrite rev_app_distr; cbn [rev app]. rewrite !Ascii.eqb_refl, rev_involutive, Hy; reflexivity.
Qed.

Lemma is_import_iff : forall x,
  is_import x = true <->
  is_base_import x = true \/ (exists y, x = dq :: y ++ [dq] /\ is_base_import y = true) \/ x = [dq; "."; dq].
Proof.
  intros x; unfold is_import. rewrite !orb_true_iff, is_quoted_import_iff, str_eqb_eq; tauto.
Qed.

Lemma import_sem : forall x, Sem import x <-> is_import x = true.
Proof.
  intros x; rewrite is_import_iff; unfold import.
  change (chr 34) with (chr (code dq)).
  rewrite !Sem_Alt, Sem_Lit, Sem_Cat_chr, base_import_sem.
  change (bs [34; 46; 34]) with [dq; "."; dq].
  split; (intros [H | [H | H]]; [left; exact H | right; left | right; right; exact H]).
  - destruct H as [y [-> H]]. apply Sem_Cat_chr_r in H; destruct H as [z [-> H]].
    exists z; split; [reflexivity | apply base_import_sem; exact H].
  - destruct H as [y [-> H]]. exists (y ++ [dq]); split; [reflexivity|].
    apply Sem_Cat_chr_r; exists y; split; [reflexivity | apply base_import_sem; exact H].
Qed.

Theorem import_spec : forall x, dmatch import x = is_import x.
Proof. apply dmatch_bool, import_sem. Qed.

(** * 5. go_func : [import.]Func *)

Lemma Sem_opt_import_dot : forall r x,
  Sem (Cat (Quest (Cat import (chr 46))) r) x <->
  Sem r x \/ exists i f, x = i ++ "." :: f /\ is_import i = true /\ Sem r f.
Proof.
  intros r x. change (chr 46) with (chr (code ".")). rewrite Sem_Cat; split.
  - intros [y [z [-> [Hy Hz]]]]. apply Sem_Quest in Hy; destruct Hy as [Hy | ->]; [right | left; exact Hz].
    apply Sem_Cat_chr_r in Hy; destruct Hy as [i [-> Hi]].
    exists i, z; split; [rewrite <- app_assoc; reflexivity|]; split; [apply import_sem; exact Hi | exact Hz].
  - intros [H | [i [f [-> [Hi Hf]]]]].
    + exists [], x; split; [reflexivity|]; split; [apply Sem_Quest; right; reflexivity | exact H].
    + exists (i ++ ["."]), f; split; [rewrite <- app_assoc; reflexivity|]; split; [|exact Hf].
      apply Sem_Quest; left. apply Sem_Cat_chr_r; exists i; split; [reflexivity | apply import_sem; exact Hi].
Qed.

Theorem go_func_spec : forall x,
  dmatch go_func x = true <->
  is_go_token x = true \/ exists i f, x = i ++ "." :: f /\ is_import i = true /\ is_go_token f = true.
Proof.
  intros x; rewrite dmatch_spec; unfold go_func; rewrite Sem_opt_import_dot, go_token_sem.
  split; (intros [H | [i [f [E [Hi Hf]]]]]; [left; exact H | right; exists i, f; split; [exact E|]; split; [exact Hi|]]);
    apply go_token_sem; exact Hf.
Qed.

(** the same for [*][import.]Type *)
Theorem service_type_spec : forall x,
  dmatch service_type x = true <->
  exists y, (x = y \/ x = "*" :: y) /\
    (is_go_token y = true \/ exists i f, y = i ++ "." :: f /\ is_import i = true /\ is_go_token f = true).
Proof.
  intros x; rewrite dmatch_spec; unfold service_type.
  change (chr 42) with (chr (code "*")).
  rewrite Sem_Cat; split.
  - intros [u [y [-> [Hu Hy]]]]. exists y; split.
    + apply Sem_Quest in Hu; destruct Hu as [Hu | ->]; [apply Sem_chr in Hu; subst u; right | left]; reflexivity.
    + apply (dmatch_spec go_func), go_func_spec in Hy; exact Hy.
  - intros [y [E Hy]]. apply go_func_spec, dmatch_spec in Hy.
    destruct E as [-> | ->].
    + exists [], y; split; [reflexivity|]; split; [apply Sem_Quest; right; reflexivity | exact Hy].
    + exists ["*"], y; split; [reflexivity|]; split; [apply Sem_Quest; left; apply Sem_chr; reflexivity | exact Hy].
Qed.

(** * 6. prefix forms *)

Theorem prefix_service_spec : forall x, dmatch_prefix prefix_service x = true <-> exists r, x = "@" :: r.
Proof.
  intros x; rewrite dmatch_prefix_spec; unfold prefix_service. change (chr 64) with (chr (code "@")). split.
  - intros [p [q [-> Hp]]]. apply Sem_chr in Hp; subst p. exists q; reflexivity.
  - intros [r ->]. exists ["@"], r; split; [reflexivity | apply Sem_chr; reflexivity].
Qed.

Theorem arg_service_spec : forall x,
  dmatch arg_service x = true <-> exists n, x = "@" :: n /\ is_yaml_token n = true.
Proof.
  intros x; rewrite dmatch_spec; unfold arg_service, prefix_service. change (chr 64) with (chr (code "@")).
  rewrite Sem_Cat_chr. split; intros [n [E H]]; exists n; (split; [exact E | apply yaml_token_sem; exact H]).
Qed.

Lemma prefix_word_spec : forall w x,
  dmatch_prefix (Cat (Lit w) (Plus ws)) x = true <-> exists c r, x = w ++ c :: r /\ is_ws c = true.
Proof.
  intros w x; rewrite dmatch_prefix_spec; split.
  - intros [p [q [-> Hp]]]. apply Sem_Cat in Hp; destruct Hp as [u [v [-> [Hu Hv]]]].
    apply Sem_Lit in Hu; subst u.
    apply Sem_Plus in Hv; destruct Hv as [y [z [-> [Hy _]]]].
    apply (Sem_Cls_f _ is_ws _ m_ws) in Hy; destruct Hy as [c [-> Hc]].
    exists c, (z ++ q); split; [|exact Hc].
    rewrite <- !app_assoc; reflexivity.
  - intros [c [r [-> Hc]]]. exists (w ++ [c]), r; split; [rewrite <- app_assoc; reflexivity|].
    apply Sem_Cat; exists w, [c]; split; [reflexivity|]; split; [apply Sem_Lit; reflexivity|].
    apply Sem_Plus; exists [c], []; split; [reflexivity|]; split; [|apply SStar0].
    apply (Sem_Cls_f _ is_ws _ m_ws); exists c; auto.
Qed.

Theorem prefix_tagged_spec : forall x,
  dmatch_prefix prefix_tagged x = true <-> exists w r, x = s "!tagged" ++ w :: r /\ is_ws w = true.
Proof. intros x; apply prefix_word_spec. Qed.

Theorem prefix_value_spec : forall x,
  dmatch_prefix prefix_value x = true <-> exists w r, x = s "!value" ++ w :: r /\ is_ws w = true.
Proof. intros x; apply prefix_word_spec. Qed.

(** the anchored argument forms built on the prefixes *)
Theorem arg_tagged_spec : forall x,
  dmatch arg_tagged x = true <->
  exists sp n, x = s "!tagged" ++ sp ++ n /\ sp <> [] /\ forallb is_ws sp = true /\ is_yaml_token n = true.
Proof.
  intros x; rewrite dmatch_spec; unfold arg_tagged, prefix_tagged; split.
  - intros H. apply Sem_Cat in H; destruct H as [p [n [-> [Hp Hn]]]].
    apply Sem_Cat in Hp; destruct Hp as [u [v [-> [Hu Hv]]]]. apply Sem_Lit in Hu; subst u.
    apply Sem_Plus in Hv; destruct Hv as [y [z [-> [Hy Hz]]]].
    apply (Sem_Cls_f _ is_ws _ m_ws) in Hy; destruct Hy as [c [-> Hc]].
    apply (Sem_Star_Cls _ is_ws m_ws) in Hz.
    exists (c :: z), n; split; [rewrite <- app_assoc; reflexivity|]; split; [discriminate|]; split.
    + cbn [forallb]; rewrite Hc, Hz; reflexivity.
    + apply yaml_token_sem; exact Hn.
  - intros [sp [n [-> [Hne [Hsp Hn]]]]]. destruct sp as [|c z]; [congruence|].
    cbn [forallb] in Hsp; apply andb_true_iff in Hsp; destruct Hsp as [Hc Hz].
    rewrite app_assoc. apply SCat; [|apply yaml_token_sem; exact Hn].
    apply SCat; [apply Sem_Lit; reflexivity|].
    apply Sem_Plus; exists [c], z; split; [reflexivity|]; split.
    + apply (Sem_Cls_f _ is_ws _ m_ws); exists c; auto.
    + apply (Sem_Star_Cls _ is_ws m_ws); exact Hz.
Qed.

Theorem decorator_tag_spec : forall x,
  dmatch decorator_tag x = true <-> x = ["*"] \/ is_yaml_token x = true.
Proof.
  intros x; rewrite dmatch_spec; unfold decorator_tag. change (chr 42) with (chr (code "*")).
  rewrite Sem_Alt, Sem_chr, yaml_token_sem; reflexivity.
Qed.

(** * 7. disjointness and alphabets *)

Lemma bool_false_of_not : forall b : bool, (b = true -> False) -> b = false.
Proof. intros [|] H; [exfalso; apply H; reflexivity | reflexivity]. Qed.

Theorem service_not_tagged : forall x,
  dmatch_prefix prefix_service x = true -> dmatch_prefix prefix_tagged x = false.
Proof.
  intros x H; apply bool_false_of_not; intros H'.
  apply prefix_service_spec in H; destruct H as [r ->].
  apply prefix_tagged_spec in H'; destruct H' as [w [r' [E _]]].
  unfold s in E; cbn [list_ascii_of_string app] in E; discriminate E.
Qed.

Theorem service_not_value : forall x,
  dmatch_prefix prefix_service x = true -> dmatch_prefix prefix_value x = false.
Proof.
  intros x H; apply bool_false_of_not; intros H'.
  apply prefix_service_spec in H; destruct H as [r ->].
  apply prefix_value_spec in H'; destruct H' as [w [r' [E _]]].
  unfold s in E; cbn [list_ascii_of_string app] in E; discriminate E.
Qed.

Theorem tagged_not_value : forall x,
  dmatch_prefix prefix_tagged x = true -> dmatch_prefix prefix_value x = false.
Proof.
  intros x H; apply bool_false_of_not; intros H'.
  apply prefix_tagged_spec in H; destruct H as [w [r [-> _]]].
  apply prefix_value_spec in H'; destruct H' as [w' [r' [E _]]].
  unfold s in E; cbn [list_ascii_of_string app] in E; discriminate E.
Qed.

Theorem yaml_token_chars : forall x,
  is_yaml_token x = true -> Forall (fun c => is_alnum c = true \/ c = "." \/ c = "-" \/ c = "_") x.
Proof.
  intros [|c r]; cbn [is_yaml_token]; [discriminate|].
  intros H; apply andb_true_iff in H; destruct H as [Hc Hr].
  constructor; [left; apply alpha_alnum; exact Hc|].
  apply sep_groups_chars in Hr. eapply Forall_impl; [|exact Hr].
  cbv beta; intros a [Ha|Ha]; [left; exact Ha | right; apply is_sep_iff; exact Ha].
Qed.

Theorem go_token_chars : forall x,
  is_go_token x = true -> Forall (fun c => is_alnum c = true \/ c = "_") x.
Proof.
  intros [|c r]; cbn [is_go_token]; [discriminate|].
  intros H; apply andb_true_iff in H; destruct H as [Hc Hr].
  constructor; [left; apply alpha_alnum; exact Hc|].
  apply Forall_forall; intros a Ha. rewrite forallb_forall in Hr. specialize (Hr a Ha).
  unfold is_ident, is_underscore in Hr. apply orb_true_iff in Hr; destruct Hr as [Hr|Hr]; [left; exact Hr|].
  right; apply Ascii.eqb_eq; exact Hr.
Qed.

(** bytes that make a string "look like" a reference, a tag, a parameter or a call *)
Definition is_special (c : ascii) : bool :=
  Ascii.eqb c "%" || Ascii.eqb c "@" || Ascii.eqb c "!" || Ascii.eqb c "$" || Ascii.eqb c "(" || Ascii.eqb c ")" ||
  Ascii.eqb c "/" || Ascii.eqb c "*" || Ascii.eqb c "&" || Ascii.eqb c dq || is_ws c.

Lemma pathc_special_disj : forall c, is_pathc c && is_special c = false.
Proof. by_bytes. Qed.

Theorem yaml_token_no_special : forall x c, is_yaml_token x = true -> In c x -> is_special c = false.
Proof.
  intros x c H Hin. apply yaml_token_chars in H. rewrite Forall_forall in H. specialize (H c Hin).
  assert (Hp : is_pathc c = true).
  { unfold is_pathc. destruct H as [H|H]; [rewrite H; reflexivity|].
    apply is_sep_iff in H; rewrite H; apply orb_true_r. }
  generalize (pathc_special_disj c); rewrite Hp; exact (fun E => E).
Qed.

Theorem go_token_no_special : forall x c, is_go_token x = true -> In c x -> is_special c = false.
Proof.
  intros x c H Hin. apply go_token_chars in H. rewrite Forall_forall in H. specialize (H c Hin).
  assert (Hp : is_pathc c = true).
  { unfold is_pathc. destruct H as [H| ->]; [rewrite H; reflexivity | reflexivity]. }
  generalize (pathc_special_disj c); rewrite Hp; exact (fun E => E).
Qed.

(** relation between the two kinds of names *)
Lemma ident_groups : forall r,
  forallb is_ident r = true -> sep_groups is_alnum is_sep false r = true \/ In "_" r.
Proof.
  induction r as [|c r IH]; cbn [forallb sep_groups negb]; [left; reflexivity|].
  intros H; apply andb_true_iff in H; destruct H as [Hc Hr].
  destruct (is_alnum c) eqn:Ha.
  - destruct (IH Hr) as [H|H]; [left; exact H | right; right; exact H].
  - unfold is_ident in Hc; rewrite Ha in Hc; cbn [orb] in Hc.
    apply Ascii.eqb_eq in Hc; right; left; exact Hc.
Qed.

(** a Go identifier without underscore is a name *)
Theorem go_token_yaml : forall x, is_go_token x = true -> is_yaml_token x = true \/ In "_" x.
Proof.
  intros [|c r]; cbn [is_go_token is_yaml_token]; [discriminate|].
  intros H; apply andb_true_iff in H; destruct H as [Hc Hr]. rewrite Hc; cbn [andb].
  destruct (ident_groups r Hr) as [H|H]; [left; exact H | right; right; exact H].
Qed.

(** a name without '.' and '-' is a Go identifier *)
Theorem yaml_token_go : forall x,
  is_yaml_token x = true -> ~ In "." x -> ~ In "-" x -> is_go_token x = true.
Proof.
  intros x H Hdot Hdash. pose proof (yaml_token_chars x H) as Hch.
  destruct x as [|c r]; [discriminate|].
  cbn [is_yaml_token] in H; apply andb_true_iff in H; destruct H as [Hc _].
  cbn [is_go_token]; rewrite Hc; cbn [andb].
  apply forallb_forall; intros a Ha.
  rewrite Forall_forall in Hch. specialize (Hch a (or_intror Ha)).
  unfold is_ident, is_underscore.
  destruct Hch as [E | [-> | [-> | ->]]].
  - rewrite E; reflexivity.
  - exfalso; apply Hdot; right; exact Ha.
  - exfalso; apply Hdash; right; exact Ha.
  - apply orb_true_r.
Qed.

(** exactly: among Go identifiers the names are those whose underscores are single and not final *)
Theorem go_token_yaml_iff : forall x,
  is_go_token x = true ->
  (is_yaml_token x = true <-> sep_groups is_alnum is_underscore false (tl x) = true).
Proof.
  intros [|c r]; cbn [is_go_token is_yaml_token tl]; [discriminate|].
  intros H; apply andb_true_iff in H; destruct H as [Hc Hr]. rewrite Hc; cbn [andb].
  assert (G : forall p, sep_groups is_alnum is_sep p r = sep_groups is_alnum is_underscore p r).
  { induction r as [|a r IH]; intros p; cbn [sep_groups]; [reflexivity|].
    cbn [forallb] in Hr; apply andb_true_iff in Hr; destruct Hr as [Ha Hr].
    rewrite !(IH Hr). destruct (is_alnum a) eqn:Ea; [reflexivity|].
    unfold is_ident in Ha; rewrite Ea in Ha; cbn [orb] in Ha. rewrite Ha.
    unfold is_underscore in Ha; apply Ascii.eqb_eq in Ha; subst a. reflexivity. }
  rewrite G; reflexivity.
Qed.

(** * the positional reading of [sep_groups]: every byte is of class [cl] or [sep], no two separators are adjacent,
      the last byte is of class [cl] (and, when a separator is pending, the string starts with a [cl] byte) *)

Definition no_adjacent (sep : ascii -> bool) (x : str) : Prop :=
  forall u a b v, x = u ++ a :: b :: v -> sep a = true -> sep b = true -> False.
Definition last_in (cl : ascii -> bool) (x : str) : Prop :=
  forall u a, x = u ++ [a] -> cl a = true.

Lemma no_adjacent_cons : forall sep c r, no_adjacent sep (c :: r) -> no_adjacent sep r.
Proof. intros sep c r H u a b v E; apply (H (c :: u) a b v); rewrite E; reflexivity. Qed.

Lemma no_adjacent_cons_nonsep : forall sep c r, sep c = false -> no_adjacent sep r -> no_adjacent sep (c :: r).
Proof.
  intros sep c r Hc H [|c' u] a b v E Ha Hb; cbn [app] in E.
  - injection E as -> _. congruence.
  - injection E as _ E. exact (H u a b v E Ha Hb).
Qed.

Lemma last_in_cons : forall cl c d r, last_in cl (c :: d :: r) -> last_in cl (d :: r).
Proof. intros cl c d r H u a E; apply (H (c :: u) a); rewrite E; reflexivity. Qed.

Lemma last_in_cons_r : forall cl c r, (r = [] -> cl c = true) -> last_in cl r -> last_in cl (c :: r).
Proof.
  intros cl c r Hc H [|c' u] a E; cbn [app] in E.
  - injection E as -> ->. apply Hc; reflexivity.
  - injection E as _ E. exact (H u a E).
Qed.

Lemma last_in_nil : forall cl, last_in cl [].
Proof. intros cl [|c u] a E; discriminate E. Qed.

Lemma no_adjacent_nil : forall sep, no_adjacent sep [].
Proof. intros sep [|c u] a b v E; discriminate E. Qed.

Lemma sep_groups_alt : forall cl sep, (forall c, cl c = true -> sep c = false) ->
  forall x p,
    sep_groups cl sep p x = true <->
    Forall (fun c => cl c = true \/ sep c = true) x /\ no_adjacent sep x /\ last_in cl x /\
    (p = true -> exists c r, x = c :: r /\ cl c = true).
Proof.
  intros cl sep Hd; induction x as [|c r IH]; intros p.
  - cbn [sep_groups]; split.
    + intros H; repeat split; [constructor | apply no_adjacent_nil | apply last_in_nil |].
      intros ->; discriminate H.
    + intros [_ [_ [_ H]]]. destruct p; [|reflexivity]. destruct (H eq_refl) as [c [r [E _]]]; discriminate E.
  - cbn [sep_groups]. destruct (cl c) eqn:Hc.
    + rewrite IH; split.
      * intros [HF [HN [HL _]]]; repeat split.
        -- constructor; [left; exact Hc | exact HF].
        -- apply no_adjacent_cons_nonsep; [apply Hd; exact Hc | exact HN].
        -- apply last_in_cons_r; [intros _; exact Hc | exact HL].
        -- intros _; exists c, r; auto.
      * intros [HF [HN [HL _]]]; repeat split.
        -- inversion HF; assumption.
        -- eapply no_adjacent_cons; exact HN.
        -- destruct r as [|d r']; [apply last_in_nil | eapply last_in_cons; exact HL].
        -- discriminate.
    + destruct (sep c) eqn:Hs.
      * rewrite andb_true_iff, negb_true_iff, IH; split.
        -- intros [-> [HF [HN [HL HP]]]]. destruct (HP eq_refl) as [d [r' [-> Hdd]]]. repeat split.
           ++ constructor; [right; exact Hs | exact HF].
           ++ intros [|c' u] a b v E Ha Hb; cbn [app] in E.
              ** injection E as _ -> _. rewrite (Hd _ Hdd) in Hb; discriminate Hb.
              ** injection E as _ E. exact (HN u a b v E Ha Hb).
           ++ apply last_in_cons_r; [discriminate | exact HL].
           ++ discriminate.
        -- intros [HF [HN [HL HP]]]. split.
           { destruct p; [|reflexivity]. destruct (HP eq_refl) as [c' [r' [E Hc']]].
             injection E as <- _. congruence. }
           inversion HF as [|c0 r0 _ HFr]; subst. repeat split.
           ++ exact HFr.
           ++ eapply no_adjacent_cons; exact HN.
           ++ destruct r as [|d r']; [apply last_in_nil | eapply last_in_cons; exact HL].
           ++ intros _. destruct r as [|d r'].
              ** specialize (HL [] c eq_refl). congruence.
              ** exists d, r'; split; [reflexivity|].
                 inversion HFr as [|d0 r0 Hdd _]; subst. destruct Hdd as [Hdd|Hdd]; [exact Hdd|].
                 exfalso; exact (HN [] c d r' eq_refl Hs Hdd).
      * split; [discriminate|]. intros [HF _]. inversion HF as [|c0 r0 Hcc _]; subst.
        destruct Hcc; congruence.
Qed.

(** the documented reading of a name: starts with a letter, consists of alphanumerics and the separators '.', '-', '_',
    ends with an alphanumeric, and no two separators are adjacent *)
Theorem yaml_token_alt : forall x,
  is_yaml_token x = true <->
  (exists c r, x = c :: r /\ is_alpha c = true) /\
  Forall (fun c => is_alnum c = true \/ is_sep c = true) x /\ no_adjacent is_sep x /\ last_in is_alnum x.
Proof.
  intros x.
  assert (E : is_yaml_token x = true <->
              (exists c r, x = c :: r /\ is_alpha c = true) /\ sep_groups is_alnum is_sep false x = true).
  { destruct x as [|c r]; cbn [is_yaml_token].
    - split; [discriminate | intros [[c [r [E _]]] _]; discriminate E].
    - rewrite andb_true_iff; split.
      + intros [Hc Hr]; split; [exists c, r; auto|].
        cbn [sep_groups]. rewrite (alpha_alnum c Hc); exact Hr.
      + intros [[c' [r' [E Hc]]] Hr]. injection E as <- <-. split; [exact Hc|].
        cbn [sep_groups] in Hr. rewrite (alpha_alnum c Hc) in Hr; exact Hr. }
  rewrite E, (sep_groups_alt is_alnum is_sep alnum_not_sep x false). split.
  - intros [H [HF [HN [HL _]]]]; auto.
  - intros [H [HF [HN HL]]]; repeat split; auto; discriminate.
Qed.

(** the same reading of an import path, with '/' as the separator and [A-Za-z0-9._-] as the alphabet *)
Theorem base_import_alt : forall x,
  is_base_import x = true <->
  (exists c r, x = c :: r /\ is_alpha c = true) /\
  Forall (fun c => is_pathc c = true \/ is_slash c = true) x /\ no_adjacent is_slash x /\ last_in is_pathc x.
Proof.
  intros x.
  assert (AP : forall c, is_alpha c = true -> is_pathc c = true).
  { intros c H; unfold is_pathc; rewrite (alpha_alnum c H); reflexivity. }
  assert (E : is_base_import x = true <->
              (exists c r, x = c :: r /\ is_alpha c = true) /\ sep_groups is_pathc is_slash false x = true).
  { destruct x as [|c r]; cbn [is_base_import].
    - split; [discriminate | intros [[c [r [E _]]] _]; discriminate E].
    - rewrite andb_true_iff; split.
      + intros [Hc Hr]; split; [exists c, r; auto|].
        cbn [sep_groups]. rewrite (AP c Hc); exact Hr.
      + intros [[c' [r' [E Hc]]] Hr]. injection E as <- <-. split; [exact Hc|].
        cbn [sep_groups] in Hr. rewrite (AP c Hc) in Hr; exact Hr. }
  rewrite E, (sep_groups_alt is_pathc is_slash pathc_not_slash x false). split.
  - intros [H [HF [HN [HL _]]]]; auto.
  - intros [H [HF [HN HL]]]; repeat split; auto; discriminate.
Qed.

(** * 8. simple_fn : fn(anything without a newline) *)

Lemma forallb_notnl : forall a, forallb (fun c => negb (is_nl c)) a = true <-> ~ In nl a.
Proof.
  induction a as [|c a IH]; cbn [forallb In]; [split; [intros _ [] | reflexivity]|].
  rewrite andb_true_iff, IH, negb_true_iff. unfold is_nl.
  destruct (Ascii.eqb_spec c nl) as [E|E]; split.
  - intros [H _]; discriminate.
  - intros H; exfalso; apply H; left; exact E.
  - intros [_ H] [H'|H']; [apply E; exact H' | exact (H H')].
  - intros H; split; [reflexivity | intros H'; apply H; right; exact H'].
Qed.

Theorem simple_fn_spec : forall x,
  dmatch simple_fn x = true <->
  exists f a, x = f ++ "(" :: a ++ [")"] /\ is_go_token f = true /\ ~ In (ascii_of_N 10) a.
Proof.
  intros x; rewrite dmatch_spec; unfold simple_fn.
  change (chr 40) with (chr (code "(")). change (chr 41) with (chr (code ")")).
  change (ascii_of_N 10) with nl. rewrite Sem_Cat; split.
  - intros [f [z [-> [Hf Hz]]]]. apply Sem_Cat_chr in Hz; destruct Hz as [y [-> Hy]].
    apply Sem_Cat_chr_r in Hy; destruct Hy as [a [-> Ha]].
    exists f, a; split; [reflexivity|]; split; [apply go_token_sem; exact Hf|].
    apply forallb_notnl. apply (Sem_Star_Cls _ _ m_notnl); exact Ha.
  - intros [f [a [-> [Hf Ha]]]]. exists f, ("(" :: a ++ [")"]); split; [reflexivity|]; split.
    + apply go_token_sem; exact Hf.
    + apply Sem_Cat_chr; exists (a ++ [")"]); split; [reflexivity|].
      apply Sem_Cat_chr_r; exists a; split; [reflexivity|].
      apply (Sem_Star_Cls _ _ m_notnl). apply forallb_notnl; exact Ha.
Qed.

(** [f] is the text before the FIRST "(": the decomposition is unique *)
Theorem simple_fn_unique : forall f a f' a',
  is_go_token f = true -> is_go_token f' = true ->
  f ++ "(" :: a = f' ++ "(" :: a' -> f = f' /\ a = a'.
Proof.
  intros f a f' a' Hf Hf'.
  assert (Nf : ~ In "(" f).
  { intros Hin. generalize (go_token_no_special f "(" Hf Hin). vm_compute; discriminate. }
  assert (Nf' : ~ In "(" f').
  { intros Hin. generalize (go_token_no_special f' "(" Hf' Hin). vm_compute; discriminate. }
  clear Hf Hf'. revert f' Nf'. induction f as [|c f IH]; intros [|c' f'] Nf' E; cbn [app] in E.
  - injection E as ->; auto.
  - injection E as <- _. exfalso; apply Nf'; left; reflexivity.
  - injection E as -> _. exfalso; apply Nf; left; reflexivity.
  - injection E as -> E. destruct (IH (fun H => Nf (or_intror H)) f' (fun H => Nf' (or_intror H)) E) as [-> ->]; auto.
Qed.

(** a name is never a call *)
Theorem yaml_not_fn : forall x, is_yaml_token x = true -> dmatch simple_fn x = false.
Proof.
  intros x H; apply bool_false_of_not; intros H'.
  apply simple_fn_spec in H'; destruct H' as [f [a [-> _]]].
  assert (Hin : In "(" (f ++ "(" :: a ++ [")"])) by (apply in_or_app; right; left; reflexivity).
  generalize (yaml_token_no_special _ _ H Hin). vm_compute; discriminate.
Qed.

(** nor a service reference, a tagged or a value argument, and a Go identifier is none of these either *)
Theorem yaml_not_prefixed : forall x,
  is_yaml_token x = true ->
  dmatch_prefix prefix_service x = false /\ dmatch_prefix prefix_tagged x = false /\ dmatch_prefix prefix_value x = false.
Proof.
  intros x H. repeat split; apply bool_false_of_not; intros H'.
  - apply prefix_service_spec in H'; destruct H' as [r ->].
    generalize (yaml_token_no_special _ "@" H (or_introl eq_refl)). vm_compute; discriminate.
  - apply prefix_tagged_spec in H'; destruct H' as [w [r [-> _]]].
    generalize (yaml_token_no_special _ "!" H (or_introl eq_refl)). vm_compute; discriminate.
  - apply prefix_value_spec in H'; destruct H' as [w [r [-> _]]].
    generalize (yaml_token_no_special _ "!" H (or_introl eq_refl)). vm_compute; discriminate.
Qed.

Theorem go_token_not_prefixed : forall x,
  is_go_token x = true ->
  dmatch_prefix prefix_service x = false /\ dmatch_prefix prefix_tagged x = false /\ dmatch_prefix prefix_value x = false /\
  dmatch simple_fn x = false.
Proof.
  intros x H. repeat split; apply bool_false_of_not; intros H'.
  - apply prefix_service_spec in H'; destruct H' as [r ->].
    generalize (go_token_no_special _ "@" H (or_introl eq_refl)). vm_compute; discriminate.
  - apply prefix_tagged_spec in H'; destruct H' as [w [r [-> _]]].
    generalize (go_token_no_special _ "!" H (or_introl eq_refl)). vm_compute; discriminate.
  - apply prefix_value_spec in H'; destruct H' as [w [r [-> _]]].
    generalize (go_token_no_special _ "!" H (or_introl eq_refl)). vm_compute; discriminate.
  - apply simple_fn_spec in H'; destruct H' as [f [a [-> _]]].
    assert (Hin : In "(" (f ++ "(" :: a ++ [")"])) by (apply in_or_app; right; left; reflexivity).
    generalize (go_token_no_special _ _ H Hin). vm_compute; discriminate.
Qed.

(** * sanity checks of the recognisers on concrete strings *)
Example ex_go1 : is_go_token (s "NewFoo_2") = true.              Proof. reflexivity. Qed.
Example ex_go2 : is_go_token (s "_x") = false.                   Proof. reflexivity. Qed.
Example ex_go3 : is_go_token (s "2x") = false.                   Proof. reflexivity. Qed.
Example ex_y1 : is_yaml_token (s "my.service-name_2") = true.    Proof. reflexivity. Qed.
Example ex_y2 : is_yaml_token (s "my..service") = false.         Proof. reflexivity. Qed.
Example ex_y3 : is_yaml_token (s "my.") = false.                 Proof. reflexivity. Qed.
Example ex_y4 : is_yaml_token (s "a_-b") = false.                Proof. reflexivity. Qed.
Example ex_i1 : is_base_import (s "github.com/foo/bar-baz") = true.  Proof. reflexivity. Qed.
Example ex_i2 : is_base_import (s "github.com//foo") = false.    Proof. reflexivity. Qed.
Example ex_i3 : is_base_import (s "github.com/foo/") = false.    Proof. reflexivity. Qed.
Example ex_i4 : is_import (dq :: s "a/b" ++ [dq]) = true.        Proof. reflexivity. Qed.
Example ex_i5 : is_import [dq; "."; dq] = true.                  Proof. reflexivity. Qed.
Example ex_i6 : is_import [dq; dq] = false.                      Proof. reflexivity. Qed.

Print Assumptions go_token_spec.
Print Assumptions yaml_token_spec.
Print Assumptions base_import_spec.
Print Assumptions import_spec.
Print Assumptions yaml_token_alt.
Print Assumptions go_func_spec.
Print Assumptions simple_fn_spec.
Print Assumptions yaml_not_fn.
Print Assumptions go_token_not_prefixed.
