(** RENDER2 - the rendered file is syntactically (lexically) safe for every accepted input.

    A  [quote] (Go's %+q, strconv.QuoteToASCII) always yields one well-formed interpreted string literal   (ITEM 1)
    B  byte classes; a model of the string / comment states of the Go scanner; byte classes and capture groups of regular expressions
    C  the lines of [render] for a well-formed compiled output: header comment sections (ITEM 2), every other line (ITEM 4)
    D  from a validated input to a well-formed compiled output: the table of emitted names and expressions (ITEM 3)
    E  the regenerated constants satisfy the assumptions; the combined statements (ITEM 4)
    F  examples by computation (ITEM 5), the trusted residue, quoted meta.imports values (a former finding, repaired)         *)
From Coq Require Import Lia.
From GV Require Import Base.Str Base.Quote Base.Gerr Base.Sort Regex.Re Proofs.RegexProofs Proofs.BtProofs Regex.Equiv Regex.Langs
  Proofs.LangsProofs Model.Env Model.Input Model.Imports Model.Token Model.Compile Model.Validate Model.Runner Spec.Pipeline Model.Render
  Proofs.ImportsProofs Proofs.RenderProofs Gen.RegexSrc Gen.EnvGen Tie.RegexTie.

(** Part A: [quote] (Go's %+q) always yields a well-formed interpreted string literal *)
Section QuoteSafety.
Local Open Scope N_scope.

Definition bsl : ascii := "\"%char.

(** one printable ASCII byte other than the double quote and the backslash *)
Definition plain_strc (c : ascii) : bool :=
  N.leb 32 (code c) && N.leb (code c) 126 && negb (N.eqb (code c) 34) && negb (N.eqb (code c) 92).
(** lower-case hexadecimal digit *)
Definition is_hexb (c : ascii) : bool :=
  (N.leb 48 (code c) && N.leb (code c) 57) || (N.leb 97 (code c) && N.leb (code c) 102).
(** the letter of a two-byte escape: a b f n r t v, backslash, double quote *)
Definition simple_esc (c : ascii) : bool :=
  existsb (Ascii.eqb c) ["a";"b";"f";"n";"r";"t";"v";"\";""""]%char.

(** recogniser of the interior of an interpreted Go string literal as QuoteToASCII writes it: a concatenation of pieces, each
    one printable ASCII byte other than the double quote and the backslash, or one of the escapes \a \b \f \n \r \t \v \\ \dq \xHH
    \uHHHH \UHHHHHHHH (dq = the double quote byte; lower-case hex).
    [hex] = hexadecimal digits still owed by the current escape, [esc] = the previous byte was the backslash opening an escape *)
Fixpoint gsi_st (hex : nat) (esc : bool) (y : str) : bool :=
  match y with
  | [] => Nat.eqb hex 0 && negb esc
  | c :: r =>
    if esc then
      if simple_esc c then gsi_st 0 false r
      else if Ascii.eqb c "x" then gsi_st 2 false r
      else if Ascii.eqb c "u" then gsi_st 4 false r
      else if Ascii.eqb c "U" then gsi_st 8 false r
      else false
    else
      match hex with
      | S k => is_hexb c && gsi_st k false r
      | O => if Ascii.eqb c bsl then gsi_st 0 true r else plain_strc c && gsi_st 0 false r
      end
  end.
Definition go_string_interior (y : str) : bool := gsi_st 0 false y.

Lemma gsi_st_app a : forall hex esc b, gsi_st hex esc a = true -> gsi_st hex esc (a ++ b) = gsi_st 0 false b.
Proof.
  induction a as [|c a IH]; intros hex esc b H; cbn [gsi_st app] in *.
  - apply andb_prop in H. destruct H as [H1 H2]. apply PeanoNat.Nat.eqb_eq in H1. subst hex.
    destruct esc; [discriminate | reflexivity].
  - destruct esc.
    + destruct (simple_esc c); [apply IH; exact H|].
      destruct (Ascii.eqb c "x"); [apply IH; exact H|].
      destruct (Ascii.eqb c "u"); [apply IH; exact H|].
      destruct (Ascii.eqb c "U"); [apply IH; exact H|discriminate].
    + destruct hex as [|k].
      * destruct (Ascii.eqb c bsl); [apply IH; exact H|].
        apply andb_prop in H. destruct H as [H1 H2]. rewrite H1. cbn [andb]. apply IH; exact H2.
      * apply andb_prop in H. destruct H as [H1 H2]. rewrite H1. cbn [andb]. apply IH; exact H2.
Qed.

Lemma gsi_app a b : go_string_interior a = true -> go_string_interior b = true -> go_string_interior (a ++ b) = true.
Proof. unfold go_string_interior. intros Ha Hb. rewrite (gsi_st_app a 0 false b Ha). exact Hb. Qed.

(** hexadecimal digits *)
Lemma hex_char_hexb d : d < 16 -> is_hexb (hex_char d) = true.
Proof.
  intros H. unfold is_hexb. rewrite (hex_char_code d H).
  destruct (N.ltb_spec d 10); apply orb_true_iff; [left|right]; apply andb_true_iff; split; apply N.leb_le; lia.
Qed.

Lemma hex_fixed_hexb w : forall n, forallb is_hexb (hex_fixed w n) = true.
Proof.
  induction w as [|w IH]; intros n; cbn [hex_fixed]; [reflexivity|].
  rewrite forallb_app, IH. cbn [forallb andb]. rewrite hex_char_hexb; [reflexivity|].
  apply N.mod_lt. discriminate.
Qed.

Lemma hex_fixed_length w : forall n, length (hex_fixed w n) = w.
Proof. induction w as [|w IH]; intros n; cbn [hex_fixed]; [reflexivity|]. rewrite app_length, IH. cbn. lia. Qed.

Lemma gsi_st_hex x : forall r, forallb is_hexb x = true -> gsi_st (length x) false (x ++ r) = gsi_st 0 false r.
Proof.
  induction x as [|c x IH]; intros r H; [reflexivity|].
  cbn [forallb] in H. apply andb_prop in H. destruct H as [H1 H2].
  cbn [length app gsi_st]. rewrite H1. cbn [andb]. apply IH; exact H2.
Qed.

Lemma gsi_hex_escape (e : ascii) (w : nat) (n : N) :
  simple_esc e = false ->
  (Ascii.eqb e "x" = true /\ w = 2%nat) \/ (Ascii.eqb e "x" = false /\ Ascii.eqb e "u" = true /\ w = 4%nat) \/
  (Ascii.eqb e "x" = false /\ Ascii.eqb e "u" = false /\ Ascii.eqb e "U" = true /\ w = 8%nat) ->
  go_string_interior (bsl :: e :: hex_fixed w n) = true.
Proof.
  intros Hs Hc. unfold go_string_interior. cbn [gsi_st]. change (Ascii.eqb bsl bsl) with true. cbn iota. rewrite Hs.
  rewrite <- (app_nil_r (hex_fixed w n)).
  destruct Hc as [[H1 ->]|[[H1 [H2 ->]]|[H1 [H2 [H3 ->]]]]]; rewrite ?H1, ?H2, ?H3.
  - rewrite <- (hex_fixed_length 2 n) at 1. rewrite gsi_st_hex; [reflexivity | apply hex_fixed_hexb].
  - rewrite <- (hex_fixed_length 4 n) at 1. rewrite gsi_st_hex; [reflexivity | apply hex_fixed_hexb].
  - rewrite <- (hex_fixed_length 8 n) at 1. rewrite gsi_st_hex; [reflexivity | apply hex_fixed_hexb].
Qed.

Lemma gsi_x n : go_string_interior (s "\x" ++ hex_fixed 2 n) = true.
Proof. apply (gsi_hex_escape "x" 2 n); [reflexivity | left; split; reflexivity]. Qed.
Lemma gsi_u n : go_string_interior (s "\u" ++ hex_fixed 4 n) = true.
Proof. apply (gsi_hex_escape "u" 4 n); [reflexivity | right; left; repeat split; reflexivity]. Qed.
Lemma gsi_U n : go_string_interior (s "\U" ++ hex_fixed 8 n) = true.
Proof. apply (gsi_hex_escape "U" 8 n); [reflexivity | right; right; repeat split; reflexivity]. Qed.

Lemma escape_rune_gsi r : go_string_interior (escape_rune r) = true.
Proof.
  unfold escape_rune.
  destruct (N.eqb_spec r 34) as [E34|H34]; [reflexivity|].
  destruct (N.eqb_spec r 92) as [E92|H92]; [reflexivity|].
  destruct (N.leb 32 r && N.ltb r 127) eqn:Hp.
  { apply andb_prop in Hp. destruct Hp as [H1 H2]. apply N.leb_le in H1. apply N.ltb_lt in H2.
    unfold go_string_interior. cbn [gsi_st].
    assert (Hc : code (ch r) = r) by (apply code_ch; lia).
    assert (Hb : Ascii.eqb (ch r) bsl = false).
    { destruct (Ascii.eqb_spec (ch r) bsl) as [E|]; [|reflexivity]. exfalso. apply H92. rewrite <- Hc, E. reflexivity. }
    rewrite Hb. unfold plain_strc. rewrite Hc.
    replace (N.leb 32 r) with true by (symmetry; apply N.leb_le; lia).
    replace (N.leb r 126) with true by (symmetry; apply N.leb_le; lia).
    replace (N.eqb r 34) with false by (symmetry; apply N.eqb_neq; exact H34).
    replace (N.eqb r 92) with false by (symmetry; apply N.eqb_neq; exact H92). reflexivity. }
  repeat (match goal with |- context [if N.eqb r ?k then _ else _] => destruct (N.eqb r k); [reflexivity|] end).
  destruct (N.ltb r 32 || N.eqb r 127); [apply gsi_x|].
  destruct (N.ltb r 65536); [apply gsi_u | apply gsi_U].
Qed.

Lemma quote_body_gsi f : forall x, go_string_interior (quote_body f x) = true.
Proof.
  induction f as [|f IH]; intros x; cbn [quote_body]; [reflexivity|].
  destruct x as [|b0 t]; [reflexivity|].
  destruct (decode_rune (b0 :: t)) as [[r w]|].
  - apply gsi_app; [apply escape_rune_gsi | apply IH].
  - rewrite app_assoc. apply gsi_app; [apply gsi_x | apply IH].
Qed.

(** ITEM 1 *)
Theorem quote_safe : forall x, exists y, quote x = [dq] ++ y ++ [dq] /\ go_string_interior y = true.
Proof. intros x. exists (quote_body (length x) x). split; [reflexivity | apply quote_body_gsi]. Qed.

(** consequences: every byte of the interior is printable ASCII; no raw newline; the literal is closed exactly at its last byte *)
Definition printable (c : ascii) : bool := N.leb 32 (code c) && N.leb (code c) 126.

Lemma gsi_st_printable y : forall hex esc, gsi_st hex esc y = true -> forallb printable y = true.
Proof.
  induction y as [|c y IH]; intros hex esc H; [reflexivity|]. cbn [gsi_st] in H. cbn [forallb].
  destruct esc.
  - assert (Hp : printable c = true /\ exists h, gsi_st h false y = true).
    { destruct (simple_esc c) eqn:Es.
      - split; [|eexists; exact H]. unfold simple_esc in Es. cbn [existsb] in Es.
        repeat (apply orb_prop in Es; destruct Es as [Es|Es]; [apply Ascii.eqb_eq in Es; subst c; reflexivity|]). discriminate.
      - destruct (Ascii.eqb_spec c "x") as [->|_]; [split; [reflexivity|eexists; exact H]|].
        destruct (Ascii.eqb_spec c "u") as [->|_]; [split; [reflexivity|eexists; exact H]|].
        destruct (Ascii.eqb_spec c "U") as [->|_]; [split; [reflexivity|eexists; exact H]|discriminate]. }
    destruct Hp as [Hp [h Hh]]. rewrite Hp. cbn [andb]. eapply IH; exact Hh.
  - destruct hex as [|k].
    + destruct (Ascii.eqb_spec c bsl) as [->|_].
      * change (printable bsl) with true. cbn [andb]. eapply IH; exact H.
      * apply andb_prop in H. destruct H as [H1 H2].
        assert (Hp : printable c = true).
        { unfold plain_strc in H1. unfold printable. apply andb_prop in H1. destruct H1 as [H1 _].
          apply andb_prop in H1. destruct H1 as [H1 _]. exact H1. }
        rewrite Hp. cbn [andb]. eapply IH; exact H2.
    + apply andb_prop in H. destruct H as [H1 H2].
      assert (Hp : printable c = true).
      { unfold is_hexb in H1. unfold printable. apply orb_prop in H1.
        destruct H1 as [H1|H1]; apply andb_prop in H1; destruct H1 as [Ha Hb]; apply N.leb_le in Ha; apply N.leb_le in Hb;
          apply andb_true_iff; split; apply N.leb_le; lia. }
      rewrite Hp. cbn [andb]. eapply IH; exact H2.
Qed.

Theorem quote_printable x : forallb printable (quote x) = true.
Proof.
  unfold quote. rewrite !forallb_app. rewrite (gsi_st_printable _ 0%nat false (quote_body_gsi (length x) x)). reflexivity.
Qed.

Theorem quote_no_newline x : ~ In nl (quote x).
Proof.
  intros H. pose proof (quote_printable x) as P. rewrite forallb_forall in P. specialize (P nl H). discriminate.
Qed.

End QuoteSafety.

(** Part B: byte classes, a model of the Go scanner's string / comment states, regular-expression byte classes and capture groups *)

(** * strings over a byte class *)
Definition over (P : ascii -> bool) (x : str) : Prop := forallb P x = true.

Lemma over_nil P : over P []. Proof. reflexivity. Qed.
Lemma over_cons P c x : over P (c :: x) <-> P c = true /\ over P x.
Proof. unfold over. cbn [forallb]. apply andb_true_iff. Qed.
Lemma over_app P a b : over P (a ++ b) <-> over P a /\ over P b.
Proof. unfold over. rewrite forallb_app. apply andb_true_iff. Qed.
Lemma over_app_intro P a b : over P a -> over P b -> over P (a ++ b).
Proof. intros; apply over_app; split; assumption. Qed.
Lemma over_In P x c : over P x -> In c x -> P c = true.
Proof. unfold over. rewrite forallb_forall. intros H; apply H. Qed.
Lemma over_intro P x : (forall c, In c x -> P c = true) -> over P x.
Proof. unfold over. rewrite forallb_forall. auto. Qed.
Lemma over_mono (P Q : ascii -> bool) x : (forall c, P c = true -> Q c = true) -> over P x -> over Q x.
Proof. intros HPQ H. apply over_intro. intros c Hc. apply HPQ. eapply over_In; eassumption. Qed.
Lemma over_substr P pre v post : over P (pre ++ v ++ post) -> over P v.
Proof. intros H. apply over_app in H. destruct H as [_ H]. apply over_app in H. apply H. Qed.
Lemma over_rev P x : over P x -> over P (rev x).
Proof. intros H. apply over_intro. intros c Hc. apply in_rev in Hc. eapply over_In; eassumption. Qed.
Lemma over_join P sep l : over P sep -> Forall (over P) l -> over P (join sep l).
Proof.
  intros Hs Hl. induction Hl as [|x l Hx Hl IH]; [reflexivity|].
  destruct l as [|y l]; [exact Hx|]. change (join sep (x :: y :: l)) with (x ++ sep ++ join sep (y :: l)).
  apply over_app_intro; [exact Hx|]. apply over_app_intro; [exact Hs | exact IH].
Qed.
Lemma over_repeat_str P x n : over P x -> over P (repeat_str x n).
Proof. intros H. induction n as [|n IH]; [reflexivity|]. cbn [repeat_str]. apply over_app_intro; assumption. Qed.

(** * the lexical states of the Go scanner that matter for strings and comments *)
Inductive lst := LCode | LSlash | LStr | LStrEsc | LRaw | LRune | LRuneEsc | LLineCom | LBlock | LBlockStar.

Definition bq : ascii := "`"%char.
Definition sq : ascii := "'"%char.
Definition sl : ascii := "/"%char.
Definition star : ascii := "*"%char.

Definition step_code (c : ascii) : lst :=
  if Ascii.eqb c dq then LStr else if Ascii.eqb c bq then LRaw else if Ascii.eqb c sq then LRune
  else if Ascii.eqb c sl then LSlash else LCode.

Definition step (st : lst) (c : ascii) : lst :=
  match st with
  | LCode => step_code c
  | LSlash => if Ascii.eqb c sl then LLineCom else if Ascii.eqb c star then LBlock else step_code c
  | LStr => if Ascii.eqb c bsl then LStrEsc else if Ascii.eqb c dq then LCode else LStr
  | LStrEsc => LStr
  | LRaw => if Ascii.eqb c bq then LCode else LRaw
  | LRune => if Ascii.eqb c bsl then LRuneEsc else if Ascii.eqb c sq then LCode else LRune
  | LRuneEsc => LRune
  | LLineCom => LLineCom
  | LBlock => if Ascii.eqb c star then LBlockStar else LBlock
  | LBlockStar => if Ascii.eqb c sl then LCode else if Ascii.eqb c star then LBlockStar else LBlock
  end.

Definition scan (st : lst) (x : str) : lst := fold_left step x st.

Lemma scan_app st a b : scan st (a ++ b) = scan (scan st a) b.
Proof. apply fold_left_app. Qed.
Lemma scan_linecom x : scan LLineCom x = LLineCom.
Proof. induction x as [|c x IH]; [reflexivity | exact IH]. Qed.

Definition lst_eqb (a b : lst) : bool :=
  match a, b with
  | LCode, LCode | LSlash, LSlash | LStr, LStr | LStrEsc, LStrEsc | LRaw, LRaw | LRune, LRune | LRuneEsc, LRuneEsc
  | LLineCom, LLineCom | LBlock, LBlock | LBlockStar, LBlockStar => true
  | _, _ => false
  end.
Lemma lst_eqb_eq a b : lst_eqb a b = true <-> a = b.
Proof. destruct a, b; cbn; split; intros H; try reflexivity; try discriminate. Qed.

(** byte classes *)
Definition notnl (c : ascii) : bool := negb (Ascii.eqb c nl).
(** bytes that keep the scanner in [LCode] *)
Definition plainc (c : ascii) : bool := negb (existsb (Ascii.eqb c) [dq; bq; sq; sl; bsl; nl]).

Lemma plainc_notnl c : plainc c = true -> notnl c = true.
Proof.
  unfold plainc, notnl. cbn [existsb]. intros H. apply negb_true_iff in H. apply negb_true_iff.
  repeat (apply orb_false_elim in H; destruct H as [? H]). repeat (match goal with H : _ || _ = false |- _ => apply orb_false_elim in H; destruct H end). assumption.
Qed.

Lemma plainc_step c : plainc c = true -> step LCode c = LCode.
Proof.
  unfold plainc. cbn [existsb]. intros H. apply negb_true_iff in H.
  apply orb_false_elim in H. destruct H as [H1 H]. apply orb_false_elim in H. destruct H as [H2 H].
  apply orb_false_elim in H. destruct H as [H3 H]. apply orb_false_elim in H. destruct H as [H4 H].
  cbn [step]. unfold step_code. rewrite H1, H2, H3, H4. reflexivity.
Qed.

(** a piece of code text that starts and ends in [LCode] and has no newline *)
Definition neutral (x : str) : Prop := forallb notnl x && lst_eqb (scan LCode x) LCode = true.

Lemma neutral_iff x : neutral x <-> over notnl x /\ scan LCode x = LCode.
Proof. unfold neutral, over. rewrite andb_true_iff, lst_eqb_eq. reflexivity. Qed.
Lemma neutral_nil : neutral []. Proof. reflexivity. Qed.
Lemma neutral_app a b : neutral a -> neutral b -> neutral (a ++ b).
Proof.
  rewrite !neutral_iff. intros [Ha1 Ha2] [Hb1 Hb2]. split; [apply over_app_intro; assumption|].
  rewrite scan_app, Ha2. exact Hb2.
Qed.
Lemma neutral_notnl x : neutral x -> over notnl x.
Proof. rewrite neutral_iff. tauto. Qed.
Lemma plain_neutral x : over plainc x -> neutral x.
Proof.
  intros H. apply neutral_iff. split; [eapply over_mono; [apply plainc_notnl | exact H]|].
  induction x as [|c x IH]; [reflexivity|]. apply over_cons in H. destruct H as [Hc Hx].
  unfold scan. cbn [fold_left]. rewrite (plainc_step c Hc). apply IH; exact Hx.
Qed.
Lemma neutral_join sep l : neutral sep -> Forall neutral l -> neutral (join sep l).
Proof.
  intros Hs Hl. induction Hl as [|x l Hx Hl IH]; [reflexivity|].
  destruct l as [|y l]; [exact Hx|]. change (join sep (x :: y :: l)) with (x ++ sep ++ join sep (y :: l)).
  apply neutral_app; [exact Hx|]. apply neutral_app; [exact Hs | exact IH].
Qed.

(** [quote x] is one complete string literal *)
Lemma gsi_scan y : forall hex esc, gsi_st hex esc y = true -> scan (if esc then LStrEsc else LStr) y = LStr.
Proof.
  induction y as [|c y IH]; intros hex esc H; cbn [gsi_st] in H.
  - destruct esc; [|reflexivity]. rewrite andb_false_r in H. discriminate.
  - unfold scan. cbn [fold_left]. destruct esc.
    + cbn [step]. 
      destruct (simple_esc c); [exact (IH _ false H)|].
      destruct (Ascii.eqb c "x"); [exact (IH _ false H)|].
      destruct (Ascii.eqb c "u"); [exact (IH _ false H)|].
      destruct (Ascii.eqb c "U"); [exact (IH _ false H)|discriminate].
    + destruct hex as [|k].
      * cbn [step]. destruct (Ascii.eqb c bsl) eqn:Eb; [exact (IH _ true H)|].
        apply andb_prop in H. destruct H as [H1 H2].
        assert (Ascii.eqb c dq = false) as ->.
        { destruct (Ascii.eqb_spec c dq) as [->|]; [discriminate H1 | reflexivity]. }
        exact (IH _ false H2).
      * apply andb_prop in H. destruct H as [H1 H2]. cbn [step].
        assert (Ascii.eqb c bsl = false) as ->.
        { destruct (Ascii.eqb_spec c bsl) as [->|]; [discriminate H1 | reflexivity]. }
        assert (Ascii.eqb c dq = false) as ->.
        { destruct (Ascii.eqb_spec c dq) as [->|]; [discriminate H1 | reflexivity]. }
        exact (IH _ false H2).
Qed.

Lemma printable_notnl c : printable c = true -> notnl c = true.
Proof.
  unfold printable, notnl. intros H. apply andb_prop in H. destruct H as [H _]. apply N.leb_le in H.
  destruct (Ascii.eqb_spec c nl) as [->|]; [|reflexivity]. cbn in H. lia.
Qed.

Theorem quote_neutral x : neutral (quote x).
Proof.
  apply neutral_iff. split.
  - eapply over_mono; [apply printable_notnl | apply quote_printable].
  - unfold quote. rewrite !scan_app. change (scan LCode (s """")) with LStr.
    rewrite (gsi_scan _ 0%nat false (quote_body_gsi (length x) x)). reflexivity.
Qed.
Lemma quote_notnl x : over notnl (quote x).
Proof. apply neutral_notnl, quote_neutral. Qed.

(** * lines *)
(** a rendered line is lexically closed: no newline byte, and after it the scanner is in [LCode] or inside a // comment *)
Definition line_okb (l : str) : bool :=
  forallb notnl l && (lst_eqb (scan LCode l) LCode || lst_eqb (scan LCode l) LLineCom).
Definition line_ok (l : str) : Prop := line_okb l = true.
(** a // comment line *)
Definition comment_line (l : str) : Prop := has_prefix (s "//") l && forallb notnl l = true.

Lemma neutral_line_ok l : neutral l -> line_ok l.
Proof. unfold neutral, line_ok, line_okb. intros H. apply andb_prop in H. destruct H as [H1 H2]. rewrite H1, H2. reflexivity. Qed.

Lemma comment_line_intro p x : has_prefix (s "//") p = true -> over notnl p -> over notnl x -> comment_line (p ++ x).
Proof.
  intros Hp Hn Hx. apply andb_true_iff. split; [|apply over_app_intro; assumption].
  apply has_prefix_iff in Hp. destruct Hp as [r ->]. rewrite <- app_assoc. apply has_prefix_app.
Qed.

Lemma comment_line_ok l : comment_line l -> line_ok l.
Proof.
  intros H. apply andb_prop in H. destruct H as [Hp Hn].
  apply has_prefix_iff in Hp. destruct Hp as [r ->]. unfold line_ok, line_okb. rewrite Hn.
  rewrite scan_app. change (scan LCode (s "//")) with LLineCom. rewrite scan_linecom. reflexivity.
Qed.

Lemma Forall_b {A} (f : A -> bool) l : forallb f l = true -> Forall (fun x => f x = true) l.
Proof. rewrite forallb_forall, Forall_forall. auto. Qed.

Lemma tab_line_ok l : line_ok l -> line_ok (match l with [] => [] | _ => ch 9 :: l end).
Proof. destruct l as [|c l]; [trivial|]. unfold line_ok, line_okb. intros H. exact H. Qed.

(** * fmt.Sprintf templates with one verb *)
Definition tpl_ok (tpl : str) : Prop :=
  exists pre post, neutral pre /\ neutral post /\
    ((forall a, fmt1 tpl a = pre ++ a ++ post) \/ (forall a, fmt1 tpl a = pre ++ quote a ++ post)).

Lemma fmt1_neutral tpl a : tpl_ok tpl -> neutral a -> neutral (fmt1 tpl a).
Proof.
  intros [pre [post [Hpre [Hpost [H|H]]]]] Ha; rewrite H.
  - apply neutral_app; [exact Hpre|]. apply neutral_app; assumption.
  - apply neutral_app; [exact Hpre|]. apply neutral_app; [apply quote_neutral | exact Hpost].
Qed.

(** * regular expressions over a byte class *)
Fixpoint re_over (P : ascii -> bool) (r : re) : bool :=
  match r with
  | Empty | Eps => true
  | Cls l => forallb (fun c => implb (cls_match l c) (P c)) all_bytes
  | Cat a b | Alt a b => re_over P a && re_over P b
  | Star a | Cap _ a => re_over P a
  end.

Lemma re_over_sound P r x : Sem r x -> re_over P r = true -> over P x.
Proof.
  induction 1; cbn [re_over]; intros Hr.
  - reflexivity.
  - rewrite forallb_forall in Hr. specialize (Hr c (In_all_bytes c)). rewrite H in Hr. cbn in Hr.
    apply over_cons. split; [exact Hr | reflexivity].
  - apply andb_prop in Hr. destruct Hr. apply over_app_intro; auto.
  - apply andb_prop in Hr. destruct Hr. auto.
  - apply andb_prop in Hr. destruct Hr. auto.
  - reflexivity.
  - apply over_app_intro; auto.
  - auto.
Qed.

(** * capture groups *)
Fixpoint cap_bodies (i : nat) (r : re) : list re :=
  match r with
  | Cap j a => (if Nat.eqb i j then [a] else []) ++ cap_bodies i a
  | Cat a b | Alt a b => cap_bodies i a ++ cap_bodies i b
  | Star a => cap_bodies i a
  | _ => []
  end.

Lemma subre_cap_bodies i a r : subre_cap i a r -> In a (cap_bodies i r).
Proof.
  induction 1; cbn [cap_bodies].
  - rewrite PeanoNat.Nat.eqb_refl. left; reflexivity.
  - apply in_or_app. right; assumption.
  - apply in_or_app. left; assumption.
  - apply in_or_app. right; assumption.
  - apply in_or_app. left; assumption.
  - apply in_or_app. right; assumption.
  - assumption.
Qed.

Definition efuel : nat := 4000.
(** every group with the index of [n] has a body whose language is that of [spec] *)
Definition group_lang (st : site) (n : str) (spec : re) : bool :=
  forallb (fun a => equiv_check efuel a spec) (cap_bodies (name_idx st n) (site_re st)).

(** what a named group holds after a successful match: nothing, or a word of its language that is a substring of the subject *)
Lemma sub_lang st x c n spec :
  site_submatch st x = Some c -> group_lang st n spec = true ->
  sub st c n = [] \/ (Sem spec (sub st c n) /\ substr (sub st c n) x).
Proof.
  intros H G. apply site_submatch_Some in H. destruct H as [_ [H _]].
  unfold sub. destruct (bt_full_cap_get _ _ _ (name_idx st n) H) as [E|[a [Ha [Hs Hx]]]]; [left; exact E | right].
  split; [|exact Hx]. unfold group_lang in G. rewrite forallb_forall in G.
  specialize (G a (subre_cap_bodies _ _ _ Ha)). apply (equiv_check_sound _ _ _ G). exact Hs.
Qed.

(** a group that every match must pass through *)
Fixpoint must_cap (i : nat) (r : re) : bool :=
  match r with
  | Cap j a => Nat.eqb i j || must_cap i a
  | Cat a b => must_cap i a || must_cap i b
  | Alt a b => must_cap i a && must_cap i b
  | _ => false
  end.

Lemma bt_must i r : forall x c (k : kont) res, must_cap i r = true -> bt r x c k = Some res ->
  exists x2 new v, k x2 (new ++ c) = Some res /\ In (i, v) new.
Proof.
  induction r as [| |l|a IHa b IHb|a IHa b IHb|a IHa|j a IHa]; intros x c k res M H; cbn [must_cap] in M; try discriminate.
  - cbn [bt] in H. apply orb_prop in M. destruct M as [M|M].
    + apply (IHa _ _ _ _ M) in H. destruct H as [x2 [new [v [K Hin]]]].
      apply bt_sound_traced in K. destruct K as [y1 [y2 [c' [_ [_ [K [new' [-> _]]]]]]]].
      exists y2, (new' ++ new), v. rewrite <- app_assoc. split; [exact K|]. apply in_or_app. right; exact Hin.
    + apply bt_sound_traced in H. destruct H as [y1 [y2 [c' [_ [_ [K [new [-> _]]]]]]]].
      apply (IHb _ _ _ _ M) in K. destruct K as [x2 [new' [v [K Hin]]]].
      exists x2, (new' ++ new), v. rewrite <- app_assoc. split; [exact K|]. apply in_or_app. left; exact Hin.
  - apply andb_prop in M. destruct M as [Ma Mb]. cbn [bt] in H.
    destruct (bt a x c k) as [r0|] eqn:E.
    + injection H as ->. exact (IHa _ _ _ _ Ma E).
    + exact (IHb _ _ _ _ Mb H).
  - apply orb_prop in M. destruct M as [M|M].
    + apply PeanoNat.Nat.eqb_eq in M. subst j.
      apply (bt_Cap_step i a (bt_sound_traced a)) in H. destruct H as [x1 [x2 [c' [_ [_ [K [new [-> _]]]]]]]].
      exists x2, ((i, x1) :: new), x1. split; [exact K | left; reflexivity].
    + cbn [bt] in H. apply (IHa _ _ _ _ M) in H. destruct H as [x2 [new [v [K Hin]]]].
      exists x2, ((j, firstn (length x - length x2) x) :: new), v. split; [exact K | right; exact Hin].
Qed.

Lemma cap_get_In_some i v c : In (i, v) c -> In (i, cap_get i c) c.
Proof.
  induction c as [|[j w] c IH]; intros H; [contradiction|].
  destruct (PeanoNat.Nat.eq_dec j i) as [->|Hn].
  - rewrite cap_get_cons_eq. left; reflexivity.
  - rewrite (cap_get_cons_neq i j w c Hn). right. apply IH. destruct H as [H|H]; [congruence | exact H].
Qed.

Definition group_must (st : site) (n : str) : bool := must_cap (name_idx st n) (site_re st).

Lemma sub_lang_must st x c n spec :
  site_submatch st x = Some c -> group_lang st n spec = true -> group_must st n = true ->
  Sem spec (sub st c n) /\ substr (sub st c n) x.
Proof.
  intros H G M. apply site_submatch_Some in H. destruct H as [_ [H _]].
  assert (Hin : exists v, In (name_idx st n, v) c).
  { pose proof H as H'. rewrite bt_full_unfold in H'. apply (bt_must _ _ _ _ _ _ M) in H'.
    destruct H' as [x2 [new [v [K Hin]]]]. apply k_end_Some in K. destruct K as [_ ->]. rewrite app_nil_r. exists v; exact Hin. }
  destruct Hin as [v Hin]. apply cap_get_In_some in Hin.
  destruct (bt_full_caps_faithful _ _ _ _ _ H Hin) as [a [Ha [Hs Hx]]].
  unfold sub. split; [|exact Hx]. unfold group_lang in G. rewrite forallb_forall in G.
  specialize (G a (subre_cap_bodies _ _ _ Ha)). apply (equiv_check_sound _ _ _ G). exact Hs.
Qed.

(** every byte of a matched subject and of each of its groups lies in the class of the expression *)
Lemma submatch_over P st x c : site_submatch st x = Some c -> re_over P (site_re st) = true -> over P x.
Proof. intros H R. apply site_submatch_Some in H. destruct H as [_ [_ H]]. eapply re_over_sound; eassumption. Qed.

Lemma sub_over P st x c n : site_submatch st x = Some c -> re_over P (site_re st) = true -> over P (sub st c n).
Proof.
  intros H R. pose proof (submatch_over P _ _ _ H R) as Hx.
  apply site_submatch_Some in H. destruct H as [_ [H _]]. unfold sub.
  destruct (bt_full_cap_get _ _ _ (name_idx st n) H) as [E|[a [_ [_ [pre [post E]]]]]]; [rewrite E; reflexivity|].
  rewrite E in Hx. eapply over_substr; exact Hx.
Qed.

(** Part C: the lines of [render], given a well-formed compiled output *)

(** numbers and type names come from the YAML decoder (%d, FormatFloat, %T), never from user text; this is what is assumed of them *)
Definition prim_ok (p : prim) : Prop :=
  match p with
  | PInt k t | PFloat k t => over plainc k /\ over plainc t
  | POther t => over plainc t
  | _ => True
  end.

(** [N] is the property required of every piece of text that is emitted as code: [neutral] for the lexical statement, [over notnl] for
    the comment statement *)
Record arg_ok (N : str -> Prop) (a : arg) : Prop := { ao_code : N (a_code a); ao_raw : prim_ok (a_raw a) }.
Record call_ok (N : str -> Prop) (c : ocall) : Prop := { co_method : over notnl (oc_method c); co_args : Forall (arg_ok N) (oc_args c) }.
Record svc_ok (N : str -> Prop) (sv : oservice) : Prop := {
  so_name : over notnl (os_name sv); so_getter : N (os_getter sv); so_type : N (os_type sv);
  so_value : N (os_value sv); so_ctor : N (os_constructor sv); so_args : Forall (arg_ok N) (os_args sv);
  so_calls : Forall (call_ok N) (os_calls sv); so_fields : Forall (fun f => over notnl (fst f) /\ arg_ok N (snd f)) (os_fields sv) }.
Record param_ok (N : str -> Prop) (p : oparam) : Prop := { po_name : over notnl (op_name p); po_code : N (op_code p); po_raw : prim_ok (op_raw p) }.
Record deco_ok (N : str -> Prop) (d : odecorator) : Prop := { do_deco : N (od_decorator d); do_args : Forall (arg_ok N) (od_args d) }.
Record out_ok (N : str -> Prop) (o : output) : Prop := {
  oo_pkg : N (om_pkg (o_meta o)); oo_type : N (om_type (o_meta o)); oo_ctor : N (om_ctor (o_meta o));
  oo_params : Forall (param_ok N) (o_params o); oo_services : Forall (svc_ok N) (o_services o); oo_decos : Forall (deco_ok N) (o_decorators o) }.

(** the inside of a string literal: no double quote, no backslash, no newline *)
Definition strc (c : ascii) : bool := negb (existsb (Ascii.eqb c) [dq; bsl; nl]).
Definition imports_ok (i : ist) : Prop := forall p a, In (p, a) (is_imports i) -> over strc p /\ is_go_token a = true.

Record names_ok (n : names) : Prop := {
  no_container : neutral (n_container n); no_context : neutral (n_context n); no_reflect : neutral (n_reflect n);
  no_grouperror : neutral (n_grouperror n); no_fmt : neutral (n_fmt n); no_copier : neutral (n_copier n);
  no_errors : neutral (n_errors n); no_exporter : neutral (n_exporter n); no_os : neutral (n_os n);
  no_strconv : neutral (n_strconv n); no_caller : neutral (n_caller n) }.

(** * small facts *)
Lemma strc_step c : strc c = true -> step LStr c = LStr /\ notnl c = true.
Proof.
  unfold strc. cbn [existsb]. intros H. apply negb_true_iff in H.
  apply orb_false_elim in H. destruct H as [H1 H]. apply orb_false_elim in H. destruct H as [H2 H].
  apply orb_false_elim in H. destruct H as [H3 _]. cbn [step]. rewrite H1, H2. unfold notnl. rewrite H3. split; reflexivity.
Qed.
Lemma strc_scan p : over strc p -> scan LStr p = LStr /\ over notnl p.
Proof.
  induction p as [|c p IH]; intros H; [split; reflexivity|]. apply over_cons in H. destruct H as [Hc Hp].
  destruct (strc_step c Hc) as [H1 H2]. destruct (IH Hp) as [H3 H4]. split.
  - unfold scan. cbn [fold_left]. rewrite H1. exact H3.
  - apply over_cons. split; assumption.
Qed.

Lemma is_ident_plainc c : is_ident c = true -> plainc c = true.
Proof.
  intros H. destruct (plainc c) eqn:P; [reflexivity|]. exfalso.
  unfold plainc in P. apply negb_false_iff in P. cbn [existsb] in P.
  repeat (apply orb_prop in P; destruct P as [P|P]; [apply Ascii.eqb_eq in P; subst c; discriminate H|]). discriminate.
Qed.
Lemma alpha_ident c : is_alpha c = true -> is_ident c = true.
Proof. intros H. unfold is_ident, is_alnum. rewrite H. reflexivity. Qed.

Lemma go_token_over x : is_go_token x = true -> over is_ident x.
Proof.
  destruct x as [|c r]; [discriminate|]. cbn [is_go_token]. intros H. apply andb_prop in H. destruct H as [H1 H2].
  apply over_cons. split; [apply alpha_ident; exact H1 | exact H2].
Qed.
Lemma go_token_plain x : is_go_token x = true -> over plainc x.
Proof. intros H. eapply over_mono; [apply is_ident_plainc | apply go_token_over; exact H]. Qed.
Lemma go_token_neutral x : is_go_token x = true -> neutral x.
Proof. intros H. apply plain_neutral, go_token_plain, H. Qed.

Lemma digits_plain : forallb (fun d => plainc (digit_char d)) (map N.of_nat (seq 0 10)) = true.
Proof. reflexivity. Qed.
Lemma digit_char_plain d : (d < 10)%N -> plainc (digit_char d) = true.
Proof.
  intros H. pose proof digits_plain as P. rewrite forallb_forall in P. apply P.
  apply in_map_iff. exists (N.to_nat d). split; [apply N2Nat.id|]. apply in_seq. lia.
Qed.
Lemma dec_pos_fuel_plain f : forall n acc, over plainc acc -> over plainc (dec_pos_fuel f n acc).
Proof.
  induction f as [|f IH]; intros n acc H; cbn [dec_pos_fuel]; [exact H|].
  destruct (N.ltb_spec n 10).
  - apply over_cons. split; [apply digit_char_plain; assumption | exact H].
  - apply IH. apply over_cons. split; [apply digit_char_plain; apply N.mod_lt; discriminate | exact H].
Qed.
Lemma dec_of_Z_plain z : over plainc (dec_of_Z z).
Proof.
  destruct z; cbn [dec_of_Z]; [reflexivity | apply dec_pos_fuel_plain; reflexivity |].
  apply over_cons. split; [reflexivity | apply dec_pos_fuel_plain; reflexivity].
Qed.

Lemma export_notnl p : prim_ok p -> over notnl (export p).
Proof.
  assert (PN : forall x, over plainc x -> over notnl x) by (intros x; apply over_mono, plainc_notnl).
  destruct p as [|[]|k t|k t|x|t]; cbn [export prim_ok]; intros H; try reflexivity.
  - destruct H. repeat apply over_app_intro; auto; reflexivity.
  - destruct H. repeat apply over_app_intro; auto; reflexivity.
  - apply quote_notnl.
  - repeat apply over_app_intro; auto; reflexivity.
Qed.
Lemma export_raw_notnl p : prim_ok p -> over notnl (export_raw p).
Proof.
  intros H. destruct p; try exact (export_notnl _ H).
  cbn [export_raw]. apply over_app_intro; [reflexivity|]. apply over_app_intro; [|reflexivity]. apply export_notnl; exact H.
Qed.

Lemma Forall_map_in {A B} (P : B -> Prop) (f : A -> B) l : (forall x, In x l -> P (f x)) -> Forall P (map f l).
Proof. intros H. apply Forall_forall. intros y Hy. apply in_map_iff in Hy. destruct Hy as [x [<- Hx]]. auto. Qed.
Lemma Forall_flat_map_in {A B} (P : B -> Prop) (f : A -> list B) l : (forall x, In x l -> Forall P (f x)) -> Forall P (flat_map f l).
Proof.
  intros H. apply Forall_forall. intros y Hy. apply in_flat_map in Hy. destruct Hy as [x [Hx Hy]].
  specialize (H x Hx). rewrite Forall_forall in H. auto.
Qed.

Lemma func_args_notnl N l : Forall (arg_ok N) l -> over notnl (func_args l).
Proof.
  intros H. unfold func_args. apply over_join; [reflexivity|].
  apply Forall_map_in. intros a Ha. rewrite Forall_forall in H. apply export_raw_notnl. exact (ao_raw N a (H a Ha)).
Qed.

(** * tactics *)
Ltac notnl_tac :=
  repeat match goal with
  | |- over notnl (_ ++ _) => apply over_app_intro
  | |- over notnl (s _) => reflexivity
  | |- over notnl [] => reflexivity
  | |- over notnl (quote _) => apply quote_notnl
  | |- over notnl (func_args _) => eapply func_args_notnl; eassumption
  | |- over notnl (export_raw _) => apply export_raw_notnl
  | |- over notnl (export _) => apply export_notnl
  | |- over notnl (match ?l with [] => _ | _ :: _ => _ end) => destruct l
  | H : neutral ?x |- over notnl ?x => exact (neutral_notnl _ H)
  | |- _ => assumption
  end.

(** a string literal of the template that is assembled from two fixed halves around a fixed label *)
Lemma sprintf_neutral label rest : neutral (s ".Sprintf(""%s.%s" ++ label ++ s "(): "", ") -> neutral rest ->
  neutral (s ".Sprintf(""%s.%s" ++ label ++ s "(): "", " ++ rest).
Proof.
  intros H1 H2. replace (s ".Sprintf(""%s.%s" ++ label ++ s "(): "", " ++ rest) with ((s ".Sprintf(""%s.%s" ++ label ++ s "(): "", ") ++ rest).
  - apply neutral_app; assumption.
  - rewrite <- !app_assoc. reflexivity.
Qed.

Ltac neu_tac :=
  repeat match goal with
  | |- neutral (s ".Sprintf(""%s.%s" ++ _ ++ s "(): "", " ++ _) => apply sprintf_neutral; [reflexivity|]
  | |- neutral (_ ++ _) => apply neutral_app
  | |- neutral (s _) => reflexivity
  | |- neutral [] => reflexivity
  | |- neutral (quote _) => apply quote_neutral
  | |- neutral (dec_of_Z _) => apply plain_neutral, dec_of_Z_plain
  | |- _ => assumption
  end.

Ltac line_tac :=
  match goal with
  | |- line_ok [] => reflexivity
  | |- line_ok (s _) => reflexivity
  | |- line_ok _ => first [ apply comment_line_ok, comment_line_intro; [reflexivity | reflexivity | notnl_tac]
                          | apply neutral_line_ok; neu_tac ]
  end.

Ltac lines_tac :=
  repeat match goal with
  | |- Forall _ (_ ++ _) => apply Forall_app; split
  | |- Forall _ (_ :: _) => apply Forall_cons
  | |- Forall _ [] => apply Forall_nil
  end.

Lemma lines_b l : forallb line_okb l = true -> Forall line_ok l.
Proof. apply Forall_b. Qed.
Lemma comments_b l : forallb (fun l => has_prefix (s "//") l && forallb notnl l) l = true -> Forall comment_line l.
Proof. apply Forall_b. Qed.

Section WithEnv.
Variable E : env.

(** * ITEM 2: the header comment sections *)
Lemma banner_comments : Forall comment_line (banner (s "PARAMS") 35) /\ Forall comment_line (banner (s "SERVICES") 34).
Proof. split; apply comments_b; vm_compute; reflexivity. Qed.

Lemma dots76_notnl : over notnl dots76. Proof. vm_compute. reflexivity. Qed.

Ltac com_tac := apply comment_line_intro; [reflexivity | reflexivity | notnl_tac].

Section Comments.
Variable N : str -> Prop.
Hypothesis N_notnl : forall x, N x -> over notnl x.

Theorem params_comment_lines ps : Forall (param_ok N) ps -> Forall comment_line (params_comment ps).
Proof.
  intros H. unfold params_comment. apply Forall_app. split.
  - destruct ps; [constructor | apply banner_comments].
  - apply Forall_flat_map_in. intros p Hp. rewrite Forall_forall in H. destruct (H p Hp) as [Hn Hc Hr]. apply N_notnl in Hc.
    lines_tac; com_tac. apply dots76_notnl.
Qed.

Theorem service_comment_lines ds sv : Forall (deco_ok N) ds -> svc_ok N sv -> Forall comment_line (service_comment ds sv).
Proof.
  intros Hd [Hn Hg Ht Hv Hc Ha Hcs Hf]. apply N_notnl in Ht. apply N_notnl in Hv. apply N_notnl in Hc.
  unfold service_comment. apply Forall_cons; [com_tac|].
  apply Forall_app. split; [|lines_tac; com_tac; apply dots76_notnl].
  destruct (os_todo sv); [apply comments_b; reflexivity|].
  repeat (apply Forall_app; split).
  - lines_tac. destruct (os_value sv) as [|c0 r0]; [destruct (os_type sv) as [|c1 r1]|]; [reflexivity | com_tac | com_tac].
  - destruct (os_constructor sv) as [|c0 r0]; [constructor|]. lines_tac. com_tac.
  - apply Forall_map_in. intros f Hf'. rewrite Forall_forall in Hf. destruct (Hf f Hf') as [Hf1 [Hf2 Hf3]]. com_tac.
  - apply Forall_map_in. intros c Hc'. rewrite Forall_forall in Hcs. destruct (Hcs c Hc') as [Hc1 Hc2].
    destruct (oc_immutable c); com_tac.
  - apply Forall_flat_map_in. intros d Hd'. rewrite Forall_forall in Hd. destruct (Hd d Hd') as [Hd1 Hd2]. apply N_notnl in Hd1.
    destruct (is_tagged sv (od_tag d)); [|constructor]. lines_tac. com_tac.
Qed.

Theorem services_comment_lines o : out_ok N o -> Forall comment_line (services_comment o).
Proof.
  intros [_ _ _ _ Hs Hd]. unfold services_comment. apply Forall_app. split; [apply banner_comments|].
  apply Forall_flat_map_in. intros sv Hsv. rewrite Forall_forall in Hs. apply service_comment_lines; auto.
Qed.
End Comments.

(** * the alias table and the names the template asks for *)
Lemma local_name_go_token n p : is_go_token (local_name n p) = true.
Proof.
  destruct (local_name_go_identifier n p) as [[t Ht] [_ Hid]]. rewrite Ht in *. cbn [is_go_token]. apply andb_true_iff. split; [reflexivity|].
  inversion Hid as [|? ? _ Hr]; subst. apply forallb_forall. intros c Hc. rewrite Forall_forall in Hr. specialize (Hr c Hc).
  unfold is_ident, is_underscore. destruct Hr as [Hr| ->]; [rewrite Hr; reflexivity | reflexivity].
Qed.

Lemma alias_abs_ok st p a st' : imports_ok st -> over strc p -> alias_abs st p = (a, st') -> is_go_token a = true /\ imports_ok st'.
Proof.
  intros Hst Hp. unfold alias_abs. destruct (lookup p (is_imports st)) as [a0|] eqn:L; intros H; injection H as <- <-.
  - split; [|exact Hst]. apply lookup_Some_In in L. apply (Hst _ _ L).
  - split; [apply local_name_go_token|]. intros q b Hin. cbn [is_imports] in Hin. apply in_app_or in Hin.
    destruct Hin as [Hin|[Hin|[]]]; [exact (Hst _ _ Hin)|]. injection Hin as <- <-. split; [exact Hp | apply local_name_go_token].
Qed.

Definition env_paths_ok : Prop := over strc (k_helper_path E).

Lemma helper_strc sub : env_paths_ok -> over strc sub -> over strc (helper E sub).
Proof. intros H Hs. unfold helper. repeat apply over_app_intro; [exact H | reflexivity | exact Hs]. Qed.

Ltac alias_step Hi :=
  match goal with
  | |- context [alias_abs ?st ?p] =>
    let a := fresh "a" in let st' := fresh "st" in let Ea := fresh "Ea" in let Ha := fresh "Ha" in let Hi' := fresh "Hi" in
    destruct (alias_abs st p) as [a st'] eqn:Ea;
    destruct (alias_abs_ok st p a st' Hi ltac:(first [reflexivity | apply helper_strc; [assumption | reflexivity]]) Ea) as [Ha Hi'];
    apply go_token_neutral in Ha
  end.

Lemma body_names_ok stub o i0 n i1 : env_paths_ok -> imports_ok i0 -> body_names E stub o i0 = (n, i1) -> names_ok n /\ imports_ok i1.
Proof.
  intros HE Hi0. unfold body_names.
  alias_step Hi0. alias_step Hi. alias_step Hi1.
  destruct stub.
  { intros H; injection H as <- <-. split; [constructor; cbn; neu_tac | assumption]. }
  destruct (has_getter o).
  - alias_step Hi2. alias_step Hi3. alias_step Hi4.
    destruct (has_todo o).
    + alias_step Hi5. alias_step Hi6. alias_step Hi7. alias_step Hi8. alias_step Hi9. alias_step Hi10. alias_step Hi11.
      intros H; injection H as <- <-. split; [constructor; cbn; neu_tac | assumption].
    + alias_step Hi5. alias_step Hi6. alias_step Hi7. alias_step Hi8. alias_step Hi9. alias_step Hi10.
      intros H; injection H as <- <-. split; [constructor; cbn; neu_tac | assumption].
  - destruct (has_todo o).
    + alias_step Hi2. alias_step Hi3. alias_step Hi4. alias_step Hi5. alias_step Hi6. alias_step Hi7. alias_step Hi8.
      intros H; injection H as <- <-. split; [constructor; cbn; neu_tac | assumption].
    + alias_step Hi2. alias_step Hi3. alias_step Hi4. alias_step Hi5. alias_step Hi6. alias_step Hi7.
      intros H; injection H as <- <-. split; [constructor; cbn; neu_tac | assumption].
Qed.

(** * ITEM 4, rendering side: every line of the file *)
Ltac ln := lines_tac; try line_tac.

Lemma print_method_lines ct m : neutral ct -> neutral (mt_name m) -> neutral (mt_params m) -> neutral (mt_results m) ->
  Forall line_ok (mt_body m) -> Forall line_ok (print_method ct m).
Proof. intros Hct H1 H2 H3 H4. unfold print_method. ln. exact H4. Qed.

Lemma getter_methods_lines stub n ct sv : names_ok n -> neutral ct -> svc_ok neutral sv ->
  Forall (fun m => Forall line_ok (print_method ct m)) (getter_methods stub n ct sv).
Proof.
  intros [Hc Hcx Hrf Hge Hfm Hcp Her Hex Hos Hsc Hca] Hct [Hn Hg Ht Hv Hco Ha Hcs Hf]. unfold getter_methods.
  destruct (os_getter sv) as [|g0 g1] eqn:Eg; [constructor|]. rewrite <- Eg in *. clear Eg g0 g1.
  assert (Hres : neutral (if stub then s "(" ++ os_type sv ++ s ", error)" else s "(result " ++ os_type sv ++ s ", err error)"))
    by (destruct stub; neu_tac).
  assert (Hctx : neutral (s "ctx " ++ n_context n ++ s ".Context")) by neu_tac.
  apply Forall_app. split.
  - lines_tac; apply print_method_lines; cbn [mt_name mt_params mt_results mt_body]; try assumption; neu_tac;
      (destruct stub; [apply lines_b; reflexivity|]); ln.
  - destruct (os_must_getter sv); [|constructor].
    lines_tac; apply print_method_lines; cbn [mt_name mt_params mt_results mt_body]; try assumption; neu_tac;
      (destruct stub; [apply lines_b; reflexivity|]); ln.
Qed.

Lemma all_getter_methods_lines stub n o : names_ok n -> out_ok neutral o ->
  Forall line_ok (flat_map (print_method (om_type (o_meta o))) (all_getter_methods stub n o)).
Proof.
  intros Hn [_ Ht _ _ Hs _]. apply Forall_flat_map_in. intros m Hm. unfold all_getter_methods in Hm.
  apply in_flat_map in Hm. destruct Hm as [sv [Hsv Hm]]. rewrite Forall_forall in Hs.
  pose proof (getter_methods_lines stub n _ sv Hn Ht (Hs sv Hsv)) as H. rewrite Forall_forall in H. exact (H m Hm).
Qed.

Lemma iface_getters_lines n sv : names_ok n -> svc_ok neutral sv -> Forall line_ok (iface_getters n sv).
Proof.
  intros [Hc Hcx Hrf Hge Hfm Hcp Her Hex Hos Hsc Hca] [Hn Hg Ht Hv Hco Ha Hcs Hf]. unfold iface_getters.
  destruct (os_getter sv) as [|g0 g1] eqn:Eg; [constructor|]. rewrite <- Eg in *. clear Eg g0 g1.
  apply Forall_app. split; [ln|]. destruct (os_must_getter sv); ln.
Qed.

Lemma init_decl_lines n o : names_ok n -> out_ok neutral o -> Forall line_ok (init_decl n o).
Proof.
  intros Hn Ho. pose proof Hn as [Hc Hcx Hrf Hge Hfm Hcp Her Hex Hos Hsc Hca]. pose proof Ho as [Hp Ht Hct _ Hs _].
  unfold init_decl. ln. apply Forall_flat_map_in. intros sv Hsv. rewrite Forall_forall in Hs. apply iface_getters_lines; auto.
Qed.

Lemma arg_lines_ok l : Forall (arg_ok neutral) l -> Forall line_ok (arg_lines l).
Proof.
  intros H. unfold arg_lines. apply Forall_flat_map_in. intros a Ha. rewrite Forall_forall in H. destruct (H a Ha) as [H1 H2]. ln.
Qed.

Lemma service_block_lines n sv : names_ok n -> svc_ok neutral sv -> Forall line_ok (service_block n sv).
Proof.
  intros [Hc Hcx Hrf Hge Hfm Hcp Her Hex Hos Hsc Hca] [Hn Hg Ht Hv Hco Ha Hcs Hf]. unfold service_block.
  apply Forall_app. split; [ln|]. apply Forall_app. split; [|ln].
  destruct (os_todo sv); [ln|].
  repeat (apply Forall_app; split).
  - destruct (os_constructor sv) as [|c0 r0] eqn:Ec.
    + destruct (os_value sv) as [|v0 v1] eqn:Ev.
      * destruct (os_type sv) as [|t0 t1] eqn:Et; ln.
      * ln. destruct (os_type sv); neu_tac.
    + rewrite <- Ec in *. ln. apply arg_lines_ok; exact Ha.
  - apply Forall_map_in. intros f Hf'. rewrite Forall_forall in Hf. destruct (Hf f Hf') as [Hf1 [Hf2 Hf3]]. line_tac.
  - apply Forall_flat_map_in. intros c Hc'. rewrite Forall_forall in Hcs. destruct (Hcs c Hc') as [Hc1 Hc2].
    ln; [destruct (oc_immutable c); reflexivity | apply arg_lines_ok; exact Hc2].
  - apply Forall_map_in. intros t _. line_tac.
  - ln. destruct (os_scope sv); reflexivity.
Qed.

Lemma constructor_body_lines n o : names_ok n -> out_ok neutral o -> Forall line_ok (constructor_body n o).
Proof.
  intros Hn Ho. pose proof Hn as [Hc Hcx Hrf Hge Hfm Hcp Her Hex Hos Hsc Hca]. pose proof Ho as [Hp Ht Hct Hps Hs Hds].
  unfold constructor_body. repeat (apply Forall_app; split).
  - ln.
  - destruct (o_params o); [constructor | apply lines_b; reflexivity].
  - apply Forall_flat_map_in. intros p Hp'. rewrite Forall_forall in Hps. destruct (Hps p Hp') as [Hp1 Hp2 Hp3]. ln.
  - destruct (o_services o); [constructor | apply lines_b; reflexivity].
  - apply Forall_flat_map_in. intros sv Hsv. rewrite Forall_forall in Hs. apply service_block_lines; auto.
  - destruct (o_decorators o); [constructor | apply lines_b; reflexivity].
  - apply Forall_flat_map_in. intros d Hd. rewrite Forall_forall in Hds. destruct (Hds d Hd) as [Hd1 Hd2]. ln.
    apply Forall_map_in. intros a Ha. rewrite Forall_forall in Hd2. destruct (Hd2 a Ha) as [Ha1 Ha2]. line_tac.
  - ln.
Qed.

Lemma constructor_decl_lines stub n o : names_ok n -> out_ok neutral o -> Forall line_ok (constructor_decl stub n o).
Proof.
  intros Hn Ho. pose proof Ho as [Hp Ht Hct Hps Hs Hds]. unfold constructor_decl. destruct stub; [ln|].
  ln. apply Forall_map_in. intros l Hl. apply tab_line_ok.
  pose proof (constructor_body_lines n o Hn Ho) as H. rewrite Forall_forall in H. exact (H l Hl).
Qed.

Lemma helper_decls_lines n ct : names_ok n -> neutral ct -> Forall line_ok (helper_decls n ct).
Proof.
  intros [Hc Hcx Hrf Hge Hfm Hcp Her Hex Hos Hsc Hca] Hct. unfold helper_decls, dep_note, env_missing. ln.
Qed.

Lemma comment_lines_ok l : Forall comment_line l -> Forall line_ok l.
Proof. apply Forall_impl. exact comment_line_ok. Qed.

Theorem body_lines_ok stub o n : names_ok n -> out_ok neutral o -> Forall line_ok (body_lines stub o n).
Proof.
  intros Hn Ho. pose proof Hn as [Hc Hcx Hrf Hge Hfm Hcp Her Hex Hos Hsc Hca]. pose proof Ho as [Hp Ht Hct Hps Hs Hds].
  unfold body_lines.
  apply Forall_app; split.
  { destruct stub; [constructor|].
    apply Forall_app; split; [apply comment_lines_ok, (params_comment_lines neutral neutral_notnl); exact Hps|]. apply Forall_cons; [reflexivity|].
    apply Forall_app; split; [apply comment_lines_ok, (services_comment_lines neutral neutral_notnl); exact Ho | apply lines_b; reflexivity]. }
  apply Forall_app; split; [ln|].
  apply Forall_app; split; [apply init_decl_lines; assumption|].
  apply Forall_app; split; [apply all_getter_methods_lines; assumption|].
  apply Forall_app; split; [apply constructor_decl_lines; assumption|].
  destruct stub; [constructor | apply helper_decls_lines; assumption].
Qed.

(** the import block: [alias "path"], the path is NOT passed through [quote] *)
Definition import_line (l : str) : Prop :=
  exists a p, l = a ++ s " """ ++ p ++ s """" /\ is_go_token a = true /\ over strc p.

Lemma import_line_ok l : import_line l -> line_ok l.
Proof.
  intros [a [p [-> [Ha Hp]]]]. destruct (strc_scan p Hp) as [H1 H2]. apply neutral_line_ok, neutral_iff. split.
  - repeat apply over_app_intro; try reflexivity; [|exact H2]. apply neutral_notnl, go_token_neutral, Ha.
  - pose proof (go_token_neutral a Ha) as Na. apply neutral_iff in Na. destruct Na as [_ Na].
    rewrite !scan_app, Na. change (scan LCode (s " """)) with LStr. rewrite H1. reflexivity.
Qed.

Lemma import_lines i : imports_ok i -> Forall import_line (map (fun kv => snd kv ++ s " """ ++ fst kv ++ s """") (imports_sorted i)).
Proof.
  intros Hi. apply Forall_map_in. intros [p a] Hin. apply imports_sorted_In in Hin. destruct (Hi _ _ Hin) as [Hp Ha].
  exists a, p. cbn [fst snd]. auto.
Qed.

Theorem head_lines_ok stub bi o i : over notnl bi -> neutral (om_pkg (o_meta o)) -> imports_ok i -> Forall line_ok (head_lines stub bi o i).
Proof.
  intros Hb Hp Hi. unfold head_lines. repeat (apply Forall_app; split).
  - destruct stub; [apply lines_b; reflexivity | constructor].
  - ln.
  - eapply Forall_impl; [exact import_line_ok | apply import_lines; exact Hi].
  - ln.
Qed.

Theorem render_lines_ok stub bi o i : env_paths_ok -> over notnl bi -> out_ok neutral o -> imports_ok i ->
  Forall line_ok (fst (render E stub bi o i)) /\ imports_ok (snd (render E stub bi o i)).
Proof.
  intros HE Hb Ho Hi. unfold render. destruct (body_names E stub o i) as [n i1] eqn:Eb.
  destruct (body_names_ok stub o i n i1 HE Hi Eb) as [Hn Hi1]. cbn [fst snd]. split; [|exact Hi1].
  apply Forall_app. split; [apply head_lines_ok; [exact Hb | apply Ho | exact Hi1] | apply body_lines_ok; assumption].
Qed.

End WithEnv.

(** Part D: from a validated input to a well-formed compiled output (ITEM 3) *)

(** * the languages of emitted expressions *)
(** [alias.]Name *)
Definition qual (x : str) : Prop :=
  is_go_token x = true \/ exists a f, x = a ++ "."%char :: f /\ is_go_token a = true /\ is_go_token f = true.
(** [*][alias.]Type *)
Definition type_expr (x : str) : Prop := exists q, qual q /\ (x = q \/ x = "*"%char :: q).
(** Name(.Name)* *)
Inductive dotted : str -> Prop :=
| dotted_one t : is_go_token t = true -> dotted t
| dotted_more t r : is_go_token t = true -> dotted r -> dotted (t ++ "."%char :: r).
(** [&][alias.]Value[.Field]*  or  [&][alias.]Struct{}; the last component is allowed to be empty: that is what the text would be for
    an expression outside the validated language, and the capture theorems at hand do not exclude it for a matched alternative *)
Definition value_expr (x : str) : Prop :=
  exists p parts v, (p = [] \/ p = s "&") /\ (parts = [] \/ exists a, parts = [a] /\ is_go_token a = true) /\
    ((x = p ++ join (s ".") (parts ++ [v]) /\ (v = [] \/ dotted v)) \/
     (x = p ++ join (s ".") (parts ++ [v]) ++ s "{}" /\ (v = [] \/ is_go_token v = true))).

Lemma qual_plain x : qual x -> over plainc x.
Proof.
  intros [H|[a [f [-> [Ha Hf]]]]]; [apply go_token_plain; exact H|].
  apply over_app_intro; [apply go_token_plain; exact Ha|]. apply over_cons. split; [reflexivity | apply go_token_plain; exact Hf].
Qed.
Lemma type_expr_plain x : type_expr x -> over plainc x.
Proof. intros [q [Hq [->| ->]]]; [apply qual_plain; exact Hq|]. apply over_cons. split; [reflexivity | apply qual_plain; exact Hq]. Qed.
Lemma dotted_plain x : dotted x -> over plainc x.
Proof.
  induction 1 as [t Ht|t r Ht Hr IH]; [apply go_token_plain; exact Ht|].
  apply over_app_intro; [apply go_token_plain; exact Ht|]. apply over_cons. split; [reflexivity | exact IH].
Qed.
Lemma value_expr_plain x : value_expr x -> over plainc x.
Proof.
  intros [p [parts [v [Hp [Hparts Hx]]]]].
  assert (P1 : over plainc p) by (destruct Hp as [->| ->]; reflexivity).
  assert (P2 : forall v, over plainc v -> over plainc (join (s ".") (parts ++ [v]))).
  { intros w Hw. apply over_join; [reflexivity|]. apply Forall_app. split; [|repeat constructor; exact Hw].
    destruct Hparts as [->|[a [-> Ha]]]; [constructor|]. repeat constructor. apply go_token_plain; exact Ha. }
  destruct Hx as [[-> Hv]|[-> Hv]].
  - apply over_app_intro; [exact P1|]. apply P2. destruct Hv as [->|Hv]; [reflexivity | apply dotted_plain; exact Hv].
  - apply over_app_intro; [exact P1|]. apply over_app_intro; [|reflexivity].
    apply P2. destruct Hv as [->|Hv]; [reflexivity | apply go_token_plain; exact Hv].
Qed.

(** * import paths *)
Definition pathQ (c : ascii) : bool := is_pathc c || is_slash c.

Lemma pathQ_strc c : pathQ c = true -> strc c = true.
Proof.
  intros H. destruct (strc c) eqn:P; [reflexivity|]. exfalso.
  unfold strc in P. apply negb_false_iff in P. cbn [existsb] in P.
  repeat (apply orb_prop in P; destruct P as [P|P]; [apply Ascii.eqb_eq in P; subst c; discriminate H|]). discriminate.
Qed.
Lemma pathQ_notdq c : pathQ c = true -> c <> dq.
Proof. intros H ->. discriminate H. Qed.

Lemma base_import_over x : is_base_import x = true -> over pathQ x.
Proof.
  destruct x as [|c r]; [discriminate|]. cbn [is_base_import]. intros H. apply andb_prop in H. destruct H as [Hc Hr].
  apply over_cons. split.
  - unfold pathQ, is_pathc. rewrite (alpha_alnum c Hc). reflexivity.
  - apply sep_groups_chars in Hr. apply over_intro. intros d Hd. rewrite Forall_forall in Hr.
    unfold pathQ. destruct (Hr d Hd) as [H| H]; rewrite H; [reflexivity | apply orb_true_r].
Qed.

(** syntax.SanitizeImport on a captured import *)
Lemma trim_left_notin c x : ~ In c x -> trim_left c x = x.
Proof.
  destruct x as [|d x]; intros H; [reflexivity|]. cbn [trim_left].
  destruct (Ascii.eqb_spec c d) as [->|]; [exfalso; apply H; left; reflexivity | reflexivity].
Qed.
Lemma trim_both_notin c x : ~ In c x -> trim_both c x = x.
Proof.
  intros H. unfold trim_both. rewrite (trim_left_notin c x H). rewrite trim_left_notin; [apply rev_involutive|].
  intros Hin. apply in_rev in Hin. exact (H Hin).
Qed.
Lemma base_import_nodq y : is_base_import y = true -> ~ In dq y.
Proof. intros H Hin. apply base_import_over in H. exact (pathQ_notdq _ (over_In _ _ _ H Hin) eq_refl). Qed.

Lemma trim_both_quoted y : is_base_import y = true -> trim_both dq (dq :: y ++ [dq]) = y.
Proof.
  intros H. pose proof (base_import_nodq y H) as Hn. unfold trim_both. cbn [trim_left]. change (Ascii.eqb dq dq) with true. cbn iota.
  assert (E1 : trim_left dq (y ++ [dq]) = y ++ [dq]).
  { destruct y as [|c y]; [discriminate H|]. cbn [app trim_left].
    destruct (Ascii.eqb_spec dq c) as [<-|]; [exfalso; apply Hn; left; reflexivity | reflexivity]. }
  rewrite E1, rev_app_distr. cbn [rev app trim_left]. change (Ascii.eqb dq dq) with true. cbn iota.
  rewrite trim_left_notin; [apply rev_involutive|]. intros Hin. apply in_rev in Hin. exact (Hn Hin).
Qed.

Definition import_cap (v : str) : Prop := v = [] \/ Sem Langs.import v.
Definition import_clean (r : str) : Prop := r = [] \/ is_base_import r = true.

Section WithEnv.
Variable E : env.
(** [Q]: the byte class import paths are kept in ([pathQ] for the lexical statement); [N]: the property of emitted code pieces *)
Variable Q : ascii -> bool.
Hypothesis Q_path : forall c, pathQ c = true -> Q c = true.
Variable N : str -> Prop.
Hypothesis N_neutral : forall x, neutral x -> N x.
Hypothesis N_app : forall a b, N a -> N b -> N (a ++ b).

Lemma lit_Q x : over pathQ x -> over Q x.
Proof. apply over_mono. exact Q_path. Qed.
Lemma base_Q x : is_base_import x = true -> over Q x.
Proof. intros H. apply lit_Q, base_import_over, H. Qed.
Lemma go_token_N x : is_go_token x = true -> N x.
Proof. intros H. apply N_neutral, go_token_neutral, H. Qed.
Lemma plain_N x : over plainc x -> N x.
Proof. intros H. apply N_neutral, plain_neutral, H. Qed.
Lemma fmt1_N tpl a : tpl_ok tpl -> N a -> N (fmt1 tpl a).
Proof.
  intros [pre [post [Hpre [Hpost [H|H]]]]] Ha; rewrite H.
  - apply N_app; [apply N_neutral; exact Hpre|]. apply N_app; [exact Ha | apply N_neutral; exact Hpost].
  - apply N_app; [apply N_neutral; exact Hpre|]. apply N_app; [apply N_neutral, quote_neutral | apply N_neutral; exact Hpost].
Qed.
Lemma N_join sep l : neutral sep -> Forall N l -> N (join sep l).
Proof.
  intros Hs Hl. induction Hl as [|x l Hx Hl IH]; [apply N_neutral; reflexivity|].
  destruct l as [|y l]; [exact Hx|]. change (join sep (x :: y :: l)) with (x ++ sep ++ join sep (y :: l)).
  apply N_app; [exact Hx|]. apply N_app; [apply N_neutral; exact Hs | exact IH].
Qed.

Ltac n_tac :=
  repeat match goal with
  | |- N (_ ++ _) => apply N_app
  | |- N (s _) => apply N_neutral; reflexivity
  | |- N [] => apply N_neutral; reflexivity
  | |- N (quote _) => apply N_neutral, quote_neutral
  | |- _ => assumption
  end.

(** the alias table holds only paths over [A-Za-z0-9._/-] and local names that are Go identifiers *)
Definition ist_ok (st : ist) : Prop :=
  (forall p a, In (p, a) (is_imports st) -> over Q p /\ is_go_token a = true) /\
  (forall a p, In (a, p) (is_prefixes st) -> over Q p).

Lemma ist_ok_0 : ist_ok ist0.
Proof. split; intros ? ? []. Qed.

Lemma ist_alias_abs st p a st' : ist_ok st -> over Q p -> alias_abs st p = (a, st') -> is_go_token a = true /\ ist_ok st'.
Proof.
  intros [Hi Hp] Hpath. unfold alias_abs. destruct (lookup p (is_imports st)) as [a0|] eqn:L; intros H; injection H as <- <-.
  - split; [|split; assumption]. apply lookup_Some_In in L. apply (Hi _ _ L).
  - split; [apply local_name_go_token|]. split; [|exact Hp]. intros q b Hin. cbn [is_imports] in Hin. apply in_app_or in Hin.
    destruct Hin as [Hin|[Hin|[]]]; [exact (Hi _ _ Hin)|]. injection Hin as <- <-. split; [exact Hpath | apply local_name_go_token].
Qed.

Lemma Q_slash : Q "/"%char = true.
Proof. apply Q_path. reflexivity. Qed.

Lemma decorate_over st imp : ist_ok st -> over Q imp -> over Q (decorate_import st imp).
Proof.
  intros [_ Hp] Himp. destruct (decorate_import_cases st imp) as [->|[seg [path [_ [L [[_ ->]|[r [Er ->]]]]]]]]; [exact Himp| |].
  - apply lookup_Some_In in L. exact (Hp _ _ L).
  - apply lookup_Some_In in L. apply over_app_intro; [exact (Hp _ _ L)|]. apply over_cons. split; [exact Q_slash|].
    rewrite Er in Himp. apply over_app in Himp. destruct Himp as [_ Himp]. apply over_cons in Himp. apply Himp.
Qed.

Lemma ist_alias st imp a st' : ist_ok st -> over Q imp -> alias st imp = (a, st') -> is_go_token a = true /\ ist_ok st'.
Proof. intros Hst Himp. unfold alias. apply ist_alias_abs; [exact Hst | apply decorate_over; assumption]. Qed.


Lemma sanitize_import_ok v : import_cap v -> import_clean (sanitize_import v).
Proof.
  intros [->|H]; [left; reflexivity|]. apply import_sem, is_import_iff in H.
  change (sanitize_import v) with (if str_eqb (trim_both dq v) (s ".") then [] else trim_both dq v).
  destruct H as [H|[[y [-> H]]| ->]].
  - rewrite (trim_both_notin dq v (base_import_nodq v H)).
    destruct (str_eqb_spec v (s ".")) as [->|_]; [discriminate H | right; exact H].
  - rewrite (trim_both_quoted y H). destruct (str_eqb_spec y (s ".")) as [->|_]; [discriminate H | right; exact H].
  - left. reflexivity.
Qed.

Lemma qualify_ok st imp name q st' : ist_ok st -> import_cap imp -> is_go_token name = true ->
  qualify st imp name = (q, st') -> qual q /\ ist_ok st'.
Proof.
  intros Hst Himp Hname. unfold qualify. destruct (sanitize_import_ok imp Himp) as [->|Hb].
  - intros H; injection H as <- <-. split; [left; exact Hname | exact Hst].
  - destruct (sanitize_import imp) as [|c r] eqn:Es; [discriminate Hb|]. rewrite <- Es in *.
    destruct (alias st (sanitize_import imp)) as [a st1] eqn:Ea. intros H; injection H as <- <-.
    destruct (ist_alias _ _ _ _ Hst (base_Q _ Hb) Ea) as [Ha Hst1]. split; [|exact Hst1].
    right. exists a, name. auto.
Qed.

(** * what the model needs to know about the regenerated constants (all of it is checked for [the_env] below) *)
Definition group_over (P : ascii -> bool) (st : site) (n : str) : bool :=
  forallb (re_over P) (cap_bodies (name_idx st n) (site_re st)).
Definition site_over (P : ascii -> bool) (st : site) : bool := site_end st && re_over P (site_re st).
Definition rk_lex (k : resolver_kind) : Prop := match k with RFixed _ v => neutral v | _ => True end.
Definition dotted_re : re := Cat go_token (Star (Cat (chr 46) go_token)).

Record env_lex : Prop := {
  el_steps : w_compiler_steps E = [CValidate; CMeta; CParams; CServices; CDecorators];
  el_helper : over pathQ (k_helper_path E);
  el_pkg : is_go_token (k_default_pkg E) = true;
  el_type : is_go_token (k_default_type E) = true;
  el_ctor : is_go_token (k_default_ctor E) = true;
  el_t_service : tpl_ok (k_tpl_dep_service E); el_t_tag : tpl_ok (k_tpl_dep_tag E); el_t_value : tpl_ok (k_tpl_dep_value E);
  el_t_provider : tpl_ok (k_tpl_dep_provider E); el_t_concat : tpl_ok (k_tpl_dep_concat E);
  el_t_getparam : tpl_ok (k_tpl_tok_getparam E); el_t_tokprov : tpl_ok (k_tpl_tok_provider E);
  el_arg_chain : Forall rk_lex (w_arg_chain E);
  el_param_chain : Forall rk_lex (w_param_chain E);
  (* languages of the validators *)
  el_v_ServiceName : forall x, site_match (re_in_ServiceName E) x = true -> is_yaml_token x = true;
  el_v_ParamName : forall x, site_match (re_in_ParamName E) x = true -> is_yaml_token x = true;
  el_v_ServiceTag : forall x, site_match (re_in_ServiceTag E) x = true -> is_yaml_token x = true;
  el_v_DecoratorsTag : forall x, site_match (re_in_DecoratorsTag E) x = true -> x = ["*"%char] \/ is_yaml_token x = true;
  el_v_ServiceGetter : forall x, site_match (re_in_ServiceGetter E) x = true -> is_go_token x = true;
  el_v_ServiceCallName : forall x, site_match (re_in_ServiceCallName E) x = true -> is_go_token x = true;
  el_v_ServiceFieldName : forall x, site_match (re_in_ServiceFieldName E) x = true -> is_go_token x = true;
  el_v_MetaPkg : forall x, site_match (re_in_MetaPkg E) x = true -> is_go_token x = true;
  el_v_MetaContainerType : forall x, site_match (re_in_MetaContainerType E) x = true -> is_go_token x = true;
  el_v_MetaContainerConstructor : forall x, site_match (re_in_MetaContainerConstructor E) x = true -> is_go_token x = true;
  el_v_MetaImport : forall x, site_match (re_in_MetaImport E) x = true -> is_import x = true;
  (* what the validator accepts, the compiler's expression matches *)
  el_vc_ServiceType : forall x, site_match (re_in_ServiceType E) x = true -> site_submatch (re_co_ServiceType E) x <> None;
  el_vc_ServiceConstructor : forall x, site_match (re_in_ServiceConstructor E) x = true -> site_submatch (re_co_ServiceConstructor E) x <> None;
  el_vc_DecoratorMethod : forall x, site_match (re_in_DecoratorMethod E) x = true -> site_submatch (re_co_DecoratorMethod E) x <> None;
  el_vc_MetaGoFn : forall x, site_match (re_in_MetaGoFn E) x = true -> site_submatch (re_co_MetaGoFn E) x <> None;
  (* languages of the named groups the compiler reads *)
  el_g_type_ptr : group_lang (re_co_ServiceType E) (s "ptr") (chr 42) = true;
  el_g_type_import : group_lang (re_co_ServiceType E) (s "import") Langs.import = true;
  el_g_type_type : group_lang (re_co_ServiceType E) (s "type") go_token = true;
  el_m_type_type : group_must (re_co_ServiceType E) (s "type") = true;
  el_g_ctor_import : group_lang (re_co_ServiceConstructor E) (s "import") Langs.import = true;
  el_g_ctor_fn : group_lang (re_co_ServiceConstructor E) (s "fn") go_token = true;
  el_m_ctor_fn : group_must (re_co_ServiceConstructor E) (s "fn") = true;
  el_g_deco_import : group_lang (re_co_DecoratorMethod E) (s "import") Langs.import = true;
  el_g_deco_fn : group_lang (re_co_DecoratorMethod E) (s "fn") go_token = true;
  el_m_deco_fn : group_must (re_co_DecoratorMethod E) (s "fn") = true;
  el_g_gofn_import : group_lang (re_co_MetaGoFn E) (s "import") Langs.import = true;
  el_g_gofn_fn : group_lang (re_co_MetaGoFn E) (s "fn") go_token = true;
  el_m_gofn_fn : group_must (re_co_MetaGoFn E) (s "fn") = true;
  el_g_val_ptr : group_lang (re_sy_ServiceValue E) (s "ptr") (chr 38) = true;
  el_g_val_import : group_lang (re_sy_ServiceValue E) (s "import") Langs.import = true;
  el_g_val_value : group_lang (re_sy_ServiceValue E) (s "value") dotted_re = true;
  el_g_val_ptr2 : group_lang (re_sy_ServiceValue E) (s "ptr2") (chr 38) = true;
  el_g_val_import2 : group_lang (re_sy_ServiceValue E) (s "import2") Langs.import = true;
  el_g_val_struct2 : group_lang (re_sy_ServiceValue E) (s "struct2") go_token = true;
  el_g_service : group_over plainc (re_rs_service E) (s "service") = true;
  el_g_tagged : group_over plainc (re_rs_tagged E) (s "tag") = true;
  el_tokenref : site_over plainc (re_tk_TokenRef E) = true;
  el_fnargs_nl : group_over notnl (re_tk_SimpleFn E) (s "params") = true
}.

Lemma site_over_match P st x : site_over P st = true -> site_match st x = true -> over P x.
Proof.
  unfold site_over, site_match. intros H M. apply andb_prop in H. destruct H as [He Hr]. rewrite He in M.
  apply dmatch_spec in M. eapply re_over_sound; eassumption.
Qed.

Lemma smatch_cases st x : (exists c, site_submatch st x = Some c /\ smatch st x = c) \/ (site_submatch st x = None /\ smatch st x = []).
Proof. unfold smatch. destruct (site_submatch st x) as [c|]; [left; exists c; auto | right; auto]. Qed.

Lemma sub_nil st n : sub st [] n = [].
Proof. reflexivity. Qed.

Lemma smatch_lang st x n spec : group_lang st n spec = true ->
  sub st (smatch st x) n = [] \/ Sem spec (sub st (smatch st x) n).
Proof.
  intros G. destruct (smatch_cases st x) as [[c [H ->]]|[_ ->]]; [|left; reflexivity].
  destruct (sub_lang _ _ _ n spec H G) as [H1|[H1 _]]; auto.
Qed.

Lemma smatch_lang_must st x n spec : site_submatch st x <> None -> group_lang st n spec = true -> group_must st n = true ->
  Sem spec (sub st (smatch st x) n).
Proof.
  intros D G M. destruct (smatch_cases st x) as [[c [H ->]]|[H _]]; [|contradiction].
  apply (sub_lang_must _ _ _ n spec H G M).
Qed.

Lemma smatch_group_over P st x n : group_over P st n = true -> over P (sub st (smatch st x) n).
Proof.
  intros G. destruct (smatch_cases st x) as [[c [H ->]]|[_ ->]]; [|reflexivity].
  apply site_submatch_Some in H. destruct H as [_ [H _]]. unfold sub.
  destruct (bt_full_cap_get _ _ _ (name_idx st n) H) as [->|[a [Ha [Hs _]]]]; [reflexivity|].
  unfold group_over in G. rewrite forallb_forall in G. eapply re_over_sound; [exact Hs|]. apply G, subre_cap_bodies, Ha.
Qed.

Lemma import_cap_of v : v = [] \/ Sem Langs.import v -> import_cap v.
Proof. trivial. Qed.

Lemma Sem_amp v : Sem (chr 38) v -> v = s "&".
Proof. change (chr 38) with (chr (code "&"%char)). intros H. apply Sem_chr in H. exact H. Qed.
Lemma Sem_starc v : Sem (chr 42) v -> v = s "*".
Proof. change (chr 42) with (chr (code "*"%char)). intros H. apply Sem_chr in H. exact H. Qed.

Lemma Sem_dotted_tail z : Sem (Star (Cat (chr 46) go_token)) z -> forall t, is_go_token t = true -> dotted (t ++ z).
Proof.
  intros H. remember (Star (Cat (chr 46) go_token)) as r eqn:Er. induction H; try discriminate Er.
  - intros t Ht. rewrite app_nil_r. apply dotted_one; exact Ht.
  - injection Er as ->. intros t Ht. change (chr 46) with (chr (code "."%char)) in H. apply Sem_Cat_chr in H.
    destruct H as [u [-> Hu]]. apply go_token_sem in Hu. change (("."%char :: u) ++ y) with ("."%char :: (u ++ y)).
    apply dotted_more; [exact Ht|]. apply IHSem2; [reflexivity | exact Hu].
Qed.
Lemma Sem_dotted v : Sem dotted_re v -> dotted v.
Proof.
  unfold dotted_re. intros H. apply Sem_Cat in H. destruct H as [y [z [-> [Hy Hz]]]]. apply go_token_sem in Hy.
  apply Sem_dotted_tail; assumption.
Qed.

Hypothesis HE : env_lex.

Lemma parts_ok st imp parts st' : ist_ok st -> import_clean imp ->
  (match imp with [] => ([], st) | _ :: _ => let '(a, i') := alias st imp in ([a], i') end) = (parts, st') ->
  (parts = [] \/ exists a, parts = [a] /\ is_go_token a = true) /\ ist_ok st'.
Proof.
  intros Hst [->|Hb]; [intros H; injection H as <- <-; split; [left; reflexivity | exact Hst]|].
  destruct imp as [|c r] eqn:Ei; [discriminate Hb|]. rewrite <- Ei in *.
  destruct (alias st imp) as [a st1] eqn:Ea. intros H; injection H as <- <-.
  destruct (ist_alias _ _ _ _ Hst (base_Q _ Hb) Ea) as [Ha Hst1]. split; [right; exists a; auto | exact Hst1].
Qed.

(** syntax.CompileServiceValue: for EVERY expression the text is in the value language (possibly with an empty last component) *)
Lemma csv_ok st expr code st' : ist_ok st -> compile_service_value E st expr = (code, st') -> value_expr code /\ ist_ok st'.
Proof.
  intros Hst. unfold compile_service_value. cbv zeta.
  set (sy := re_sy_ServiceValue E). set (m := smatch sy expr).
  pose proof (smatch_lang sy expr (s "ptr") _ (el_g_val_ptr HE)) as Hptr.
  pose proof (smatch_lang sy expr (s "import") _ (el_g_val_import HE)) as Himp.
  pose proof (smatch_lang sy expr (s "value") _ (el_g_val_value HE)) as Hval.
  pose proof (smatch_lang sy expr (s "ptr2") _ (el_g_val_ptr2 HE)) as Hptr2.
  pose proof (smatch_lang sy expr (s "import2") _ (el_g_val_import2 HE)) as Himp2.
  pose proof (smatch_lang sy expr (s "struct2") _ (el_g_val_struct2 HE)) as Hst2.
  fold m in Hptr, Himp, Hval, Hptr2, Himp2, Hst2.
  destruct (sub sy m (s "v1")) as [|v0 v1].
  - destruct (match sanitize_import (sub sy m (s "import2")) with [] => _ | _ :: _ => _ end) as [parts is1] eqn:Ep.
    intros H; injection H as <- <-.
    destruct (parts_ok _ _ _ _ Hst (sanitize_import_ok _ (import_cap_of _ Himp2)) Ep) as [Hparts His1]. split; [|exact His1].
    exists (sub sy m (s "ptr2")), parts, (sub sy m (s "struct2")).
    split; [destruct Hptr2 as [->|H]; [left; reflexivity | right; apply Sem_amp; exact H]|]. split; [exact Hparts|].
    right. split; [reflexivity|]. destruct Hst2 as [H|H]; [left; exact H | right; apply go_token_sem; exact H].
  - destruct (match sanitize_import (sub sy m (s "import")) with [] => _ | _ :: _ => _ end) as [parts is1] eqn:Ep.
    intros H; injection H as <- <-.
    destruct (parts_ok _ _ _ _ Hst (sanitize_import_ok _ (import_cap_of _ Himp)) Ep) as [Hparts His1]. split; [|exact His1].
    exists (sub sy m (s "ptr")), parts, (sub sy m (s "value")).
    split; [destruct Hptr as [->|H]; [left; reflexivity | right; apply Sem_amp; exact H]|]. split; [exact Hparts|].
    left. split; [reflexivity|]. destruct Hval as [H|H]; [left; exact H | right; apply Sem_dotted; exact H].
Qed.

(** service type, constructor, decorator method: for a validated expression *)
Lemma service_type_ok st t ty st' : ist_ok st ->
  (forall x, t = Some x -> site_match (re_in_ServiceType E) x = true) ->
  service_type E t st = (ty, st') -> (t = None /\ ty = s "interface{}" \/ type_expr ty) /\ ist_ok st'.
Proof.
  intros Hst Hv. unfold service_type. destruct t as [x|]; [|intros H; injection H as <- <-; split; [left; auto | exact Hst]].
  specialize (Hv x eq_refl). cbv zeta. set (co := re_co_ServiceType E). set (m := smatch co x).
  pose proof (el_vc_ServiceType HE x Hv) as D.
  pose proof (smatch_lang co x (s "ptr") _ (el_g_type_ptr HE)) as Hptr.
  pose proof (smatch_lang co x (s "import") _ (el_g_type_import HE)) as Himp.
  pose proof (smatch_lang_must co x (s "type") _ D (el_g_type_type HE) (el_m_type_type HE)) as Hty.
  fold m in Hptr, Himp, Hty. apply go_token_sem in Hty.
  destruct (qualify st (sub co m (s "import")) (sub co m (s "type"))) as [q st1] eqn:Eq. intros H; injection H as <- <-.
  destruct (qualify_ok _ _ _ _ _ Hst (import_cap_of _ Himp) Hty Eq) as [Hq Hst1]. split; [|exact Hst1].
  right. exists q. split; [exact Hq|].
  destruct Hptr as [Hp|Hp]; [left; change (sub co m (s "ptr") ++ q = q); rewrite Hp; reflexivity|].
  right. change (sub co m (s "ptr") ++ q = "*"%char :: q). rewrite (Sem_starc _ Hp). reflexivity.
Qed.

Lemma service_constructor_ok st t co_ st' : ist_ok st ->
  (forall x, t = Some x -> site_match (re_in_ServiceConstructor E) x = true) ->
  service_constructor E t st = (co_, st') -> (t = None /\ co_ = [] \/ qual co_) /\ ist_ok st'.
Proof.
  intros Hst Hv. unfold service_constructor. destruct t as [x|]; [|intros H; injection H as <- <-; split; [left; auto | exact Hst]].
  specialize (Hv x eq_refl). cbv zeta. set (co := re_co_ServiceConstructor E). set (m := smatch co x).
  pose proof (el_vc_ServiceConstructor HE x Hv) as D.
  pose proof (smatch_lang co x (s "import") _ (el_g_ctor_import HE)) as Himp.
  pose proof (smatch_lang_must co x (s "fn") _ D (el_g_ctor_fn HE) (el_m_ctor_fn HE)) as Hfn.
  fold m in Himp, Hfn. apply go_token_sem in Hfn. intros Eq.
  destruct (qualify_ok _ _ _ _ _ Hst (import_cap_of _ Himp) Hfn Eq) as [Hq Hst1]. split; [right; exact Hq | exact Hst1].
Qed.

(** * tokens and argument resolvers *)
Definition fn_ok (f : fnfact) : Prop := import_clean (ff_import f) /\ is_go_token (ff_gofn f) = true.
Definition cst_ok (c : cst) : Prop := ist_ok (cs_imports c) /\ Forall fn_ok (cs_fns c).

(** THE TRUSTED RESIDUE: the text between the parentheses of a %fn(...)% chunk is pasted into the code as it is *)
Definition chunk_fnargs (ch : str) : str :=
  let e := match to_expr E ch with Some e => e | None => [] end in
  match simplefn E e with Some (_, p) => p | None => [] end.
Definition pattern_ok (x : str) : Prop :=
  match chunks E x with inl cs => Forall (fun ch => N (chunk_fnargs ch)) cs | inr _ => True end.
Definition val_ok (p : prim) : Prop := prim_ok p /\ match p with PStr x => pattern_ok x | _ => True end.

Lemma sub_group_over P st x c n : site_submatch st x = Some c -> group_over P st n = true -> over P (sub st c n).
Proof.
  intros H G. apply site_submatch_Some in H. destruct H as [_ [H _]]. unfold sub.
  destruct (bt_full_cap_get _ _ _ (name_idx st n) H) as [->|[a [Ha [Hs _]]]]; [reflexivity|].
  unfold group_over in G. rewrite forallb_forall in G. eapply re_over_sound; [exact Hs|]. apply G, subre_cap_bodies, Ha.
Qed.

Lemma inl_inj {A B} (a b : A) : @inl A B a = inl b -> a = b.
Proof. congruence. Qed.

Lemma ff_create_ok f x st tok st' : fn_ok f -> ist_ok st -> N (chunk_fnargs x) ->
  ff_create E f x st = (tok, st') -> N (tk_code tok) /\ ist_ok st'.
Proof.
  intros [Hi Hg] Hst Hargs. unfold ff_create. cbv zeta. fold (chunk_fnargs x).
  destruct (match ff_import f with [] => (ff_gofn f, st) | _ :: _ => _ end) as [gofn st1] eqn:Eg.
  assert (G : N gofn /\ ist_ok st1).
  { destruct Hi as [Hi|Hi].
    - rewrite Hi in Eg. injection Eg as <- <-. split; [apply go_token_N; exact Hg | exact Hst].
    - destruct (ff_import f) as [|c0 r0] eqn:Ei; [discriminate Hi|]. rewrite <- Ei in *.
      destruct (alias st (ff_import f)) as [a st2] eqn:Ea. injection Eg as <- <-.
      destruct (ist_alias _ _ _ _ Hst (base_Q _ Hi) Ea) as [Ha Hst2]. split; [|exact Hst2].
      apply go_token_N in Ha. apply go_token_N in Hg. apply N_app; [exact Ha|].
      change (N (s "." ++ ff_gofn f)). apply N_app; [apply N_neutral; reflexivity | exact Hg]. }
  destruct G as [Hgofn Hst1].
  destruct (alias_abs st1 (s "fmt")) as [fmta st2] eqn:Ef.
  destruct (ist_alias_abs st1 (s "fmt") fmta st2 Hst1 (lit_Q (s "fmt") eq_refl) Ef) as [Hf Hst2]. apply go_token_N in Hf.
  intros H. pose proof (f_equal fst H) as H1. pose proof (f_equal snd H) as H2. cbn [fst snd] in H1, H2. subst tok st'.
  cbn [tk_code]. split; [|exact Hst2].
  apply fmt1_N; [apply (el_t_tokprov HE)|]. unfold export_str.
  assert (Hp : N (match chunk_fnargs x with [] => [] | _ :: _ => s ", " ++ chunk_fnargs x end)).
  { destruct (chunk_fnargs x) as [|c0 r0]; [apply N_neutral; reflexivity|]. n_tac. }
  n_tac.
Qed.

Lemma fk_create_ok k x tok : fk_supports E k x = true -> fk_create E k x = inl tok -> N (tk_code tok).
Proof.
  destruct k; cbn [fk_supports fk_create]; intros Hs H; try discriminate H; apply inl_inj in H; subst tok; cbn [tk_code].
  - apply fmt1_N; [apply (el_t_tokprov HE) | apply N_neutral; reflexivity].
  - apply fmt1_N; [apply (el_t_getparam HE)|].
    destruct (to_expr E x) as [e|]; [|discriminate Hs]. apply plain_N. exact (site_over_match _ _ _ (el_tokenref HE) Hs).
  - apply fmt1_N; [apply (el_t_tokprov HE)|]. unfold export_str. n_tac.
Qed.

Lemma create_static_ok ks x tok : create_static E ks x = inl tok -> N (tk_code tok).
Proof.
  induction ks as [|k ks IH]; cbn [create_static]; [discriminate|].
  destruct (fk_supports E k x) eqn:Hs; [apply fk_create_ok; exact Hs | exact IH].
Qed.

Lemma create_fn_ok fns x st tok st' : Forall fn_ok fns -> ist_ok st -> N (chunk_fnargs x) ->
  create_fn E fns x st = Some (tok, st') -> N (tk_code tok) /\ ist_ok st'.
Proof.
  intros Hf Hst Hx. induction Hf as [|f fns Hf1 Hf IH]; cbn [create_fn]; [discriminate|].
  destruct (ff_supports E f x); [|exact IH]. intros H; injection H as H. eapply ff_create_ok; eassumption.
Qed.

Lemma create_ok fns x st tok e st' : Forall fn_ok fns -> ist_ok st -> N (chunk_fnargs x) ->
  create E fns x st = ((tok, e), st') -> N (tk_code tok) /\ ist_ok st'.
Proof.
  intros Hf Hst Hx. unfold create. destruct (create_fn E fns x st) as [[t st1]|] eqn:Ec.
  - intros H; injection H as <- _ <-. eapply create_fn_ok; eassumption.
  - destruct (create_static E (w_factories E) x) as [t|m] eqn:Es; intros H; injection H as <- _ <-.
    + split; [eapply create_static_ok; exact Es | exact Hst].
    + split; [apply N_neutral; reflexivity | exact Hst].
Qed.

Lemma create_all_ok fns cs : forall st ts es st', Forall fn_ok fns -> ist_ok st -> Forall (fun ch => N (chunk_fnargs ch)) cs ->
  create_all E fns cs st = ((ts, es), st') -> Forall (fun t => N (tk_code t)) ts /\ ist_ok st'.
Proof.
  induction cs as [|ch cs IH]; intros st ts es st' Hf Hst Hcs; cbn [create_all].
  - intros H; injection H as <- _ <-. split; [constructor | exact Hst].
  - inversion Hcs as [|? ? Hch Hcs']; subst.
    destruct (create E fns ch st) as [[t e] st1] eqn:Ec. destruct (create_all E fns cs st1) as [[ts' es'] st2] eqn:Ea.
    intros H; injection H as <- _ <-.
    destruct (create_ok _ _ _ _ _ _ Hf Hst Hch Ec) as [Ht Hst1]. destruct (IH _ _ _ _ Hf Hst1 Hcs' Ea) as [Hts Hst2].
    split; [constructor; assumption | exact Hst2].
Qed.

Lemma tokenize_ok fns x st ts e st' : Forall fn_ok fns -> ist_ok st -> pattern_ok x ->
  tokenize E fns x st = ((ts, e), st') -> Forall (fun t => N (tk_code t)) ts /\ ist_ok st'.
Proof.
  intros Hf Hst Hx. unfold tokenize. unfold pattern_ok in Hx. destruct (chunks E x) as [cs|b].
  - destruct (create_all E fns cs st) as [[ts' es] st1] eqn:Ea. intros H; injection H as <- _ <-.
    eapply create_all_ok; eassumption.
  - intros H; injection H as <- _ <-. split; [constructor | exact Hst].
Qed.

Lemma go_code_ok ts code : Forall (fun t => N (tk_code t)) ts -> go_code E ts = inl code -> N code.
Proof.
  intros Hts. unfold go_code. destruct ts as [|t [|t' ts]]; [discriminate| |]; intros H; apply inl_inj in H; subst code.
  - apply fmt1_N; [apply (el_t_provider HE)|]. inversion Hts; assumption.
  - apply fmt1_N; [apply (el_t_concat HE)|]. apply N_join; [reflexivity|].
    apply Forall_map_in. intros u Hu. rewrite Forall_forall in Hts. exact (Hts u Hu).
Qed.

(** the exponent form of a huge float: a sign, digits of the given text, "e+", decimal digits *)
Lemma sign_split_plain (t sign ds : str) :
  match t with "-"%char :: r => (s "-", r) | _ => ([], t) end = (sign, ds) -> over plainc t -> over plainc sign /\ over plainc ds.
Proof.
  destruct t as [|c r]; [intros H _; injection H as <- <-; split; reflexivity|].
  intros H Ht. pose proof Ht as Ht'. apply over_cons in Ht'. destruct Ht' as [_ Hr].
  destruct c as [[] [] [] [] [] [] [] []]; injection H as <- <-; (split; [reflexivity | assumption]).
Qed.
Lemma strip_trailing_zeros_over P l : over P l -> over P (strip_trailing_zeros l).
Proof.
  induction l as [|c r IH]; intros H; [reflexivity|]. apply over_cons in H. destruct H as [Hc Hr]. cbn [strip_trailing_zeros].
  specialize (IH Hr). destruct (strip_trailing_zeros r) as [|d r'].
  - destruct (Ascii.eqb c "0"); [reflexivity | apply over_cons; split; [exact Hc | reflexivity]].
  - apply over_cons. split; assumption.
Qed.
Lemma dec_of_N_plain n : over plainc (dec_of_N n).
Proof. unfold dec_of_N. apply dec_pos_fuel_plain. reflexivity. Qed.
Lemma exp_form_plain t : over plainc t -> over plainc (exp_form t).
Proof.
  intros Ht. unfold exp_form. destruct (match t with "-"%char :: r => _ | _ => _ end) as [sign ds] eqn:Es.
  destruct (sign_split_plain _ _ _ Es Ht) as [Hs Hd]. pose proof (strip_trailing_zeros_over _ _ Hd) as Hm.
  apply over_app_intro; [exact Hs|]. apply over_app_intro; [|apply over_app_intro; [reflexivity|]].
  - destruct (strip_trailing_zeros ds) as [|d [|d' r]]; [reflexivity | exact Hm |].
    apply over_cons in Hm. destruct Hm as [H1 H2]. apply over_cons. split; [exact H1|]. apply over_cons. split; [reflexivity | exact H2].
  - destruct (Nat.ltb _ 2); [apply over_cons; split; [reflexivity|]|]; apply dec_of_N_plain.
Qed.

Lemma literal_code_neutral p : prim_ok p -> neutral (literal_code p).
Proof.
  assert (X : prim_ok p -> neutral (export p)).
  { destruct p as [|[]|k t|k t|x|t]; cbn [export prim_ok]; intros H; try reflexivity.
    - destruct H as [H1 H2]. apply plain_neutral in H1. apply plain_neutral in H2. neu_tac.
    - destruct H as [H1 H2]. apply plain_neutral in H1. apply plain_neutral in H2. neu_tac.
    - apply quote_neutral.
    - apply plain_neutral in H. neu_tac. }
  intros H. destruct p as [| | |k t| |]; try exact (X H). cbn [literal_code].
  repeat match goal with
  | |- neutral (if ?b then s _ else _) => destruct b; [reflexivity|]
  | |- neutral (if ?b then _ ++ _ else _) => destruct b
  end; [|exact (X H)].
  destruct H as [H1 H2]. apply plain_neutral in H1. pose proof (plain_neutral _ (exp_form_plain _ H2)) as H3. neu_tac.
Qed.

Lemma zero_arg_ok : arg_ok N zero_arg.
Proof. split; [apply N_neutral; reflexivity | exact I]. Qed.

Lemma rk_resolve_ok k p c a e c' : rk_lex k -> cst_ok c -> val_ok p ->
  rk_resolve E k p c = ((a, e), c') -> arg_ok N a /\ cst_ok c'.
Proof.
  intros Hk [Hst Hfn] [Hp Hx]. 
  assert (Z : forall m, ((zero_arg, m), c) = ((a, e), c') -> arg_ok N a /\ cst_ok c').
  { intros m H; injection H as <- _ <-. split; [apply zero_arg_ok | split; assumption]. }
  destruct k as [| | | |id v|]; cbn [rk_resolve].
  - intros H; injection H as <- _ <-. split; [|split; assumption]. split; cbn [a_code a_raw mk_arg]; [|exact Hp].
    apply fmt1_N; [apply (el_t_value HE) | apply N_neutral, literal_code_neutral; exact Hp].
  - destruct p as [| | | |x|]; try apply Z.
    destruct (site_submatch (re_rs_value E) x) as [m|]; [|apply Z].
    destruct (compile_service_value E (cs_imports c) _) as [code is1] eqn:Ec. intros H; injection H as <- _ <-.
    destruct (csv_ok _ _ _ _ Hst Ec) as [Hc His1]. split; [|split; assumption].
    split; cbn [a_code a_raw mk_arg]; [|exact I]. apply fmt1_N; [apply (el_t_value HE)|].
    apply plain_N, value_expr_plain, Hc.
  - destruct p as [| | | |x|]; try apply Z.
    destruct (site_submatch (re_rs_service E) x) as [m|] eqn:Em; [|apply Z]. intros H; injection H as <- _ <-.
    split; [|split; assumption]. split; cbn [a_code a_raw mk_arg]; [|exact I].
    apply fmt1_N; [apply (el_t_service HE)|]. apply plain_N. exact (sub_group_over _ _ _ _ _ Em (el_g_service HE)).
  - destruct p as [| | | |x|]; try apply Z.
    destruct (site_submatch (re_rs_tagged E) x) as [m|] eqn:Em; [|apply Z]. intros H; injection H as <- _ <-.
    split; [|split; assumption]. split; cbn [a_code a_raw mk_arg]; [|exact I].
    apply fmt1_N; [apply (el_t_tag HE)|]. apply plain_N. exact (sub_group_over _ _ _ _ _ Em (el_g_tagged HE)).
  - intros H; injection H as <- _ <-. split; [|split; assumption]. split; cbn [a_code a_raw mk_arg]; [|exact Hp].
    apply fmt1_N; [apply (el_t_value HE) | apply N_neutral; exact Hk].
  - destruct p as [| | | |x|]; try apply Z.
    destruct (tokenize E (cs_fns c) x (cs_imports c)) as [[ts e0] is1] eqn:Et.
    destruct (tokenize_ok _ _ _ _ _ _ Hfn Hst Hx Et) as [Hts His1].
    assert (C1 : cst_ok {| cs_imports := is1; cs_fns := cs_fns c |}) by (split; assumption).
    destruct e0 as [g|].
    + intros H; injection H as <- _ <-. split; [apply zero_arg_ok | exact C1].
    + destruct (go_code E ts) as [code|m] eqn:Eg; intros H; injection H as <- _ <-.
      * split; [|exact C1]. split; cbn [a_code a_raw mk_arg]; [eapply go_code_ok; eassumption | exact I].
      * split; [apply zero_arg_ok | exact C1].
Qed.

Lemma resolve_chain_ok ch p c a e c' : Forall rk_lex ch -> cst_ok c -> val_ok p ->
  resolve_chain E ch p c = ((a, e), c') -> arg_ok N a /\ cst_ok c'.
Proof.
  intros Hch Hc Hp. induction Hch as [|k ch Hk Hch IH]; cbn [resolve_chain].
  - intros H; injection H as <- _ <-. split; [apply zero_arg_ok | exact Hc].
  - destruct (rk_supports E k p); [apply rk_resolve_ok; assumption | exact IH].
Qed.

Lemma resolve_args_aux_ok l : forall i c as_ es c', cst_ok c -> Forall val_ok l ->
  resolve_args_aux E i l c = ((as_, es), c') -> Forall (arg_ok N) as_ /\ cst_ok c'.
Proof.
  induction l as [|p l IH]; intros i c as_ es c' Hc Hl; cbn [resolve_args_aux].
  - intros H; injection H as <- _ <-. split; [constructor | exact Hc].
  - inversion Hl as [|? ? Hp Hl']; subst. unfold resolve_arg.
    destruct (resolve_chain E (w_arg_chain E) p c) as [[a e] c1] eqn:Ea.
    destruct (resolve_args_aux E (S i) l c1) as [[as' es'] c2] eqn:Eb. intros H; injection H as <- _ <-.
    destruct (resolve_chain_ok _ _ _ _ _ _ (el_arg_chain HE) Hc Hp Ea) as [Ha Hc1].
    destruct (IH _ _ _ _ _ Hc1 Hl' Eb) as [Has Hc2]. split; [constructor; assumption | exact Hc2].
Qed.

Lemma resolve_args_ok l c as_ e c' : cst_ok c -> Forall val_ok l -> resolve_args E l c = ((as_, e), c') -> Forall (arg_ok N) as_ /\ cst_ok c'.
Proof.
  intros Hc Hl. unfold resolve_args. destruct (resolve_args_aux E 0 l c) as [[as' es] c1] eqn:Ea. intros H; injection H as <- _ <-.
  eapply resolve_args_aux_ok; eassumption.
Qed.

Lemma resolve_param_ok p c pe e c' : cst_ok c -> val_ok p -> resolve_param E p c = ((pe, e), c') ->
  (N (pe_code pe) /\ prim_ok (pe_raw pe)) /\ cst_ok c'.
Proof.
  intros Hc Hp. unfold resolve_param. destruct (resolve_chain E (w_param_chain E) p c) as [[a e0] c1] eqn:Ea.
  destruct (resolve_chain_ok _ _ _ _ _ _ (el_param_chain HE) Hc Hp Ea) as [[Ha1 Ha2] Hc1].
  destruct (_ ++ _) as [|x l]; intros H; injection H as <- _ <-; (split; [|exact Hc1]); cbn [pe_code pe_raw]; split; auto; try exact I; apply N_neutral; reflexivity.
Qed.

(** * ITEM 3: the table of emitted names and expressions *)
(** Emission sites of user-chosen text OUTSIDE string literals and comments, the input field each comes from, the validator expression
    and the language proved of the emitted text (recognisers of Proofs/LangsProofs.v):

      package clause                 meta.pkg                     MetaPkg                    is_go_token          [ol_pkg]
      container type (struct, receivers, constructor result)
                                     meta.container_type          MetaContainerType          is_go_token          [ol_type]
      constructor function name      meta.container_constructor   MetaContainerConstructor   is_go_token          [ol_ctor]
      getter method names G, GInContext, MustG, MustGInContext
                                     services.*.getter            ServiceGetter              is_go_token          [sl_getter]
      import aliases i<hex>_<name>   generated ([local_name]); <name> is the last path segment with every byte outside
                                     [A-Za-z0-9] replaced by _                               is_go_token          [imports_ok], [emitted_names_table]
      type expressions               services.*.type              ServiceType                [*][alias.]Name      [type_expr], [sl_type]
      value expressions              services.*.value, !value ..  ServiceValue               [&][alias.]Name(.Name)* or [&][alias.]Name{}
                                                                                                                  [value_expr], [sl_value], [csv_ok]
      constructor expressions        services.*.constructor       ServiceConstructor         [alias.]Name         [qual], [sl_ctor]
      decorator expressions          decorators.*.decorator       DecoratorMethod            [alias.]Name         [qual], [dl_deco]
      functions of %fn(...)%         meta.functions values        MetaGoFn                   [alias.]Name         [fn_ok]
      ARGUMENTS of %fn(...)%         parameter / argument strings SimpleFn: any bytes but a newline         ---   TRUSTED RESIDUE [chunk_fnargs]
      number / type texts            supplied by the YAML decoder (%d, FormatFloat, %T)               ---         assumed plain [prim_ok]

    Emitted only through %+q ([quote]) in code, raw in // comments: parameter names (ParamName, is_yaml_token), service names
    (ServiceName, is_yaml_token), field names (ServiceFieldName, is_go_token), method names of calls (ServiceCallName, is_go_token),
    tags (ServiceTag / DecoratorsTag, is_yaml_token or a single star), string values and the raw text of every argument.
    Emitted between double quotes WITHOUT %+q: import paths - see [import_line]; the values of meta.imports are validated (MetaImport,
    and not "." once the quotes are trimmed) and registered with their quotes trimmed: [validated_import_paths],
    [registered_imports_unquoted]. *)
Record param_lang (p : oparam) : Prop := {
  pl_name : is_yaml_token (op_name p) = true;      (* quoted in code, raw in comments *)
  pl_code : N (op_code p);                        (* dependency expression, see [rk_resolve_ok] *)
  pl_raw : prim_ok (op_raw p) }.
Record svc_lang (sv : oservice) : Prop := {
  sl_name : is_yaml_token (os_name sv) = true;                                         (* quoted in code, raw in comments *)
  sl_getter : os_getter sv = [] \/ is_go_token (os_getter sv) = true;                   (* method name *)
  sl_type : os_type sv = [] \/ os_type sv = s "interface{}" \/ type_expr (os_type sv); (* type expression *)
  sl_value : os_value sv = [] \/ value_expr (os_value sv);                              (* value expression *)
  sl_ctor : os_constructor sv = [] \/ qual (os_constructor sv);                         (* constructor expression *)
  sl_args : Forall (arg_ok N) (os_args sv);
  sl_calls : Forall (fun c => is_go_token (oc_method c) = true /\ Forall (arg_ok N) (oc_args c)) (os_calls sv);  (* quoted in code *)
  sl_fields : Forall (fun f => is_go_token (fst f) = true /\ arg_ok N (snd f)) (os_fields sv);                 (* quoted in code *)
  sl_tags : Forall (fun t => is_yaml_token (t_name t) = true) (os_tags sv) }.                                (* quoted in code *)
Record deco_lang (d : odecorator) : Prop := {
  dl_tag : od_tag d = s "*" \/ is_yaml_token (od_tag d) = true;                          (* quoted in code *)
  dl_deco : qual (od_decorator d);                                                      (* decorator expression *)
  dl_args : Forall (arg_ok N) (od_args d) }.
Record out_lang (o : output) : Prop := {
  ol_pkg : is_go_token (om_pkg (o_meta o)) = true;
  ol_type : is_go_token (om_type (o_meta o)) = true;
  ol_ctor : is_go_token (om_ctor (o_meta o)) = true;
  ol_params : Forall param_lang (o_params o);
  ol_services : Forall svc_lang (o_services o);
  ol_decos : Forall deco_lang (o_decorators o) }.

Lemma yaml_token_notnl x : is_yaml_token x = true -> over notnl x.
Proof.
  intros H. apply yaml_token_chars in H. apply over_intro. intros c Hc. rewrite Forall_forall in H.
  destruct (H c Hc) as [Ha|[->|[->| ->]]]; try reflexivity.
  unfold notnl. destruct (Ascii.eqb_spec c nl) as [->|]; [discriminate Ha | reflexivity].
Qed.

Lemma or_nil_N (P : str -> Prop) x : (forall y, P y -> N y) -> x = [] \/ P x -> N x.
Proof. intros HP [->|H]; [apply N_neutral; reflexivity | apply HP; exact H]. Qed.

Lemma svc_lang_ok sv : svc_lang sv -> svc_ok N sv.
Proof.
  intros [H1 H2 H3 H4 H5 H6 H7 H8 H9]. split.
  - apply yaml_token_notnl; exact H1.
  - apply (or_nil_N (fun x => is_go_token x = true)); [exact go_token_N | exact H2].
  - destruct H3 as [->|[->|H3]]; [apply N_neutral; reflexivity | apply N_neutral; reflexivity | apply plain_N, type_expr_plain, H3].
  - apply (or_nil_N value_expr); [intros y Hy; apply plain_N, value_expr_plain, Hy | exact H4].
  - apply (or_nil_N qual); [intros y Hy; apply plain_N, qual_plain, Hy | exact H5].
  - exact H6.
  - eapply Forall_impl; [|exact H7]. intros c [Hc1 Hc2]. split; [apply neutral_notnl, go_token_neutral, Hc1 | exact Hc2].
  - eapply Forall_impl; [|exact H8]. intros f [Hf1 Hf2]. split; [apply neutral_notnl, go_token_neutral, Hf1 | exact Hf2].
Qed.

Theorem out_lang_ok o : out_lang o -> out_ok N o.
Proof.
  intros [H1 H2 H3 H4 H5 H6]. split; try (apply go_token_N; assumption).
  - eapply Forall_impl; [|exact H4]. intros p [Hp1 Hp2 Hp3]. split; [apply yaml_token_notnl; exact Hp1 | exact Hp2 | exact Hp3].
  - eapply Forall_impl; [|exact H5]. exact svc_lang_ok.
  - eapply Forall_impl; [|exact H6]. intros d [Hd1 Hd2 Hd3]. split; [apply plain_N, qual_plain, Hd2 | exact Hd3].
Qed.

(** * the compile steps *)
Lemma compile_params_ok l : forall c ps es c', cst_ok c ->
  Forall (fun kv => is_yaml_token (fst kv) = true /\ val_ok (snd kv)) l ->
  compile_params E l c = ((ps, es), c') -> Forall param_lang ps /\ cst_ok c'.
Proof.
  induction l as [|[k v] l IH]; intros c ps es c' Hc Hl; cbn [compile_params].
  - intros H; injection H as <- _ <-. split; [constructor | exact Hc].
  - inversion Hl as [|? ? [Hk Hv] Hl']; subst. cbn [fst snd] in Hk, Hv.
    destruct (resolve_param E v c) as [[pe e] c1] eqn:Ep. destruct (compile_params E l c1) as [[ps' es'] c2] eqn:Ec.
    destruct (resolve_param_ok _ _ _ _ _ Hc Hv Ep) as [[Hp1 Hp2] Hc1]. destruct (IH _ _ _ _ Hc1 Hl' Ec) as [Hps Hc2].
    destruct e; intros H; injection H as <- _ <-; (split; [|exact Hc2]); constructor; try exact Hps; split; cbn; auto; try exact I; apply N_neutral; reflexivity.
Qed.

Lemma compile_fields_ok l : forall c fs es c', cst_ok c ->
  Forall (fun kv => is_go_token (fst kv) = true /\ val_ok (snd kv)) l ->
  compile_fields E l c = ((fs, es), c') -> Forall (fun f => is_go_token (fst f) = true /\ arg_ok N (snd f)) fs /\ cst_ok c'.
Proof.
  induction l as [|[k v] l IH]; intros c fs es c' Hc Hl; cbn [compile_fields].
  - intros H; injection H as <- _ <-. split; [constructor | exact Hc].
  - inversion Hl as [|? ? [Hk Hv] Hl']; subst. cbn [fst snd] in Hk, Hv. unfold resolve_arg.
    destruct (resolve_chain E (w_arg_chain E) v c) as [[a e] c1] eqn:Ea. destruct (compile_fields E l c1) as [[fs' es'] c2] eqn:Ec.
    destruct (resolve_chain_ok _ _ _ _ _ _ (el_arg_chain HE) Hc Hv Ea) as [Ha Hc1]. destruct (IH _ _ _ _ Hc1 Hl' Ec) as [Hfs Hc2].
    intros H; injection H as <- _ <-. split; [constructor; [split; assumption | exact Hfs] | exact Hc2].
Qed.

Lemma compile_calls_ok l : forall i c cs es c', cst_ok c ->
  Forall (fun cl => is_go_token (c_method cl) = true /\ Forall val_ok (c_args cl)) l ->
  compile_calls E i l c = ((cs, es), c') -> Forall (fun c => is_go_token (oc_method c) = true /\ Forall (arg_ok N) (oc_args c)) cs /\ cst_ok c'.
Proof.
  induction l as [|cl l IH]; intros i c cs es c' Hc Hl; cbn [compile_calls].
  - intros H; injection H as <- _ <-. split; [constructor | exact Hc].
  - inversion Hl as [|? ? [Hm Ha] Hl']; subst.
    destruct (resolve_args E (c_args cl) c) as [[as_ e] c1] eqn:Ea. destruct (compile_calls E (S i) l c1) as [[cs' es'] c2] eqn:Ec.
    destruct (resolve_args_ok _ _ _ _ _ Hc Ha Ea) as [Has Hc1]. destruct (IH _ _ _ _ _ Hc1 Hl' Ec) as [Hcs Hc2].
    intros H; injection H as <- _ <-. split; [constructor; [split; assumption | exact Hcs] | exact Hc2].
Qed.

(** what validation establishes of one service, and what is assumed of its values *)
Record sv_facts (n : str) (sv : service) : Prop := {
  sf_name : is_yaml_token n = true;
  sf_type : opt_or (sv_todo sv) false = false -> forall x, sv_type sv = Some x -> site_match (re_in_ServiceType E) x = true;
  sf_ctor : opt_or (sv_todo sv) false = false -> forall x, sv_constructor sv = Some x -> site_match (re_in_ServiceConstructor E) x = true;
  sf_getter : opt_or (sv_todo sv) false = false -> forall g, sv_getter sv = Some g -> is_go_token g = true;
  sf_calls : opt_or (sv_todo sv) false = false -> Forall (fun cl => is_go_token (c_method cl) = true) (sv_calls sv);
  sf_fields : opt_or (sv_todo sv) false = false -> Forall (fun kv => is_go_token (fst kv) = true) (sv_fields sv);
  sf_tags : opt_or (sv_todo sv) false = false -> Forall (fun t => is_yaml_token (t_name t) = true) (sv_tags sv) }.
Definition sv_vals_ok (sv : service) : Prop :=
  Forall val_ok (sv_args sv) /\ Forall (fun cl => Forall val_ok (c_args cl)) (sv_calls sv) /\ Forall (fun kv => val_ok (snd kv)) (sv_fields sv).

Lemma Forall_sorted {A} (P : str * A -> Prop) (m : list (str * A)) : Forall P m -> Forall P (sorted_entries m).
Proof. rewrite !Forall_forall. intros H x Hx. apply H. apply sorted_entries_In. exact Hx. Qed.
Lemma Forall_and {A} (P1 P2 : A -> Prop) l : Forall P1 l -> Forall P2 l -> Forall (fun x => P1 x /\ P2 x) l.
Proof. rewrite !Forall_forall. intros H1 H2 x Hx. split; auto. Qed.

Lemma process_service_ok n sv m c osv e c' : cst_ok c -> sv_facts n sv -> sv_vals_ok sv ->
  process_service E n sv m c = ((osv, e), c') -> svc_lang osv /\ cst_ok c'.
Proof.
  intros Hc [Fn Ft Fc Fg Fcs Ff Ftg] [Va [Vc Vf]]. unfold process_service.
  destruct (opt_or (sv_todo sv) false) eqn:Td.
  { intros H; injection H as <- _ <-. split; [|exact Hc]. split; cbn; auto. }
  specialize (Ft eq_refl). specialize (Fc eq_refl). specialize (Fg eq_refl). specialize (Fcs eq_refl). specialize (Ff eq_refl).
  specialize (Ftg eq_refl).
  destruct (compile_fields E (sorted_entries (sv_fields sv)) c) as [[fields ferrs] c1] eqn:E1.
  destruct (resolve_args E (sv_args sv) c1) as [[args aerr] c2] eqn:E2.
  destruct (compile_calls E 0 (sv_calls sv) c2) as [[calls cerrs] c3] eqn:E3.
  pose proof (getter_of_getter E sv m) as Hg. destruct (getter_of E sv m) as [[g mg] gerr_]. cbn [fst] in Hg.
  destruct (service_type E (sv_type sv) (cs_imports c3)) as [ty i4] eqn:E4.
  destruct (match sv_value sv with None => ([], i4) | Some v => compile_service_value E i4 v end) as [va i5] eqn:E5.
  destruct (service_constructor E (sv_constructor sv) i5) as [co i6] eqn:E6.
  intros H; injection H as <- _ <-.
  destruct (compile_fields_ok _ _ _ _ _ Hc (Forall_sorted _ _ (Forall_and _ _ _ Ff Vf)) E1) as [Hfields Hc1].
  destruct (resolve_args_ok _ _ _ _ _ Hc1 Va E2) as [Hargs Hc2].
  destruct (compile_calls_ok _ _ _ _ _ _ Hc2 (Forall_and _ _ _ Fcs Vc) E3) as [Hcalls [Hi3 Hf3]].
  destruct (service_type_ok _ _ _ _ Hi3 Ft E4) as [Hty Hi4].
  assert (H5 : (va = [] \/ value_expr va) /\ ist_ok i5).
  { destruct (sv_value sv) as [v|]; [|injection E5 as <- <-; split; [left; reflexivity | exact Hi4]].
    destruct (csv_ok _ _ _ _ Hi4 E5) as [Hv Hi5]. split; [right; exact Hv | exact Hi5]. }
  destruct H5 as [Hva Hi5].
  destruct (service_constructor_ok _ _ _ _ Hi5 Fc E6) as [Hco Hi6].
  split; [|split; [exact Hi6 | exact Hf3]].
  split; cbn [os_name os_getter os_type os_value os_constructor os_args os_calls os_fields os_tags]; auto.
  - rewrite Hg. destruct (sv_getter sv) as [g0|] eqn:Eg; [right; exact (Fg g0 eq_refl) | left; reflexivity].
  - destruct Hty as [[_ ->]|Hty]; auto.
  - destruct Hco as [[_ ->]|Hco]; auto.
Qed.

Lemma set_scope_lang sv sc : svc_lang sv -> svc_lang (set_scope sv sc).
Proof. intros [H1 H2 H3 H4 H5 H6 H7 H8 H9]. split; assumption. Qed.

Lemma compile_services_ok l m : forall c svs es c', cst_ok c ->
  Forall (fun kv => sv_facts (fst kv) (snd kv) /\ sv_vals_ok (snd kv)) l ->
  compile_services E l m c = ((svs, es), c') -> Forall svc_lang svs /\ cst_ok c'.
Proof.
  induction l as [|[k v] l IH]; intros c svs es c' Hc Hl; cbn [compile_services].
  - intros H; injection H as <- _ <-. split; [constructor | exact Hc].
  - inversion Hl as [|? ? [Hf Hv] Hl']; subst. cbn [fst snd] in Hf, Hv.
    destruct (process_service E k v m c) as [[sv e] c1] eqn:Ep. destruct (compile_services E l m c1) as [[svs' es'] c2] eqn:Ec.
    destruct (process_service_ok _ _ _ _ _ _ _ Hc Hf Hv Ep) as [Hsv Hc1]. destruct (IH _ _ _ _ Hc1 Hl' Ec) as [Hsvs Hc2].
    intros H; injection H as <- _ <-. split; [constructor; [apply set_scope_lang; exact Hsv | exact Hsvs] | exact Hc2].
Qed.

Definition deco_facts (d : decorator) : Prop :=
  (d_tag d = s "*" \/ is_yaml_token (d_tag d) = true) /\ site_match (re_in_DecoratorMethod E) (d_decorator d) = true /\ Forall val_ok (d_args d).

Lemma compile_decorators_ok l : forall j c ds es c', cst_ok c -> Forall deco_facts l ->
  compile_decorators E j l c = ((ds, es), c') -> Forall deco_lang ds /\ cst_ok c'.
Proof.
  induction l as [|d l IH]; intros j c ds es c' Hc Hl; cbn [compile_decorators].
  - intros H; injection H as <- _ <-. split; [constructor | exact Hc].
  - inversion Hl as [|? ? [Ht [Hm Ha]] Hl']; subst. cbv zeta.
    set (co := re_co_DecoratorMethod E). set (m := smatch co (d_decorator d)).
    pose proof (el_vc_DecoratorMethod HE _ Hm) as D.
    pose proof (smatch_lang co (d_decorator d) (s "import") _ (el_g_deco_import HE)) as Himp.
    pose proof (smatch_lang_must co (d_decorator d) (s "fn") _ D (el_g_deco_fn HE) (el_m_deco_fn HE)) as Hfn.
    fold m in Himp, Hfn. apply go_token_sem in Hfn. destruct Hc as [Hi Hf].
    destruct (qualify (cs_imports c) (sub co m (s "import")) (sub co m (s "fn"))) as [method i1] eqn:Eq.
    destruct (qualify_ok _ _ _ _ _ Hi (import_cap_of _ Himp) Hfn Eq) as [Hq Hi1].
    destruct (resolve_args E (d_args d) (with_imports c i1)) as [[args e] c1] eqn:Ea.
    destruct (compile_decorators E (S j) l c1) as [[ds' es'] c2] eqn:Ec.
    assert (Hc0 : cst_ok (with_imports c i1)) by (split; assumption).
    destruct (resolve_args_ok _ _ _ _ _ Hc0 Ha Ea) as [Hargs Hc1]. destruct (IH _ _ _ _ _ Hc1 Hl' Ec) as [Hds Hc2].
    intros H; injection H as <- _ <-. split; [|exact Hc2]. constructor; [|exact Hds]. split; cbn; assumption.
Qed.

(** StepCompileMeta *)
(** syntax.SanitizeImport on a meta.imports value: a value of the MetaImport language (path | "path" | ".") loses its quotes *)
Lemma sanitize_path_clean p : is_import p = true -> import_clean (sanitize_path p).
Proof. intros H. apply (sanitize_import_ok p). right. apply import_sem. exact H. Qed.

Lemma import_clean_nodq r : import_clean r -> ~ In dq r.
Proof. intros [->|H]; [intros [] | apply base_import_nodq, H]. Qed.

Lemma import_clean_Q r : import_clean r -> over Q r.
Proof. intros [->|H]; [reflexivity | apply base_Q, H]. Qed.

Theorem sanitize_path_nodq p : is_import p = true -> ~ In dq (sanitize_path p).
Proof. intros H. apply import_clean_nodq, sanitize_path_clean, H. Qed.

(** and, unless what is left is ".", it is a non-empty path of the base language *)
Theorem sanitize_path_base p : is_import p = true -> str_eqb (trim_both dq p) (s ".") = false -> is_base_import (sanitize_path p) = true.
Proof.
  intros H Hne. change (sanitize_path p) with (if str_eqb (trim_both dq p) (s ".") then [] else trim_both dq p). rewrite Hne.
  apply is_import_iff in H. destruct H as [H|[[y [-> H]]| ->]].
  - rewrite (trim_both_notin dq p (base_import_nodq p H)). exact H.
  - rewrite (trim_both_quoted y H). exact H.
  - vm_compute in Hne. discriminate Hne.
Qed.

Lemma register_imports_ok l : forall st es st', ist_ok st -> Forall (fun kv => is_import (snd kv) = true) l ->
  register_imports l st = (es, st') -> ist_ok st'.
Proof.
  induction l as [|[a p] l IH]; intros st es st' Hst Hl; cbn [register_imports].
  - intros H; injection H as _ <-. exact Hst.
  - inversion Hl as [|? ? Hp Hl']; subst. cbn [snd] in Hp.
    pose proof (import_clean_Q _ (sanitize_path_clean p Hp)) as Hq.
    destruct (register_prefix a (sanitize_path p) st) as [st1 e] eqn:Er. destruct (register_imports l st1) as [es' st2] eqn:Ei.
    intros H; injection H as _ <-. refine (IH st1 es' st2 _ Hl' Ei).
    unfold register_prefix in Er. destruct (lookup a (is_prefixes st)); injection Er as <- _; [exact Hst|].
    destruct Hst as [H1 H2]. split; [exact H1|]. intros b q Hin. cbn [is_prefixes] in Hin. apply in_app_or in Hin.
    destruct Hin as [Hin|[Hin|[]]]; [exact (H2 _ _ Hin)|]. injection Hin as _ <-. exact Hq.
Qed.

(** the prefixes StepCompileMeta registers are the sanitized values, whatever they are *)
Lemma register_imports_prefixes l : forall st es st', register_imports l st = (es, st') ->
  forall a p, In (a, p) (is_prefixes st') -> In (a, p) (is_prefixes st) \/ exists p0, In (a, p0) l /\ p = sanitize_path p0.
Proof.
  induction l as [|[a0 p0] l IH]; intros st es st'; cbn [register_imports].
  - intros H; injection H as _ <-. auto.
  - destruct (register_prefix a0 (sanitize_path p0) st) as [st1 e] eqn:Er. destruct (register_imports l st1) as [es' st2] eqn:Ei.
    intros H; injection H as _ <-. intros a p Hin. destruct (IH _ _ _ Ei a p Hin) as [H1|[q [Hq ->]]].
    + unfold register_prefix in Er. destruct (lookup a0 (is_prefixes st)); injection Er as <- _; [left; exact H1|].
      cbn [is_prefixes] in H1. apply in_app_or in H1. destruct H1 as [H1|[H1|[]]]; [left; exact H1|].
      injection H1 as <- <-. right. exists p0. split; [left; reflexivity | reflexivity].
    + right. exists q. split; [right; exact Hq | reflexivity].
Qed.

Lemma register_fn_ok fns kv : Forall fn_ok fns -> site_match (re_in_MetaGoFn E) (snd kv) = true -> Forall fn_ok (register_fn E fns kv).
Proof.
  intros Hf Hm. unfold register_fn. cbv zeta. set (co := re_co_MetaGoFn E). set (m := smatch co (snd kv)).
  pose proof (el_vc_MetaGoFn HE _ Hm) as D.
  pose proof (smatch_lang co (snd kv) (s "import") _ (el_g_gofn_import HE)) as Himp.
  pose proof (smatch_lang_must co (snd kv) (s "fn") _ D (el_g_gofn_fn HE) (el_m_gofn_fn HE)) as Hfn.
  fold m in Himp, Hfn. apply go_token_sem in Hfn. constructor; [|exact Hf].
  split; cbn [ff_import ff_gofn]; [apply sanitize_import_ok, import_cap_of, Himp | exact Hfn].
Qed.

Lemma fold_register_fn_ok l : forall fns, Forall fn_ok fns -> Forall (fun kv => site_match (re_in_MetaGoFn E) (snd kv) = true) l ->
  Forall fn_ok (fold_left (register_fn E) l fns).
Proof.
  induction l as [|kv l IH]; intros fns Hf Hl; cbn [fold_left]; [exact Hf|].
  inversion Hl; subst. apply IH; [apply register_fn_ok; assumption | assumption].
Qed.

(** what validation establishes of the whole input *)
Record input_facts (i : input) : Prop := {
  if_pkg : forall x, m_pkg (i_meta i) = Some x -> is_go_token x = true;
  if_type : forall x, m_container_type (i_meta i) = Some x -> is_go_token x = true;
  if_ctor : forall x, m_container_constructor (i_meta i) = Some x -> is_go_token x = true;
  if_imports : Forall (fun kv => is_import (snd kv) = true) (m_imports (i_meta i));
  if_functions : Forall (fun kv => site_match (re_in_MetaGoFn E) (snd kv) = true) (m_functions (i_meta i));
  if_params : Forall (fun kv => is_yaml_token (fst kv) = true) (i_params i);
  if_services : Forall (fun kv => sv_facts (fst kv) (snd kv)) (i_services i);
  if_decorators : Forall (fun d => (d_tag d = s "*" \/ is_yaml_token (d_tag d) = true) /\
                                   site_match (re_in_DecoratorMethod E) (d_decorator d) = true) (i_decorators i) }.
Definition input_vals_ok (i : input) : Prop :=
  Forall (fun kv => val_ok (snd kv)) (i_params i) /\ Forall (fun kv => sv_vals_ok (snd kv)) (i_services i) /\
  Forall (fun d => Forall val_ok (d_args d)) (i_decorators i).

Ltac dg := match goal with |- context [gprefix ?a ?b] => destruct (gprefix a b); [discriminate|]; cbv beta iota end.

Theorem compile_ok B i o c : input_facts i -> input_vals_ok i -> compile E B i = ((o, None), c) -> out_lang o /\ cst_ok c.
Proof.
  intros [F1 F2 F3 F4 F5 F6 F7 F8] [V1 [V2 V3]]. unfold compile. rewrite (el_steps HE).
  cbn [compile_steps cstep]. destruct (step_validate E B i); [discriminate|].
  (* meta *)
  unfold step_meta. cbv zeta. cbn [cs_imports cs_fns].
  destruct (register_imports (sorted_entries (m_imports (i_meta i))) ist0) as [es is1] eqn:Er. cbv beta iota.
  dg.
  pose proof (register_imports_ok _ _ _ _ ist_ok_0 (Forall_sorted _ _ F4) Er) as Hi1.
  pose proof (fold_register_fn_ok (sorted_entries (m_functions (i_meta i))) [] (Forall_nil _) (Forall_sorted _ _ F5)) as Hf1.
  set (fns := fold_left (register_fn E) (sorted_entries (m_functions (i_meta i))) []) in *.
  assert (Hc1 : cst_ok {| cs_imports := is1; cs_fns := fns |}) by (split; assumption).
  (* params *)
  unfold step_params. cbn [o_meta o_params o_services o_decorators empty_output].
  destruct (compile_params E (sorted_entries (i_params i)) _) as [[ps pes] c2] eqn:Ep. cbv beta iota.
  destruct (compile_params_ok _ _ _ _ _ Hc1 (Forall_sorted _ _ (Forall_and _ _ _ F6 V1)) Ep) as [Hps Hc2].
  dg.
  (* services *)
  unfold step_services. cbn [o_meta o_params o_services o_decorators].
  destruct (compile_services E (sorted_entries (i_services i)) (i_meta i) c2) as [[svs ses] c3] eqn:Es. cbv beta iota.
  destruct (compile_services_ok _ _ _ _ _ _ Hc2 (Forall_sorted _ _ (Forall_and _ _ _ F7 V2)) Es) as [Hsvs Hc3].
  dg.
  (* decorators *)
  unfold step_decorators. cbn [o_meta o_params o_services o_decorators].
  destruct (compile_decorators E 0 (i_decorators i) c3) as [[ds des] c4] eqn:Ed. cbv beta iota.
  assert (F8' : Forall deco_facts (i_decorators i)).
  { rewrite Forall_forall in *. intros d Hd. destruct (F8 d Hd) as [H1 H2]. split; [exact H1|]. split; [exact H2 | exact (V3 d Hd)]. }
  destruct (compile_decorators_ok _ _ _ _ _ _ Hc3 F8' Ed) as [Hds Hc4].
  dg.
  intros H; injection H as <- <-. split; [|exact Hc4].
  split; cbn [o_meta o_params o_services o_decorators om_pkg om_type om_ctor]; auto.
  - destruct (m_pkg (i_meta i)) as [x|]; [exact (F1 x eq_refl) | exact (el_pkg HE)].
  - destruct (m_container_type (i_meta i)) as [x|]; [exact (F2 x eq_refl) | exact (el_type HE)].
  - destruct (m_container_constructor (i_meta i)) as [x|]; [exact (F3 x eq_refl) | exact (el_ctor HE)].
Qed.

(** * from [validate] to the facts *)
Lemma gprefix_In_none p l e : gprefix p l = None -> In e l -> e = None.
Proof. intros H. exact (proj1 (gprefix_none p l) H e). Qed.

Lemma regex_field_none f v st : regex_field f v st = None -> site_match st v = true.
Proof. unfold regex_field. destruct (site_match st v); [reflexivity | discriminate]. Qed.
Lemma opt_regex_field_none f o st x : opt_regex_field f o st = None -> o = Some x -> site_match st x = true.
Proof. intros H ->. exact (regex_field_none _ _ _ H). Qed.

Lemma flat_pair_none {A} (f g : A -> err) l : (forall e, In e (flat_map (fun kv => [f kv; g kv]) l) -> e = None) ->
  forall x, In x l -> f x = None /\ g x = None.
Proof.
  intros H x Hx. split; apply H; apply in_flat_map; exists x; (split; [exact Hx|]); [left | right; left]; reflexivity.
Qed.

Lemma if_site_none st x (m : err) : (if site_match st x then None else m) = None -> m <> None -> site_match st x = true.
Proof. destruct (site_match st x); [reflexivity | intros -> H; contradiction]. Qed.

Lemma v_calls_aux_none l : forall j, (forall e, In e (v_calls_aux E j l) -> e = None) ->
  Forall (fun c => site_match (re_in_ServiceCallName E) (c_method c) = true) l.
Proof.
  induction l as [|c l IH]; intros j H; [constructor|]. cbn [v_calls_aux] in H. constructor.
  - pose proof (H _ (or_introl eq_refl)) as H1. apply (regex_field_none (s "method")). eapply gprefix_In_none; [exact H1 | left; reflexivity].
  - apply (IH (S j)). intros e He. apply H. right. exact He.
Qed.

Lemma v_tags_aux_none l : forall j, (forall e, In e (v_tags_aux E j l) -> e = None) ->
  Forall (fun t => site_match (re_in_ServiceTag E) (t_name t) = true) l.
Proof.
  induction l as [|c l IH]; intros j H; [constructor|]. cbn [v_tags_aux] in H. constructor.
  - eapply regex_field_none. apply H. left. reflexivity.
  - apply (IH (S j)). intros e He. apply H. right. exact He.
Qed.

Lemma v_decorators_aux_none l : forall j, (forall e, In e (v_decorators_aux E j l) -> e = None) ->
  Forall (fun d => site_match (re_in_DecoratorsTag E) (d_tag d) = true /\ site_match (re_in_DecoratorMethod E) (d_decorator d) = true) l.
Proof.
  induction l as [|d l IH]; intros j H; [constructor|]. cbn [v_decorators_aux] in H. constructor.
  - pose proof (H _ (or_introl eq_refl)) as H1. split.
    + apply (regex_field_none (s "tag")). eapply gprefix_In_none; [exact H1 | left; reflexivity].
    + apply (regex_field_none (s "method")). eapply gprefix_In_none; [exact H1 | right; left; reflexivity].
  - apply (IH (S j)). intros e He. apply H. right. exact He.
Qed.

Lemma v_service_facts n sv : v_service E n sv = None -> sv_facts n sv.
Proof.
  unfold v_service. intros H. pose proof (fun e => gprefix_In_none _ _ e H) as K. clear H.
  assert (Hn : site_match (re_in_ServiceName E) n = true).
  { apply (if_site_none _ _ (leaf (s "invalid name"))); [apply K; left; reflexivity | discriminate]. }
  assert (R : opt_or (sv_todo sv) false = false -> forall e, In e
     [ v_constructor_type sv; opt_regex_field (s "constructor") (sv_constructor sv) (re_in_ServiceConstructor E);
       v_getter E sv; opt_regex_field (s "type") (sv_type sv) (re_in_ServiceType E);
       opt_regex_field (s "value") (sv_value sv) (re_in_ServiceValue E);
       v_service_args sv; v_calls E sv; v_fields E sv; v_tags E sv ] -> e = None).
  { intros T e He. apply K. right. rewrite T. exact He. }
  split.
  - exact (el_v_ServiceName HE _ Hn).
  - intros T x Hx. eapply opt_regex_field_none; [apply (R T); cbn [In]; tauto | exact Hx].
  - intros T x Hx. eapply opt_regex_field_none; [apply (R T); cbn [In]; tauto | exact Hx].
  - intros T g Hg. assert (Hv : v_getter E sv = None) by (apply (R T); cbn [In]; tauto).
    apply (el_v_ServiceGetter HE). exact (proj2 (proj2 (proj2 (v_getter_none E sv g Hv Hg)))).
  - intros T. assert (Hv : v_calls E sv = None) by (apply (R T); cbn [In]; tauto).
    unfold v_calls in Hv. pose proof (v_calls_aux_none _ 0%nat (fun e => gprefix_In_none _ _ e Hv)) as Hc.
    eapply Forall_impl; [|exact Hc]. intros c Hcm. exact (el_v_ServiceCallName HE _ Hcm).
  - intros T. assert (Hv : v_fields E sv = None) by (apply (R T); cbn [In]; tauto).
    unfold v_fields in Hv. pose proof (flat_pair_none _ _ _ (fun e => gprefix_In_none _ _ e Hv)) as Hf.
    apply Forall_forall. intros kv Hkv. apply (el_v_ServiceFieldName HE).
    apply sorted_entries_In in Hkv. destruct (Hf kv Hkv) as [H1 _]. exact (regex_field_none _ _ _ H1).
  - intros T. assert (Hv : v_tags E sv = None) by (apply (R T); cbn [In]; tauto).
    unfold v_tags in Hv.
    assert (Ht : forall e, In e (v_tags_aux E 0 (sv_tags sv)) -> e = None).
    { intros e He. eapply gprefix_In_none; [exact Hv|]. apply in_or_app. left. exact He. }
    pose proof (v_tags_aux_none _ 0%nat Ht) as Hc. eapply Forall_impl; [|exact Hc]. intros c Hcm. exact (el_v_ServiceTag HE _ Hcm).
Qed.

(** meta.imports: the validator accepts path, "path" (MetaImport) and rejects what is "." once the quotes are trimmed; StepCompileMeta
    registers the value with its quotes trimmed ([sanitize_path]).  (Before the repair of the tool the value was registered as it was
    and a quoted path went, with its quotes, between the double quotes of the import block.) *)
Lemma validated_imports B i : validate E B i = None ->
  Forall (fun kv => is_import (snd kv) = true /\ str_eqb (trim_both dq (snd kv)) (s ".") = false) (m_imports (i_meta i)).
Proof.
  unfold validate, gjoin. intros H. pose proof (fun e => gprefix_In_none _ _ e H) as K. clear H.
  assert (Km : v_meta E i = None) by (apply K; cbn [In]; tauto).
  unfold v_meta in Km. cbv zeta in Km. pose proof (fun e => gprefix_In_none _ _ e Km) as M.
  assert (Hv : v_meta_imports E (i_meta i) = None) by (apply M; cbn [In]; tauto). unfold v_meta_imports in Hv.
  pose proof (flat_pair_none _ _ _ (fun e => gprefix_In_none _ _ e Hv)) as Hf.
  apply Forall_forall. intros [a p] Hin. cbn [snd]. apply sorted_entries_In in Hin. destruct (Hf _ Hin) as [H1 _]. cbn [snd] in H1.
  change (""""%char) with dq in H1.
  destruct (site_match (re_in_MetaImport E) p) eqn:Em; [|discriminate H1].
  destruct (str_eqb (trim_both dq p) (s ".")) eqn:Ed; [discriminate H1|].
  split; [exact (el_v_MetaImport HE _ Em) | reflexivity].
Qed.

(** the positive result: for a validated input every path that meta.imports contributes is a non-empty path of the base language
    ([A-Za-z][A-Za-z0-9._-]* groups separated by single slashes); in particular it contains no double quote *)
Theorem validated_import_paths B i : validate E B i = None ->
  Forall (fun kv => is_base_import (sanitize_path (snd kv)) = true /\ ~ In dq (sanitize_path (snd kv))) (m_imports (i_meta i)).
Proof.
  intros H. eapply Forall_impl; [|exact (validated_imports B i H)]. intros kv [H1 H2].
  split; [exact (sanitize_path_base _ H1 H2) | exact (sanitize_path_nodq _ H1)].
Qed.

Theorem registered_imports_unquoted B i es st' : validate E B i = None ->
  register_imports (sorted_entries (m_imports (i_meta i))) ist0 = (es, st') ->
  forall a p, In (a, p) (is_prefixes st') -> is_base_import p = true /\ ~ In dq p.
Proof.
  intros Hv Hr a p Hin. destruct (register_imports_prefixes _ _ _ _ Hr a p Hin) as [[]|[p0 [H0 ->]]].
  apply (proj1 (sorted_entries_In _ _)) in H0. pose proof (validated_import_paths B i Hv) as F. rewrite Forall_forall in F. exact (F _ H0).
Qed.

Theorem validate_facts B i : validate E B i = None -> input_facts i.
Proof.
  intros H. pose proof (validated_imports B i H) as U. revert H.
  unfold validate, gjoin. intros H. pose proof (fun e => gprefix_In_none _ _ e H) as K. clear H.
  assert (Km : v_meta E i = None) by (apply K; cbn [In]; tauto).
  assert (Kp : v_params E i = None) by (apply K; cbn [In]; tauto).
  assert (Ks : v_services E i = None) by (apply K; cbn [In]; tauto).
  assert (Kd : v_decorators E i = None) by (apply K; cbn [In]; tauto).
  unfold v_meta in Km. cbv zeta in Km. pose proof (fun e => gprefix_In_none _ _ e Km) as M.
  split.
  - intros x Hx. apply (el_v_MetaPkg HE). eapply opt_regex_field_none; [apply M; cbn [In]; tauto | exact Hx].
  - intros x Hx. apply (el_v_MetaContainerType HE). eapply opt_regex_field_none; [apply M; cbn [In]; tauto | exact Hx].
  - intros x Hx. apply (el_v_MetaContainerConstructor HE). eapply opt_regex_field_none; [apply M; cbn [In]; tauto | exact Hx].
  - eapply Forall_impl; [|exact U]. intros kv HU. exact (proj1 HU).
  - assert (Hv : v_meta_functions E (i_meta i) = None) by (apply M; cbn [In]; tauto). unfold v_meta_functions in Hv.
    pose proof (flat_pair_none _ _ _ (fun e => gprefix_In_none _ _ e Hv)) as Hf.
    apply Forall_forall. intros kv Hin. apply sorted_entries_In in Hin. destruct (Hf _ Hin) as [_ H2].
    apply (if_site_none _ _ _ H2). discriminate.
  - unfold v_params in Kp. pose proof (flat_pair_none _ _ _ (fun e => gprefix_In_none _ _ e Kp)) as Hf.
    apply Forall_forall. intros kv Hin. apply sorted_entries_In in Hin. destruct (Hf _ Hin) as [H1 _].
    apply (el_v_ParamName HE). apply (if_site_none _ _ _ H1). discriminate.
  - unfold v_services in Ks. apply Forall_forall. intros kv Hin. apply v_service_facts.
    eapply gprefix_In_none; [exact Ks|]. apply in_or_app. left. apply in_map_iff. exists kv. split; [reflexivity|].
    apply sorted_entries_In. exact Hin.
  - unfold v_decorators in Kd. pose proof (v_decorators_aux_none _ 0%nat (fun e => gprefix_In_none _ _ e Kd)) as Hd.
    eapply Forall_impl; [|exact Hd]. intros d [H1 H2]. split; [|exact H2].
    destruct (el_v_DecoratorsTag HE _ H1) as [->|Hy]; [left; reflexivity | right; exact Hy].
Qed.

End WithEnv.

(** Part E: the regenerated constants satisfy [env_lex]; combined statements; examples *)

Lemma site_lang' st spec_re : equiv_check Tie.RegexTie.fuel (site_re st) spec_re = true /\ site_end st = true ->
  forall x, site_match st x = dmatch spec_re x.
Proof. intros [He Hend] x. unfold site_match. rewrite Hend. apply (equiv_check_dmatch _ _ _ He). Qed.

Lemma site_sub' a b spec_re :
  equiv_check Tie.RegexTie.fuel (site_re a) spec_re = true /\ site_end a = true ->
  equiv_check Tie.RegexTie.fuel (site_re b) spec_re = true /\ site_end b = true ->
  forall x, site_match a x = true -> site_submatch b x <> None.
Proof.
  intros Ha [Hb _] x H. apply site_submatch_iff_dmatch. rewrite (site_lang' _ _ Ha) in H.
  rewrite (equiv_check_dmatch _ _ _ Hb). exact H.
Qed.

Ltac tpl_s pre post := exists pre, post; split; [reflexivity|]; split; [reflexivity|]; left; intros a; reflexivity.
Ltac tpl_q pre post := exists pre, post; split; [reflexivity|]; split; [reflexivity|]; right; intros a; reflexivity.

Theorem the_env_lex : env_lex the_env.
Proof.
  split.
  - reflexivity.
  - reflexivity.
  - reflexivity.
  - reflexivity.
  - reflexivity.
  - tpl_q (s "dependencyService(") (s ")").
  - tpl_q (s "dependencyTag(") (s ")").
  - tpl_s (s "dependencyValue(") (s ")").
  - tpl_s (s "dependencyProvider(") (s ")").
  - tpl_s (s "dependencyProvider(func () (string, error) { return concatenateChunks(") (s ") })").
  - tpl_q (s "func() (interface{}, error) { return getParam(") (s ") }").
  - tpl_s (s "func() (r interface{}, err error) { ") (s " }").
  - repeat constructor.
  - repeat constructor.
  - intros x. rewrite (site_lang' _ _ tie_input_ServiceName), yaml_token_spec. trivial.
  - intros x. rewrite (site_lang' _ _ tie_input_ParamName), yaml_token_spec. trivial.
  - intros x. rewrite (site_lang' _ _ tie_input_ServiceTag), yaml_token_spec. trivial.
  - intros x. rewrite (site_lang' _ _ tie_input_DecoratorsTag). apply decorator_tag_spec.
  - intros x. rewrite (site_lang' _ _ tie_input_ServiceGetter), go_token_spec. trivial.
  - intros x. rewrite (site_lang' _ _ tie_input_ServiceCallName), go_token_spec. trivial.
  - intros x. rewrite (site_lang' _ _ tie_input_ServiceFieldName), go_token_spec. trivial.
  - intros x. rewrite (site_lang' _ _ tie_input_MetaPkg), go_token_spec. trivial.
  - intros x. rewrite (site_lang' _ _ tie_input_MetaContainerType), go_token_spec. trivial.
  - intros x. rewrite (site_lang' _ _ tie_input_MetaContainerConstructor), go_token_spec. trivial.
  - intros x. rewrite (site_lang' _ _ tie_input_MetaImport), import_spec. trivial.
  - exact (site_sub' _ _ _ tie_input_ServiceType tie_compiler_ServiceType).
  - exact (site_sub' _ _ _ tie_input_ServiceConstructor tie_compiler_ServiceConstructor).
  - exact (site_sub' _ _ _ tie_input_DecoratorMethod tie_compiler_DecoratorMethod).
  - exact (site_sub' _ _ _ tie_input_MetaGoFn tie_compiler_MetaGoFn).
  - vm_compute; reflexivity.
  - vm_compute; reflexivity.
  - vm_compute; reflexivity.
  - vm_compute; reflexivity.
  - vm_compute; reflexivity.
  - vm_compute; reflexivity.
  - vm_compute; reflexivity.
  - vm_compute; reflexivity.
  - vm_compute; reflexivity.
  - vm_compute; reflexivity.
  - vm_compute; reflexivity.
  - vm_compute; reflexivity.
  - vm_compute; reflexivity.
  - vm_compute; reflexivity.
  - vm_compute; reflexivity.
  - vm_compute; reflexivity.
  - vm_compute; reflexivity.
  - vm_compute; reflexivity.
  - vm_compute; reflexivity.
  - vm_compute; reflexivity.
  - vm_compute; reflexivity.
  - vm_compute; reflexivity.
  - vm_compute; reflexivity.
Qed.

(** * ITEM 4: the combined statements *)
Section Final.
Variable E : env.
Hypothesis HE : env_lex E.

(** a successful compile includes a successful validation (the validation step is one of the compiler's steps) *)
Lemma compile_validated B i o c : compile E B i = ((o, None), c) -> validate E B i = None.
Proof.
  unfold compile. rewrite (el_steps E HE). cbn [compile_steps cstep].
  destruct (step_validate E B i) eqn:Ev; [discriminate|]. intros _.
  unfold step_validate in Ev. eapply gprefix_In_none; [exact Ev | left; reflexivity].
Qed.

Lemma env_paths : env_paths_ok E.
Proof. unfold env_paths_ok. eapply over_mono; [apply pathQ_strc | apply (el_helper E HE)]. Qed.

Lemma ist_ok_imports st : ist_ok pathQ st -> imports_ok st.
Proof. intros [H _] p a Hin. destruct (H p a Hin) as [H1 H2]. split; [|exact H2]. eapply over_mono; [apply pathQ_strc | exact H1]. Qed.

(** ** the lexical statement: [N] = [neutral], paths over [A-Za-z0-9._/-] *)
Definition input_vals_ok_lex (i : input) : Prop := input_vals_ok E neutral i.

(** For every input the compiler accepts (hence: that passed validation), in normal and stub mode, for any build-info text without
    a newline, under the one hypothesis that is NOT a consequence of validation
      - [input_vals_ok_lex]   (TRUSTED RESIDUE: the text inside the parentheses of each %fn(...)% chunk is lexically balanced;
                               number / type texts supplied by the YAML decoder are plain)
    the compiled output obeys the table of ITEM 3, every rendered line is lexically closed (no newline byte; at the end of the line
    the scanner is back in code or inside a line comment: no string literal, raw string, rune or block comment is left open, so no
    piece of user text can change how the NEXT line is read), and every line of the import block is [identifier "path"] with a path
    free of quotes, backslashes and newlines. *)
Theorem rendered_file_lexically_safe B i o c stub bi :
  compile E B i = ((o, None), c) -> input_vals_ok_lex i -> over notnl bi ->
  out_lang neutral o /\
  Forall line_ok (fst (Model.Render.render E stub bi o (cs_imports c))) /\
  Forall import_line (map (fun kv => snd kv ++ s " """ ++ fst kv ++ s """")
                          (imports_sorted (snd (Model.Render.render E stub bi o (cs_imports c))))).
Proof.
  intros Hc Hv Hb. pose proof (compile_validated _ _ _ _ Hc) as Hval.
  pose proof (validate_facts E HE B i Hval) as Hf.
  destruct (compile_ok E pathQ (fun c H => H) neutral (fun x H => H) neutral_app HE B i o c Hf Hv Hc) as [Ho [Hi _]].
  pose proof (out_lang_ok neutral (fun x H => H) o Ho) as Ho'.
  destruct (render_lines_ok E stub bi o (cs_imports c) env_paths Hb Ho' (ist_ok_imports _ Hi)) as [Hl Hi'].
  split; [exact Ho|]. split; [exact Hl|]. apply import_lines. exact Hi'.
Qed.

(** ** ITEM 2, end to end: [N] = [over notnl], any path *)
Definition prims_ok (i : input) : Prop :=
  Forall (fun kv => prim_ok (snd kv)) (i_params i) /\
  Forall (fun kv => Forall prim_ok (sv_args (snd kv)) /\ Forall (fun cl => Forall prim_ok (c_args cl)) (sv_calls (snd kv)) /\
                    Forall (fun f => prim_ok (snd f)) (sv_fields (snd kv))) (i_services i) /\
  Forall (fun d => Forall prim_ok (d_args d)) (i_decorators i).

Lemma pattern_ok_notnl x : pattern_ok E (over notnl) x.
Proof.
  unfold pattern_ok. destruct (chunks E x) as [cs|]; [|exact I]. apply Forall_forall. intros ch _.
  unfold chunk_fnargs, simplefn. cbv zeta.
  destruct (site_submatch (re_tk_SimpleFn E) _) as [c|] eqn:Em; [|reflexivity].
  exact (sub_group_over _ _ _ _ _ Em (el_fnargs_nl E HE)).
Qed.

Lemma prims_vals_ok_gen (N : str -> Prop) i : (forall x, pattern_ok E N x) -> prims_ok i -> input_vals_ok E N i.
Proof.
  intros HN [H1 [H2 H3]].
  assert (PV : forall p, prim_ok p -> val_ok E N p).
  { intros p H. split; [exact H|]. destruct p; try exact I. apply HN. }
  split; [|split].
  - eapply Forall_impl; [|exact H1]. intros kv. apply PV.
  - eapply Forall_impl; [|exact H2]. intros kv [Ha [Hc Hf]]. split; [|split].
    + eapply Forall_impl; [|exact Ha]. apply PV.
    + eapply Forall_impl; [|exact Hc]. intros cl Hcl. eapply Forall_impl; [|exact Hcl]. apply PV.
    + eapply Forall_impl; [|exact Hf]. intros f. apply PV.
  - eapply Forall_impl; [|exact H3]. intros d Hd. eapply Forall_impl; [|exact Hd]. apply PV.
Qed.

Lemma prims_vals_ok i : prims_ok i -> input_vals_ok E (over notnl) i.
Proof. apply prims_vals_ok_gen. exact pattern_ok_notnl. Qed.

(** ** ITEM 3, end to end: [N] = anything.  For EVERY accepted input the emitted names and expressions are in the languages of the table
    [out_lang] ([param_lang], [svc_lang], [deco_lang]) and every local name of the alias table is a Go identifier; no hypothesis on
    %fn(...)% arguments or on meta.imports is involved. *)
Theorem emitted_names_table B i o c :
  compile E B i = ((o, None), c) -> prims_ok i ->
  out_lang (fun _ => True) o /\ (forall p a, In (p, a) (is_imports (cs_imports c)) -> is_go_token a = true).
Proof.
  intros Hc Hp. pose proof (compile_validated _ _ _ _ Hc) as Hval.
  pose proof (validate_facts E HE B i Hval) as Hf.
  assert (HN : forall x, pattern_ok E (fun _ => True) x).
  { intros x. unfold pattern_ok. destruct (chunks E x); [|exact I]. apply Forall_forall. intros; exact I. }
  destruct (compile_ok E (fun _ => true) (fun c H => eq_refl) (fun _ => True) (fun _ _ => I) (fun _ _ _ _ => I) HE B i o c Hf
              (prims_vals_ok_gen _ i HN Hp) Hc) as [Ho [[Hi _] _]].
  split; [exact Ho|]. intros p a Hin. exact (proj2 (Hi p a Hin)).
Qed.

(** For EVERY input the compiler accepts - whatever the strings in it, no hypothesis on %fn(...)% arguments or on meta.imports -
    each line of the two header sections starts with // and contains no newline byte.  (What the sections embed: parameter, service,
    field and method names: validated; values: through %+q; type / value / constructor / decorator expressions: captures of the
    validated languages and generated aliases; the Go code of parameters: templates, %+q literals, validated references, and the
    arguments of %fn(...)%, which the expression SimpleFn admits only without a newline.) *)
Theorem header_comments_safe B i o c :
  compile E B i = ((o, None), c) -> prims_ok i ->
  Forall comment_line (params_comment (o_params o)) /\ Forall comment_line (services_comment o).
Proof.
  intros Hc Hp. pose proof (compile_validated _ _ _ _ Hc) as Hval.
  pose proof (validate_facts E HE B i Hval) as Hf.
  destruct (compile_ok E (fun _ => true) (fun c H => eq_refl) (over notnl) neutral_notnl (over_app_intro notnl) HE B i o c Hf
              (prims_vals_ok i Hp) Hc) as [Ho _].
  pose proof (out_lang_ok (over notnl) neutral_notnl o Ho) as Ho'.
  split; [apply (params_comment_lines (over notnl) (fun x H => H)), Ho' | apply (services_comment_lines (over notnl) (fun x H => H)), Ho'].
Qed.

(** the same for whatever configuration files, globbing and YAML decoding the world answers with *)
Corollary pipeline_lexically_safe B fl w stub bi :
  let v := pipeline E B fl w in
  vd_exit v = 0%nat -> input_vals_ok_lex (vd_input v) -> over notnl bi ->
  out_lang neutral (vd_output v) /\ Forall line_ok (fst (Model.Render.render E stub bi (vd_output v) (cs_imports (vd_cst v)))).
Proof.
  unfold pipeline.
  destruct (read_config E w (builtin_input E empty_input)) as [[i1 e_read] ls].
  destruct e_read; [cbn; discriminate|].
  destruct (compile E B i1) as [[o e] c] eqn:Ec.
  destruct e; [cbn; discriminate|].
  destruct (vo_error fl o); [cbn; discriminate|].
  destruct (wd_build_err w); [cbn; discriminate|].
  destruct (wd_write_err w); [cbn; discriminate|].
  cbn [vd_exit vd_input vd_output vd_cst]. intros _ Hv Hb.
  destruct (rendered_file_lexically_safe B i1 o c stub bi Ec Hv Hb) as [H1 [H2 _]]. split; assumption.
Qed.

End Final.

(** * for the tool as regenerated from the source tree (statements for Props/C01) *)
Theorem C01_quote_safe : forall x, exists y, quote x = [dq] ++ y ++ [dq] /\ go_string_interior y = true.
Proof. exact quote_safe. Qed.
Print Assumptions C01_quote_safe.

Theorem C01_emitted_names_table : forall B i o c,
  compile the_env B i = ((o, None), c) -> prims_ok i ->
  out_lang (fun _ => True) o /\ (forall p a, In (p, a) (is_imports (cs_imports c)) -> is_go_token a = true).
Proof. exact (emitted_names_table the_env the_env_lex). Qed.
Print Assumptions C01_emitted_names_table.

Theorem C01_header_comments_safe : forall B i o c,
  compile the_env B i = ((o, None), c) -> prims_ok i ->
  Forall comment_line (params_comment (o_params o)) /\ Forall comment_line (services_comment o).
Proof. exact (header_comments_safe the_env the_env_lex). Qed.
Print Assumptions C01_header_comments_safe.

Theorem C01_rendered_file_lexically_safe : forall B i o c stub bi,
  compile the_env B i = ((o, None), c) -> input_vals_ok_lex the_env i -> over notnl bi ->
  out_lang neutral o /\
  Forall line_ok (fst (Model.Render.render the_env stub bi o (cs_imports c))) /\
  Forall import_line (map (fun kv => snd kv ++ s " """ ++ fst kv ++ s """")
                          (imports_sorted (snd (Model.Render.render the_env stub bi o (cs_imports c))))).
Proof. exact (rendered_file_lexically_safe the_env the_env_lex). Qed.
Print Assumptions C01_rendered_file_lexically_safe.

Theorem C01_pipeline_lexically_safe : forall B fl w stub bi,
  let v := pipeline the_env B fl w in
  vd_exit v = 0%nat -> input_vals_ok_lex the_env (vd_input v) -> over notnl bi ->
  out_lang neutral (vd_output v) /\
  Forall line_ok (fst (Model.Render.render the_env stub bi (vd_output v) (cs_imports (vd_cst v)))).
Proof. exact (pipeline_lexically_safe the_env the_env_lex). Qed.
Print Assumptions C01_pipeline_lexically_safe.

(** the paths that meta.imports contributes to the alias table of a validated input *)
Theorem C01_import_paths_unquoted : forall B i es st',
  validate the_env B i = None ->
  Forall (fun kv => is_base_import (sanitize_path (snd kv)) = true /\ ~ In dq (sanitize_path (snd kv))) (m_imports (i_meta i)) /\
  (register_imports (sorted_entries (m_imports (i_meta i))) ist0 = (es, st') ->
   forall a p, In (a, p) (is_prefixes st') -> is_base_import p = true /\ ~ In dq p).
Proof.
  intros B i es st' H. split; [exact (validated_import_paths the_env the_env_lex B i H) |].
  exact (registered_imports_unquoted the_env the_env_lex B i es st' H).
Qed.
Print Assumptions C01_import_paths_unquoted.

(** Part F: ITEM 5, examples by computation *)

(** newline, the end of a block comment, a double quote, a backslash, NUL, a two-byte rune, an invalid byte, a raw-string quote,
    a rune quote, the start of a line comment *)
Definition hostile : str := s "a" ++ bs [10]%N ++ s "b */ "" \ " ++ bs [0; 195; 169; 255]%N ++ s " `x` 'y' // z".

Example ex_quote_hostile : to_string (quote hostile) = """a\nb */ \"" \\ \x00\u00e9\xff `x` 'y' // z"""%string.
Proof. vm_compute. reflexivity. Qed.
Example ex_quote_hostile_interior : go_string_interior (quote_body (length hostile) hostile) = true.
Proof. vm_compute. reflexivity. Qed.
Example ex_gsi_rejects : map go_string_interior [s "a""b"; s "a\"; s "\q"; s "\x4"; bs [10]%N; bs [195; 169]%N; s "é"]
                         = [false; false; false; false; false; false; false].
Proof. vm_compute. reflexivity. Qed.

Definition svc1 : service :=
  {| sv_getter := Some (s "GetDb"); sv_must_getter := Some true; sv_type := Some (s "*sql.DB"); sv_value := None;
     sv_constructor := Some (s """database/sql"".Open");
     sv_args := [PStr hostile; PStr (s "@other"); PStr (s "!value &pk.Var.F"); PInt (s "int") (s "5")];
     sv_calls := [{| c_method := s "SetName"; c_args := [PStr hostile]; c_immutable := false |}];
     sv_fields := [(s "Name", PStr hostile)]; sv_tags := [{| t_name := s "my.tag"; t_prio := (-3)%Z |}]; sv_scope := None; sv_todo := None |}.
Definition svc2 : service :=
  {| sv_getter := None; sv_must_getter := None; sv_type := None; sv_value := Some (s "&pk.Other{}");
     sv_constructor := None; sv_args := []; sv_calls := []; sv_fields := []; sv_tags := []; sv_scope := None; sv_todo := None |}.
Definition hostile_input : input := builtin_input the_env
  {| i_version := None;
     i_meta := {| m_pkg := Some (s "app"); m_container_type := None; m_container_constructor := None; m_default_must_getter := None;
                  m_imports := [(s "pk", s "example.com/x/pkg")]; m_functions := [] |};
     i_params := [(s "hostile", PStr hostile); (s "home", PStr (s "%env(""HOME"")% is 100%% of %hostile%")); (s "n", PFloat (s "float64") (s "+Inf"))];
     i_services := [(s "db", svc1); (s "other", svc2)];
     i_decorators := [{| d_tag := s "my.tag"; d_decorator := s "pk.Decorate"; d_args := [PStr hostile] |}] |}.

Definition hostile_out := compile the_env (s "dev") hostile_input.
Definition hostile_lines (stub : bool) : list str :=
  fst (Model.Render.render the_env stub (s "dev") (fst (fst hostile_out)) (cs_imports (snd hostile_out))).

(** the configuration is accepted *)
Example ex_hostile_accepted : snd (fst hostile_out) = None.
Proof. vm_compute. reflexivity. Qed.

(** the hypotheses of the theorems hold for it: the theorems are not vacuous *)
Ltac val_tac :=
  split; [cbn; repeat split; reflexivity |
          first [ exact I
                | unfold pattern_ok;
                  match goal with |- match ?c with inl _ => _ | inr _ => _ end =>
                    let v := eval vm_compute in c in change c with v end;
                  cbv beta iota; repeat constructor; vm_compute; reflexivity ]].

Example ex_hostile_vals_ok : input_vals_ok_lex the_env hostile_input.
Proof.
  unfold input_vals_ok_lex, input_vals_ok, hostile_input, builtin_input. cbn [i_params i_services i_decorators].
  split; [|split].
  - repeat constructor; cbn [snd]; val_tac.
  - repeat constructor; cbn [snd svc1 svc2 sv_args sv_calls sv_fields c_args]; repeat constructor; cbn [snd]; val_tac.
  - repeat constructor; cbn [d_args]; repeat constructor; val_tac.
Qed.

(** hence, by the theorem *)
Example ex_hostile_safe_by_theorem : forall stub, Forall line_ok (hostile_lines stub).
Proof.
  intros stub. unfold hostile_lines.
  destruct hostile_out as [[o e] c] eqn:Eo.
  assert (He : e = None) by (change e with (snd (fst (o, e, c))); rewrite <- Eo; exact ex_hostile_accepted). subst e.
  exact (proj1 (proj2 (C01_rendered_file_lexically_safe _ _ _ _ stub (s "dev") Eo ex_hostile_vals_ok eq_refl))).
Qed.

(** and by direct computation *)
Example ex_hostile_safe_by_computation : forallb line_okb (hostile_lines false) = true /\ forallb line_okb (hostile_lines true) = true.
Proof. vm_compute. split; reflexivity. Qed.

(** what the hostile strings look like in the header comment and in the code *)
Example ex_hostile_params_comment :
  map to_string (params_comment (o_params (fst (fst hostile_out)))) =
  [ "// ············································································";
    "// ···································PARAMS···································";
    "// ············································································";
    "// #### home";
    "// Raw: ""%env(\""HOME\"")% is 100%% of %hostile%""";
    "// GO:  dependencyProvider(func () (string, error) { return concatenateChunks(func() (r interface{}, err error) { r, err = callProvider(getEnv, ""HOME""); if err != nil { err = i0_fmt.Errorf(""%s: %w"", ""cannot execute %env(\""HOME\"")%"", err) }; return }, func() (r interface{}, err error) { return "" is 100"", nil }, func() (r interface{}, err error) { return ""%"", nil }, func() (r interface{}, err error) { return "" of "", nil }, func() (interface{}, error) { return getParam(""hostile"") }) })";
    "// ············································································";
    "// #### hostile";
    "// Raw: ""a\nb */ \"" \\ \x00\u00e9\xff `x` 'y' // z""";
    "// GO:  dependencyProvider(func() (r interface{}, err error) { return ""a\nb */ \"" \\ \x00\u00e9\xff `x` 'y' // z"", nil })";
    "// ············································································";
    "// #### n";
    "// Raw: float64(+Inf)";
    "// GO:  dependencyValue(func() float64 { var z float64; return 1 / z }())";
    "// ············································································" ]%string.
Proof. vm_compute. reflexivity. Qed.

Example ex_hostile_service_comment :
  map to_string (firstn 7 (skipn 3 (services_comment (fst (fst hostile_out))))) =
  [ "// #### db";
    "// var service *i2_sql.DB";
    "// service = i3_sql.Open(eval(""a\nb */ \"" \\ \x00\u00e9\xff `x` 'y' // z""), eval(""@other""), eval(""!value &pk.Var.F""), int(5))";
    "// db.Name = eval(""a\nb */ \"" \\ \x00\u00e9\xff `x` 'y' // z"")";
    "// service.SetName(eval(""a\nb */ \"" \\ \x00\u00e9\xff `x` 'y' // z""))";
    "// service = i4_pkg.Decorate(""db"", service, eval(""a\nb */ \"" \\ \x00\u00e9\xff `x` 'y' // z""))";
    "// ············································································" ]%string.
Proof. vm_compute. reflexivity. Qed.

Example ex_hostile_code_lines :
  forallb (fun l => mem l (hostile_lines false))
  [ ch 9 :: s "c.OverrideParam(""hostile"", dependencyProvider(func() (r interface{}, err error) { return ""a\nb */ \"" \\ \x00\u00e9\xff `x` 'y' // z"", nil }))";
    ch 9 :: s "// ""hostile"": ""a\nb */ \"" \\ \x00\u00e9\xff `x` 'y' // z""";
    ch 9 :: s "s.SetField(""Name"", dependencyProvider(func() (r interface{}, err error) { return ""a\nb */ \"" \\ \x00\u00e9\xff `x` 'y' // z"", nil }) )";
    ch 9 :: s "dependencyValue(&i1_pk_Var.F),";
    ch 9 :: s "dependencyService(""other""),";
    ch 9 :: s "s.SetConstructor(func ()  interface{} { return &i4_pkg.Other{} })";
    s "i4_pkg ""example.com/x/pkg""";
    s "func (c *Gontainer) GetDb() (result *i2_sql.DB, err error) {";
    s "package app" ] = true.
Proof. vm_compute. reflexivity. Qed.

(** * the trusted residue is really pasted: an unbalanced argument of %fn(...)% passes validation and opens a block comment that the
    line does not close (the hypothesis [input_vals_ok_lex] of the theorem is not redundant) *)
Definition residue_input : input := builtin_input the_env
  {| i_version := None; i_meta := empty_meta; i_params := [(s "p", PStr (s "%env(/*)%"))]; i_services := []; i_decorators := [] |}.
Definition residue_out := compile the_env (s "dev") residue_input.
Example ex_residue :
  snd (fst residue_out) = None /\
  let ls := fst (Model.Render.render the_env false (s "dev") (fst (fst residue_out)) (cs_imports (snd residue_out))) in
  map to_string (filter (fun l => negb (line_okb l)) ls) =
  [ "	c.OverrideParam(""p"", dependencyProvider(func() (r interface{}, err error) { r, err = callProvider(getEnv, /*); if err != nil { err = i0_fmt.Errorf(""%s: %w"", ""cannot execute %env(/*)%"", err) }; return }))"%string ] /\
  forallb (fun l => has_prefix (s "//") l && forallb notnl l) (params_comment (o_params (fst (fst residue_out)))) = true.
Proof. vm_compute. repeat split; reflexivity. Qed.

(** * a quoted import path as the value of a meta.imports entry (formerly a FINDING: the value went, with its quotes, between the
    double quotes of the import block).  The validator expression MetaImport admits "path" (with the double quotes); StepCompileMeta
    now registers the path without the quotes, and the import block is Go:
      meta: { imports: { pk: '"github.com/foo/bar"' } }   services: { x: { constructor: "pk.New" } } *)
Definition import_input (p : str) : input := builtin_input the_env
  {| i_version := None;
     i_meta := {| m_pkg := None; m_container_type := None; m_container_constructor := None; m_default_must_getter := None;
                  m_imports := [(s "pk", p)]; m_functions := [] |};
     i_params := [];
     i_services := [(s "x", {| sv_getter := None; sv_must_getter := None; sv_type := None; sv_value := None;
                               sv_constructor := Some (s "pk.New"); sv_args := []; sv_calls := []; sv_fields := []; sv_tags := [];
                               sv_scope := None; sv_todo := None |})];
     i_decorators := [] |}.
Definition quoted_import_input : input := import_input (s """github.com/foo/bar""").
Definition quoted_import_out := compile the_env (s "dev") quoted_import_input.
Definition quoted_import_lines : list str :=
  fst (Model.Render.render the_env false (s "dev") (fst (fst quoted_import_out)) (cs_imports (snd quoted_import_out))).
Example ex_quoted_import :
  validate the_env (s "dev") quoted_import_input = None /\
  snd (fst quoted_import_out) = None /\
  mem (s "i0_bar ""github.com/foo/bar""") quoted_import_lines = true /\
  forallb line_okb quoted_import_lines = true /\
  is_prefixes (cs_imports (snd quoted_import_out)) = [(s "pk", s "github.com/foo/bar")].
Proof. repeat split; vm_compute; reflexivity. Qed.

(** the quoted and the unquoted spelling give the same file *)
Example ex_quoted_import_same :
  let out := compile the_env (s "dev") (import_input (s "github.com/foo/bar")) in
  fst (Model.Render.render the_env false (s "dev") (fst (fst out)) (cs_imports (snd out))) = quoted_import_lines.
Proof. vm_compute. reflexivity. Qed.

(** [pk: '"."'] (MetaImport admits it; its sanitized form would be the empty path) and [pk: '.'] are rejected by the validator *)
Example ex_dot_import_rejected :
  validate the_env (s "dev") (import_input (s """.""")) <> None /\
  snd (fst (compile the_env (s "dev") (import_input (s """.""")))) <> None /\
  validate the_env (s "dev") (import_input (s ".")) <> None.
Proof. repeat split; vm_compute; discriminate. Qed.
