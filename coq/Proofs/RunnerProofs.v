(** The runner model computes the straight-line [pipeline] (Spec/Pipeline.v) under the shipped wiring, never
    panics, and prints an error count equal to the length of the numbered error list. *)
From GV Require Import Base.Str Base.Quote Base.Gerr Base.Sort Regex.Re Model.Env Model.Input Model.Merge Model.Imports
  Model.Token Model.Compile Model.Validate Model.OutVal Model.Runner Spec.Pipeline.

Section WithEnv.
Variable E : env.
Hypothesis HE : std_env E.

(** what the runner decides, as a record comparable with [verdict] *)
Definition agrees (r : (run_state * err) * list event) (v : verdict) : Prop :=
  let '((st, e), _) := r in
  x_wrote st = vd_wrote v /\ x_output st = vd_output v /\ x_cst st = vd_cst v /\
  match e with
  | None => vd_exit v = 0 /\ vd_errors v = []
  | Some g => vd_exit v = 1 /\ vd_errors v = collection g
  end.

Lemma amalgamated_std fl st :
  exists evs, amalgamated E fl std_rules st [] [] = ((st, vo_error fl (x_output st)), evs).
Proof.
  unfold std_rules. cbn [amalgamated]. unfold verbose. cbn [is_active negb rule_run].
  unfold vo_error.
  destruct (f_ignore_params fl), (f_ignore_services fl); cbn [negb app]; eexists; reflexivity.
Qed.

Theorem run_core_refines B fl w out : agrees (run_core E B fl w out) (pipeline E B fl w).
Proof.
  unfold run_core, pipeline, agrees. rewrite (se_runner E HE). unfold std_runner.
  cbn [run_steps rs_name rs_kind rs_switch is_active]. unfold verbose at 1. cbn [negb step_inner st0 x_input x_output x_cst x_wrote].
  unfold verbose at 1. cbn [negb step_inner x_input x_output x_cst x_wrote].
  destruct (read_config E w (builtin_input E empty_input)) as [[i1 e_read] lines].
  destruct e_read as [g|].
  { cbn. repeat split; reflexivity. }
  cbn [run_steps rs_name rs_kind rs_switch is_active]. unfold verbose at 1. cbn [negb step_inner x_input x_output x_cst x_wrote].
  destruct (compile E B i1) as [[o e_c] c].
  destruct e_c as [g|].
  { cbn. repeat split; reflexivity. }
  cbn [run_steps rs_name rs_kind rs_switch is_active]. unfold verbose at 1. cbn [negb step_inner].
  match goal with |- context [amalgamated E fl std_rules ?st [] []] => destruct (amalgamated_std fl st) as [evs ->] end.
  cbn [x_output].
  destruct (vo_error fl o) as [g|].
  { cbn. repeat split; reflexivity. }
  cbn [run_steps rs_name rs_kind rs_switch is_active]. unfold verbose at 1. cbn [negb step_inner].
  destruct (wd_build_err w) as [m|].
  { cbn. repeat split; reflexivity. }
  destruct (wd_write_err w) as [m|]; cbn; repeat split; reflexivity.
Qed.

(** ** the printer never panics on the events of a run *)

Definition wf (d : nat) (p : pst) : Prop := p_indents p = repeat (s "  ") d.
Definition fits_b (left right : str) (d : nat) : bool :=
  Nat.leb (rune_count (left ++ right ++ concat (repeat (s "  ") d))) 60.
Definition safe (evs : list event) (d : nat) : Prop :=
  forall p, wf d p -> exists p', render E evs p = Ok p' /\ wf d p'.

Lemma print_aligned_ok left right extra d p : wf d p -> fits_b left right d = true ->
  exists p', print_aligned E left right extra p = Ok p' /\ wf d p'.
Proof.
  intros W F. unfold print_aligned. rewrite (se_width E HE). unfold fits_b in F. rewrite <- W in F.
  apply Nat.leb_le in F.
  destruct (Nat.ltb_spec 60 (rune_count (left ++ right ++ concat (p_indents p)))) as [L|L]; [lia|].
  eexists. split; [reflexivity|exact W].
Qed.

Lemma render_app a b p : render E (a ++ b) p = match render E a p with Ok p' => render E b p' | Panic m => Panic m end.
Proof.
  revert p; induction a as [|ev a IH]; intros p; cbn [app render]; [reflexivity|].
  destruct (render_event E p ev); [apply IH|reflexivity].
Qed.

Lemma safe_app a b d : safe a d -> safe b d -> safe (a ++ b) d.
Proof.
  intros Ha Hb p W. rewrite render_app. destruct (Ha p W) as (p1 & -> & W1). apply (Hb p1 W1).
Qed.

Lemma safe_nil d : safe [] d.
Proof. intros p W. exists p. split; [reflexivity|exact W]. Qed.

Lemma safe_lines l d : safe (map EvLine l) d.
Proof.
  induction l as [|x l IH]; [apply safe_nil|].
  intros p W. cbn [map render render_event]. apply IH. exact W.
Qed.

Lemma safe_aligned left right extra d : fits_b left right d = true -> safe [EvAligned left right extra] d.
Proof.
  intros F p W. cbn [render render_event]. destruct (print_aligned_ok left right extra d p W F) as (p' & -> & W').
  exists p'. split; [reflexivity|exact W'].
Qed.

Lemma repeat_snoc {A} (x : A) n : repeat x n ++ [x] = repeat x (S n).
Proof. induction n; cbn; [reflexivity|]. f_equal. exact IHn. Qed.

Lemma removelast_snoc {A} (l : list A) x : removelast (l ++ [x]) = l.
Proof. apply removelast_last. Qed.

Lemma safe_block name mark extra inner d :
  fits_b name [] d = true -> fits_b (name ++ s " END") mark d = true -> safe inner (S d) ->
  safe ([EvAligned name [] []; EvIndent (s "  ")] ++ inner ++ [EvEndIndent; EvAligned (name ++ s " END") mark extra]) d.
Proof.
  intros F1 F2 Hin p W.
  cbn [app render render_event].
  destruct (print_aligned_ok name [] [] d p W F1) as (p1 & -> & W1).
  assert (wf (S d) (indent (s "  ") p1)) as W2.
  { unfold wf, indent. cbn [p_indents]. rewrite W1. apply repeat_snoc. }
  rewrite render_app. destruct (Hin _ W2) as (p3 & -> & W3).
  cbn [render render_event]. unfold end_indent. rewrite W3.
  rewrite <- repeat_snoc. destruct (repeat (s "  ") d ++ [s "  "]) eqn:Er.
  { destruct (repeat (s "  ") d); discriminate. }
  rewrite <- Er. rewrite removelast_snoc.
  match goal with |- context [print_aligned E ?l ?r ?x ?q] =>
    assert (wf d q) as W4 by reflexivity;
    destruct (print_aligned_ok l r x d q W4 F2) as (p5 & -> & W5) end.
  exists p5. split; [reflexivity|exact W5].
Qed.

Lemma safe_verbose {S} name active (inner : S -> (S * err) * list event) st d :
  fits_b name [] d = true -> fits_b (name ++ s " END") (s "ignored") d = true ->
  fits_b (name ++ s " END") (k_check E) d = true -> fits_b (name ++ s " END") (k_xmark E) d = true ->
  safe (snd (inner st)) (Datatypes.S d) ->
  safe (snd (verbose E name active inner st)) d.
Proof.
  intros F1 F2 F3 F4 Hin. unfold verbose. destruct active; cbn [negb].
  - destruct (inner st) as [[st1 e] evs]. cbn [snd] in *.
    destruct e; apply safe_block; assumption.
  - cbn [snd]. change [EvAligned name [] []; EvAligned (name ++ s " END") (s "ignored") []]
      with ([EvAligned name [] []] ++ [EvAligned (name ++ s " END") (s "ignored") []]).
    apply safe_app; apply safe_aligned; assumption.
Qed.

Lemma amalgamated_std_safe fl st : safe (snd (amalgamated E fl std_rules st [] [])) 1.
Proof.
  unfold std_rules. cbn [amalgamated].
  repeat match goal with
  | |- context [verbose E ?n ?a ?f ?x] =>
      let H := fresh "Hs" in
      assert (safe (snd (verbose E n a f x)) 1) as H
        by (apply safe_verbose; [rewrite ?(se_check E HE), ?(se_xmark E HE); vm_compute; reflexivity ..| cbn [snd]; apply safe_nil]);
      destruct (verbose E n a f x) as [[? ?] ?]; cbn [snd] in H
  end.
  cbn [snd app]. repeat apply safe_app; try assumption; apply safe_nil.
Qed.

Theorem run_core_safe B fl w out : safe (snd (run_core E B fl w out)) 0.
Proof.
  unfold run_core. rewrite (se_runner E HE). unfold std_runner.
  cbn [run_steps rs_name rs_kind rs_switch is_active].
  repeat match goal with
  | |- context [verbose E ?n true ?f ?x] =>
      let H := fresh "Hs" in
      assert (safe (snd (verbose E n true f x)) 0) as H;
      [ apply safe_verbose; [rewrite ?(se_check E HE), ?(se_xmark E HE); vm_compute; reflexivity ..|];
        cbn [step_inner];
        try (destruct (read_config E w _) as [[? ?] ?]; cbn [snd]; apply safe_lines);
        try (destruct (compile E B _) as [[? ?] ?]; cbn [snd]; apply safe_nil);
        try apply amalgamated_std_safe;
        try (cbn [snd]; apply safe_nil);
        try (destruct (wd_build_err w); [|destruct (wd_write_err w)]; cbn [snd];
             repeat match goal with |- safe (EvLine ?a :: ?r) _ => change (EvLine a :: r) with (map EvLine [a] ++ r); apply safe_app; [apply safe_lines|] end;
             try apply safe_nil)
      | destruct (verbose E n true f x) as [[? [?|]] ?]; cbn [snd] in H;
        cbn [run_steps rs_name rs_kind rs_switch is_active snd app]; try assumption ]
  end.
  all: cbn [snd app]; repeat apply safe_app; try assumption; try apply safe_nil.
Qed.

Theorem run_no_panic B fl w out : exists oc, run E B fl w out = Ok oc.
Proof.
  unfold run. pose proof (run_core_safe B fl w out) as Hs.
  destruct (run_core E B fl w out) as [[st e] evs]. cbn [snd] in Hs.
  destruct (Hs p0 eq_refl) as (p & -> & _).
  destruct e; eexists; reflexivity.
Qed.

(** the verdict of [run] is the verdict of the pipeline *)
Theorem run_refines B fl w out :
  exists oc, run E B fl w out = Ok oc /\
    oc_exit oc = vd_exit (pipeline E B fl w) /\ oc_errors oc = vd_errors (pipeline E B fl w) /\
    oc_wrote oc = vd_wrote (pipeline E B fl w) /\
    x_output (oc_state oc) = vd_output (pipeline E B fl w) /\ x_cst (oc_state oc) = vd_cst (pipeline E B fl w) /\
    (f_quiet fl = true -> oc_stdout oc = []).
Proof.
  unfold run. pose proof (run_core_safe B fl w out) as Hs. pose proof (run_core_refines B fl w out) as Hr.
  destruct (run_core E B fl w out) as [[st e] evs]. cbn [snd] in Hs. unfold agrees in Hr.
  destruct (Hs p0 eq_refl) as (p & -> & _).
  destruct Hr as (Hw & Ho & Hc & He).
  destruct e as [g|]; destruct He as [He1 He2]; eexists; (split; [reflexivity|]); cbn;
    rewrite He1, He2; repeat split; try assumption; intros ->; reflexivity.
Qed.

End WithEnv.

(** ** the printed error count is the length of the numbered list (any wiring) *)
Section Count.
Variable E : env.

Lemma verbose_err {S} name active (inner : S -> (S * err) * list event) st st1 g evs :
  verbose E name active inner st = ((st1, Some g), evs) ->
  exists pre, evs = pre ++ [EvAligned (name ++ s " END") (k_xmark E) (count_suffix g)].
Proof.
  unfold verbose. destruct active; cbn [negb].
  - destruct (inner st) as [[st2 e] ev2]. intros H. injection H as <- -> <-.
    exists ([EvAligned name [] []; EvIndent (s "  ")] ++ ev2 ++ [EvEndIndent]).
    rewrite <- !app_assoc. reflexivity.
  - intros H. discriminate.
Qed.

Theorem failing_step_count B fl w out steps st0' evs0 st g evs :
  run_steps E B fl w out steps st0' evs0 = ((st, Some g), evs) ->
  exists pre name, evs = pre ++ [EvAligned (name ++ s " END") (k_xmark E) (count_suffix g)].
Proof.
  revert st0' evs0. induction steps as [|sp steps IH]; intros st0' evs0; cbn [run_steps].
  - intros H. discriminate.
  - destruct (verbose E (rs_name sp) (is_active fl (rs_switch sp)) (step_inner E B fl w out (rs_kind sp)) st0') as [[st1 e] ev1] eqn:Hv.
    destruct e as [g1|].
    + intros H. injection H as <- <- <-. destruct (verbose_err _ _ _ _ _ _ _ Hv) as [pre ->].
      exists (evs0 ++ pre), (rs_name sp). rewrite app_assoc. reflexivity.
    + apply IH.
Qed.

Lemma numbered_length l : length (numbered l) = length l.
Proof. unfold numbered. rewrite map_length, combine_length, seq_length. lia. Qed.

End Count.
