(** The front end (validation + compilation) does not depend on the order of the entries of the Go maps of its input.

    Go maps are association lists in arbitrary order; every consumer goes through [sorted_entries].  Two inputs
    that are extensionally equal ([input_eq], Proofs/MergeProofs.v) and well formed (unique keys) are validated and
    compiled to the very same result: same output, same error tree, same final compile state.
    The same is stated with explicit permutations ([perm_input]), and lifted through [merge] to several files. *)
From Coq Require Import Sorting.Sorted Sorting.Permutation Lia.
From GV Require Import Base.Str Base.Quote Base.Gerr Base.Sort Regex.Re Model.Env Model.Input Model.Merge Model.Imports
  Model.Token Model.Semver Model.Compile Model.Validate Model.OutVal Model.Runner.
From GV Require Import Proofs.SortProofs Proofs.MergeProofs.

(** * 0. Bridging the two [map_eq] (SortProofs / MergeProofs): they are the same definition *)
Lemma map_eq_bridge {A} (m m' : list (str * A)) : SortProofs.map_eq m m' <-> MergeProofs.map_eq m m'.
Proof. split; intros H k; apply H. Qed.

Lemma sorted_entries_meq {A} (m m' : list (str * A)) :
  NoDup (keys m) -> NoDup (keys m') -> MergeProofs.map_eq m m' -> sorted_entries m = sorted_entries m'.
Proof. intros N N' H. apply SortProofs.sorted_entries_map_eq; [exact N|exact N'|]. intros k; apply H. Qed.

Lemma perm_meq {A} (m m' : list (str * A)) : Permutation m m' -> NoDup (keys m) -> MergeProofs.map_eq m m'.
Proof. intros P N k. apply (SortProofs.perm_map_eq m m' P N). Qed.

Lemma perm_keys_NoDup {A} (m m' : list (str * A)) : Permutation m m' -> NoDup (keys m) -> NoDup (keys m').
Proof. intros P. apply Permutation_NoDup. unfold keys. apply Permutation_map. exact P. Qed.

(** * 1. Aligned association lists *)
Section Aligned.
  Context {A B : Type} (R : A -> B -> Prop).
  Definition entry_rel (p : str * A) (q : str * B) : Prop := fst p = fst q /\ R (snd p) (snd q).

  Lemma aligned_Forall2 (l : list (str * A)) (l' : list (str * B)) :
    keys l = keys l' -> NoDup (keys l) ->
    (forall k x y, In (k, x) l -> In (k, y) l' -> R x y) ->
    Forall2 entry_rel l l'.
  Proof.
    revert l'; induction l as [|[k x] l IH]; intros [|[k' y] l'] Hk Hnd HR; try discriminate; [constructor|].
    change (k :: keys l = k' :: keys l') in Hk. change (NoDup (k :: keys l)) in Hnd.
    injection Hk as Hk1 Hk2. subst k'.
    inversion Hnd as [|? ? Hnin Hnd']; subst.
    constructor.
    - split; [reflexivity|]. cbn [snd]. apply (HR k); left; reflexivity.
    - apply IH; [exact Hk2 | exact Hnd' |]. intros k0 x0 y0 Hx Hy. apply (HR k0); right; assumption.
  Qed.
End Aligned.

Lemma flat_map_Forall2 {A B C} (R : A -> B -> Prop) (f : A -> list C) (g : B -> list C) l l' :
  (forall x y, R x y -> f x = g y) -> Forall2 R l l' -> flat_map f l = flat_map g l'.
Proof.
  intros H F. induction F as [|x y l l' Hxy F IH]; cbn [flat_map]; [reflexivity|].
  rewrite (H _ _ Hxy), IH. reflexivity.
Qed.

Lemma map_Forall2 {A B C} (R : A -> B -> Prop) (f : A -> C) (g : B -> C) l l' :
  (forall x y, R x y -> f x = g y) -> Forall2 R l l' -> map f l = map g l'.
Proof.
  intros H F. induction F as [|x y l l' Hxy F IH]; cbn [map]; [reflexivity|].
  rewrite (H _ _ Hxy), IH. reflexivity.
Qed.

Lemma Forall2_weaken {A B} (R R' : A -> B -> Prop) l l' :
  (forall x y, R x y -> R' x y) -> Forall2 R l l' -> Forall2 R' l l'.
Proof. intros H F. induction F; constructor; auto. Qed.

(** * 2. Sorted entries of extensionally equal service maps *)
Lemma services_eq_keys_perm a b :
  NoDup (keys a) -> NoDup (keys b) -> services_eq a b -> Permutation (keys a) (keys b).
Proof.
  intros Ha Hb H. apply NoDup_Permutation; [exact Ha|exact Hb|].
  intros k. specialize (H k). split; intros Hin.
  - destruct (lookup k b) as [y|] eqn:Eb; [eapply lookup_Some_In_keys; exact Eb|].
    destruct (lookup k a) as [x|] eqn:Ea; [contradiction|].
    apply MergeProofs.lookup_None in Ea. contradiction.
  - destruct (lookup k a) as [x|] eqn:Ea; [eapply lookup_Some_In_keys; exact Ea|].
    destruct (lookup k b) as [y|] eqn:Eb; [contradiction|].
    apply MergeProofs.lookup_None in Eb. contradiction.
Qed.

Lemma sorted_entries_services_gen (P : service -> Prop) a b :
  NoDup (keys a) -> NoDup (keys b) -> services_eq a b ->
  Forall (fun kv => P (snd kv)) a -> Forall (fun kv => P (snd kv)) b ->
  Forall2 (entry_rel (fun x y => service_eq x y /\ P x /\ P y)) (sorted_entries a) (sorted_entries b).
Proof.
  intros Ha Hb H Fa Fb.
  apply aligned_Forall2.
  - rewrite !keys_sorted_entries. unfold sorted_keys.
    apply sort_strs_perm_eq; [apply services_eq_keys_perm; assumption | exact Ha].
  - apply keys_sorted_entries_NoDup; exact Ha.
  - intros k x y Hx Hy. apply (proj1 (In_sorted_entries _ _)) in Hx. apply (proj1 (In_sorted_entries _ _)) in Hy.
    rewrite Forall_forall in Fa, Fb.
    split; [|split; [exact (Fa _ Hx) | exact (Fb _ Hy)]].
    pose proof (SortProofs.In_lookup k x a Ha Hx) as Lx.
    pose proof (SortProofs.In_lookup k y b Hb Hy) as Ly.
    specialize (H k). rewrite Lx, Ly in H. exact H.
Qed.

(** item 1 of the task *)
Theorem sorted_entries_services_eq (a b : list (str * service)) :
  NoDup (keys a) -> NoDup (keys b) -> services_eq a b ->
  Forall2 (fun x y => fst x = fst y /\ service_eq (snd x) (snd y)) (sorted_entries a) (sorted_entries b).
Proof.
  intros Ha Hb H.
  apply (Forall2_weaken (entry_rel (fun x y => service_eq x y /\ (fun _ => True) x /\ (fun _ => True) y))).
  - intros x y [Hk [Hs _]]. split; assumption.
  - apply sorted_entries_services_gen; try assumption; apply Forall_forall; intros; exact I.
Qed.

(** the relation between corresponding services that the model functions respect *)
Definition svc_rel (x y : service) : Prop := service_eq x y /\ wf_service x /\ wf_service y.

Lemma sorted_entries_services_rel a b :
  wf_services a -> wf_services b -> services_eq a b ->
  Forall2 (entry_rel svc_rel) (sorted_entries a) (sorted_entries b).
Proof.
  intros [Ha Fa] [Hb Fb] H. apply (sorted_entries_services_gen wf_service); assumption.
Qed.

Lemma fields_sorted_eq x y : svc_rel x y -> sorted_entries (sv_fields x) = sorted_entries (sv_fields y).
Proof.
  intros [(_&_&_&_&_&_&_&Hf&_) [Wx Wy]]. apply sorted_entries_meq; assumption.
Qed.

Ltac dsvc H := destruct H as [(Hg&Hmg&Hty&Hva&Hco&Har&Hca&Hfi&Hta&Hsc&Hto) [Hwx Hwy]].

(** what the front end reads of an input, after sorting *)
Record input_sorted_eq (i i' : input) : Prop := {
  ise_version : i_version i = i_version i';
  ise_pkg : m_pkg (i_meta i) = m_pkg (i_meta i');
  ise_ctype : m_container_type (i_meta i) = m_container_type (i_meta i');
  ise_cctor : m_container_constructor (i_meta i) = m_container_constructor (i_meta i');
  ise_dmg : m_default_must_getter (i_meta i) = m_default_must_getter (i_meta i');
  ise_imports : sorted_entries (m_imports (i_meta i)) = sorted_entries (m_imports (i_meta i'));
  ise_functions : sorted_entries (m_functions (i_meta i)) = sorted_entries (m_functions (i_meta i'));
  ise_params : sorted_entries (i_params i) = sorted_entries (i_params i');
  ise_services : Forall2 (entry_rel svc_rel) (sorted_entries (i_services i)) (sorted_entries (i_services i'));
  ise_decorators : i_decorators i = i_decorators i' }.

Lemma input_eq_sorted i i' : input_eq i i' -> wf_input i -> wf_input i' -> input_sorted_eq i i'.
Proof.
  intros (Hv & (H1&H2&H3&H4&H5&H6) & Hp & Hs & Hd) ((Wi&Wf) & Wp & Ws) ((Wi'&Wf') & Wp' & Ws').
  constructor; try assumption.
  - apply sorted_entries_meq; assumption.
  - apply sorted_entries_meq; assumption.
  - apply sorted_entries_meq; assumption.
  - apply sorted_entries_services_rel; assumption.
Qed.

Section WithEnv.
Variable E : env.

(** * 3. Validators *)
Lemma v_service_eq n x y : svc_rel x y -> v_service E n x = v_service E n y.
Proof.
  intros H. pose proof (fields_sorted_eq _ _ H) as Hf. dsvc H.
  unfold v_service, v_constructor_type, v_getter, v_service_args, v_calls, v_fields, v_tags.
  rewrite Hg, Hty, Hva, Hco, Har, Hca, Hf, Hta, Hto. reflexivity.
Qed.

Lemma v_version_eq B i i' : input_sorted_eq i i' -> v_version B i = v_version B i'.
Proof. intros [Hv Hpk Hct Hcc Hdm Him Hfn Hpa Hsv Hde]. unfold v_version. rewrite Hv. reflexivity. Qed.

Lemma v_meta_eq i i' : input_sorted_eq i i' -> v_meta E i = v_meta E i'.
Proof.
  intros [Hv Hpk Hct Hcc Hdm Him Hfn Hpa Hsv Hde].
  unfold v_meta, v_meta_imports, v_meta_functions. cbv zeta.
  rewrite Hpk, Hct, Hcc, Him, Hfn. reflexivity.
Qed.

Lemma v_params_eq i i' : input_sorted_eq i i' -> v_params E i = v_params E i'.
Proof. intros [Hv Hpk Hct Hcc Hdm Him Hfn Hpa Hsv Hde]. unfold v_params. rewrite Hpa. reflexivity. Qed.

Lemma getter_owners_eq i i' : input_sorted_eq i i' -> getter_owners i = getter_owners i'.
Proof.
  intros [Hv Hpk Hct Hcc Hdm Him Hfn Hpa Hsv Hde]. unfold getter_owners.
  eapply flat_map_Forall2; [|exact Hsv].
  intros [k x] [k' y] [Hk Hs]. cbn [fst snd] in *. subst k'. dsvc Hs.
  rewrite Hto, Hg. reflexivity.
Qed.

Lemma v_unique_getters_eq i i' : input_sorted_eq i i' -> v_unique_getters i = v_unique_getters i'.
Proof. intros H. unfold v_unique_getters. rewrite (getter_owners_eq i i' H). reflexivity. Qed.

Lemma v_services_eq i i' : input_sorted_eq i i' -> v_services E i = v_services E i'.
Proof.
  intros H. unfold v_services. rewrite (v_unique_getters_eq i i' H). f_equal. f_equal.
  eapply map_Forall2; [|exact (ise_services _ _ H)].
  intros [k x] [k' y] [Hk Hs]. cbn [fst snd] in *. subst k'. apply v_service_eq; exact Hs.
Qed.

Lemma v_decorators_eq i i' : input_sorted_eq i i' -> v_decorators E i = v_decorators E i'.
Proof. intros [Hv Hpk Hct Hcc Hdm Him Hfn Hpa Hsv Hde]. unfold v_decorators. rewrite Hde. reflexivity. Qed.

Lemma validate_sorted_eq B i i' : input_sorted_eq i i' -> validate E B i = validate E B i'.
Proof.
  intros H. unfold validate.
  rewrite (v_version_eq B i i' H), (v_meta_eq i i' H), (v_params_eq i i' H), (v_services_eq i i' H),
    (v_decorators_eq i i' H). reflexivity.
Qed.

(** item 2 of the task *)
Theorem validate_input_eq B i i' : input_eq i i' -> wf_input i -> wf_input i' -> validate E B i = validate E B i'.
Proof. intros H W W'. apply validate_sorted_eq, input_eq_sorted; assumption. Qed.

Corollary step_validate_input_eq B i i' :
  input_eq i i' -> wf_input i -> wf_input i' -> step_validate E B i = step_validate E B i'.
Proof. intros H W W'. unfold step_validate. rewrite (validate_input_eq B i i' H W W'). reflexivity. Qed.

(** * 4. Compile steps *)
Lemma step_meta_eq i i' o c : input_sorted_eq i i' -> step_meta E i o c = step_meta E i' o c.
Proof.
  intros [Hv Hpk Hct Hcc Hdm Him Hfn Hpa Hsv Hde]. unfold step_meta. cbv zeta.
  rewrite Hpk, Hct, Hcc, Him, Hfn. reflexivity.
Qed.

Lemma step_params_eq i i' o c : input_sorted_eq i i' -> step_params E i o c = step_params E i' o c.
Proof. intros [Hv Hpk Hct Hcc Hdm Him Hfn Hpa Hsv Hde]. unfold step_params. rewrite Hpa. reflexivity. Qed.

Lemma getter_of_eq x y m m' :
  svc_rel x y -> m_default_must_getter m = m_default_must_getter m' -> getter_of E x m = getter_of E y m'.
Proof. intros H Hm. dsvc H. unfold getter_of. rewrite Hg, Hmg, Hm. reflexivity. Qed.

Lemma process_service_eq n x y m m' c :
  svc_rel x y -> m_default_must_getter m = m_default_must_getter m' ->
  process_service E n x m c = process_service E n y m' c.
Proof.
  intros H Hm. pose proof (fields_sorted_eq _ _ H) as Hf. pose proof (getter_of_eq x y m m' H Hm) as Hgo.
  dsvc H. unfold process_service.
  rewrite Hgo, Hto, Hf, Har, Hca, Hty, Hva, Hco, Hta. reflexivity.
Qed.

Lemma compile_services_eq l l' m m' :
  m_default_must_getter m = m_default_must_getter m' ->
  Forall2 (entry_rel svc_rel) l l' ->
  forall c, compile_services E l m c = compile_services E l' m' c.
Proof.
  intros Hm F. induction F as [|[k x] [k' y] l l' [Hk Hs] F IH]; intros c; [reflexivity|].
  cbn [fst snd] in Hk, Hs. subst k'. cbn [compile_services].
  rewrite (process_service_eq k x y m m' c Hs Hm).
  destruct (process_service E k y m' c) as [[sv e] c1]. rewrite IH.
  dsvc Hs. rewrite Hsc. reflexivity.
Qed.

Lemma step_services_eq i i' o c : input_sorted_eq i i' -> step_services E i o c = step_services E i' o c.
Proof.
  intros [Hv Hpk Hct Hcc Hdm Him Hfn Hpa Hsv Hde]. unfold step_services.
  rewrite (compile_services_eq _ _ (i_meta i) (i_meta i') Hdm Hsv c). reflexivity.
Qed.

Lemma step_decorators_eq i i' o c : input_sorted_eq i i' -> step_decorators E i o c = step_decorators E i' o c.
Proof. intros [Hv Hpk Hct Hcc Hdm Him Hfn Hpa Hsv Hde]. unfold step_decorators. rewrite Hde. reflexivity. Qed.

Lemma cstep_eq B k i i' o c : input_sorted_eq i i' -> cstep E B k i o c = cstep E B k i' o c.
Proof.
  intros H. destruct k; cbn [cstep].
  - unfold step_validate. rewrite (validate_sorted_eq B i i' H). reflexivity.
  - apply step_meta_eq; exact H.
  - apply step_params_eq; exact H.
  - apply step_services_eq; exact H.
  - apply step_decorators_eq; exact H.
Qed.

Lemma compile_steps_eq B ks i i' :
  input_sorted_eq i i' -> forall o c, compile_steps E B ks i o c = compile_steps E B ks i' o c.
Proof.
  intros H. induction ks as [|k ks IH]; intros o c; cbn [compile_steps]; [reflexivity|].
  rewrite (cstep_eq B k i i' o c H). destruct (cstep E B k i' o c) as [[o1 e] c1].
  destruct e; [reflexivity|apply IH].
Qed.

(** item 3 of the task *)
Theorem compile_input_eq B i i' : input_eq i i' -> wf_input i -> wf_input i' -> compile E B i = compile E B i'.
Proof. intros H W W'. unfold compile. apply compile_steps_eq, input_eq_sorted; assumption. Qed.

(** the built-in input keeps both relations *)
Lemma builtin_input_eq i i' : input_eq i i' -> input_eq (builtin_input E i) (builtin_input E i').
Proof.
  intros (Hv & (H1&H2&H3&H4&H5&H6) & Hp & Hs & Hd). unfold builtin_input, input_eq, meta_eq.
  cbn [i_version i_meta i_params i_services i_decorators m_pkg m_container_type m_container_constructor
       m_default_must_getter m_imports m_functions].
  split; [exact Hv|]. split; [|split; [exact Hp|split; [exact Hs|exact Hd]]].
  split; [exact H1|]. split; [exact H2|]. split; [exact H3|]. split; [exact H4|].
  split; [exact H5|apply MergeProofs.map_eq_refl].
Qed.

Lemma builtin_input_wf i : NoDup (keys (k_builtin_funcs E)) -> wf_input i -> wf_input (builtin_input E i).
Proof.
  intros Hb ((Wi&Wf) & Wp & Ws). unfold builtin_input, wf_input, wf_meta.
  cbn [i_meta i_params i_services m_imports m_functions]. repeat split; try assumption; apply Ws.
Qed.

Corollary compile_builtin_input_eq B i i' :
  NoDup (keys (k_builtin_funcs E)) ->
  input_eq i i' -> wf_input i -> wf_input i' ->
  compile E B (builtin_input E i) = compile E B (builtin_input E i').
Proof.
  intros Hb H W W'. apply compile_input_eq; [apply builtin_input_eq; exact H | |]; apply builtin_input_wf; assumption.
Qed.

End WithEnv.

(** * 5. The same with explicit permutations *)
Definition perm_service (x y : service) : Prop :=
  sv_getter x = sv_getter y /\ sv_must_getter x = sv_must_getter y /\ sv_type x = sv_type y /\
  sv_value x = sv_value y /\ sv_constructor x = sv_constructor y /\ sv_args x = sv_args y /\
  sv_calls x = sv_calls y /\ Permutation (sv_fields x) (sv_fields y) /\ sv_tags x = sv_tags y /\
  sv_scope x = sv_scope y /\ sv_todo x = sv_todo y.

(** [b] is [a] with its entries permuted, and inside every service the fields permuted *)
Definition perm_services (a b : list (str * service)) : Prop :=
  exists a0, Permutation a a0 /\ Forall2 (entry_rel perm_service) a0 b.

Definition perm_meta (x y : meta) : Prop :=
  m_pkg x = m_pkg y /\ m_container_type x = m_container_type y /\
  m_container_constructor x = m_container_constructor y /\
  m_default_must_getter x = m_default_must_getter y /\
  Permutation (m_imports x) (m_imports y) /\ Permutation (m_functions x) (m_functions y).

Definition perm_input (a b : input) : Prop :=
  i_version a = i_version b /\ perm_meta (i_meta a) (i_meta b) /\ Permutation (i_params a) (i_params b) /\
  perm_services (i_services a) (i_services b) /\ i_decorators a = i_decorators b.

Lemma perm_service_refl x : perm_service x x.
Proof. unfold perm_service. repeat (split; [reflexivity|]). reflexivity. Qed.

Lemma perm_services_refl a : perm_services a a.
Proof.
  exists a. split; [apply Permutation_refl|].
  induction a as [|kv a IH]; constructor; [|exact IH]. split; [reflexivity|apply perm_service_refl].
Qed.

Lemma perm_input_refl a : perm_input a a.
Proof.
  unfold perm_input, perm_meta. split; [reflexivity|]. split; [|split; [|split]].
  - repeat (split; [reflexivity|]). apply Permutation_refl.
  - apply Permutation_refl.
  - apply perm_services_refl.
  - reflexivity.
Qed.

(** permuting the entries only (the services themselves untouched) is a special case *)
Lemma perm_services_of_perm a b : Permutation a b -> perm_services a b.
Proof.
  intros P. exists b. split; [exact P|].
  clear P. induction b as [|kv b IH]; constructor; [|exact IH]. split; [reflexivity|apply perm_service_refl].
Qed.

Lemma service_eq_intro x y :
  sv_getter x = sv_getter y -> sv_must_getter x = sv_must_getter y -> sv_type x = sv_type y ->
  sv_value x = sv_value y -> sv_constructor x = sv_constructor y -> sv_args x = sv_args y ->
  sv_calls x = sv_calls y -> MergeProofs.map_eq (sv_fields x) (sv_fields y) -> sv_tags x = sv_tags y ->
  sv_scope x = sv_scope y -> sv_todo x = sv_todo y -> service_eq x y.
Proof. intros. unfold service_eq. repeat (split; [assumption|]). assumption. Qed.

Lemma perm_service_eq x y : perm_service x y -> wf_service x -> service_eq x y /\ wf_service y.
Proof.
  intros (H1&H2&H3&H4&H5&H6&H7&H8&H9&H10&H11) W. split.
  - apply service_eq_intro; try assumption. apply perm_meq; assumption.
  - unfold wf_service in *. eapply perm_keys_NoDup; eassumption.
Qed.

Lemma Forall2_perm_services a0 b :
  Forall2 (entry_rel perm_service) a0 b -> Forall (fun kv => wf_service (snd kv)) a0 ->
  keys a0 = keys b /\ Forall (fun kv => wf_service (snd kv)) b /\ services_eq a0 b.
Proof.
  intros F. induction F as [|[k x] [k' y] a0 b [Hk Hs] F IH]; intros W.
  - split; [reflexivity|]. split; [constructor|]. intros k. exact I.
  - cbn [fst snd] in Hk, Hs. subst k'. inversion W as [|? ? Wx W']; subst. cbn [snd] in Wx.
    destruct (IH W') as (IHk & IHw & IHe). destruct (perm_service_eq x y Hs Wx) as [Hse Wy].
    split; [|split].
    + change (k :: keys a0 = k :: keys b). rewrite IHk. reflexivity.
    + constructor; [exact Wy|exact IHw].
    + intros k0. cbn [lookup]. destruct (str_eqb k0 k); [exact Hse|apply IHe].
Qed.

Lemma perm_services_eq a b : perm_services a b -> wf_services a -> services_eq a b /\ wf_services b.
Proof.
  intros (a0 & P & F) [Na Wa].
  assert (Na0 : NoDup (keys a0)) by (eapply perm_keys_NoDup; eassumption).
  assert (Wa0 : Forall (fun kv => wf_service (snd kv)) a0).
  { rewrite Forall_forall in *. intros kv Hin. apply Wa. eapply Permutation_in; [apply Permutation_sym; exact P|exact Hin]. }
  destruct (Forall2_perm_services a0 b F Wa0) as (Hk & Wb & He).
  split.
  - intros k. rewrite (perm_meq a a0 P Na k). apply He.
  - split; [rewrite <- Hk; exact Na0|exact Wb].
Qed.

Theorem perm_input_eq i i' : perm_input i i' -> wf_input i -> input_eq i i' /\ wf_input i'.
Proof.
  intros (Hv & (H1&H2&H3&H4&H5&H6) & Hp & Hs & Hd) ((Wi&Wf) & Wp & Ws).
  destruct (perm_services_eq _ _ Hs Ws) as [Hse Ws'].
  split.
  - unfold input_eq, meta_eq. split; [exact Hv|]. split; [|split; [|split]].
    + repeat (split; [assumption|]). split; apply perm_meq; assumption.
    + apply perm_meq; assumption.
    + exact Hse.
    + exact Hd.
  - unfold wf_input, wf_meta. split; [split|split].
    + eapply perm_keys_NoDup; eassumption.
    + eapply perm_keys_NoDup; eassumption.
    + eapply perm_keys_NoDup; eassumption.
    + exact Ws'.
Qed.

Corollary perm_input_input_eq i i' : perm_input i i' -> wf_input i -> input_eq i i'.
Proof. intros H W. apply (perm_input_eq i i' H W). Qed.
Corollary perm_input_wf i i' : perm_input i i' -> wf_input i -> wf_input i'.
Proof. intros H W. apply (perm_input_eq i i' H W). Qed.

(** item 4 of the task: the form property C08 uses *)
Theorem compile_perm (E : env) B i i' : perm_input i i' -> wf_input i -> compile E B i = compile E B i'.
Proof.
  intros H W. destruct (perm_input_eq i i' H W) as [He W']. apply compile_input_eq; assumption.
Qed.

Theorem validate_perm (E : env) B i i' : perm_input i i' -> wf_input i -> validate E B i = validate E B i'.
Proof.
  intros H W. destruct (perm_input_eq i i' H W) as [He W']. apply validate_input_eq; assumption.
Qed.

(** * 6. [merge] respects extensional equality *)
Lemma merge_map_meq {A} (a a' b b' : list (str * A)) :
  MergeProofs.map_eq a a' -> MergeProofs.map_eq b b' -> NoDup (keys b) -> NoDup (keys b') ->
  MergeProofs.map_eq (merge_map a b) (merge_map a' b').
Proof.
  intros Ha Hb N N' k. rewrite (lookup_merge_map k a b N), (lookup_merge_map k a' b' N').
  rewrite (Ha k), (Hb k). reflexivity.
Qed.

Lemma merge_service_eq x x' y y' :
  service_eq x x' -> service_eq y y' -> wf_service y -> wf_service y' ->
  service_eq (merge_service x y) (merge_service x' y').
Proof.
  intros (H1&H2&H3&H4&H5&H6&H7&H8&H9&H10&H11) (G1&G2&G3&G4&G5&G6&G7&G8&G9&G10&G11) Wy Wy'.
  apply service_eq_intro;
    cbn [merge_service sv_getter sv_must_getter sv_type sv_value sv_constructor sv_args sv_calls sv_fields
         sv_tags sv_scope sv_todo]; try congruence.
  apply merge_map_meq; assumption.
Qed.

Lemma merge_services_eq a a' b b' :
  services_eq a a' -> services_eq b b' -> wf_services b -> wf_services b' ->
  services_eq (merge_services a b) (merge_services a' b').
Proof.
  intros Ha Hb Wb Wb' k.
  rewrite (lookup_merge_services k a b (proj1 Wb)), (lookup_merge_services k a' b' (proj1 Wb')).
  specialize (Ha k); specialize (Hb k).
  destruct (lookup k b) as [y|] eqn:Eb, (lookup k b') as [y'|] eqn:Eb'; try contradiction.
  - destruct (lookup k a) as [x|], (lookup k a') as [x'|]; try contradiction.
    + apply merge_service_eq; [exact Ha|exact Hb| |].
      * eapply wf_services_lookup; [exact Wb|exact Eb].
      * eapply wf_services_lookup; [exact Wb'|exact Eb'].
    + exact Hb.
  - exact Ha.
Qed.

Lemma merge_meta_eq x x' y y' :
  meta_eq x x' -> meta_eq y y' -> wf_meta y -> wf_meta y' -> meta_eq (merge_meta x y) (merge_meta x' y').
Proof.
  intros (H1&H2&H3&H4&H5&H6) (G1&G2&G3&G4&G5&G6) [Wi Wf] [Wi' Wf']. unfold meta_eq.
  cbn [merge_meta m_pkg m_container_type m_container_constructor m_default_must_getter m_imports m_functions].
  split; [congruence|]. split; [congruence|]. split; [congruence|]. split; [congruence|].
  split; apply merge_map_meq; assumption.
Qed.

(** item 5 of the task (the left operands need no well-formedness) *)
Theorem merge_input_eq a a' b b' :
  input_eq a a' -> input_eq b b' -> wf_input b -> wf_input b' -> input_eq (merge a b) (merge a' b').
Proof.
  intros (Hv & Hm & Hp & Hs & Hd) (Gv & Gm & Gp & Gs & Gd) (Wm & Wp & Ws) (Wm' & Wp' & Ws').
  unfold input_eq. cbn [merge i_version i_meta i_params i_services i_decorators].
  split; [congruence|]. split; [apply merge_meta_eq; assumption|].
  split; [apply merge_map_meq; assumption|].
  split; [apply merge_services_eq; assumption|congruence].
Qed.

(** two files related for the purpose of the fold *)
Definition file_rel (f f' : input) : Prop := input_eq f f' /\ wf_input f /\ wf_input f'.

Lemma fold_merge_rel fs fs' :
  Forall2 file_rel fs fs' -> forall a a', file_rel a a' -> file_rel (fold_left merge fs a) (fold_left merge fs' a').
Proof.
  intros F. induction F as [|f f' fs fs' (He & W & W') F IH]; intros a a' (Ha & Wa & Wa'); cbn [fold_left].
  - split; [exact Ha|split; assumption].
  - apply IH. split; [apply merge_input_eq; assumption|]. split; apply wf_merge; assumption.
Qed.

Lemma perm_files_rel fs fs' : Forall2 perm_input fs fs' -> Forall wf_input fs -> Forall2 file_rel fs fs'.
Proof.
  intros F. induction F as [|f f' fs fs' H F IH]; intros W; [constructor|].
  inversion W as [|? ? Wf W']; subst. destruct (perm_input_eq f f' H Wf) as [He Wf'].
  constructor; [split; [exact He|split; assumption]|apply IH; exact W'].
Qed.

Theorem merge_files_perm i0 files files' :
  wf_input i0 -> Forall2 perm_input files files' -> Forall wf_input files ->
  input_eq (fold_left merge files i0) (fold_left merge files' i0) /\
  wf_input (fold_left merge files i0) /\ wf_input (fold_left merge files' i0).
Proof.
  intros W0 F W. apply fold_merge_rel; [apply perm_files_rel; assumption|].
  split; [apply input_eq_refl|split; assumption].
Qed.

(** permuting the map entries inside any of several files does not change the compilation of their merge;
    [i0] is the input the files are merged into *)
Theorem compile_files_perm_gen (E : env) B i0 files files' :
  wf_input i0 -> Forall2 perm_input files files' -> Forall wf_input files ->
  compile E B (fold_left merge files i0) = compile E B (fold_left merge files' i0).
Proof.
  intros W0 F W. destruct (merge_files_perm i0 files files' W0 F W) as (He & W1 & W2).
  apply compile_input_eq; assumption.
Qed.

Theorem compile_files_perm (E : env) B files files' :
  Forall2 perm_input files files' -> Forall wf_input files ->
  compile E B (fold_left merge files empty_input) = compile E B (fold_left merge files' empty_input).
Proof. apply compile_files_perm_gen. exact wf_empty_input. Qed.

(** the shape the runner uses: the files are merged into the built-in input *)
Corollary compile_files_perm_builtin (E : env) B files files' :
  NoDup (keys (k_builtin_funcs E)) ->
  Forall2 perm_input files files' -> Forall wf_input files ->
  compile E B (fold_left merge files (builtin_input E empty_input)) =
  compile E B (fold_left merge files' (builtin_input E empty_input)).
Proof. intros Hb. apply compile_files_perm_gen. apply builtin_input_wf; [exact Hb|exact wf_empty_input]. Qed.

Print Assumptions sorted_entries_services_eq.
Print Assumptions validate_input_eq.
Print Assumptions compile_input_eq.
Print Assumptions perm_input_eq.
Print Assumptions compile_perm.
Print Assumptions merge_input_eq.
Print Assumptions compile_files_perm.
Print Assumptions compile_files_perm_builtin.
