(** C03, end to end: a string whose every % is doubled evaluates to the original string.

    Build time  (Model/Token.v, Model/Compile.v): [escape x] chunks into %-free literals and %% tokens, the tokenizer
                reports no error and produces only string-literal tokens and the %% token, the compiled parameter /
                argument depends on nothing.
    Run time    (Runtime/Load.v, Runtime/RT.v): the pattern [Load.rtoks] rebuilds from the raw string is made of [KLit]
                and [KPercent] only, it evaluates to [VStr x] without touching the state, and [get_param] on the loaded
                container returns [VStr x] for every fuel >= 3 (and for no smaller fuel).

    Everything is stated for an arbitrary [E] with [std_env E]; the two places where the standard wiring alone is not
    enough need a fact about a regular expression / a template of [E], stated as a hypothesis and discharged for
    [the_env] at the end of the file:
      - [simplefn E [] = None]  (the function-call expression does not match the empty text between the two % of %%):
        only for the exact build-time results with registered functions; the run-time theorems do not need it;
      - the provider / concatenation templates do not start with "dependencyValue(" ([Load.rdep_of] recognises a
        compiled !value argument by that prefix): only for arguments of services and decorators. *)
From GV Require Import Base.Str Base.Quote Base.Gerr Base.Sort Regex.Re Model.Env Model.Input Model.Imports Model.Token
  Model.Compile Model.Validate Model.OutVal Model.Runner Runtime.RT Runtime.Load Spec.Pipeline Gen.EnvGen Tie.EnvTie
  Proofs.SortProofs Proofs.TokenProofs Proofs.RTProofs.
From Coq Require Import Lia.

(** * 0. escaping and the chunk list of an escaped string, as functions *)

(** every % is doubled (this is [TokenProofs.double_pct], the function of [C03_escape]) *)
Definition escape (x : str) : str := double_pct x.

Lemma escape_nil : escape [] = [].
Proof. reflexivity. Qed.

Lemma escape_cons c x : escape (c :: x) = (if Ascii.eqb c pct then [pct; pct] else [c]) ++ escape x.
Proof. reflexivity. Qed.

Lemma escape_nonempty x : x <> [] -> escape x <> [].
Proof.
  destruct x as [|c x]; [congruence|]. intros _. rewrite escape_cons.
  destruct (Ascii.eqb c pct); discriminate.
Qed.

Lemma escape_no_pct x : no_pct x = true -> escape x = x.
Proof.
  induction x as [|c x IH]; [reflexivity|].
  rewrite no_pct_cons. intros H. apply andb_true_iff in H as [Hc Hx]. apply negb_true_iff in Hc.
  rewrite escape_cons, Hc, IH by exact Hx. reflexivity.
Qed.

Lemma escape_app a b : escape (a ++ b) = escape a ++ escape b.
Proof. unfold escape, double_pct. apply flat_map_app. Qed.

(** the chunks of [escape x], with the pending literal buffer [b] *)
Fixpoint lits (x : str) (b : str) : list str :=
  match x with
  | [] => flush b
  | c :: x' => if Ascii.eqb c pct then flush b ++ [pct; pct] :: lits x' [] else lits x' (b ++ [c])
  end.

(** the chunker's answer on the empty string is one empty chunk *)
Definition esc_chunks (x : str) : list str := match x with [] => [[]] | _ => lits x [] end.

(** a chunk of an escaped string: a %-free literal (empty only for the empty string) or %% *)
Definition esc_chunk (c : str) : Prop := no_pct c = true \/ c = [pct; pct].

Lemma pct_eqb_refl : Ascii.eqb pct pct = true.
Proof. reflexivity. Qed.

Lemma chk_escape x : forall b, chk (escape x) false b = inl (lits x b).
Proof.
  induction x as [|c x IH]; intros b; [reflexivity|].
  rewrite escape_cons. cbn [lits]. destruct (Ascii.eqb c pct) eqn:Hc.
  - cbn [app chk]. rewrite !pct_eqb_refl, IH. reflexivity.
  - cbn [app chk]. rewrite Hc. apply IH.
Qed.

Lemma lits_no_pct x : forall b, no_pct x = true -> lits x b = flush (b ++ x).
Proof.
  induction x as [|c x IH]; intros b H.
  - rewrite app_nil_r. reflexivity.
  - rewrite no_pct_cons in H. apply andb_true_iff in H as [Hc Hx]. apply negb_true_iff in Hc.
    cbn [lits]. rewrite Hc, IH by exact Hx. rewrite <- app_assoc. reflexivity.
Qed.

Lemma Forall_flush_esc_chunk b : no_pct b = true -> Forall esc_chunk (flush b).
Proof. intros Hb. destruct b; [constructor|]. cbn [flush]. constructor; [left; exact Hb|constructor]. Qed.

Lemma lits_shape x : forall b, no_pct b = true -> Forall esc_chunk (lits x b).
Proof.
  induction x as [|c x IH]; intros b Hb; cbn [lits].
  - apply Forall_flush_esc_chunk; exact Hb.
  - destruct (Ascii.eqb c pct) eqn:Hc.
    + apply Forall_app. split; [apply Forall_flush_esc_chunk; exact Hb|].
      constructor; [right; reflexivity|apply IH; reflexivity].
    + apply IH. apply no_pct_snoc; assumption.
Qed.

(** literal chunks of a non-empty string are non-empty *)
Lemma lits_nonempty_chunks x : forall b, Forall (fun c => c <> []) (lits x b).
Proof.
  induction x as [|c x IH]; intros b; cbn [lits].
  - destruct b; cbn [flush]; repeat constructor; discriminate.
  - destruct (Ascii.eqb c pct).
    + apply Forall_app. split; [destruct b; cbn [flush]; repeat constructor; discriminate|].
      constructor; [discriminate|apply IH].
    + apply IH.
Qed.

Lemma lits_concat x : forall b, no_pct b = true -> concat (map unescape_chunk (lits x b)) = b ++ x.
Proof.
  induction x as [|c x IH]; intros b Hb; cbn [lits].
  - rewrite app_nil_r. apply unescape_flush; exact Hb.
  - destruct (Ascii.eqb_spec c pct) as [->|Hc].
    + rewrite map_app, concat_app, unescape_flush by exact Hb.
      cbn [map concat]. rewrite IH by reflexivity. reflexivity.
    + rewrite IH.
      * rewrite <- app_assoc. reflexivity.
      * apply no_pct_snoc; [exact Hb|]. destruct (Ascii.eqb_spec c pct); [contradiction|reflexivity].
Qed.

Lemma lits_cons_nonempty c x b : lits (c :: x) b <> [].
Proof.
  revert c b. induction x as [|d x IH]; intros c b; cbn [lits].
  - destruct (Ascii.eqb c pct).
    + destruct (flush b); discriminate.
    + cbn [flush app]. destruct b; discriminate.
  - destruct (Ascii.eqb c pct).
    + destruct (flush b); discriminate.
    + apply IH.
Qed.

Theorem esc_chunks_nonempty x : esc_chunks x <> [].
Proof. destruct x as [|c x]; [discriminate|]. apply lits_cons_nonempty. Qed.

Theorem esc_chunks_shape x : Forall esc_chunk (esc_chunks x).
Proof.
  destruct x as [|c x].
  - constructor; [left; reflexivity|constructor].
  - apply lits_shape. reflexivity.
Qed.

Theorem esc_chunks_concat x : concat (map unescape_chunk (esc_chunks x)) = x.
Proof.
  destruct x as [|c x]; [reflexivity|]. apply (lits_concat (c :: x) []). reflexivity.
Qed.

(** the explicitly handled shapes *)
Lemma esc_chunks_nil : esc_chunks [] = [[]].
Proof. reflexivity. Qed.

Lemma esc_chunks_no_pct x : no_pct x = true -> x <> [] -> esc_chunks x = [x].
Proof.
  intros H Hx. destruct x as [|c x]; [congruence|].
  unfold esc_chunks. rewrite lits_no_pct by exact H. reflexivity.
Qed.

Lemma esc_chunks_pct : esc_chunks [pct] = [[pct; pct]].
Proof. reflexivity. Qed.

(** a single chunk arises in exactly these three ways *)
Lemma esc_chunks_single x c : esc_chunks x = [c] -> (x = [] /\ c = []) \/ (no_pct x = true /\ x <> [] /\ c = x) \/ (x = [pct] /\ c = [pct; pct]).
Proof.
  intros H. pose proof (esc_chunks_concat x) as HC. pose proof (esc_chunks_shape x) as HS.
  rewrite H in HC, HS. cbn [map concat] in HC. rewrite app_nil_r in HC.
  inversion HS as [|? ? [Hc| ->] _]; subst.
  - rewrite unescape_lit in * by exact Hc.
    destruct c as [|a c]; [left; split; reflexivity|]. right; left. repeat split; [exact Hc|discriminate].
  - right; right. split; reflexivity.
Qed.

(** * 1. the chunker on an escaped string *)

Section Chunks.
Variable E : env.
Hypothesis Hd : k_delim E = "%"%char.

Theorem chunks_escape x : chunks E (escape x) = inl (esc_chunks x).
Proof.
  destruct x as [|c x]; [reflexivity|].
  rewrite (chunks_chk E Hd) by (apply escape_nonempty; discriminate).
  apply chk_escape.
Qed.

End Chunks.

(** * 2. the tokenizer on an escaped string *)

Section Std.
Variable E : env.
Hypothesis HE : std_env E.

Let Hd : k_delim E = "%"%char := se_delim E HE.

(** the token the string factory makes of a literal chunk, and the token of the percent factory *)
Definition lit_token (c : str) : token :=
  {| tk_raw := c; tk_depends := []; tk_code := fmt1 (k_tpl_tok_provider E) (s "return " ++ export_str c ++ s ", nil") |}.
Definition pct_token : token :=
  {| tk_raw := s "%%"; tk_depends := []; tk_code := fmt1 (k_tpl_tok_provider E) (s "return ""%"", nil") |}.

Definition esc_token (c : str) : token := if str_eqb c [pct; pct] then pct_token else lit_token c.
Definition esc_tokens (x : str) : list token := map esc_token (esc_chunks x).

(** what a token of an escaped string stands for: the text itself, or one % for the %% token *)
Definition denote (t : token) : str := unescape_chunk (tk_raw t).

Definition is_lit_token (t : token) : Prop := exists c, no_pct c = true /\ t = lit_token c.
Definition is_pct_token (t : token) : Prop := t = pct_token.

Lemma esc_token_lit c : no_pct c = true -> esc_token c = lit_token c.
Proof.
  intros Hc. unfold esc_token. destruct (str_eqb_spec c [pct; pct]) as [->|_]; [discriminate Hc|reflexivity].
Qed.

Lemma esc_token_pct : esc_token [pct; pct] = pct_token.
Proof. reflexivity. Qed.

Lemma denote_esc_token c : denote (esc_token c) = unescape_chunk c.
Proof.
  unfold esc_token. destruct (str_eqb_spec c [pct; pct]) as [->|_]; reflexivity.
Qed.

Lemma esc_token_depends c : tk_depends (esc_token c) = [].
Proof. unfold esc_token. destruct (str_eqb c [pct; pct]); reflexivity. Qed.

Lemma esc_token_kind c : esc_chunk c -> is_lit_token (esc_token c) \/ is_pct_token (esc_token c).
Proof.
  intros [Hc| ->].
  - left. exists c. split; [exact Hc|apply esc_token_lit; exact Hc].
  - right. reflexivity.
Qed.

Theorem esc_tokens_kinds x : Forall (fun t => is_lit_token t \/ is_pct_token t) (esc_tokens x).
Proof.
  unfold esc_tokens. apply Forall_map. eapply Forall_impl; [|apply esc_chunks_shape].
  intros c Hc. apply esc_token_kind; exact Hc.
Qed.

Theorem esc_tokens_denote x : concat (map denote (esc_tokens x)) = x.
Proof.
  unfold esc_tokens. rewrite map_map.
  rewrite (map_ext _ unescape_chunk) by (intros c; apply denote_esc_token).
  apply esc_chunks_concat.
Qed.

Theorem esc_tokens_no_depends x : flat_map tk_depends (esc_tokens x) = [].
Proof.
  unfold esc_tokens. induction (esc_chunks x) as [|c cs IH]; [reflexivity|].
  cbn [map flat_map]. rewrite esc_token_depends, IH. reflexivity.
Qed.

Theorem esc_tokens_nonempty x : esc_tokens x <> [].
Proof.
  unfold esc_tokens. pose proof (esc_chunks_nonempty x). destruct (esc_chunks x); [congruence|discriminate].
Qed.

Lemma esc_tokens_nil : esc_tokens [] = [lit_token []].
Proof. reflexivity. Qed.

Lemma esc_tokens_no_pct x : no_pct x = true -> x <> [] -> esc_tokens x = [lit_token x].
Proof.
  intros H Hx. unfold esc_tokens. rewrite esc_chunks_no_pct by assumption.
  cbn [map]. rewrite esc_token_lit by exact H. reflexivity.
Qed.

Lemma esc_tokens_pct : esc_tokens [pct] = [pct_token].
Proof. reflexivity. Qed.

(** ** the factories *)

Lemma to_expr_pctpct : to_expr E [pct; pct] = Some [].
Proof. apply (to_expr_spec E Hd). reflexivity. Qed.

Lemma create_fn_lit fns c st : no_pct c = true -> create_fn E fns c st = None.
Proof.
  intros Hc. induction fns as [|f fns IH]; [reflexivity|].
  cbn [create_fn]. unfold ff_supports. rewrite (to_expr_lit E Hd c Hc). exact IH.
Qed.

Lemma create_static_lit c : no_pct c = true -> create_static E (w_factories E) c = inl (lit_token c).
Proof.
  intros Hc. rewrite (se_factories E HE). cbn [create_static fk_supports fk_create].
  rewrite (to_expr_lit E Hd c Hc), Hd.
  destruct (str_eqb_spec c ["%"%char; "%"%char]) as [->|_]; [discriminate Hc|reflexivity].
Qed.

Lemma create_static_pct : create_static E (w_factories E) [pct; pct] = inl pct_token.
Proof.
  rewrite (se_factories E HE). cbn [create_static fk_supports fk_create]. rewrite Hd. reflexivity.
Qed.

Lemma create_lit fns c st : no_pct c = true -> Token.create E fns c st = ((lit_token c, None), st).
Proof.
  intros Hc. unfold Token.create. rewrite create_fn_lit, create_static_lit by exact Hc. reflexivity.
Qed.

(** with no registered function at all, nothing else is needed *)
Lemma create_pct_nofn st : Token.create E [] [pct; pct] st = ((pct_token, None), st).
Proof. unfold Token.create. cbn [create_fn]. rewrite create_static_pct. reflexivity. Qed.

(** no registered function claims the %% chunk.  (Function factories are asked before the static ones; a function
    factory supports a chunk when the text between its two % matches the function-call expression with its own name.) *)
Definition no_fn_claims_pct (fns : list fnfact) : Prop := existsb (fun f => ff_supports E f [pct; pct]) fns = false.

Lemma no_fn_claims_pct_nil : no_fn_claims_pct [].
Proof. reflexivity. Qed.

(** in particular when the function-call expression does not match the empty text of %% *)
Lemma simplefn_no_claim fns : simplefn E [] = None -> no_fn_claims_pct fns.
Proof.
  intros Hfn. unfold no_fn_claims_pct. induction fns as [|f fns IH]; [reflexivity|].
  cbn [existsb]. rewrite IH, orb_false_r. unfold ff_supports. rewrite to_expr_pctpct, Hfn. reflexivity.
Qed.

Lemma create_fn_pct fns st : no_fn_claims_pct fns -> create_fn E fns [pct; pct] st = None.
Proof.
  unfold no_fn_claims_pct. induction fns as [|f fns IH]; [reflexivity|].
  cbn [existsb create_fn]. intros H. apply orb_false_iff in H as [H1 H2]. rewrite H1. apply IH; exact H2.
Qed.

Section Fn.
Variable fns : list fnfact.
Hypothesis Hfns : no_fn_claims_pct fns.

Lemma create_pct st : Token.create E fns [pct; pct] st = ((pct_token, None), st).
Proof. unfold Token.create. rewrite create_fn_pct, create_static_pct by exact Hfns. reflexivity. Qed.

Lemma create_esc c st : esc_chunk c -> Token.create E fns c st = ((esc_token c, None), st).
Proof.
  intros [Hc| ->].
  - rewrite esc_token_lit by exact Hc. apply create_lit; exact Hc.
  - apply create_pct.
Qed.

Lemma create_all_esc cs st :
  Forall esc_chunk cs -> create_all E fns cs st = ((map esc_token cs, map (fun _ => None) cs), st).
Proof.
  induction 1 as [|c cs Hc _ IH]; [reflexivity|].
  cbn [create_all map]. rewrite create_esc by exact Hc. rewrite IH. reflexivity.
Qed.

Lemma gjoin_all_none {A} (l : list A) : gjoin (map (fun _ => None) l) = None.
Proof.
  unfold gjoin. apply gprefix_none. intros e He. apply in_map_iff in He as [? [<- _]]. reflexivity.
Qed.

(** the tokenizer: no error, the import table is untouched, the tokens are exactly [esc_tokens x] *)
Theorem tokenize_escape x st : tokenize E fns (escape x) st = ((esc_tokens x, None), st).
Proof.
  unfold tokenize. rewrite (chunks_escape E Hd).
  rewrite create_all_esc by apply esc_chunks_shape. rewrite gjoin_all_none. reflexivity.
Qed.

(** item 1 of the task in one statement *)
Theorem ESC_tokenize x st :
  exists toks, tokenize E fns (escape x) st = ((toks, None), st)
    /\ Forall (fun t => is_lit_token t \/ is_pct_token t) toks
    /\ concat (map denote toks) = x
    /\ flat_map tk_depends toks = [].
Proof.
  exists (esc_tokens x). split; [apply tokenize_escape|]. split; [apply esc_tokens_kinds|].
  split; [apply esc_tokens_denote|apply esc_tokens_no_depends].
Qed.

(** the three single-token cases *)
Corollary tokenize_escape_nil st : tokenize E fns (escape []) st = (([lit_token []], None), st).
Proof. apply tokenize_escape. Qed.

Corollary tokenize_no_pct x st :
  no_pct x = true -> x <> [] -> tokenize E fns x st = (([lit_token x], None), st).
Proof.
  intros H Hx. rewrite <- (escape_no_pct x H) at 1. rewrite tokenize_escape, esc_tokens_no_pct by assumption. reflexivity.
Qed.

Corollary tokenize_escape_pct st : tokenize E fns (s "%%") st = (([pct_token], None), st).
Proof. apply (tokenize_escape [pct] st). Qed.

End Fn.

(** * 3. compile time: the parameter / argument made of an escaped string *)

(** the Go expression of the compiled pattern, through its token list (this is [go_code] on [esc_tokens x]) *)
Definition esc_code (x : str) : str :=
  match esc_tokens x with
  | [t] => fmt1 (k_tpl_dep_provider E) (tk_code t)
  | ts => fmt1 (k_tpl_dep_concat E) (join (s ", ") (map tk_code ts))
  end.

Lemma go_code_escape x : go_code E (esc_tokens x) = inl (esc_code x).
Proof.
  unfold esc_code, go_code. pose proof (esc_tokens_nonempty x) as H.
  destruct (esc_tokens x) as [|t [|t' l]]; [congruence|reflexivity|reflexivity].
Qed.

(** the compiled argument: the code above, the raw string, and no parameter, service or tag dependency *)
Definition esc_arg (x : str) : arg := mk_arg (esc_code x) (PStr (escape x)) [] [] [].
Definition esc_pexpr (x : str) : pexpr := {| pe_code := esc_code x; pe_raw := PStr (escape x); pe_depends := [] |}.
Definition esc_oparam (p x : str) : oparam := {| op_name := p; op_code := esc_code x; op_raw := PStr (escape x); op_depends := [] |}.

Theorem resolve_pattern_escape c x :
  no_fn_claims_pct (cs_fns c) -> rk_resolve E RPattern (PStr (escape x)) c = ((esc_arg x, None), c).
Proof.
  intros Hc. destruct c as [ci cf]. cbn [rk_resolve cs_imports cs_fns] in *.
  rewrite tokenize_escape by exact Hc. cbv beta iota zeta.
  rewrite go_code_escape, esc_tokens_no_depends. reflexivity.
Qed.

(** the parameter chain is [RNonString; RPattern]: every string goes to the pattern resolver, whatever it looks like *)
Theorem resolve_param_escape c x :
  no_fn_claims_pct (cs_fns c) -> resolve_param E (PStr (escape x)) c = ((esc_pexpr x, None), c).
Proof.
  intros Hc. unfold resolve_param. rewrite (se_param_chain E HE). cbn [resolve_chain rk_supports].
  rewrite resolve_pattern_escape by exact Hc. reflexivity.
Qed.

Corollary resolve_param_escape_no_depends c x :
  no_fn_claims_pct (cs_fns c) -> pe_depends (fst (fst (resolve_param E (PStr (escape x)) c))) = [].
Proof. intros Hc. rewrite resolve_param_escape by exact Hc. reflexivity. Qed.

(** the parameters of a compiled output by name (first match, as [Load.load] + [lookup] see them) *)
Definition by_name (ps : list oparam) : list (str * oparam) := map (fun q => (op_name q, q)) ps.
Definition oparam_of (o : output) (p : str) : option oparam := lookup p (by_name (o_params o)).

(** a successfully resolved string parameter keeps its raw text (no hypothesis on the functions) *)
Lemma resolve_param_str_raw y c pe c1 : resolve_param E (PStr y) c = ((pe, None), c1) -> pe_raw pe = PStr y.
Proof.
  unfold resolve_param. rewrite (se_param_chain E HE). cbn [resolve_chain rk_supports rk_resolve].
  destruct (tokenize E (cs_fns c) y (cs_imports c)) as [[ts e] is1].
  destruct e as [g|].
  - cbn [zero_arg a_services a_tags app]. intros H. discriminate H.
  - destruct (go_code E ts) as [code|m].
    + cbn [mk_arg a_services a_tags a_code a_raw a_params app]. intros H. injection H as <- _. reflexivity.
    + cbn [zero_arg a_services a_tags app]. intros H. discriminate H.
Qed.

Lemma compile_params_raw : forall l c ps es c',
  compile_params E l c = ((ps, es), c') -> (forall e, In e es -> e = None) ->
  forall p y, lookup p l = Some (PStr y) -> exists q, lookup p (by_name ps) = Some q /\ op_name q = p /\ op_raw q = PStr y.
Proof.
  induction l as [|[k v] l IH]; intros c ps es c' H Hall p y Hl; [discriminate|].
  cbn [compile_params] in H.
  destruct (resolve_param E v c) as [[pe e] c1] eqn:Hr.
  destruct (compile_params E l c1) as [[ps1 es1] c2] eqn:Hc.
  destruct e as [g|].
  - injection H as <- <- <-. exfalso.
    specialize (Hall _ (or_introl eq_refl)). unfold gprefix in Hall. cbn [keep_some] in Hall. discriminate Hall.
  - injection H as <- <- <-. unfold by_name. cbn [map op_name]. rewrite lookup_cons. rewrite lookup_cons in Hl.
    destruct (str_eqb_spec p k) as [->|Hn].
    + injection Hl as ->. eexists. split; [reflexivity|]. split; [reflexivity|].
      cbn [op_raw]. eapply resolve_param_str_raw; exact Hr.
    + eapply IH; eassumption.
Qed.

Lemma compile_params_escape : simplefn E [] = None -> forall l c ps es c',
  compile_params E l c = ((ps, es), c') ->
  forall p x, lookup p l = Some (PStr (escape x)) -> lookup p (by_name ps) = Some (esc_oparam p x).
Proof.
  intros Hfn. induction l as [|[k v] l IH]; intros c ps es c' H p x Hl; [discriminate|].
  cbn [compile_params] in H.
  destruct (resolve_param E v c) as [[pe e] c1] eqn:Hr.
  destruct (compile_params E l c1) as [[ps1 es1] c2] eqn:Hc.
  rewrite lookup_cons in Hl. destruct (str_eqb_spec p k) as [->|Hn].
  - injection Hl as ->. rewrite resolve_param_escape in Hr by (apply simplefn_no_claim; exact Hfn).
    injection Hr as <- <- <-. injection H as <- <- <-.
    unfold by_name. cbn [map op_name esc_pexpr pe_code pe_raw pe_depends]. rewrite lookup_cons, str_eqb_refl. reflexivity.
  - assert (lookup p (by_name ps1) = Some (esc_oparam p x)) as HI by (eapply IH; eassumption).
    destruct e; injection H as <- <- <-; unfold by_name; cbn [map op_name]; rewrite lookup_cons;
      (destruct (str_eqb_spec p k); [contradiction|exact HI]).
Qed.

(** the parameters of the output of [compile] are those [compile_params] makes of the sorted entries, without error *)
Lemma compile_o_params B i o c :
  compile E B i = ((o, None), c) ->
  exists c0 es c1, compile_params E (sorted_entries (i_params i)) c0 = ((o_params o, es), c1) /\ (forall e, In e es -> e = None).
Proof.
  unfold compile. rewrite (se_csteps E HE). cbn [compile_steps cstep].
  destruct (step_validate E B i) as [g|]; [intros H; discriminate H|].
  unfold step_meta. destruct (register_imports _ _) as [es1 is1].
  destruct (gprefix _ [gprefix _ es1]) as [g|]; [intros H; discriminate H|].
  unfold step_params. destruct (compile_params E _ _) as [[ps es] c1] eqn:Hcp.
  destruct (gprefix _ es) as [g|] eqn:Hes; [intros H; discriminate H|].
  unfold step_services. destruct (compile_services E _ _ _) as [[svs ses] c2].
  cbn [o_meta o_params o_services o_decorators].
  destruct (gprefix _ ses) as [g|]; [intros H; discriminate H|].
  unfold step_decorators. destruct (compile_decorators E _ _ _) as [[ds des] c3].
  cbn [o_meta o_params o_services o_decorators].
  destruct (gprefix _ des) as [g|]; [intros H; discriminate H|].
  intros H. injection H as <- <-. cbn [o_params empty_output app].
  eexists _, es, c1. split; [exact Hcp|]. exact (proj1 (gprefix_none _ _) Hes).
Qed.

(** whole compiler, no hypothesis on functions: the compiled parameter [p] exists and carries the raw escaped string *)
Theorem compile_param_raw B i o c p y :
  compile E B i = ((o, None), c) -> lookup p (i_params i) = Some (PStr y) ->
  exists q, oparam_of o p = Some q /\ op_name q = p /\ op_raw q = PStr y.
Proof.
  intros H Hl. apply compile_o_params in H as [c0 [es [c1 [Hcp Hall]]]].
  unfold oparam_of. eapply compile_params_raw; [exact Hcp|exact Hall|].
  rewrite lookup_sorted_entries_gen. exact Hl.
Qed.

(** whole compiler, item 2: the compiled parameter is exactly [esc_oparam p x]; in particular it depends on nothing *)
Theorem compile_param_escape B i o c p x :
  simplefn E [] = None ->
  compile E B i = ((o, None), c) -> lookup p (i_params i) = Some (PStr (escape x)) ->
  oparam_of o p = Some (esc_oparam p x).
Proof.
  intros Hfn H Hl. apply compile_o_params in H as [c0 [es [c1 [Hcp _]]]].
  unfold oparam_of. eapply compile_params_escape; [exact Hfn|exact Hcp|].
  rewrite lookup_sorted_entries_gen. exact Hl.
Qed.

Corollary compile_param_escape_no_depends B i o c p x :
  simplefn E [] = None ->
  compile E B i = ((o, None), c) -> lookup p (i_params i) = Some (PStr (escape x)) ->
  exists q, oparam_of o p = Some q /\ op_depends q = [] /\ op_raw q = PStr (escape x) /\ go_code E (esc_tokens x) = inl (op_code q).
Proof.
  intros Hfn H Hl. exists (esc_oparam p x). split; [eapply compile_param_escape; eassumption|].
  split; [reflexivity|]. split; [reflexivity|]. apply go_code_escape.
Qed.

(** * 4. run time *)

(** the run-time token of a chunk of an escaped string *)
Definition rtok_esc (c : str) : rtok := if str_eqb c [pct; pct] then KPercent else KLit c.
Definition esc_rtoks (x : str) : list rtok := map rtok_esc (esc_chunks x).

Lemma rtok_of_esc fns i c : esc_chunk c -> rtok_of E fns i c = rtok_esc c.
Proof.
  unfold rtok_of, rtok_esc. intros [Hc| ->].
  - rewrite (to_expr_lit E Hd c Hc).
    destruct (str_eqb_spec c [pct; pct]) as [->|_]; [discriminate Hc|reflexivity].
  - rewrite to_expr_pctpct, Hd. reflexivity.
Qed.

(** what [Load] rebuilds from the raw string: literals and percent tokens only, whatever functions are registered *)
Theorem rtoks_escape fns i x : rtoks E fns i (escape x) = esc_rtoks x.
Proof.
  unfold rtoks, esc_rtoks. rewrite (chunks_escape E Hd).
  pose proof (esc_chunks_shape x) as H. induction H as [|c cs Hc _ IH]; [reflexivity|].
  cbn [map]. rewrite rtok_of_esc by exact Hc. rewrite IH. reflexivity.
Qed.

Theorem esc_rtoks_kinds x : Forall (fun t => (exists c, no_pct c = true /\ t = KLit c) \/ t = KPercent) (esc_rtoks x).
Proof.
  unfold esc_rtoks. apply Forall_map. eapply Forall_impl; [|apply esc_chunks_shape].
  intros c [Hc| ->].
  - left. exists c. split; [exact Hc|]. unfold rtok_esc.
    destruct (str_eqb_spec c [pct; pct]) as [->|_]; [discriminate Hc|reflexivity].
  - right. reflexivity.
Qed.

Lemma eval_tok_esc f st c : eval_tok (S f) st (rtok_esc c) = (st, ROk (VStr (unescape_chunk c))).
Proof. unfold rtok_esc, unescape_chunk. destruct (str_eqb c [pct; pct]); reflexivity. Qed.

Lemma toks_ok_esc f st cs : toks_ok (S f) st (map rtok_esc cs) st (map unescape_chunk cs).
Proof.
  induction cs as [|c cs IH]; [constructor|].
  cbn [map]. econstructor; [apply eval_tok_esc|reflexivity|exact IH].
Qed.

Lemma eval_pattern_esc_chunks f st cs :
  cs <> [] -> eval_pattern (S (S f)) st (map rtok_esc cs) = (st, ROk (VStr (concat (map unescape_chunk cs)))).
Proof.
  intros Hne. destruct cs as [|c [|c' l]]; [congruence| |].
  - cbn [map concat]. rewrite eval_pattern_single, eval_tok_esc, app_nil_r. reflexivity.
  - apply multi_chunk_ok; [cbn [map length]; lia|apply toks_ok_esc].
Qed.

(** the run-time core: the pattern evaluates to the original string and leaves the state alone *)
Theorem eval_pattern_escape f st x : eval_pattern (S (S f)) st (esc_rtoks x) = (st, ROk (VStr x)).
Proof.
  unfold esc_rtoks. rewrite eval_pattern_esc_chunks by apply esc_chunks_nonempty.
  rewrite esc_chunks_concat. reflexivity.
Qed.

Corollary eval_pattern_rtoks_escape fns i fuel st x :
  2 <= fuel -> eval_pattern fuel st (rtoks E fns i (escape x)) = (st, ROk (VStr x)).
Proof.
  intros Hf. destruct fuel as [|[|f]]; [lia|lia|]. rewrite rtoks_escape. apply eval_pattern_escape.
Qed.

(** and with less fuel it cannot: two levels are needed (pattern, token) *)
Lemma eval_pattern_escape_fuel1 st x : eval_pattern 1 st (esc_rtoks x) = (st, RErr (s "out of fuel")).
Proof.
  unfold esc_rtoks. pose proof (esc_chunks_nonempty x) as H.
  destruct (esc_chunks x) as [|c [|c' l]]; [congruence|reflexivity|reflexivity].
Qed.

(** single-chunk cases keep the token's value, which is a string *)
Corollary eval_pattern_escape_lit f st x : eval_pattern (S (S f)) st [KLit x] = (st, ROk (VStr x)).
Proof. reflexivity. Qed.
Corollary eval_pattern_escape_pct f st : eval_pattern (S (S f)) st [KPercent] = (st, ROk (VStr (s "%"))).
Proof. reflexivity. Qed.

(** ** [get_param] on a state that maps [p] to the pattern *)
Theorem get_param_escape_state fns i fuel st p x :
  lookup p (rt_params st) = Some (DPattern (rtoks E fns i (escape x))) -> lookup p (rt_pcache st) = None ->
  3 <= fuel ->
  get_param fuel st p = (with_pcache st (assoc_set p (VStr x) (rt_pcache st)), ROk (VStr x)).
Proof.
  intros Hp Hc Hf. destruct fuel as [|f]; [lia|].
  rewrite get_param_unfold, Hp, Hc. cbn [param_body].
  rewrite eval_pattern_rtoks_escape by lia. reflexivity.
Qed.

Lemma get_param_escape_fuel2 fns i st p x :
  lookup p (rt_params st) = Some (DPattern (rtoks E fns i (escape x))) -> lookup p (rt_pcache st) = None ->
  get_param 2 st p = (st, RErr (s "out of fuel")).
Proof.
  intros Hp Hc. rewrite get_param_unfold, Hp, Hc. cbn [param_body].
  rewrite rtoks_escape, eval_pattern_escape_fuel1. reflexivity.
Qed.

(** ** through [load] *)

Lemma lookup_map_by_name {B} (f : oparam -> B) p ps :
  lookup p (map (fun q => (op_name q, f q)) ps) = option_map f (lookup p (by_name ps)).
Proof.
  induction ps as [|q ps IH]; [reflexivity|].
  unfold by_name. cbn [map]. rewrite !lookup_cons. destruct (str_eqb p (op_name q)); [reflexivity|exact IH].
Qed.

Lemma load_param o c envv p :
  lookup p (rt_params (load E o c envv)) = option_map (pdef_of E (cs_fns c) (cs_imports c)) (oparam_of o p).
Proof. unfold load, oparam_of. cbn [rt_params]. apply lookup_map_by_name. Qed.

(** the state after a successful first read of [p]: only the parameter cache changed *)
Definition cached (st : rt) (p : str) (x : str) : rt := with_pcache st [(p, VStr x)].

Theorem get_param_load_escape o c envv p q x fuel :
  oparam_of o p = Some q -> op_raw q = PStr (escape x) -> 3 <= fuel ->
  get_param fuel (load E o c envv) p = (cached (load E o c envv) p x, ROk (VStr x)).
Proof.
  intros Hq Hr Hf.
  rewrite (get_param_escape_state (cs_fns c) (cs_imports c) fuel _ p x); [reflexivity| |reflexivity|exact Hf].
  rewrite load_param, Hq. cbn [option_map]. unfold pdef_of. rewrite Hr. reflexivity.
Qed.

(** ** end to end: compile, load, read.  No side condition on the string: the parameter chain has no strategy
       for @service, !value, !tagged or $gontainer, so [x] may look like any of them. *)
Theorem ESC_param_end_to_end B i o c envv p x fuel :
  compile E B i = ((o, None), c) ->
  lookup p (i_params i) = Some (PStr (escape x)) ->
  3 <= fuel ->
  get_param fuel (load E o c envv) p = (cached (load E o c envv) p x, ROk (VStr x)).
Proof.
  intros H Hl Hf. destruct (compile_param_raw B i o c p (escape x) H Hl) as [q [Hq [_ Hr]]].
  eapply get_param_load_escape; eassumption.
Qed.

(** the probe operation uses [fuel_of st >= 16] *)
Corollary ESC_param_step B i o c envv p x :
  compile E B i = ((o, None), c) ->
  lookup p (i_params i) = Some (PStr (escape x)) ->
  step (load E o c envv) (OGetParam p) = (cached (load E o c envv) p x, ROk (VStr x)).
Proof.
  intros H Hl. rewrite step_get_param. eapply ESC_param_end_to_end; [exact H|exact Hl|].
  unfold fuel_of. lia.
Qed.

(** and every later read returns the same string from the cache *)
Corollary ESC_param_again B i o c envv p x fuel fuel' :
  compile E B i = ((o, None), c) ->
  lookup p (i_params i) = Some (PStr (escape x)) ->
  3 <= fuel ->
  get_param (S fuel') (fst (get_param fuel (load E o c envv) p)) p = (cached (load E o c envv) p x, ROk (VStr x)).
Proof.
  intros H Hl Hf. pose proof (ESC_param_end_to_end B i o c envv p x fuel H Hl Hf) as HG.
  rewrite HG. cbn [fst]. exact (get_param_again _ _ _ _ _ HG fuel').
Qed.

(** * 5. the same string as an argument of a service, a call, a field or a decorator *)

(** the strategies the argument chain asks before the pattern resolver (a string is never a non-string primitive) *)
Definition earlier_strategies : list resolver_kind :=
  [RValue; RService; RTagged; RFixed (s "$gontainer") (s "rootGontainer")].

(** the side condition, with the model's own [rk_supports]: the string is not claimed by the !value, @service,
    !tagged prefix expressions of [E] and is not the literal $gontainer *)
Definition caught_earlier (y : str) : bool := existsb (fun k => rk_supports E k (PStr y)) earlier_strategies.

Lemma caught_earlier_false y :
  caught_earlier y = false <->
  site_match (re_rs_valuePrefix E) y = false /\ site_match (re_rs_servicePrefix E) y = false /\
  site_match (re_rs_taggedPrefix E) y = false /\ y <> s "$gontainer".
Proof.
  unfold caught_earlier, earlier_strategies. cbn [existsb rk_supports].
  rewrite !orb_false_iff, str_eqb_neq. intuition congruence.
Qed.

Lemma resolve_arg_not_caught y c :
  caught_earlier y = false -> resolve_arg E (PStr y) c = rk_resolve E RPattern (PStr y) c.
Proof.
  intros H. apply caught_earlier_false in H as [H1 [H2 [H3 H4]]].
  unfold resolve_arg. rewrite (se_arg_chain E HE). cbn [resolve_chain rk_supports].
  rewrite H1, H2, H3. destruct (str_eqb_spec (s "$gontainer") y) as [<-|_]; [congruence|reflexivity].
Qed.

(** conversely a caught string never reaches the pattern resolver *)
Lemma resolve_arg_caught y c :
  caught_earlier y = true -> exists k, In k earlier_strategies /\ resolve_arg E (PStr y) c = rk_resolve E k (PStr y) c.
Proof.
  unfold caught_earlier, earlier_strategies, resolve_arg. rewrite (se_arg_chain E HE).
  cbn [existsb resolve_chain]. cbn [rk_supports].
  destruct (site_match (re_rs_valuePrefix E) y); [intros _; eexists; split; [left; reflexivity|reflexivity]|].
  destruct (site_match (re_rs_servicePrefix E) y); [intros _; eexists; split; [right; left; reflexivity|reflexivity]|].
  destruct (site_match (re_rs_taggedPrefix E) y); [intros _; eexists; split; [right; right; left; reflexivity|reflexivity]|].
  destruct (str_eqb (s "$gontainer") y); [intros _; eexists; split; [right; right; right; left; reflexivity|reflexivity]|].
  intros H; discriminate H.
Qed.

(** item 4, build time: a pattern argument without dependencies *)
Theorem resolve_arg_escape c x :
  no_fn_claims_pct (cs_fns c) -> caught_earlier (escape x) = false ->
  resolve_arg E (PStr (escape x)) c = ((esc_arg x, None), c).
Proof.
  intros Hc Hn. rewrite resolve_arg_not_caught by exact Hn. apply resolve_pattern_escape; exact Hc.
Qed.

Corollary resolve_arg_escape_no_depends c x :
  no_fn_claims_pct (cs_fns c) -> caught_earlier (escape x) = false ->
  let a := fst (fst (resolve_arg E (PStr (escape x)) c)) in
  a_params a = [] /\ a_services a = [] /\ a_tags a = [] /\ a_raw a = PStr (escape x) /\ go_code E (esc_tokens x) = inl (a_code a).
Proof.
  intros Hc Hn. rewrite resolve_arg_escape by assumption. cbn [fst esc_arg mk_arg a_params a_services a_tags a_raw a_code].
  repeat split. apply go_code_escape.
Qed.

(** [Load.rdep_of] tells a compiled !value argument from a pattern by the prefix of the generated code *)
Definition tpl_not_value (tpl : str) : Prop := forall a, has_prefix (s "dependencyValue(") (fmt1 tpl a) = false.

Section Tpl.
Hypothesis Htp : tpl_not_value (k_tpl_dep_provider E).
Hypothesis Htc : tpl_not_value (k_tpl_dep_concat E).

Lemma go_code_not_value ts code : go_code E ts = inl code -> has_prefix (s "dependencyValue(") code = false.
Proof.
  unfold go_code. destruct ts as [|t [|t' l]]; intros H; [discriminate H| |]; injection H as <-; [apply Htp|apply Htc].
Qed.

(** any successfully resolved, not caught string argument is loaded as the pattern of its raw text *)
Lemma rdep_of_pattern_arg fns i a y :
  a_services a = [] -> a_tags a = [] -> a_raw a = PStr y -> y <> s "$gontainer" ->
  has_prefix (s "dependencyValue(") (a_code a) = false ->
  rdep_of E fns i a = DPattern (rtoks E fns i y).
Proof.
  intros Hs Ht Hr Hy Hp. unfold rdep_of. rewrite Hs, Ht, Hr, Hp.
  destruct (str_eqb_spec y (s "$gontainer")); [contradiction|reflexivity].
Qed.

Theorem rdep_of_esc_arg fns i x :
  caught_earlier (escape x) = false -> rdep_of E fns i (esc_arg x) = DPattern (esc_rtoks x).
Proof.
  intros Hn. apply caught_earlier_false in Hn as [_ [_ [_ Hy]]].
  rewrite <- (rtoks_escape fns i). apply rdep_of_pattern_arg; try reflexivity; [exact Hy|].
  cbn [esc_arg mk_arg a_code]. eapply go_code_not_value. apply go_code_escape.
Qed.

(** item 4, run time: the injected value is the original string; nothing else happens *)
Theorem ESC_arg_value depsf fns i c x fuel st b :
  no_fn_claims_pct (cs_fns c) -> caught_earlier (escape x) = false -> 3 <= fuel ->
  resolve_dep depsf fuel st b (rdep_of E fns i (fst (fst (resolve_arg E (PStr (escape x)) c)))) = ((st, b), ROk (VStr x)).
Proof.
  intros Hc Hn Hf. rewrite resolve_arg_escape by assumption. cbn [fst].
  rewrite rdep_of_esc_arg by exact Hn. destruct fuel as [|[|[|f]]]; try lia.
  cbn [resolve_dep]. rewrite eval_pattern_escape. reflexivity.
Qed.

(** a list of such arguments resolves to the list of the original strings *)
Lemma resolve_deps_esc depsf fns i f st b xs :
  Forall (fun x => caught_earlier (escape x) = false) xs ->
  resolve_deps depsf (S (S (S (S f)))) st b (map (fun x => rdep_of E fns i (esc_arg x)) xs) = ((st, b), ROk (map VStr xs)).
Proof.
  intros HF. rewrite resolve_deps_unfold.
  enough (forall acc,
    deps_loop depsf (S (S (S f))) (map (fun x => rdep_of E fns i (esc_arg x)) xs) st b acc None = ((st, b), ROk (rev acc ++ map VStr xs))) as HH
    by (rewrite HH; reflexivity).
  induction HF as [|x xs Hx _ IH]; intros acc.
  - cbn [map deps_loop fin]. rewrite app_nil_r. reflexivity.
  - cbn [map deps_loop]. rewrite rdep_of_esc_arg by exact Hx.
    cbn [resolve_dep]. rewrite eval_pattern_escape. rewrite IH. cbn [rev]. rewrite <- app_assoc. reflexivity.
Qed.

End Tpl.

End Std.

(** * 6. the regenerated environment *)

Lemma the_env_simplefn_nil : simplefn the_env [] = None.
Proof. vm_compute. reflexivity. Qed.

Lemma the_env_tpl_provider : tpl_not_value (k_tpl_dep_provider the_env).
Proof. intros a. vm_compute. reflexivity. Qed.

Lemma the_env_tpl_concat : tpl_not_value (k_tpl_dep_concat the_env).
Proof. intros a. vm_compute. reflexivity. Qed.

Lemma the_env_no_fn_claims_pct fns : no_fn_claims_pct the_env fns.
Proof. apply simplefn_no_claim; [exact the_env_std|exact the_env_simplefn_nil]. Qed.

Theorem the_env_tokenize_escape fns x st :
  exists toks, tokenize the_env fns (escape x) st = ((toks, None), st)
    /\ Forall (fun t => is_lit_token the_env t \/ is_pct_token the_env t) toks
    /\ concat (map denote toks) = x
    /\ flat_map tk_depends toks = [].
Proof. apply (ESC_tokenize the_env the_env_std fns (the_env_no_fn_claims_pct fns)). Qed.

Theorem the_env_compile_param_escape B i o c p x :
  compile the_env B i = ((o, None), c) -> lookup p (i_params i) = Some (PStr (escape x)) ->
  oparam_of o p = Some (esc_oparam the_env p x).
Proof. apply (compile_param_escape the_env the_env_std). exact the_env_simplefn_nil. Qed.

Theorem the_env_param_end_to_end B i o c envv p x fuel :
  compile the_env B i = ((o, None), c) ->
  lookup p (i_params i) = Some (PStr (escape x)) ->
  3 <= fuel ->
  get_param fuel (load the_env o c envv) p = (cached (load the_env o c envv) p x, ROk (VStr x)).
Proof. apply (ESC_param_end_to_end the_env the_env_std). Qed.

Theorem the_env_arg_value depsf fns i c x fuel st b :
  caught_earlier the_env (escape x) = false -> 3 <= fuel ->
  resolve_dep depsf fuel st b (rdep_of the_env fns i (fst (fst (resolve_arg the_env (PStr (escape x)) c)))) = ((st, b), ROk (VStr x)).
Proof.
  intros Hn Hf.
  apply (ESC_arg_value the_env the_env_std the_env_tpl_provider the_env_tpl_concat); [apply the_env_no_fn_claims_pct|exact Hn|exact Hf].
Qed.

(** * 7. non-vacuity: the whole chain computed on [the_env], with the built-in functions (env, envInt, todo) registered *)

Definition param_input (v : str) : input :=
  builtin_input the_env
    {| i_version := None; i_meta := empty_meta; i_params := [(s "p", PStr v)]; i_services := []; i_decorators := [] |}.

(** compile, load, read with the least fuel *)
Definition run_param (x : str) : option value :=
  let '((o, e), c) := compile the_env (s "main") (param_input (escape x)) in
  match e with
  | Some _ => None
  | None => match get_param 3 (load the_env o c []) (s "p") with (_, ROk v) => Some v | (_, RErr _) => None end
  end.

(** the raw texts of the tokens, the error, and the dependencies *)
Definition tok_view (x : str) : list str * err * list str :=
  let '((ts, e), _) := tokenize the_env [] (escape x) ist0 in (map tk_raw ts, e, flat_map tk_depends ts).

(** resolve as a service argument and evaluate the dependency [Load] builds from it *)
Definition run_arg (x : str) : option (rdep * result value) :=
  let '((a, e), c) := resolve_arg the_env (PStr (escape x)) cst0 in
  match e with
  | Some _ => None
  | None => let d := rdep_of the_env (cs_fns c) (cs_imports c) a in
            Some (d, snd (resolve_dep (fun _ _ => []) 3 (load the_env empty_output c []) [] d))
  end.

Definition nl : str := [ch 10%N].
Definition weird : str := s "say ""hi"" \ 50%" ++ nl ++ bs [195; 169; 0; 255]%N ++ s "%done".

Example escape_100 : escape (s "100%") = s "100%%".           Proof. reflexivity. Qed.
Example escape_pct : escape (s "%") = s "%%".                 Proof. reflexivity. Qed.
Example escape_empty : escape [] = [].                        Proof. reflexivity. Qed.
Example escape_apctpctb : escape (s "a%%b") = s "a%%%%b".     Proof. reflexivity. Qed.

Example tok_100 : tok_view (s "100%") = ([s "100"; s "%%"], None, []).               Proof. vm_compute. reflexivity. Qed.
Example tok_pct : tok_view (s "%") = ([s "%%"], None, []).                           Proof. vm_compute. reflexivity. Qed.
Example tok_empty : tok_view [] = ([[]], None, []).                                  Proof. vm_compute. reflexivity. Qed.
Example tok_apctpctb : tok_view (s "a%%b") = ([s "a"; s "%%"; s "%%"; s "b"], None, []).   Proof. vm_compute. reflexivity. Qed.
Example tok_svc : tok_view (s "@svc") = ([s "@svc"], None, []).                      Proof. vm_compute. reflexivity. Qed.
Example tok_weird :
  tok_view weird = ([s "say ""hi"" \ 50"; s "%%"; nl ++ bs [195; 169; 0; 255]%N; s "%%"; s "done"], None, []).
Proof. vm_compute. reflexivity. Qed.

Example run_100 : run_param (s "100%") = Some (VStr (s "100%")).                     Proof. vm_compute. reflexivity. Qed.
Example run_pct : run_param (s "%") = Some (VStr (s "%")).                           Proof. vm_compute. reflexivity. Qed.
Example run_empty : run_param [] = Some (VStr []).                                   Proof. vm_compute. reflexivity. Qed.
Example run_apctpctb : run_param (s "a%%b") = Some (VStr (s "a%%b")).                Proof. vm_compute. reflexivity. Qed.
Example run_svc : run_param (s "@svc") = Some (VStr (s "@svc")).                     Proof. vm_compute. reflexivity. Qed.
Example run_value : run_param (s "!value Y") = Some (VStr (s "!value Y")).           Proof. vm_compute. reflexivity. Qed.
Example run_tagged : run_param (s "!tagged t") = Some (VStr (s "!tagged t")).        Proof. vm_compute. reflexivity. Qed.
Example run_gontainer : run_param (s "$gontainer") = Some (VStr (s "$gontainer")).   Proof. vm_compute. reflexivity. Qed.
Example run_weird : run_param weird = Some (VStr weird).                             Proof. vm_compute. reflexivity. Qed.
(** an unescaped reference is something else: without the doubling the same text does not compile *)
Example run_unescaped_fails :
  snd (fst (compile the_env (s "main") (param_input (s "100%")))) <> None.
Proof. vm_compute. discriminate. Qed.

(** as an argument: same value when not caught by an earlier strategy ... *)
Example caught_100 : caught_earlier the_env (escape (s "100%")) = false.             Proof. vm_compute. reflexivity. Qed.
Example caught_weird : caught_earlier the_env (escape weird) = false.                Proof. vm_compute. reflexivity. Qed.
Example arg_100 : run_arg (s "100%") = Some (DPattern [KLit (s "100"); KPercent], ROk (VStr (s "100%"))).
Proof. vm_compute. reflexivity. Qed.
Example arg_pct : run_arg (s "%") = Some (DPattern [KPercent], ROk (VStr (s "%"))).  Proof. vm_compute. reflexivity. Qed.
Example arg_empty : run_arg [] = Some (DPattern [KLit []], ROk (VStr [])).           Proof. vm_compute. reflexivity. Qed.
Example arg_weird : option_map snd (run_arg weird) = Some (ROk (VStr weird)).        Proof. vm_compute. reflexivity. Qed.
(** ... and the side condition is needed: these are taken by the service / value / container strategies *)
Example caught_svc : caught_earlier the_env (escape (s "@svc")) = true.              Proof. vm_compute. reflexivity. Qed.
Example caught_value : caught_earlier the_env (escape (s "!value Y")) = true.        Proof. vm_compute. reflexivity. Qed.
Example caught_tagged : caught_earlier the_env (escape (s "!tagged t")) = true.      Proof. vm_compute. reflexivity. Qed.
Example caught_gontainer : caught_earlier the_env (escape (s "$gontainer")) = true.  Proof. vm_compute. reflexivity. Qed.
Example arg_svc : option_map fst (run_arg (s "@svc")) = Some (DService (s "svc")).   Proof. vm_compute. reflexivity. Qed.
Example arg_gontainer : run_arg (s "$gontainer") = Some (DContainer, ROk VContainer). Proof. vm_compute. reflexivity. Qed.

Print Assumptions chunks_escape.
Print Assumptions ESC_tokenize.
Print Assumptions resolve_param_escape.
Print Assumptions compile_param_escape.
Print Assumptions eval_pattern_escape.
Print Assumptions get_param_escape_state.
Print Assumptions ESC_param_end_to_end.
Print Assumptions ESC_param_step.
Print Assumptions resolve_arg_escape.
Print Assumptions ESC_arg_value.
Print Assumptions the_env_tokenize_escape.
Print Assumptions the_env_param_end_to_end.
Print Assumptions the_env_arg_value.
