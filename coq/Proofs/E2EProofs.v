(** End-to-end structure: what a configuration DECLARES is what the run-time container HOLDS, through [compile] (Model/Runner.v,
    Model/Compile.v) and [load] (Runtime/Load.v): decorators (order, tag, function, arguments), tags with priorities, scopes,
    arguments / fields / calls, getters.  Only hypothesis besides "compile succeeds": the shipped order of compiler steps
    ([std_env], proved of the regenerated environment in Tie/EnvTie.v); the case analysis of one argument also uses the shipped
    argument chain and token factories. *)
From GV Require Import Base.Str Base.Quote Base.Gerr Base.Sort Regex.Re Model.Env Model.Input Model.Merge Model.Imports Model.Token
  Model.Compile Model.Validate Model.OutVal Model.Runner Model.Render Runtime.RT Runtime.Load
  Proofs.SortProofs Proofs.ImportsProofs Proofs.MergeProofs Proofs.RefsProofs Proofs.RenderProofs Proofs.RTProofs.
From Coq Require Import List ZArith Lia.
Import ListNotations.

(** * generic list facts *)
Lemma Forall2_map_r {A B C} (R : A -> C -> Prop) (f : B -> C) l l' :
  Forall2 (fun a b => R a (f b)) l l' -> Forall2 R l (map f l').
Proof. induction 1; cbn [map]; constructor; assumption. Qed.
Lemma Forall2_keys {A B} (R : str * A -> str * B -> Prop) l l' :
  Forall2 (fun a b => fst b = fst a /\ R a b) l l' -> map fst l' = map fst l.
Proof. induction 1 as [|a b l l' [Hk _] F IH]; cbn [map]; congruence. Qed.
Lemma Forall2_flat_map_eq {A B C} (f : A -> list C) (g : B -> list C) l l' :
  Forall2 (fun a b => f a = g b) l l' -> flat_map f l = flat_map g l'.
Proof. induction 1 as [|a b l l' H F IH]; cbn [flat_map]; congruence. Qed.
Lemma Forall2_lookup {A B} (R : str * A -> str * B -> Prop) l l' :
  Forall2 (fun a b => fst b = fst a /\ R a b) l l' ->
  forall k, match lookup k l, lookup k l' with
            | Some v, Some d => R (k, v) (k, d)
            | None, None => True
            | _, _ => False
            end.
Proof.
  induction 1 as [|[k1 v] [k2 d] l l' [Hk HR] F IH]; intros k; cbn [lookup]; [exact I|].
  cbn [fst] in Hk. subst k2. destruct (str_eqb_spec k k1) as [->|_]; [exact HR|apply IH].
Qed.

(** * the alias table only grows: a path keeps its local name, the user prefixes are fixed after StepCompileMeta *)
Definition ile (a b : ist) : Prop :=
  is_prefixes b = is_prefixes a /\ (inv a -> inv b) /\
  forall p x, lookup p (is_imports a) = Some x -> lookup p (is_imports b) = Some x.

Lemma ile_refl a : ile a a.
Proof. split; [reflexivity|]. split; auto. Qed.
Lemma ile_trans a b c : ile a b -> ile b c -> ile a c.
Proof. intros (P1 & I1 & L1) (P2 & I2 & L2). split; [congruence|]. split; auto. Qed.
Lemma ile_alias_abs st p : ile st (snd (alias_abs st p)).
Proof.
  split; [apply alias_abs_prefixes|]. split; [apply inv_alias_abs|].
  intros q b. destruct (alias_abs st p) as [a st'] eqn:A. apply (alias_abs_stable _ _ _ _ _ _ A).
Qed.
Lemma ile_alias st imp : ile st (snd (alias st imp)).
Proof. apply ile_alias_abs. Qed.

(** * decoding a generated qualified name against the final alias table *)
Lemma cut_dot_app a r : ~ In "."%char a -> cut_dot (a ++ "."%char :: r) = (a, Some r).
Proof.
  induction a as [|ch a IH]; intros H; cbn [app cut_dot]; [reflexivity|].
  destruct (Ascii.eqb_spec ch "."%char) as [->|_]; [exfalso; apply H; left; reflexivity|].
  rewrite IH; [reflexivity|]. intros Hi. apply H. right. exact Hi.
Qed.
Lemma find_alias (l : list (str * str)) p a :
  NoDup (map snd l) -> In (p, a) l -> find (fun kv => str_eqb (snd kv) a) l = Some (p, a).
Proof.
  induction l as [|[q b] l IH]; intros ND Hi; [destruct Hi|]. cbn [find snd map] in *. inversion ND as [|? ? Hn ND']; subst.
  destruct (str_eqb_spec b a) as [->|Hne].
  - destruct Hi as [Hi|Hi]; [congruence|]. exfalso. apply Hn. apply in_map_iff. exists (p, a). auto.
  - destruct Hi as [Hi|Hi]; [congruence|]. apply IH; assumption.
Qed.
Lemma local_alias_no_dot st p a : inv st -> In (p, a) (is_imports st) -> ~ In "."%char a.
Proof.
  intros (_ & _ & Hn) Hi Hd. apply In_nth_error in Hi. destruct Hi as [k Hk]. apply Hn in Hk. subst a.
  pose proof (local_name_ident (N.of_nat k) p) as F. rewrite Forall_forall in F. destruct (F _ Hd) as [H|H]; discriminate H.
Qed.
(** the origin written in the configuration: [path.name] with the user prefix of the import expanded, or the local name *)
Definition declared_origin (fin : ist) (imp name : str) : str :=
  match sanitize_import imp with [] => origin_of fin name | i => decorate_import fin i ++ s "." ++ name end.

Lemma alias_final fin is_ i a is1 :
  alias is_ i = (a, is1) -> ile is1 fin -> lookup (decorate_import fin i) (is_imports fin) = Some a.
Proof.
  intros A (P & _ & L). pose proof (alias_lookup _ _ _ _ A) as Hl. apply L in Hl.
  assert (is_prefixes fin = is_prefixes is_) as P'.
  { rewrite P. pose proof (alias_abs_prefixes is_ (decorate_import is_ i)) as Q. unfold alias in A. rewrite A in Q. exact Q. }
  rewrite (decorate_import_prefixes _ _ _ P'). exact Hl.
Qed.
Lemma origin_qualified fin is_ imp name :
  inv fin -> ile (snd (qualify is_ imp name)) fin -> origin_of fin (fst (qualify is_ imp name)) = declared_origin fin imp name.
Proof.
  intros Hinv. unfold qualify, declared_origin. destruct (sanitize_import imp) as [|ch r]; [reflexivity|].
  destruct (alias is_ (ch :: r)) as [a is1] eqn:A. cbn [fst snd]. intros L.
  pose proof (lookup_Some_In _ _ _ (alias_final _ _ _ _ _ A L)) as Hl.
  unfold origin_of, qualified. change (a ++ s "." ++ name) with (a ++ "."%char :: name).
  rewrite (cut_dot_app a name (local_alias_no_dot _ _ _ Hinv Hl)). unfold path_of_alias.
  rewrite (find_alias _ _ _ (local_names_NoDup _ Hinv) Hl). reflexivity.
Qed.
(** the text generated for [import.name]: the local name the FINAL table gives to the import *)
Definition final_qualified (fin : ist) (imp name : str) : str :=
  match sanitize_import imp with [] => name | i => opt_or (lookup (decorate_import fin i) (is_imports fin)) [] ++ s "." ++ name end.
Lemma qualify_final fin is_ imp name : ile (snd (qualify is_ imp name)) fin -> fst (qualify is_ imp name) = final_qualified fin imp name.
Proof.
  unfold qualify, final_qualified. destruct (sanitize_import imp) as [|ch r]; [reflexivity|].
  destruct (alias is_ (ch :: r)) as [a is1] eqn:A. cbn [fst snd]. intros L. rewrite (alias_final _ _ _ _ _ A L). reflexivity.
Qed.

Section WithEnv.
Variable E : env.

(** * 1. one argument: compiled on its own, from its own source value *)

(** [a] is what the argument resolver returns, without error, for the source value [p] in some compile state whose registered
    parameter functions are [fns] *)
Definition compiled_arg (fns : list fnfact) (p : prim) (a : arg) : Prop :=
  exists c c', cs_fns c = fns /\ resolve_arg E p c = ((a, None), c').

(** the dependency the generated constructor registers for the source value [p] *)
Definition loaded_dep (fns : list fnfact) (is_ : ist) (p : prim) (d : rdep) : Prop :=
  exists a, compiled_arg fns p a /\ d = rdep_of E fns is_ a.

Lemma rk_resolve_raw k p c a c' : rk_resolve E k p c = ((a, None), c') -> a_raw a = p.
Proof.
  destruct k, p; cbn [rk_resolve]; try discriminate; try (intros H; injection H as <- _; reflexivity).
  - destruct (site_submatch (re_rs_value E) x); [|discriminate]. destruct_pairs. intros H; injection H as <- _; reflexivity.
  - destruct (site_submatch (re_rs_service E) x); [|discriminate]. intros H; injection H as <- _; reflexivity.
  - destruct (site_submatch (re_rs_tagged E) x); [|discriminate]. intros H; injection H as <- _; reflexivity.
  - destruct (tokenize E (cs_fns c) x (cs_imports c)) as [[ts e] is1]. destruct e; [discriminate|].
    destruct (go_code E ts); [|discriminate]. intros H; injection H as <- _; reflexivity.
Qed.
(** the raw value travels with the compiled argument, whatever the resolver chain is *)
Lemma compiled_arg_raw fns p a : compiled_arg fns p a -> a_raw a = p.
Proof.
  intros (c & c' & _ & H). unfold resolve_arg in H. revert H. induction (w_arg_chain E) as [|k ch IH]; cbn [resolve_chain].
  - discriminate.
  - destruct (rk_supports E k p); [apply rk_resolve_raw|exact IH].
Qed.
(** what one loaded dependency is, read off its own source value (shipped argument chain and token factories): a service
    reference, a tagged collection, the container, a literal, or - for any other string - a [!value] expression or the
    run-time pattern of that very string *)
Theorem loaded_dep_cases id v fns fin p d :
  w_arg_chain E = [RNonString; RValue; RService; RTagged; RFixed id v; RPattern] ->
  w_factories E = [FPercent; FReference; FUnexpectedFunction; FUnexpectedToken; FString] ->
  loaded_dep fns fin p d ->
  match src_services E p, src_tags E p, p with
  | n :: _, _, _ => d = DService n
  | [], t :: _, _ => d = DTag t
  | [], [], PStr x => if str_eqb x (s "$gontainer") then d = DContainer else d = DPattern (rtoks E fns fin x) \/ exists w, d = DValue w
  | [], [], _ => d = DLit p
  end.
Proof.
  intros Hc Hf (a & Ha & ->). pose proof (compiled_arg_raw _ _ _ Ha) as Hr. destruct Ha as (c & c' & _ & R).
  destruct (resolve_arg_refs E id v Hc Hf _ _ _ _ R) as (S1 & S2 & _). unfold rdep_of. rewrite S1, S2, Hr.
  destruct (src_services E p); [|reflexivity]. destruct (src_tags E p); [|reflexivity].
  destruct p; try reflexivity. destruct (str_eqb x (s "$gontainer")); [reflexivity|]. destruct (has_prefix _ _); eauto.
Qed.

(** * 2. argument lists, fields, calls *)
Lemma args_aux_ok l : forall j c as_ es c',
  resolve_args_aux E j l c = ((as_, es), c') -> (forall e, In e es -> e = None) ->
  Forall2 (compiled_arg (cs_fns c)) l as_ /\ cs_fns c' = cs_fns c.
Proof.
  induction l as [|p l IH]; intros j c as_ es c'; cbn [resolve_args_aux].
  - intros H _. injection H as <- _ <-. split; [constructor|reflexivity].
  - pose proof (resolve_arg_fns E p c) as F. destruct (resolve_arg E p c) as [[a e] c1] eqn:R. cbn [snd] in F.
    destruct (resolve_args_aux E (S j) l c1) as [[as1 es1] c2] eqn:R2.
    intros H N. injection H as <- <- <-. apply all_none_cons in N. destruct N as [N1 N2].
    apply gprefix_single_none in N1. subst e.
    destruct (IH _ _ _ _ _ R2 N2) as [F2 Fc]. rewrite F in F2, Fc. split; [|exact Fc].
    constructor; [|exact F2]. exists c, c1. split; [reflexivity|exact R].
Qed.
Lemma args_ok l c as_ c' :
  resolve_args E l c = ((as_, None), c') -> Forall2 (compiled_arg (cs_fns c)) l as_ /\ cs_fns c' = cs_fns c.
Proof.
  unfold resolve_args. destruct (resolve_args_aux E 0 l c) as [[as1 es] c1] eqn:R.
  intros H. injection H as <- G <-. eapply args_aux_ok; [exact R|]. exact (proj1 (gprefix_none _ _) G).
Qed.
Definition field_rel (fns : list fnfact) (kv : str * prim) (f : str * arg) : Prop := fst f = fst kv /\ compiled_arg fns (snd kv) (snd f).
Definition call_rel (fns : list fnfact) (cl : call) (oc : ocall) : Prop :=
  oc_method oc = c_method cl /\ oc_immutable oc = c_immutable cl /\ Forall2 (compiled_arg fns) (c_args cl) (oc_args oc).

Lemma fields_ok l : forall c fs es c',
  compile_fields E l c = ((fs, es), c') -> (forall e, In e es -> e = None) ->
  Forall2 (field_rel (cs_fns c)) l fs /\ cs_fns c' = cs_fns c.
Proof.
  induction l as [|[n p] l IH]; intros c fs es c'; cbn [compile_fields].
  - intros H _. injection H as <- _ <-. split; [constructor|reflexivity].
  - pose proof (resolve_arg_fns E p c) as F. destruct (resolve_arg E p c) as [[a e] c1] eqn:R. cbn [snd] in F.
    destruct (compile_fields E l c1) as [[fs1 es1] c2] eqn:R2.
    intros H N. injection H as <- <- <-.
    destruct e as [g|]; [exfalso; specialize (N _ (or_introl eq_refl)); discriminate|].
    destruct (IH _ _ _ _ R2 N) as [F2 Fc]. rewrite F in F2, Fc. split; [|exact Fc].
    constructor; [|exact F2]. split; [reflexivity|]. exists c, c1. split; [reflexivity|exact R].
Qed.
Lemma calls_ok l : forall j c cs es c',
  compile_calls E j l c = ((cs, es), c') -> (forall e, In e es -> e = None) ->
  Forall2 (call_rel (cs_fns c)) l cs /\ cs_fns c' = cs_fns c.
Proof.
  induction l as [|cl l IH]; intros j c cs es c'; cbn [compile_calls].
  - intros H _. injection H as <- _ <-. split; [constructor|reflexivity].
  - destruct (resolve_args E (c_args cl) c) as [[as_ e] c1] eqn:R.
    destruct (compile_calls E (S j) l c1) as [[cs1 es1] c2] eqn:R2.
    intros H N. injection H as <- <- <-. apply all_none_cons in N. destruct N as [N1 N2].
    apply gprefix_single_none in N1. subst e. apply args_ok in R. destruct R as [Fa F].
    destruct (IH _ _ _ _ _ R2 N2) as [F2 Fc]. rewrite F in F2, Fc. split; [|exact Fc].
    constructor; [|exact F2]. repeat split; assumption.
Qed.

(** * 3. every compile step only extends the alias table *)
Lemma ile_ff_create f x st : ile st (snd (ff_create E f x st)).
Proof.
  unfold ff_create. destruct (ff_import f) as [|ch imp].
  - cbn [snd]. destruct (alias_abs st (s "fmt")) as [fa st2] eqn:A. cbn [snd].
    pose proof (ile_alias_abs st (s "fmt")) as H. rewrite A in H. exact H.
  - pose proof (ile_alias st (ch :: imp)) as H1. destruct (alias st (ch :: imp)) as [a st1]. cbn [snd] in H1.
    pose proof (ile_alias_abs st1 (s "fmt")) as H2. destruct (alias_abs st1 (s "fmt")) as [fa st2]. cbn [snd] in *.
    eapply ile_trans; eassumption.
Qed.
Lemma ile_create fns x st : ile st (snd (Token.create E fns x st)).
Proof.
  unfold Token.create. destruct (create_fn E fns x st) as [[t st']|] eqn:C.
  - cbn [snd]. revert C. induction fns as [|f fns IH]; cbn [create_fn]; [discriminate|].
    destruct (ff_supports E f x); [|exact IH]. intros H. injection H as H.
    pose proof (ile_ff_create f x st) as L. rewrite H in L. exact L.
  - destruct (create_static E (w_factories E) x); apply ile_refl.
Qed.
Lemma ile_tokenize fns x st : ile st (snd (tokenize E fns x st)).
Proof.
  unfold tokenize. destruct (chunks E x) as [cs|b]; [|apply ile_refl].
  destruct (create_all E fns cs st) as [[ts es] st'] eqn:C. cbn [snd].
  change st' with (snd (ts, es, st')). rewrite <- C. clear C. revert st.
  induction cs as [|ch cs IH]; intros st; cbn [create_all]; [apply ile_refl|].
  pose proof (ile_create fns ch st) as L. destruct (Token.create E fns ch st) as [[t e] st1]. cbn [snd] in L.
  specialize (IH st1). destruct (create_all E fns cs st1) as [[ts1 es1] st2]. cbn [snd] in *. eapply ile_trans; eassumption.
Qed.
Lemma ile_csv is_ x : ile is_ (snd (compile_service_value E is_ x)).
Proof.
  unfold compile_service_value. cbv zeta.
  destruct (sub _ _ _); match goal with |- context [sanitize_import ?a] => destruct (sanitize_import a) end;
    try apply ile_refl;
    match goal with |- context [alias ?a ?b] => pose proof (ile_alias a b) as L; destruct (alias a b) end; exact L.
Qed.
Lemma ile_qualify is_ imp n : ile is_ (snd (qualify is_ imp n)).
Proof.
  unfold qualify. destruct (sanitize_import imp) as [|ch r]; [apply ile_refl|].
  pose proof (ile_alias is_ (ch :: r)) as L; destruct (alias is_ (ch :: r)); exact L.
Qed.
Lemma ile_rk_resolve k p c : ile (cs_imports c) (cs_imports (snd (rk_resolve E k p c))).
Proof.
  destruct k, p; cbn [rk_resolve snd]; try apply ile_refl.
  - destruct (site_submatch (re_rs_value E) x); [|apply ile_refl].
    match goal with |- context [compile_service_value E ?a ?b] => pose proof (ile_csv a b) as L; destruct (compile_service_value E a b) end. exact L.
  - destruct (site_submatch (re_rs_service E) x); apply ile_refl.
  - destruct (site_submatch (re_rs_tagged E) x); apply ile_refl.
  - pose proof (ile_tokenize (cs_fns c) x (cs_imports c)) as L.
    destruct (tokenize E (cs_fns c) x (cs_imports c)) as [[ts e] is1]. cbn [snd] in L.
    destruct e; [exact L|]. destruct (go_code E ts); exact L.
Qed.
Lemma ile_chain ch p c : ile (cs_imports c) (cs_imports (snd (resolve_chain E ch p c))).
Proof. induction ch as [|k ch IH]; cbn [resolve_chain]; [apply ile_refl|]. destruct (rk_supports E k p); [apply ile_rk_resolve|exact IH]. Qed.
Lemma ile_args l c : ile (cs_imports c) (cs_imports (snd (resolve_args E l c))).
Proof.
  unfold resolve_args. destruct (resolve_args_aux E 0 l c) as [[as1 es] c1] eqn:R. cbn [snd].
  change c1 with (snd (as1, es, c1)). rewrite <- R. clear R. generalize 0%nat. revert c.
  induction l as [|p l IH]; intros c j; cbn [resolve_args_aux]; [apply ile_refl|].
  pose proof (ile_chain (w_arg_chain E) p c) as L. fold (resolve_arg E) in L. destruct (resolve_arg E p c) as [[a e] c2]. cbn [snd] in L.
  specialize (IH c2 (S j)). destruct (resolve_args_aux E (S j) l c2) as [[as2 es2] c3]. cbn [snd] in *. eapply ile_trans; eassumption.
Qed.
Lemma ile_fields l c : ile (cs_imports c) (cs_imports (snd (compile_fields E l c))).
Proof.
  revert c. induction l as [|[n p] l IH]; intros c; cbn [compile_fields]; [apply ile_refl|].
  pose proof (ile_chain (w_arg_chain E) p c) as L. fold (resolve_arg E) in L. destruct (resolve_arg E p c) as [[a e] c2]. cbn [snd] in L.
  specialize (IH c2). destruct (compile_fields E l c2) as [[fs es] c3]. cbn [snd] in *. eapply ile_trans; eassumption.
Qed.
Lemma ile_calls l : forall j c, ile (cs_imports c) (cs_imports (snd (compile_calls E j l c))).
Proof.
  induction l as [|cl l IH]; intros j c; cbn [compile_calls]; [apply ile_refl|].
  pose proof (ile_args (c_args cl) c) as L. destruct (resolve_args E (c_args cl) c) as [[a e] c2]. cbn [snd] in L.
  specialize (IH (S j) c2). destruct (compile_calls E (S j) l c2) as [[fs es] c3]. cbn [snd] in *. eapply ile_trans; eassumption.
Qed.
Lemma ile_params l c : ile (cs_imports c) (cs_imports (snd (compile_params E l c))).
Proof.
  revert c. induction l as [|[k v] l IH]; intros c; cbn [compile_params]; [apply ile_refl|].
  assert (ile (cs_imports c) (cs_imports (snd (resolve_param E v c)))) as L.
  { unfold resolve_param. pose proof (ile_chain (w_param_chain E) v c) as L. destruct (resolve_chain E (w_param_chain E) v c) as [[a e] c1].
    cbn [snd] in L. destruct (_ ++ _); exact L. }
  destruct (resolve_param E v c) as [[pe e] c1]. cbn [snd] in L.
  specialize (IH c1). destruct (compile_params E l c1) as [[ps es] c2]. cbn [snd] in *. destruct e; cbn [snd]; eapply ile_trans; eassumption.
Qed.

(** * 4. one service, one decorator *)

(** [code] was generated by [f] against an alias table that the final table [fin] extends *)
Definition coded_by (fin : ist) (f : ist -> str * ist) (code : str) : Prop :=
  exists is_, code = fst (f is_) /\ ile (snd (f is_)) fin.
Lemma coded_by_weaken fin fin' f code : ile fin fin' -> coded_by fin f code -> coded_by fin' f code.
Proof. intros L (is_ & H1 & H2). exists is_. split; [exact H1|eapply ile_trans; eassumption]. Qed.
(** the documented rule for the must-getter flag: explicit [must_getter], else [meta.default_must_getter], else the built-in
    default; no getter, no must-getter *)
Definition declared_must (m : meta) (sv : service) : bool :=
  match opt_or (sv_getter sv) [] with
  | [] => false
  | _ => opt_or (sv_must_getter sv) (opt_or (m_default_must_getter m) (k_default_must E))
  end.

Definition value_code (v : option str) (is_ : ist) : str * ist :=
  match v with None => ([], is_) | Some x => compile_service_value E is_ x end.
Definition decorator_code (x : str) (is_ : ist) : str * ist :=
  let st := re_co_DecoratorMethod E in qualify is_ (sub st (smatch st x) (s "import")) (sub st (smatch st x) (s "fn")).

Definition compiled_service (fns : list fnfact) (m : meta) (fin : ist) (kv : str * service) (sv : oservice) : Prop :=
  let d := snd kv in
  os_name sv = fst kv /\ os_scope sv = oscope_of (sv_scope d) /\ os_todo sv = is_todo d /\
  (is_todo d = true ->
     os_args sv = [] /\ os_calls sv = [] /\ os_fields sv = [] /\ os_tags sv = [] /\ os_getter sv = [] /\ os_must_getter sv = false) /\
  (is_todo d = false ->
     Forall2 (compiled_arg fns) (sv_args d) (os_args sv) /\
     Forall2 (call_rel fns) (sv_calls d) (os_calls sv) /\
     Forall2 (field_rel fns) (sorted_entries (sv_fields d)) (os_fields sv) /\
     os_tags sv = sv_tags d /\
     os_getter sv = opt_or (sv_getter d) [] /\ os_must_getter sv = declared_must m d /\
     coded_by fin (service_type E (sv_type d)) (os_type sv) /\
     coded_by fin (value_code (sv_value d)) (os_value sv) /\
     coded_by fin (service_constructor E (sv_constructor d)) (os_constructor sv)).

Definition compiled_decorator (fns : list fnfact) (fin : ist) (d : decorator) (od : odecorator) : Prop :=
  od_tag od = d_tag d /\ od_raw od = d_decorator d /\
  coded_by fin (decorator_code (d_decorator d)) (od_decorator od) /\
  Forall2 (compiled_arg fns) (d_args d) (od_args od).

Lemma compiled_service_weaken fns m fin fin' kv sv : ile fin fin' -> compiled_service fns m fin kv sv -> compiled_service fns m fin' kv sv.
Proof.
  intros L (H1 & H2 & H3 & H4 & H5). repeat (split; [assumption|]). intros T. specialize (H5 T).
  destruct H5 as (A & B & C & D & G & M & X & Y & Z). repeat (split; [assumption|]).
  split; [|split]; eapply coded_by_weaken; eassumption.
Qed.
Lemma getter_ok d m g mg : getter_of E d m = ((g, mg), None) -> g = opt_or (sv_getter d) [] /\ mg = declared_must m d.
Proof.
  unfold getter_of, declared_must. destruct (opt_or (sv_getter d) []) as [|ch g0].
  - destruct (sv_must_getter d) as [b|]; cbn [opt_or].
    + destruct b; [discriminate|]. intros H; injection H as <- <-. auto.
    + intros H; injection H as <- <-. auto.
  - intros H; injection H as <- <-. auto.
Qed.
Lemma process_service_ok name d m c sv c' :
  process_service E name d m c = ((sv, None), c') ->
  compiled_service (cs_fns c) m (cs_imports c') (name, d) (set_scope sv (oscope_of (sv_scope d))) /\
  cs_fns c' = cs_fns c /\ ile (cs_imports c) (cs_imports c').
Proof.
  unfold process_service, compiled_service, is_todo. cbn [fst snd]. destruct (opt_or (sv_todo d) false).
  { intros H. injection H as <- <-. split; [|split; [reflexivity|apply ile_refl]]. cbn. repeat split; try reflexivity; discriminate. }
  pose proof (ile_fields (sorted_entries (sv_fields d)) c) as L1.
  destruct (compile_fields E (sorted_entries (sv_fields d)) c) as [[fields ferrs] c1] eqn:RF.
  pose proof (ile_args (sv_args d) c1) as L2. destruct (resolve_args E (sv_args d) c1) as [[args aerr] c2] eqn:RA.
  pose proof (ile_calls (sv_calls d) 0 c2) as L3. destruct (compile_calls E 0 (sv_calls d) c2) as [[calls cerrs] c3] eqn:RC.
  destruct (getter_of E d m) as [[g mg] gerr_] eqn:RG. cbn [snd] in L1, L2, L3.
  destruct (service_type E (sv_type d) (cs_imports c3)) as [ty i4] eqn:RT.
  assert (ile (cs_imports c3) i4) as L4.
  { change i4 with (snd (ty, i4)). rewrite <- RT. unfold service_type. destruct (sv_type d); [|apply ile_refl].
    match goal with |- context [qualify ?a ?b ?c] => pose proof (ile_qualify a b c) as L; destruct (qualify a b c) end. exact L. }
  destruct (match sv_value d with None => _ | Some v0 => _ end) as [va i5] eqn:RV.
  assert (ile i4 i5) as L5.
  { change i5 with (snd (va, i5)). rewrite <- RV. destruct (sv_value d); [apply ile_csv|apply ile_refl]. }
  destruct (service_constructor E (sv_constructor d) i5) as [co i6] eqn:RK.
  assert (ile i5 i6) as L6.
  { change i6 with (snd (co, i6)). rewrite <- RK. unfold service_constructor. destruct (sv_constructor d); [apply ile_qualify|apply ile_refl]. }
  intros H. injection H as <- G <-. cbn [with_imports cs_fns cs_imports set_scope os_name os_scope os_todo os_args os_calls os_fields
    os_tags os_getter os_must_getter os_type os_value os_constructor].
  pose proof (proj1 (gprefix_none _ _) G) as N.
  assert (gprefix (s "fields: ") ferrs = None) as N1 by (apply N; cbn [In]; auto).
  assert (aerr = None) as N2 by (apply N; cbn [In]; auto).
  assert (gprefix (s "calls: ") cerrs = None) as N3 by (apply N; cbn [In]; auto).
  assert (gerr_ = None) as N4 by (apply N; cbn [In]; auto).
  subst aerr gerr_. apply getter_ok in RG. destruct RG as [-> ->].
  destruct (fields_ok _ _ _ _ _ RF (proj1 (gprefix_none _ _) N1)) as [FF F1].
  destruct (args_ok _ _ _ _ RA) as [FA F2].
  destruct (calls_ok _ _ _ _ _ _ RC (proj1 (gprefix_none _ _) N3)) as [FC F3].
  rewrite F2, F1 in FC. rewrite F1 in FA.
  split; [|split; [congruence|repeat (eapply ile_trans; [eassumption|]); apply ile_refl]].
  repeat (split; [reflexivity|]). split; [discriminate|]. intros _.
  repeat (split; [assumption || reflexivity|]). split; [|split].
  - exists (cs_imports c3). rewrite RT. split; [reflexivity|]. cbn [snd]. eapply ile_trans; [exact L5|exact L6].
  - exists i4. unfold value_code. rewrite RV. split; [reflexivity|exact L6].
  - exists i5. rewrite RK. split; [reflexivity|apply ile_refl].
Qed.
Lemma services_ok l m : forall c svs es c',
  compile_services E l m c = ((svs, es), c') -> (forall e, In e es -> e = None) ->
  Forall2 (compiled_service (cs_fns c) m (cs_imports c')) l svs /\ cs_fns c' = cs_fns c /\ ile (cs_imports c) (cs_imports c').
Proof.
  induction l as [|[k d] l IH]; intros c svs es c'; cbn [compile_services].
  - intros H _. injection H as <- _ <-. split; [constructor|split; [reflexivity|apply ile_refl]].
  - destruct (process_service E k d m c) as [[sv e] c1] eqn:R. destruct (compile_services E l m c1) as [[svs1 es1] c2] eqn:R2.
    intros H N. injection H as <- <- <-. apply all_none_cons in N. destruct N as [N1 N2]. subst e.
    destruct (process_service_ok _ _ _ _ _ _ R) as (S1 & F1 & L1). destruct (IH _ _ _ _ R2 N2) as (S2 & F2 & L2).
    rewrite F1 in S2. split; [|split; [congruence|eapply ile_trans; eassumption]].
    constructor; [|exact S2]. eapply compiled_service_weaken; eassumption.
Qed.
Lemma decorators_ok l : forall j c ds es c',
  compile_decorators E j l c = ((ds, es), c') -> (forall e, In e es -> e = None) ->
  Forall2 (compiled_decorator (cs_fns c) (cs_imports c')) l ds /\ cs_fns c' = cs_fns c /\ ile (cs_imports c) (cs_imports c').
Proof.
  induction l as [|d l IH]; intros j c ds es c'; cbn [compile_decorators].
  - intros H _. injection H as <- _ <-. split; [constructor|split; [reflexivity|apply ile_refl]].
  - pose proof (ile_qualify (cs_imports c) (sub (re_co_DecoratorMethod E) (smatch (re_co_DecoratorMethod E) (d_decorator d)) (s "import"))
                  (sub (re_co_DecoratorMethod E) (smatch (re_co_DecoratorMethod E) (d_decorator d)) (s "fn"))) as L0.
    destruct (qualify _ _ _) as [method i1] eqn:Q. cbn [snd] in L0.
    pose proof (ile_args (d_args d) (with_imports c i1)) as L1.
    destruct (resolve_args E (d_args d) (with_imports c i1)) as [[args e] c1] eqn:R. cbn [snd with_imports cs_imports] in L1.
    destruct (compile_decorators E (S j) l c1) as [[ds1 es1] c2] eqn:R2.
    intros H N. injection H as <- <- <-. apply all_none_cons in N. destruct N as [N1 N2].
    apply gprefix_single_none in N1. subst e. apply args_ok in R. cbn [with_imports cs_fns] in R. destruct R as [Fa F].
    destruct (IH _ _ _ _ _ R2 N2) as (F2 & Fc & L2). rewrite F in F2, Fc.
    split; [|split; [exact Fc|eapply ile_trans; [exact L0|eapply ile_trans; eassumption]]].
    constructor; [|exact F2]. unfold compiled_decorator. cbn [od_tag od_raw od_decorator od_args].
    repeat (split; [reflexivity|]). split; [|exact Fa].
    exists (cs_imports c). unfold decorator_code. cbv zeta. rewrite Q. split; [reflexivity|]. cbn [snd]. eapply ile_trans; eassumption.
Qed.

(** * 5. the whole compiler *)
Section Std.
Hypothesis Hsteps : w_compiler_steps E = [CValidate; CMeta; CParams; CServices; CDecorators].

Lemma register_imports_inv l : forall is_ es is', register_imports l is_ = (es, is') -> inv is_ -> inv is'.
Proof.
  induction l as [|[a p] l IH]; intros is_ es is'; cbn [register_imports].
  - intros H. injection H as _ <-. auto.
  - destruct (register_prefix a (sanitize_path p) is_) as [is1 e] eqn:R. destruct (register_imports l is1) as [es1 is2] eqn:R2.
    intros H Hi. injection H as _ <-. eapply IH; [exact R2|]. eapply inv_register_prefix'; eassumption.
Qed.
Lemma params_fns l : forall c, cs_fns (snd (compile_params E l c)) = cs_fns c.
Proof.
  induction l as [|[k v] l IH]; intros c; cbn [compile_params]; [reflexivity|].
  pose proof (resolve_param_fns E v c) as F. destruct (resolve_param E v c) as [[pe e] c1]. cbn [snd] in F.
  specialize (IH c1). destruct (compile_params E l c1) as [[ps es] c2]. cbn [snd] in IH. destruct e; cbn [snd]; congruence.
Qed.
(** a successful run of the shipped compiler: the input passed validation, and every service and decorator of the output is the
    compilation of the corresponding declaration, in the order of the declarations (services: by name) *)
Theorem compile_structure B i o c :
  compile E B i = ((o, None), c) ->
  step_validate E B i = None /\ cs_fns c = meta_fns E i /\ inv (cs_imports c) /\
  Forall2 (compiled_service (meta_fns E i) (i_meta i) (cs_imports c)) (sorted_entries (i_services i)) (o_services o) /\
  Forall2 (compiled_decorator (meta_fns E i) (cs_imports c)) (i_decorators i) (o_decorators o).
Proof.
  unfold compile. rewrite Hsteps. cbn [compile_steps cstep].
  destruct (step_validate E B i) eqn:V; [discriminate|].
  unfold step_meta. destruct (register_imports _ _) as [es1 is1] eqn:RI.
  match goal with |- context [gprefix ?p ?l] => destruct (gprefix p l) end; [discriminate|].
  unfold step_params.
  match goal with |- context [compile_params E ?l ?c] => set (c1 := c) end.
  pose proof (params_fns (sorted_entries (i_params i)) c1) as F2. pose proof (ile_params (sorted_entries (i_params i)) c1) as L2.
  destruct (compile_params E (sorted_entries (i_params i)) c1) as [[ps es2] c2] eqn:P. cbn [snd] in F2, L2.
  destruct (gprefix (s "compiler.StepCompileParams: ") es2) eqn:G2; [discriminate|].
  unfold step_services.
  destruct (compile_services E (sorted_entries (i_services i)) (i_meta i) c2) as [[svs es3] c3] eqn:S.
  destruct (gprefix (s "compiler.StepCompileServices: ") es3) eqn:G3; [discriminate|].
  unfold step_decorators.
  destruct (compile_decorators E 0 (i_decorators i) c3) as [[ds es4] c4] eqn:D.
  destruct (gprefix (s "compiler.StepCompileDecorators: ") es4) eqn:G4; [discriminate|].
  intros H. injection H as <- <-. cbn [o_services o_decorators].
  destruct (services_ok _ _ _ _ _ _ S (proj1 (gprefix_none _ _) G3)) as (FS & F3 & L3).
  destruct (decorators_ok _ _ _ _ _ _ D (proj1 (gprefix_none _ _) G4)) as (FD & F4 & L4).
  assert (cs_fns c1 = meta_fns E i) as F1 by reflexivity.
  assert (inv (cs_imports c1)) as I1 by (eapply register_imports_inv; [exact RI|apply inv_ist0]).
  split; [reflexivity|]. split; [congruence|]. split; [apply L4, L3, L2, I1|].
  rewrite F2, F1 in F3, FS. rewrite F3 in FD. split; [|exact FD].
  eapply Forall2_impl; [|exact FS]. intros a b. apply compiled_service_weaken. exact L4.
Qed.

(** * 6. what the loaded container holds *)

Lemma compiled_loaded fns fin l as_ :
  Forall2 (compiled_arg fns) l as_ -> Forall2 (loaded_dep fns fin) l (map (rdep_of E fns fin) as_).
Proof. intros F. apply Forall2_map_r. eapply Forall2_impl; [|exact F]. intros p a H. exists a. auto. Qed.
Definition decorator_origin (fin : ist) (x : str) : str :=
  let st := re_co_DecoratorMethod E in declared_origin fin (sub st (smatch st x) (s "import")) (sub st (smatch st x) (s "fn")).

Definition loaded_decorator (fns : list fnfact) (fin : ist) (d : decorator) (dd : ddef) : Prop :=
  dd_tag dd = d_tag d /\ dd_origin dd = decorator_origin fin (d_decorator d) /\ Forall2 (loaded_dep fns fin) (d_args d) (dd_deps dd).

(** ITEM 1.  The decorators of the loaded container are the declared decorators: same number, same order, each with its own
    tag, its own function (import prefix expanded) and its own arguments, compiled one by one in order. *)
Theorem e2e_decorators B i o c envv :
  compile E B i = ((o, None), c) ->
  Forall2 (loaded_decorator (meta_fns E i) (cs_imports c)) (i_decorators i) (rt_decorators (load E o c envv)).
Proof.
  intros H. destruct (compile_structure _ _ _ _ H) as (_ & Fn & Hinv & _ & FD). unfold load. cbn [rt_decorators]. rewrite Fn.
  apply Forall2_map_r. eapply Forall2_impl; [|exact FD]. intros d od (T & _ & (is_ & C1 & C2) & A).
  unfold loaded_decorator. cbn [dd_tag dd_origin dd_deps]. split; [exact T|]. split; [|apply compiled_loaded; exact A].
  rewrite C1. unfold decorator_code in *. apply origin_qualified; assumption.
Qed.
(** ITEM 2.  Through the merge: decorators of the files, concatenated in file order (on top of those of the initial input) *)
Lemma fold_merge_decorators files : forall i0, i_decorators (fold_left merge files i0) = i_decorators i0 ++ concat (map i_decorators files).
Proof.
  induction files as [|f files IH]; intros i0; cbn [fold_left map concat]; [symmetry; apply app_nil_r|].
  rewrite IH. cbn [merge i_decorators]. symmetry. apply app_assoc.
Qed.
Theorem e2e_decorators_files B i0 files o c envv :
  compile E B (fold_left merge files i0) = ((o, None), c) ->
  Forall2 (loaded_decorator (meta_fns E (fold_left merge files i0)) (cs_imports c))
          (i_decorators i0 ++ concat (map i_decorators files)) (rt_decorators (load E o c envv)).
Proof. intros H. rewrite <- fold_merge_decorators. apply e2e_decorators with (B := B). exact H. Qed.
(** the same for [merge_all] (Props/C09.v, [C09_decorators_appended]) *)
Corollary e2e_decorators_merge_all B files o c envv :
  compile E B (merge_all files) = ((o, None), c) ->
  Forall2 (loaded_decorator (meta_fns E (merge_all files)) (cs_imports c)) (concat (map i_decorators files)) (rt_decorators (load E o c envv)).
Proof. intros H. rewrite <- fold_decorators. apply e2e_decorators with (B := B). exact H. Qed.

(** services *)
Definition declared_prio (d : service) (t : str) : option Z :=
  last_some (map (fun tg => if str_eqb t (t_name tg) then Some (t_prio tg) else None) (sv_tags d)).

Lemma lookup_tags t tags : forall m0,
  lookup t (fold_left (fun m tg => assoc_set (t_name tg) (t_prio tg) m) tags m0) =
  match last_some (map (fun tg => if str_eqb t (t_name tg) then Some (t_prio tg) else None) tags) with
  | Some p => Some p
  | None => lookup t m0
  end.
Proof.
  induction tags as [|tg tags IH]; intros m0; cbn [fold_left map last_some]; [reflexivity|].
  rewrite IH. destruct (last_some _); [reflexivity|].
  destruct (str_eqb_spec t (t_name tg)) as [->|Hne]; [apply lookup_assoc_set_same|apply lookup_assoc_set_other; exact Hne].
Qed.
Definition constructor_parts (x : str) : str * str :=
  let st := re_co_ServiceConstructor E in (sub st (smatch st x) (s "import"), sub st (smatch st x) (s "fn")).
Definition constructor_named (x : option str) : bool :=
  match x with
  | None => false
  | Some x => match sanitize_import (fst (constructor_parts x)), snd (constructor_parts x) with [], [] => false | _, _ => true end
  end.
Definition constructor_origin (fin : ist) (x : option str) : str :=
  match x with Some x => declared_origin fin (fst (constructor_parts x)) (snd (constructor_parts x)) | None => [] end.

Definition loaded_field fns fin (kv : str * prim) (f : str * rdep) : Prop := fst f = fst kv /\ loaded_dep fns fin (snd kv) (snd f).
Definition loaded_call fns fin (cl : call) (rc : rcall) : Prop :=
  rc_method rc = c_method cl /\ rc_wither rc = c_immutable cl /\ Forall2 (loaded_dep fns fin) (c_args cl) (rc_deps rc).

Definition loaded_service (fns : list fnfact) (fin : ist) (kv : str * service) (nd : str * sdef) : Prop :=
  let d := snd kv in let sd := snd nd in
  sd_scope sd = oscope_of (sv_scope d) /\
  (is_todo d = true -> sd_create sd = CTodo /\ sd_fields sd = [] /\ sd_calls sd = [] /\ sd_tags sd = []) /\
  (is_todo d = false ->
     (forall t, lookup t (sd_tags sd) = declared_prio d t) /\
     Forall2 (loaded_field fns fin) (sorted_entries (sv_fields d)) (sd_fields sd) /\
     Forall2 (loaded_call fns fin) (sv_calls d) (sd_calls sd) /\
     if constructor_named (sv_constructor d)
     then exists fl deps, sd_create sd = CCtor (constructor_origin fin (sv_constructor d)) fl deps /\
                          Forall2 (loaded_dep fns fin) (sv_args d) deps
     else match sd_create sd with CValue _ | CZero => True | _ => False end).

(** ITEMS 3, 4, 5.  The services of the loaded container are the declared services in the order of their names, each with the
    declared scope ([OScDefault] when none is declared), the declared tag priorities (the LAST declaration of a tag name wins;
    validated inputs have no repeated tag name, see [validated_tags_NoDup]), the fields in the order of their names, the calls
    in declared order with their wither flag, and - when a constructor is named - the constructor with the declared arguments
    in declared order.  A todo service holds nothing but its scope. *)
Theorem e2e_services B i o c envv :
  compile E B i = ((o, None), c) ->
  Forall2 (fun kv nd => fst nd = fst kv /\ loaded_service (meta_fns E i) (cs_imports c) kv nd)
          (sorted_entries (i_services i)) (rt_services (load E o c envv)).
Proof.
  intros H. destruct (compile_structure _ _ _ _ H) as (_ & Fn & Hinv & FS & _). unfold load. cbn [rt_services]. rewrite Fn.
  apply Forall2_map_r. eapply Forall2_impl; [|exact FS]. intros [k d] sv (N & Sc & T & HT & HN). cbn [fst snd] in *.
  split; [exact N|]. unfold loaded_service, sdef_of. cbn [fst snd sd_scope sd_create sd_fields sd_calls sd_tags]. rewrite T.
  split; [exact Sc|]. split.
  - intros Td. rewrite Td. destruct (HT Td) as (_ & -> & -> & -> & _). auto.
  - intros Td. rewrite Td. destruct (HN Td) as (A & Cl & Fl & Tg & _ & _ & _ & _ & (is_ & K1 & K2)). rewrite Tg.
    split; [intros t; rewrite lookup_tags; unfold declared_prio; destruct (last_some _); reflexivity|]. split; [|split].
    + apply Forall2_map_r. eapply Forall2_impl; [|exact Fl]. intros kv f [F1 F2]. split; [exact F1|]. exists (snd f). auto.
    + apply Forall2_map_r. eapply Forall2_impl; [|exact Cl]. intros cl oc (M1 & M2 & M3).
      split; [exact M1|]. split; [exact M2|]. apply compiled_loaded. exact M3.
    + unfold constructor_named, constructor_origin. destruct (sv_constructor d) as [x|]; cbn [service_constructor fst snd] in K1, K2.
      * pose proof (origin_qualified _ _ _ _ Hinv K2) as O. rewrite <- K1 in O. unfold constructor_parts. cbn [fst snd]. rewrite <- O.
        clear O K2. revert K1. unfold qualify. destruct (sanitize_import _) as [|ch r].
        { cbn [fst]. intros <-. destruct (os_constructor sv).
          - destruct (os_value sv); [destruct (has_prefix _ _)|]; exact I.
          - eexists _, _. split; [reflexivity|apply compiled_loaded; exact A]. }
        destruct (alias is_ (ch :: r)) as [a is1]. cbn [fst]. intros K1.
        destruct (os_constructor sv) as [|c0 code]; [destruct a; discriminate K1|].
        eexists _, _. split; [reflexivity|apply compiled_loaded; exact A].
      * rewrite K1. destruct (os_value sv); [destruct (has_prefix _ _)|]; exact I.
Qed.
(** the same by name (no uniqueness hypothesis: [lookup] takes the first entry on both sides) *)
Theorem e2e_service_lookup B i o c envv k :
  compile E B i = ((o, None), c) ->
  match lookup k (i_services i), lookup k (rt_services (load E o c envv)) with
  | Some d, Some sd => loaded_service (meta_fns E i) (cs_imports c) (k, d) (k, sd)
  | None, None => True
  | _, _ => False
  end.
Proof.
  intros H. rewrite <- (lookup_sorted_entries_gen (i_services i) k).
  exact (Forall2_lookup (loaded_service (meta_fns E i) (cs_imports c)) _ _ (e2e_services _ _ _ _ envv H) k).
Qed.
(** ITEM 4: the scope the run-time library sees for a name is the declared one *)
Theorem e2e_scope B i o c envv k :
  compile E B i = ((o, None), c) ->
  declared_scope (load E o c envv) k = match lookup k (i_services i) with Some d => oscope_of (sv_scope d) | None => OScDefault end.
Proof.
  intros H. pose proof (e2e_service_lookup _ _ _ _ envv k H) as L. unfold declared_scope.
  destruct (lookup k (i_services i)), (lookup k (rt_services _)); try contradiction; [apply L|reflexivity].
Qed.
(** ITEM 3: the priority the run-time library sees for (tag, service) is the declared one; [C04_tagged_order] speaks of [prio_of] *)
Theorem e2e_priority B i o c envv t k :
  compile E B i = ((o, None), c) ->
  prio_of (load E o c envv) t k =
  match lookup k (i_services i) with Some d => if is_todo d then None else declared_prio d t | None => None end.
Proof.
  intros H. pose proof (e2e_service_lookup _ _ _ _ envv k H) as L. unfold prio_of.
  destruct (lookup k (i_services i)) as [d|], (lookup k (rt_services _)) as [sd|]; try contradiction; [|reflexivity].
  destruct L as (_ & T & N). cbn [snd] in *. destruct (is_todo d); [destruct (T eq_refl) as (_ & _ & _ & ->); reflexivity|apply N; reflexivity].
Qed.
Theorem e2e_tagged_order B i o c envv t l1 n1 l2 n2 l3 :
  compile E B i = ((o, None), c) -> NoDup (keys (i_services i)) ->
  tagged (load E o c envv) t = l1 ++ n1 :: l2 ++ n2 :: l3 ->
  exists d1 d2 p1 p2, lookup n1 (i_services i) = Some d1 /\ lookup n2 (i_services i) = Some d2 /\
    declared_prio d1 t = Some p1 /\ declared_prio d2 t = Some p2 /\ ((p2 < p1)%Z \/ p1 = p2 /\ str_ltb n1 n2 = true).
Proof.
  intros H ND HT. assert (NoDup (map fst (rt_services (load E o c envv)))) as ND'.
  { rewrite (Forall2_keys _ _ _ (e2e_services _ _ _ _ envv H)). apply keys_sorted_entries_NoDup. exact ND. }
  destruct (tagged_order_strict _ _ _ _ _ _ _ ND' HT) as (p1 & p2 & P1 & P2 & O).
  rewrite (e2e_priority _ _ _ _ _ _ _ H) in P1. rewrite (e2e_priority _ _ _ _ _ _ _ H) in P2.
  destruct (lookup n1 (i_services i)) as [d1|]; [|discriminate]. destruct (lookup n2 (i_services i)) as [d2|]; [|discriminate].
  destruct (is_todo d1); [discriminate|]. destruct (is_todo d2); [discriminate|]. exists d1, d2, p1, p2. auto.
Qed.
(** a validated input declares a tag name at most once per service, so "last declaration wins" never discards anything *)
Lemma count_NoDup l : (forall n, In n l -> count_str n l <= 1) -> NoDup l.
Proof.
  induction l as [|x l IH]; intros H; constructor.
  - intros Hi. specialize (H x (or_introl eq_refl)). cbn [count_str] in H. rewrite str_eqb_refl in H.
    clear IH. revert H. induction l as [|y l IH]; [destruct Hi|]. cbn [count_str]. destruct (str_eqb_spec x y); [lia|].
    destruct Hi as [->|Hi]; [congruence|]. intros H. apply IH; [exact Hi|lia].
  - apply IH. intros n Hn. specialize (H n (or_intror Hn)). cbn [count_str] in H. lia.
Qed.
Lemma In_dedup x l : In x l -> In x (dedup l).
Proof.
  induction l as [|y l IH]; [auto|]. cbn [dedup]. destruct (mem y l) eqn:M; intros [<-|Hi]; cbn [In]; auto.
  apply IH. apply mem_In. exact M.
Qed.
Lemma validated_service B i k d x :
  step_validate E B i = None -> In (k, d) (i_services i) -> is_todo d = false ->
  In x [v_constructor_type d; v_tags E d] -> x = None.
Proof.
  intros V Hi T Hx. apply gprefix_single_none in V. unfold validate, gjoin in V.
  assert (v_services E i = None) as VS by (apply (proj1 (gprefix_none _ _) V); cbn [In]; auto 6).
  assert (v_service E k d = None) as V1.
  { apply (proj1 (gprefix_none _ _) VS). apply in_or_app. left. apply in_map_iff. exists (k, d). split; [reflexivity|].
    apply In_sorted_entries. exact Hi. }
  unfold v_service in V1. unfold is_todo in T. rewrite T in V1. apply (proj1 (gprefix_none _ _) V1).
  destruct Hx as [<-|[<-|[]]]; cbn [In]; auto 12.
Qed.
Theorem validated_tags_NoDup B i k d :
  step_validate E B i = None -> In (k, d) (i_services i) -> is_todo d = false -> NoDup (map t_name (sv_tags d)).
Proof.
  intros V Hi T. assert (v_tags E d = None) as VT by (apply (validated_service _ _ _ _ _ V Hi T); cbn [In]; auto).
  apply count_NoDup. intros n Hn. unfold v_tags in VT. cbv zeta in VT.
  assert ((if Nat.ltb 1 (count_str n (map t_name (sv_tags d))) then leaf (s "duplicate " ++ quote n) else None) = None) as C.
  { apply (proj1 (gprefix_none _ _) VT). apply in_or_app. right.
    apply (in_map (fun n => if Nat.ltb 1 (count_str n (map t_name (sv_tags d))) then leaf (s "duplicate " ++ quote n) else None)).
    apply In_sort_by. apply In_dedup. exact Hn. }
  destruct (Nat.ltb_spec 1 (count_str n (map t_name (sv_tags d)))); [discriminate|lia].
Qed.
(** arguments are never dropped silently: a validated non-todo service with arguments has a constructor *)
Theorem validated_args_have_constructor B i k d :
  step_validate E B i = None -> In (k, d) (i_services i) -> is_todo d = false -> sv_args d <> [] -> sv_constructor d <> None.
Proof.
  intros V Hi T Ha Hc. assert (v_constructor_type d = None) as VC by (apply (validated_service _ _ _ _ _ V Hi T); cbn [In]; auto).
  unfold v_constructor_type, gjoin in VC. rewrite Hc in VC. destruct (sv_args d); [congruence|].
  assert (leaf (s "arguments are not empty, but constructor is missing") = None) as C by (apply (proj1 (gprefix_none _ _) VC); cbn [In]; auto).
  discriminate C.
Qed.
Lemma declared_prio_NoDup d t p :
  NoDup (map t_name (sv_tags d)) -> (declared_prio d t = Some p <-> In {| t_name := t; t_prio := p |} (sv_tags d)).
Proof.
  unfold declared_prio. revert p. induction (sv_tags d) as [|[n q] l IH]; cbn [map last_some In t_name t_prio]; intros p ND.
  - split; [discriminate|contradiction].
  - inversion ND as [|? ? Hn ND']; subst. specialize (fun p => IH p ND'). destruct (last_some _) as [v|] eqn:L.
    + split; [intros Hv; right; apply IH; exact Hv|]. intros [Hq|Hq]; [|apply IH; exact Hq]. exfalso. injection Hq as -> ->.
      apply Hn. apply in_map_iff. exists {| t_name := t; t_prio := v |}. split; [reflexivity|apply IH; reflexivity].
    + destruct (str_eqb_spec t n) as [->|Hne]; split.
      * intros Hv; injection Hv as ->. left. reflexivity.
      * intros [Hq|Hq]; [congruence|]. apply IH in Hq. discriminate.
      * discriminate.
      * intros [Hq|Hq]; [congruence|]. apply IH in Hq. discriminate.
Qed.
(** ITEM 6.  Getters: one compiled entry per declared service, in the order of the names; a non-todo service has the declared
    getter name, the must flag of the documented rule and the declared type (its import written with the final local name) *)
Definition declared_type (fin : ist) (t : option str) : str :=
  match t with
  | None => s "interface{}"
  | Some x => let st := re_co_ServiceType E in
              sub st (smatch st x) (s "ptr") ++ final_qualified fin (sub st (smatch st x) (s "import")) (sub st (smatch st x) (s "type"))
  end.

Definition declared_getter (m : meta) (fin : ist) (kv : str * service) (sv : oservice) : Prop :=
  os_name sv = fst kv /\
  if is_todo (snd kv) then os_getter sv = [] /\ os_must_getter sv = false
  else os_getter sv = opt_or (sv_getter (snd kv)) [] /\ os_must_getter sv = declared_must m (snd kv) /\
       os_type sv = declared_type fin (sv_type (snd kv)).

Theorem e2e_getters B i o c :
  compile E B i = ((o, None), c) ->
  Forall2 (declared_getter (i_meta i) (cs_imports c)) (sorted_entries (i_services i)) (o_services o).
Proof.
  intros H. destruct (compile_structure _ _ _ _ H) as (_ & _ & _ & FS & _). eapply Forall2_impl; [|exact FS].
  intros [k d] sv (N & _ & _ & HT & HN). unfold declared_getter. cbn [fst snd] in *. split; [exact N|]. destruct (is_todo d).
  - destruct (HT eq_refl) as (_ & _ & _ & _ & G & M). auto.
  - destruct (HN eq_refl) as (_ & _ & _ & _ & G & M & (is_ & T1 & T2) & _). split; [exact G|]. split; [exact M|].
    rewrite T1. unfold service_type, declared_type in *. destruct (sv_type d) as [x|]; [|reflexivity]. cbv zeta in *.
    pose proof (qualify_final (cs_imports c) is_ (sub (re_co_ServiceType E) (smatch (re_co_ServiceType E) x) (s "import"))
                  (sub (re_co_ServiceType E) (smatch (re_co_ServiceType E) x) (s "type"))) as Q.
    destruct (qualify is_ _ _) as [q is1]. cbn [fst snd] in *. rewrite (Q T2). reflexivity.
Qed.
(** ... and the rendered method set is generated from exactly these declarations *)
Theorem e2e_getter_methods B i o c stub n :
  compile E B i = ((o, None), c) ->
  map mt_name (all_getter_methods stub n o) =
  flat_map (fun kv => if is_todo (snd kv) then [] else gen_names (opt_or (sv_getter (snd kv)) []) (declared_must (i_meta i) (snd kv)))
           (sorted_entries (i_services i)).
Proof.
  intros H. rewrite all_getter_methods_names. symmetry. apply Forall2_flat_map_eq.
  eapply Forall2_impl; [|exact (e2e_getters _ _ _ _ H)]. intros kv sv [_ G].
  destruct (is_todo (snd kv)); [destruct G as [-> _]; reflexivity|destruct G as (-> & -> & _); reflexivity].
Qed.

End Std.

End WithEnv.

(** * 7. the hypotheses are satisfiable: the shipped environment and a concrete configuration (one decorator function declared
    three times with different arguments, interleaved with another one; tags with priorities; all scopes) *)
From GV Require Import Gen.EnvGen Tie.EnvTie Spec.Pipeline Proofs.SplitProofs.
(** the command itself: when `gontainer build` succeeds ([Spec/Pipeline.v]; Proofs/RunnerProofs.v ties the runner to it), its
    input, output and compile state are related by a successful [compile], so every theorem above applies to them *)
Theorem pipeline_compiled E B fl w :
  vd_exit (pipeline E B fl w) = 0 ->
  compile E B (vd_input (pipeline E B fl w)) = ((vd_output (pipeline E B fl w), None), vd_cst (pipeline E B fl w)).
Proof.
  unfold pipeline. destruct (read_config E w _) as [[i1 [g|]] ls]; [discriminate|].
  destruct (compile E B i1) as [[o [g|]] c] eqn:C; [discriminate|]. destruct (vo_error fl o); [discriminate|].
  destruct (wd_build_err w); [discriminate|]. destruct (wd_write_err w); [discriminate|]. intros _. exact C.
Qed.

Module Ex.
Definition B := s "0.4.0".
Definition dA := {| d_tag := s "http"; d_decorator := s "pkg.Decorate"; d_args := [PStr (s "@db"); PInt (s "int") (s "1")] |}.
Definition dB := {| d_tag := s "aaa"; d_decorator := s "Other"; d_args := [PStr (s "!tagged http")] |}.
Definition dC := {| d_tag := s "http"; d_decorator := s "pkg.Decorate"; d_args := [PStr (s "%driver%"); PStr (s "!value pkg.X")] |}.
Definition cfg (ds : list decorator) : input :=
  {| i_version := None; i_meta := i_meta Examples.cfg; i_params := i_params Examples.cfg; i_services := i_services Examples.cfg;
     i_decorators := ds |}.
Definition only (ds : list decorator) : input :=
  {| i_version := None; i_meta := empty_meta; i_params := []; i_services := []; i_decorators := ds |}.
Definition out := compile the_env B (fold_left merge [only [dB; dC]; only [dA]] (cfg [dA])).
Definition st := load the_env (fst (fst out)) (snd out) [].

Example steps : w_compiler_steps the_env = [CValidate; CMeta; CParams; CServices; CDecorators].
Proof. exact (se_csteps _ the_env_std). Qed.
Example compiles : compile the_env B (fold_left merge [only [dB; dC]; only [dA]] (cfg [dA])) = ((fst (fst out), None), snd out).
Proof. vm_compute. reflexivity. Qed.
Example names_unique : NoDup (keys (i_services (fold_left merge [only [dB; dC]; only [dA]] (cfg [dA])))).
Proof. vm_compute. repeat constructor; cbn [In]; intuition discriminate. Qed.
(** the theorems, instantiated *)
Definition decorators_of_files := e2e_decorators_files the_env steps B (cfg [dA]) [only [dB; dC]; only [dA]] _ _ [] compiles.
Definition services := e2e_services the_env steps B _ _ _ [] compiles.

(** ... and what they pin down, computed: nothing sorted by tag, grouped by function or de-duplicated *)
Example loaded_decorators :
  map (fun d => (dd_tag d, dd_origin d, dd_deps d)) (rt_decorators st) =
  [ (s "http", s "pkg.Decorate", [DService (s "db"); DLit (PInt (s "int") (s "1"))]);
    (s "aaa", s "..Other", [DTag (s "http")]);
    (s "http", s "pkg.Decorate", [DPattern [KRef (s "driver")]; DValue (VObj (s "pkg.X") [] [] [] 0)]);
    (s "http", s "pkg.Decorate", [DService (s "db"); DLit (PInt (s "int") (s "1"))]) ].
Proof. vm_compute. reflexivity. Qed.
Example loaded_tags_and_scopes :
  map (fun kv => (fst kv, sd_tags (snd kv), sd_scope (snd kv))) (rt_services st) =
  [ (s "clock", [], OScNonShared); (s "db", [(s "rpc", (-1)%Z); (s "http", 10%Z)], OScShared); (s "mailer", [(s "http", 10%Z)], OScDefault) ].
Proof. vm_compute. reflexivity. Qed.
End Ex.

Print Assumptions compile_structure.
Print Assumptions loaded_dep_cases.
Print Assumptions e2e_decorators.
Print Assumptions e2e_decorators_files.
Print Assumptions e2e_decorators_merge_all.
Print Assumptions e2e_services.
Print Assumptions e2e_service_lookup.
Print Assumptions e2e_scope.
Print Assumptions e2e_priority.
Print Assumptions e2e_tagged_order.
Print Assumptions validated_tags_NoDup.
Print Assumptions validated_args_have_constructor.
Print Assumptions declared_prio_NoDup.
Print Assumptions e2e_getters.
Print Assumptions e2e_getter_methods.
Print Assumptions pipeline_compiled.
Print Assumptions Ex.decorators_of_files.
Print Assumptions Ex.loaded_decorators.
