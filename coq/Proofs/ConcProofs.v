(** At-most-once construction of cached services under every interleaving of the locking protocol of Runtime/Conc.v.
    Main results (all for every configuration, every assignment of contexts to threads and every reachable state):
      [lock_discipline], [shared_built_at_most_once], [contextual_built_at_most_once], [ctx_isolation],
      [nonshared_never_cached], [nonshared_no_lock], and the concrete trace [example_trace]. *)
From GV Require Import Base.Str Runtime.Conc.
From Coq Require Import List Arith Bool Lia.
Import ListNotations.

Local Notation stk st t := (t_stack (threads st t)).
Local Notation ctx st t := (t_ctx (threads st t)).

(* ------------------------------------------------------------------------------------------------------------------ *)
(** * Function updates *)

Lemma upd_same {A} (f : nat -> A) k v : upd f k v k = v.
Proof. unfold upd. now rewrite Nat.eqb_refl. Qed.

Lemma upd_other {A} (f : nat -> A) k v x : x <> k -> upd f k v x = f x.
Proof. intros H. unfold upd. destruct (Nat.eqb_spec x k); [contradiction | reflexivity]. Qed.

Lemma upd2_same {A} (f : nat -> nat -> A) a b v : upd2 f a b v a b = v.
Proof. unfold upd2. now rewrite !Nat.eqb_refl. Qed.

Lemma upd2_other {A} (f : nat -> nat -> A) a b v x y : (x <> a \/ y <> b) -> upd2 f a b v x y = f x y.
Proof.
  intros H. unfold upd2. destruct (Nat.eqb_spec x a); destruct (Nat.eqb_spec y b); cbn; try reflexivity.
  destruct H; contradiction.
Qed.

(* ------------------------------------------------------------------------------------------------------------------ *)
(** * Classification of frames *)

Definition is_acq (p : pc) : bool := match p with PAcquire => true | _ => false end.
Definition is_store (p : pc) : bool := match p with PStore => true | _ => false end.
Definition is_mid (p : pc) : bool := match p with PDeps _ | PConstruct => true | _ => false end.

(** a frame of service [i] that is past [PAcquire] *)
Definition heldb (i : sid) (fr : frame) : bool := Nat.eqb (f_id fr) i && negb (is_acq (f_pc fr)).
Definition storeb (i : sid) (fr : frame) : bool := Nat.eqb (f_id fr) i && is_store (f_pc fr).
Definition midb (i : sid) (fr : frame) : bool := Nat.eqb (f_id fr) i && is_mid (f_pc fr).

Fixpoint nheld (i : sid) (l : list frame) : nat :=
  match l with [] => 0 | fr :: r => (if heldb i fr then 1 else 0) + nheld i r end.
Definition hasS (i : sid) (l : list frame) : bool := existsb (storeb i) l.
Definition hasB (i : sid) (l : list frame) : bool := existsb (midb i) l.

(** the propositional reading *)
Definition held (i : sid) (fr : frame) : Prop := f_id fr = i /\ f_pc fr <> PAcquire.

Lemma heldb_held i fr : heldb i fr = true <-> held i fr.
Proof.
  unfold heldb, held. rewrite andb_true_iff, Nat.eqb_eq, negb_true_iff.
  destruct (f_pc fr); cbn; intuition congruence.
Qed.

Lemma nheld_In i l : 1 <= nheld i l <-> exists fr, In fr l /\ held i fr.
Proof.
  induction l as [|fr r IH]; cbn [nheld In].
  - split; [lia | intros (fr & [] & _)].
  - destruct (heldb i fr) eqn:E.
    + split; [intros _ | lia]. exists fr. split; [now left | now apply heldb_held].
    + cbn [Nat.add]. rewrite IH. split.
      * intros (fr' & Hin & Hh). exists fr'. auto.
      * intros (fr' & [<- | Hin] & Hh).
        -- apply heldb_held in Hh. congruence.
        -- exists fr'. auto.
Qed.

Lemma nheld_nth_unique i l : nheld i l <= 1 -> forall n1 n2 fr1 fr2,
  nth_error l n1 = Some fr1 -> nth_error l n2 = Some fr2 -> held i fr1 -> held i fr2 -> n1 = n2.
Proof.
  induction l as [|fr r IH]; intros Hle n1 n2 fr1 fr2 H1 H2 Hh1 Hh2.
  - destruct n1; discriminate.
  - cbn [nheld] in Hle.
    assert (Hr : forall n fr', nth_error r n = Some fr' -> held i fr' -> 1 <= nheld i r).
    { intros n fr' Hn Hh. apply nheld_In. exists fr'. split; [eapply nth_error_In; eauto | auto]. }
    destruct n1 as [|n1], n2 as [|n2]; cbn [nth_error] in H1, H2.
    + reflexivity.
    + injection H1 as ->. apply heldb_held in Hh1. rewrite Hh1 in Hle. specialize (Hr _ _ H2 Hh2). lia.
    + injection H2 as ->. apply heldb_held in Hh2. rewrite Hh2 in Hle. specialize (Hr _ _ H1 Hh1). lia.
    + f_equal. apply (IH ltac:(destruct (heldb i fr); lia) n1 n2 fr1 fr2); auto.
Qed.

Lemma hasS_nheld i l : hasS i l = true -> 1 <= nheld i l.
Proof.
  induction l as [|fr r IH]; cbn [hasS existsb nheld]; [discriminate|].
  unfold storeb at 1, heldb. destruct (Nat.eqb (f_id fr) i); cbn [andb].
  - destruct (f_pc fr); cbn; try lia; intros H; apply IH in H; lia.
  - cbn [orb]. intros H; apply IH in H. lia.
Qed.

Lemma hasB_nheld i l : hasB i l = true -> 1 <= nheld i l.
Proof.
  induction l as [|fr r IH]; cbn [hasB existsb nheld]; [discriminate|].
  unfold midb at 1, heldb. destruct (Nat.eqb (f_id fr) i); cbn [andb].
  - destruct (f_pc fr); cbn; try lia; intros H; apply IH in H; lia.
  - cbn [orb]. intros H; apply IH in H. lia.
Qed.

Lemma hasS_In i l : hasS i l = true <-> In {| f_id := i; f_pc := PStore |} l.
Proof.
  unfold hasS. rewrite existsb_exists. split.
  - intros ([j p] & Hin & Hs). unfold storeb in Hs. cbn in Hs. apply andb_true_iff in Hs as [Hj Hp].
    apply Nat.eqb_eq in Hj. subst j. destruct p; try discriminate. exact Hin.
  - intros Hin. eexists. split; [exact Hin|]. unfold storeb. cbn. now rewrite Nat.eqb_refl.
Qed.

Lemma hasB_In i l : hasB i l = true <-> exists p, In {| f_id := i; f_pc := p |} l /\ is_mid p = true.
Proof.
  unfold hasB. rewrite existsb_exists. split.
  - intros ([j p] & Hin & Hs). unfold midb in Hs. cbn in Hs. apply andb_true_iff in Hs as [Hj Hp].
    apply Nat.eqb_eq in Hj. subst j. eauto.
  - intros (p & Hin & Hp). eexists. split; [exact Hin|]. unfold midb. cbn. now rewrite Nat.eqb_refl.
Qed.

(* ------------------------------------------------------------------------------------------------------------------ *)
(** * Generic facts about steps *)

Lemma needs_lock_shared C i : kind C i = KShared -> needs_lock C i = true.
Proof. unfold needs_lock. now intros ->. Qed.
Lemma needs_lock_contextual C i : kind C i = KContextual -> needs_lock C i = true.
Proof. unfold needs_lock. now intros ->. Qed.
Lemma needs_lock_nonshared C i : kind C i = KNonShared <-> needs_lock C i = false.
Proof. unfold needs_lock. destruct (kind C i); split; congruence. Qed.

(** contexts of threads never change *)
Lemma step_ctx C st t st' : step C st t st' -> forall t', ctx st' t' = ctx st t'.
Proof.
  intros H t'. destruct H; cbn; unfold upd; destruct (Nat.eqb_spec t' t); subst; reflexivity.
Qed.

(** a step of [t] leaves the stacks of the other threads alone *)
Lemma step_other_stack C st t st' : step C st t st' -> forall t', t' <> t -> threads st' t' = threads st t'.
Proof.
  intros H t' Hne. destruct H; cbn; unfold upd; destruct (Nat.eqb_spec t' t); subst; congruence.
Qed.

Lemma reach_ind_inv C (P : state -> Prop) :
  (forall st t st', P st -> step C st t st' -> P st') -> forall st st', reach C st st' -> P st -> P st'.
Proof. intros Hs st st' H. induction H; eauto. Qed.

Lemma reach_ctx C ctx_of st : reach C (init ctx_of) st -> forall t, ctx st t = ctx_of t.
Proof.
  intros H. refine (reach_ind_inv C (fun st => forall t, ctx st t = ctx_of t) _ _ _ H _).
  - intros st0 t0 st1 IH Hs t. now rewrite (step_ctx _ _ _ _ Hs).
  - reflexivity.
Qed.

(* ------------------------------------------------------------------------------------------------------------------ *)
(** * 1. Lock discipline *)

(** the number of frames of [i] past [PAcquire] on the stack of [t] is 1 if [t] holds the mutex of [i] and 0 otherwise;
    frames at [PAcquire] only exist for services that have a mutex; mutexes of non-shared services are never taken *)
Definition lock_inv (C : cfg) (st : state) : Prop :=
  (forall i t, needs_lock C i = true ->
     nheld i (stk st t) = match locks st i with Some t' => if Nat.eqb t t' then 1 else 0 | None => 0 end) /\
  (forall t fr, In fr (stk st t) -> f_pc fr = PAcquire -> needs_lock C (f_id fr) = true) /\
  (forall i, needs_lock C i = false -> locks st i = None).

Lemma lock_inv_init C ctx_of : lock_inv C (init ctx_of).
Proof. repeat split; cbn; intros; auto; contradiction. Qed.

Lemma nheld_cons i j p r : nheld i ({| f_id := j; f_pc := p |} :: r) = (if Nat.eqb j i && negb (is_acq p) then 1 else 0) + nheld i r.
Proof. reflexivity. Qed.
Lemma hasS_cons i j p r : hasS i ({| f_id := j; f_pc := p |} :: r) = Nat.eqb j i && is_store p || hasS i r.
Proof. reflexivity. Qed.
Lemma hasB_cons i j p r : hasB i ({| f_id := j; f_pc := p |} :: r) = Nat.eqb j i && is_mid p || hasB i r.
Proof. reflexivity. Qed.
Lemma nheld_nil i : nheld i [] = 0. Proof. reflexivity. Qed.
Lemma hasS_nil i : hasS i [] = false. Proof. reflexivity. Qed.
Lemma hasB_nil i : hasB i [] = false. Proof. reflexivity. Qed.

Local Ltac eqb_all :=
  repeat match goal with
  | |- context [Nat.eqb ?a ?b] => destruct (Nat.eqb_spec a b); subst; cbn [andb orb negb Nat.add] in *
  | H : context [Nat.eqb ?a ?b] |- _ => destruct (Nat.eqb_spec a b); subst; cbn [andb orb negb Nat.add] in *
  end.

Local Ltac frames :=
  rewrite ?nheld_cons, ?hasS_cons, ?hasB_cons, ?nheld_nil, ?hasS_nil, ?hasB_nil in *;
  cbn [is_acq is_store is_mid negb] in *;
  rewrite ?andb_false_r, ?andb_true_r, ?orb_false_r in *; cbn [andb orb Nat.add] in *.

Local Ltac lockcases C :=
  repeat match goal with |- context [if needs_lock C ?x then _ else _] => destruct (needs_lock C x) eqn:? end.

Lemma lock_inv_step C st t0 st' : lock_inv C st -> step C st t0 st' -> lock_inv C st'.
Proof.
  intros (LK & AQ & NL) Hs. split; [|split].
  - intros i t Hn. pose proof (LK i t Hn) as Ht. pose proof (LK i t0 Hn) as Ht0.
    destruct Hs; cbn [locks threads set_stack set_thread t_stack t_ctx]; unfold upd; lockcases C;
      (destruct (Nat.eqb_spec t t0) as [->|Hne]; cbn [t_stack]; [clear Ht; rewrite H in Ht0 | rewrite H in Ht0]);
      frames; eqb_all; try assumption; try congruence.
    all: try (rewrite H0 in *; assumption).
    all: repeat match goal with H : context [locks ?s ?j] |- _ => destruct (locks s j) as [?t|]; eqb_all end; try congruence; try lia.
  - intros t fr. pose proof (AQ t) as Ht. pose proof (AQ t0) as Ht0.
    destruct Hs; cbn [locks threads set_stack set_thread t_stack t_ctx]; unfold upd at 1;
      (destruct (Nat.eqb_spec t t0) as [->|Hne]; cbn [t_stack]; [clear Ht; rewrite H in Ht0 | clear Ht0; apply Ht]).
    all: cbn [In] in *; intros Hin Hp.
    all: repeat match goal with H : _ \/ _ |- _ => destruct H as [<- | H] end; cbn [f_id f_pc] in *; try discriminate; auto.
    all: try (destruct (needs_lock C i) eqn:En; [reflexivity | discriminate]).
    all: try (destruct (needs_lock C d) eqn:En; [reflexivity | discriminate]).
  - intros i Hn. pose proof (NL i Hn) as Hi.
    destruct Hs; cbn [locks threads set_stack set_thread]; auto.
    + unfold upd. destruct (Nat.eqb_spec i i0) as [->|Hne]; auto.
      pose proof (AQ t _ ltac:(rewrite H; left; reflexivity) eq_refl) as Hq. cbn [f_id] in Hq. congruence.
    + destruct (needs_lock C i0); auto. unfold upd. destruct (Nat.eqb i i0); auto.
Qed.

Lemma lock_inv_reach C ctx_of st : reach C (init ctx_of) st -> lock_inv C st.
Proof.
  intros H. refine (reach_ind_inv C (lock_inv C) _ _ _ H (lock_inv_init C ctx_of)).
  intros st0 t st1 IH Hs. eapply lock_inv_step; eauto.
Qed.

Lemma lock_inv_le1 C st i t : lock_inv C st -> needs_lock C i = true -> nheld i (stk st t) <= 1.
Proof.
  intros (LK & _) Hn. rewrite (LK i t Hn). destruct (locks st i) as [t'|]; [destruct (Nat.eqb t t')|]; lia.
Qed.

Lemma lock_inv_uniq C st i t1 t2 : lock_inv C st -> needs_lock C i = true ->
  1 <= nheld i (stk st t1) -> 1 <= nheld i (stk st t2) -> t1 = t2.
Proof.
  intros (LK & _) Hn. rewrite (LK i t1 Hn), (LK i t2 Hn).
  destruct (locks st i) as [t'|]; [|lia].
  destruct (Nat.eqb_spec t1 t'); destruct (Nat.eqb_spec t2 t'); subst; auto; lia.
Qed.

Lemma lock_inv_holder C st i t : lock_inv C st -> needs_lock C i = true ->
  (locks st i = Some t <-> 1 <= nheld i (stk st t)).
Proof.
  intros (LK & _) Hn. rewrite (LK i t Hn). destruct (locks st i) as [t'|].
  - destruct (Nat.eqb_spec t t'); subst; split; intros; try lia; congruence.
  - split; [discriminate | lia].
Qed.

(** THEOREM 1 (mutual exclusion / lock discipline).  For a service [i] that has a mutex, in every reachable state:
    (a) thread [t] holds the mutex of [i] iff some frame of [i] on its stack is past [PAcquire];
    (b) in the whole system there is at most ONE frame of [i] past [PAcquire] (same thread and same position in its stack), no acyclicity of the
        dependency relation needed: a thread re-entering [i] stays blocked at [PAcquire];
    (c) consequently an unlocked mutex means no frame of [i] past [PAcquire] anywhere. *)
Theorem lock_discipline C ctx_of st i : reach C (init ctx_of) st -> needs_lock C i = true ->
  (forall t, locks st i = Some t <-> exists fr, In fr (stk st t) /\ f_id fr = i /\ f_pc fr <> PAcquire) /\
  (forall t1 t2 n1 n2 fr1 fr2,
     nth_error (stk st t1) n1 = Some fr1 -> f_id fr1 = i -> f_pc fr1 <> PAcquire ->
     nth_error (stk st t2) n2 = Some fr2 -> f_id fr2 = i -> f_pc fr2 <> PAcquire ->
     t1 = t2 /\ n1 = n2) /\
  (locks st i = None -> forall t fr, In fr (stk st t) -> f_id fr = i -> f_pc fr = PAcquire).
Proof.
  intros Hr Hn. pose proof (lock_inv_reach _ _ _ Hr) as HL. split; [|split].
  - intros t. rewrite (lock_inv_holder C st i t HL Hn), nheld_In. reflexivity.
  - intros t1 t2 n1 n2 fr1 fr2 H1 Hi1 Hp1 H2 Hi2 Hp2.
    assert (Hh1 : 1 <= nheld i (stk st t1)).
    { apply nheld_In. exists fr1. split; [eapply nth_error_In; eauto | split; auto]. }
    assert (Hh2 : 1 <= nheld i (stk st t2)).
    { apply nheld_In. exists fr2. split; [eapply nth_error_In; eauto | split; auto]. }
    assert (t1 = t2) as -> by (eapply lock_inv_uniq; eauto). split; [reflexivity|].
    eapply (nheld_nth_unique i (stk st t2)); eauto using lock_inv_le1; split; auto.
  - intros Hnone t fr Hin Hi. destruct (f_pc fr) eqn:Ep; auto.
    all: exfalso; assert (Hh : 1 <= nheld i (stk st t))
      by (apply nheld_In; exists fr; split; [auto | split; [auto | congruence]]);
      apply (lock_inv_holder C st i t HL Hn) in Hh; congruence.
Qed.

(** frames at [PAcquire] only exist for services that have a mutex, and the mutex of a non-shared service is never taken (item 4) *)
Theorem nonshared_no_lock C ctx_of st i : reach C (init ctx_of) st -> kind C i = KNonShared ->
  locks st i = None /\ forall t fr, In fr (stk st t) -> f_id fr = i -> f_pc fr <> PAcquire.
Proof.
  intros Hr Hk. destruct (lock_inv_reach _ _ _ Hr) as (_ & AQ & NL).
  apply needs_lock_nonshared in Hk. split; [auto|].
  intros t fr Hin Hi Hp. specialize (AQ t fr Hin Hp). congruence.
Qed.

Theorem nonshared_never_cached C st c i : kind C i = KNonShared -> cached C st c i = false.
Proof. unfold cached. now intros ->. Qed.

(* ------------------------------------------------------------------------------------------------------------------ *)
(** * 2. At most once: shared services *)

Lemma hasS_transfer i (th : tid -> thread) t c s :
  (hasS i (t_stack (th t)) = true -> hasS i s = true) ->
  (exists u, hasS i (t_stack (th u)) = true) ->
  exists u, hasS i (t_stack (upd th t {| t_ctx := c; t_stack := s |} u)) = true.
Proof.
  intros Ht (u & Hu). destruct (Nat.eqb_spec u t) as [->|Hne].
  - exists t. rewrite upd_same. cbn. auto.
  - exists u. rewrite upd_other by auto. exact Hu.
Qed.

Definition sh_inv (C : cfg) (st : state) : Prop := forall i, kind C i = KShared ->
  (forall t, hasS i (stk st t) = true -> built st i = 1 /\ shared_cache st i = false) /\
  (forall t, hasB i (stk st t) = true -> built st i = 0 /\ shared_cache st i = false) /\
  (shared_cache st i = true -> built st i = 1) /\
  (shared_cache st i = false -> built st i = 0 \/ exists t, hasS i (stk st t) = true).

Lemma sh_inv_init C ctx_of : sh_inv C (init ctx_of).
Proof. intros i Hk. cbn. repeat split; try discriminate; auto. Qed.

Lemma sh_inv_step C st t0 st' : lock_inv C st -> sh_inv C st -> step C st t0 st' -> sh_inv C st'.
Proof.
  intros HL HS Hs i Hk. destruct (HS i Hk) as (A & B & Cc & D).
  pose proof (needs_lock_shared C i Hk) as Hn.
  pose proof (lock_inv_le1 C st i t0 HL Hn) as Hle.
  pose proof (fun t => lock_inv_uniq C st i t t0 HL Hn) as Huq.
  pose proof (A t0) as A0. pose proof (B t0) as B0.
  destruct Hs.
  all: rewrite H in *; lockcases C; frames.
  all: cbn [locks shared_cache ctx_cache built built_ctx threads set_stack set_thread t_stack t_ctx].
  all: try (destruct (Nat.eqb_spec i0 i) as [->|Hi]; [try rewrite Hk; rewrite ?upd_same | try (destruct (kind C i0)); rewrite ?upd_other by auto]).
  all: frames; eqb_all; try congruence.
  all: (split; [|split; [|split]]); try assumption.
  all: try (intros u; unfold upd; destruct (Nat.eqb_spec u t) as [->|Hu]; cbn [t_stack]; frames; eqb_all; try congruence; eauto).
  all: try (intros Hc; destruct (D Hc) as [Hz|Hex]; [left; assumption | right; apply hasS_transfer; [|assumption]; rewrite H; frames; eqb_all; auto]).
  all: unfold cached in *; try rewrite Hk in *.
  all: repeat match goal with
       | X : true = true -> _ |- _ => specialize (X eq_refl)
       | X : _ /\ _ |- _ => destruct X
       end.
  all: intros Hx.
  all: try solve [split; congruence | congruence | lia
                 | exfalso; (apply hasS_nheld in Hx || apply hasB_nheld in Hx); lia
                 | exfalso; (apply hasS_nheld in Hx || apply hasB_nheld in Hx); apply Huq in Hx; [congruence | lia]
                 | right; exists t; rewrite upd_same; cbn [t_stack]; frames; eqb_all; congruence
                 | destruct (D H0) as [Hz|(u & Hu)];
                   [ split; congruence
                   | exfalso; pose proof (hasS_nheld _ _ Hu) as Hu'; apply Huq in Hu';
                     [subst u; rewrite H in Hu; frames; eqb_all; apply hasS_nheld in Hu; lia | lia] ] ].
Qed.

Lemma sh_inv_reach C ctx_of st : reach C (init ctx_of) st -> sh_inv C st.
Proof.
  intros H.
  refine (proj2 (reach_ind_inv C (fun st => lock_inv C st /\ sh_inv C st) _ _ _ H (conj (lock_inv_init C ctx_of) (sh_inv_init C ctx_of)))).
  intros st0 t st1 (IL & IS) Hs. split; [eapply lock_inv_step | eapply sh_inv_step]; eauto.
Qed.

(** THEOREM 2a: a shared service is constructed at most once, whatever the interleaving; and exactly once if it is in the cache. *)
Theorem shared_built_at_most_once C ctx_of st i : reach C (init ctx_of) st -> kind C i = KShared ->
  built st i <= 1 /\ (shared_cache st i = true -> built st i = 1).
Proof.
  intros Hr Hk. destruct (sh_inv_reach _ _ _ Hr i Hk) as (A & B & Cc & D). split; [|exact Cc].
  destruct (shared_cache st i) eqn:E.
  - rewrite Cc; auto.
  - destruct (D eq_refl) as [Hz | (t & Ht)]; [lia|]. destruct (A t Ht) as [-> _]. lia.
Qed.

(** the finer picture behind it: while some activation of [i] sits between the cache miss and the construction, nothing has been built;
    while one sits between construction and store, exactly one instance has been built and it is not yet cached *)
Theorem shared_phases C ctx_of st i t p : reach C (init ctx_of) st -> kind C i = KShared ->
  In {| f_id := i; f_pc := p |} (stk st t) ->
  match p with
  | PDeps _ | PConstruct => built st i = 0 /\ shared_cache st i = false
  | PStore => built st i = 1 /\ shared_cache st i = false
  | _ => True
  end.
Proof.
  intros Hr Hk Hin. destruct (sh_inv_reach _ _ _ Hr i Hk) as (A & B & _ & _).
  destruct p; auto.
  - apply (B t). apply hasB_In. eauto.
  - apply (B t). apply hasB_In. eauto.
  - apply (A t). apply hasS_In. auto.
Qed.

(* ------------------------------------------------------------------------------------------------------------------ *)
(** * 2. At most once: contextual services (per context) *)

Definition cx_inv (C : cfg) (st : state) : Prop := forall i, kind C i = KContextual ->
  (forall t, hasS i (stk st t) = true -> built_ctx st (ctx st t) i = 1 /\ ctx_cache st (ctx st t) i = false) /\
  (forall t, hasB i (stk st t) = true -> built_ctx st (ctx st t) i = 0 /\ ctx_cache st (ctx st t) i = false) /\
  (forall c, ctx_cache st c i = true -> built_ctx st c i = 1) /\
  (forall c, ctx_cache st c i = false -> built_ctx st c i = 0 \/ exists t, ctx st t = c /\ hasS i (stk st t) = true).

Lemma cx_inv_init C ctx_of : cx_inv C (init ctx_of).
Proof. intros i Hk. cbn. repeat split; try discriminate; auto. Qed.

Lemma hasS_transfer_ctx i (th : tid -> thread) t s c :
  (t_ctx (th t) = c -> hasS i (t_stack (th t)) = true -> hasS i s = true) ->
  (exists u, t_ctx (th u) = c /\ hasS i (t_stack (th u)) = true) ->
  exists u, t_ctx (upd th t {| t_ctx := t_ctx (th t); t_stack := s |} u) = c /\
            hasS i (t_stack (upd th t {| t_ctx := t_ctx (th t); t_stack := s |} u)) = true.
Proof.
  intros Ht (u & Hc & Hu). destruct (Nat.eqb_spec u t) as [->|Hne].
  - exists t. rewrite upd_same. cbn. auto.
  - exists u. rewrite upd_other by auto. auto.
Qed.

Lemma cx_inv_step C st t0 st' : lock_inv C st -> cx_inv C st -> step C st t0 st' -> cx_inv C st'.
Proof.
  intros HL HS Hs i Hk. destruct (HS i Hk) as (A & B & Cc & D).
  pose proof (needs_lock_contextual C i Hk) as Hn.
  pose proof (lock_inv_le1 C st i t0 HL Hn) as Hle.
  pose proof (fun t => lock_inv_uniq C st i t t0 HL Hn) as Huq.
  pose proof (A t0) as A0. pose proof (B t0) as B0.
  destruct Hs.
  all: try subst c.
  all: rewrite H in *; lockcases C; frames.
  all: cbn [locks shared_cache ctx_cache built built_ctx threads set_stack set_thread t_stack t_ctx].
  all: try (destruct (Nat.eqb_spec i0 i) as [->|Hi]; [try rewrite Hk | try (destruct (kind C i0))]).
  all: frames; eqb_all; try congruence.
  all: (split; [|split; [|split]];
    [ intros u; unfold upd; destruct (Nat.eqb_spec u t) as [->|Hu]; cbn [t_stack t_ctx]; unfold upd2; frames; eqb_all; try congruence; eauto
    | intros u; unfold upd; destruct (Nat.eqb_spec u t) as [->|Hu]; cbn [t_stack t_ctx]; unfold upd2; frames; eqb_all; try congruence; eauto
    | intros cc; unfold upd2; eqb_all; try congruence; auto
    | intros cc Hc; unfold upd2 in *; eqb_all; try congruence;
      try (destruct (D _ Hc) as [Hz|Hex]; [left; assumption | right; apply hasS_transfer_ctx; [|assumption]; rewrite H; frames; eqb_all; auto]) ]).
  all: unfold cached in *; try rewrite Hk in *.
  all: repeat match goal with
       | X : true = true -> _ |- _ => specialize (X eq_refl)
       | X : _ /\ _ |- _ => destruct X
       end.
  all: try intros Hx.
  all: try solve [split; congruence | congruence | lia
                 | exfalso; (apply hasS_nheld in Hx || apply hasB_nheld in Hx); lia
                 | exfalso; (apply hasS_nheld in Hx || apply hasB_nheld in Hx); apply Huq in Hx; [congruence | lia]
                 | right; exists t; rewrite upd_same; cbn [t_stack t_ctx]; frames; eqb_all; split; congruence
                 | destruct (D _ H0) as [Hz|(u & Hcu & Hu)];
                   [ split; congruence
                   | exfalso; pose proof (hasS_nheld _ _ Hu) as Hu'; apply Huq in Hu';
                     [subst u; rewrite H in Hu; frames; eqb_all; apply hasS_nheld in Hu; lia | lia] ] ].
Qed.

Lemma cx_inv_reach C ctx_of st : reach C (init ctx_of) st -> cx_inv C st.
Proof.
  intros H.
  refine (proj2 (reach_ind_inv C (fun st => lock_inv C st /\ cx_inv C st) _ _ _ H (conj (lock_inv_init C ctx_of) (cx_inv_init C ctx_of)))).
  intros st0 t st1 (IL & IS) Hs. split; [eapply lock_inv_step | eapply cx_inv_step]; eauto.
Qed.

(** THEOREM 2b: a contextual service is constructed at most once PER CONTEXT, whatever the interleaving; exactly once if it is in that context's bag. *)
Theorem contextual_built_at_most_once C ctx_of st i c : reach C (init ctx_of) st -> kind C i = KContextual ->
  built_ctx st c i <= 1 /\ (ctx_cache st c i = true -> built_ctx st c i = 1).
Proof.
  intros Hr Hk. destruct (cx_inv_reach _ _ _ Hr i Hk) as (A & B & Cc & D). split; [|apply Cc].
  destruct (ctx_cache st c i) eqn:E.
  - rewrite Cc; auto.
  - destruct (D c E) as [Hz | (t & Hc & Ht)]; [lia|]. destruct (A t Ht) as [Hb _]. rewrite Hc in Hb. lia.
Qed.

Theorem contextual_phases C ctx_of st i t p : reach C (init ctx_of) st -> kind C i = KContextual ->
  In {| f_id := i; f_pc := p |} (stk st t) ->
  match p with
  | PDeps _ | PConstruct => built_ctx st (ctx_of t) i = 0 /\ ctx_cache st (ctx_of t) i = false
  | PStore => built_ctx st (ctx_of t) i = 1 /\ ctx_cache st (ctx_of t) i = false
  | _ => True
  end.
Proof.
  intros Hr Hk Hin. destruct (cx_inv_reach _ _ _ Hr i Hk) as (A & B & _ & _).
  rewrite <- (reach_ctx _ _ _ Hr t).
  destruct p; auto.
  - apply (B t). apply hasB_In. eauto.
  - apply (B t). apply hasB_In. eauto.
  - apply (A t). apply hasS_In. auto.
Qed.

(** the counters of the other kinds never move: [built] counts shared constructions only, [built_ctx] contextual ones only *)
Lemma built_other_kinds_step C st t st' i : step C st t st' ->
  (kind C i <> KShared -> built st' i = built st i) /\
  (kind C i <> KContextual -> forall c, built_ctx st' c i = built_ctx st c i) /\
  (kind C i <> KShared -> shared_cache st' i = shared_cache st i) /\
  (kind C i <> KContextual -> forall c, ctx_cache st' c i = ctx_cache st c i).
Proof.
  intros Hs. destruct Hs; cbn [built built_ctx shared_cache ctx_cache set_stack set_thread]; auto.
  - repeat split; auto; try subst c; intros Hk; try intros c'; destruct (kind C i0) eqn:E; auto.
    + apply upd_other. congruence.
    + apply upd2_other. right. congruence.
  - repeat split; auto; try subst c; intros Hk; try intros c'; destruct (kind C i0) eqn:E; auto.
    + apply upd_other. congruence.
    + apply upd2_other. right. congruence.
Qed.

(* ------------------------------------------------------------------------------------------------------------------ *)
(** * 3. Context isolation *)

(** THEOREM 3: a step of a thread attached to context [c] touches neither the bag nor the construction counters of any other context *)
Theorem ctx_isolation C st t st' c' i : step C st t st' -> c' <> t_ctx (threads st t) ->
  ctx_cache st' c' i = ctx_cache st c' i /\ built_ctx st' c' i = built_ctx st c' i.
Proof.
  intros Hs Hne. destruct Hs; cbn [built_ctx ctx_cache set_stack set_thread]; auto.
  - subst c. destruct (kind C i0); auto. split; auto. apply upd2_other. auto.
  - subst c. destruct (kind C i0); auto. split; auto. apply upd2_other. auto.
Qed.

(** lifted to runs: if no thread attached to [c'] moves, the bag and the counters of [c'] stay as they are.  Runs with the moving threads recorded: *)
Inductive reach_by (C : cfg) (P : tid -> Prop) : state -> state -> Prop :=
| RBRefl st : reach_by C P st st
| RBStep st t st1 st2 : P t -> step C st t st1 -> reach_by C P st1 st2 -> reach_by C P st st2.

Theorem ctx_isolation_run C c' st st' : reach_by C (fun t => t_ctx (threads st t) <> c') st st' ->
  forall i, ctx_cache st' c' i = ctx_cache st c' i /\ built_ctx st' c' i = built_ctx st c' i.
Proof.
  intros H. 
  assert (G : forall P st st', reach_by C P st st' -> (forall t, P t -> t_ctx (threads st t) <> c') ->
              forall i, ctx_cache st' c' i = ctx_cache st c' i /\ built_ctx st' c' i = built_ctx st c' i).
  { clear. intros P st st' H. induction H as [|st t st1 st2 Pt Hs Hr IH]; intros HP i; [auto|].
    destruct (ctx_isolation C st t st1 c' i Hs) as [E1 E2]; [intros E; apply (HP t Pt); auto|].
    destruct (IH (fun u Pu => ltac:(rewrite (step_ctx _ _ _ _ Hs u); exact (HP u Pu))) i) as [E3 E4].
    split; congruence. }
  apply (G _ _ _ H). auto.
Qed.

(** what a Get of a contextual service reads depends on the bag of the calling thread's context only ... *)
Theorem cached_contextual_only_own_bag C st1 st2 c i : kind C i = KContextual ->
  ctx_cache st1 c i = ctx_cache st2 c i -> cached C st1 c i = cached C st2 c i.
Proof. unfold cached. now intros ->. Qed.

(** ... and the hit/miss decision of thread [t] is taken on [cached C st (its own context) i]; the store of a contextual instance by thread [t] goes to the bag
    of [t]'s context (and, by [ctx_isolation], nowhere else) *)
Theorem store_goes_to_own_bag C st t st' i rest : step C st t st' -> kind C i = KContextual ->
  stk st t = {| f_id := i; f_pc := PStore |} :: rest ->
  ctx_cache st' (ctx st t) i = true /\ forall c' j, (c' <> ctx st t \/ j <> i) -> ctx_cache st' c' j = ctx_cache st c' j.
Proof.
  intros Hs Hk Hst. destruct Hs; rewrite Hst in H; try discriminate.
  injection H as -> ->. subst c. cbn [ctx_cache set_stack set_thread]. rewrite Hk. split.
  - apply upd2_same.
  - intros c' j Hne. apply upd2_other. exact Hne.
Qed.

(** caches only grow and counters never decrease *)
Lemma step_monotone C st t st' : step C st t st' -> forall i,
  (shared_cache st i = true -> shared_cache st' i = true) /\ (forall c, ctx_cache st c i = true -> ctx_cache st' c i = true) /\
  built st i <= built st' i /\ (forall c, built_ctx st c i <= built_ctx st' c i).
Proof.
  intros Hs i. destruct Hs; cbn [built built_ctx shared_cache ctx_cache set_stack set_thread]; auto.
  - subst c. repeat split; auto; try intros c'; destruct (kind C i0); auto; unfold upd, upd2; eqb_all; lia.
  - subst c. repeat split; auto; try intros c'; destruct (kind C i0); auto; unfold upd, upd2; eqb_all; auto.
Qed.

Theorem reach_monotone C st st' : reach C st st' -> forall i,
  (shared_cache st i = true -> shared_cache st' i = true) /\ (forall c, ctx_cache st c i = true -> ctx_cache st' c i = true) /\
  built st i <= built st' i /\ (forall c, built_ctx st c i <= built_ctx st' c i).
Proof.
  intros H. induction H as [|st t st1 st2 Hs Hr IH]; intros i; [repeat split; auto|].
  destruct (step_monotone _ _ _ _ Hs i) as (a1 & a2 & a3 & a4). destruct (IH i) as (b1 & b2 & b3 & b4).
  repeat split; auto. lia. intros c. specialize (a4 c). specialize (b4 c). lia.
Qed.

Lemma reach_trans C st1 st2 st3 : reach C st1 st2 -> reach C st2 st3 -> reach C st1 st3.
Proof. intros H. induction H; intros H3; [exact H3|]. eapply RStep; eauto. Qed.

(* ------------------------------------------------------------------------------------------------------------------ *)
(** * 5. Non-vacuity: a concrete run *)

(** service 0 is shared and depends on the contextual service 1; everything else is non-shared; thread [t] is attached to context [t] *)
Definition exC : cfg :=
  {| kind := fun i => match i with 0 => KShared | 1 => KContextual | _ => KNonShared end;
     deps := fun i => match i with 0 => [1] | _ => [] end |}.
Definition ex_ctx : tid -> cid := fun t => t.

Local Ltac norm := cbv [init ex_ctx set_stack set_thread locks shared_cache ctx_cache built built_ctx threads t_ctx t_stack needs_lock kind exC upd upd2 Nat.eqb andb].
Local Ltac stp t X := eapply RStep; [eapply (X exC _ t); reflexivity | norm].
Local Ltac call t i := eapply RStep; [eapply (StCall exC _ t i); reflexivity | norm].

(** thread 0 (context 0) gets service 0: it locks 0, misses, locks and builds the contextual 1 in the bag of context 0, then builds and stores 0 ([st1]);
    then thread 1 (context 1) gets service 0: it locks, finds it cached ([st2]) and takes the [StHit] branch, nothing is built again;
    finally thread 1 gets the contextual service 1 itself: it is built a second time, but in the bag of context 1 ([st3]). *)
Example example_trace : exists st1 st2 st3,
  reach exC (init ex_ctx) st1 /\
  (built st1 0 = 1 /\ shared_cache st1 0 = true /\ built_ctx st1 0 1 = 1 /\ ctx_cache st1 0 1 = true /\ stk st1 0 = [] /\ locks st1 0 = None) /\
  reach exC st1 st2 /\
  (stk st2 1 = [{| f_id := 0; f_pc := PCheck |}] /\ locks st2 0 = Some 1 /\ cached exC st2 (ctx st2 1) 0 = true) /\
  step exC st2 1 (set_stack st2 1 [{| f_id := 0; f_pc := PRelease |}]) /\
  reach exC (set_stack st2 1 [{| f_id := 0; f_pc := PRelease |}]) st3 /\
  (built st3 0 = 1 /\ built_ctx st3 0 1 = 1 /\ built_ctx st3 1 1 = 1 /\ ctx_cache st3 1 1 = true /\ built_ctx st3 2 1 = 0 /\
   stk st3 0 = [] /\ stk st3 1 = [] /\ locks st3 0 = None /\ locks st3 1 = None).
Proof.
  eexists. eexists. eexists.
  split; [|split; [|split; [|split; [|split; [|split]]]]].
  - call 0 0. stp 0 StAcquire. stp 0 StMiss. stp 0 StDep.
    stp 0 StAcquire. stp 0 StMiss. stp 0 StDepsDone. stp 0 StConstruct. stp 0 StStore. stp 0 StRelease.
    stp 0 StDepsDone. stp 0 StConstruct. stp 0 StStore. stp 0 StRelease. apply RRefl.
  - repeat split; reflexivity.
  - call 1 0. stp 1 StAcquire. apply RRefl.
  - repeat split; reflexivity.
  - eapply StHit; reflexivity.
  - stp 1 StRelease.
    call 1 1. stp 1 StAcquire. stp 1 StMiss. stp 1 StDepsDone. stp 1 StConstruct. stp 1 StStore. stp 1 StRelease. apply RRefl.
  - repeat split; reflexivity.
Qed.

Print Assumptions lock_discipline.
Print Assumptions shared_built_at_most_once.
Print Assumptions contextual_built_at_most_once.
Print Assumptions ctx_isolation.
Print Assumptions ctx_isolation_run.
Print Assumptions nonshared_no_lock.
Print Assumptions example_trace.
