(** Ordering and sorting lemmas: [str_ltb] is a strict total order, [sort_by] is a stable insertion sort
    producing a sorted permutation, and sorted outputs are canonical (depend only on the map contents). *)
From GV Require Import Base.Str Base.Sort.
From Coq Require Import Sorting.Sorted Sorting.Permutation Lia.

(** * 1. [str_ltb] is a strict total order *)

Lemma code_inj x y : code x = code y -> x = y.
Proof.
  unfold code; intros H. apply (f_equal ascii_of_N) in H.
  rewrite !ascii_N_embedding in H. exact H.
Qed.

Lemma str_ltb_cons x a y b :
  str_ltb (x :: a) (y :: b) =
  if N.ltb (code x) (code y) then true
  else if N.ltb (code y) (code x) then false else str_ltb a b.
Proof. reflexivity. Qed.

Lemma str_ltb_irrefl : forall a, str_ltb a a = false.
Proof.
  induction a as [|x a IH]; [reflexivity|].
  rewrite str_ltb_cons, N.ltb_irrefl. exact IH.
Qed.

Lemma str_ltb_trans : forall a b c, str_ltb a b = true -> str_ltb b c = true -> str_ltb a c = true.
Proof.
  induction a as [|x a IH]; intros [|y b] [|z c]; cbn [str_ltb]; intros H1 H2;
    try discriminate; try reflexivity.
  revert H1 H2.
  destruct (N.ltb_spec (code x) (code y)), (N.ltb_spec (code y) (code x)),
           (N.ltb_spec (code y) (code z)), (N.ltb_spec (code z) (code y)),
           (N.ltb_spec (code x) (code z)), (N.ltb_spec (code z) (code x));
    intros HA HB; try discriminate; try reflexivity; try lia.
  eapply IH; eassumption.
Qed.

Lemma str_ltb_trichotomy : forall a b, str_ltb a b = true \/ a = b \/ str_ltb b a = true.
Proof.
  induction a as [|x a IH]; intros [|y b]; cbn [str_ltb]; auto.
  destruct (N.ltb_spec (code x) (code y)) as [L1|L1]; [auto|].
  destruct (N.ltb_spec (code y) (code x)) as [L2|L2]; [auto|].
  assert (E : x = y) by (apply code_inj; lia). subst y.
  destruct (IH b) as [H|[H|H]]; [auto| subst b; auto | auto].
Qed.

Lemma str_ltb_asym : forall a b, str_ltb a b = true -> str_ltb b a = false.
Proof.
  intros a b H. destruct (str_ltb b a) eqn:E; [|reflexivity].
  rewrite <- (str_ltb_irrefl a). symmetry. eapply str_ltb_trans; eassumption.
Qed.

Lemma str_ltb_neq a b : str_ltb a b = true -> a <> b.
Proof. intros H ->. rewrite str_ltb_irrefl in H. discriminate. Qed.

(** the non-strict order [a <= b := str_ltb b a = false] *)
Lemma str_le_antisym a b : str_ltb a b = false -> str_ltb b a = false -> a = b.
Proof. intros H1 H2. destruct (str_ltb_trichotomy a b) as [H|[H|H]]; congruence. Qed.

Lemma str_le_trans a b c : str_ltb b a = false -> str_ltb c b = false -> str_ltb c a = false.
Proof.
  intros H1 H2. destruct (str_ltb c a) eqn:E; [|reflexivity].
  destruct (str_ltb_trichotomy a b) as [H|[H|H]].
  - rewrite (str_ltb_trans _ _ _ E H) in H2. discriminate.
  - subst b. congruence.
  - congruence.
Qed.

Lemma str_le_total a b : str_ltb a b = false \/ str_ltb b a = false.
Proof. destruct (str_ltb a b) eqn:E; [right; apply str_ltb_asym; exact E | left; reflexivity]. Qed.

Lemma str_leb_refl a : str_leb a a = true.
Proof. unfold str_leb. rewrite str_ltb_irrefl. reflexivity. Qed.

(** * 2. [sort_by] produces a permutation, for any comparison *)

Section Perm.
  Context {A : Type} (lt : A -> A -> bool).

  Lemma insert_by_perm x l : Permutation (insert_by lt x l) (x :: l).
  Proof.
    induction l as [|y l IH]; cbn [insert_by]; [apply Permutation_refl|].
    destruct (lt y x); [|apply Permutation_refl].
    eapply perm_trans; [apply perm_skip, IH | apply perm_swap].
  Qed.

  Lemma sort_by_perm l : Permutation (sort_by lt l) l.
  Proof.
    induction l as [|x l IH]; cbn [sort_by]; [constructor|].
    eapply perm_trans; [apply insert_by_perm | apply perm_skip, IH].
  Qed.

  Lemma In_insert_by x y l : In y (insert_by lt x l) <-> y = x \/ In y l.
  Proof.
    split; intros H.
    - apply (Permutation_in _ (insert_by_perm x l)) in H. destruct H; auto.
    - apply (Permutation_in _ (Permutation_sym (insert_by_perm x l))). destruct H; [left|right]; auto.
  Qed.

  Lemma In_sort_by y l : In y (sort_by lt l) <-> In y l.
  Proof.
    split; apply Permutation_in; [|apply Permutation_sym]; apply sort_by_perm.
  Qed.

  Lemma sort_by_length l : length (sort_by lt l) = length l.
  Proof. apply Permutation_length, sort_by_perm. Qed.
End Perm.

(** * 3. Generic sortedness, under the two hypotheses actually needed *)

Section Generic.
  Context {A : Type} (lt : A -> A -> bool).
  Definition le_of (a b : A) : Prop := lt b a = false.
  Hypothesis lt_asym : forall a b, lt a b = true -> lt b a = false.
  Hypothesis le_trans : forall a b c, le_of a b -> le_of b c -> le_of a c.

  Lemma insert_by_sorted_gen x l :
    StronglySorted le_of l -> StronglySorted le_of (insert_by lt x l).
  Proof.
    induction l as [|y l IH]; intros S; cbn [insert_by].
    - constructor; constructor.
    - inversion S as [|? ? S' F]; subst.
      destruct (lt y x) eqn:E.
      + constructor; [apply IH; exact S'|].
        rewrite Forall_forall in *. intros z Hz.
        apply In_insert_by in Hz. destruct Hz as [->|Hz]; [|apply F; exact Hz].
        apply lt_asym; exact E.
      + constructor; [exact S|].
        constructor; [exact E|].
        rewrite Forall_forall in *. intros z Hz.
        eapply le_trans; [exact E | apply F; exact Hz].
  Qed.

  Lemma sort_by_sorted_gen l : StronglySorted le_of (sort_by lt l).
  Proof.
    induction l as [|x l IH]; cbn [sort_by]; [constructor | apply insert_by_sorted_gen; exact IH].
  Qed.
End Generic.

(** sorting an already sorted list does nothing (no hypothesis on [lt]) *)
Section SortedId.
  Context {A : Type} (lt : A -> A -> bool).

  Lemma insert_by_head x l : Forall (le_of lt x) l -> insert_by lt x l = x :: l.
  Proof.
    destruct l as [|y l]; intros F; cbn [insert_by]; [reflexivity|].
    inversion F as [|? ? E F']; subst. unfold le_of in E. rewrite E. reflexivity.
  Qed.

  Lemma sort_by_sorted_id l : StronglySorted (le_of lt) l -> sort_by lt l = l.
  Proof.
    induction 1 as [|x l S IH F]; cbn [sort_by]; [reflexivity|].
    rewrite IH. apply insert_by_head; exact F.
  Qed.
End SortedId.

(** * 3'. The key order *)

Section Key.
  Context {A : Type} (key : A -> str).
  Definition klt (a b : A) : bool := str_ltb (key a) (key b).
  Definition kle (a b : A) : Prop := str_ltb (key b) (key a) = false.

  Theorem sort_by_sorted : forall l,
    StronglySorted (fun a b => str_ltb (key b) (key a) = false)
                   (sort_by (fun a b => str_ltb (key a) (key b)) l).
  Proof.
    intros l.
    apply (sort_by_sorted_gen (fun a b => str_ltb (key a) (key b))).
    - intros a b. apply str_ltb_asym.
    - intros a b c. unfold le_of. apply str_le_trans.
  Qed.

  (** * 4. Uniqueness of the sorted representative *)
  Theorem sorted_perm_unique : forall l l',
    StronglySorted (fun a b => str_ltb (key b) (key a) = false) l ->
    StronglySorted (fun a b => str_ltb (key b) (key a) = false) l' ->
    NoDup (map key l) -> Permutation l l' -> l = l'.
  Proof.
    induction l as [|a l IH]; intros l' S1 S2 ND P.
    - apply Permutation_nil in P. auto.
    - destruct l' as [|b l'].
      { apply Permutation_sym, Permutation_nil in P. discriminate. }
      inversion S1 as [|? ? S1' F1]; subst.
      inversion S2 as [|? ? S2' F2]; subst.
      cbn [map] in ND. inversion ND as [|? ? Hnin ND']; subst.
      assert (E : a = b).
      { assert (Ia : In a (b :: l')) by (eapply Permutation_in; [exact P | left; reflexivity]).
        assert (Ib : In b (a :: l))
          by (eapply Permutation_in; [apply Permutation_sym; exact P | left; reflexivity]).
        destruct Ia as [E|Ia]; [auto|]. destruct Ib as [E|Ib]; [auto|].
        exfalso. apply Hnin.
        rewrite Forall_forall in F1, F2.
        specialize (F1 _ Ib). specialize (F2 _ Ia). cbv beta in F1, F2.
        assert (Ek : key a = key b) by (apply str_le_antisym; assumption).
        rewrite Ek. apply in_map. exact Ib. }
      subst b. f_equal. apply IH; auto.
      eapply Permutation_cons_inv; exact P.
  Qed.

  Lemma sort_by_key_perm_eq l l' :
    Permutation l l' -> NoDup (map key l) ->
    sort_by (fun a b => str_ltb (key a) (key b)) l = sort_by (fun a b => str_ltb (key a) (key b)) l'.
  Proof.
    intros P ND. apply sorted_perm_unique.
    - apply sort_by_sorted.
    - apply sort_by_sorted.
    - eapply Permutation_NoDup; [|exact ND].
      apply Permutation_map, Permutation_sym, sort_by_perm.
    - eapply perm_trans; [apply sort_by_perm|].
      eapply perm_trans; [exact P|]. apply Permutation_sym, sort_by_perm.
  Qed.

  (** mapping the key function commutes with sorting *)
  Lemma map_insert_by_key x l :
    map key (insert_by (fun a b => str_ltb (key a) (key b)) x l) = insert_by str_ltb (key x) (map key l).
  Proof.
    induction l as [|y l IH]; cbn [insert_by map]; [reflexivity|].
    destruct (str_ltb (key y) (key x)); cbn [map]; [rewrite IH|]; reflexivity.
  Qed.

  Lemma map_sort_by_key l :
    map key (sort_by (fun a b => str_ltb (key a) (key b)) l) = sort_by str_ltb (map key l).
  Proof.
    induction l as [|x l IH]; cbn [sort_by map]; [reflexivity|].
    rewrite map_insert_by_key, IH. reflexivity.
  Qed.
End Key.

(** ** [sort_strs] *)

Lemma sort_strs_key l : sort_strs l = sort_by (fun a b => str_ltb ((fun x : str => x) a) ((fun x : str => x) b)) l.
Proof. reflexivity. Qed.

Lemma sort_strs_perm l : Permutation (sort_strs l) l.
Proof. apply sort_by_perm. Qed.

Lemma In_sort_strs x l : In x (sort_strs l) <-> In x l.
Proof. apply In_sort_by. Qed.

Lemma sort_strs_sorted l : StronglySorted (fun a b => str_ltb b a = false) (sort_strs l).
Proof. rewrite sort_strs_key. apply (sort_by_sorted (fun x : str => x)). Qed.

Lemma sort_strs_NoDup l : NoDup l -> NoDup (sort_strs l).
Proof. apply Permutation_NoDup, Permutation_sym, sort_strs_perm. Qed.

(** with distinct elements the output is strictly increasing *)
Lemma sort_strs_strict l : NoDup l -> StronglySorted (fun a b => str_ltb a b = true) (sort_strs l).
Proof.
  intros ND. apply sort_strs_NoDup in ND. pose proof (sort_strs_sorted l) as S.
  induction S as [|x r S IH F]; [constructor|].
  inversion ND as [|? ? Hnin ND']; subst.
  constructor; [apply IH; exact ND'|].
  rewrite Forall_forall in *. intros y Hy.
  destruct (str_ltb_trichotomy x y) as [H|[H|H]]; [exact H | subst y; contradiction |].
  rewrite (F _ Hy) in H. discriminate.
Qed.

Theorem sort_strs_perm_eq : forall l l', Permutation l l' -> NoDup l -> sort_strs l = sort_strs l'.
Proof.
  intros l l' P ND. rewrite !sort_strs_key.
  apply sort_by_key_perm_eq; [exact P|]. rewrite map_id. exact ND.
Qed.

(** * 6. sorting a strictly increasing list is the identity *)

Theorem sort_strs_sorted_id : forall l,
  StronglySorted (fun a b => str_ltb a b = true) l -> sort_strs l = l.
Proof.
  intros l S. apply sort_by_sorted_id.
  induction S as [|x l S IH F]; constructor; [exact IH|].
  rewrite Forall_forall in *. intros y Hy. apply str_ltb_asym, F, Hy.
Qed.

(** the same with the local [Sorted] predicate (adjacent elements only) *)
Lemma sort_strs_Sorted_id l : Sorted (fun a b => str_ltb a b = true) l -> sort_strs l = l.
Proof.
  intros S. apply sort_strs_sorted_id. apply Sorted_StronglySorted; [|exact S].
  intros a b c. apply str_ltb_trans.
Qed.

(** non-decreasing is enough as well *)
Lemma sort_strs_le_sorted_id l : StronglySorted (fun a b => str_ltb b a = false) l -> sort_strs l = l.
Proof. apply sort_by_sorted_id. Qed.

Lemma sort_strs_idem l : sort_strs (sort_strs l) = sort_strs l.
Proof. apply sort_strs_le_sorted_id, sort_strs_sorted. Qed.

(** * 5. Association lists *)

Definition map_eq {A} (m m' : list (str * A)) := forall k, lookup k m = lookup k m'.

Section Assoc.
  Context {A : Type}.
  Implicit Types m : list (str * A).

  Lemma keys_cons k (v : A) m : keys ((k, v) :: m) = k :: keys m.
  Proof. reflexivity. Qed.

  Lemma lookup_cons k k' (v : A) m :
    lookup k ((k', v) :: m) = if str_eqb k k' then Some v else lookup k m.
  Proof. reflexivity. Qed.

  Lemma lookup_In k v m : lookup k m = Some v -> In (k, v) m.
  Proof.
    induction m as [|[k' v'] m IH]; [discriminate|].
    rewrite lookup_cons. destruct (str_eqb_spec k k') as [->|Hn]; intros H.
    - injection H as ->. left; reflexivity.
    - right; auto.
  Qed.

  Lemma In_keys k v m : In (k, v) m -> In k (keys m).
  Proof. intros H. change k with (fst (k, v)). apply in_map. exact H. Qed.

  Lemma In_lookup k v m : NoDup (keys m) -> In (k, v) m -> lookup k m = Some v.
  Proof.
    induction m as [|[k' v'] m IH]; intros ND HI; [destruct HI|].
    rewrite keys_cons in ND. inversion ND as [|? ? Hnin ND']; subst.
    rewrite lookup_cons. destruct HI as [E|HI].
    - injection E as -> ->. rewrite str_eqb_refl. reflexivity.
    - destruct (str_eqb_spec k k') as [->|Hn].
      + exfalso. apply Hnin. eapply In_keys; exact HI.
      + apply IH; assumption.
  Qed.

  Lemma In_lookup_iff k v m : NoDup (keys m) -> (In (k, v) m <-> lookup k m = Some v).
  Proof. intros ND; split; [apply In_lookup; exact ND | apply lookup_In]. Qed.

  Lemma lookup_None k m : lookup k m = None <-> ~ In k (keys m).
  Proof.
    induction m as [|[k' v'] m IH]; [split; auto|].
    rewrite lookup_cons, keys_cons. destruct (str_eqb_spec k k') as [->|Hn].
    - split; [discriminate|]. intros H; exfalso; apply H; left; reflexivity.
    - rewrite IH. split; intros H; [intros [E|I]; [congruence|auto] | intros I; apply H; right; exact I].
  Qed.

  Lemma NoDup_keys_NoDup m : NoDup (keys m) -> NoDup m.
  Proof. apply NoDup_map_inv. Qed.

  Lemma map_eq_perm m m' : NoDup (keys m) -> NoDup (keys m') -> map_eq m m' -> Permutation m m'.
  Proof.
    intros ND ND' E. apply NoDup_Permutation; try (apply NoDup_keys_NoDup; assumption).
    intros [k v]. rewrite (In_lookup_iff k v m ND), (In_lookup_iff k v m' ND'), (E k). reflexivity.
  Qed.

  Lemma perm_map_eq m m' : Permutation m m' -> NoDup (keys m) -> map_eq m m'.
  Proof.
    intros P ND k.
    assert (ND' : NoDup (keys m')) by (eapply Permutation_NoDup; [apply Permutation_map; exact P | exact ND]).
    destruct (lookup k m) as [v|] eqn:E1.
    - symmetry. apply In_lookup; [exact ND'|]. eapply Permutation_in; [exact P|]. apply lookup_In; exact E1.
    - destruct (lookup k m') as [v|] eqn:E2; [|reflexivity].
      rewrite <- E1. apply In_lookup; [exact ND|].
      eapply Permutation_in; [apply Permutation_sym; exact P|]. apply lookup_In; exact E2.
  Qed.

  Lemma map_eq_refl m : map_eq m m.
  Proof. intros k; reflexivity. Qed.
  Lemma map_eq_sym m m' : map_eq m m' -> map_eq m' m.
  Proof. intros H k; symmetry; apply H. Qed.
  Lemma map_eq_trans m1 m2 m3 : map_eq m1 m2 -> map_eq m2 m3 -> map_eq m1 m3.
  Proof. intros H1 H2 k; rewrite H1; apply H2. Qed.

  (** ** [sorted_entries] *)

  Lemma sorted_entries_perm m : Permutation (sorted_entries m) m.
  Proof. apply sort_by_perm. Qed.

  Lemma In_sorted_entries x m : In x (sorted_entries m) <-> In x m.
  Proof. apply In_sort_by. Qed.

  Lemma sorted_entries_length m : length (sorted_entries m) = length m.
  Proof. apply sort_by_length. Qed.

  Lemma sorted_entries_sorted m :
    StronglySorted (fun a b : str * A => str_ltb (fst b) (fst a) = false) (sorted_entries m).
  Proof. apply (sort_by_sorted (@fst str A)). Qed.

  (** holds without any [NoDup] hypothesis *)
  Lemma keys_sorted_entries m : keys (sorted_entries m) = sorted_keys m.
  Proof. apply (map_sort_by_key (@fst str A)). Qed.

  Lemma sorted_keys_perm m : Permutation (sorted_keys m) (keys m).
  Proof. apply sort_strs_perm. Qed.

  Lemma In_sorted_keys k m : In k (sorted_keys m) <-> In k (keys m).
  Proof. apply In_sort_strs. Qed.

  Lemma sorted_keys_NoDup m : NoDup (keys m) -> NoDup (sorted_keys m).
  Proof. apply sort_strs_NoDup. Qed.

  Lemma keys_sorted_entries_NoDup m : NoDup (keys m) -> NoDup (keys (sorted_entries m)).
  Proof. rewrite keys_sorted_entries. apply sorted_keys_NoDup. Qed.

  Lemma sorted_keys_sorted m : StronglySorted (fun a b => str_ltb b a = false) (sorted_keys m).
  Proof. apply sort_strs_sorted. Qed.

  Lemma sorted_keys_strict m : NoDup (keys m) -> StronglySorted (fun a b => str_ltb a b = true) (sorted_keys m).
  Proof. apply sort_strs_strict. Qed.

  Theorem sorted_entries_perm_eq m m' :
    Permutation m m' -> NoDup (keys m) -> sorted_entries m = sorted_entries m'.
  Proof. intros P ND. apply (sort_by_key_perm_eq (@fst str A)); assumption. Qed.

  Theorem sorted_entries_map_eq m m' :
    NoDup (keys m) -> NoDup (keys m') -> map_eq m m' -> sorted_entries m = sorted_entries m'.
  Proof.
    intros ND ND' E. apply sorted_entries_perm_eq; [|exact ND]. apply map_eq_perm; assumption.
  Qed.

  Theorem sorted_keys_map_eq m m' :
    NoDup (keys m) -> NoDup (keys m') -> map_eq m m' -> sorted_keys m = sorted_keys m'.
  Proof.
    intros ND ND' E. rewrite <- !keys_sorted_entries.
    rewrite (sorted_entries_map_eq m m' ND ND' E). reflexivity.
  Qed.

  (** the insertion sort is stable, hence [lookup] (first match) is preserved even with duplicate keys *)
  Lemma lookup_insert_by k (x : str * A) m :
    lookup k (insert_by (fun a b => str_ltb (fst a) (fst b)) x m) = lookup k (x :: m).
  Proof.
    destruct x as [kx vx].
    induction m as [|[ky vy] m IH]; cbn [insert_by]; [reflexivity|].
    cbn [fst]. destruct (str_ltb ky kx) eqn:E; [|reflexivity].
    rewrite lookup_cons, IH, !lookup_cons.
    destruct (str_eqb_spec k ky) as [->|Hy]; [|reflexivity].
    destruct (str_eqb_spec ky kx) as [->|Hx]; [|reflexivity].
    rewrite str_ltb_irrefl in E. discriminate.
  Qed.

  Lemma lookup_sorted_entries_gen m k : lookup k (sorted_entries m) = lookup k m.
  Proof.
    unfold sorted_entries.
    induction m as [|[kx vx] m IH]; cbn [sort_by]; [reflexivity|].
    rewrite lookup_insert_by, !lookup_cons, IH. reflexivity.
  Qed.

  Theorem lookup_sorted_entries m k : NoDup (keys m) -> lookup k (sorted_entries m) = lookup k m.
  Proof. intros _. apply lookup_sorted_entries_gen. Qed.

  Lemma sorted_entries_map_eq_self m : map_eq (sorted_entries m) m.
  Proof. intros k. apply lookup_sorted_entries_gen. Qed.

  Theorem sorted_entries_idem m : sorted_entries (sorted_entries m) = sorted_entries m.
  Proof. apply sort_by_sorted_id. apply sorted_entries_sorted. Qed.

  (** an already key-sorted association list is its own [sorted_entries] *)
  Lemma sorted_entries_sorted_id m :
    StronglySorted (fun a b : str * A => str_ltb (fst b) (fst a) = false) m -> sorted_entries m = m.
  Proof. apply sort_by_sorted_id. Qed.

  (** converse of [sorted_entries_map_eq] *)
  Lemma sorted_entries_eq_map_eq m m' : sorted_entries m = sorted_entries m' -> map_eq m m'.
  Proof.
    intros E k. rewrite <- (lookup_sorted_entries_gen m), <- (lookup_sorted_entries_gen m'), E. reflexivity.
  Qed.
End Assoc.

Print Assumptions sorted_entries_map_eq.
Print Assumptions sort_by_sorted.
Print Assumptions str_ltb_trans.
Print Assumptions sorted_perm_unique.
Print Assumptions lookup_sorted_entries.
Print Assumptions sort_strs_sorted_id.
