(** Audited inventory of the constructs the determinism (C08) and totality (C12) arguments rest on.  Gen/Sites.v is regenerated
    from the current tree by harness/gotools/sitestool (type-checked with go/packages); the lists below are the audited ones.  A new,
    removed or textually changed site breaks the lemma of its kind and must be audited again (harness/vlib/gen.py site_id:
    package, function, hash of the normalised source text of the construct).  Justifications: Tie/SITES_AUDIT.md. *)
From GV Require Import Base.Str Gen.Sites.
From Coq Require Import List.
Import ListNotations.

Definition audited_map_range_sites : list str := [(s "/internal/pkg/imports|*imports.Imports|29345f67e66f");
  (s "/internal/pkg/input|init|f73f05d536c1");
  (s "/internal/pkg/input|mergeMap|844e74823e0f");
  (s "/internal/pkg/maps|Keys|370d55655c33")].

(** every iteration over a Go map in the sources is one of the audited, order-insensitive ones *)
Lemma map_range_sites_audited : map_range_sites = audited_map_range_sites.
Proof. reflexivity. Qed.

(** the sources read nothing but their inputs: no clock, randomness, environment, host, goroutine or select *)
Lemma no_ambient_sites : ambient_sites = [].
Proof. reflexivity. Qed.

