(** Every compiled regular expression of /repo (regenerated into Gen/RegexSrc.v from the live *regexp.Regexp values)
    denotes exactly the documented language of Regex/Langs.v, is anchored as expected and has the expected capture
    names.  Each lemma is discharged by running the verified certificate checker ([equiv_check_sound]). *)
From GV Require Import Base.Str Regex.Re Proofs.RegexProofs Regex.Equiv Regex.Langs Gen.RegexSrc.

Definition fuel : nat := 4000.

Ltac tie := vm_compute; reflexivity.

Lemma tie_input_ServiceName : equiv_check fuel (site_re site_input_ServiceName) yaml_token = true /\ site_end site_input_ServiceName = true. Proof. split; tie. Qed.
Lemma tie_input_ServiceGetter : equiv_check fuel (site_re site_input_ServiceGetter) go_token = true /\ site_end site_input_ServiceGetter = true. Proof. split; tie. Qed.
Lemma tie_input_ServiceType : equiv_check fuel (site_re site_input_ServiceType) service_type = true /\ site_end site_input_ServiceType = true. Proof. split; tie. Qed.
Lemma tie_input_ServiceValue : equiv_check fuel (site_re site_input_ServiceValue) service_value = true /\ site_end site_input_ServiceValue = true. Proof. split; tie. Qed.
Lemma tie_input_ServiceConstructor : equiv_check fuel (site_re site_input_ServiceConstructor) go_func = true /\ site_end site_input_ServiceConstructor = true. Proof. split; tie. Qed.
Lemma tie_input_ServiceCallName : equiv_check fuel (site_re site_input_ServiceCallName) go_token = true /\ site_end site_input_ServiceCallName = true. Proof. split; tie. Qed.
Lemma tie_input_ServiceFieldName : equiv_check fuel (site_re site_input_ServiceFieldName) go_token = true /\ site_end site_input_ServiceFieldName = true. Proof. split; tie. Qed.
Lemma tie_input_ServiceTag : equiv_check fuel (site_re site_input_ServiceTag) yaml_token = true /\ site_end site_input_ServiceTag = true. Proof. split; tie. Qed.
Lemma tie_input_ParamName : equiv_check fuel (site_re site_input_ParamName) yaml_token = true /\ site_end site_input_ParamName = true. Proof. split; tie. Qed.
Lemma tie_input_DecoratorsTag : equiv_check fuel (site_re site_input_DecoratorsTag) decorator_tag = true /\ site_end site_input_DecoratorsTag = true. Proof. split; tie. Qed.
Lemma tie_input_DecoratorMethod : equiv_check fuel (site_re site_input_DecoratorMethod) go_func = true /\ site_end site_input_DecoratorMethod = true. Proof. split; tie. Qed.
Lemma tie_input_MetaPkg : equiv_check fuel (site_re site_input_MetaPkg) go_token = true /\ site_end site_input_MetaPkg = true. Proof. split; tie. Qed.
Lemma tie_input_MetaContainerType : equiv_check fuel (site_re site_input_MetaContainerType) go_token = true /\ site_end site_input_MetaContainerType = true. Proof. split; tie. Qed.
Lemma tie_input_MetaContainerConstructor : equiv_check fuel (site_re site_input_MetaContainerConstructor) go_token = true /\ site_end site_input_MetaContainerConstructor = true. Proof. split; tie. Qed.
Lemma tie_input_MetaImport : equiv_check fuel (site_re site_input_MetaImport) import = true /\ site_end site_input_MetaImport = true. Proof. split; tie. Qed.
Lemma tie_input_MetaImportAlias : equiv_check fuel (site_re site_input_MetaImportAlias) yaml_token = true /\ site_end site_input_MetaImportAlias = true. Proof. split; tie. Qed.
Lemma tie_input_MetaFn : equiv_check fuel (site_re site_input_MetaFn) go_token = true /\ site_end site_input_MetaFn = true. Proof. split; tie. Qed.
Lemma tie_input_MetaGoFn : equiv_check fuel (site_re site_input_MetaGoFn) go_func = true /\ site_end site_input_MetaGoFn = true. Proof. split; tie. Qed.
Lemma tie_compiler_DecoratorMethod : equiv_check fuel (site_re site_compiler_DecoratorMethod) go_func = true /\ site_end site_compiler_DecoratorMethod = true. Proof. split; tie. Qed.
Lemma tie_compiler_MetaGoFn : equiv_check fuel (site_re site_compiler_MetaGoFn) go_func = true /\ site_end site_compiler_MetaGoFn = true. Proof. split; tie. Qed.
Lemma tie_compiler_ServiceType : equiv_check fuel (site_re site_compiler_ServiceType) service_type = true /\ site_end site_compiler_ServiceType = true. Proof. split; tie. Qed.
Lemma tie_compiler_ServiceConstructor : equiv_check fuel (site_re site_compiler_ServiceConstructor) go_func = true /\ site_end site_compiler_ServiceConstructor = true. Proof. split; tie. Qed.
Lemma tie_syntax_ServiceValue : equiv_check fuel (site_re site_syntax_ServiceValue) service_value = true /\ site_end site_syntax_ServiceValue = true. Proof. split; tie. Qed.
Lemma tie_resolver_servicePrefix : equiv_check fuel (site_re site_resolver_servicePrefix) prefix_service = true /\ site_end site_resolver_servicePrefix = false. Proof. split; tie. Qed.
Lemma tie_resolver_service : equiv_check fuel (site_re site_resolver_service) arg_service = true /\ site_end site_resolver_service = true. Proof. split; tie. Qed.
Lemma tie_resolver_taggedPrefix : equiv_check fuel (site_re site_resolver_taggedPrefix) prefix_tagged = true /\ site_end site_resolver_taggedPrefix = false. Proof. split; tie. Qed.
Lemma tie_resolver_tagged : equiv_check fuel (site_re site_resolver_tagged) arg_tagged = true /\ site_end site_resolver_tagged = true. Proof. split; tie. Qed.
Lemma tie_resolver_valuePrefix : equiv_check fuel (site_re site_resolver_valuePrefix) prefix_value = true /\ site_end site_resolver_valuePrefix = false. Proof. split; tie. Qed.
Lemma tie_resolver_value : equiv_check fuel (site_re site_resolver_value) arg_value = true /\ site_end site_resolver_value = true. Proof. split; tie. Qed.
Lemma tie_token_TokenRef : equiv_check fuel (site_re site_token_TokenRef) yaml_token = true /\ site_end site_token_TokenRef = true. Proof. split; tie. Qed.
Lemma tie_token_SimpleFn : equiv_check fuel (site_re site_token_SimpleFn) simple_fn = true /\ site_end site_token_SimpleFn = true. Proof. split; tie. Qed.

(** the replacement regexp of the alias table is the class Model/Imports.sanitize implements *)
Lemma tie_imports_NoAlphaNum :
  site_re site_imports_NoAlphaNum = Cls [(0,47);(58,64);(91,96);(123,1114111)]%N.
Proof. reflexivity. Qed.

(** capture names used by the model exist in the regenerated sites *)
Lemma tie_capture_names :
  map fst (site_names site_compiler_MetaGoFn) = [s "import"; s "fn"] /\
  map fst (site_names site_compiler_ServiceConstructor) = [s "import"; s "fn"] /\
  map fst (site_names site_compiler_DecoratorMethod) = [s "import"; s "fn"] /\
  map fst (site_names site_compiler_ServiceType) = [s "ptr"; s "import"; s "type"] /\
  map fst (site_names site_syntax_ServiceValue) = [s "v1"; s "ptr"; s "import"; s "value"; s "v2"; s "ptr2"; s "import2"; s "struct2"] /\
  map fst (site_names site_resolver_service) = [s "service"] /\
  map fst (site_names site_resolver_tagged) = [s "tag"] /\
  map fst (site_names site_resolver_value) = [s "argval"; s "v1"; s "ptr"; s "import"; s "value"; s "v2"; s "ptr2"; s "import2"; s "struct2"] /\
  map fst (site_names site_token_SimpleFn) = [s "fn"; s "params"].
Proof. repeat split; reflexivity. Qed.
