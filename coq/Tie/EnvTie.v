(** The regenerated environment (Gen/EnvGen.v, produced from the live objects of /repo on every run) has the wiring
    and the printer constants the generic theorems are stated for. *)
From GV Require Import Base.Str Model.Env Spec.Pipeline Gen.EnvGen.

Lemma the_env_std : std_env the_env.
Proof. constructor; reflexivity. Qed.

(** decorator arguments are resolved by the same chain as service arguments (the model has one [w_arg_chain]) *)
Lemma deco_chain_is_arg_chain : deco_arg_chain = w_arg_chain the_env.
Proof. reflexivity. Qed.
