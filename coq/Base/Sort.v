(** Sorting by the byte order of Go strings (sort.Strings, maps.Keys, sort.SliceStable). Stable insertion sort. *)
From GV Require Import Base.Str.

Section Ins.
  Context {A : Type} (lt : A -> A -> bool).
  (** insert x before the first element that is not smaller than x: equal elements keep their order *)
  Fixpoint insert_by (x : A) (l : list A) : list A :=
    match l with
    | [] => [x]
    | y :: l' => if lt y x then y :: insert_by x l' else x :: l
    end.
  Fixpoint sort_by (l : list A) : list A :=
    match l with
    | [] => []
    | x :: l' => insert_by x (sort_by l')
    end.
End Ins.

Definition sort_strs (l : list str) : list str := sort_by str_ltb l.

(** maps.Keys: sorted keys of a Go map (an association list in arbitrary order) *)
Definition sorted_keys {A} (m : list (str * A)) : list str := sort_strs (keys m).

(** maps.Iterate: entries in key order *)
Definition sorted_entries {A} (m : list (str * A)) : list (str * A) :=
  sort_by (fun a b => str_ltb (fst a) (fst b)) m.
