(** Go strings as byte lists.  [ascii] is exactly one byte, so no well-formedness side condition is needed. *)
From Coq Require Export Ascii String.
From Coq Require Export List NArith ZArith Bool Lia.
Export ListNotations.
Open Scope list_scope.

Definition str := list ascii.

(** literals: [(s "abc")] *)
Definition s (x : string) : str := list_ascii_of_string x.
Definition to_string (x : str) : string := string_of_list_ascii x.
(** raw byte lists, used by the harness for non-printable data *)
Definition bs (l : list N) : str := map ascii_of_N l.

Definition code (c : ascii) : N := N_of_ascii c.

Definition ch (n : N) : ascii := ascii_of_N n.

Definition ascii_eqb := Ascii.eqb.

Fixpoint str_eqb (a b : str) : bool :=
  match a, b with
  | [], [] => true
  | x :: a', y :: b' => Ascii.eqb x y && str_eqb a' b'
  | _, _ => false
  end.

Lemma str_eqb_spec a b : reflect (a = b) (str_eqb a b).
Proof.
  revert b; induction a as [|x a IH]; intros [|y b]; simpl; try (constructor; congruence).
  destruct (Ascii.eqb_spec x y) as [->|Hn]; simpl.
  - destruct (IH b) as [->|Hn]; constructor; congruence.
  - constructor; congruence.
Qed.

Lemma str_eqb_eq a b : str_eqb a b = true <-> a = b.
Proof. destruct (str_eqb_spec a b); split; congruence. Qed.

Lemma str_eqb_refl a : str_eqb a a = true.
Proof. apply str_eqb_eq; reflexivity. Qed.

Lemma str_eqb_neq a b : str_eqb a b = false <-> a <> b.
Proof. destruct (str_eqb_spec a b); split; congruence. Qed.

Lemma str_eqb_sym a b : str_eqb a b = str_eqb b a.
Proof. destruct (str_eqb_spec a b), (str_eqb_spec b a); congruence. Qed.

Definition str_eq_dec (a b : str) : {a = b} + {a <> b}.
Proof. destruct (str_eqb_spec a b); [left|right]; assumption. Defined.

(** Go's [<] on strings: byte-wise lexicographic *)
Fixpoint str_ltb (a b : str) : bool :=
  match a, b with
  | [], [] => false
  | [], _ :: _ => true
  | _ :: _, [] => false
  | x :: a', y :: b' =>
      if N.ltb (code x) (code y) then true
      else if N.ltb (code y) (code x) then false
      else str_ltb a' b'
  end.

Definition str_leb (a b : str) : bool := negb (str_ltb b a).

Fixpoint has_prefix (p x : str) : bool :=
  match p, x with
  | [], _ => true
  | c :: p', d :: x' => Ascii.eqb c d && has_prefix p' x'
  | _ :: _, [] => false
  end.

Definition has_suffix (p x : str) : bool := has_prefix (rev p) (rev x).

Fixpoint drop_prefix (p x : str) : str :=
  match p, x with
  | [], _ => x
  | _ :: p', _ :: x' => drop_prefix p' x'
  | _ :: _, [] => []
  end.

Definition trim_prefix (p x : str) : str := if has_prefix p x then drop_prefix p x else x.

Fixpoint join (sep : str) (l : list str) : str :=
  match l with
  | [] => []
  | [x] => x
  | x :: rest => x ++ sep ++ join sep rest
  end.

Fixpoint mem (x : str) (l : list str) : bool :=
  match l with
  | [] => false
  | y :: l' => str_eqb x y || mem x l'
  end.

Lemma mem_In x l : mem x l = true <-> In x l.
Proof.
  induction l as [|y l IH]; simpl; [split; [discriminate|tauto]|].
  rewrite orb_true_iff, IH, str_eqb_eq. split; intros [H|H]; auto.
Qed.

Lemma mem_app x l1 l2 : mem x (l1 ++ l2) = mem x l1 || mem x l2.
Proof. induction l1 as [|y l1 IH]; simpl; [reflexivity|]. rewrite IH, orb_assoc; reflexivity. Qed.

(** decimal and hexadecimal printing *)
Definition digit_char (d : N) : ascii := ch (48 + d).
Definition hex_char (d : N) : ascii := if N.ltb d 10 then ch (48 + d) else ch (87 + d).

Fixpoint dec_pos_fuel (fuel : nat) (n : N) (acc : str) : str :=
  match fuel with
  | O => acc
  | S f => if N.ltb n 10 then digit_char n :: acc
           else dec_pos_fuel f (N.div n 10) (digit_char (N.modulo n 10) :: acc)
  end.

(** [N.size_nat n] bits is more than enough decimal digits *)
Definition dec_of_N (n : N) : str := dec_pos_fuel (S (N.size_nat n)) n [].

Definition dec_of_Z (z : Z) : str :=
  match z with
  | Z0 => s "0"
  | Zpos p => dec_of_N (Npos p)
  | Zneg p => "-"%char :: dec_of_N (Npos p)
  end.

Fixpoint hex_fuel (fuel : nat) (n : N) (acc : str) : str :=
  match fuel with
  | O => acc
  | S f => if N.ltb n 16 then hex_char n :: acc
           else hex_fuel f (N.div n 16) (hex_char (N.modulo n 16) :: acc)
  end.

Definition hex_of_N (n : N) : str := hex_fuel (S (N.size_nat n)) n [].

(** fixed-width lower-case hex, [w] digits *)
Fixpoint hex_fixed (w : nat) (n : N) : str :=
  match w with
  | O => []
  | S w' => hex_fixed w' (N.div n 16) ++ [hex_char (N.modulo n 16)]
  end.

Definition is_digit (c : ascii) : bool := N.leb 48 (code c) && N.leb (code c) 57.
Definition is_upper (c : ascii) : bool := N.leb 65 (code c) && N.leb (code c) 90.
Definition is_lower (c : ascii) : bool := N.leb 97 (code c) && N.leb (code c) 122.
Definition is_alpha (c : ascii) : bool := is_upper c || is_lower c.
Definition is_alnum (c : ascii) : bool := is_alpha c || is_digit c.

Fixpoint repeat_str (x : str) (n : nat) : str :=
  match n with O => [] | S n' => x ++ repeat_str x n' end.

(** split on a single byte *)
Fixpoint split_on_aux (sep : ascii) (x : str) (cur : str) : list str :=
  match x with
  | [] => [rev cur]
  | c :: x' => if Ascii.eqb c sep then rev cur :: split_on_aux sep x' [] else split_on_aux sep x' (c :: cur)
  end.
Definition split_on (sep : ascii) (x : str) : list str := split_on_aux sep x [].

Definition last_or {A} (l : list A) (d : A) : A := List.last l d.

(** trimming a set of bytes from both ends (strings.Trim with a one-byte cutset) *)
Fixpoint trim_left (c : ascii) (x : str) : str :=
  match x with
  | d :: x' => if Ascii.eqb c d then trim_left c x' else x
  | [] => []
  end.
Definition trim_both (c : ascii) (x : str) : str := rev (trim_left c (rev (trim_left c x))).

(** association lists with string keys *)
Fixpoint lookup {A} (k : str) (m : list (str * A)) : option A :=
  match m with
  | [] => None
  | (k', v) :: m' => if str_eqb k k' then Some v else lookup k m'
  end.

Definition keys {A} (m : list (str * A)) : list str := map fst m.
