(** Go's UTF-8 decoding and strconv.QuoteToASCII (the %+q verb), as used by every diagnostic and by exporter.Export. *)
From GV Require Import Base.Str.
Local Open Scope N_scope.

Definition inr_ (lo hi : N) (c : ascii) : bool := N.leb lo (code c) && N.leb (code c) hi.
Definition cont (c : ascii) : bool := inr_ 128 191 c.
Definition low6 (c : ascii) : N := N.land (code c) 63.

(** utf8.DecodeRuneInString: [Some (rune, width)] for a well-formed sequence, [None] for RuneError of width 1 *)
Definition decode_rune (x : str) : option (N * nat) :=
  match x with
  | [] => None
  | b0 :: t =>
    let n0 := code b0 in
    if N.ltb n0 128 then Some (n0, 1%nat)
    else if inr_ 194 223 b0 then
      match t with
      | b1 :: _ => if cont b1 then Some (N.lor (N.shiftl (N.land n0 31) 6) (low6 b1), 2%nat) else None
      | _ => None
      end
    else if inr_ 224 239 b0 then
      match t with
      | b1 :: b2 :: _ =>
        let lo := if N.eqb n0 224 then 160 else 128 in
        let hi := if N.eqb n0 237 then 159 else 191 in
        if inr_ lo hi b1 && cont b2
        then Some (N.lor (N.lor (N.shiftl (N.land n0 15) 12) (N.shiftl (low6 b1) 6)) (low6 b2), 3%nat)
        else None
      | _ => None
      end
    else if inr_ 240 244 b0 then
      match t with
      | b1 :: b2 :: b3 :: _ =>
        let lo := if N.eqb n0 240 then 144 else 128 in
        let hi := if N.eqb n0 244 then 143 else 191 in
        if inr_ lo hi b1 && cont b2 && cont b3
        then Some (N.lor (N.lor (N.lor (N.shiftl (N.land n0 7) 18) (N.shiftl (low6 b1) 12)) (N.shiftl (low6 b2) 6)) (low6 b3), 4%nat)
        else None
      | _ => None
      end
    else None
  end.

(** strconv.appendEscapedRune with the double quote as quote character and ASCIIonly = true *)
Definition escape_rune (r : N) : str :=
  if N.eqb r 34 then s "\"""
  else if N.eqb r 92 then s "\\"
  else if N.leb 32 r && N.ltb r 127 then [ch r]
  else if N.eqb r 7 then s "\a"
  else if N.eqb r 8 then s "\b"
  else if N.eqb r 12 then s "\f"
  else if N.eqb r 10 then s "\n"
  else if N.eqb r 13 then s "\r"
  else if N.eqb r 9 then s "\t"
  else if N.eqb r 11 then s "\v"
  else if N.ltb r 32 || N.eqb r 127 then s "\x" ++ hex_fixed 2 r
  else if N.ltb r 65536 then s "\u" ++ hex_fixed 4 r
  else s "\U" ++ hex_fixed 8 r.

Fixpoint quote_body (fuel : nat) (x : str) : str :=
  match fuel with
  | O => []
  | S f =>
    match x with
    | [] => []
    | b0 :: _ =>
      match decode_rune x with
      | Some (r, w) => escape_rune r ++ quote_body f (skipn w x)
      | None => s "\x" ++ hex_fixed 2 (code b0) ++ quote_body f (skipn 1 x)
      end
    end
  end.

(** fmt.Sprintf("%+q", x) *)
Definition quote (x : str) : str := s """" ++ quote_body (List.length x) x ++ s """".

(** count of runes as Go's []rune(x) sees them (used by the aligned printer) *)
Fixpoint rune_count_fuel (fuel : nat) (x : str) : nat :=
  match fuel with
  | O => O
  | S f =>
    match x with
    | [] => O
    | _ :: _ =>
      match decode_rune x with
      | Some (_, w) => S (rune_count_fuel f (skipn w x))
      | None => S (rune_count_fuel f (skipn 1 x))
      end
    end
  end.
Definition rune_count (x : str) : nat := rune_count_fuel (List.length x) x.
