(** gontainer-helpers/grouperror: error trees, Prefix/Join, Collection. *)
From GV Require Import Base.Str.

Inductive gerr :=
| Leaf (msg : str)
| Group (prefix : str) (errs : list gerr).

Definition err := option gerr.       (* None = nil *)

Fixpoint keep_some {A} (l : list (option A)) : list A :=
  match l with
  | [] => []
  | Some x :: l' => x :: keep_some l'
  | None :: l' => keep_some l'
  end.

(** grouperror.Prefix(prefix, errs...) *)
Definition gprefix (p : str) (l : list err) : err :=
  match keep_some l with
  | [] => None
  | f => Some (Group p f)
  end.
Definition gjoin (l : list err) : err := gprefix [] l.

(** groupError.Collection and grouperror.Collection *)
Fixpoint collection (e : gerr) : list str :=
  match e with
  | Leaf m => [m]
  | Group p l => map (fun m => p ++ m) (flat_map collection l)
  end.

Definition collect (e : err) : list str :=
  match e with None => [] | Some g => collection g end.

Definition leaf (m : str) : err := Some (Leaf m).

Lemma keep_some_app {A} (a b : list (option A)) : keep_some (a ++ b) = keep_some a ++ keep_some b.
Proof. induction a as [|[x|] a IH]; simpl; rewrite ?IH; reflexivity. Qed.

Lemma collect_gprefix p l : collect (gprefix p l) = map (fun m => p ++ m) (flat_map collect l).
Proof.
  unfold gprefix. 
  assert (flat_map collect l = flat_map collection (keep_some l)) as ->.
  { induction l as [|[x|] l IH]; simpl; rewrite ?IH; reflexivity. }
  destruct (keep_some l); reflexivity.
Qed.

Lemma collect_gjoin l : collect (gjoin l) = flat_map collect l.
Proof. unfold gjoin. rewrite collect_gprefix. simpl. rewrite map_id. reflexivity. Qed.

Lemma gprefix_none p l : gprefix p l = None <-> forall e, In e l -> e = None.
Proof.
  unfold gprefix. split.
  - intros H e He. destruct (keep_some l) eqn:K; [|discriminate].
    clear H. induction l as [|[x|] l IH]; simpl in *; try discriminate.
    + contradiction.
    + destruct He as [<-|He]; auto.
  - intros H. assert (keep_some l = []) as ->; [|reflexivity].
    induction l as [|[x|] l IH]; simpl; auto.
    + specialize (H (Some x) (or_introl eq_refl)). discriminate.
    + apply IH. intros e He. apply H. right. exact He.
Qed.
