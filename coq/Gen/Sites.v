(* GENERATED on every run by harness/vlib/gen.py from sitestool's inventory of /repo. *)
From GV Require Import Base.Str.
From Coq Require Import List.
Import ListNotations.

Definition map_range_sites : list str := [(s "/internal/pkg/imports|*imports.Imports|29345f67e66f");
  (s "/internal/pkg/input|init|f73f05d536c1");
  (s "/internal/pkg/input|mergeMap|844e74823e0f");
  (s "/internal/pkg/maps|Keys|370d55655c33")].
Definition ambient_sites : list str := [].
Definition panic_sites : list str := [(s "/internal/cmd/runner|*Printer.EndIndent|f68d23e19999");
  (s "/internal/cmd/runner|*Printer.PrintAlignedLn|2b6ea8dfe7ec");
  (s "/internal/cmd/runner|*Printer.Println|b605d80c518c");
  (s "/internal/cmd/runner|*StepReadConfig.findFiles|9fbeed819661");
  (s "/internal/cmd/runner|*StepReadConfig.findFiles|a69df24532b3");
  (s "/internal/cmd/runner|DecorateStepVerboseSwitchable|087fb5a52d73");
  (s "/internal/cmd|buildRunner|21225f52abc6");
  (s "/internal/cmd|buildRunner|498962ee9137");
  (s "/internal/cmd|buildRunner|5d5f2e803223");
  (s "/internal/pkg/compiler|StepCompileDecorators.Process|04f247168535");
  (s "/internal/pkg/compiler|StepCompileDecorators.Process|0bbcab7f74b3");
  (s "/internal/pkg/compiler|StepCompileServices.processScopes|a581f5162599");
  (s "/internal/pkg/compiler|StepCompileServices.processScopes|a581f5162599");
  (s "/internal/pkg/compiler|StepCompileServices.processScopes|a581f5162599");
  (s "/internal/pkg/compiler|StepCompileServices.processScopes|a581f5162599");
  (s "/internal/pkg/compiler|StepCompileServices.serviceCalls|a290d7222aa1");
  (s "/internal/pkg/compiler|resolveArgs|a290d7222aa1");
  (s "/internal/pkg/imports|*imports.AliasAbsolute|88361d95001e");
  (s "/internal/pkg/imports|*imports.Imports|f29969b2dfaa");
  (s "/internal/pkg/imports|*imports.Imports|fbb0a1577fd8");
  (s "/internal/pkg/maps|Keys|4c40f13ddad2");
  (s "/internal/pkg/maps|Keys|9b6aba1dbf5d");
  (s "/internal/pkg/output|Output.BuildDependencyGraph|b3a9b0b06dcf");
  (s "/internal/pkg/regex|Match|61f294b78d68");
  (s "/internal/pkg/regex|MustCompileAz|f50aa2d150bc");
  (s "/internal/pkg/resolver|NonStringPrimitiveResolver.ResolveArg|04526f60fb82");
  (s "/internal/pkg/resolver|PatternResolver.ResolveArg|ff9982620efa");
  (s "/internal/pkg/resolver|ServiceResolver.ResolveArg|ff9982620efa");
  (s "/internal/pkg/resolver|TaggedResolver.ResolveArg|ff9982620efa");
  (s "/internal/pkg/resolver|ValueResolver.ResolveArg|0272521dd891");
  (s "/internal/pkg/token|*Chunker.Chunks|34bcdf10dba7");
  (s "/internal/pkg/token|*FactoryFunction.Create|4d9fb4aa67f7");
  (s "/internal/pkg/token|*Tokenizer.Tokenize|4341d3825c04");
  (s "/internal/pkg/token|*Tokenizer.Tokenize|c12ef6ccb5da");
  (s "/internal/pkg/token|FactoryString.Create|4396f8092bdc");
  (s "/internal/pkg/token|toExpr|81449d667c36")].
