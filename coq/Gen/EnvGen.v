(* GENERATED from /repo by gxtool consts + harness/vlib/gen.py. DO NOT EDIT. *)
From GV Require Import Base.Str Regex.Re Model.Env Gen.RegexSrc.

Definition the_env : env := {|
  re_in_ServiceName := site_input_ServiceName;
  re_in_ServiceGetter := site_input_ServiceGetter;
  re_in_ServiceType := site_input_ServiceType;
  re_in_ServiceValue := site_input_ServiceValue;
  re_in_ServiceConstructor := site_input_ServiceConstructor;
  re_in_ServiceCallName := site_input_ServiceCallName;
  re_in_ServiceFieldName := site_input_ServiceFieldName;
  re_in_ServiceTag := site_input_ServiceTag;
  re_in_ParamName := site_input_ParamName;
  re_in_DecoratorsTag := site_input_DecoratorsTag;
  re_in_DecoratorMethod := site_input_DecoratorMethod;
  re_in_MetaPkg := site_input_MetaPkg;
  re_in_MetaContainerType := site_input_MetaContainerType;
  re_in_MetaContainerConstructor := site_input_MetaContainerConstructor;
  re_in_MetaImport := site_input_MetaImport;
  re_in_MetaImportAlias := site_input_MetaImportAlias;
  re_in_MetaFn := site_input_MetaFn;
  re_in_MetaGoFn := site_input_MetaGoFn;
  re_co_DecoratorMethod := site_compiler_DecoratorMethod;
  re_co_MetaGoFn := site_compiler_MetaGoFn;
  re_co_ServiceType := site_compiler_ServiceType;
  re_co_ServiceConstructor := site_compiler_ServiceConstructor;
  re_sy_ServiceValue := site_syntax_ServiceValue;
  re_rs_servicePrefix := site_resolver_servicePrefix;
  re_rs_service := site_resolver_service;
  re_rs_taggedPrefix := site_resolver_taggedPrefix;
  re_rs_tagged := site_resolver_tagged;
  re_rs_valuePrefix := site_resolver_valuePrefix;
  re_rs_value := site_resolver_value;
  re_tk_TokenRef := site_token_TokenRef;
  re_tk_SimpleFn := site_token_SimpleFn;
  k_helper_path := (s "github.com/gontainer/gontainer-helpers/v3");
  k_tpl_dep_service := (s "dependencyService(%+q)");
  k_tpl_dep_tag := (s "dependencyTag(%+q)");
  k_tpl_dep_value := (s "dependencyValue(%s)");
  k_tpl_dep_provider := (s "dependencyProvider(%s)");
  k_tpl_dep_concat := (s "dependencyProvider(func () (string, error) { return concatenateChunks(%s) })");
  k_tpl_tok_getparam := (s "func() (interface{}, error) { return getParam(%+q) }");
  k_tpl_tok_provider := (s "func() (r interface{}, err error) { %s }");
  k_delim := "%"%char;
  k_default_pkg := (s "main");
  k_default_type := (s "Gontainer");
  k_default_ctor := (s "NewGontainer");
  k_default_must := false;
  k_builtin_funcs := [((s "env"), (s "getEnv")); ((s "envInt"), (s "getEnvInt")); ((s "todo"), (s "paramTodo"))];
  k_reserved_getters := [(s "AddDecorator"); (s "CircularDeps"); (s "Container"); (s "Get"); (s "GetInContext"); (s "GetParam"); (s "GetTaggedBy"); (s "GetTaggedByInContext"); (s "HotSwap"); (s "IsTaggedBy"); (s "OverrideParam"); (s "OverrideService"); (s "Root")];
  k_row_width := 60%nat;
  k_check := (bs [91;226;156;147;93]%N);
  k_xmark := (bs [91;226;168;137;93]%N);
  w_arg_chain := [RNonString; RValue; RService; RTagged; RFixed (s "$gontainer") (s "rootGontainer"); RPattern];
  w_param_chain := [RNonString; RPattern];
  w_factories := [FPercent; FReference; FUnexpectedFunction; FUnexpectedToken; FString];
  w_compiler_steps := [CValidate; CMeta; CParams; CServices; CDecorators];
  w_runner := [{| rs_name := (s "Default input"); rs_kind := RDefaultInput; rs_switch := SwAlways |};
    {| rs_name := (s "Read config"); rs_kind := RReadConfig; rs_switch := SwAlways |};
    {| rs_name := (s "Compile"); rs_kind := RCompile; rs_switch := SwAlways |};
    {| rs_name := (s "Validate output"); rs_kind := RAmalgamated [((s "Scope"), VScopes, SwAlways); ((s "Circular dependencies"), VCircular, SwAlways); ((s "Missing parameters"), VParamsExist, SwIgnoreParams); ((s "Missing services"), VServicesExist, SwIgnoreServices)]; rs_switch := SwAlways |};
    {| rs_name := (s "Generate code"); rs_kind := RCodeGen; rs_switch := SwAlways |}]
|}.
(* the resolver chain StepCompileDecorators is wired with (the model uses one chain for service and decorator arguments) *)
Definition deco_arg_chain : list resolver_kind := [RNonString; RValue; RService; RTagged; RFixed (s "$gontainer") (s "rootGontainer"); RPattern].
