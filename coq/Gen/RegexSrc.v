(* GENERATED from the live compiled regexps of /repo by gxtool regex + harness/vlib/gen.py. DO NOT EDIT. *)
From GV Require Import Base.Str Regex.Re.
Local Open Scope N_scope.

(* compiler_DecoratorMethod : \A(((?P<import>(([A-Za-z](\/?[A-Z-a-z0-9._-])* )|("[A-Za-z](\/?[A-Z-a-z0-9._-])*")|"\."))\.)?(?P<fn>[A-Za-z][A-Za-z0-9_]* ))\z *)
Definition site_compiler_DecoratorMethod : site :=
  {| site_re := (Cap 1%nat (Cat (Quest (Cap 2%nat (Cat (Cap 3%nat (Cap 4%nat (Alt (Cap 5%nat (Cat (Cls [(65,90);(97,122)]) (Star (Cap 6%nat (Cat (Quest (Lit (bs [47]))) (Cls [(45,46);(48,57);(65,90);(95,95);(97,122)])))))) (Alt (Cap 7%nat (Cat (Lit (bs [34])) (Cat (Cls [(65,90);(97,122)]) (Cat (Star (Cap 8%nat (Cat (Quest (Lit (bs [47]))) (Cls [(45,46);(48,57);(65,90);(95,95);(97,122)])))) (Lit (bs [34])))))) (Lit (bs [34;46;34])))))) (Lit (bs [46]))))) (Cap 9%nat (Cat (Cls [(65,90);(97,122)]) (Star (Cls [(48,57);(65,90);(95,95);(97,122)])))))); site_end := true; site_names := [((s "import"), 3%nat); ((s "fn"), 9%nat)] |}.

(* compiler_MetaGoFn : \A(((?P<import>(([A-Za-z](\/?[A-Z-a-z0-9._-])* )|("[A-Za-z](\/?[A-Z-a-z0-9._-])*")|"\."))\.)?(?P<fn>[A-Za-z][A-Za-z0-9_]* ))\z *)
Definition site_compiler_MetaGoFn : site :=
  {| site_re := (Cap 1%nat (Cat (Quest (Cap 2%nat (Cat (Cap 3%nat (Cap 4%nat (Alt (Cap 5%nat (Cat (Cls [(65,90);(97,122)]) (Star (Cap 6%nat (Cat (Quest (Lit (bs [47]))) (Cls [(45,46);(48,57);(65,90);(95,95);(97,122)])))))) (Alt (Cap 7%nat (Cat (Lit (bs [34])) (Cat (Cls [(65,90);(97,122)]) (Cat (Star (Cap 8%nat (Cat (Quest (Lit (bs [47]))) (Cls [(45,46);(48,57);(65,90);(95,95);(97,122)])))) (Lit (bs [34])))))) (Lit (bs [34;46;34])))))) (Lit (bs [46]))))) (Cap 9%nat (Cat (Cls [(65,90);(97,122)]) (Star (Cls [(48,57);(65,90);(95,95);(97,122)])))))); site_end := true; site_names := [((s "import"), 3%nat); ((s "fn"), 9%nat)] |}.

(* compiler_ServiceConstructor : \A(((?P<import>(([A-Za-z](\/?[A-Z-a-z0-9._-])* )|("[A-Za-z](\/?[A-Z-a-z0-9._-])*")|"\."))\.)?(?P<fn>[A-Za-z][A-Za-z0-9_]* ))\z *)
Definition site_compiler_ServiceConstructor : site :=
  {| site_re := (Cap 1%nat (Cat (Quest (Cap 2%nat (Cat (Cap 3%nat (Cap 4%nat (Alt (Cap 5%nat (Cat (Cls [(65,90);(97,122)]) (Star (Cap 6%nat (Cat (Quest (Lit (bs [47]))) (Cls [(45,46);(48,57);(65,90);(95,95);(97,122)])))))) (Alt (Cap 7%nat (Cat (Lit (bs [34])) (Cat (Cls [(65,90);(97,122)]) (Cat (Star (Cap 8%nat (Cat (Quest (Lit (bs [47]))) (Cls [(45,46);(48,57);(65,90);(95,95);(97,122)])))) (Lit (bs [34])))))) (Lit (bs [34;46;34])))))) (Lit (bs [46]))))) (Cap 9%nat (Cat (Cls [(65,90);(97,122)]) (Star (Cls [(48,57);(65,90);(95,95);(97,122)])))))); site_end := true; site_names := [((s "import"), 3%nat); ((s "fn"), 9%nat)] |}.

(* compiler_ServiceType : \A((?P<ptr>\* )?((?P<import>(([A-Za-z](\/?[A-Z-a-z0-9._-])* )|("[A-Za-z](\/?[A-Z-a-z0-9._-])*")|"\."))\.)?(?P<type>[A-Za-z][A-Za-z0-9_]* ))\z *)
Definition site_compiler_ServiceType : site :=
  {| site_re := (Cap 1%nat (Cat (Quest (Cap 2%nat (Lit (bs [42])))) (Cat (Quest (Cap 3%nat (Cat (Cap 4%nat (Cap 5%nat (Alt (Cap 6%nat (Cat (Cls [(65,90);(97,122)]) (Star (Cap 7%nat (Cat (Quest (Lit (bs [47]))) (Cls [(45,46);(48,57);(65,90);(95,95);(97,122)])))))) (Alt (Cap 8%nat (Cat (Lit (bs [34])) (Cat (Cls [(65,90);(97,122)]) (Cat (Star (Cap 9%nat (Cat (Quest (Lit (bs [47]))) (Cls [(45,46);(48,57);(65,90);(95,95);(97,122)])))) (Lit (bs [34])))))) (Lit (bs [34;46;34])))))) (Lit (bs [46]))))) (Cap 10%nat (Cat (Cls [(65,90);(97,122)]) (Star (Cls [(48,57);(65,90);(95,95);(97,122)]))))))); site_end := true; site_names := [((s "ptr"), 2%nat); ((s "import"), 4%nat); ((s "type"), 10%nat)] |}.

(* imports_NoAlphaNum : [^a-zA-Z0-9] *)
Definition site_imports_NoAlphaNum : site :=
  {| site_re := (Cls [(0,47);(58,64);(91,96);(123,1114111)]); site_end := false; site_names := [] |}.

(* input_DecoratorMethod : \A(((?P<import>(([A-Za-z](\/?[A-Z-a-z0-9._-])* )|("[A-Za-z](\/?[A-Z-a-z0-9._-])*")|"\."))\.)?(?P<fn>[A-Za-z][A-Za-z0-9_]* ))\z *)
Definition site_input_DecoratorMethod : site :=
  {| site_re := (Cap 1%nat (Cat (Quest (Cap 2%nat (Cat (Cap 3%nat (Cap 4%nat (Alt (Cap 5%nat (Cat (Cls [(65,90);(97,122)]) (Star (Cap 6%nat (Cat (Quest (Lit (bs [47]))) (Cls [(45,46);(48,57);(65,90);(95,95);(97,122)])))))) (Alt (Cap 7%nat (Cat (Lit (bs [34])) (Cat (Cls [(65,90);(97,122)]) (Cat (Star (Cap 8%nat (Cat (Quest (Lit (bs [47]))) (Cls [(45,46);(48,57);(65,90);(95,95);(97,122)])))) (Lit (bs [34])))))) (Lit (bs [34;46;34])))))) (Lit (bs [46]))))) (Cap 9%nat (Cat (Cls [(65,90);(97,122)]) (Star (Cls [(48,57);(65,90);(95,95);(97,122)])))))); site_end := true; site_names := [((s "import"), 3%nat); ((s "fn"), 9%nat)] |}.

(* input_DecoratorsTag : \A((\*|([A-Za-z]((\.|-|_)?[A-Za-z0-9])* )))\z *)
Definition site_input_DecoratorsTag : site :=
  {| site_re := (Cap 1%nat (Cap 2%nat (Alt (Lit (bs [42])) (Cap 3%nat (Cat (Cls [(65,90);(97,122)]) (Star (Cap 4%nat (Cat (Quest (Cap 5%nat (Cls [(45,46);(95,95)]))) (Cls [(48,57);(65,90);(97,122)]))))))))); site_end := true; site_names := [] |}.

(* input_MetaContainerConstructor : \A([A-Za-z][A-Za-z0-9_]* )\z *)
Definition site_input_MetaContainerConstructor : site :=
  {| site_re := (Cap 1%nat (Cat (Cls [(65,90);(97,122)]) (Star (Cls [(48,57);(65,90);(95,95);(97,122)])))); site_end := true; site_names := [] |}.

(* input_MetaContainerType : \A([A-Za-z][A-Za-z0-9_]* )\z *)
Definition site_input_MetaContainerType : site :=
  {| site_re := (Cap 1%nat (Cat (Cls [(65,90);(97,122)]) (Star (Cls [(48,57);(65,90);(95,95);(97,122)])))); site_end := true; site_names := [] |}.

(* input_MetaFn : \A([A-Za-z][A-Za-z0-9_]* )\z *)
Definition site_input_MetaFn : site :=
  {| site_re := (Cap 1%nat (Cat (Cls [(65,90);(97,122)]) (Star (Cls [(48,57);(65,90);(95,95);(97,122)])))); site_end := true; site_names := [] |}.

(* input_MetaGoFn : \A(((?P<import>(([A-Za-z](\/?[A-Z-a-z0-9._-])* )|("[A-Za-z](\/?[A-Z-a-z0-9._-])*")|"\."))\.)?(?P<fn>[A-Za-z][A-Za-z0-9_]* ))\z *)
Definition site_input_MetaGoFn : site :=
  {| site_re := (Cap 1%nat (Cat (Quest (Cap 2%nat (Cat (Cap 3%nat (Cap 4%nat (Alt (Cap 5%nat (Cat (Cls [(65,90);(97,122)]) (Star (Cap 6%nat (Cat (Quest (Lit (bs [47]))) (Cls [(45,46);(48,57);(65,90);(95,95);(97,122)])))))) (Alt (Cap 7%nat (Cat (Lit (bs [34])) (Cat (Cls [(65,90);(97,122)]) (Cat (Star (Cap 8%nat (Cat (Quest (Lit (bs [47]))) (Cls [(45,46);(48,57);(65,90);(95,95);(97,122)])))) (Lit (bs [34])))))) (Lit (bs [34;46;34])))))) (Lit (bs [46]))))) (Cap 9%nat (Cat (Cls [(65,90);(97,122)]) (Star (Cls [(48,57);(65,90);(95,95);(97,122)])))))); site_end := true; site_names := [((s "import"), 3%nat); ((s "fn"), 9%nat)] |}.

(* input_MetaImport : \A((([A-Za-z](\/?[A-Z-a-z0-9._-])* )|("[A-Za-z](\/?[A-Z-a-z0-9._-])*")|"\."))\z *)
Definition site_input_MetaImport : site :=
  {| site_re := (Cap 1%nat (Cap 2%nat (Alt (Cap 3%nat (Cat (Cls [(65,90);(97,122)]) (Star (Cap 4%nat (Cat (Quest (Lit (bs [47]))) (Cls [(45,46);(48,57);(65,90);(95,95);(97,122)])))))) (Alt (Cap 5%nat (Cat (Lit (bs [34])) (Cat (Cls [(65,90);(97,122)]) (Cat (Star (Cap 6%nat (Cat (Quest (Lit (bs [47]))) (Cls [(45,46);(48,57);(65,90);(95,95);(97,122)])))) (Lit (bs [34])))))) (Lit (bs [34;46;34])))))); site_end := true; site_names := [] |}.

(* input_MetaImportAlias : \A([A-Za-z]((\.|-|_)?[A-Za-z0-9])* )\z *)
Definition site_input_MetaImportAlias : site :=
  {| site_re := (Cap 1%nat (Cat (Cls [(65,90);(97,122)]) (Star (Cap 2%nat (Cat (Quest (Cap 3%nat (Cls [(45,46);(95,95)]))) (Cls [(48,57);(65,90);(97,122)])))))); site_end := true; site_names := [] |}.

(* input_MetaPkg : \A([A-Za-z][A-Za-z0-9_]* )\z *)
Definition site_input_MetaPkg : site :=
  {| site_re := (Cap 1%nat (Cat (Cls [(65,90);(97,122)]) (Star (Cls [(48,57);(65,90);(95,95);(97,122)])))); site_end := true; site_names := [] |}.

(* input_ParamName : \A([A-Za-z]((\.|-|_)?[A-Za-z0-9])* )\z *)
Definition site_input_ParamName : site :=
  {| site_re := (Cap 1%nat (Cat (Cls [(65,90);(97,122)]) (Star (Cap 2%nat (Cat (Quest (Cap 3%nat (Cls [(45,46);(95,95)]))) (Cls [(48,57);(65,90);(97,122)])))))); site_end := true; site_names := [] |}.

(* input_ServiceCallName : \A([A-Za-z][A-Za-z0-9_]* )\z *)
Definition site_input_ServiceCallName : site :=
  {| site_re := (Cap 1%nat (Cat (Cls [(65,90);(97,122)]) (Star (Cls [(48,57);(65,90);(95,95);(97,122)])))); site_end := true; site_names := [] |}.

(* input_ServiceConstructor : \A(((?P<import>(([A-Za-z](\/?[A-Z-a-z0-9._-])* )|("[A-Za-z](\/?[A-Z-a-z0-9._-])*")|"\."))\.)?(?P<fn>[A-Za-z][A-Za-z0-9_]* ))\z *)
Definition site_input_ServiceConstructor : site :=
  {| site_re := (Cap 1%nat (Cat (Quest (Cap 2%nat (Cat (Cap 3%nat (Cap 4%nat (Alt (Cap 5%nat (Cat (Cls [(65,90);(97,122)]) (Star (Cap 6%nat (Cat (Quest (Lit (bs [47]))) (Cls [(45,46);(48,57);(65,90);(95,95);(97,122)])))))) (Alt (Cap 7%nat (Cat (Lit (bs [34])) (Cat (Cls [(65,90);(97,122)]) (Cat (Star (Cap 8%nat (Cat (Quest (Lit (bs [47]))) (Cls [(45,46);(48,57);(65,90);(95,95);(97,122)])))) (Lit (bs [34])))))) (Lit (bs [34;46;34])))))) (Lit (bs [46]))))) (Cap 9%nat (Cat (Cls [(65,90);(97,122)]) (Star (Cls [(48,57);(65,90);(95,95);(97,122)])))))); site_end := true; site_names := [((s "import"), 3%nat); ((s "fn"), 9%nat)] |}.

(* input_ServiceFieldName : \A([A-Za-z][A-Za-z0-9_]* )\z *)
Definition site_input_ServiceFieldName : site :=
  {| site_re := (Cap 1%nat (Cat (Cls [(65,90);(97,122)]) (Star (Cls [(48,57);(65,90);(95,95);(97,122)])))); site_end := true; site_names := [] |}.

(* input_ServiceGetter : \A([A-Za-z][A-Za-z0-9_]* )\z *)
Definition site_input_ServiceGetter : site :=
  {| site_re := (Cap 1%nat (Cat (Cls [(65,90);(97,122)]) (Star (Cls [(48,57);(65,90);(95,95);(97,122)])))); site_end := true; site_names := [] |}.

(* input_ServiceName : \A([A-Za-z]((\.|-|_)?[A-Za-z0-9])* )\z *)
Definition site_input_ServiceName : site :=
  {| site_re := (Cap 1%nat (Cat (Cls [(65,90);(97,122)]) (Star (Cap 2%nat (Cat (Quest (Cap 3%nat (Cls [(45,46);(95,95)]))) (Cls [(48,57);(65,90);(97,122)])))))); site_end := true; site_names := [] |}.

(* input_ServiceTag : \A([A-Za-z]((\.|-|_)?[A-Za-z0-9])* )\z *)
Definition site_input_ServiceTag : site :=
  {| site_re := (Cap 1%nat (Cat (Cls [(65,90);(97,122)]) (Star (Cap 2%nat (Cat (Quest (Cap 3%nat (Cls [(45,46);(95,95)]))) (Cls [(48,57);(65,90);(97,122)])))))); site_end := true; site_names := [] |}.

(* input_ServiceType : \A((?P<ptr>\* )?((?P<import>(([A-Za-z](\/?[A-Z-a-z0-9._-])* )|("[A-Za-z](\/?[A-Z-a-z0-9._-])*")|"\."))\.)?(?P<type>[A-Za-z][A-Za-z0-9_]* ))\z *)
Definition site_input_ServiceType : site :=
  {| site_re := (Cap 1%nat (Cat (Quest (Cap 2%nat (Lit (bs [42])))) (Cat (Quest (Cap 3%nat (Cat (Cap 4%nat (Cap 5%nat (Alt (Cap 6%nat (Cat (Cls [(65,90);(97,122)]) (Star (Cap 7%nat (Cat (Quest (Lit (bs [47]))) (Cls [(45,46);(48,57);(65,90);(95,95);(97,122)])))))) (Alt (Cap 8%nat (Cat (Lit (bs [34])) (Cat (Cls [(65,90);(97,122)]) (Cat (Star (Cap 9%nat (Cat (Quest (Lit (bs [47]))) (Cls [(45,46);(48,57);(65,90);(95,95);(97,122)])))) (Lit (bs [34])))))) (Lit (bs [34;46;34])))))) (Lit (bs [46]))))) (Cap 10%nat (Cat (Cls [(65,90);(97,122)]) (Star (Cls [(48,57);(65,90);(95,95);(97,122)]))))))); site_end := true; site_names := [((s "ptr"), 2%nat); ((s "import"), 4%nat); ((s "type"), 10%nat)] |}.

(* input_ServiceValue : \A(((?P<v1>(?P<ptr>\&)?((?P<import>(([A-Za-z](\/?[A-Z-a-z0-9._-])* )|("[A-Za-z](\/?[A-Z-a-z0-9._-])*")|"\."))\.)?(?P<value>[A-Za-z][A-Za-z0-9_]*(\.[A-Za-z][A-Za-z0-9_]* )* ))|(?P<v2>(?P<ptr2>\&)?((?P<import2>(([A-Za-z](\/?[A-Z-a-z0-9._-])* )|("[A-Za-z](\/?[A-Z-a-z0-9._-])*")|"\."))\.)?(?P<struct2>[A-Za-z][A-Za-z0-9_]* )\{\})))\z *)
Definition site_input_ServiceValue : site :=
  {| site_re := (Cap 1%nat (Cap 2%nat (Alt (Cap 3%nat (Cat (Quest (Cap 4%nat (Lit (bs [38])))) (Cat (Quest (Cap 5%nat (Cat (Cap 6%nat (Cap 7%nat (Alt (Cap 8%nat (Cat (Cls [(65,90);(97,122)]) (Star (Cap 9%nat (Cat (Quest (Lit (bs [47]))) (Cls [(45,46);(48,57);(65,90);(95,95);(97,122)])))))) (Alt (Cap 10%nat (Cat (Lit (bs [34])) (Cat (Cls [(65,90);(97,122)]) (Cat (Star (Cap 11%nat (Cat (Quest (Lit (bs [47]))) (Cls [(45,46);(48,57);(65,90);(95,95);(97,122)])))) (Lit (bs [34])))))) (Lit (bs [34;46;34])))))) (Lit (bs [46]))))) (Cap 12%nat (Cat (Cls [(65,90);(97,122)]) (Cat (Star (Cls [(48,57);(65,90);(95,95);(97,122)])) (Star (Cap 13%nat (Cat (Lit (bs [46])) (Cat (Cls [(65,90);(97,122)]) (Star (Cls [(48,57);(65,90);(95,95);(97,122)])))))))))))) (Cap 14%nat (Cat (Quest (Cap 15%nat (Lit (bs [38])))) (Cat (Quest (Cap 16%nat (Cat (Cap 17%nat (Cap 18%nat (Alt (Cap 19%nat (Cat (Cls [(65,90);(97,122)]) (Star (Cap 20%nat (Cat (Quest (Lit (bs [47]))) (Cls [(45,46);(48,57);(65,90);(95,95);(97,122)])))))) (Alt (Cap 21%nat (Cat (Lit (bs [34])) (Cat (Cls [(65,90);(97,122)]) (Cat (Star (Cap 22%nat (Cat (Quest (Lit (bs [47]))) (Cls [(45,46);(48,57);(65,90);(95,95);(97,122)])))) (Lit (bs [34])))))) (Lit (bs [34;46;34])))))) (Lit (bs [46]))))) (Cat (Cap 23%nat (Cat (Cls [(65,90);(97,122)]) (Star (Cls [(48,57);(65,90);(95,95);(97,122)])))) (Lit (bs [123;125]))))))))); site_end := true; site_names := [((s "v1"), 3%nat); ((s "ptr"), 4%nat); ((s "import"), 6%nat); ((s "value"), 12%nat); ((s "v2"), 14%nat); ((s "ptr2"), 15%nat); ((s "import2"), 17%nat); ((s "struct2"), 23%nat)] |}.

(* resolver_service : \A(@(?P<service>[A-Za-z]((\.|-|_)?[A-Za-z0-9])* ))\z *)
Definition site_resolver_service : site :=
  {| site_re := (Cap 1%nat (Cat (Lit (bs [64])) (Cap 2%nat (Cat (Cls [(65,90);(97,122)]) (Star (Cap 3%nat (Cat (Quest (Cap 4%nat (Cls [(45,46);(95,95)]))) (Cls [(48,57);(65,90);(97,122)])))))))); site_end := true; site_names := [((s "service"), 2%nat)] |}.

(* resolver_servicePrefix : \A(@) *)
Definition site_resolver_servicePrefix : site :=
  {| site_re := (Cap 1%nat (Lit (bs [64]))); site_end := false; site_names := [] |}.

(* resolver_tagged : \A(!tagged\s+(?P<tag>[A-Za-z]((\.|-|_)?[A-Za-z0-9])* ))\z *)
Definition site_resolver_tagged : site :=
  {| site_re := (Cap 1%nat (Cat (Lit (bs [33;116;97;103;103;101;100])) (Cat (Plus (Cls [(9,10);(12,13);(32,32)])) (Cap 2%nat (Cat (Cls [(65,90);(97,122)]) (Star (Cap 3%nat (Cat (Quest (Cap 4%nat (Cls [(45,46);(95,95)]))) (Cls [(48,57);(65,90);(97,122)]))))))))); site_end := true; site_names := [((s "tag"), 2%nat)] |}.

(* resolver_taggedPrefix : \A(!tagged\s+) *)
Definition site_resolver_taggedPrefix : site :=
  {| site_re := (Cap 1%nat (Cat (Lit (bs [33;116;97;103;103;101;100])) (Plus (Cls [(9,10);(12,13);(32,32)])))); site_end := false; site_names := [] |}.

(* resolver_value : \A(!value\s+((?P<argval>((?P<v1>(?P<ptr>\&)?((?P<import>(([A-Za-z](\/?[A-Z-a-z0-9._-])* )|("[A-Za-z](\/?[A-Z-a-z0-9._-])*")|"\."))\.)?(?P<value>[A-Za-z][A-Za-z0-9_]*(\.[A-Za-z][A-Za-z0-9_]* )* ))|(?P<v2>(?P<ptr2>\&)?((?P<import2>(([A-Za-z](\/?[A-Z-a-z0-9._-])* )|("[A-Za-z](\/?[A-Z-a-z0-9._-])*")|"\."))\.)?(?P<struct2>[A-Za-z][A-Za-z0-9_]* )\{\})))))\z *)
Definition site_resolver_value : site :=
  {| site_re := (Cap 1%nat (Cat (Lit (bs [33;118;97;108;117;101])) (Cat (Plus (Cls [(9,10);(12,13);(32,32)])) (Cap 2%nat (Cap 3%nat (Cap 4%nat (Alt (Cap 5%nat (Cat (Quest (Cap 6%nat (Lit (bs [38])))) (Cat (Quest (Cap 7%nat (Cat (Cap 8%nat (Cap 9%nat (Alt (Cap 10%nat (Cat (Cls [(65,90);(97,122)]) (Star (Cap 11%nat (Cat (Quest (Lit (bs [47]))) (Cls [(45,46);(48,57);(65,90);(95,95);(97,122)])))))) (Alt (Cap 12%nat (Cat (Lit (bs [34])) (Cat (Cls [(65,90);(97,122)]) (Cat (Star (Cap 13%nat (Cat (Quest (Lit (bs [47]))) (Cls [(45,46);(48,57);(65,90);(95,95);(97,122)])))) (Lit (bs [34])))))) (Lit (bs [34;46;34])))))) (Lit (bs [46]))))) (Cap 14%nat (Cat (Cls [(65,90);(97,122)]) (Cat (Star (Cls [(48,57);(65,90);(95,95);(97,122)])) (Star (Cap 15%nat (Cat (Lit (bs [46])) (Cat (Cls [(65,90);(97,122)]) (Star (Cls [(48,57);(65,90);(95,95);(97,122)])))))))))))) (Cap 16%nat (Cat (Quest (Cap 17%nat (Lit (bs [38])))) (Cat (Quest (Cap 18%nat (Cat (Cap 19%nat (Cap 20%nat (Alt (Cap 21%nat (Cat (Cls [(65,90);(97,122)]) (Star (Cap 22%nat (Cat (Quest (Lit (bs [47]))) (Cls [(45,46);(48,57);(65,90);(95,95);(97,122)])))))) (Alt (Cap 23%nat (Cat (Lit (bs [34])) (Cat (Cls [(65,90);(97,122)]) (Cat (Star (Cap 24%nat (Cat (Quest (Lit (bs [47]))) (Cls [(45,46);(48,57);(65,90);(95,95);(97,122)])))) (Lit (bs [34])))))) (Lit (bs [34;46;34])))))) (Lit (bs [46]))))) (Cat (Cap 25%nat (Cat (Cls [(65,90);(97,122)]) (Star (Cls [(48,57);(65,90);(95,95);(97,122)])))) (Lit (bs [123;125]))))))))))))); site_end := true; site_names := [((s "argval"), 3%nat); ((s "v1"), 5%nat); ((s "ptr"), 6%nat); ((s "import"), 8%nat); ((s "value"), 14%nat); ((s "v2"), 16%nat); ((s "ptr2"), 17%nat); ((s "import2"), 19%nat); ((s "struct2"), 25%nat)] |}.

(* resolver_valuePrefix : \A(!value\s+) *)
Definition site_resolver_valuePrefix : site :=
  {| site_re := (Cap 1%nat (Cat (Lit (bs [33;118;97;108;117;101])) (Plus (Cls [(9,10);(12,13);(32,32)])))); site_end := false; site_names := [] |}.

(* syntax_ServiceValue : \A(((?P<v1>(?P<ptr>\&)?((?P<import>(([A-Za-z](\/?[A-Z-a-z0-9._-])* )|("[A-Za-z](\/?[A-Z-a-z0-9._-])*")|"\."))\.)?(?P<value>[A-Za-z][A-Za-z0-9_]*(\.[A-Za-z][A-Za-z0-9_]* )* ))|(?P<v2>(?P<ptr2>\&)?((?P<import2>(([A-Za-z](\/?[A-Z-a-z0-9._-])* )|("[A-Za-z](\/?[A-Z-a-z0-9._-])*")|"\."))\.)?(?P<struct2>[A-Za-z][A-Za-z0-9_]* )\{\})))\z *)
Definition site_syntax_ServiceValue : site :=
  {| site_re := (Cap 1%nat (Cap 2%nat (Alt (Cap 3%nat (Cat (Quest (Cap 4%nat (Lit (bs [38])))) (Cat (Quest (Cap 5%nat (Cat (Cap 6%nat (Cap 7%nat (Alt (Cap 8%nat (Cat (Cls [(65,90);(97,122)]) (Star (Cap 9%nat (Cat (Quest (Lit (bs [47]))) (Cls [(45,46);(48,57);(65,90);(95,95);(97,122)])))))) (Alt (Cap 10%nat (Cat (Lit (bs [34])) (Cat (Cls [(65,90);(97,122)]) (Cat (Star (Cap 11%nat (Cat (Quest (Lit (bs [47]))) (Cls [(45,46);(48,57);(65,90);(95,95);(97,122)])))) (Lit (bs [34])))))) (Lit (bs [34;46;34])))))) (Lit (bs [46]))))) (Cap 12%nat (Cat (Cls [(65,90);(97,122)]) (Cat (Star (Cls [(48,57);(65,90);(95,95);(97,122)])) (Star (Cap 13%nat (Cat (Lit (bs [46])) (Cat (Cls [(65,90);(97,122)]) (Star (Cls [(48,57);(65,90);(95,95);(97,122)])))))))))))) (Cap 14%nat (Cat (Quest (Cap 15%nat (Lit (bs [38])))) (Cat (Quest (Cap 16%nat (Cat (Cap 17%nat (Cap 18%nat (Alt (Cap 19%nat (Cat (Cls [(65,90);(97,122)]) (Star (Cap 20%nat (Cat (Quest (Lit (bs [47]))) (Cls [(45,46);(48,57);(65,90);(95,95);(97,122)])))))) (Alt (Cap 21%nat (Cat (Lit (bs [34])) (Cat (Cls [(65,90);(97,122)]) (Cat (Star (Cap 22%nat (Cat (Quest (Lit (bs [47]))) (Cls [(45,46);(48,57);(65,90);(95,95);(97,122)])))) (Lit (bs [34])))))) (Lit (bs [34;46;34])))))) (Lit (bs [46]))))) (Cat (Cap 23%nat (Cat (Cls [(65,90);(97,122)]) (Star (Cls [(48,57);(65,90);(95,95);(97,122)])))) (Lit (bs [123;125]))))))))); site_end := true; site_names := [((s "v1"), 3%nat); ((s "ptr"), 4%nat); ((s "import"), 6%nat); ((s "value"), 12%nat); ((s "v2"), 14%nat); ((s "ptr2"), 15%nat); ((s "import2"), 17%nat); ((s "struct2"), 23%nat)] |}.

(* token_SimpleFn : \A((?P<fn>[A-Za-z][A-Za-z0-9_]* )\((?P<params>.* )\))\z *)
Definition site_token_SimpleFn : site :=
  {| site_re := (Cap 1%nat (Cat (Cap 2%nat (Cat (Cls [(65,90);(97,122)]) (Star (Cls [(48,57);(65,90);(95,95);(97,122)])))) (Cat (Lit (bs [40])) (Cat (Cap 3%nat (Star (Cls [(0,9);(11,255)]))) (Lit (bs [41])))))); site_end := true; site_names := [((s "fn"), 2%nat); ((s "params"), 3%nat)] |}.

(* token_TokenRef : \A([A-Za-z]((\.|-|_)?[A-Za-z0-9])* )\z *)
Definition site_token_TokenRef : site :=
  {| site_re := (Cap 1%nat (Cat (Cls [(65,90);(97,122)]) (Star (Cap 2%nat (Cat (Quest (Cap 3%nat (Cls [(45,46);(95,95)]))) (Cls [(48,57);(65,90);(97,122)])))))); site_end := true; site_names := [] |}.

