(** The documented grammar of configuration names and expressions, written compositionally (this is the committed
    reference the regenerated regular expressions of /repo are compared against by the verified equivalence checker,
    see Tie/RegexTie.v).  Capture groups are irrelevant for the language and omitted. *)
From GV Require Import Base.Str Regex.Re.
Local Open Scope N_scope.

Definition cls_alpha : re := Cls [(65,90);(97,122)].                           (* [A-Za-z] *)
Definition cls_alnum : re := Cls [(48,57);(65,90);(97,122)].                   (* [A-Za-z0-9] *)
Definition cls_ident : re := Cls [(48,57);(65,90);(95,95);(97,122)].           (* [A-Za-z0-9_] *)
Definition cls_import : re := Cls [(45,46);(48,57);(65,90);(95,95);(97,122)].  (* [A-Za-z0-9._-] *)
Definition chr (c : N) : re := Cls [(c,c)].

(** Go identifier as gontainer accepts it: a letter followed by letters, digits, underscores *)
Definition go_token : re := Cat cls_alpha (Star cls_ident).
(** names of parameters, services, tags, aliases: alphanumeric words separated by single '.', '-' or '_' *)
Definition yaml_token : re := Cat cls_alpha (Star (Cat (Quest (Cls [(45,46);(95,95)])) cls_alnum)).
(** import path: starts with a letter; segments separated by single '/'... (every later byte optionally preceded by a '/') *)
Definition base_import : re := Cat cls_alpha (Star (Cat (Quest (chr 47)) cls_import)).
(** unquoted path | "quoted path" | "." *)
Definition import : re := Alt base_import (Alt (Cat (chr 34) (Cat base_import (chr 34))) (Lit (bs [34;46;34]))).
(** [import.]Func *)
Definition go_func : re := Cat (Quest (Cat import (chr 46))) go_token.
(** [*][import.]Type *)
Definition service_type : re := Cat (Quest (chr 42)) (Cat (Quest (Cat import (chr 46))) go_token).
(** [&][import.]Value[.Field]*   |   [&][import.]Struct{} *)
Definition service_value : re :=
  Alt (Cat (Quest (chr 38)) (Cat (Quest (Cat import (chr 46))) (Cat go_token (Star (Cat (chr 46) go_token)))))
      (Cat (Quest (chr 38)) (Cat (Quest (Cat import (chr 46))) (Cat go_token (Lit (bs [123;125]))))).
Definition ws : re := Cls [(9,10);(12,13);(32,32)].                             (* \s *)
Definition prefix_service : re := chr 64.                                      (* @ *)
Definition arg_service : re := Cat prefix_service yaml_token.
Definition prefix_tagged : re := Cat (Lit (s "!tagged")) (Plus ws).
Definition arg_tagged : re := Cat prefix_tagged yaml_token.
Definition prefix_value : re := Cat (Lit (s "!value")) (Plus ws).
Definition arg_value : re := Cat prefix_value service_value.
Definition decorator_tag : re := Alt (chr 42) yaml_token.
(** fn(anything without a newline) *)
Definition simple_fn : re := Cat go_token (Cat (chr 40) (Cat (Star (Cls [(0,9);(11,255)])) (chr 41))).
