(** Regular expressions over bytes: syntax (the operators that occur in the repo), denotational semantics,
    Brzozowski-derivative matcher, and a backtracking matcher with captures (leftmost-first = Go/RE2 on these
    patterns, whose starred bodies are never nullable). *)
From GV Require Import Base.Str.

Inductive re :=
| Empty                                  (* matches nothing *)
| Eps                                    (* empty string *)
| Cls (ranges : list (N * N))            (* one byte whose code lies in one of the inclusive ranges *)
| Cat (a b : re)
| Alt (a b : re)                         (* ordered: prefer a *)
| Star (a : re)                          (* greedy *)
| Cap (idx : nat) (a : re).              (* capture group number idx *)

Fixpoint in_ranges (n : N) (l : list (N * N)) : bool :=
  match l with
  | [] => false
  | (lo, hi) :: l' => (N.leb lo n && N.leb n hi) || in_ranges n l'
  end.

Definition cls_match (l : list (N * N)) (c : ascii) : bool := in_ranges (code c) l.

(** literal string *)
Fixpoint Lit (x : str) : re :=
  match x with
  | [] => Eps
  | [c] => Cls [(code c, code c)]
  | c :: x' => Cat (Cls [(code c, code c)]) (Lit x')
  end.
Definition Plus (a : re) : re := Cat a (Star a).
Definition Quest (a : re) : re := Alt a Eps.

(** denotational semantics *)
Inductive Sem : re -> str -> Prop :=
| SEps : Sem Eps []
| SCls l c : cls_match l c = true -> Sem (Cls l) [c]
| SCat a b x y : Sem a x -> Sem b y -> Sem (Cat a b) (x ++ y)
| SAltL a b x : Sem a x -> Sem (Alt a b) x
| SAltR a b x : Sem b x -> Sem (Alt a b) x
| SStar0 a : Sem (Star a) []
| SStarS a x y : Sem a x -> Sem (Star a) y -> Sem (Star a) (x ++ y)
| SCap i a x : Sem a x -> Sem (Cap i a) x.

(** derivatives *)
Fixpoint nullable (r : re) : bool :=
  match r with
  | Empty => false
  | Eps => true
  | Cls _ => false
  | Cat a b => nullable a && nullable b
  | Alt a b => nullable a || nullable b
  | Star _ => true
  | Cap _ a => nullable a
  end.

(** smart constructors keep derivatives small (needed for the finite bisimulation certificates) *)
Definition is_empty (r : re) : bool := match r with Empty => true | _ => false end.
Definition is_eps (r : re) : bool := match r with Eps => true | _ => false end.
Definition mkCat (a b : re) : re :=
  if is_empty a || is_empty b then Empty else if is_eps a then b else if is_eps b then a else Cat a b.
(** syntactic equality, used to keep alternations duplicate-free (ACI-normalisation light) *)
Fixpoint ranges_eqb (a b : list (N * N)) : bool :=
  match a, b with
  | [], [] => true
  | (x, y) :: a', (u, v) :: b' => N.eqb x u && N.eqb y v && ranges_eqb a' b'
  | _, _ => false
  end.
Fixpoint re_eqb (a b : re) : bool :=
  match a, b with
  | Empty, Empty => true
  | Eps, Eps => true
  | Cls x, Cls y => ranges_eqb x y
  | Cat a1 a2, Cat b1 b2 => re_eqb a1 b1 && re_eqb a2 b2
  | Alt a1 a2, Alt b1 b2 => re_eqb a1 b1 && re_eqb a2 b2
  | Star a1, Star b1 => re_eqb a1 b1
  | Cap i a1, Cap j b1 => Nat.eqb i j && re_eqb a1 b1
  | _, _ => false
  end.

(** is [a] already one of the alternatives of the right-nested alternation [b]? *)
Fixpoint alt_mem (a b : re) : bool :=
  match b with
  | Alt b1 b2 => re_eqb a b1 || alt_mem a b2
  | _ => re_eqb a b
  end.

Definition mkAlt1 (a b : re) : re :=
  if is_empty a then b else if is_empty b then a else if alt_mem a b then b else Alt a b.

(** flatten a left alternative into the right-nested, duplicate-free alternation *)
Fixpoint mkAlt (a b : re) : re :=
  match a with
  | Alt a1 a2 => mkAlt1 a1 (mkAlt a2 b)
  | _ => mkAlt1 a b
  end.

Fixpoint der (c : ascii) (r : re) : re :=
  match r with
  | Empty => Empty
  | Eps => Empty
  | Cls l => if cls_match l c then Eps else Empty
  | Cat a b => if nullable a then mkAlt (mkCat (der c a) b) (der c b) else mkCat (der c a) b
  | Alt a b => mkAlt (der c a) (der c b)
  | Star a => mkCat (der c a) (Star a)
  | Cap _ a => der c a
  end.

Fixpoint dmatch (r : re) (x : str) : bool :=
  match x with
  | [] => nullable r
  | c :: x' => dmatch (der c r) x'
  end.

(** does some prefix of x match?  (the three Supports() regexes have no \z) *)
Fixpoint dmatch_prefix (r : re) (x : str) : bool :=
  nullable r || match x with [] => false | c :: x' => dmatch_prefix (der c r) x' end.

(** ** backtracking matcher with captures *)
Definition caps := list (nat * str).

Definition cap_get (i : nat) (c : caps) : str :=
  match find (fun p => Nat.eqb (fst p) i) c with Some (_, v) => v | None => [] end.

Fixpoint bt (r : re) : str -> caps -> (str -> caps -> option caps) -> option caps :=
  match r with
  | Empty => fun _ _ _ => None
  | Eps => fun x c k => k x c
  | Cls l => fun x c k => match x with ch :: x' => if cls_match l ch then k x' c else None | [] => None end
  | Cat a b => fun x c k => bt a x c (fun x' c' => bt b x' c' k)
  | Alt a b => fun x c k => match bt a x c k with Some r => Some r | None => bt b x c k end
  | Star a => fun x c k =>
      (fix loop (n : nat) (x : str) (c : caps) {struct n} : option caps :=
         match n with
         | O => k x c
         | S n' =>
           match bt a x c (fun x' c' => if Nat.ltb (length x') (length x) then loop n' x' c' else None) with
           | Some r => Some r
           | None => k x c
           end
         end) (S (length x)) x c
  | Cap i a => fun x c k =>
      bt a x c (fun x' c' => k x' ((i, firstn (length x - length x') x) :: c'))
  end.

(** anchored at both ends: \A(r)\z *)
Definition bt_full (r : re) (x : str) : option caps :=
  bt r x [] (fun rest c => match rest with [] => Some c | _ => None end).

(** a compiled use site: the expression between \A( and ) plus whether \z follows, and the capture names *)
Record site := { site_re : re; site_end : bool; site_names : list (str * nat) }.

Definition site_match (st : site) (x : str) : bool :=
  if site_end st then dmatch (site_re st) x else dmatch_prefix (site_re st) x.

Definition name_idx (st : site) (n : str) : nat :=
  match lookup n (site_names st) with Some i => i | None => O end.

(** regex.Match: (matched?, named submatches); an unmatched group yields "" like Go *)
Definition site_submatch (st : site) (x : str) : option caps :=
  if site_match st x then bt_full (site_re st) x else None.
Definition sub (st : site) (c : caps) (n : str) : str := cap_get (name_idx st n) c.
