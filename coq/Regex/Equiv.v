(** Language equivalence of regular expressions by a verified *certificate checker*: an (unverified) search
    proposes a finite set [R] of pairs closed under derivatives; [bisim_ok] checks that it is a bisimulation
    containing the pair of interest, and soundness of the checker gives language equivalence. *)
From GV Require Import Base.Str Regex.Re Proofs.RegexProofs.
From Coq Require Import Lia.

(** * all 256 bytes *)

Definition all_bytes : list ascii := map ascii_of_N (map N.of_nat (seq 0 256)).

Lemma In_all_bytes : forall c, In c all_bytes.
Proof.
  intros c; unfold all_bytes.
  rewrite <- (ascii_N_embedding c). apply in_map.
  pose proof (N_ascii_bounded c) as Hb.
  rewrite <- (N2Nat.id (N_of_ascii c)). apply in_map.
  apply in_seq. lia.
Qed.

Lemma length_all_bytes : length all_bytes = 256%nat.
Proof. unfold all_bytes; rewrite !map_length, seq_length; reflexivity. Qed.

(** * the certificate checker *)

Definition pair_eqb (p q : re * re) : bool := re_eqb (fst p) (fst q) && re_eqb (snd p) (snd q).

Definition pair_mem (p : re * re) (R : list (re * re)) : bool := existsb (pair_eqb p) R.

Lemma pair_eqb_eq : forall p q, pair_eqb p q = true -> p = q.
Proof.
  intros [a b] [a' b'] H; unfold pair_eqb in H; cbn [fst snd] in H.
  apply andb_true_iff in H; destruct H as [H1 H2].
  apply re_eqb_eq in H1; apply re_eqb_eq in H2; subst; reflexivity.
Qed.

Lemma pair_eqb_refl : forall p, pair_eqb p p = true.
Proof. intros [a b]; unfold pair_eqb; cbn [fst snd]; rewrite !re_eqb_refl; reflexivity. Qed.

Lemma pair_mem_In : forall p R, pair_mem p R = true <-> In p R.
Proof.
  intros p R; unfold pair_mem; rewrite existsb_exists; split.
  - intros [q [Hq E]]; apply pair_eqb_eq in E; subst; assumption.
  - intros H; exists p; split; [assumption | apply pair_eqb_refl].
Qed.

(** one pair of the candidate relation is fine: same nullability, and all 256 derivative pairs are in [R] again *)
Definition pair_ok (R : list (re * re)) (p : re * re) : bool :=
  Bool.eqb (nullable (fst p)) (nullable (snd p))
  && forallb (fun c => pair_mem (der c (fst p), der c (snd p)) R) all_bytes.

Definition bisim_ok (R : list (re * re)) (a b : re) : bool :=
  pair_mem (a, b) R &&
  forallb (fun p => Bool.eqb (nullable (fst p)) (nullable (snd p))
                    && forallb (fun c => pair_mem (der c (fst p), der c (snd p)) R) all_bytes) R.

(** [R] is a bisimulation (as a Prop) *)
Definition bisim (R : list (re * re)) : Prop :=
  forall a b, In (a, b) R ->
    nullable a = nullable b /\ forall c, In (der c a, der c b) R.

Lemma bisim_ok_bisim : forall R a b, bisim_ok R a b = true -> In (a, b) R /\ bisim R.
Proof.
  intros R a b H; unfold bisim_ok in H.
  apply andb_true_iff in H; destruct H as [Hm Hall].
  split; [apply pair_mem_In; exact Hm|].
  rewrite forallb_forall in Hall.
  intros a' b' Hin. specialize (Hall _ Hin); cbn [fst snd] in Hall.
  apply andb_true_iff in Hall; destruct Hall as [Hn Hd].
  split; [apply eqb_prop; exact Hn|].
  intros c. rewrite forallb_forall in Hd.
  apply pair_mem_In. apply Hd. apply In_all_bytes.
Qed.

Lemma bisim_dmatch : forall R, bisim R -> forall x a b, In (a, b) R -> dmatch a x = dmatch b x.
Proof.
  intros R HR; induction x as [|c x IH]; intros a b Hin; cbn [dmatch].
  - apply (HR a b Hin).
  - apply IH. apply (HR a b Hin).
Qed.

(** SOUNDNESS of the certificate checker *)
Theorem bisim_ok_sound : forall R a b, bisim_ok R a b = true -> forall x, dmatch a x = dmatch b x.
Proof.
  intros R a b H x. apply bisim_ok_bisim in H; destruct H as [Hin HR].
  eapply bisim_dmatch; eassumption.
Qed.

Theorem bisim_ok_Sem : forall R a b, bisim_ok R a b = true -> forall x, Sem a x <-> Sem b x.
Proof. intros R a b H; apply Sem_equiv_dmatch; eapply bisim_ok_sound; exact H. Qed.

(** * unverified search for a certificate *)

(** the distinct derivative pairs of [p] over all 256 bytes *)
Definition succ_pairs (p : re * re) : list (re * re) :=
  fold_right (fun c acc => let q := (der c (fst p), der c (snd p)) in
                           if pair_mem q acc then acc else q :: acc) [] all_bytes.

Fixpoint find_bisim_aux (fuel : nat) (todo seen : list (re * re)) : option (list (re * re)) :=
  match fuel with
  | O => None
  | S fuel' =>
    match todo with
    | [] => Some seen
    | p :: todo' =>
      if pair_mem p seen then find_bisim_aux fuel' todo' seen
      else if Bool.eqb (nullable (fst p)) (nullable (snd p))
      then find_bisim_aux fuel' (filter (fun q => negb (pair_mem q seen)) (succ_pairs p) ++ todo') (p :: seen)
      else None
    end
  end.

Definition find_bisim (fuel : nat) (a b : re) : option (list (re * re)) := find_bisim_aux fuel [(a, b)] [].

Definition equiv_check (fuel : nat) (a b : re) : bool :=
  match find_bisim fuel a b with Some R => bisim_ok R a b | None => false end.

Theorem equiv_check_dmatch : forall fuel a b, equiv_check fuel a b = true -> forall x, dmatch a x = dmatch b x.
Proof.
  intros fuel a b H; unfold equiv_check in H.
  destruct (find_bisim fuel a b) as [R|]; [|discriminate].
  eapply bisim_ok_sound; exact H.
Qed.

Theorem equiv_check_sound : forall fuel a b, equiv_check fuel a b = true -> forall x, Sem a x <-> Sem b x.
Proof. intros fuel a b H; apply Sem_equiv_dmatch; eapply equiv_check_dmatch; exact H. Qed.

(** the prefix matcher (sites without [\z]) only depends on the language *)
Theorem dmatch_prefix_equiv : forall a b,
  (forall x, Sem a x <-> Sem b x) -> forall x, dmatch_prefix a x = dmatch_prefix b x.
Proof. exact Sem_equiv_dmatch_prefix. Qed.

Theorem equiv_check_prefix : forall fuel a b,
  equiv_check fuel a b = true -> forall x, dmatch_prefix a x = dmatch_prefix b x.
Proof. intros fuel a b H; apply dmatch_prefix_equiv; eapply equiv_check_sound; exact H. Qed.

(** whole use sites: same anchoring and equivalent expressions give the same [site_match] *)
Theorem equiv_check_site_match : forall fuel s1 s2,
  site_end s1 = site_end s2 ->
  equiv_check fuel (site_re s1) (site_re s2) = true ->
  forall x, site_match s1 x = site_match s2 x.
Proof.
  intros fuel s1 s2 He H x; unfold site_match; rewrite <- He.
  destruct (site_end s1); [eapply equiv_check_dmatch | eapply equiv_check_prefix]; exact H.
Qed.

(** * distinguishing words *)

(** distinct derivative pairs of [p], each with (the reversed path extended by) a byte leading to it *)
(** the bytes in the order of preference for witnesses, least preferred first: non-printable ones, then '~' down to '!' *)
Definition witness_bytes : list ascii :=
  map ascii_of_N (map N.of_nat (seq 0 33 ++ seq 127 129 ++ rev (seq 33 94))).

Definition succ_paths (w : str) (p : re * re) : list (str * (re * re)) :=
  fold_right (fun c acc => let q := (der c (fst p), der c (snd p)) in
                           if pair_mem q (map snd acc) then acc else (c :: w, q) :: acc) [] witness_bytes.

(** breadth-first search over derivative pairs, remembering the (reversed) path *)
Fixpoint find_witness_aux (fuel : nat) (todo : list (str * (re * re))) (seen : list (re * re)) : option str :=
  match fuel with
  | O => None
  | S fuel' =>
    match todo with
    | [] => None
    | (w, p) :: todo' =>
      if pair_mem p seen then find_witness_aux fuel' todo' seen
      else if Bool.eqb (nullable (fst p)) (nullable (snd p))
      then find_witness_aux fuel' (todo' ++ filter (fun wq => negb (pair_mem (snd wq) seen)) (succ_paths w p)) (p :: seen)
      else Some (rev w)
    end
  end.

Definition find_witness (fuel : nat) (a b : re) : option str := find_witness_aux fuel [([], (a, b))] [].

(** a returned word can be validated by computation; if it validates, the languages differ *)
Definition witness_ok (a b : re) (w : str) : bool := negb (Bool.eqb (dmatch a w) (dmatch b w)).

Theorem witness_ok_sound : forall a b w, witness_ok a b w = true -> ~ (forall x, Sem a x <-> Sem b x).
Proof.
  intros a b w H Heq. unfold witness_ok in H.
  rewrite (proj1 (Sem_equiv_dmatch a b) Heq w), eqb_reflx in H; discriminate.
Qed.

Definition find_checked_witness (fuel : nat) (a b : re) : option str :=
  match find_witness fuel a b with
  | Some w => if witness_ok a b w then Some w else None
  | None => None
  end.

Theorem find_checked_witness_sound : forall fuel a b w,
  find_checked_witness fuel a b = Some w -> dmatch a w <> dmatch b w.
Proof.
  intros fuel a b w H; unfold find_checked_witness in H.
  destruct (find_witness fuel a b) as [w'|]; [|discriminate].
  destruct (witness_ok a b w') eqn:E; [|discriminate].
  injection H as ->. unfold witness_ok in E.
  intros Heq; rewrite Heq, eqb_reflx in E; discriminate.
Qed.

Print Assumptions bisim_ok_sound.
Print Assumptions equiv_check_sound.

(** * small self-checks (the real use sites are checked where Gen/RegexSrc.v is available) *)
Section SelfTest.
  Let A := Cls [(97%N, 97%N)].
  Let B := Cls [(98%N, 98%N)].
  Example witness_bytes_complete :
    forallb (fun c => existsb (Ascii.eqb c) witness_bytes) all_bytes = true.
  Proof. vm_compute; reflexivity. Qed.
  Example equiv_star_alt : equiv_check 100 (Star (Alt A B)) (Star (Cat (Star A) (Star B))) = true.
  Proof. vm_compute; reflexivity. Qed.
  Example equiv_quest_star : equiv_check 100 (Cat (Quest A) (Star A)) (Star A) = true.
  Proof. vm_compute; reflexivity. Qed.
  Example nequiv_plus_star : equiv_check 100 (Plus A) (Star A) = false.
  Proof. vm_compute; reflexivity. Qed.
  Example witness_plus_star : find_checked_witness 100 (Plus A) (Star A) = Some [].
  Proof. vm_compute; reflexivity. Qed.
  Example witness_aa_plus : find_checked_witness 100 (Cat A (Plus A)) (Plus A) = Some (s "a").
  Proof. vm_compute; reflexivity. Qed.
End SelfTest.
