(** C17 — --stub output has the same API surface as the real output. *)
From GV Require Import Base.Str Model.Env Model.Input Model.Imports Model.Compile Model.Render Proofs.RenderProofs.

(** same method names, parameter types and result types in both modes; every stub body is panic("stub") *)
Theorem C17_same_surface :
  forall (n n' : names) (o : output),
         let ms := all_getter_methods true n o in
         let mf := all_getter_methods false n' o in
         let sgs := flat_map sigs_of (o_services o) in
         map mt_name ms = map mt_name mf /\
         (n_context n = n_context n' -> map mt_params ms = map mt_params mf) /\
         map mt_name ms = map sg_name sgs /\
         map mt_params ms = map (print_params (n_context n)) sgs /\
         map mt_params mf = map (print_params (n_context n')) sgs /\
         map mt_results ms = map (print_results true) sgs /\
         map mt_results mf = map (print_results false) sgs /\
         map mt_results ms =
         map
           (fun sg : msig =>
            if sg_fallible sg then erase_names (print_results false sg) else print_results false sg) sgs /\
         Forall (fun m : method => mt_body m = [s "panic(""stub"")"]) ms.
Proof. exact (@stub_parity). Qed.
Print Assumptions C17_same_surface.

(** both modes print the same name-free signature view *)
Theorem C17_signature_view :
  forall (stub : bool) (n : names) (ct : str) (sv : oservice),
         map method_sig (getter_methods stub n ct sv) =
         map
           (fun x : str * list str * list str =>
            (fst (fst x), print_ptypes (snd (fst x)), print_rtypes stub (snd x))) (sig_of (n_context n) sv).
Proof. exact (@getter_methods_sig_of). Qed.
Print Assumptions C17_signature_view.

(** the stub constructor has the configured name and type and panics *)
Theorem C17_constructor_stub :
  forall (n : names) (o : output),
         constructor_decl true n o =
         [s "func " ++ om_ctor (o_meta o) ++ s "() ( *" ++ om_type (o_meta o) ++ s ") {"; 
          s "panic(""stub"")"; s "}"; []].
Proof. exact (@constructor_decl_stub). Qed.
Print Assumptions C17_constructor_stub.

(** the real constructor has the same name and type *)
Theorem C17_constructor_real :
  forall (n : names) (o : output),
         exists body : list str,
           constructor_decl false n o =
           [s "func " ++ om_ctor (o_meta o) ++ s "() (rootGontainer *" ++ om_type (o_meta o) ++ s ") {"] ++
           body ++ [s "}"; []].
Proof. exact (@constructor_decl_real). Qed.
Print Assumptions C17_constructor_real.

(** stub output starts with the gontainerstub build constraint *)
Theorem C17_constraint_present :
  forall (bi : str) (o : output) (i : ist),
         exists rest : list str, head_lines true bi o i = BUILD1 :: BUILD2 :: [] :: GENERATED :: rest.
Proof. exact (@head_lines_stub). Qed.
Print Assumptions C17_constraint_present.

(** normal output never contains it *)
Theorem C17_constraint_absent :
  forall (bi : str) (o : output) (i : ist),
         ~ In BUILD1 (head_lines false bi o i) /\ ~ In BUILD2 (head_lines false bi o i).
Proof. exact (@head_lines_real_no_build_constraint). Qed.
Print Assumptions C17_constraint_absent.

