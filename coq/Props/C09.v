(** C09 — multi-file merge semantics and split invariance.  Statements; proofs in Proofs/MergeProofs.v. *)
From GV Require Import Base.Str Model.Input Model.Merge Proofs.MergeProofs.

(** merging is associative (up to the order of entries inside maps) and the empty file is a left and right identity *)
Theorem C09_assoc : forall a b c, wf_input a -> wf_input b -> wf_input c -> input_eq (merge (merge a b) c) (merge a (merge b c)).
Proof. exact merge_assoc. Qed.
Print Assumptions C09_assoc.
Theorem C09_empty_right : forall a, merge a empty_input = a.
Proof. exact merge_empty_r. Qed.
Print Assumptions C09_empty_right.
Theorem C09_empty_left : forall a, wf_input a -> merge empty_input a = a.
Proof. exact merge_empty_l_eq. Qed.
Print Assumptions C09_empty_left.

(** what a fold over the files in order computes: decorators are appended in file order ... *)
Theorem C09_decorators_appended : forall files, i_decorators (merge_all files) = concat (map i_decorators files).
Proof. exact fold_decorators. Qed.
Print Assumptions C09_decorators_appended.
(** ... scalar attributes: the last file that defines them wins ... *)
Theorem C09_version_last_wins : forall files, i_version (merge_all files) = last_some (map i_version files).
Proof. exact fold_version. Qed.
Print Assumptions C09_version_last_wins.
(** ... mappings are united key-wise with later values winning ... *)
Theorem C09_params_keywise : forall k files, Forall wf_input files ->
  lookup k (i_params (merge_all files)) = last_some (map (fun f => lookup k (i_params f)) files).
Proof. exact fold_params. Qed.
Print Assumptions C09_params_keywise.
Theorem C09_imports_keywise : forall k files, Forall wf_input files ->
  lookup k (m_imports (i_meta (merge_all files))) = last_some (map (fun f => lookup k (m_imports (i_meta f))) files).
Proof. exact fold_imports. Qed.
Print Assumptions C09_imports_keywise.
(** ... and a service is the field-wise merge of its definitions in file order: scalars last-wins, non-empty arguments
    replace, calls and tags appended, fields key-wise *)
Theorem C09_services : forall k files, Forall wf_input files ->
  match lookup k (i_services (merge_all files)) with
  | None => defs k files = []
  | Some sv => defs k files <> [] /\ defs_spec (defs k files) sv
  end.
Proof. exact fold_services_char. Qed.
Print Assumptions C09_services.

Example C09_ex : i_decorators (merge_all [empty_input; empty_input]) = [].
Proof. reflexivity. Qed.

(** ---- split invariance (Proofs/SplitProofs.v).  A [mask] decides for EVERY piece of a configuration which of two files gets it:
    each scalar of meta and each scalar attribute of each service (file 1, file 2 or both), each key of each mapping (imports,
    functions, parameters, fields), whole argument lists, and a cut point for calls, tags and decorators (earlier part in the
    earlier file).  [parts ms i] applies masks successively, [tparts p i] along an arbitrary binary tree: any number of files. ---- *)
From GV Require Import Proofs.SplitProofs.

Theorem C09_split_invariant_two_files : forall (m : mask) (i : input), wf_input i -> input_eq (merge (part1 m i) (part2 m i)) i.
Proof. exact split2_invariant. Qed.
Print Assumptions C09_split_invariant_two_files.

Theorem C09_split_invariant_n_files : forall (ms : list mask) (i : input), wf_input i -> input_eq (merge_all (parts ms i)) i.
Proof. exact splitN_invariant. Qed.
Print Assumptions C09_split_invariant_n_files.

Theorem C09_split_invariant_tree : forall (p : plan) (i : input), wf_input i -> input_eq (merge_all (tparts p i)) i.
Proof. exact split_tree_invariant. Qed.
Print Assumptions C09_split_invariant_tree.

(** an empty file anywhere changes nothing (literally) *)
Theorem C09_empty_file_anywhere : forall l1 l2 : list input, merge_all (l1 ++ empty_input :: l2) = merge_all (l1 ++ l2).
Proof. exact merge_all_empty_anywhere_eq. Qed.
Print Assumptions C09_empty_file_anywhere.

(** file order matters only where files overlap: files touching disjoint pieces commute *)
Theorem C09_disjoint_files_commute : forall a b : input, wf_input a -> wf_input b -> disjoint a b -> input_eq (merge a b) (merge b a).
Proof. exact merge_comm_disjoint. Qed.
Print Assumptions C09_disjoint_files_commute.

(** the mask notion is tight: splitting arguments element-wise, or giving the later calls to the earlier file, changes the result *)
Example C09_ex_args_elementwise_breaks := Examples.args_elementwise_breaks.
Example C09_ex_calls_reversed_breaks := Examples.calls_reversed_breaks.
Example C09_ex_split_literal : merge (part1 Examples.cfg_mask Examples.cfg) (part2 Examples.cfg_mask Examples.cfg) = Examples.cfg := Examples.split2_cfg_literal.
