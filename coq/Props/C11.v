(** C11 — input grammar: accept exactly the documented language, report every violation. *)
From GV Require Import Base.Str Base.Gerr Base.Sort Regex.Re Proofs.RegexProofs Proofs.BtProofs Regex.Equiv Regex.Langs Proofs.LangsProofs
  Model.Env Model.Input Model.Compile Model.Validate Gen.RegexSrc Gen.EnvGen Tie.RegexTie.

(** a regenerated validator regex accepts exactly the strings of the documented language, for strings of any length *)
Lemma site_lang st spec_re : equiv_check fuel (site_re st) spec_re = true /\ site_end st = true ->
  forall x, site_match st x = dmatch spec_re x.
Proof. intros [He Hend] x. unfold site_match. rewrite Hend. apply (equiv_check_dmatch _ _ _ He). Qed.

Theorem C11_param_name : forall x, site_match (re_in_ParamName the_env) x = is_yaml_token x.
Proof. intros x. rewrite (site_lang _ _ tie_input_ParamName). apply yaml_token_spec. Qed.
Print Assumptions C11_param_name.
Theorem C11_service_name : forall x, site_match (re_in_ServiceName the_env) x = is_yaml_token x.
Proof. intros x. rewrite (site_lang _ _ tie_input_ServiceName). apply yaml_token_spec. Qed.
Theorem C11_service_tag : forall x, site_match (re_in_ServiceTag the_env) x = is_yaml_token x.
Proof. intros x. rewrite (site_lang _ _ tie_input_ServiceTag). apply yaml_token_spec. Qed.
Theorem C11_import_alias : forall x, site_match (re_in_MetaImportAlias the_env) x = is_yaml_token x.
Proof. intros x. rewrite (site_lang _ _ tie_input_MetaImportAlias). apply yaml_token_spec. Qed.
Theorem C11_getter : forall x, site_match (re_in_ServiceGetter the_env) x = is_go_token x.
Proof. intros x. rewrite (site_lang _ _ tie_input_ServiceGetter). apply go_token_spec. Qed.
Print Assumptions C11_getter.
Theorem C11_call_name : forall x, site_match (re_in_ServiceCallName the_env) x = is_go_token x.
Proof. intros x. rewrite (site_lang _ _ tie_input_ServiceCallName). apply go_token_spec. Qed.
Theorem C11_field_name : forall x, site_match (re_in_ServiceFieldName the_env) x = is_go_token x.
Proof. intros x. rewrite (site_lang _ _ tie_input_ServiceFieldName). apply go_token_spec. Qed.
Theorem C11_pkg : forall x, site_match (re_in_MetaPkg the_env) x = is_go_token x.
Proof. intros x. rewrite (site_lang _ _ tie_input_MetaPkg). apply go_token_spec. Qed.
Theorem C11_container_type : forall x, site_match (re_in_MetaContainerType the_env) x = is_go_token x.
Proof. intros x. rewrite (site_lang _ _ tie_input_MetaContainerType). apply go_token_spec. Qed.
Theorem C11_container_constructor : forall x, site_match (re_in_MetaContainerConstructor the_env) x = is_go_token x.
Proof. intros x. rewrite (site_lang _ _ tie_input_MetaContainerConstructor). apply go_token_spec. Qed.
Theorem C11_function_name : forall x, site_match (re_in_MetaFn the_env) x = is_go_token x.
Proof. intros x. rewrite (site_lang _ _ tie_input_MetaFn). apply go_token_spec. Qed.
Theorem C11_import_path : forall x, site_match (re_in_MetaImport the_env) x = is_import x.
Proof. intros x. rewrite (site_lang _ _ tie_input_MetaImport). apply import_spec. Qed.
Print Assumptions C11_import_path.
Theorem C11_constructor : forall x, site_match (re_in_ServiceConstructor the_env) x = true <->
  is_go_token x = true \/ exists i f, x = i ++ "."%char :: f /\ is_import i = true /\ is_go_token f = true.
Proof. intros x. rewrite (site_lang _ _ tie_input_ServiceConstructor). apply go_func_spec. Qed.
Print Assumptions C11_constructor.
Theorem C11_go_function : forall x, site_match (re_in_MetaGoFn the_env) x = true <->
  is_go_token x = true \/ exists i f, x = i ++ "."%char :: f /\ is_import i = true /\ is_go_token f = true.
Proof. intros x. rewrite (site_lang _ _ tie_input_MetaGoFn). apply go_func_spec. Qed.
Theorem C11_decorator_method : forall x, site_match (re_in_DecoratorMethod the_env) x = true <->
  is_go_token x = true \/ exists i f, x = i ++ "."%char :: f /\ is_import i = true /\ is_go_token f = true.
Proof. intros x. rewrite (site_lang _ _ tie_input_DecoratorMethod). apply go_func_spec. Qed.
Theorem C11_decorator_tag : forall x, site_match (re_in_DecoratorsTag the_env) x = true <-> x = ["*"%char] \/ is_yaml_token x = true.
Proof. intros x. rewrite (site_lang _ _ tie_input_DecoratorsTag). apply decorator_tag_spec. Qed.
Theorem C11_type : forall x, site_match (re_in_ServiceType the_env) x = dmatch Langs.service_type x.
Proof. intros x. apply (site_lang _ _ tie_input_ServiceType). Qed.
Theorem C11_value : forall x, site_match (re_in_ServiceValue the_env) x = dmatch Langs.service_value x.
Proof. intros x. apply (site_lang _ _ tie_input_ServiceValue). Qed.
Print Assumptions C11_value.

(** every validator runs and its diagnostics are kept: the list of diagnostics is the concatenation of the
    diagnostics of the five groups (no masking of one violation by another) *)
Theorem C11_all_groups_reported : forall B i,
  collect (validate the_env B i) =
  collect (v_version B i) ++ collect (v_meta the_env i) ++ collect (v_params the_env i) ++ collect (v_services the_env i) ++ collect (v_decorators the_env i).
Proof. intros B i. unfold validate. rewrite collect_gjoin. cbn [flat_map]. rewrite app_nil_r. reflexivity. Qed.
Print Assumptions C11_all_groups_reported.

(** per service: the diagnostics are those of the name plus - unless the service is marked todo - of each of the nine
    attribute validators, each prefixed with the service key *)
Theorem C11_service_all_reported : forall n sv,
  collect (v_service the_env n sv) =
  map (fun m => (Base.Quote.quote n ++ s ": ") ++ m)
      ((if site_match (re_in_ServiceName the_env) n then [] else [s "invalid name"]) ++
       (if opt_or (sv_todo sv) false then []
        else collect (v_constructor_type sv) ++ collect (opt_regex_field (s "constructor") (sv_constructor sv) (re_in_ServiceConstructor the_env)) ++
             collect (v_getter the_env sv) ++ collect (opt_regex_field (s "type") (sv_type sv) (re_in_ServiceType the_env)) ++
             collect (opt_regex_field (s "value") (sv_value sv) (re_in_ServiceValue the_env)) ++ collect (v_service_args sv) ++
             collect (v_calls the_env sv) ++ collect (v_fields the_env sv) ++ collect (v_tags the_env sv))).
Proof.
  intros n sv. unfold v_service. rewrite collect_gprefix. f_equal.
  destruct (site_match (re_in_ServiceName the_env) n); destruct (opt_or (sv_todo sv) false); cbn [flat_map collect app]; rewrite ?app_nil_r; reflexivity.
Qed.
Print Assumptions C11_service_all_reported.

(** services marked todo are exempt from attribute checks *)
Theorem C11_todo_exempt : forall n sv, sv_todo sv = Some true -> site_match (re_in_ServiceName the_env) n = true -> v_service the_env n sv = None.
Proof. intros n sv Ht Hn. unfold v_service. rewrite Ht, Hn. reflexivity. Qed.
Print Assumptions C11_todo_exempt.

(** ---- the parts of a matched string (Proofs/BtProofs.v): wherever the code reads named groups of a match, the model's
    leftmost-first backtracking matcher is defined exactly on the language of the expression, and each group it reports is a
    substring of the input matched by the body of that group ---- *)
Theorem C11_submatch_defined_iff_match : forall (st : site) (x : str),
  site_submatch st x <> None <-> dmatch (site_re st) x = true.
Proof. exact site_submatch_iff_dmatch. Qed.
Print Assumptions C11_submatch_defined_iff_match.

Theorem C11_groups_faithful : forall (r : re) (x : str) (c : caps) (i : nat) (v : str),
  bt_full r x = Some c -> In (i, v) c ->
  exists a, subre_cap i a r /\ Sem a v /\ exists pre post, x = pre ++ v ++ post.
Proof. exact bt_full_caps_faithful. Qed.
Print Assumptions C11_groups_faithful.
