(** C13 — getter API contract of the generated container (method set, truth table of must-getters, no collisions, names). *)
From GV Require Import Base.Str Model.Env Model.Input Model.Imports Model.Compile Model.Validate Model.Render Proofs.RenderProofs.

(** a service with getter G contributes G and GInContext, and MustG / MustGInContext exactly when its must-getter flag is set *)
Theorem C13_method_names :
  forall (stub : bool) (n : names) (ct : str) (sv : oservice),
         os_getter sv <> [] ->
         map mt_name (getter_methods stub n ct sv) =
         [os_getter sv; os_getter sv ++ s "InContext"] ++
         (if os_must_getter sv
          then [s "Must" ++ os_getter sv; s "Must" ++ os_getter sv ++ s "InContext"]
          else []).
Proof. exact (@getter_methods_names). Qed.
Print Assumptions C13_method_names.

(** services without a getter add no methods *)
Theorem C13_no_getter_no_methods :
  forall (stub : bool) (n : names) (ct : str) (sv : oservice),
         os_getter sv = [] -> getter_methods stub n ct sv = [].
Proof. exact (@getter_methods_no_getter). Qed.
Print Assumptions C13_no_getter_no_methods.

(** signatures: (T, error) for the getters, T for the Must variants, ctx context.Context for the InContext variants *)
Theorem C13_signatures :
  forall (stub : bool) (n : names) (ct : str) (sv : oservice),
         os_getter sv <> [] ->
         let g := os_getter sv in
         let T := os_type sv in
         let ctxp := s "ctx " ++ n_context n ++ s ".Context" in
         let res := if stub then s "(" ++ T ++ s ", error)" else s "(result " ++ T ++ s ", err error)" in
         map method_sig (getter_methods stub n ct sv) =
         [(g, [], res); (g ++ s "InContext", ctxp, res)] ++
         (if os_must_getter sv then [(s "Must" ++ g, [], T); (s "Must" ++ g ++ s "InContext", ctxp, T)] else []).
Proof. exact (@getter_methods_signatures_explicit). Qed.
Print Assumptions C13_signatures.

(** the must-getter flag: explicit true, or unset with default_must_getter true; explicit true without a getter is rejected *)
Theorem C13_must_getter_truth_table :
  forall (E : env) (sv : service) (m : meta),
         let
         '(g, mg, e) := getter_of E sv m in
          g = opt_or (sv_getter sv) [] /\
          ((sv_getter sv = None \/ sv_getter sv = Some []) /\ sv_must_getter sv = Some true -> e <> None) /\
          (~ ((sv_getter sv = None \/ sv_getter sv = Some []) /\ sv_must_getter sv = Some true) ->
           e = None /\
           (mg = true <->
            g <> [] /\
            (sv_must_getter sv = Some true \/
             sv_must_getter sv = None /\ opt_or (m_default_must_getter m) (k_default_must E) = true))).
Proof. exact (@getter_truth_table). Qed.
Print Assumptions C13_must_getter_truth_table.

(** the eight names generated for two different getters are pairwise distinct *)
Theorem C13_no_collision_pair :
  forall g1 g2 : str,
         g1 <> g2 ->
         has_prefix (s "Must") g1 = false ->
         has_suffix (s "InContext") g1 = false ->
         has_prefix (s "Must") g2 = false ->
         has_suffix (s "InContext") g2 = false ->
         NoDup
           ([g1; g1 ++ s "InContext"; s "Must" ++ g1; s "Must" ++ g1 ++ s "InContext"] ++
            [g2; g2 ++ s "InContext"; s "Must" ++ g2; s "Must" ++ g2 ++ s "InContext"]).
Proof. exact (@getter_names_NoDup). Qed.
Print Assumptions C13_no_collision_pair.

(** validated getters are pairwise distinct, not reserved, without Must prefix or InContext suffix *)
Theorem C13_validated_getters :
  forall (E : env) (i : input),
         v_services E i = None ->
         NoDup (filter nonempty (map eff_getter (Sort.sorted_entries (i_services i)))) /\
         (forall (n : str) (sv : service) (g : str),
          In (n, sv) (i_services i) ->
          opt_or (sv_todo sv) false = false ->
          sv_getter sv = Some g ->
          ~ In g (k_reserved_getters E) /\
          has_prefix (s "Must") g = false /\
          has_suffix (s "InContext") g = false /\ Re.site_match (re_in_ServiceGetter E) g = true).
Proof. exact (@validated_getters). Qed.
Print Assumptions C13_validated_getters.

(** hence all generated methods of an accepted configuration are pairwise distinct *)
Theorem C13_generated_methods_distinct :
  forall (E : env) (i : input) (m : meta) (c : cst) (stub : bool) (n : names) (o : output),
         v_services E i = None ->
         o_services o = fst (fst (compile_services E (Sort.sorted_entries (i_services i)) m c)) ->
         NoDup (map mt_name (all_getter_methods stub n o)).
Proof. exact (@generated_method_names_NoDup). Qed.
Print Assumptions C13_generated_methods_distinct.

(** package, type and constructor names are the configured ones or the defaults *)
Theorem C13_names_or_defaults :
  forall (E : env) (i : input) (o : output) (c : cst),
         let o' := fst (fst (step_meta E i o c)) in
         om_pkg (o_meta o') = opt_or (m_pkg (i_meta i)) (k_default_pkg E) /\
         om_type (o_meta o') = opt_or (m_container_type (i_meta i)) (k_default_type E) /\
         om_ctor (o_meta o') = opt_or (m_container_constructor (i_meta i)) (k_default_ctor E) /\
         o_params o' = o_params o /\ o_services o' = o_services o /\ o_decorators o' = o_decorators o.
Proof. exact (@step_meta_names). Qed.
Print Assumptions C13_names_or_defaults.

(** the interface asserted in init() lists exactly the generated getter signatures *)
Theorem C13_interface_matches_methods :
  forall (n : names) (ct : str) (sv : oservice),
         iface_getters n sv =
         map (fun m : method => mt_name m ++ s "(" ++ mt_params m ++ s ") " ++ mt_results m)
           (getter_methods true n ct sv).
Proof. exact (@iface_getters_methods). Qed.
Print Assumptions C13_interface_matches_methods.

(** ---- end to end (Proofs/E2EProofs.v): one getter entry per declared service, with the declared name, the declared type and the must
    flag of the documented rule; the rendered method names follow ---- *)
From GV Require Import Base.Str Base.Sort Model.Env Model.Input Model.Merge Model.Imports Model.Compile Model.Runner Runtime.RT Runtime.Load Proofs.RefsProofs Proofs.E2EProofs.
From Coq Require Import List ZArith.
Import ListNotations.
Theorem C13_compiled_getters_are_the_declared_ones : forall (E : env),
  w_compiler_steps E = [CValidate; CMeta; CParams; CServices; CDecorators] ->
  forall B i o c, compile E B i = ((o, None), c) ->
  Forall2 (declared_getter E (i_meta i) (cs_imports c)) (sorted_entries (i_services i)) (o_services o).
Proof. exact e2e_getters. Qed.
Print Assumptions C13_compiled_getters_are_the_declared_ones.
