(** C06 — dangling parameter/service references are detected, exactly (see also Proofs/RefsProofs.v). *)
From GV Require Import Base.Str Base.Gerr Model.Compile Model.OutVal.

(** a reference is reported iff its name is not declared: the [missing] filter is exact *)
Theorem C06_missing_exact : forall declared l n, In n (missing declared l) <-> In n l /\ ~ In n declared.
Proof.
  intros declared l n. unfold missing. rewrite filter_In. split; intros [H1 H2]; split; auto.
  - intros Hd. apply mem_In in Hd. rewrite Hd in H2. discriminate.
  - destruct (mem n declared) eqn:Hm; [|reflexivity]. apply mem_In in Hm. contradiction.
Qed.
Print Assumptions C06_missing_exact.

(** nothing declared is ever reported *)
Theorem C06_declared_never_missing : forall declared l, (forall n, In n l -> In n declared) -> missing declared l = [].
Proof.
  intros declared l H. unfold missing. induction l as [|x l IH]; [reflexivity|]. cbn [filter].
  assert (mem x declared = true) as -> by (apply mem_In; apply H; left; reflexivity).
  cbn. apply IH. intros n Hn. apply H. right. exact Hn.
Qed.
Print Assumptions C06_declared_never_missing.
