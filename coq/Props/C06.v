(** C06 — dangling parameter/service references are detected, exactly. *)
From GV Require Import Base.Str Base.Gerr Base.Sort Model.Env Model.Input Model.Compile Model.OutVal Model.Runner Proofs.RefsProofs.

(** the missing-parameter rule passes iff every recorded parameter dependency (parameters, services, decorators) is declared *)
Theorem C06_params_accept_iff :
  forall o : output,
         validate_params_exist o = None <->
         (forall (p : oparam) (n : str), In p (o_params o) -> In n (op_depends p) -> In n (pnames o)) /\
         (forall (sv : oservice) (a : arg) (n : str),
          In sv (o_services o) -> In a (all_args sv) -> In n (a_params a) -> In n (pnames o)) /\
         (forall (d : odecorator) (a : arg) (n : str),
          In d (o_decorators o) -> In a (od_args d) -> In n (a_params a) -> In n (pnames o)).
Proof. exact (@params_exist_ok_iff). Qed.
Print Assumptions C06_params_accept_iff.

(** each diagnostic names the referrer and the missing name, and every dangling reference has its diagnostic *)
Theorem C06_params_diagnostics :
  forall (o : output) (m : str),
         In m (collect (validate_params_exist o)) <->
         (exists (p : oparam) (n : str),
            In p (o_params o) /\
            In n (op_depends p) /\
            ~ In n (pnames o) /\
            m =
            s "output.ValidateParamsExist: " ++
            Quote.quote (s "%" ++ op_name p ++ s "%") ++ s ": param " ++ Quote.quote n ++ s " does not exist") \/
         (exists (sv : oservice) (a : arg) (n : str),
            In sv (o_services o) /\
            In a (all_args sv) /\
            In n (a_params a) /\
            ~ In n (pnames o) /\
            m =
            s "output.ValidateParamsExist: " ++
            Quote.quote (s "@" ++ os_name sv) ++ s ": param " ++ Quote.quote n ++ s " does not exist") \/
         (exists (j : nat) (d : odecorator) (a : arg) (n : str),
            nth_error (o_decorators o) j = Some d /\
            In a (od_args d) /\
            In n (a_params a) /\
            ~ In n (pnames o) /\
            m =
            s "output.ValidateParamsExist: " ++
            s "decorator(#" ++
            dec_of_N (N.of_nat j) ++
            s ", " ++ Quote.quote (od_tag d) ++ s "): param " ++ Quote.quote n ++ s " does not exist").
Proof. exact (@params_exist_diag_iff). Qed.
Print Assumptions C06_params_diagnostics.

(** the same for @service references of services and decorators *)
Theorem C06_services_accept_iff :
  forall o : output,
         validate_services_exist o = None <->
         (forall (sv : oservice) (a : arg) (n : str),
          In sv (o_services o) -> In a (all_args sv) -> In n (a_services a) -> In n (snames o)) /\
         (forall (d : odecorator) (a : arg) (n : str),
          In d (o_decorators o) -> In a (od_args d) -> In n (a_services a) -> In n (snames o)).
Proof. exact (@services_exist_ok_iff). Qed.
Print Assumptions C06_services_accept_iff.

(** diagnostics of the missing-service rule *)
Theorem C06_services_diagnostics :
  forall (o : output) (m : str),
         In m (collect (validate_services_exist o)) <->
         (exists (sv : oservice) (a : arg) (n : str),
            In sv (o_services o) /\
            In a (all_args sv) /\
            In n (a_services a) /\
            ~ In n (snames o) /\
            m =
            s "output.ValidateServicesExist: " ++
            Quote.quote (os_name sv) ++ s ": service " ++ Quote.quote n ++ s " does not exist") \/
         (exists (j : nat) (d : odecorator) (a : arg) (n : str),
            nth_error (o_decorators o) j = Some d /\
            In a (od_args d) /\
            In n (a_services a) /\
            ~ In n (snames o) /\
            m =
            s "output.ValidateServicesExist: " ++
            s "decorator(#" ++
            dec_of_N (N.of_nat j) ++
            s ", " ++ Quote.quote (od_tag d) ++ s "): service " ++ Quote.quote n ++ s " does not exist").
Proof. exact (@services_exist_diag_iff). Qed.
Print Assumptions C06_services_diagnostics.

(** nothing declared is reported missing (parameters) *)
Theorem C06_nothing_declared_reported_params :
  forall (o : output) (r : referrer) (n : str), In (r, n) (param_diags o) -> ~ In n (pnames o).
Proof. exact (@param_diags_undeclared). Qed.
Print Assumptions C06_nothing_declared_reported_params.

(** nothing declared is reported missing (services) *)
Theorem C06_nothing_declared_reported_services :
  forall (o : output) (r : referrer) (n : str), In (r, n) (service_diags o) -> ~ In n (snames o).
Proof. exact (@service_diags_undeclared). Qed.
Print Assumptions C06_nothing_declared_reported_services.

(** what counts as declared: every parameter and every service of the input, todo ones included *)
Theorem C06_declared_sets :
  forall (E : env) (B : str) (i : input) (o : output) (c : cst),
         w_compiler_steps E = [CValidate; CMeta; CParams; CServices; CDecorators] ->
         compile E B i = (o, None, c) ->
         pnames o = sorted_keys (i_params i) /\
         snames o = sorted_keys (i_services i) /\
         Datatypes.length (o_decorators o) = Datatypes.length (i_decorators i).
Proof. exact (@compile_declared). Qed.
Print Assumptions C06_declared_sets.

(** the dependencies recorded for an argument are exactly the references written in it: @name, !tagged name, %name% chunks (not %%) *)
Theorem C06_recorded_deps_are_source_refs :
  forall (E : env) (id v : str),
         w_arg_chain E = [RNonString; RValue; RService; RTagged; RFixed id v; RPattern] ->
         w_factories E = [FPercent; FReference; FUnexpectedFunction; FUnexpectedToken; FString] ->
         forall (p : prim) (c : cst) (a : arg) (c' : cst),
         resolve_arg E p c = (a, None, c') ->
         a_services a = src_services E p /\
         a_tags a = src_tags E p /\ a_params a = src_params E id (cs_fns c) p.
Proof. exact (@resolve_arg_refs). Qed.
Print Assumptions C06_recorded_deps_are_source_refs.

(** which chunk of a pattern is a parameter reference *)
Theorem C06_reference_chunks :
  forall (E : env) (fns : list Token.fnfact) (ch n : str),
         k_delim E = "%"%char ->
         In n (chunk_refs E fns ch) <->
         ch = "%"%char :: n ++ ["%"%char] /\
         n <> [] /\
         Re.site_match (re_tk_TokenRef E) n = true /\
         existsb (fun f : Token.fnfact => Token.ff_supports E f ch) fns = false.
Proof. exact (@chunk_refs_spec). Qed.
Print Assumptions C06_reference_chunks.

(** end to end: after a successful compile the rule passes iff every %name% written in the configuration is a declared parameter *)
Theorem C06_params_source_iff :
  forall (E : env) (id v : str),
         w_arg_chain E = [RNonString; RValue; RService; RTagged; RFixed id v; RPattern] ->
         w_factories E = [FPercent; FReference; FUnexpectedFunction; FUnexpectedToken; FString] ->
         w_param_chain E = [RNonString; RPattern] ->
         w_compiler_steps E = [CValidate; CMeta; CParams; CServices; CDecorators] ->
         forall (B : str) (i : input) (o : output) (c : cst),
         compile E B i = (o, None, c) ->
         validate_params_exist o = None <->
         (forall (k : str) (p : prim) (n : str),
          In (k, p) (i_params i) -> In n (param_refs E (meta_fns E i) p) -> In n (keys (i_params i))) /\
         (forall (k : str) (svc : service) (p : prim) (n : str),
          In (k, svc) (i_services i) ->
          is_todo svc = false ->
          In p (source_args svc) -> In n (src_params E id (meta_fns E i) p) -> In n (keys (i_params i))) /\
         (forall (d : decorator) (p : prim) (n : str),
          In d (i_decorators i) ->
          In p (d_args d) -> In n (src_params E id (meta_fns E i) p) -> In n (keys (i_params i))).
Proof. exact (@params_exist_source_iff). Qed.
Print Assumptions C06_params_source_iff.

(** end to end for @service references *)
Theorem C06_services_source_iff :
  forall (E : env) (id v : str),
         w_arg_chain E = [RNonString; RValue; RService; RTagged; RFixed id v; RPattern] ->
         w_factories E = [FPercent; FReference; FUnexpectedFunction; FUnexpectedToken; FString] ->
         w_param_chain E = [RNonString; RPattern] ->
         w_compiler_steps E = [CValidate; CMeta; CParams; CServices; CDecorators] ->
         forall (B : str) (i : input) (o : output) (c : cst),
         compile E B i = (o, None, c) ->
         validate_services_exist o = None <->
         (forall (k : str) (svc : service) (p : prim) (n : str),
          In (k, svc) (i_services i) ->
          is_todo svc = false ->
          In p (source_args svc) -> In n (src_services E p) -> In n (keys (i_services i))) /\
         (forall (d : decorator) (p : prim) (n : str),
          In d (i_decorators i) -> In p (d_args d) -> In n (src_services E p) -> In n (keys (i_services i))).
Proof. exact (@services_exist_source_iff). Qed.
Print Assumptions C06_services_source_iff.

