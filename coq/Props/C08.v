(** C08 — output and diagnostics are key-order independent (the function part: the model has no access to the environment,
    the working directory or a clock; map iteration order is the only nondeterminism of the Go code and every iteration goes through sorted keys). *)
From GV Require Import Base.Str Base.Sort Model.Env Model.Input Model.Merge Model.Compile Model.Validate Model.Runner Proofs.SortProofs Proofs.MergeProofs Proofs.PermProofs.

(** reordering the keys of any mapping of a configuration (parameters, services, fields, imports, functions) changes neither the diagnostics nor the compiled output nor the alias table *)
Theorem C08_compile_key_order :
  forall (E : env) (B : str) (i i' : input),
         perm_input i i' -> wf_input i -> compile E B i = compile E B i'.
Proof. exact (@compile_perm). Qed.
Print Assumptions C08_compile_key_order.

(** the same for the validators alone *)
Theorem C08_validate_key_order :
  forall (E : env) (B : str) (i i' : input),
         perm_input i i' -> wf_input i -> validate E B i = validate E B i'.
Proof. exact (@validate_perm). Qed.
Print Assumptions C08_validate_key_order.

(** also when the configuration is spread over several files *)
Theorem C08_files_key_order :
  forall (E : env) (B : str) (files files' : list input),
         Forall2 perm_input files files' ->
         Forall wf_input files ->
         compile E B (fold_left merge files empty_input) = compile E B (fold_left merge files' empty_input).
Proof. exact (@compile_files_perm). Qed.
Print Assumptions C08_files_key_order.

(** more generally the front end depends on each mapping only through its lookup function *)
Theorem C08_extensional :
  forall (E : env) (B : str) (i i' : input),
         input_eq i i' -> wf_input i -> wf_input i' -> compile E B i = compile E B i'.
Proof. exact (@compile_input_eq). Qed.
Print Assumptions C08_extensional.

(** the iteration helper visits the same entries in the same order whatever the order inside the map *)
Theorem C08_sorted_iteration :
  forall (A : Type) (m m' : list (str * A)),
         NoDup (keys m) -> NoDup (keys m') -> SortProofs.map_eq m m' -> sorted_entries m = sorted_entries m'.
Proof. exact (@sorted_entries_map_eq). Qed.
Print Assumptions C08_sorted_iteration.

