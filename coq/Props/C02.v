(** C02 — the generated container builds each service exactly as declared: structure of the run-time semantics
    (Runtime/RT.v mirrors the runtime library; Runtime/Load.v what the generated constructor registers). *)
From GV Require Import Base.Str Model.Input Model.Compile Runtime.RT Runtime.Load Proofs.RTProofs.
From Coq Require Import List.
Import ListNotations.

(** a todo service always surfaces as the error "service todo", whatever the state, never as an object *)
Theorem C02_todo_is_error : forall depsf fuel st b id d,
  lookup id (rt_services st) = Some d -> sd_create d = CTodo ->
  match resolve_scope depsf st id with OScShared => lookup id (rt_shared st) | OScContextual => lookup id b | _ => None end = None ->
  snd (get depsf (S fuel) st b id) = RErr (s "service todo").
Proof.
  intros depsf fuel st b id d Hl Hc Hn. cbn [get]. rewrite Hl. cbv zeta. rewrite Hn, Hc. reflexivity.
Qed.
Print Assumptions C02_todo_is_error.

(** an undeclared service is an error *)
Theorem C02_unknown_is_error : forall depsf fuel st b id,
  lookup id (rt_services st) = None -> snd (get depsf (S fuel) st b id) = RErr (s "service does not exist").
Proof. intros depsf fuel st b id Hl. cbn [get]. rewrite Hl. reflexivity. Qed.
Print Assumptions C02_unknown_is_error.

(** what the template registers for a compiled service: constructor with the arguments in order, fields, calls in order with the wither flag *)
Theorem C02_loaded_definition : forall E fns i sv, os_todo sv = false -> os_constructor sv <> [] ->
  sd_create (sdef_of E fns i sv) = CCtor (origin_of i (os_constructor sv)) (failing (os_constructor sv)) (map (rdep_of E fns i) (os_args sv)) /\
  map fst (sd_fields (sdef_of E fns i sv)) = map fst (os_fields sv) /\
  map rc_method (sd_calls (sdef_of E fns i sv)) = map oc_method (os_calls sv) /\
  map rc_wither (sd_calls (sdef_of E fns i sv)) = map oc_immutable (os_calls sv).
Proof.
  intros E fns i sv Ht Hc. unfold sdef_of. rewrite Ht. cbn [sd_create sd_fields sd_calls].
  destruct (os_constructor sv) eqn:Hco; [congruence|].
  repeat split; rewrite ?map_map; reflexivity.
Qed.
Print Assumptions C02_loaded_definition.

(** argument forms: what each compiled argument injects *)
Theorem C02_arg_forms : forall E fns i a,
  (forall n l, a_services a = n :: l -> rdep_of E fns i a = DService n) /\
  (forall t l, a_services a = [] -> a_tags a = t :: l -> rdep_of E fns i a = DTag t) /\
  (a_services a = [] -> a_tags a = [] -> a_raw a = PStr (s "$gontainer") -> rdep_of E fns i a = DContainer) /\
  (forall p, a_services a = [] -> a_tags a = [] -> a_raw a = p -> (forall x, p <> PStr x) -> rdep_of E fns i a = DLit p).
Proof.
  intros E fns i a. unfold rdep_of. repeat split.
  - intros n l H. rewrite H. reflexivity.
  - intros t l H1 H2. rewrite H1, H2. reflexivity.
  - intros H1 H2 H3. rewrite H1, H2, H3. reflexivity.
  - intros p H1 H2 H3 Hn. rewrite H1, H2, H3. destruct p; try reflexivity. exfalso. apply (Hn x). reflexivity.
Qed.
Print Assumptions C02_arg_forms.

(** ---- creation order and error behaviour of Get (Proofs/RTProofs.v) ---- *)

(** a non-shared, undecorated constructor service: arguments resolved in order, then the constructor, then the fields in
    declared order, then the calls in declared order; the object records exactly these *)
Theorem C02_creation_order : forall depsf f st b id d o deps st1 b1 args st2 b2 xs st3 b3 argss,
  lookup id (rt_services st) = Some d ->
  sd_create d = CCtor o false deps ->
  (forall dd : ddef, In dd (rt_decorators st) -> lookup (dd_tag dd) (sd_tags d) = None) ->
  resolve_scope depsf st id = Compile.OScNonShared ->
  resolve_deps depsf f st b deps = (st1, b1, ROk args) ->
  deps_ok depsf f (with_serial (with_trace st1 (s "ctor:" ++ o)) (rt_serial st1 + 1)) b1 (map snd (sd_fields d)) st2 b2 xs ->
  calls_ok depsf f st2 b2 (sd_calls d) st3 b3 argss ->
  get depsf (S f) st b id =
  (st3, b3, ROk (VObj o (args ++ concat (map call_entry (combine (sd_calls d) argss)))
                      (set_fields (combine (map fst (sd_fields d)) xs) []) (map rc_method (sd_calls d)) (rt_serial st1 + 1))).
Proof. exact get_ctor_nonshared_init. Qed.
Print Assumptions C02_creation_order.

(** a failing constructor surfaces as an error from Get and stores nothing: caches are those left by argument resolution *)
Theorem C02_failing_constructor_is_error : forall depsf f st b id d o deps,
  lookup id (rt_services st) = Some d -> sd_create d = CCtor o true deps ->
  cached_of (resolve_scope depsf st id) st b id = None ->
  exists st1 b1 r1 st' e,
    resolve_deps depsf f st b deps = (st1, b1, r1) /\ get depsf (S f) st b id = (st', b1, RErr e) /\
    rt_shared st' = rt_shared st1 /\ rt_serial st' = rt_serial st1 /\ rt_pcache st' = rt_pcache st1.
Proof. exact get_failing_ctor_err. Qed.
Print Assumptions C02_failing_constructor_is_error.

(** a Get that fails never leaves an object behind for that service (configurations whose service dependencies are ranked, i.e. acyclic) *)
Theorem C02_error_never_cached : forall depsf rk f st b id st' b' e,
  (forall m d, lookup m (rt_services st) = Some d -> svc_ok st rk m d) ->
  get depsf f st b id = (st', b', RErr e) ->
  lookup id (rt_shared st') = lookup id (rt_shared st) /\ lookup id b' = lookup id b.
Proof. exact get_err_not_cached. Qed.
Print Assumptions C02_error_never_cached.

(** a successful Get of a shared / contextual service caches exactly the returned object *)
Theorem C02_success_cached : forall depsf f st b id st' b' v,
  get depsf (S f) st b id = (st', b', ROk v) ->
  match resolve_scope depsf st id with
  | Compile.OScShared => lookup id (rt_shared st') = Some v
  | Compile.OScContextual => lookup id b' = Some v
  | _ => True
  end.
Proof. exact get_ok_cached. Qed.
Print Assumptions C02_success_cached.

(** with acyclic (ranked) dependencies the fuel of the model is never the reason of an error: the results the model reports are
    the semantics, not an artefact of the bound *)
Theorem C02_fuel_suffices : forall depsf rk rkp M st f b id st' b' r,
  (forall id0 toks n, lookup id0 (rt_params st) = Some (DPattern toks) -> In (KRef n) toks -> lookup n (rt_params st) <> None -> rkp n < rkp id0) ->
  (forall n, lookup n (rt_params st) <> None -> rkp n <= M) ->
  (forall m d, lookup m (rt_services st) = Some d -> svc_ok st rk m d) ->
  3 * rk id + 3 * M + 9 <= f ->
  get depsf f st b id = (st', b', r) -> r <> RErr (s "out of fuel").
Proof. exact get_never_out_of_fuel. Qed.
Print Assumptions C02_fuel_suffices.

(** ---- end to end (Proofs/E2EProofs.v): every declared service arrives in the run-time state under its name with its declared scope, tags,
    constructor (import expanded), arguments in declared order, fields (sorted by name) and calls in declared order with their wither flag;
    a placeholder arrives as a placeholder ---- *)
From GV Require Import Base.Str Base.Sort Model.Env Model.Input Model.Merge Model.Imports Model.Compile Model.Runner Runtime.RT Runtime.Load Proofs.RefsProofs Proofs.E2EProofs.
From Coq Require Import List ZArith.
Import ListNotations.
Theorem C02_loaded_services_are_the_declared_ones : forall (E : env),
  w_compiler_steps E = [CValidate; CMeta; CParams; CServices; CDecorators] ->
  forall B i o c envv, compile E B i = ((o, None), c) ->
  Forall2 (fun kv nd => fst nd = fst kv /\ loaded_service E (meta_fns E i) (cs_imports c) kv nd)
          (sorted_entries (i_services i)) (rt_services (load E o c envv)).
Proof. exact e2e_services. Qed.
Print Assumptions C02_loaded_services_are_the_declared_ones.

(** how a compiled argument is classified, from its own source text: the documented argument forms *)
Theorem C02_loaded_argument_forms : forall (E : env) id v fns fin p d,
  w_arg_chain E = [RNonString; RValue; RService; RTagged; RFixed id v; RPattern] ->
  w_factories E = [FPercent; FReference; FUnexpectedFunction; FUnexpectedToken; FString] ->
  loaded_dep E fns fin p d ->
  match src_services E p, src_tags E p, p with
  | n :: _, _, _ => d = DService n
  | [], t :: _, _ => d = DTag t
  | [], [], PStr x => if str_eqb x (s "$gontainer") then d = DContainer else d = DPattern (rtoks E fns fin x) \/ exists w, d = DValue w
  | [], [], _ => d = DLit p
  end.
Proof. exact loaded_dep_cases. Qed.
Print Assumptions C02_loaded_argument_forms.
