(** C02 — the generated container builds each service exactly as declared: structure of the run-time semantics
    (Runtime/RT.v mirrors the runtime library; Runtime/Load.v what the generated constructor registers). *)
From GV Require Import Base.Str Model.Input Model.Compile Runtime.RT Runtime.Load.

(** a todo service always surfaces as the error "service todo", whatever the state, never as an object *)
Theorem C02_todo_is_error : forall depsf fuel st b id d,
  lookup id (rt_services st) = Some d -> sd_create d = CTodo ->
  match resolve_scope depsf st id with OScShared => lookup id (rt_shared st) | OScContextual => lookup id b | _ => None end = None ->
  snd (get depsf (S fuel) st b id) = RErr (s "service todo").
Proof.
  intros depsf fuel st b id d Hl Hc Hn. cbn [get]. rewrite Hl. cbv zeta. rewrite Hn, Hc. reflexivity.
Qed.
Print Assumptions C02_todo_is_error.

(** an undeclared service is an error *)
Theorem C02_unknown_is_error : forall depsf fuel st b id,
  lookup id (rt_services st) = None -> snd (get depsf (S fuel) st b id) = RErr (s "service does not exist").
Proof. intros depsf fuel st b id Hl. cbn [get]. rewrite Hl. reflexivity. Qed.
Print Assumptions C02_unknown_is_error.

(** what the template registers for a compiled service: constructor with the arguments in order, fields, calls in order with the wither flag *)
Theorem C02_loaded_definition : forall E fns i sv, os_todo sv = false -> os_constructor sv <> [] ->
  sd_create (sdef_of E fns i sv) = CCtor (origin_of i (os_constructor sv)) (failing (os_constructor sv)) (map (rdep_of E fns i) (os_args sv)) /\
  map fst (sd_fields (sdef_of E fns i sv)) = map fst (os_fields sv) /\
  map rc_method (sd_calls (sdef_of E fns i sv)) = map oc_method (os_calls sv) /\
  map rc_wither (sd_calls (sdef_of E fns i sv)) = map oc_immutable (os_calls sv).
Proof.
  intros E fns i sv Ht Hc. unfold sdef_of. rewrite Ht. cbn [sd_create sd_fields sd_calls].
  destruct (os_constructor sv) eqn:Hco; [congruence|].
  repeat split; rewrite ?map_map; reflexivity.
Qed.
Print Assumptions C02_loaded_definition.

(** argument forms: what each compiled argument injects *)
Theorem C02_arg_forms : forall E fns i a,
  (forall n l, a_services a = n :: l -> rdep_of E fns i a = DService n) /\
  (forall t l, a_services a = [] -> a_tags a = t :: l -> rdep_of E fns i a = DTag t) /\
  (a_services a = [] -> a_tags a = [] -> a_raw a = PStr (s "$gontainer") -> rdep_of E fns i a = DContainer) /\
  (forall p, a_services a = [] -> a_tags a = [] -> a_raw a = p -> (forall x, p <> PStr x) -> rdep_of E fns i a = DLit p).
Proof.
  intros E fns i a. unfold rdep_of. repeat split.
  - intros n l H. rewrite H. reflexivity.
  - intros t l H1 H2. rewrite H1, H2. reflexivity.
  - intros H1 H2 H3. rewrite H1, H2, H3. reflexivity.
  - intros p H1 H2 H3 Hn. rewrite H1, H2, H3. destruct p; try reflexivity. exfalso. apply (Hn x). reflexivity.
Qed.
Print Assumptions C02_arg_forms.
