(** C18 — version compatibility gate.  Only statements; proofs live in Proofs/SemverProofs.v. *)
From GV Require Import Base.Str Model.Semver Spec.Version Proofs.SemverProofs.

(** For every build version B and every configured version V that the YAML layer lets through (V is a semantic
    version without the leading "v"): the validator accepts iff the documented gate does not reject:
    major 0: same major.minor; major >= 1: same major and minor(V) <= minor(B), compared as numbers. *)
Theorem C18_gate : forall B V : str,
  is_valid (s "v" ++ V) = true ->
  (validate_version B (Some V) = None <-> gate B (Some V) <> Reject).
Proof. exact gate_correct. Qed.
Print Assumptions C18_gate.

Theorem C18_skip_no_version : forall B : str, validate_version B None = None.
Proof. exact gate_skip_no_version. Qed.
Print Assumptions C18_skip_no_version.

Theorem C18_skip_non_semver_build : forall (B : str) (V : option str),
  is_valid (s "v" ++ B) = false -> validate_version B V = None /\ gate B V = Skip.
Proof. exact gate_skip_non_semver. Qed.
Print Assumptions C18_skip_non_semver_build.

(** patch numbers and prerelease/build suffixes never matter *)
Theorem C18_patch_suffix_irrelevant : forall B B' V V' : str,
  is_valid (s "v" ++ V) = true -> is_valid (s "v" ++ V') = true ->
  sem (s "v" ++ B) = sem (s "v" ++ B') -> sem (s "v" ++ V) = sem (s "v" ++ V') ->
  (validate_version B (Some V) = None <-> validate_version B' (Some V') = None).
Proof. exact gate_patch_suffix_irrelevant. Qed.
Print Assumptions C18_patch_suffix_irrelevant.

(** the numeric reading used by [gate] is the one x/mod/semver's string comparison implements *)
Theorem C18_compare_int_numeric : forall x y : str, canonical x -> canonical y ->
  (compare_int x y = 0%Z <-> num x = num y) /\ ((compare_int x y < 0)%Z <-> (num x < num y)%N).
Proof. exact compare_int_num. Qed.
Print Assumptions C18_compare_int_numeric.

Theorem C18_leading_v_is_parse_error : forall x : str, unmarshal_version_ok (s "v" ++ x) = false.
Proof. exact unmarshal_rejects_v. Qed.
Print Assumptions C18_leading_v_is_parse_error.

Theorem C18_linker_v_trimmed : forall x : str, is_valid (s "v" ++ x) = true -> build_version (s "v" ++ x) = x.
Proof. exact build_version_trim. Qed.
Print Assumptions C18_linker_v_trimmed.

Theorem C18_non_semver_build_kept : forall x : str, is_valid x = false -> build_version x = x.
Proof. exact build_version_keep. Qed.
Print Assumptions C18_non_semver_build_kept.

(** non-vacuity: concrete pairs on both sides of the gate, including the pair the unrepaired code got wrong *)
Example C18_ex_same : validate_version (s "1.2.3") (Some (s "1.2.3")) = None /\ gate (s "1.2.3") (Some (s "1.2.3")) = Accept.
Proof. vm_compute. split; reflexivity. Qed.
Example C18_ex_newer_minor : validate_version (s "1.2.3") (Some (s "1.10.0-rc.1+b7")) <> None /\ gate (s "1.2.3") (Some (s "1.10.0-rc.1+b7")) = Reject.
Proof. vm_compute. split; [discriminate|reflexivity]. Qed.
Example C18_ex_zero_major : validate_version (s "0.9.1") (Some (s "0.8.0")) <> None /\ validate_version (s "0.9.1") (Some (s "0.9.7")) = None.
Proof. vm_compute. split; [discriminate|reflexivity]. Qed.
Example C18_ex_numeric_not_lexicographic : validate_version (s "1.10.0") (Some (s "1.9.0")) = None.
Proof. vm_compute. reflexivity. Qed.
