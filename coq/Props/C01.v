(** C01 — accepted configurations yield Go code that compiles (partial: the Go type checker itself is external; these are the
    structural facts of the rendered file the compile depends on; the verdict of the real toolchain is the check's oracle). *)
From GV Require Import Base.Str Base.Sort Model.Env Model.Input Model.Imports Model.Compile Model.Validate Model.Render Proofs.RenderProofs Proofs.ImportsProofs.

(** no duplicate method declarations on the container type *)
Theorem C01_methods_distinct :
  forall (E : env) (i : input) (m : meta) (c : cst) (stub : bool) (n : names) (o : output),
  v_services E i = None ->
  o_services o = fst (fst (compile_services E (sorted_entries (i_services i)) m c)) ->
  NoDup (map mt_name (all_getter_methods stub n o)).
Proof. exact (@generated_method_names_NoDup). Qed.
Print Assumptions C01_methods_distinct.

(** the interface literal asserted by init() is implemented: it lists exactly the generated getter signatures *)
Theorem C01_init_interface_is_method_set :
  forall (n : names) (ct : str) (sv : oservice),
  iface_getters n sv = map (fun m => mt_name m ++ s "(" ++ mt_params m ++ s ") " ++ mt_results m) (getter_methods true n ct sv).
Proof. exact (@iface_getters_methods). Qed.
Print Assumptions C01_init_interface_is_method_set.

(** import local names are distinct legal identifiers *)
Theorem C01_import_names_distinct : forall st, inv st -> NoDup (map snd (is_imports st)).
Proof. exact local_names_NoDup. Qed.
Print Assumptions C01_import_names_distinct.
Theorem C01_import_names_legal : forall n p, (exists t, local_name n p = "i"%char :: t) /\ is_alpha "i"%char = true /\ Forall ident_char (local_name n p).
Proof. exact local_name_go_identifier. Qed.
Print Assumptions C01_import_names_legal.

(** ---- lexical safety of the rendered file (Proofs/Render2Proofs.v).  [scan] models the Go scanner (code / string / raw string /
    rune / line comment / block comment); a line is [line_ok] when it contains no newline and leaves no literal or block comment
    open, so user text cannot change how the following lines are read.  The only raw user text that reaches code is the argument
    text of function tokens %fn(...)% ([input_vals_ok_lex]: it must itself be lexically closed); everything else is either
    quoted with %+q, or a capture of a validated language, or a generated alias. ---- *)
From GV Require Proofs.Render2Proofs.
Module R2 := Proofs.Render2Proofs.

(** %+q never breaks out of its string literal, whatever the bytes *)
Theorem C01_quote_is_a_go_string_literal : forall x : str,
  exists y, Base.Quote.quote x = [Proofs.LangsProofs.dq] ++ y ++ [Proofs.LangsProofs.dq] /\ R2.go_string_interior y = true.
Proof. exact R2.C01_quote_safe. Qed.
Print Assumptions C01_quote_is_a_go_string_literal.

(** every line of the header comment sections is a comment line, for every accepted input *)
Theorem C01_header_comments_are_comments : forall B i o c,
  Model.Runner.compile Gen.EnvGen.the_env B i = ((o, None), c) -> R2.prims_ok i ->
  Forall R2.comment_line (Model.Render.params_comment (o_params o)) /\ Forall R2.comment_line (Model.Render.services_comment o).
Proof. exact R2.C01_header_comments_safe. Qed.
Print Assumptions C01_header_comments_are_comments.

(** every name and expression emitted outside literals and comments belongs to its validated language; import aliases are Go identifiers *)
Theorem C01_emitted_names_in_their_languages : forall B i o c,
  Model.Runner.compile Gen.EnvGen.the_env B i = ((o, None), c) -> R2.prims_ok i ->
  R2.out_lang (fun _ => True) o /\ (forall p a, In (p, a) (is_imports (cs_imports c)) -> Proofs.LangsProofs.is_go_token a = true).
Proof. exact R2.C01_emitted_names_table. Qed.
Print Assumptions C01_emitted_names_in_their_languages.

(** the whole file, normal and stub mode: every line is lexically closed, every import line has the shape alias "path" *)
Theorem C01_rendered_file_lexically_safe : forall B i o c stub bi,
  Model.Runner.compile Gen.EnvGen.the_env B i = ((o, None), c) -> R2.input_vals_ok_lex Gen.EnvGen.the_env i -> R2.over R2.notnl bi ->
  R2.out_lang R2.neutral o /\
  Forall R2.line_ok (fst (Model.Render.render Gen.EnvGen.the_env stub bi o (cs_imports c))) /\
  Forall R2.import_line (map (fun kv => snd kv ++ s " """ ++ fst kv ++ s """")
                             (imports_sorted (snd (Model.Render.render Gen.EnvGen.the_env stub bi o (cs_imports c))))).
Proof. exact R2.C01_rendered_file_lexically_safe. Qed.
Print Assumptions C01_rendered_file_lexically_safe.

(** paths registered from meta.imports carry no quote (the defect D14 was found while proving this) *)
Theorem C01_alias_targets_unquoted : forall B i es st',
  validate Gen.EnvGen.the_env B i = None ->
  Forall (fun kv => Proofs.LangsProofs.is_base_import (sanitize_path (snd kv)) = true /\ ~ In Proofs.LangsProofs.dq (sanitize_path (snd kv))) (m_imports (i_meta i)) /\
  (register_imports (sorted_entries (m_imports (i_meta i))) ist0 = (es, st') ->
   forall a p, In (a, p) (is_prefixes st') -> Proofs.LangsProofs.is_base_import p = true /\ ~ In Proofs.LangsProofs.dq p).
Proof. exact R2.C01_import_paths_unquoted. Qed.
Print Assumptions C01_alias_targets_unquoted.
