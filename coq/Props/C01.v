(** C01 — accepted configurations yield Go code that compiles (partial: the Go type checker itself is external; these are the
    structural facts of the rendered file the compile depends on; the verdict of the real toolchain is the check's oracle). *)
From GV Require Import Base.Str Base.Sort Model.Env Model.Input Model.Imports Model.Compile Model.Validate Model.Render Proofs.RenderProofs Proofs.ImportsProofs.

(** no duplicate method declarations on the container type *)
Theorem C01_methods_distinct :
  forall (E : env) (i : input) (m : meta) (c : cst) (stub : bool) (n : names) (o : output),
  v_services E i = None ->
  o_services o = fst (fst (compile_services E (sorted_entries (i_services i)) m c)) ->
  NoDup (map mt_name (all_getter_methods stub n o)).
Proof. exact (@generated_method_names_NoDup). Qed.
Print Assumptions C01_methods_distinct.

(** the interface literal asserted by init() is implemented: it lists exactly the generated getter signatures *)
Theorem C01_init_interface_is_method_set :
  forall (n : names) (ct : str) (sv : oservice),
  iface_getters n sv = map (fun m => mt_name m ++ s "(" ++ mt_params m ++ s ") " ++ mt_results m) (getter_methods true n ct sv).
Proof. exact (@iface_getters_methods). Qed.
Print Assumptions C01_init_interface_is_method_set.

(** import local names are distinct legal identifiers *)
Theorem C01_import_names_distinct : forall st, inv st -> NoDup (map snd (is_imports st)).
Proof. exact local_names_NoDup. Qed.
Print Assumptions C01_import_names_distinct.
Theorem C01_import_names_legal : forall n p, (exists t, local_name n p = "i"%char :: t) /\ is_alpha "i"%char = true /\ Forall ident_char (local_name n p).
Proof. exact local_name_go_identifier. Qed.
Print Assumptions C01_import_names_legal.
