(** C07 — dependency cycles are detected, exactly.  gonum's elementary-cycle enumeration is modelled by [all_cycles]
    (validated against the real library by the correspondence runs). *)
From GV Require Import Base.Str Base.Gerr Model.Compile Model.OutVal Proofs.GraphProofs Proofs.DepGraphProofs Runtime.RT Proofs.RTProofs.

(** accepted by the cycle rule iff neither the service dependency relation nor the parameter reference relation has a cycle *)
Theorem C07_accept_iff_acyclic :
  forall o : output,
         validate_circular o = None <->
         (forall a : str, ~ Relation_Operators.clos_trans str (svc_dep o) a a) /\
         (forall p : str, ~ Relation_Operators.clos_trans str (param_dep o) p p).
Proof. exact (@validate_circular_documented). Qed.
Print Assumptions C07_accept_iff_acyclic.

(** the same on the built graph (tags, decorators, parameters included) *)
Theorem C07_accept_iff_no_closed_walk :
  forall o : output, validate_circular o = None <-> (forall x : str, ~ spath (dep_calls o) x x).
Proof. exact (@validate_circular_none). Qed.
Print Assumptions C07_accept_iff_no_closed_walk.

(** every element lying on a cycle occurs in a printed cycle *)
Theorem C07_every_element_shown :
  forall (o : output) (x : str),
         spath (dep_calls o) x x ->
         exists ids : list str, In x ids /\ In (join (s " -> ") (map pretty ids)) (cycle_errors o).
Proof. exact (@cycle_error_shown). Qed.
Print Assumptions C07_every_element_shown.

(** every printed cycle consists of elements that really lie on a cycle *)
Theorem C07_no_false_cycle :
  forall (o : output) (m : str),
         In m (cycle_errors o) ->
         exists ids : list str,
           m = join (s " -> ") (map pretty ids) /\
           ids <> [] /\ (forall x : str, In x ids -> spath (dep_calls o) x x).
Proof. exact (@cycle_error_sound). Qed.
Print Assumptions C07_no_false_cycle.

(** the enumeration lists exactly the elementary cycles rooted at their smallest node *)
Theorem C07_cycles_exact :
  forall (g : graph) (c : list nat), wf_graph g -> In c (all_cycles g) <-> is_cycle g c.
Proof. exact (@all_cycles_iff). Qed.
Print Assumptions C07_cycles_exact.

(** no cycle listed iff the graph is acyclic *)
Theorem C07_nil_iff_acyclic :
  forall g : graph, wf_graph g -> all_cycles g = [] <-> (forall a : nat, ~ path g a a).
Proof. exact (@all_cycles_nil_iff_acyclic). Qed.
Print Assumptions C07_nil_iff_acyclic.

(** computed reachability = non-empty paths *)
Theorem C07_reachability :
  forall (g : graph) (a b : nat), wf_graph g -> In b (reachable_from g a) <-> path g a b.
Proof. exact (@reachable_from_iff). Qed.
Print Assumptions C07_reachability.

Example C07_ex_cycle :
  let g := {| g_nodes := [Some (s "service(a)"); Some (s "service(b)")]; g_edges := [(0, 1); (1, 0)] |} in
  all_cycles g = [[0; 1; 0]].
Proof. vm_compute. reflexivity. Qed.

(** why acceptance must imply acyclicity: at run time parameters on a reference cycle can never be evaluated, whatever the fuel
    of the model - they always fail and are never cached (Proofs/RTProofs.v) *)
Theorem C07_cyclic_params_never_evaluate : forall (f : nat) (st : RT.rt) (W : list str) (id : str) (st' : RT.rt) (r : RT.result RT.value),
  (forall w, In w W -> exists toks y, lookup w (RT.rt_params st) = Some (RT.DPattern toks) /\ In (RT.KRef y) toks /\ In y W) ->
  (forall w, In w W -> lookup w (RT.rt_pcache st) = None) ->
  In id W -> RT.get_param f st id = (st', r) ->
  RTProofs.is_err r /\ (forall w, In w W -> lookup w (RT.rt_pcache st') = None).
Proof. exact RTProofs.param_cycle_fails. Qed.
Print Assumptions C07_cyclic_params_never_evaluate.
