(** C07 — dependency cycles are detected, exactly.  (the cycle enumerator of the runtime library — gonum — is modelled by
    [all_cycles]; Proofs/GraphProofs.v and, for the lift to names, Proofs/DepGraphProofs.v) *)
From GV Require Import Base.Str Model.OutVal Proofs.GraphProofs.

(** the enumeration lists exactly the elementary cycles (rooted at their smallest node) of the graph *)
Theorem C07_cycles_exact : forall g c, wf_graph g -> (In c (all_cycles g) <-> is_cycle g c).
Proof. intros g c H. apply all_cycles_iff. exact H. Qed.
Print Assumptions C07_cycles_exact.

(** no cycle is reported iff the dependency graph is acyclic: accepted only if acyclic, never rejected when acyclic *)
Theorem C07_nil_iff_acyclic : forall g, wf_graph g -> (all_cycles g = [] <-> forall a, ~ path g a a).
Proof. exact all_cycles_nil_iff_acyclic. Qed.
Print Assumptions C07_nil_iff_acyclic.

(** every element lying on a cycle is shown by some reported cycle *)
Theorem C07_every_element_shown : forall g a, wf_graph g -> (path g a a <-> exists c, In c (all_cycles g) /\ In a c).
Proof. exact on_cycle_iff. Qed.
Print Assumptions C07_every_element_shown.

(** transitive dependencies (used by the scope rule and by the termination argument): computed reachability = paths *)
Theorem C07_reachability : forall g a b, wf_graph g -> (In b (reachable_from g a) <-> path g a b).
Proof. exact reachable_from_iff. Qed.
Print Assumptions C07_reachability.

Example C07_ex_cycle :
  let g := {| g_nodes := [Some (s "service(a)"); Some (s "service(b)")]; g_edges := [(0, 1); (1, 0)] |} in
  all_cycles g = [[0; 1; 0]].
Proof. vm_compute. reflexivity. Qed.
