(** C03 — parameter and %pattern% evaluation semantics: the chunker and escaping (build-time half; run-time evaluation is exercised
    by the probe check).  [E] is any environment whose delimiter is the percent sign (Tie/EnvTie.v proves it for the regenerated one). *)
From GV Require Import Base.Str Base.Gerr Model.Env Model.Token Proofs.TokenProofs Runtime.RT Proofs.RTProofs.
From Coq Require Import List.
Import ListNotations.

(** the chunks are a partition of the pattern, in order *)
Theorem C03_chunks_partition :
  forall E : env,
         k_delim E = "%"%char -> forall (x : str) (cs : list str), chunks E x = inl cs -> concat cs = x.
Proof. exact (@chunks_concat). Qed.
Print Assumptions C03_chunks_partition.

(** every chunk is a non-empty %-free literal or a %...% token without inner % *)
Theorem C03_chunks_shape :
  forall E : env,
         k_delim E = "%"%char ->
         forall (x : str) (cs : list str),
         chunks E x = inl cs ->
         x <> [] ->
         Forall
           (fun c : str =>
            no_pct c = true /\ c <> [] \/ (exists m : list ascii, c = pct :: m ++ [pct] /\ no_pct m = true)) cs.
Proof. exact (@chunks_shape). Qed.
Print Assumptions C03_chunks_shape.

(** literal chunks are maximal: never two in a row *)
Theorem C03_chunks_maximal :
  forall E : env,
         k_delim E = "%"%char ->
         forall (x : str) (cs : list str),
         chunks E x = inl cs ->
         forall (l1 : list str) (c1 c2 : str) (l2 : list str),
         cs = l1 ++ c1 :: c2 :: l2 -> no_pct c1 = true -> no_pct c2 = true -> False.
Proof. exact (@chunks_alternate). Qed.
Print Assumptions C03_chunks_maximal.

(** a pattern is rejected as unbalanced iff it contains an odd number of % *)
Theorem C03_unbalanced_iff_odd :
  forall E : env,
         k_delim E = "%"%char ->
         forall x : str, (exists b : str, chunks E x = inr b) <-> Nat.odd (count_pct x) = true.
Proof. exact (@chunks_err_iff). Qed.
Print Assumptions C03_unbalanced_iff_odd.

(** and chunked successfully iff the number is even *)
Theorem C03_balanced_iff_even :
  forall E : env,
         k_delim E = "%"%char ->
         forall x : str, (exists cs : list str, chunks E x = inl cs) <-> Nat.even (count_pct x) = true.
Proof. exact (@chunks_ok_iff). Qed.
Print Assumptions C03_balanced_iff_even.

(** the diagnostic names the unterminated tail *)
Theorem C03_error_names_the_tail :
  forall E : env,
         k_delim E = "%"%char ->
         forall x b : str,
         chunks E x = inr b ->
         exists pre : list ascii, x = pre ++ b /\ (exists m : list ascii, b = pct :: m /\ no_pct m = true).
Proof. exact (@chunks_err_tail). Qed.
Print Assumptions C03_error_names_the_tail.

(** the expression of a token is the text between its two delimiters *)
Theorem C03_token_inner :
  forall E : env,
         k_delim E = "%"%char -> forall c m : str, to_expr E c = Some m <-> c = pct :: m ++ [pct].
Proof. exact (@to_expr_spec). Qed.
Print Assumptions C03_token_inner.

(** any string whose every % is doubled chunks into literals and %% tokens that read back as the original string *)
Theorem C03_escape :
  forall E : env,
         k_delim E = "%"%char ->
         forall x : str,
         exists cs : list str,
           chunks E (double_pct x) = inl cs /\
           Forall (fun c : str => no_pct c = true \/ c = [pct; pct]) cs /\
           concat (map (fun c : str => if str_eqb c [pct; pct] then [pct] else c) cs) = x.
Proof. exact (@chunks_double_pct). Qed.
Print Assumptions C03_escape.

(** surrounding %-free text does not change the tokens of a pattern *)
Theorem C03_literal_context_irrelevant :
  forall E : env,
         k_delim E = "%"%char ->
         forall (p q x : str) (cs : list str),
         no_pct p = true ->
         no_pct q = true ->
         chunks E x = inl cs ->
         exists cs' : list str, chunks E (p ++ x ++ q) = inl cs' /\ tokens cs' = tokens cs.
Proof. exact (@chunks_app_literal). Qed.
Print Assumptions C03_literal_context_irrelevant.

(** ---- run-time evaluation (Runtime/RT.v; Proofs/RTProofs.v) ---- *)

(** a single-chunk pattern is the value of its token, with its type *)
Theorem C03_single_chunk_keeps_type : forall (f : nat) (st : rt) (t : rtok), eval_pattern (S f) st [t] = eval_tok f st t.
Proof. exact eval_pattern_single. Qed.
Print Assumptions C03_single_chunk_keeps_type.

(** a multi-chunk pattern is the concatenation of the documented string casts of its chunks, evaluated left to right ... *)
Theorem C03_multi_chunk_concatenates : forall f st toks st' xs,
  Datatypes.length toks <> 1 -> toks_ok f st toks st' xs -> eval_pattern (S f) st toks = (st', ROk (VStr (concat xs))).
Proof. exact multi_chunk_ok. Qed.
Print Assumptions C03_multi_chunk_concatenates.

(** ... the first chunk that fails (evaluation error or unsupported cast) is the error of the whole pattern: no later chunk can
    hide it and the result is never a string with a placeholder in it *)
Theorem C03_multi_chunk_first_error : forall f st toks st' e,
  Datatypes.length toks <> 1 -> toks_fail f st toks st' e -> eval_pattern (S f) st toks = (st', RErr e).
Proof. exact multi_chunk_fail. Qed.
Print Assumptions C03_multi_chunk_first_error.

Theorem C03_multi_chunk_is_string : forall f st toks st' v,
  Datatypes.length toks <> 1 -> eval_pattern (S f) st toks = (st', ROk v) -> exists x : str, v = VStr x.
Proof. exact multi_chunk_is_string. Qed.
Print Assumptions C03_multi_chunk_is_string.

(** the documented string casts *)
Theorem C03_casts : forall v : value,
  cast_to_string v = match v with
                     | VNil => ROk (s "nil") | VBool b => ROk (if b then s "true" else s "false") | VNum _ t => ROk t | VStr x => ROk x
                     | _ => RErr (s "is not supported") end.
Proof. exact cast_to_string_table. Qed.
Print Assumptions C03_casts.

(** a parameter is evaluated once: a successful GetParam caches the value and every later GetParam returns it unchanged; an
    error is not cached *)
Theorem C03_param_cached : forall f st id st' v,
  get_param f st id = (st', ROk v) -> lookup id (rt_pcache st') = Some v /\ forall f', get_param (S f') st' id = (st', ROk v).
Proof. intros f st id st' v H. split; [exact (get_param_cached f st id st' v H) | exact (get_param_again f st id st' v H)]. Qed.
Print Assumptions C03_param_cached.

Theorem C03_param_error_not_cached : forall f st id st' e,
  get_param f st id = (st', RErr e) -> lookup id (rt_pcache st') = lookup id (rt_pcache st).
Proof. exact get_param_err_not_cached. Qed.
Print Assumptions C03_param_error_not_cached.

(** ---- end to end, across compile time and run time (Proofs/EscProofs.v): a parameter whose value is [escape x] - the string x
    with every percent sign doubled - compiles, loads and evaluates to exactly x, whatever else x contains (quotes, backslashes,
    newlines, any bytes; x may look like a service reference, a value expression or the container keyword) ---- *)
From GV Require Import Proofs.EscProofs.

Theorem C03_escaped_parameter_evaluates_to_itself : forall E : Env.env, Spec.Pipeline.std_env E ->
  forall (B : str) (i : Input.input) (o : Compile.output) (c : Compile.cst) (envv : list (str * str)) (p x : str) (fuel : nat),
    Runner.compile E B i = (o, None, c) ->
    lookup p (Input.i_params i) = Some (Input.PStr (escape x)) ->
    3 <= fuel ->
    RT.get_param fuel (Load.load E o c envv) p = (cached (Load.load E o c envv) p x, RT.ROk (RT.VStr x)).
Proof. exact ESC_param_end_to_end. Qed.
Print Assumptions C03_escaped_parameter_evaluates_to_itself.

(** the tokenizer sees only literal chunks and doubled-percent chunks in it, with no dependency *)
Theorem C03_escaped_tokens : forall E : Env.env, Spec.Pipeline.std_env E -> forall fns, no_fn_claims_pct E fns -> forall (x : str) (st : Imports.ist),
  exists toks, Token.tokenize E fns (escape x) st = (toks, None, st) /\
    Forall (fun t => is_lit_token E t \/ is_pct_token E t) toks /\ concat (map denote toks) = x /\ flat_map Token.tk_depends toks = [].
Proof. exact ESC_tokenize. Qed.
Print Assumptions C03_escaped_tokens.

(** as a service / decorator argument the same holds unless one of the earlier argument forms claims the string, and exactly then *)
Theorem C03_escaped_argument_value : forall E : Env.env, Spec.Pipeline.std_env E ->
  tpl_not_value (Env.k_tpl_dep_provider E) -> tpl_not_value (Env.k_tpl_dep_concat E) ->
  forall depsf fns (i : Imports.ist) (c : Compile.cst) (x : str) (fuel : nat) (st : RT.rt) (b : RT.bag),
    no_fn_claims_pct E (Compile.cs_fns c) -> caught_earlier E (escape x) = false -> 3 <= fuel ->
    RT.resolve_dep depsf fuel st b (Load.rdep_of E fns i (fst (fst (Compile.resolve_arg E (Input.PStr (escape x)) c)))) = (st, b, RT.ROk (RT.VStr x)).
Proof. exact ESC_arg_value. Qed.
Print Assumptions C03_escaped_argument_value.

Theorem C03_claimed_by_earlier_form_iff : forall (E : Env.env) (y : str),
  caught_earlier E y = false <->
  Re.site_match (Env.re_rs_valuePrefix E) y = false /\ Re.site_match (Env.re_rs_servicePrefix E) y = false /\
  Re.site_match (Env.re_rs_taggedPrefix E) y = false /\ y <> s "$gontainer".
Proof. exact caught_earlier_false. Qed.
Print Assumptions C03_claimed_by_earlier_form_iff.

(** for the regenerated environment the side conditions hold *)
Theorem C03_escaped_parameter_the_env : forall (B : str) (i : Input.input) (o : Compile.output) (c : Compile.cst) (envv : list (str * str)) (p x : str) (fuel : nat),
  Runner.compile Gen.EnvGen.the_env B i = (o, None, c) -> lookup p (Input.i_params i) = Some (Input.PStr (escape x)) -> 3 <= fuel ->
  RT.get_param fuel (Load.load Gen.EnvGen.the_env o c envv) p = (cached (Load.load Gen.EnvGen.the_env o c envv) p x, RT.ROk (RT.VStr x)).
Proof. exact the_env_param_end_to_end. Qed.
Print Assumptions C03_escaped_parameter_the_env.
