(** C10 — exit status, diagnostics and output-file contract of `build`.  Statements only. *)
From GV Require Import Base.Str Base.Gerr Model.Env Model.Input Model.Compile Model.Runner Spec.Pipeline
  Proofs.RunnerProofs Proofs.PipelineProofs Proofs.GerrProofs Gen.EnvGen Tie.EnvTie.

(** For every build version, flag combination, file-system answer (globs, file contents / read errors / YAML errors,
    formatter and write failures): the command does not panic, exits 0 or 1, and exits 0 iff it performed its single
    write; on failure nothing is written. *)
Theorem C10_exit0_iff_written : forall (B : str) (fl : flags) (w : world) (out : str),
  exists oc, run the_env B fl w out = Ok oc /\
    (oc_exit oc = 0 \/ oc_exit oc = 1) /\ (oc_exit oc = 0 <-> oc_wrote oc = true) /\
    (oc_exit oc = 0 -> oc_errors oc = []).
Proof.
  intros B fl w out. destruct (run_refines the_env the_env_std B fl w out) as (oc & Hr & He & Herr & Hw & _).
  exists oc. split; [exact Hr|]. rewrite He, Hw, Herr.
  destruct (pipeline_contract the_env B fl w) as [(A & C & D & _)|(A & C & _)]; rewrite A, C.
  - rewrite D. repeat split; auto.
  - repeat split; auto; discriminate.
Qed.
Print Assumptions C10_exit0_iff_written.

(** the count printed on the END line of the failing step is the length of the numbered error list *)
Theorem C10_count_eq_list : forall (B : str) (fl : flags) (w : world) (out : str) st g evs,
  run_core the_env B fl w out = ((st, Some g), evs) ->
  (exists pre name, evs = pre ++ [EvAligned (name ++ s " END") (k_xmark the_env) (count_suffix g)]) /\
  length (numbered (collection g)) = length (collection g).
Proof.
  intros B fl w out st g evs H. split.
  - unfold run_core in H. eapply failing_step_count. exact H.
  - apply numbered_length.
Qed.
Print Assumptions C10_count_eq_list.

(** --quiet prints nothing and changes neither the exit status nor the write *)
Theorem C10_quiet : forall (B : str) (fl fl' : flags) (w : world) (out : str),
  f_ignore_params fl = f_ignore_params fl' -> f_ignore_services fl = f_ignore_services fl' -> f_quiet fl = true ->
  exists oc oc', run the_env B fl w out = Ok oc /\ run the_env B fl' w out = Ok oc' /\
    oc_stdout oc = [] /\ oc_exit oc = oc_exit oc' /\ oc_wrote oc = oc_wrote oc' /\ oc_errors oc = oc_errors oc'.
Proof.
  intros B fl fl' w out Hp Hs Hq.
  destruct (run_refines the_env the_env_std B fl w out) as (oc & Hr & He & Herr & Hw & _ & _ & Hquiet).
  destruct (run_refines the_env the_env_std B fl' w out) as (oc' & Hr' & He' & Herr' & Hw' & _).
  exists oc, oc'. rewrite (pipeline_quiet_stub the_env B fl fl' w Hp Hs) in *.
  repeat split; auto; congruence.
Qed.
Print Assumptions C10_quiet.

(** a non-zero exit is always accompanied by a non-empty numbered error list whose length is the count printed on the
    END line of the failing step; without --quiet the report ends with the "Errors:" section listing exactly them *)
Theorem C10_failure_has_errors : forall (B : str) (fl : flags) (w : world) (out : str) oc,
  run the_env B fl w out = Ok oc -> oc_exit oc = 1 ->
  oc_errors oc <> [] /\ numbered (oc_errors oc) <> [] /\
  (f_quiet fl = false -> exists report, oc_stdout oc = report ++ [s "Errors:"] ++ numbered (oc_errors oc)) /\
  exists st g evs pre name,
    run_core the_env B fl w out = ((st, Some g), evs) /\ oc_errors oc = collection g /\
    evs = pre ++ [EvAligned (name ++ s " END") (k_xmark the_env) (count_suffix g)] /\
    (1 <= length (collection g))%nat /\
    count_suffix g = s " (" ++ dec_of_N (N.of_nat (length (oc_errors oc)))
                       ++ (if Nat.ltb 1 (length (oc_errors oc)) then s " errors)" else s " error)").
Proof. intros B fl w out oc. exact (run_failure_has_errors the_env the_env_std B fl w out oc). Qed.
Print Assumptions C10_failure_has_errors.

(** every error value the model can build is a well-formed grouperror: no empty group anywhere in the tree *)
Theorem C10_errors_wellformed : forall (B : str) (fl : flags) (w : world) (out : str),
  wf_err (snd (fst (run_core the_env B fl w out))).
Proof. intros. apply run_core_wf. Qed.
Print Assumptions C10_errors_wellformed.

(** non-vacuity: a world in which the run succeeds and one in which reading fails *)
Example C10_ex_ok :
  let w := {| wd_globs := [{| gl_pattern := s "a.yaml"; gl_goquoted := s """a.yaml"""; gl_err := None; gl_matches := [s "a.yaml"] |}];
              wd_files := [(s "a.yaml", FInput empty_input)]; wd_build_err := None; wd_write_err := None |} in
  match run the_env (s "1.2.3") {| f_ignore_params := false; f_ignore_services := false; f_quiet := false; f_stub := false |} w (s "o.go") with
  | Ok oc => oc_exit oc = 0 /\ oc_wrote oc = true
  | Panic _ => False
  end.
Proof. vm_compute. split; reflexivity. Qed.
Example C10_ex_fail :
  let w := {| wd_globs := [{| gl_pattern := s "*.yaml"; gl_goquoted := s """*.yaml"""; gl_err := None; gl_matches := [] |}];
              wd_files := []; wd_build_err := None; wd_write_err := None |} in
  match run the_env (s "1.2.3") {| f_ignore_params := false; f_ignore_services := false; f_quiet := false; f_stub := false |} w (s "o.go") with
  | Ok oc => oc_exit oc = 1 /\ oc_wrote oc = false /\ oc_errors oc = [s "runner.StepReadConfig: could not process any files"]
  | Panic _ => False
  end.
Proof. vm_compute. repeat split; reflexivity. Qed.
