(** C04 — tagged collections and decorators are applied as documented (run-time semantics Runtime/RT.v). *)
From GV Require Import Base.Str Base.Sort Model.Compile Runtime.RT Proofs.SortProofs Proofs.RTProofs.
From Coq Require Import List ZArith.
Import ListNotations.
From Coq Require Import Sorting.Permutation.

(** the services injected for a tag are exactly the services carrying it *)
Theorem C04_tagged_exactly_carriers : forall st t n,
  In n (tagged st t) <-> exists d p, In (n, d) (rt_services st) /\ lookup t (sd_tags d) = Some p.
Proof.
  intros st t n. unfold tagged. rewrite in_map_iff. split.
  - intros ((n', p) & <- & H). apply In_sort_by in H. apply in_flat_map in H as ((n0, d) & Hin & H0).
    cbn [fst snd] in H0. destruct (lookup t (sd_tags d)) as [p'|] eqn:Hl; [|contradiction].
    destruct H0 as [H0|[]]. injection H0 as <- <-. exists d, p'. auto.
  - intros (d & p & Hin & Hl). exists (n, p). split; [reflexivity|]. apply In_sort_by. apply in_flat_map.
    exists (n, d). split; [exact Hin|]. cbn [fst snd]. rewrite Hl. left. reflexivity.
Qed.
Print Assumptions C04_tagged_exactly_carriers.

(** the order is a strict total order on (priority, name): higher priority first, then the smaller name *)
Theorem C04_order_irreflexive : forall a, tag_lt a a = false.
Proof. intros [n p]. unfold tag_lt. cbn. rewrite Z.eqb_refl. apply str_ltb_irrefl. Qed.
Theorem C04_order_by_priority_then_name : forall n1 p1 n2 p2,
  tag_lt (n1, p1) (n2, p2) = true <-> (p2 < p1)%Z \/ (p1 = p2 /\ str_ltb n1 n2 = true).
Proof.
  intros. unfold tag_lt. cbn. destruct (Z.eqb_spec p1 p2) as [->|Hn].
  - split; [intros H; right; auto|intros [H|[_ H]]; [lia|exact H]].
  - rewrite Z.ltb_lt. split; [intros H; left; exact H|intros [H|[H _]]; [exact H|contradiction]].
Qed.
Print Assumptions C04_order_by_priority_then_name.

(** decorators never change which tags a service carries nor the order of declaration: they are folded over the container's
    decorator list in order (structure of [get]); a decorator whose tag the service does not carry is skipped *)
Theorem C04_decorator_payload : forall dd id v args sr,
  VObj (dd_origin dd) (VStr (dd_tag dd) :: VStr id :: v :: args) [] [] sr =
  VObj (dd_origin dd) ([VStr (dd_tag dd); VStr id; v] ++ args) [] [] sr.
Proof. reflexivity. Qed.

(** ---- whole-collection statements (Proofs/RTProofs.v) ---- *)

(** the injected list is a permutation of the carriers of the tag ... *)
Theorem C04_tagged_is_permutation_of_carriers : forall (st : rt) (t : str),
  Permutation (tagged st t) (map fst (filter (carries t) (rt_services st))).
Proof. exact tagged_perm. Qed.
Print Assumptions C04_tagged_is_permutation_of_carriers.

(** ... and for any two positions of it, the earlier element has the strictly higher priority, or the same priority and the
    strictly smaller name: priority descending, then name ascending, for the whole list *)
Theorem C04_tagged_order : forall (st : rt) (t : str) (l1 : list str) (n1 : str) (l2 : list str) (n2 : str) (l3 : list str),
  NoDup (map fst (rt_services st)) ->
  tagged st t = l1 ++ n1 :: l2 ++ n2 :: l3 ->
  exists p1 p2 : Z, prio_of st t n1 = Some p1 /\ prio_of st t n2 = Some p2 /\ ((p2 < p1)%Z \/ p1 = p2 /\ str_ltb n1 n2 = true).
Proof. exact tagged_order_strict. Qed.
Print Assumptions C04_tagged_order.

(** `!tagged t` injects the list of the services [tagged st t] obtained by Get one after the other, in that order *)
Theorem C04_tagged_dependency : forall depsf f st b t st' b' v,
  resolve_dep depsf (S f) st b (DTag t) = (st', b', ROk v) <->
  (exists vs : list value, gets_chain depsf f st b (tagged st t) st' b' vs /\ v = VList vs).
Proof. exact resolve_dep_tag_ok. Qed.
Print Assumptions C04_tagged_dependency.

(** decorators apply in declaration order: the outermost wrapper is produced by the last applicable decorator and receives the
    result of all earlier ones as the decorated service *)
Theorem C04_decorators_in_declaration_order : forall depsf f d id l1 dd l2 st b v st1 b1 v1 st2 b2 args,
  decs_loop depsf f d id l1 st b v = (st1, b1, ROk v1) ->
  applies d dd = true ->
  (forall dd' : ddef, In dd' l2 -> lookup (dd_tag dd') (sd_tags d) = None) ->
  resolve_deps depsf f st1 b1 (dd_deps dd) = (st2, b2, ROk args) ->
  decs_loop depsf f d id (l1 ++ dd :: l2) st b v =
  (decorated_state st2 dd, b2, ROk (VObj (dd_origin dd) (VStr (dd_tag dd) :: VStr id :: v1 :: args) [] [] (rt_serial st2 + 1))).
Proof. exact decs_loop_last. Qed.
Print Assumptions C04_decorators_in_declaration_order.

(** ---- end to end (compile, then load into the run-time model; Proofs/E2EProofs.v): the run-time state holds what the configuration
    declares, in the declared order.  [Hsteps] is the order of the compile steps of the shipped tool (proved of the live wiring in
    Tie/EnvTie.v). ---- *)
From GV Require Import Base.Str Base.Sort Model.Env Model.Input Model.Merge Model.Imports Model.Compile Model.Runner Runtime.RT Runtime.Load Proofs.RefsProofs Proofs.MergeProofs Proofs.E2EProofs.
From Coq Require Import List ZArith.
Import ListNotations.

(** the decorators of the loaded container are, in order, the declared ones - own tag, own function (import expanded against the final
    alias table), own arguments compiled one by one: nothing is sorted, grouped, shared or dropped *)
Theorem C04_loaded_decorators_are_the_declared_ones : forall (E : env),
  w_compiler_steps E = [CValidate; CMeta; CParams; CServices; CDecorators] ->
  forall B i o c envv, compile E B i = ((o, None), c) ->
  Forall2 (loaded_decorator E (meta_fns E i) (cs_imports c)) (i_decorators i) (rt_decorators (load E o c envv)).
Proof. exact e2e_decorators. Qed.
Print Assumptions C04_loaded_decorators_are_the_declared_ones.

(** ... across merged files: file order *)
Theorem C04_loaded_decorators_in_file_order : forall (E : env),
  w_compiler_steps E = [CValidate; CMeta; CParams; CServices; CDecorators] ->
  forall B files o c envv, compile E B (merge_all files) = ((o, None), c) ->
  Forall2 (loaded_decorator E (meta_fns E (merge_all files)) (cs_imports c)) (concat (map i_decorators files)) (rt_decorators (load E o c envv)).
Proof. exact e2e_decorators_merge_all. Qed.
Print Assumptions C04_loaded_decorators_in_file_order.

(** the order of [!tagged t] is decided by the DECLARED priorities (then by name) *)
Theorem C04_tagged_order_by_declared_priority : forall (E : env),
  w_compiler_steps E = [CValidate; CMeta; CParams; CServices; CDecorators] ->
  forall B i o c envv t l1 n1 l2 n2 l3, compile E B i = ((o, None), c) -> NoDup (keys (i_services i)) ->
  tagged (load E o c envv) t = l1 ++ n1 :: l2 ++ n2 :: l3 ->
  exists d1 d2 p1 p2, lookup n1 (i_services i) = Some d1 /\ lookup n2 (i_services i) = Some d2 /\
    declared_prio d1 t = Some p1 /\ declared_prio d2 t = Some p2 /\ ((p2 < p1)%Z \/ p1 = p2 /\ str_ltb n1 n2 = true).
Proof. exact e2e_tagged_order. Qed.
Print Assumptions C04_tagged_order_by_declared_priority.
