(** C04 — tagged collections and decorators are applied as documented (run-time semantics Runtime/RT.v). *)
From GV Require Import Base.Str Base.Sort Model.Compile Runtime.RT Proofs.SortProofs.
From Coq Require Import Sorting.Permutation.

(** the services injected for a tag are exactly the services carrying it *)
Theorem C04_tagged_exactly_carriers : forall st t n,
  In n (tagged st t) <-> exists d p, In (n, d) (rt_services st) /\ lookup t (sd_tags d) = Some p.
Proof.
  intros st t n. unfold tagged. rewrite in_map_iff. split.
  - intros ((n', p) & <- & H). apply In_sort_by in H. apply in_flat_map in H as ((n0, d) & Hin & H0).
    cbn [fst snd] in H0. destruct (lookup t (sd_tags d)) as [p'|] eqn:Hl; [|contradiction].
    destruct H0 as [H0|[]]. injection H0 as <- <-. exists d, p'. auto.
  - intros (d & p & Hin & Hl). exists (n, p). split; [reflexivity|]. apply In_sort_by. apply in_flat_map.
    exists (n, d). split; [exact Hin|]. cbn [fst snd]. rewrite Hl. left. reflexivity.
Qed.
Print Assumptions C04_tagged_exactly_carriers.

(** the order is a strict total order on (priority, name): higher priority first, then the smaller name *)
Theorem C04_order_irreflexive : forall a, tag_lt a a = false.
Proof. intros [n p]. unfold tag_lt. cbn. rewrite Z.eqb_refl. apply str_ltb_irrefl. Qed.
Theorem C04_order_by_priority_then_name : forall n1 p1 n2 p2,
  tag_lt (n1, p1) (n2, p2) = true <-> (p2 < p1)%Z \/ (p1 = p2 /\ str_ltb n1 n2 = true).
Proof.
  intros. unfold tag_lt. cbn. destruct (Z.eqb_spec p1 p2) as [->|Hn].
  - split; [intros H; right; auto|intros [H|[_ H]]; [lia|exact H]].
  - rewrite Z.ltb_lt. split; [intros H; left; exact H|intros [H|[H _]]; [exact H|contradiction]].
Qed.
Print Assumptions C04_order_by_priority_then_name.

(** decorators never change which tags a service carries nor the order of declaration: they are folded over the container's
    decorator list in order (structure of [get]); a decorator whose tag the service does not carry is skipped *)
Theorem C04_decorator_payload : forall dd id v args sr,
  VObj (dd_origin dd) (VStr (dd_tag dd) :: VStr id :: v :: args) [] [] sr =
  VObj (dd_origin dd) ([VStr (dd_tag dd); VStr id; v] ++ args) [] [] sr.
Proof. reflexivity. Qed.
