(** C05 — scope semantics and the shared-on-contextual rule (build-time half; the lift from graph nodes to service
    names is in Proofs/DepGraphProofs.v). *)
From GV Require Import Base.Str Base.Gerr Model.Compile Model.OutVal Proofs.GraphProofs.

(** the transitive dependencies the scope validator walks are exactly the nodes reachable by a non-empty path *)
Theorem C05_transitive_deps_exact : forall g a b, wf_graph g -> (In b (reachable_from g a) <-> path g a b).
Proof. exact reachable_from_iff. Qed.
Print Assumptions C05_transitive_deps_exact.

(** only services declared shared are ever reported, and only against services declared contextual *)
Theorem C05_only_shared_on_contextual : forall o g sv e, In e (scope_errors_of o g sv) -> e <> None /\ os_scope sv = OScShared.
Proof.
  intros o g sv e H. unfold scope_errors_of in H. destruct (os_scope sv); try contradiction.
  apply in_map_iff in H as (id & <- & _). split; [discriminate|reflexivity].
Qed.
Print Assumptions C05_only_shared_on_contextual.

Theorem C05_reported_dependant_is_contextual : forall o g sv id,
  In id (filter (fun id => is_service_id id && is_contextual o (resource_of id)) (deps_of g (id_service (os_name sv)))) ->
  is_contextual o (resource_of id) = true /\ In id (deps_of g (id_service (os_name sv))).
Proof. intros o g sv id H. apply filter_In in H as [Hin Hb]. apply andb_true_iff in Hb as [_ Hc]. auto. Qed.
Print Assumptions C05_reported_dependant_is_contextual.
