(** C05 — scope semantics and the shared-on-contextual rule (build-time half): exactness of the scope rule with respect to the
    documented dependency relation [svc_dep] (arguments, fields, calls, !tagged carriers, decorators on carried tags). *)
From GV Require Import Base.Str Base.Gerr Model.Compile Model.OutVal Proofs.GraphProofs Proofs.DepGraphProofs.

(** a scope diagnostic is printed exactly for the pairs (s, s'): s declared shared, s' declared contextual, s <> s', s depends transitively on s' *)
Theorem C05_reject_iff :
  forall (o : output) (m : str),
         In m (collect (validate_scopes o)) <->
         (exists (sa : oservice) (b : str),
            In sa (o_services o) /\
            os_scope sa = OScShared /\
            os_name sa <> b /\
            Relation_Operators.clos_trans str (svc_dep o) (os_name sa) b /\
            is_contextual o b = true /\ m = scope_msg (os_name sa) b).
Proof. exact (@validate_scopes_spec). Qed.
Print Assumptions C05_reject_iff.

(** no configuration is rejected for scope reasons unless such a pair exists *)
Theorem C05_accept_iff :
  forall o : output,
         validate_scopes o = None <->
         (forall (sa : oservice) (b : str),
          In sa (o_services o) ->
          os_scope sa = OScShared ->
          os_name sa <> b ->
          Relation_Operators.clos_trans str (svc_dep o) (os_name sa) b -> is_contextual o b = false).
Proof. exact (@validate_scopes_none). Qed.
Print Assumptions C05_accept_iff.

(** the same, stated on declared services when names are unique *)
Theorem C05_accept_iff_unique_names :
  forall o : output,
         NoDup (map os_name (o_services o)) ->
         validate_scopes o = None <->
         (forall sa sb : oservice,
          In sa (o_services o) ->
          In sb (o_services o) ->
          os_scope sa = OScShared ->
          os_scope sb = OScContextual ->
          os_name sa <> os_name sb -> ~ Relation_Operators.clos_trans str (svc_dep o) (os_name sa) (os_name sb)).
Proof. exact (@validate_scopes_none_uniq). Qed.
Print Assumptions C05_accept_iff_unique_names.

(** reachability between service nodes of the built graph = transitive closure of the documented dependency relation *)
Theorem C05_graph_reach_is_documented_dependency :
  forall (o : output) (a b : str),
         spath (dep_calls o) (id_service a) (id_service b) <->
         Relation_Operators.clos_trans str (svc_dep o) a b.
Proof. exact (@service_reach). Qed.
Print Assumptions C05_graph_reach_is_documented_dependency.

(** the dependency list the validator walks: everything reachable, the service itself excluded *)
Theorem C05_transitive_deps_exact :
  forall (calls : list (str * str)) (id y : str),
         In y (deps_of (build calls g0) id) <-> y <> id /\ spath calls id y.
Proof. exact (@deps_of_spec). Qed.
Print Assumptions C05_transitive_deps_exact.


(** ** run-time half: instance identity (Runtime/RT.v mirrors container.get) *)
From GV Require Import Runtime.RT.

(** shared: once an instance is cached, every later Get returns it and nothing is constructed (state unchanged) *)
Theorem C05_shared_reused : forall depsf fuel st b id d v,
  lookup id (rt_services st) = Some d -> resolve_scope depsf st id = OScShared -> lookup id (rt_shared st) = Some v ->
  get depsf (S fuel) st b id = ((st, b), ROk v).
Proof. intros depsf fuel st b id d v Hl Hs Hc. cbn [get]. rewrite Hl. cbv zeta. rewrite Hs, Hc. reflexivity. Qed.
Print Assumptions C05_shared_reused.

(** contextual: the instance of the current call tree / attached context (its bag) is reused *)
Theorem C05_contextual_reused : forall depsf fuel st b id d v,
  lookup id (rt_services st) = Some d -> resolve_scope depsf st id = OScContextual -> lookup id b = Some v ->
  get depsf (S fuel) st b id = ((st, b), ROk v).
Proof. intros depsf fuel st b id d v Hl Hs Hc. cbn [get]. rewrite Hl. cbv zeta. rewrite Hs, Hc. reflexivity. Qed.
Print Assumptions C05_contextual_reused.

(** a contextual instance is looked up in the bag of the current context only: another context's bag is never consulted *)
Theorem C05_contextual_isolated : forall depsf fuel st b b' id,
  resolve_scope depsf st id = OScContextual -> lookup id b = lookup id b' ->
  snd (get depsf (S fuel) st b id) = snd (get depsf (S fuel) st b id) /\
  (forall v, lookup id b = Some v -> snd (get depsf (S fuel) st b' id) = ROk v \/ lookup id (rt_services st) = None).
Proof.
  intros depsf fuel st b b' id Hs Hb. split; [reflexivity|]. intros v Hv.
  destruct (lookup id (rt_services st)) as [d|] eqn:Hl; [left|right; reflexivity].
  rewrite Hb in Hv. rewrite (C05_contextual_reused depsf fuel st b' id d v Hl Hs Hv). reflexivity.
Qed.

(** the default scope: contextual iff the service transitively depends on a service declared contextual, otherwise shared *)
Theorem C05_default_scope : forall depsf st n, declared_scope st n = OScDefault ->
  resolve_scope depsf st n = (if existsb (fun d => match declared_scope st d with OScContextual => true | _ => false end) (depsf st n) then OScContextual else OScShared).
Proof. intros depsf st n H. unfold resolve_scope. rewrite H. reflexivity. Qed.
Print Assumptions C05_default_scope.
Theorem C05_declared_scope_kept : forall depsf st n, declared_scope st n <> OScDefault -> resolve_scope depsf st n = declared_scope st n.
Proof. intros depsf st n H. unfold resolve_scope. destruct (declared_scope st n); congruence. Qed.

From GV Require Import Runtime.RT Runtime.Load Proofs.RTProofs Proofs.HistProofs.
From Coq Require Import List NArith.
Import ListNotations.

(** ---- instance identity over WHOLE HISTORIES of operations on one container (Proofs/HistProofs.v): [run_ops st ops] executes any
    list of Get / GetInContext / GetTaggedBy / GetParam / OverrideParam / OverrideService / new-context operations ---- *)

(** shared: any two successful gets of the service - with or without context, at any two positions of any history without service
    overrides (parameter overrides allowed) - return the same object *)
Theorem C05_shared_identity_over_histories : forall (id : str) (ops : list op) (st st' : rt) (rs : list (result value)),
  run_ops st ops = (st', rs) -> resolve_scope rt_depsf st id = Compile.OScShared -> no_override_service ops ->
  forall (i j : nat) (oi oj : op) (vi vj : value),
    nth_error ops i = Some oi -> is_get_of id oi -> nth_error rs i = Some (ROk vi) ->
    nth_error ops j = Some oj -> is_get_of id oj -> nth_error rs j = Some (ROk vj) -> vi = vj.
Proof. exact shared_identity. Qed.
Print Assumptions C05_shared_identity_over_histories.

(** contextual: within one context the same object (as long as the context is not re-created in between) ... *)
Theorem C05_contextual_same_context_over_histories : forall (id : str) (c : N) (ops : list op) (st st' : rt) (rs : list (result value)),
  run_ops st ops = (st', rs) -> resolve_scope rt_depsf st id = Compile.OScContextual -> no_override_service ops ->
  forall (i j : nat) (vi vj : value),
    (forall (m : nat) (o : op), i < m < j \/ j < m < i -> nth_error ops m = Some o -> o <> ONewCtx c) ->
    nth_error ops i = Some (OGetCtx c id) -> nth_error rs i = Some (ROk vi) ->
    nth_error ops j = Some (OGetCtx c id) -> nth_error rs j = Some (ROk vj) -> vi = vj.
Proof. exact contextual_same_context. Qed.
Print Assumptions C05_contextual_same_context_over_histories.

(** ... and in two different contexts two different instances, never a shared one *)
Theorem C05_contextual_distinct_contexts_over_histories : forall (id : str) (ops : list op) (st st' : rt) (rs : list (result value)),
  run_ops st ops = (st', rs) -> resolve_scope rt_depsf st id = Compile.OScContextual -> ctor_at id st -> ctx_inv id st -> no_override_service ops ->
  forall (i j : nat) (c1 c2 : N) (vi vj : value), c1 <> c2 ->
    nth_error ops i = Some (OGetCtx c1 id) -> nth_error rs i = Some (ROk vi) ->
    nth_error ops j = Some (OGetCtx c2 id) -> nth_error rs j = Some (ROk vj) ->
    exists si sj : N, top_serial vi = Some si /\ top_serial vj = Some sj /\ si <> sj.
Proof. exact contextual_distinct_contexts. Qed.
Print Assumptions C05_contextual_distinct_contexts_over_histories.

(** non_shared: every get builds a fresh instance (strictly increasing serial numbers along the history) *)
Theorem C05_non_shared_fresh_over_histories : forall (id : str) (ops : list op) (st st' : rt) (rs : list (result value)),
  run_ops st ops = (st', rs) -> resolve_scope rt_depsf st id = Compile.OScNonShared -> ctor_at id st ->
  Forall (fun o : op => ~ overrides_service id o) ops ->
  forall (i j : nat) (oi oj : op) (vi vj : value), i < j ->
    nth_error ops i = Some oi -> is_get_of id oi -> nth_error rs i = Some (ROk vi) ->
    nth_error ops j = Some oj -> is_get_of id oj -> nth_error rs j = Some (ROk vj) ->
    exists si sj : N, top_serial vi = Some si /\ top_serial vj = Some sj /\ (si < sj)%N.
Proof. exact nonshared_fresh. Qed.
Print Assumptions C05_non_shared_fresh_over_histories.

(** the hypotheses hold of every freshly loaded container *)
Theorem C05_loaded_container_invariants : forall E o c envv id,
  defs_le (load E o c envv) /\ serial_inv (load E o c envv) /\ ctx_inv id (load E o c envv).
Proof. intros. destruct (load_serial_inv E o c envv) as [A B]. split; [exact A|]. split; [exact B|]. apply ctx_inv_load. Qed.
Print Assumptions C05_loaded_container_invariants.

(** ---- end to end (Proofs/E2EProofs.v): the scope the run-time model works with is the declared one (the default when none is declared),
    placeholders included ---- *)
From GV Require Import Base.Str Base.Sort Model.Env Model.Input Model.Merge Model.Imports Model.Compile Model.Runner Runtime.RT Runtime.Load Proofs.RefsProofs Proofs.E2EProofs.
From Coq Require Import List ZArith.
Import ListNotations.
Theorem C05_loaded_scope_is_the_declared_one : forall (E : env),
  w_compiler_steps E = [CValidate; CMeta; CParams; CServices; CDecorators] ->
  forall B i o c envv k, compile E B i = ((o, None), c) ->
  declared_scope (load E o c envv) k = match lookup k (i_services i) with Some d => oscope_of (sv_scope d) | None => OScDefault end.
Proof. exact e2e_scope. Qed.
Print Assumptions C05_loaded_scope_is_the_declared_one.
