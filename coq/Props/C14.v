(** C14 — package references resolve to exactly the package the alias table denotes; local names are unique legal identifiers. *)
From GV Require Import Base.Str Base.Sort Model.Imports Proofs.ImportsProofs.

(** an alias followed by a sub-path denotes alias-path/sub-path *)
Theorem C14_alias_whole_segment_hit :
  forall (st : ist) (seg r : list ascii) (path : str),
         ~ In "/"%char seg ->
         lookup seg (is_prefixes st) = Some path ->
         decorate_import st (seg ++ "/"%char :: r) = path ++ "/"%char :: r.
Proof. exact (@decorate_import_hit_rest). Qed.
Print Assumptions C14_alias_whole_segment_hit.

(** a bare alias denotes its path *)
Theorem C14_alias_whole_hit :
  forall (st : ist) (seg : list ascii) (path : str),
         ~ In "/"%char seg -> lookup seg (is_prefixes st) = Some path -> decorate_import st seg = path.
Proof. exact (@decorate_import_hit_whole). Qed.
Print Assumptions C14_alias_whole_hit.

(** a reference whose first segment is not an alias is taken literally: aliases match whole path segments only *)
Theorem C14_alias_miss :
  forall (st : ist) (imp : str),
         ~ In (fst (cut_slash imp)) (keys (is_prefixes st)) -> decorate_import st imp = imp.
Proof. exact (@decorate_import_miss). Qed.
Print Assumptions C14_alias_miss.

(** these are the only three cases *)
Theorem C14_resolution_cases :
  forall (st : ist) (imp : str),
         decorate_import st imp = imp \/
         (exists (seg : list ascii) (path : str),
            ~ In "/"%char seg /\
            lookup seg (is_prefixes st) = Some path /\
            (imp = seg /\ decorate_import st imp = path \/
             (exists r : list ascii,
                imp = seg ++ "/"%char :: r /\ decorate_import st imp = path ++ "/"%char :: r))).
Proof. exact (@decorate_import_cases). Qed.
Print Assumptions C14_resolution_cases.

(** the same package is imported once: asking again returns the same local name and changes nothing *)
Theorem C14_once :
  forall (st : ist) (p a : str) (st' : ist), alias_abs st p = (a, st') -> alias_abs st' p = (a, st').
Proof. exact (@alias_abs_idem). Qed.
Print Assumptions C14_once.

(** the import table records the package under the returned name *)
Theorem C14_registered :
  forall (st : ist) (p a : str) (st' : ist),
         alias_abs st p = (a, st') -> lookup p (is_imports st') = Some a.
Proof. exact (@alias_abs_lookup). Qed.
Print Assumptions C14_registered.

(** names already handed out never change *)
Theorem C14_stable :
  forall (st : ist) (p a : str) (st' : ist) (q b : str),
         alias_abs st p = (a, st') -> lookup q (is_imports st) = Some b -> lookup q (is_imports st') = Some b.
Proof. exact (@alias_abs_stable). Qed.
Print Assumptions C14_stable.

(** different packages never share a local name *)
Theorem C14_injective :
  forall (st : ist) (p q a : str),
         inv st -> lookup p (is_imports st) = Some a -> lookup q (is_imports st) = Some a -> p = q.
Proof. exact (@local_names_unique_lookup). Qed.
Print Assumptions C14_injective.

(** the local names of the import block are pairwise distinct *)
Theorem C14_names_nodup :
  forall st : ist, inv st -> NoDup (map snd (is_imports st)).
Proof. exact (@local_names_NoDup). Qed.
Print Assumptions C14_names_nodup.

(** every local name is a legal Go identifier even if the last path element contains other characters *)
Theorem C14_names_legal :
  forall (n : N) (p : str),
         (exists t : list ascii, local_name n p = "i"%char :: t) /\
         is_alpha "i" = true /\ Forall ident_char (local_name n p).
Proof. exact (@local_name_go_identifier). Qed.
Print Assumptions C14_names_legal.

(** the hexadecimal counter that makes names unique is printed injectively *)
Theorem C14_hex_injective :
  forall a b : N, hex_of_N a = hex_of_N b -> a = b.
Proof. exact (@hex_of_N_inj). Qed.
Print Assumptions C14_hex_injective.

(** the table invariant (counter = number of imports, unique paths, names derived from positions) is kept by every lookup *)
Theorem C14_invariant_kept :
  forall (st : ist) (imp : str), inv st -> inv (snd (alias st imp)).
Proof. exact (@inv_alias). Qed.
Print Assumptions C14_invariant_kept.

(** the import block lists exactly the recorded packages, sorted by path *)
Theorem C14_import_block_is_table :
  forall st : ist, Permutation.Permutation (imports_sorted st) (is_imports st).
Proof. exact (@imports_sorted_perm). Qed.
Print Assumptions C14_import_block_is_table.

