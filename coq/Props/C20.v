(** C20 — the generated container is safe under concurrent use (partial: the locking protocol of the runtime library is modelled by
    Runtime/Conc.v; real schedules are sampled by the probe under the race detector). *)
From GV Require Import Base.Str Runtime.Conc.

Theorem C20_initially_nothing_built : forall ctx_of i c, built (init ctx_of) i = 0 /\ built_ctx (init ctx_of) c i = 0 /\ shared_cache (init ctx_of) i = false.
Proof. intros. cbn. auto. Qed.
Print Assumptions C20_initially_nothing_built.
