(** C20 — the generated container is safe under concurrent use.
    (partial: the locking protocol of the external runtime library is modelled by Runtime/Conc.v - per-service mutex,
    check-construct-store, one cache per context - and is not verified against its source; real schedules are sampled by the probe
    under the race detector.)  Statements only; proofs in Proofs/ConcProofs.v.
    [reach C (init ctx_of) st]: st is reachable from the empty container by ANY interleaving of steps of any threads, each thread
    [t] working in its context [ctx_of t].  Dependencies may be arbitrary (even cyclic: a cycle deadlocks, it never double-builds). *)
From Coq Require Import List Arith.
From GV Require Import Base.Str Runtime.Conc Proofs.ConcProofs.
Import ListNotations.

(** a shared service is constructed at most once per container, in every reachable state of every schedule; once it is cached it
    has been constructed exactly once *)
Theorem C20_shared_at_most_once : forall (C : cfg) (ctx_of : tid -> cid) (st : state) (i : sid),
  reach C (init ctx_of) st -> kind C i = KShared ->
  built st i <= 1 /\ (shared_cache st i = true -> built st i = 1).
Proof. exact shared_built_at_most_once. Qed.
Print Assumptions C20_shared_at_most_once.

(** a contextual service is constructed at most once per context *)
Theorem C20_contextual_at_most_once_per_context : forall (C : cfg) (ctx_of : tid -> cid) (st : state) (i : sid) (c : cid),
  reach C (init ctx_of) st -> kind C i = KContextual ->
  built_ctx st c i <= 1 /\ (ctx_cache st c i = true -> built_ctx st c i = 1).
Proof. exact contextual_built_at_most_once. Qed.
Print Assumptions C20_contextual_at_most_once_per_context.

(** contexts are isolated: a step of a thread working in one context changes neither the cache nor the construction counters of
    any other context; neither does a whole run of threads outside that context *)
Theorem C20_context_isolation_step : forall (C : cfg) (st : state) (t : tid) (st' : state) (c' : cid) (i : sid),
  step C st t st' -> c' <> t_ctx (threads st t) ->
  ctx_cache st' c' i = ctx_cache st c' i /\ built_ctx st' c' i = built_ctx st c' i.
Proof. exact ctx_isolation. Qed.
Print Assumptions C20_context_isolation_step.

Theorem C20_context_isolation_run : forall (C : cfg) (c' : cid) (st st' : state),
  reach_by C (fun t : tid => t_ctx (threads st t) <> c') st st' ->
  forall i : sid, ctx_cache st' c' i = ctx_cache st c' i /\ built_ctx st' c' i = built_ctx st c' i.
Proof. exact ctx_isolation_run. Qed.
Print Assumptions C20_context_isolation_run.

(** a contextual instance is stored in the bag of the context of the thread that built it, and nowhere else; the context of a
    thread never changes *)
Theorem C20_store_goes_to_own_context : forall (C : cfg) (st : state) (t : tid) (st' : state) (i : sid) (rest : list frame),
  step C st t st' -> kind C i = KContextual ->
  t_stack (threads st t) = {| f_id := i; f_pc := PStore |} :: rest ->
  ctx_cache st' (t_ctx (threads st t)) i = true /\
  (forall (c' : cid) (j : sid), c' <> t_ctx (threads st t) \/ j <> i -> ctx_cache st' c' j = ctx_cache st c' j).
Proof. exact store_goes_to_own_bag. Qed.
Print Assumptions C20_store_goes_to_own_context.

Theorem C20_thread_context_fixed : forall (C : cfg) (ctx_of : tid -> cid) (st : state),
  reach C (init ctx_of) st -> forall t : tid, t_ctx (threads st t) = ctx_of t.
Proof. exact reach_ctx. Qed.
Print Assumptions C20_thread_context_fixed.

(** lock discipline: the mutex of a service is held exactly by the one frame that is past its acquire point - at most one such
    frame exists in the whole system (no two threads, and no two frames of one thread, are inside the critical section) *)
Theorem C20_lock_discipline : forall (C : cfg) (ctx_of : tid -> cid) (st : state) (i : sid),
  reach C (init ctx_of) st -> needs_lock C i = true ->
  (forall t : tid, locks st i = Some t <-> (exists fr : frame, In fr (t_stack (threads st t)) /\ f_id fr = i /\ f_pc fr <> PAcquire)) /\
  (forall (t1 t2 : tid) (n1 n2 : nat) (fr1 fr2 : frame),
     nth_error (t_stack (threads st t1)) n1 = Some fr1 -> f_id fr1 = i -> f_pc fr1 <> PAcquire ->
     nth_error (t_stack (threads st t2)) n2 = Some fr2 -> f_id fr2 = i -> f_pc fr2 <> PAcquire -> t1 = t2 /\ n1 = n2) /\
  (locks st i = None -> forall (t : tid) (fr : frame), In fr (t_stack (threads st t)) -> f_id fr = i -> f_pc fr = PAcquire).
Proof. exact lock_discipline. Qed.
Print Assumptions C20_lock_discipline.

(** non-shared services are never cached and never take a lock: every Get builds a fresh instance *)
Theorem C20_non_shared_fresh : forall (C : cfg) (ctx_of : tid -> cid) (st : state) (i : sid),
  reach C (init ctx_of) st -> kind C i = KNonShared ->
  (forall c, cached C st c i = false) /\ locks st i = None.
Proof.
  intros C ctx_of st i Hr Hk. split.
  - intro c. apply nonshared_never_cached. exact Hk.
  - exact (proj1 (nonshared_no_lock C ctx_of st i Hr Hk)).
Qed.
Print Assumptions C20_non_shared_fresh.

(** caches only grow, counters never decrease *)
Theorem C20_monotone : forall (C : cfg) (st st' : state), reach C st st' -> forall i : sid,
  (shared_cache st i = true -> shared_cache st' i = true) /\
  (forall c : cid, ctx_cache st c i = true -> ctx_cache st' c i = true) /\
  built st i <= built st' i /\ (forall c : cid, built_ctx st c i <= built_ctx st' c i).
Proof. exact reach_monotone. Qed.
Print Assumptions C20_monotone.

(** non-vacuity: a concrete interleaving (two threads in two contexts; service 0 shared depending on the contextual service 1) in
    which the second thread hits the cache of the shared service and builds its own contextual instance *)
Example C20_ex_trace : exists st1 st2 st3 : state,
  reach exC (init ex_ctx) st1 /\
  (built st1 0 = 1 /\ shared_cache st1 0 = true /\ built_ctx st1 0 1 = 1 /\ ctx_cache st1 0 1 = true /\ t_stack (threads st1 0) = [] /\ locks st1 0 = None) /\
  reach exC st1 st2 /\
  (t_stack (threads st2 1) = [{| f_id := 0; f_pc := PCheck |}] /\ locks st2 0 = Some 1 /\ cached exC st2 (t_ctx (threads st2 1)) 0 = true) /\
  step exC st2 1 (set_stack st2 1 [{| f_id := 0; f_pc := PRelease |}]) /\
  reach exC (set_stack st2 1 [{| f_id := 0; f_pc := PRelease |}]) st3 /\
  built st3 0 = 1 /\ built_ctx st3 0 1 = 1 /\ built_ctx st3 1 1 = 1 /\ ctx_cache st3 1 1 = true /\ built_ctx st3 2 1 = 0 /\
  t_stack (threads st3 0) = [] /\ t_stack (threads st3 1) = [] /\ locks st3 0 = None /\ locks st3 1 = None.
Proof. exact example_trace. Qed.

(** ---- parameters (Runtime/ConcParam.v mirrors GetParam / getParam / overrideParam of the runtime library: global RW lock,
    one mutex per parameter, check - evaluate - store; Proofs/ConcParamProofs.v).  Every reachable state of every schedule. ---- *)
From GV Require Import Runtime.ConcParam Proofs.ConcParamProofs.

(** concurrent readers only (the setting of the property): every parameter is evaluated at most once *)
Theorem C20_parameter_evaluated_at_most_once : forall (d0 : CP.pid -> CP.pdef) (st : CP.state) (p : CP.pid),
  CP.reach (CP.init d0) st -> CP.overrides st p = 0 -> CP.invalidations st p = 0 -> CP.evaluated st p <= 1.
Proof. exact CPP.param_evaluated_at_most_once. Qed.
Print Assumptions C20_parameter_evaluated_at_most_once.

(** with writers: at most one evaluation per cache epoch *)
Theorem C20_parameter_evaluations_bounded : forall (d0 : CP.pid -> CP.pdef) (st : CP.state) (p : CP.pid),
  CP.reach (CP.init d0) st -> CP.evaluated st p <= 1 + CP.overrides st p + CP.invalidations st p.
Proof. exact CPP.param_evaluated_bound. Qed.
Print Assumptions C20_parameter_evaluations_bounded.

(** a cached parameter was evaluated (in this epoch) exactly once, and stays cached with no further evaluation until it is overridden *)
Theorem C20_parameter_cache_consistent : forall (d0 : CP.pid -> CP.pdef) (st : CP.state) (p : CP.pid),
  CP.reach (CP.init d0) st ->
  CP.fresh st p <= 1 /\ CP.fresh st p <= CP.evaluated st p /\ (CP.cache st p = true -> CP.fresh st p = 1 /\ 1 <= CP.evaluated st p).
Proof. exact CPP.param_cached_after_eval. Qed.
Print Assumptions C20_parameter_cache_consistent.

Theorem C20_parameter_cached_value_stable : forall (d0 : CP.pid -> CP.pdef) (st st' : CP.state) (p : CP.pid),
  CP.reach (CP.init d0) st -> CP.reach st st' -> CP.cache st p = true ->
  CP.overrides st' p = CP.overrides st p -> CP.invalidations st' p = CP.invalidations st p ->
  CP.cache st' p = true /\ CP.evaluated st' p = CP.evaluated st p.
Proof. exact CPP.cached_value_stable. Qed.
Print Assumptions C20_parameter_cached_value_stable.

(** at most one writer, and it excludes every reader *)
Theorem C20_writer_unique : forall (d0 : CP.pid -> CP.pdef) (st : CP.state) (t1 t2 : CP.tid),
  CP.reach (CP.init d0) st -> CP.is_writer_mode (CP.t_mode (CP.threads st t1)) = true -> CP.is_writer_mode (CP.t_mode (CP.threads st t2)) = true -> t1 = t2.
Proof. exact CPP.writer_unique. Qed.
Print Assumptions C20_writer_unique.

(** OUTSIDE the property (which speaks of concurrent readers): with one concurrent writer the model has a reachable state from
    which the reader that re-enters the read lock through a generated provider closure and the announced writer never move again.
    Recorded in DESIGN.md section 9 as an observation, not as a finding against C20. *)
Example C20_observation_reader_writer_deadlock := CPP.example_deadlock.
