(** C15 — todo placeholders and run-time overrides (run-time semantics Runtime/RT.v, Runtime/Load.v). *)
From GV Require Import Base.Str Model.Env Model.Input Model.Compile Runtime.RT Runtime.Load Proofs.RTProofs Proofs.OvrProofs.
From Coq Require Import List.
Import ListNotations.

(** constructing the container evaluates nothing: no parameter is cached, no constructor / function has run *)
Theorem C15_lazy_load : forall E o c envv, rt_pcache (load E o c envv) = [] /\ rt_shared (load E o c envv) = [] /\ rt_trace (load E o c envv) = [].
Proof. intros. unfold load. cbn. auto. Qed.
Print Assumptions C15_lazy_load.

(** the todo function always fails: with the given message, or "parameter todo" *)
Theorem C15_todo_default_message : forall st label, call_fn st (s "paramTodo") [] label = RErr (s "parameter todo").
Proof. reflexivity. Qed.
Print Assumptions C15_todo_default_message.
Example C15_todo_given_message : forall st label, call_fn st (s "paramTodo") (s """host is missing""") label = RErr (s "host is missing").
Proof. reflexivity. Qed.
(** a todo parameter read through GetParam: the error names the token *)
Example C15_todo_param_error :
  let st := {| rt_params := [(s "host", DPattern [KCall (s "paramTodo") (s """fill me""") (s "%todo(""fill me"")%")])]; rt_pcache := []; rt_services := []; rt_shared := [];
               rt_decorators := []; rt_bags := []; rt_serial := 0; rt_env := []; rt_trace := [] |} in
  snd (get_param 5 st (s "host")) = RErr (s "cannot execute %todo(""fill me"")%: provider returned error: fill me").
Proof. vm_compute. reflexivity. Qed.

(** OverrideParam replaces the definition and drops the cached value: the next GetParam evaluates the new definition *)
Theorem C15_override_param_visible : forall st p v,
  let st' := fst (step st (OOverrideParam p v)) in
  lookup p (rt_params st') = Some (DLit v) /\ lookup p (rt_pcache st') = None.
Proof.
  intros st p v. cbn [step fst rt_params rt_pcache]. unfold assoc_set, assoc_del. cbn [lookup]. rewrite str_eqb_refl. split; [reflexivity|].
  induction (rt_pcache st) as [|[k x] l IH]; [reflexivity|]. cbn [filter fst].
  destruct (str_eqb k p) eqn:Hk; cbn [negb]; [exact IH|]. cbn [lookup]. rewrite str_eqb_sym, Hk. exact IH.
Qed.
Print Assumptions C15_override_param_visible.

Theorem C15_override_param_then_get : forall st p v fuel,
  let st' := fst (step st (OOverrideParam p v)) in
  snd (get_param (S fuel) st' p) = ROk (value_of_prim v).
Proof.
  intros st p v fuel st'. destruct (C15_override_param_visible st p v) as [H1 H2]. fold st' in H1, H2.
  cbn [get_param]. rewrite H1, H2. reflexivity.
Qed.
Print Assumptions C15_override_param_then_get.

(** OverrideService replaces the definition and drops the shared instance *)
Theorem C15_override_service_visible : forall st n o args,
  let st' := fst (step st (OOverrideService n o args)) in
  (exists d, lookup n (rt_services st') = Some d /\ sd_create d = CCtor o (failing o) (map DLit args)) /\ lookup n (rt_shared st') = None.
Proof.
  intros st n o args. cbn [step fst rt_services rt_shared]. unfold assoc_set, assoc_del. cbn [lookup]. rewrite str_eqb_refl. split; [eexists; split; reflexivity|].
  induction (rt_shared st) as [|[k x] l IH]; [reflexivity|]. cbn [filter fst].
  destruct (str_eqb k n) eqn:Hk; cbn [negb]; [exact IH|]. cbn [lookup]. rewrite str_eqb_sym, Hk. exact IH.
Qed.
Print Assumptions C15_override_service_visible.

(** ---- histories (Proofs/RTProofs.v) ---- *)

(** whatever happened before and whatever follows, the GetParam right after an OverrideParam returns the override *)
Theorem C15_override_then_get_history : forall (st : rt) (p : str) (v : Input.prim) (rest : list op),
  exists (st2 : rt) (rs : list (result value)),
    run_ops st (OOverrideParam p v :: OGetParam p :: rest) = (st2, ROk VNil :: ROk (value_of_prim v) :: rs).
Proof. exact override_then_get. Qed.
Print Assumptions C15_override_then_get_history.

(** OverrideParam drops exactly the cached value of that parameter; OverrideService exactly the cached instance of that service *)
Theorem C15_override_param_drops_own_cache_only : forall st p v q,
  lookup p (rt_pcache (fst (step st (OOverrideParam p v)))) = None /\
  (q <> p -> lookup q (rt_pcache (fst (step st (OOverrideParam p v)))) = lookup q (rt_pcache st)).
Proof. intros. split; [apply override_param_own_cache | apply override_param_other_cache]. Qed.
Print Assumptions C15_override_param_drops_own_cache_only.

Theorem C15_override_service_drops_own_instance_only : forall st n o args kv,
  In kv (rt_shared (fst (step st (OOverrideService n o args)))) <-> In kv (rt_shared st) /\ fst kv <> n.
Proof. exact override_service_exactly. Qed.
Print Assumptions C15_override_service_drops_own_instance_only.

(** an error (a todo parameter, a failing function) is never cached: after the override the parameter evaluates afresh *)
Theorem C15_error_not_cached : forall f st id st' e,
  get_param f st id = (st', RErr e) -> lookup id (rt_pcache st') = lookup id (rt_pcache st).
Proof. exact get_param_err_not_cached. Qed.
Print Assumptions C15_error_not_cached.

(** a todo service is an error and changes nothing *)
Theorem C15_todo_service_changes_nothing : forall depsf f st b id d,
  lookup id (rt_services st) = Some d -> sd_create d = CTodo -> cached_of (resolve_scope depsf st id) st b id = None ->
  get depsf (S f) st b id = (st, b, RErr (s "service todo")).
Proof. exact get_todo. Qed.
Print Assumptions C15_todo_service_changes_nothing.

(** ---- overrides and todo placeholders over WHOLE HISTORIES (Proofs/OvrProofs.v) ---- *)

(** an override is sticky: whatever happens in between (gets, other overrides, service overrides, new contexts), every later
    GetParam of the parameter returns the overriding value until the next override of the same parameter *)
Theorem C15_override_sticky : forall (st : rt) (ops : list op) (i j : nat) (p : str) (v : Input.prim),
  nth_error ops i = Some (OOverrideParam p v) -> i < j -> nth_error ops j = Some (OGetParam p) ->
  (forall (k : nat) (w : Input.prim), i < k < j -> nth_error ops k <> Some (OOverrideParam p w)) ->
  nth_error (snd (run_ops st ops)) j = Some (ROk (value_of_prim v)).
Proof. exact override_sticky. Qed.
Print Assumptions C15_override_sticky.

(** a todo parameter never evaluates successfully in any history that does not override it, and a parameter referring to it neither *)
Theorem C15_todo_never_ok : forall (st : rt) (p a l : str) (ops : list op) (j : nat) (v : value),
  todo_param st p a l -> Forall (no_override p) ops -> nth_error ops j = Some (OGetParam p) ->
  nth_error (snd (run_ops st ops)) j <> Some (ROk v).
Proof. exact todo_never_ok. Qed.
Print Assumptions C15_todo_never_ok.

Theorem C15_reference_to_todo_never_ok : forall (p a l q : str) (toks : list rtok), In (KRef p) toks ->
  forall (st : rt) (ops : list op) (j : nat) (v : value),
    ref_todo p a l q toks st -> Forall (fun o : op => no_override p o /\ no_override q o) ops ->
    nth_error ops j = Some (OGetParam q) -> nth_error (snd (run_ops st ops)) j <> Some (ROk v).
Proof. exact ref_todo_never_ok. Qed.
Print Assumptions C15_reference_to_todo_never_ok.

(** before the override the documented error, after it the value *)
Theorem C15_todo_then_override : forall (st : rt) (p a l : str) (ops : list op) (i j j' : nat) (v : Input.prim),
  todo_param st p a l -> nth_error ops i = Some (OOverrideParam p v) ->
  (forall (k : nat) (w : Input.prim), k <> i -> nth_error ops k <> Some (OOverrideParam p w)) ->
  nth_error ops j = Some (OGetParam p) -> nth_error ops j' = Some (OGetParam p) -> j < i < j' ->
  nth_error (snd (run_ops st ops)) j = Some (todo_error a l) /\ nth_error (snd (run_ops st ops)) j' = Some (ROk (value_of_prim v)).
Proof. exact todo_then_override. Qed.
Print Assumptions C15_todo_then_override.

(** after OverrideService every later successful Get of the service returns an object built by the overriding constructor *)
Theorem C15_service_override_sticky : forall (n o : str) (args : list Input.prim) (st : rt) (ops : list op) (i j : nat) (v : value),
  nth_error ops i = Some (OOverrideService n o args) -> i < j -> nth_error ops j = Some (OGet n) ->
  (forall (k : nat) (o2 : str) (a2 : list Input.prim), i < k < j -> nth_error ops k <> Some (OOverrideService n o2 a2)) ->
  nth_error (snd (run_ops st ops)) j = Some (ROk v) -> exists sr : N, v = VObj o (map value_of_prim args) [] [] sr.
Proof. exact service_override_sticky. Qed.
Print Assumptions C15_service_override_sticky.

(** overrides and new contexts evaluate nothing: no constructor or function runs, no instance is created *)
Theorem C15_overrides_are_lazy : forall (ops : list op) (st : rt), forallb is_admin ops = true ->
  rt_trace (fst (run_ops st ops)) = rt_trace st /\ rt_serial (fst (run_ops st ops)) = rt_serial st /\
  snd (run_ops st ops) = map (fun _ : op => ROk VNil) ops.
Proof. exact admin_history_lazy. Qed.
Print Assumptions C15_overrides_are_lazy.

(** the documented caveat: a value that was already evaluated (and cached) before the override keeps the old value; only the
    overridden parameter's own cache entry is dropped *)
Theorem C15_already_cached_dependant_keeps_value : forall (st : rt) (p q : str) (v : Input.prim) (d : rdep) (w : value),
  q <> p -> lookup q (rt_params st) = Some d -> lookup q (rt_pcache st) = Some w ->
  snd (run_ops st [OOverrideParam p v; OGetParam q]) = [ROk VNil; ROk w].
Proof. exact stale_cache_after_override. Qed.
Print Assumptions C15_already_cached_dependant_keeps_value.
