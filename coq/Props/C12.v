(** C12 — total on arbitrary input: no panic, exit 0 or 1.  (partial: the model starts at decoded YAML values; raw
    bytes, yaml.v3 and the Go runtime are outside — see DESIGN §6.) *)
From GV Require Import Base.Str Base.Gerr Model.Env Model.Input Model.Compile Model.Runner Spec.Pipeline
  Proofs.RunnerProofs Proofs.PipelineProofs Gen.EnvGen Tie.EnvTie.

(** For every decoded input (any strings of any length in any position, any non-primitive value anywhere, any nesting
    of errors), every glob/file answer and every flag combination the model of the command terminates (it is a total
    structurally recursive function) without reaching any of its panic sites: the negative strings.Repeat count of the
    aligned printer and EndIndent on an empty stack. *)
Theorem C12_no_panic : forall (B : str) (fl : flags) (w : world) (out : str),
  exists oc, run the_env B fl w out = Ok oc /\ (oc_exit oc = 0 \/ oc_exit oc = 1).
Proof.
  intros B fl w out. destruct (run_refines the_env the_env_std B fl w out) as (oc & Hr & He & _).
  exists oc. split; [exact Hr|]. rewrite He.
  destruct (pipeline_contract the_env B fl w) as [(A & _)|(A & _)]; rewrite A; auto.
Qed.
Print Assumptions C12_no_panic.

(** the panic sites are real: with a narrower row the same printer does panic (so the theorem is not vacuous) *)
Example C12_printer_can_panic :
  print_aligned the_env (s "a step name that is far too long for the row width of sixty runes, really") [] []
    {| p_indents := []; p_lines := [] |} = Panic (s "strings.Repeat: negative count in PrintAlignedLn").
Proof. vm_compute. reflexivity. Qed.
Example C12_end_indent_can_panic : render the_env [EvEndIndent] p0 = Panic (s "EndIndent on an empty stack").
Proof. vm_compute. reflexivity. Qed.
