(** C19 — self-hosting fixpoint: the shipped wiring is what its YAML declares.  These theorems are computations on data
    regenerated from /repo on every run: Gen/SelfConfig.v (the YAML files as decoded by yaml.v3) and Gen/EnvGen.v (the wiring
    dumped from the live objects of the tool built from the tree).  The byte-level fixpoint (regenerate = checked-in file, and
    again after rebuilding) is decided by the check on the real tool. *)
From GV Require Import Base.Str Base.Gerr Model.Env Model.Input Model.Merge Model.Compile Model.Runner Spec.Pipeline Spec.SelfWiring
  Gen.EnvGen Gen.SelfConfig Tie.EnvTie.

Definition self := merged self_files.

Theorem C19_arg_resolver_chain : map resolver_ctor (w_arg_chain the_env) = yaml_chain self (s "argResolver").
Proof. vm_compute. reflexivity. Qed.
Print Assumptions C19_arg_resolver_chain.
Theorem C19_param_resolver_chain :
  yaml_param_resolver self = [s "primitiveArgResolver"] /\ map resolver_ctor (w_param_chain the_env) = yaml_chain self (s "primitiveArgResolver").
Proof. vm_compute. split; reflexivity. Qed.
Theorem C19_token_factories : map factory_value (w_factories the_env) = yaml_factories self.
Proof. vm_compute. reflexivity. Qed.
Theorem C19_compiler_steps : map cstep_ctor (w_compiler_steps the_env) = yaml_compiler self.
Proof. vm_compute. reflexivity. Qed.
Print Assumptions C19_compiler_steps.
Theorem C19_runner_steps : map (fun st => rstep_ctor (rs_kind st)) (w_runner the_env) = yaml_runner self.
Proof. vm_compute. reflexivity. Qed.
Theorem C19_output_rules :
  flat_map (fun st => match rs_kind st with RAmalgamated rules => map (fun r => [rule_value (snd (fst r)); fst (fst r)]) rules | _ => [] end) (w_runner the_env)
  = map (fun l => match l with [v] => [v] | l => l end) (map (fun n => arg_values self n ++ flat_map (fun p => match p with PStr x => if has_prefix (s "!value ") x then [] else [x] | _ => [] end)
        (match svc self n with Some sv => sv_args sv | None => [] end)) (arg_refs self (s "stepValidateOutput"))).
Proof. vm_compute. reflexivity. Qed.
Print Assumptions C19_output_rules.

(** the tool accepts its own configuration (version check skipped for a non-semver build) *)
Theorem C19_self_config_accepted :
  let '((o, e), c) := compile the_env (s "dev") (builtin_input the_env self) in
  e = None /\ vo_error {| f_ignore_params := false; f_ignore_services := false; f_quiet := false; f_stub := false |} o = None.
Proof. vm_compute. split; reflexivity. Qed.
Print Assumptions C19_self_config_accepted.
