(** Interleaving semantics of the runtime library's locking protocol for PARAMETERS and of the container-wide read/write lock
    (package container of gontainer-helpers/v3), for an unbounded number of threads.  Companion of Runtime/Conc.v (services); same style.

    What the source does (file: function):

    - container_params.go: GetParam         c.globalLocker.RLock(); defer RUnlock(); c.warmUpGraph(); return c.getParam(id)
    - container_params.go: getParam         c.paramsLockers[id].Lock(); defer Unlock()          -- one sync.Mutex PER PARAMETER
                                            if v, cached := c.cacheParams.get(id); cached { return v }
                                            (paramCircularDeps(id): error path, not modelled)
                                            result, err = c.resolveDep(nil, param)              -- evaluation; on error: return, NOTHING cached
                                            c.cacheParams.set(id, result)
    - container.go: resolveDep              dependencyValue -> the value; dependencyParam -> c.getParam(other)  (INTERNAL: no global lock taken again);
                                            dependencyProvider -> call the closure.  The code generator emits, for every reference to another
                                            parameter, a provider closure that calls the PUBLIC c.GetParam(other) (template body-constructor.go.tpl:
                                            getParam := c.GetParam), i.e. the nested evaluation takes globalLocker.RLock() AGAIN (recursive read lock).
    - safe_map.go: safeMap.get/set/delete   every cache operation is atomic (own RWMutex held for the map access only)
    - container_services.go: Get, GetInContext, GetTaggedBy, GetTaggedByInContext, IsTaggedBy; container.go: CircularDeps
                                            c.globalLocker.RLock(); defer RUnlock(); then the per-service protocol of Runtime/Conc.v, which reaches parameters
                                            through resolveDep only (internal getParam, or a provider closure calling the public GetParam)
    - container_override.go: OverrideParam  c.globalLocker.Lock(); defer Unlock(); overrideParam(c, id, d)
    - container_override.go: overrideParam  c.invalidateGraph(); c.params[id] = d; c.cacheParams.delete(id); c.paramsLockers[id] = &sync.Mutex{}
                                            (a FRESH mutex replaces the old one; only the overridden parameter's cache entry is deleted)
    - container_hot_swap.go: HotSwap        contextLocker.Lock(); groupContext.Wait(); c.globalLocker.Lock(); defer Unlock(); fn(mutableContainer)
    - container_hot_swap.go: mutableContainer.OverrideParam / InvalidateParamsCache / InvalidateAllParamsCache
                                            under the write lock taken by HotSwap (plus a private mutex serialising them): overrideParam(...) resp.
                                            cacheParams.delete(id)
    - sync.RWMutex (Go standard library)    Lock() first announces the writer, then waits until the active readers have left; from the announcement on
                                            every new RLock() blocks until the writer has unlocked (the documentation says this prohibits recursive read-locking)

    So OverrideParam IS safe to call concurrently with GetParam as far as the cache is concerned (it excludes every reader), and it is modelled
    below by the writer steps; HotSwap is the same writer section with several override / invalidate operations in it.

    Modelling decisions:
    - an activation of getParam(i) is a frame; [f_pub] says whether it was entered through the public GetParam (takes and releases the read lock
      around the per-parameter protocol) or through the internal getParam (read lock already held by the caller);
    - the definition of a parameter ([defs], part of the STATE because overrides replace it) lists the parameters it reads ([d_deps]) and
      whether it reads them through the public GetParam ([d_pub] = true: generated code) or the internal getParam ([d_pub] = false: dependencyParam;
      the library itself allows at most one such dependency per parameter, the model any number);
    - a thread inside a service-side API call (Get, GetTaggedBy, ...) is in mode [MSess]: it holds one read lock and may start any number of
      parameter evaluations, internal or public; services themselves are abstracted away (Runtime/Conc.v has them);
    - evaluations may FAIL ([StFail]: at any point between the cache miss and the store; over-approximates error propagation from dependencies):
      nothing is cached then; [evaluated] counts the evaluations that succeeded;
    - the global lock is a reader COUNTER [greaders] and a writer slot [gwriter] (set at the announcement, which is what blocks new readers);
    - not modelled: warmUpGraph/sync.Once, circular-dependency errors, contextLocker/groupContext of HotSwap (they only delay the writer), values. *)
From GV Require Import Base.Str.
From Coq Require Import Lia.

Module CP.

Definition pid := nat.         (* parameter id *)
Definition tid := nat.         (* thread id *)

(** the current definition of a parameter: the parameters it reads, and how (public GetParam / internal getParam) *)
Record pdef := { d_deps : list pid; d_pub : bool }.

(** program counter of one activation *)
Inductive pc :=
| PRLock                   (* GetParam: about to take globalLocker.RLock()            (public activations only) *)
| PAcquire                 (* getParam: about to lock the parameter's mutex *)
| PCheck                   (* mutex held: look at the cache *)
| PDeps (k : nat)          (* cache miss: resolving dependency number k *)
| PEval                    (* dependencies resolved: compute the value *)
| PStore                   (* computed: cacheParams.set *)
| PRelease                 (* deferred Unlock of the parameter's mutex *)
| PRUnlock.                (* GetParam: deferred globalLocker.RUnlock()               (public activations only) *)

Record frame := { f_id : pid; f_pub : bool; f_pc : pc }.

(** what a thread is doing at the top level *)
Inductive mode :=
| MOut                     (* outside the container, or inside a public GetParam (then the stack is non-empty) *)
| MSess                    (* inside Get / GetInContext / GetTaggedBy / ...: holds one read lock *)
| MWWait                   (* OverrideParam / HotSwap: writer announced, waiting for the readers to leave *)
| MWHold.                  (* OverrideParam / HotSwap: write lock held *)

Record thread := { t_mode : mode; t_stack : list frame }.     (* innermost activation first; [] = no parameter evaluation in progress *)

Record state := {
  defs : pid -> pdef;                        (* c.params *)
  plocks : pid -> option tid;                (* holder of each c.paramsLockers[id] *)
  cache : pid -> bool;                       (* c.cacheParams has the id? *)
  evaluated : pid -> nat;                    (* number of successful evaluations, ever *)
  fresh : pid -> nat;                        (* ghost: successful evaluations since the last cache deletion (override / invalidate) of the id *)
  overrides : pid -> nat;                    (* ghost: number of overrideParam(id) so far *)
  invalidations : pid -> nat;                (* ghost: number of InvalidateParamsCache(id) so far *)
  greaders : nat;                            (* globalLocker: number of read locks held *)
  gwriter : option tid;                      (* globalLocker: the announced (waiting or holding) writer *)
  threads : tid -> thread
}.

Definition upd {A} (f : nat -> A) (k : nat) (v : A) : nat -> A := fun x => if Nat.eqb x k then v else f x.

Definition set_thread (st : state) (t : tid) (th : thread) : state :=
  {| defs := defs st; plocks := plocks st; cache := cache st; evaluated := evaluated st; fresh := fresh st; overrides := overrides st;
     invalidations := invalidations st; greaders := greaders st; gwriter := gwriter st; threads := upd (threads st) t th |}.
Definition set_stack (st : state) (t : tid) (s : list frame) : state := set_thread st t {| t_mode := t_mode (threads st t); t_stack := s |}.
Definition set_mode (st : state) (t : tid) (m : mode) : state := set_thread st t {| t_mode := m; t_stack := t_stack (threads st t) |}.
Definition set_greaders (st : state) (n : nat) : state :=
  {| defs := defs st; plocks := plocks st; cache := cache st; evaluated := evaluated st; fresh := fresh st; overrides := overrides st;
     invalidations := invalidations st; greaders := n; gwriter := gwriter st; threads := threads st |}.
Definition set_gwriter (st : state) (w : option tid) : state :=
  {| defs := defs st; plocks := plocks st; cache := cache st; evaluated := evaluated st; fresh := fresh st; overrides := overrides st;
     invalidations := invalidations st; greaders := greaders st; gwriter := w; threads := threads st |}.
Definition set_plock (st : state) (i : pid) (h : option tid) : state :=
  {| defs := defs st; plocks := upd (plocks st) i h; cache := cache st; evaluated := evaluated st; fresh := fresh st; overrides := overrides st;
     invalidations := invalidations st; greaders := greaders st; gwriter := gwriter st; threads := threads st |}.
Definition set_cached (st : state) (i : pid) : state :=
  {| defs := defs st; plocks := plocks st; cache := upd (cache st) i true; evaluated := evaluated st; fresh := fresh st; overrides := overrides st;
     invalidations := invalidations st; greaders := greaders st; gwriter := gwriter st; threads := threads st |}.
Definition count_eval (st : state) (i : pid) : state :=
  {| defs := defs st; plocks := plocks st; cache := cache st; evaluated := upd (evaluated st) i (S (evaluated st i));
     fresh := upd (fresh st) i (S (fresh st i)); overrides := overrides st;
     invalidations := invalidations st; greaders := greaders st; gwriter := gwriter st; threads := threads st |}.
(** overrideParam(i, d): new definition, cache entry deleted, FRESH mutex *)
Definition do_override (st : state) (i : pid) (d : pdef) : state :=
  {| defs := upd (defs st) i d; plocks := upd (plocks st) i None; cache := upd (cache st) i false; evaluated := evaluated st;
     fresh := upd (fresh st) i 0; overrides := upd (overrides st) i (S (overrides st i));
     invalidations := invalidations st; greaders := greaders st; gwriter := gwriter st; threads := threads st |}.
(** InvalidateParamsCache(i): cache entry deleted, nothing else *)
Definition do_invalidate (st : state) (i : pid) : state :=
  {| defs := defs st; plocks := plocks st; cache := upd (cache st) i false; evaluated := evaluated st;
     fresh := upd (fresh st) i 0; overrides := overrides st;
     invalidations := upd (invalidations st) i (S (invalidations st i)); greaders := greaders st; gwriter := gwriter st; threads := threads st |}.

(** the first frame of an activation of i: public activations start by taking the read lock *)
Definition entry (i : pid) (pub : bool) : frame := {| f_id := i; f_pub := pub; f_pc := if pub then PRLock else PAcquire |}.

Definition failable (p : pc) : bool := match p with PDeps _ | PEval => true | _ => false end.

(** one step of thread t *)
Inductive step : state -> tid -> state -> Prop :=
(* ---- readers: top level ---- *)
| StCall st t i :                                    (* container_params.go GetParam(i), called from outside the container *)
    t_stack (threads st t) = [] -> t_mode (threads st t) = MOut ->
    step st t (set_stack st t [entry i true])
| StSessEnter st t :                                 (* container_services.go Get/GetInContext/GetTaggedBy/...: globalLocker.RLock() *)
    t_stack (threads st t) = [] -> t_mode (threads st t) = MOut ->
    gwriter st = None ->
    step st t (set_mode (set_greaders st (S (greaders st))) t MSess)
| StSessCall st t i pub :                            (* container.go resolveDep inside a service-side call: getParam(i), or a closure calling GetParam(i) *)
    t_stack (threads st t) = [] -> t_mode (threads st t) = MSess ->
    step st t (set_stack st t [entry i pub])
| StSessExit st t :                                  (* the deferred globalLocker.RUnlock() of Get/... *)
    t_stack (threads st t) = [] -> t_mode (threads st t) = MSess ->
    step st t (set_mode (set_greaders st (pred (greaders st))) t MOut)
(* ---- readers: one activation ---- *)
| StRLock st t i rest :                              (* GetParam: globalLocker.RLock(); sync.RWMutex: blocks while a writer is announced *)
    t_stack (threads st t) = {| f_id := i; f_pub := true; f_pc := PRLock |} :: rest ->
    gwriter st = None ->
    step st t (set_stack (set_greaders st (S (greaders st))) t ({| f_id := i; f_pub := true; f_pc := PAcquire |} :: rest))
| StAcquire st t i b rest :                          (* getParam: c.paramsLockers[i].Lock() *)
    t_stack (threads st t) = {| f_id := i; f_pub := b; f_pc := PAcquire |} :: rest ->
    plocks st i = None ->
    step st t (set_stack (set_plock st i (Some t)) t ({| f_id := i; f_pub := b; f_pc := PCheck |} :: rest))
| StHit st t i b rest :                              (* getParam: cacheParams.get(i) found: return *)
    t_stack (threads st t) = {| f_id := i; f_pub := b; f_pc := PCheck |} :: rest ->
    cache st i = true ->
    step st t (set_stack st t ({| f_id := i; f_pub := b; f_pc := PRelease |} :: rest))
| StMiss st t i b rest :                             (* getParam: cacheParams.get(i) not found *)
    t_stack (threads st t) = {| f_id := i; f_pub := b; f_pc := PCheck |} :: rest ->
    cache st i = false ->
    step st t (set_stack st t ({| f_id := i; f_pub := b; f_pc := PDeps 0 |} :: rest))
| StDep st t i b k d rest :                          (* resolveDep: nested getParam(d) (internal) or GetParam(d) (public, from a provider closure) *)
    t_stack (threads st t) = {| f_id := i; f_pub := b; f_pc := PDeps k |} :: rest ->
    nth_error (d_deps (defs st i)) k = Some d ->
    step st t (set_stack st t (entry d (d_pub (defs st i)) :: {| f_id := i; f_pub := b; f_pc := PDeps (S k) |} :: rest))
| StDepsDone st t i b k rest :
    t_stack (threads st t) = {| f_id := i; f_pub := b; f_pc := PDeps k |} :: rest ->
    nth_error (d_deps (defs st i)) k = None ->
    step st t (set_stack st t ({| f_id := i; f_pub := b; f_pc := PEval |} :: rest))
| StEval st t i b rest :                             (* resolveDep returned a value *)
    t_stack (threads st t) = {| f_id := i; f_pub := b; f_pc := PEval |} :: rest ->
    step st t (set_stack (count_eval st i) t ({| f_id := i; f_pub := b; f_pc := PStore |} :: rest))
| StFail st t i b p rest :                           (* resolveDep returned an error (own evaluation or a dependency): return without caching *)
    t_stack (threads st t) = {| f_id := i; f_pub := b; f_pc := p |} :: rest ->
    failable p = true ->
    step st t (set_stack st t ({| f_id := i; f_pub := b; f_pc := PRelease |} :: rest))
| StStore st t i b rest :                            (* getParam: cacheParams.set(i, result) *)
    t_stack (threads st t) = {| f_id := i; f_pub := b; f_pc := PStore |} :: rest ->
    step st t (set_stack (set_cached st i) t ({| f_id := i; f_pub := b; f_pc := PRelease |} :: rest))
| StRelease st t i b rest :                          (* getParam: deferred c.paramsLockers[i].Unlock(); internal activations return here *)
    t_stack (threads st t) = {| f_id := i; f_pub := b; f_pc := PRelease |} :: rest ->
    step st t (set_stack (set_plock st i None) t (if b then {| f_id := i; f_pub := b; f_pc := PRUnlock |} :: rest else rest))
| StRUnlock st t i rest :                            (* GetParam: deferred globalLocker.RUnlock(); return *)
    t_stack (threads st t) = {| f_id := i; f_pub := true; f_pc := PRUnlock |} :: rest ->
    step st t (set_stack (set_greaders st (pred (greaders st))) t rest)
(* ---- writers ---- *)
| StWAnnounce st t :                                 (* OverrideParam / HotSwap: globalLocker.Lock(), first half: become THE pending writer *)
    t_stack (threads st t) = [] -> t_mode (threads st t) = MOut ->
    gwriter st = None ->
    step st t (set_mode (set_gwriter st (Some t)) t MWWait)
| StWAcquire st t :                                  (* globalLocker.Lock(), second half: all readers have left *)
    t_mode (threads st t) = MWWait ->
    greaders st = 0 ->
    step st t (set_mode st t MWHold)
| StOverride st t i d :                              (* container_override.go overrideParam(c, i, d), from OverrideParam or from HotSwap's mutableContainer *)
    t_mode (threads st t) = MWHold ->
    step st t (do_override st i d)
| StInvalidate st t i :                              (* container_hot_swap.go mutableContainer.InvalidateParamsCache(i) *)
    t_mode (threads st t) = MWHold ->
    step st t (do_invalidate st i)
| StWRelease st t :                                  (* deferred globalLocker.Unlock() *)
    t_mode (threads st t) = MWHold ->
    step st t (set_mode (set_gwriter st None) t MOut).

(** any interleaving *)
Inductive reach : state -> state -> Prop :=
| RRefl st : reach st st
| RStep st t st1 st2 : step st t st1 -> reach st1 st2 -> reach st st2.

(** the initial state: the given definitions, nothing locked, nothing cached, nothing evaluated, every thread outside *)
Definition init (defs0 : pid -> pdef) : state :=
  {| defs := defs0; plocks := fun _ => None; cache := fun _ => false; evaluated := fun _ => 0; fresh := fun _ => 0; overrides := fun _ => 0;
     invalidations := fun _ => 0; greaders := 0; gwriter := None; threads := fun _ => {| t_mode := MOut; t_stack := [] |} |}.

(** the two modes of a thread inside OverrideParam / HotSwap *)
Definition is_writer_mode (m : mode) : bool := match m with MWWait | MWHold => true | _ => false end.

End CP.
