(** Interleaving semantics of the runtime library's locking protocol for cached services (container.get: per-service mutex,
    cache lookup, construction, cache store, unlock) with nested Gets for dependencies, for an unbounded number of threads.
    Shared services use one cache per container; contextual services one cache (bag) per attached context.  Constructors succeed. *)
From GV Require Import Base.Str.
From Coq Require Import Lia.

Definition sid := nat.         (* service id *)
Definition tid := nat.         (* thread id *)
Definition cid := nat.         (* context id *)

Inductive skind := KShared | KContextual | KNonShared.

(** static configuration: scope kind and (acyclic) direct dependencies of every service *)
Record cfg := { kind : sid -> skind; deps : sid -> list sid }.

(** program counter of one activation of get(id) *)
Inductive pc :=
| PAcquire                 (* about to lock the service's mutex (cached kinds only) *)
| PCheck                   (* lock held (or not needed): look at the cache *)
| PDeps (k : nat)          (* resolving dependency number k *)
| PConstruct               (* all dependencies resolved: call the constructor *)
| PStore                   (* constructed: store in the cache *)
| PRelease.                (* unlock and return *)

Record frame := { f_id : sid; f_pc : pc }.
Record thread := { t_ctx : cid; t_stack : list frame }.     (* innermost activation first; [] = idle *)

Record state := {
  locks : sid -> option tid;                 (* holder of each service mutex *)
  shared_cache : sid -> bool;                (* shared instance present? *)
  ctx_cache : cid -> sid -> bool;            (* contextual instance present in the bag of a context? *)
  built : sid -> nat;                        (* number of constructor invocations for shared services *)
  built_ctx : cid -> sid -> nat;             (* number of constructor invocations per context for contextual services *)
  threads : tid -> thread
}.

Definition upd {A} (f : nat -> A) (k : nat) (v : A) : nat -> A := fun x => if Nat.eqb x k then v else f x.
Definition upd2 {A} (f : nat -> nat -> A) (a b : nat) (v : A) : nat -> nat -> A := fun x y => if Nat.eqb x a && Nat.eqb y b then v else f x y.

Definition cached (C : cfg) (st : state) (c : cid) (i : sid) : bool :=
  match kind C i with KShared => shared_cache st i | KContextual => ctx_cache st c i | KNonShared => false end.
Definition needs_lock (C : cfg) (i : sid) : bool := match kind C i with KNonShared => false | _ => true end.

Definition set_thread (st : state) (t : tid) (th : thread) : state :=
  {| locks := locks st; shared_cache := shared_cache st; ctx_cache := ctx_cache st; built := built st; built_ctx := built_ctx st; threads := upd (threads st) t th |}.
Definition set_stack (st : state) (t : tid) (s : list frame) : state := set_thread st t {| t_ctx := t_ctx (threads st t); t_stack := s |}.

(** one step of thread t *)
Inductive step (C : cfg) : state -> tid -> state -> Prop :=
| StCall st t i :                                   (* an idle thread starts get(i) *)
    t_stack (threads st t) = [] ->
    step C st t (set_stack st t [{| f_id := i; f_pc := if needs_lock C i then PAcquire else PCheck |}])
| StAcquire st t i rest :
    t_stack (threads st t) = {| f_id := i; f_pc := PAcquire |} :: rest ->
    locks st i = None ->
    step C st t (set_stack {| locks := upd (locks st) i (Some t); shared_cache := shared_cache st; ctx_cache := ctx_cache st; built := built st;
                              built_ctx := built_ctx st; threads := threads st |} t ({| f_id := i; f_pc := PCheck |} :: rest))
| StHit st t i rest :                                (* cached: go straight to release *)
    t_stack (threads st t) = {| f_id := i; f_pc := PCheck |} :: rest ->
    cached C st (t_ctx (threads st t)) i = true ->
    step C st t (set_stack st t ({| f_id := i; f_pc := PRelease |} :: rest))
| StMiss st t i rest :
    t_stack (threads st t) = {| f_id := i; f_pc := PCheck |} :: rest ->
    cached C st (t_ctx (threads st t)) i = false ->
    step C st t (set_stack st t ({| f_id := i; f_pc := PDeps 0 |} :: rest))
| StDep st t i k d rest :                            (* nested get of dependency k *)
    t_stack (threads st t) = {| f_id := i; f_pc := PDeps k |} :: rest ->
    nth_error (deps C i) k = Some d ->
    step C st t (set_stack st t ({| f_id := d; f_pc := if needs_lock C d then PAcquire else PCheck |} :: {| f_id := i; f_pc := PDeps (S k) |} :: rest))
| StDepsDone st t i k rest :
    t_stack (threads st t) = {| f_id := i; f_pc := PDeps k |} :: rest ->
    nth_error (deps C i) k = None ->
    step C st t (set_stack st t ({| f_id := i; f_pc := PConstruct |} :: rest))
| StConstruct st t i rest :
    t_stack (threads st t) = {| f_id := i; f_pc := PConstruct |} :: rest ->
    let c := t_ctx (threads st t) in
    step C st t (set_stack {| locks := locks st; shared_cache := shared_cache st; ctx_cache := ctx_cache st;
                              built := match kind C i with KShared => upd (built st) i (S (built st i)) | _ => built st end;
                              built_ctx := match kind C i with KContextual => upd2 (built_ctx st) c i (S (built_ctx st c i)) | _ => built_ctx st end;
                              threads := threads st |} t ({| f_id := i; f_pc := PStore |} :: rest))
| StStore st t i rest :
    t_stack (threads st t) = {| f_id := i; f_pc := PStore |} :: rest ->
    let c := t_ctx (threads st t) in
    step C st t (set_stack {| locks := locks st;
                              shared_cache := match kind C i with KShared => upd (shared_cache st) i true | _ => shared_cache st end;
                              ctx_cache := match kind C i with KContextual => upd2 (ctx_cache st) c i true | _ => ctx_cache st end;
                              built := built st; built_ctx := built_ctx st; threads := threads st |} t ({| f_id := i; f_pc := PRelease |} :: rest))
| StRelease st t i rest :
    t_stack (threads st t) = {| f_id := i; f_pc := PRelease |} :: rest ->
    step C st t (set_stack {| locks := if needs_lock C i then upd (locks st) i None else locks st; shared_cache := shared_cache st; ctx_cache := ctx_cache st;
                              built := built st; built_ctx := built_ctx st; threads := threads st |} t rest).

(** any interleaving *)
Inductive reach (C : cfg) : state -> state -> Prop :=
| RRefl st : reach C st st
| RStep st t st1 st2 : step C st t st1 -> reach C st1 st2 -> reach C st st2.

(** the initial state: nothing locked, nothing cached, nothing built, every thread idle in the context given by [ctx_of] *)
Definition init (ctx_of : tid -> cid) : state :=
  {| locks := fun _ => None; shared_cache := fun _ => false; ctx_cache := fun _ _ => false; built := fun _ => 0; built_ctx := fun _ _ => 0;
     threads := fun t => {| t_ctx := ctx_of t; t_stack := [] |} |}.
