(** Sequential semantics of "generated constructor program ∘ gontainer-helpers/container" over the fixture universe
    (harness/gotools/fixture): what Get / GetInContext / GetTaggedBy / GetParam / getters / overrides return on a container
    generated from a compiled configuration.  Mirrors container_services.go, container_params.go, container_override.go,
    graph_builder.go (default scope) function by function; objects are the fixture's self-describing records. *)
From GV Require Import Base.Str Base.Quote Base.Sort Model.Env Model.Input Model.Imports Model.Token Model.Compile Model.OutVal.

Inductive value :=
| VNil
| VBool (b : bool)
| VNum (kind text : str)
| VStr (x : str)
| VObj (origin : str) (args : list value) (fields : list (str * value)) (log : list str) (serial : N)
| VList (l : list value)
| VContainer.

Inductive result (A : Type) := ROk (a : A) | RErr (cause : str).
Arguments ROk {A}. Arguments RErr {A}.

(** run-time token of a parameter pattern *)
Inductive rtok :=
| KLit (x : str)                       (* literal chunk *)
| KPercent                             (* %% *)
| KRef (name : str)                    (* %name% *)
| KCall (origin : str) (args : str) (label : str).   (* %fn(args)%: Go function (fixture origin), pasted argument text, the token text *)

Inductive rdep :=
| DLit (p : prim)
| DValue (v : value)                   (* !value expr over the fixture universe, or an overriding value *)
| DService (n : str)
| DTag (t : str)
| DContainer
| DPattern (toks : list rtok).

Inductive creation :=
| CCtor (origin : str) (fails : bool) (deps : list rdep)
| CValue (v : value)                   (* value: expr *)
| CZero                                (* type only: zero value *)
| CTodo.

Record rcall := { rc_method : str; rc_deps : list rdep; rc_wither : bool }.
Record sdef := { sd_create : creation; sd_fields : list (str * rdep); sd_calls : list rcall; sd_tags : list (str * Z); sd_scope : oscope }.
Record ddef := { dd_tag : str; dd_origin : str; dd_deps : list rdep }.

Record rt := {
  rt_params : list (str * rdep);
  rt_pcache : list (str * value);
  rt_services : list (str * sdef);
  rt_shared : list (str * value);
  rt_decorators : list ddef;
  rt_bags : list (N * list (str * value));       (* contexts attached to the container: their bags *)
  rt_serial : N;                                 (* next allocation serial *)
  rt_env : list (str * str);                     (* process environment seen by env / envInt *)
  rt_trace : list str                            (* constructor / decorator / function invocations, in order *)
}.

Definition assoc_set {A} (k : str) (v : A) (m : list (str * A)) : list (str * A) :=
  (k, v) :: filter (fun kv => negb (str_eqb (fst kv) k)) m.
Definition assoc_del {A} (k : str) (m : list (str * A)) : list (str * A) := filter (fun kv => negb (str_eqb (fst kv) k)) m.

Definition with_serial (st : rt) (n : N) := {| rt_params := rt_params st; rt_pcache := rt_pcache st; rt_services := rt_services st; rt_shared := rt_shared st;
  rt_decorators := rt_decorators st; rt_bags := rt_bags st; rt_serial := n; rt_env := rt_env st; rt_trace := rt_trace st |}.
Definition with_trace (st : rt) (e : str) := {| rt_params := rt_params st; rt_pcache := rt_pcache st; rt_services := rt_services st; rt_shared := rt_shared st;
  rt_decorators := rt_decorators st; rt_bags := rt_bags st; rt_serial := rt_serial st; rt_env := rt_env st; rt_trace := rt_trace st ++ [e] |}.
Definition with_pcache (st : rt) (c : list (str * value)) := {| rt_params := rt_params st; rt_pcache := c; rt_services := rt_services st; rt_shared := rt_shared st;
  rt_decorators := rt_decorators st; rt_bags := rt_bags st; rt_serial := rt_serial st; rt_env := rt_env st; rt_trace := rt_trace st |}.
Definition with_shared (st : rt) (c : list (str * value)) := {| rt_params := rt_params st; rt_pcache := rt_pcache st; rt_services := rt_services st; rt_shared := c;
  rt_decorators := rt_decorators st; rt_bags := rt_bags st; rt_serial := rt_serial st; rt_env := rt_env st; rt_trace := rt_trace st |}.

(** exporter.CastToString on what a chunk provider returns *)
Definition cast_to_string (v : value) : result str :=
  match v with
  | VStr x => ROk x
  | VBool true => ROk (s "true") | VBool false => ROk (s "false")
  | VNil => ROk (s "nil")
  | VNum _ t => ROk t
  | _ => RErr (s "is not supported")
  end.

Definition value_of_prim (p : prim) : value :=
  match p with
  | PNil => VNil | PBool b => VBool b | PInt k t => VNum k t | PFloat k t => VNum k t | PStr x => VStr x | POther t => VStr t
  end.

(** *** pasted function arguments: a comma-separated list of Go string / integer literals (the fixture universe) *)
Fixpoint split_args (x : str) (cur : str) (inq : bool) : list str :=
  match x with
  | [] => match cur with [] => [] | _ => [rev cur] end
  | c :: x' =>
    if Ascii.eqb c """"%char then split_args x' (c :: cur) (negb inq)
    else if Ascii.eqb c ","%char && negb inq then rev cur :: split_args x' [] false
    else if Ascii.eqb c " "%char && negb inq then split_args x' cur inq
    else split_args x' (c :: cur) inq
  end.
Definition arg_value (a : str) : value :=
  match a with
  | """"%char :: r => VStr (removelast r)
  | _ => VNum (s "int") a
  end.
Definition parse_args (x : str) : list value := map arg_value (split_args x [] false).

(** fmt's %v of a []interface{} of strings and ints *)
Definition show_v (v : value) : str :=
  match v with VStr x => x | VNum _ t => t | VBool true => s "true" | VBool false => s "false" | VNil => s "<nil>" | _ => s "?" end.
Definition show_args (l : list value) : str := s "[" ++ join (s " ") (map show_v l) ++ s "]".

Definition is_int_text (x : str) : bool :=
  match x with
  | "-"%char :: (_ :: _) as r => forallb is_digit r
  | "+"%char :: (_ :: _) as r => forallb is_digit r
  | _ :: _ => forallb is_digit x
  | [] => false
  end.

Definition last_dot_name (origin : str) : str := last_or (split_on "."%char origin) [].
Definition pkg_of_origin (origin : str) : str := removelast (rev (drop_prefix (rev (last_dot_name origin)) (rev origin))).

(** a parameter function of the generated helpers or of the fixture *)
(** strconv.Atoi: optional sign, decimal digits, 64-bit range; the result is printed canonically ("007" is 7, "-0" is 0) *)
Definition atoi (v : str) : option Z :=
  if is_int_text v then
    let '(neg, ds) := match v with "-"%char :: r => (true, r) | "+"%char :: r => (false, r) | _ => (false, v) end in
    let n := fold_left (fun acc c => (acc * 10 + (code c - 48))%N) ds 0%N in
    let z := if neg then (- Z.of_N n)%Z else Z.of_N n in
    if ((-9223372036854775808 <=? z) && (z <=? 9223372036854775807))%Z then Some z else None
  else None.
Definition dec_of_Z (z : Z) : str := if (z <? 0)%Z then "-"%char :: dec_of_N (Z.to_N (- z)) else dec_of_N (Z.to_N z).

Definition call_fn (st : rt) (origin args label : str) : result value :=
  let a := parse_args args in
  let fn := last_dot_name origin in
  if str_eqb origin (s "getEnv") then
    match a with
    | VStr k :: rest =>
      match lookup k (rt_env st) with
      | Some v => ROk (VStr v)
      | None => match rest with VStr d :: _ => ROk (VStr d) | _ => RErr (s "environment variable " ++ quote k ++ s " does not exist") end
      end
    | _ => RErr (s "cannot call provider")
    end
  else if str_eqb origin (s "getEnvInt") then
    match a with
    | VStr k :: rest =>
      match lookup k (rt_env st) with
      | Some v => match atoi v with
                  | Some z => ROk (VNum (s "int") (dec_of_Z z))
                  | None => RErr (s "cannot cast env(" ++ quote k ++ s ") to int")
                  end
      | None => match rest with VNum _ d :: _ => ROk (VNum (s "int") d) | _ => RErr (s "environment variable " ++ quote k ++ s " does not exist") end
      end
    | _ => RErr (s "cannot call provider")
    end
  else if str_eqb origin (s "paramTodo") then
    match a with VStr m :: _ => RErr m | _ => RErr (s "parameter todo") end
  else if str_eqb fn (s "Fn") && match a with VStr x :: _ => str_eqb x (s "fail") | _ => false end then RErr (s "Fn failed on purpose")
  else ROk (VStr (origin ++ show_args a)).

Section Eval.
(** default scope: contextual iff some service reachable in the dependency graph is declared contextual (graph_builder.warmUpScopes).
    [depsf] gives the services a service transitively depends on. *)
Variable depsf : rt -> str -> list str.

Definition declared_scope (st : rt) (n : str) : oscope := match lookup n (rt_services st) with Some d => sd_scope d | None => OScDefault end.
Definition resolve_scope (st : rt) (n : str) : oscope :=
  match declared_scope st n with
  | OScDefault => if existsb (fun d => match declared_scope st d with OScContextual => true | _ => false end) (depsf st n) then OScContextual else OScShared
  | sc => sc
  end.

(** services carrying a tag: priority descending, then id ascending *)
Definition tag_lt (a b : str * Z) : bool := if Z.eqb (snd a) (snd b) then str_ltb (fst a) (fst b) else Z.ltb (snd b) (snd a).
Definition tagged (st : rt) (t : str) : list str :=
  map fst (sort_by tag_lt (flat_map (fun kv => match lookup t (sd_tags (snd kv)) with Some p => [(fst kv, p)] | None => [] end) (rt_services st))).

Definition bag := list (str * value).

(** ** the interpreter (fuel = recursion depth through dependencies) *)
Fixpoint get_param (fuel : nat) (st : rt) (id : str) {struct fuel} : rt * result value :=
  match fuel with
  | O => (st, RErr (s "out of fuel"))
  | S f =>
    match lookup id (rt_params st) with
    | None => (st, RErr (s "param does not exist"))
    | Some d =>
      match lookup id (rt_pcache st) with
      | Some v => (st, ROk v)
      | None =>
        let '(st1, r) :=
          match d with
          | DLit p => (st, ROk (value_of_prim p))
          | DValue v => (st, ROk v)
          | DPattern toks => eval_pattern f st toks
          | _ => (st, RErr (s "invalid dependency"))
          end in
        match r with
        | ROk v => (with_pcache st1 (assoc_set id v (rt_pcache st1)), ROk v)
        | RErr e => (st1, RErr e)
        end
      end
    end
  end
with eval_tok (fuel : nat) (st : rt) (t : rtok) {struct fuel} : rt * result value :=
  match fuel with
  | O => (st, RErr (s "out of fuel"))
  | S f =>
    match t with
    | KLit x => (st, ROk (VStr x))
    | KPercent => (st, ROk (VStr (s "%")))
    | KRef n => get_param f st n
    | KCall o a l => let st1 := with_trace st (s "fn:" ++ o) in
                     match call_fn st o a l with
                     | ROk v => (st1, ROk v)
                     | RErr e => (st1, RErr (s "cannot execute " ++ l ++ s ": provider returned error: " ++ e))
                     end
    end
  end
with eval_pattern (fuel : nat) (st : rt) (toks : list rtok) {struct fuel} : rt * result value :=
  match fuel with
  | O => (st, RErr (s "out of fuel"))
  | S f =>
    match toks with
    | [t] => eval_tok f st t                         (* a single chunk keeps the provider's value and type *)
    | _ =>
      (fix cat (l : list rtok) (st : rt) (acc : str) : rt * result value :=
         match l with
         | [] => (st, ROk (VStr acc))
         | t :: l' =>
           match eval_tok f st t with
           | (st1, ROk v) => match cast_to_string v with ROk x => cat l' st1 (acc ++ x) | RErr e => (st1, RErr e) end
           | (st1, RErr e) => (st1, RErr e)
           end
         end) toks st []
    end
  end.

Definition alloc (st : rt) : N * rt := (rt_serial st, with_serial st (rt_serial st + 1)).

Definition obj_call (v : value) (m : str) (args : list value) : result value :=
  match v with
  | VObj o a f l sr => ROk (VObj o (a ++ VStr (s "<" ++ m ++ s ">") :: args) f (l ++ [m]) sr)
  | _ => RErr (s "cannot call " ++ m)
  end.
Definition obj_set (v : value) (fld : str) (x : value) : result value :=
  match v with
  | VObj o a f l sr => ROk (VObj o a (assoc_set fld x f) l sr)
  | _ => RErr (s "cannot set field " ++ fld)
  end.

(** the runtime library evaluates EVERY dependency of an argument list, every field and every call even after one of them failed, and
    joins the errors (resolveDeps, setServiceFields, executeServiceCalls); only a failing wither, a failing decorator, a failing
    member of a tagged list and a failing chunk of a pattern stop the evaluation.  The model keeps the FIRST error (the real error
    text contains it) and threads the state through all evaluations, so that the side effects (caches, serials, trace) agree. *)
Definition keep_err (acc : option str) (e : str) : option str := match acc with Some _ => acc | None => Some e end.
Definition fin {A} (acc : option str) (v : A) : result A := match acc with Some e => RErr e | None => ROk v end.

Fixpoint get (fuel : nat) (st : rt) (b : bag) (id : str) {struct fuel} : (rt * bag) * result value :=
  match fuel with
  | O => ((st, b), RErr (s "out of fuel"))
  | S f =>
    match lookup id (rt_services st) with
    | None => ((st, b), RErr (s "service does not exist"))
    | Some d =>
      let sc := resolve_scope st id in
      let cached := match sc with OScShared => lookup id (rt_shared st) | OScContextual => lookup id b | _ => None end in
      match cached with
      | Some v => ((st, b), ROk v)
      | None =>
        (* createNewService *)
        let '((st1, b1), r1) :=
          match sd_create d with
          | CTodo => ((st, b), RErr (s "service todo"))
          | CZero => ((st, b), ROk (VObj [] [] [] [] 0))
          | CValue v => ((st, b), ROk v)
          | CCtor o fails deps =>
            match resolve_deps f st b deps with
            | ((st', b'), ROk args) =>
              let st'' := with_trace st' (s "ctor:" ++ o) in
              if fails then ((st'', b'), RErr (s "constructor failed on purpose"))
              else let '(sr, st3) := alloc st'' in ((st3, b'), ROk (VObj o args [] [] (sr + 1)))
            | ((st', b'), RErr e) => ((st', b'), RErr e)
            end
          end in
        match r1 with
        | RErr e => ((st1, b1), RErr e)
        | ROk v1 =>
          (* setServiceFields *)
          let '((st2, b2), r2) :=
            (fix fields (l : list (str * rdep)) (st : rt) (b : bag) (v : value) (err : option str) : (rt * bag) * result value :=
               match l with
               | [] => ((st, b), fin err v)
               | (n, dp) :: l' =>
                 match resolve_dep f st b dp with
                 | ((st', b'), ROk x) => match obj_set v n x with ROk v' => fields l' st' b' v' err | RErr e => fields l' st' b' v (keep_err err e) end
                 | ((st', b'), RErr e) => fields l' st' b' v (keep_err err e)
                 end
               end) (sd_fields d) st1 b1 v1 None in
          match r2 with
          | RErr e => ((st2, b2), RErr e)
          | ROk v2 =>
            (* executeServiceCalls *)
            let '((st3, b3), r3) :=
              (fix calls (l : list rcall) (st : rt) (b : bag) (v : value) (err : option str) : (rt * bag) * result value :=
                 match l with
                 | [] => ((st, b), fin err v)
                 | c :: l' =>
                   match resolve_deps f st b (rc_deps c) with
                   | ((st', b'), ROk args) =>
                     match obj_call v (rc_method c) args with
                     | ROk v' => calls l' st' b' v' err
                     | RErr e => if rc_wither c then ((st', b'), RErr (match err with Some e0 => e0 | None => e end)) else calls l' st' b' v (keep_err err e)
                     end
                   | ((st', b'), RErr e) => calls l' st' b' v (keep_err err e)
                   end
                 end) (sd_calls d) st2 b2 v2 None in
            match r3 with
            | RErr e => ((st3, b3), RErr e)
            | ROk v3 =>
              (* decorateService *)
              let '((st4, b4), r4) :=
                (fix decs (l : list ddef) (st : rt) (b : bag) (v : value) : (rt * bag) * result value :=
                   match l with
                   | [] => ((st, b), ROk v)
                   | dd :: l' =>
                     match lookup (dd_tag dd) (sd_tags d) with
                     | None => decs l' st b v
                     | Some _ =>
                       match resolve_deps f st b (dd_deps dd) with
                       | ((st', b'), ROk args) =>
                         let st'' := with_trace st' (s "dec:" ++ dd_origin dd) in
                         let '(sr, st3) := alloc st'' in
                         decs l' st3 b' (VObj (dd_origin dd) (VStr (dd_tag dd) :: VStr id :: v :: args) [] [] (sr + 1))
                       | ((st', b'), RErr e) => ((st', b'), RErr e)
                       end
                     end
                   end) (rt_decorators st3) st3 b3 v3 in
              match r4 with
              | RErr e => ((st4, b4), RErr e)
              | ROk v4 =>
                match sc with
                | OScShared => ((with_shared st4 (assoc_set id v4 (rt_shared st4)), b4), ROk v4)
                | OScContextual => ((st4, assoc_set id v4 b4), ROk v4)
                | _ => ((st4, b4), ROk v4)
                end
              end
            end
          end
        end
      end
    end
  end
with resolve_dep (fuel : nat) (st : rt) (b : bag) (d : rdep) {struct fuel} : (rt * bag) * result value :=
  match fuel with
  | O => ((st, b), RErr (s "out of fuel"))
  | S f =>
    match d with
    | DLit p => ((st, b), ROk (value_of_prim p))
    | DValue v => ((st, b), ROk v)
    | DService n => get f st b n
    | DTag t =>
      (fix each (l : list str) (st : rt) (b : bag) (acc : list value) : (rt * bag) * result value :=
         match l with
         | [] => ((st, b), ROk (VList (rev acc)))
         | n :: l' => match get f st b n with
                      | ((st', b'), ROk v) => each l' st' b' (v :: acc)
                      | ((st', b'), RErr e) => ((st', b'), RErr e)
                      end
         end) (tagged st t) st b []
    | DContainer => ((st, b), ROk VContainer)
    | DPattern toks => let '(st', r) := eval_pattern f st toks in ((st', b), r)
    end
  end
with resolve_deps (fuel : nat) (st : rt) (b : bag) (ds : list rdep) {struct fuel} : (rt * bag) * result (list value) :=
  match fuel with
  | O => ((st, b), RErr (s "out of fuel"))
  | S f =>
    (fix each (l : list rdep) (st : rt) (b : bag) (acc : list value) (err : option str) : (rt * bag) * result (list value) :=
       match l with
       | [] => ((st, b), fin err (rev acc))
       | d :: l' => match resolve_dep f st b d with
                    | ((st', b'), ROk v) => each l' st' b' (v :: acc) err
                    | ((st', b'), RErr e) => each l' st' b' acc (keep_err err e)
                    end
       end) ds st b [] None
  end.

End Eval.
