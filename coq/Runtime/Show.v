(** Canonical text of run-time results (compared with the probe's JSON by the harness). *)
From GV Require Import Base.Str Base.Sort Runtime.RT Corr.Obs.

Fixpoint show_value (v : value) : str :=
  match v with
  | VNil => s "N"
  | VBool true => s "B1" | VBool false => s "B0"
  | VNum k t => s "I(" ++ k ++ s "," ++ t ++ s ")"
  | VStr x => s "S(" ++ list_ascii_of_string (esc x) ++ s ")"
  | VObj o a f l sr =>
      s "O(" ++ list_ascii_of_string (esc o) ++ s ";[" ++ join (s ",") (map show_value a) ++ s "];{"
      ++ join (s ",") (map (fun kv => fst kv ++ s "=" ++ snd kv)
                           (sort_by (fun a b => str_ltb (fst a) (fst b))
                                    (flat_map (fun kv => match kv with (k, VNil) => [] | (k, x) => [(k, show_value x)] end) f)))
      ++ s "};[" ++ join (s ",") l ++ s "];#" ++ dec_of_N sr ++ s ")"
  | VList l => s "L[" ++ join (s ",") (map show_value l) ++ s "]"
  | VContainer => s "C"
  end.

Definition show_result (r : result value) : string :=
  match r with
  | ROk v => to_string (show_value v)
  | RErr e => to_string (s "E(" ++ list_ascii_of_string (esc e) ++ s ")")
  end.
