(** What the generated constructor program builds (OverrideParam / OverrideService / AddDecorator in template order) as a
    runtime state, the operations of a probe history, and the canonical description of results. *)
From GV Require Import Base.Str Base.Quote Base.Sort Model.Env Model.Input Model.Imports Model.Token Model.Compile Model.OutVal Runtime.RT.

Section WithEnv.
Variable E : env.

(** package path of a generated local import name; "." for the current package *)
Definition path_of_alias (i : ist) (a : str) : option str :=
  match find (fun kv => str_eqb (snd kv) a) (is_imports i) with Some kv => Some (fst kv) | None => None end.

(** split "alias.Rest" when the text before the first dot is a generated local name *)
Fixpoint cut_dot (x : str) : str * option str :=
  match x with
  | [] => ([], None)
  | c :: x' => if Ascii.eqb c "."%char then ([], Some x') else let '(a, b) := cut_dot x' in (c :: a, b)
  end.
Definition qualified (i : ist) (code : str) : str * str :=
  match cut_dot code with
  | (a, Some rest) => match path_of_alias i a with Some p => (p, rest) | None => (s ".", code) end
  | (_, None) => (s ".", code)
  end.
Definition origin_of (i : ist) (code : str) : str := let '(p, n) := qualified i code in p ++ s "." ++ n.

(** value of a compiled `value:` / `!value` expression over the fixture: Value, GlobalVar.Field, MyStruct{} (optionally & / qualified) *)
Definition goexpr_value (i : ist) (code : str) : value :=
  let body := match code with "&"%char :: r => r | _ => code end in
  let '(p, sym) := qualified i body in
  if has_suffix (s "{}") sym then VObj [] [] [] [] 0
  else VObj (p ++ s "." ++ sym) [] [] [] 0.

(** run-time tokens of a pattern string, as the token factories generate them *)
Definition rtok_of (fns : list fnfact) (i : ist) (ch : str) : rtok :=
  match to_expr E ch with
  | None => KLit ch
  | Some e =>
    if str_eqb ch [k_delim E; k_delim E] then KPercent
    else match find (fun f => ff_supports E f ch) fns with
         | Some f =>
           let args := match simplefn E e with Some (_, a) => a | None => [] end in
           let o := match ff_import f with
                    | [] => if mem (ff_gofn f) (map snd (k_builtin_funcs E)) then ff_gofn f else s ".." ++ ff_gofn f
                    | imp => decorate_import i imp ++ s "." ++ ff_gofn f
                    end in
           KCall o args ch
         | None => KRef e
         end
  end.
Definition rtoks (fns : list fnfact) (i : ist) (x : str) : list rtok :=
  match chunks E x with inl cs => map (rtok_of fns i) cs | inr _ => [] end.

Definition is_value_arg (x : str) : option str :=
  if has_prefix (s "!value") x then Some (trim_left " "%char (trim_left (ch 9) (drop_prefix (s "!value") x))) else None.

(** the Dependency the template emits for a compiled argument *)
Definition rdep_of (fns : list fnfact) (i : ist) (a : arg) : rdep :=
  match a_services a, a_tags a, a_raw a with
  | n :: _, _, _ => DService n
  | [], t :: _, _ => DTag t
  | [], [], PStr x =>
      if str_eqb x (s "$gontainer") then DContainer
      else if has_prefix (s "dependencyValue(") (a_code a)
           then DValue (goexpr_value i (removelast (drop_prefix (s "dependencyValue(") (a_code a))))
           else DPattern (rtoks fns i x)
  | [], [], p => DLit p
  end.

Definition failing (origin : str) : bool := str_eqb (last_dot_name origin) (s "NewFailing").

Definition sdef_of (fns : list fnfact) (i : ist) (sv : oservice) : sdef :=
  {| sd_create :=
       if os_todo sv then CTodo
       else match os_constructor sv, os_value sv with
            | _ :: _, _ => CCtor (origin_of i (os_constructor sv)) (failing (os_constructor sv)) (map (rdep_of fns i) (os_args sv))
            | [], _ :: _ => CValue (goexpr_value i (os_value sv))
            | [], [] => if has_prefix (s "*") (os_type sv) then CValue VNil else CZero
            end;
     sd_fields := map (fun f => (fst f, rdep_of fns i (snd f))) (os_fields sv);
     sd_calls := map (fun c => {| rc_method := oc_method c; rc_deps := map (rdep_of fns i) (oc_args c); rc_wither := oc_immutable c |}) (os_calls sv);
     sd_tags := fold_left (fun m t => assoc_set (t_name t) (t_prio t) m) (os_tags sv) [];
     sd_scope := os_scope sv |}.

Definition pdef_of (fns : list fnfact) (i : ist) (p : oparam) : rdep :=
  match op_raw p with
  | PStr x => DPattern (rtoks fns i x)
  | r => DLit r
  end.

(** NewGontainer(): the state after the generated constructor ran (nothing is evaluated: parameters are lazy providers) *)
Definition load (o : output) (c : cst) (envv : list (str * str)) : rt :=
  let fns := cs_fns c in
  let i := cs_imports c in
  {| rt_params := map (fun p => (op_name p, pdef_of fns i p)) (o_params o);
     rt_pcache := [];
     rt_services := map (fun sv => (os_name sv, sdef_of fns i sv)) (o_services o);
     rt_shared := [];
     rt_decorators := map (fun d => {| dd_tag := od_tag d; dd_origin := origin_of i (od_decorator d); dd_deps := map (rdep_of fns i) (od_args d) |}) (o_decorators o);
     rt_bags := []; rt_serial := 0; rt_env := envv; rt_trace := [] |}.

(** ** transitive service dependencies of the current definitions (the library rebuilds its graph after every override) *)
Definition dep_names (ds : list rdep) : list str * list str :=
  (flat_map (fun d => match d with DService n => [n] | _ => [] end) ds, flat_map (fun d => match d with DTag t => [t] | _ => [] end) ds).
Definition sdef_deps (d : sdef) : list rdep :=
  (match sd_create d with CCtor _ _ ds => ds | _ => [] end) ++ flat_map rc_deps (sd_calls d) ++ map snd (sd_fields d).
Definition rt_graph (st : rt) : graph :=
  let g1 := fold_left (fun g kv =>
                         let sid := id_service (fst kv) in
                         let g' := fold_left (fun g t => add_dep sid (id_decorate (fst t)) (add_dep (id_tag (fst t)) sid g)) (sort_by (fun a b => str_ltb (fst a) (fst b)) (sd_tags (snd kv))) g in
                         let '(ss, ts) := dep_names (sdef_deps (snd kv)) in
                         add_deps sid (map id_tag ts) (add_deps sid (map id_service ss) g'))
                      (sort_by (fun a b => str_ltb (fst a) (fst b)) (rt_services st)) g0 in
  fst (fold_left (fun gj d =>
                    let '(g, j) := gj in
                    let did := id_decorator j in
                    let '(ss, ts) := dep_names (dd_deps d) in
                    (add_deps did (map id_tag ts) (add_deps did (map id_service ss) (add_dep (id_decorate (dd_tag d)) did g)), S j))
                 (rt_decorators st) (g1, O)).
Definition rt_depsf (st : rt) (n : str) : list str :=
  map resource_of (filter is_service_id (deps_of (rt_graph st) (id_service n))).

(** ** probe operations *)
Inductive op :=
| OGet (n : str) | OGetCtx (c : N) (n : str)
| OTagged (t : str) | OTaggedCtx (c : N) (t : str)
| OGetParam (p : str)
| OOverrideParam (p : str) (v : prim)
| OOverrideService (n : str) (origin : str) (args : list prim)      (* a new definition: constructor over literals, default scope *)
| ONewCtx (c : N).

Definition fuel_of (st : rt) : nat := 4 * (length (rt_services st) + length (rt_params st) + length (rt_decorators st)) + 16.

Definition set_bag (st : rt) (c : N) (b : bag) : rt :=
  {| rt_params := rt_params st; rt_pcache := rt_pcache st; rt_services := rt_services st; rt_shared := rt_shared st; rt_decorators := rt_decorators st;
     rt_bags := (c, b) :: filter (fun kv => negb (N.eqb (fst kv) c)) (rt_bags st); rt_serial := rt_serial st; rt_env := rt_env st; rt_trace := rt_trace st |}.
Definition bag_of (st : rt) (c : N) : bag := match find (fun kv => N.eqb (fst kv) c) (rt_bags st) with Some kv => snd kv | None => [] end.

Definition step (st : rt) (o : op) : rt * result value :=
  let f := fuel_of st in
  match o with
  | OGet n => let '((st', _), r) := get rt_depsf f st [] n in (st', r)
  | OGetCtx c n => let '((st', b), r) := get rt_depsf f st (bag_of st c) n in (set_bag st' c b, r)
  | OTagged t => let '((st', _), r) := resolve_dep rt_depsf f st [] (DTag t) in (st', r)
  | OTaggedCtx c t => let '((st', b), r) := resolve_dep rt_depsf f st (bag_of st c) (DTag t) in (set_bag st' c b, r)
  | OGetParam p => get_param f st p
  | OOverrideParam p v =>
      ({| rt_params := assoc_set p (DLit v) (rt_params st); rt_pcache := assoc_del p (rt_pcache st); rt_services := rt_services st; rt_shared := rt_shared st;
          rt_decorators := rt_decorators st; rt_bags := rt_bags st; rt_serial := rt_serial st; rt_env := rt_env st; rt_trace := rt_trace st |}, ROk VNil)
  | OOverrideService n origin args =>
      ({| rt_params := rt_params st; rt_pcache := rt_pcache st;
          rt_services := assoc_set n {| sd_create := CCtor origin (failing origin) (map DLit args); sd_fields := []; sd_calls := []; sd_tags := []; sd_scope := OScDefault |} (rt_services st);
          rt_shared := assoc_del n (rt_shared st); rt_decorators := rt_decorators st; rt_bags := rt_bags st; rt_serial := rt_serial st; rt_env := rt_env st;
          rt_trace := rt_trace st |}, ROk VNil)
  | ONewCtx c => (set_bag st c [], ROk VNil)
  end.

Fixpoint run_ops (st : rt) (ops : list op) : rt * list (result value) :=
  match ops with
  | [] => (st, [])
  | o :: ops' => let '(st1, r) := step st o in let '(st2, rs) := run_ops st1 ops' in (st2, r :: rs)
  end.

End WithEnv.
