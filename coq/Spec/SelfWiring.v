(** Reading the tool's wiring out of its own configuration (internal/gontainer/*.yaml): which resolvers, token factories,
    compile steps and runner steps are declared, in which order.  Compared in Props/C19.v with the wiring dumped from the
    live objects of the compiled tool (Gen/EnvGen.v). *)
From GV Require Import Base.Str Model.Env Model.Input Model.Merge.

Definition merged (files : list (str * input)) : input := fold_left merge (map snd files) empty_input.

Definition svc (i : input) (n : str) : option service := lookup n (i_services i).
Definition ctor (i : input) (n : str) : str :=
  match svc i n with Some sv => match sv_constructor sv with Some c => c | None => match sv_value sv with Some v => v | None => [] end end | None => [] end.

(** names of the services referenced by the arguments of service [n] (strings starting with "@"), in order *)
Definition arg_refs (i : input) (n : str) : list str :=
  match svc i n with
  | Some sv => flat_map (fun p => match p with PStr ("@"%char :: r) => [r] | _ => [] end) (sv_args sv)
  | None => []
  end.
(** "!value X" arguments, in order *)
Definition arg_values (i : input) (n : str) : list str :=
  match svc i n with
  | Some sv => flat_map (fun p => match p with PStr x => if has_prefix (s "!value ") x then [drop_prefix (s "!value ") x] else [] | _ => [] end) (sv_args sv)
  | None => []
  end.

Definition resolver_ctor (k : resolver_kind) : str :=
  match k with
  | RNonString => s "resolver.NewNonStringPrimitiveResolver" | RValue => s "resolver.NewValueResolver"
  | RService => s "resolver.NewServiceResolver" | RTagged => s "resolver.NewTaggedResolver"
  | RFixed _ _ => s "resolver.NewFixedValueResolver" | RPattern => s "resolver.NewPatternResolver"
  end.
Definition factory_value (k : factory_kind) : str :=
  match k with
  | FPercent => s "token.FactoryPercentMark{}" | FReference => s "token.FactoryReference{}"
  | FUnexpectedFunction => s "token.FactoryUnexpectedFunction{}" | FUnexpectedToken => s "token.FactoryUnexpectedToken{}"
  | FString => s "token.FactoryString{}"
  end.
Definition cstep_ctor (k : cstep_kind) : str :=
  match k with
  | CValidate => s "compiler.NewStepValidateInput" | CMeta => s "compiler.NewStepCompileMeta" | CParams => s "compiler.NewStepCompileParams"
  | CServices => s "compiler.NewStepCompileServices" | CDecorators => s "compiler.NewStepCompileDecorators"
  end.
Definition rstep_ctor (k : rstep_kind) : str :=
  match k with
  | RDefaultInput => s "runner.StepDefaultInput{}" | RReadConfig => s "runner.NewStepReadConfig" | RCompile => s "runner.NewStepCompile"
  | RAmalgamated _ => s "runner.NewStepAmalgamated" | RCodeGen => s "runner.NewStepCodeGenerator"
  end.
Definition rule_value (k : rule_kind) : str :=
  match k with
  | VScopes => s "output.ValidateServicesScopes" | VCircular => s "output.ValidateCircularDeps"
  | VParamsExist => s "output.ValidateParamsExist" | VServicesExist => s "output.ValidateServicesExist"
  end.

(** the declared wiring, as constructor names *)
Definition yaml_chain (i : input) (resolver : str) : list str := map (ctor i) (arg_refs i resolver).
Definition yaml_factories (i : input) : list str := arg_values i (s "tokenStrategyFactory").
Definition yaml_compiler (i : input) : list str := map (ctor i) (arg_refs i (s "compiler")).
Definition yaml_runner (i : input) : list str := map (ctor i) (arg_refs i (s "runner")).
Definition yaml_rules (i : input) : list (list str) := map (arg_values i) (arg_refs i (s "stepValidateOutput")).
Definition yaml_param_resolver (i : input) : list str := arg_refs i (s "paramResolver").
