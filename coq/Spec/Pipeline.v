(** The command as a straight-line function (no printing, no panics): what `gontainer build` decides and does.
    [Proofs/RunnerProofs.v] shows that the runner model computes exactly this under the shipped wiring. *)
From GV Require Import Base.Str Base.Quote Base.Gerr Base.Sort Regex.Re Model.Env Model.Input Model.Merge Model.Imports
  Model.Token Model.Compile Model.Validate Model.OutVal Model.Runner.

(** the wiring and printer constants the theorems are stated for; [Tie/EnvTie.v] proves the regenerated [the_env]
    has them *)
Definition std_rules : list (str * rule_kind * switch) :=
  [ (s "Scope", VScopes, SwAlways); (s "Circular dependencies", VCircular, SwAlways);
    (s "Missing parameters", VParamsExist, SwIgnoreParams); (s "Missing services", VServicesExist, SwIgnoreServices) ].
Definition std_runner : list rstep :=
  [ {| rs_name := s "Default input"; rs_kind := RDefaultInput; rs_switch := SwAlways |};
    {| rs_name := s "Read config"; rs_kind := RReadConfig; rs_switch := SwAlways |};
    {| rs_name := s "Compile"; rs_kind := RCompile; rs_switch := SwAlways |};
    {| rs_name := s "Validate output"; rs_kind := RAmalgamated std_rules; rs_switch := SwAlways |};
    {| rs_name := s "Generate code"; rs_kind := RCodeGen; rs_switch := SwAlways |} ].

Record std_env (E : env) : Prop := {
  se_runner : w_runner E = std_runner;
  se_width : k_row_width E = 60%nat;
  se_check : k_check E = bs [91;226;156;147;93]%N;
  se_xmark : k_xmark E = bs [91;226;168;137;93]%N;
  se_csteps : w_compiler_steps E = [CValidate; CMeta; CParams; CServices; CDecorators];
  se_arg_chain : w_arg_chain E = [RNonString; RValue; RService; RTagged; RFixed (s "$gontainer") (s "rootGontainer"); RPattern];
  se_param_chain : w_param_chain E = [RNonString; RPattern];
  se_factories : w_factories E = [FPercent; FReference; FUnexpectedFunction; FUnexpectedToken; FString];
  se_delim : k_delim E = "%"%char
}.

Section WithEnv.
Variable E : env.

(** diagnostics of the output validation step under the flags *)
Definition vo_error (fl : flags) (o : output) : err :=
  gjoin [ validate_scopes o; validate_circular o;
          (if f_ignore_params fl then None else validate_params_exist o);
          (if f_ignore_services fl then None else validate_services_exist o) ].

Inductive stage := StRead | StCompile | StValidate | StGenerate | StWrite | StDone.

Record verdict := {
  vd_exit : nat; vd_errors : list str; vd_wrote : bool; vd_stage : stage;
  vd_input : input; vd_output : output; vd_cst : cst }.

Definition cst0 : cst := {| cs_imports := ist0; cs_fns := [] |}.

Definition pipeline (B : str) (fl : flags) (w : world) : verdict :=
  let i0 := builtin_input E empty_input in
  let '((i1, e_read), _) := read_config E w i0 in
  match e_read with
  | Some g => {| vd_exit := 1; vd_errors := collection g; vd_wrote := false; vd_stage := StRead;
                 vd_input := i1; vd_output := empty_output; vd_cst := cst0 |}
  | None =>
    let '((o, e_c), c) := compile E B i1 in
    match e_c with
    | Some g => {| vd_exit := 1; vd_errors := collection g; vd_wrote := false; vd_stage := StCompile;
                   vd_input := i1; vd_output := o; vd_cst := c |}
    | None =>
      match vo_error fl o with
      | Some g => {| vd_exit := 1; vd_errors := collection g; vd_wrote := false; vd_stage := StValidate;
                     vd_input := i1; vd_output := o; vd_cst := c |}
      | None =>
        match wd_build_err w with
        | Some m => {| vd_exit := 1; vd_errors := [m]; vd_wrote := false; vd_stage := StGenerate;
                       vd_input := i1; vd_output := o; vd_cst := c |}
        | None =>
          match wd_write_err w with
          | Some m => {| vd_exit := 1; vd_errors := [m]; vd_wrote := false; vd_stage := StWrite;
                         vd_input := i1; vd_output := o; vd_cst := c |}
          | None => {| vd_exit := 0; vd_errors := []; vd_wrote := true; vd_stage := StDone;
                       vd_input := i1; vd_output := o; vd_cst := c |}
          end
        end
      end
    end
  end.

End WithEnv.
