(** Spec of the version gate (property C18), numeric reading. *)
From GV Require Import Base.Str Model.Semver.

(** positional value of a decimal digit string *)
Fixpoint num (d : str) : N :=
  match d with
  | [] => 0
  | c :: d' => (code c - 48) * 10 ^ N.of_nat (length d') + num d'
  end.

(** (major, minor) of a semantic version written with the leading "v" *)
Definition sem (v : str) : option (N * N) :=
  match parse v with
  | Some p => Some (num (p_major p), num (p_minor p))
  | None => None
  end.

Inductive gate_result := Skip | Accept | Reject.

(** The rule of docs/VERSION.md.  [B] = version of the build, [V] = version declared by the configuration,
    both without the leading "v". *)
Definition gate (B : str) (V : option str) : gate_result :=
  match sem (s "v" ++ B) with
  | None => Skip                                  (* devel builds etc. *)
  | Some (MB, mB) =>
    match V with
    | None => Skip
    | Some v =>
      match sem (s "v" ++ v) with
      | None => Reject                            (* cannot happen after a successful parse of the YAML *)
      | Some (MV, mV) =>
        if N.eqb MB 0
        then (if N.eqb MV MB && N.eqb mV mB then Accept else Reject)
        else (if N.eqb MV MB && N.leb mV mB then Accept else Reject)
      end
    end
  end.
