(** internal/pkg/imports/imports.go — the alias table shared by all compile steps and the template. *)
From GV Require Import Base.Str Base.Quote Base.Sort Base.Gerr.

Record ist := {
  is_counter : N;
  is_imports : list (str * str);     (* import path -> generated local name, insertion order *)
  is_prefixes : list (str * str)     (* user alias -> import path *)
}.
Definition ist0 : ist := {| is_counter := 0; is_imports := []; is_prefixes := [] |}.

Definition register_prefix (alias path : str) (st : ist) : ist * err :=
  match lookup alias (is_prefixes st) with
  | Some _ => (st, leaf (s "prefix is already registered: " ++ quote alias))
  | None => ({| is_counter := is_counter st; is_imports := is_imports st;
                is_prefixes := is_prefixes st ++ [(alias, path)] |}, None)
  end.

(** strings.Cut(imp, "/") *)
Fixpoint cut_slash (x : str) : str * option str :=
  match x with
  | [] => ([], None)
  | c :: x' => if Ascii.eqb c "/"%char then ([], Some x')
               else let '(a, b) := cut_slash x' in (c :: a, b)
  end.

(** decorateImport: an alias stands for whole leading path segment only *)
Definition decorate_import (st : ist) (imp : str) : str :=
  let '(seg, rest) := cut_slash imp in
  match lookup seg (is_prefixes st) with
  | Some path => match rest with Some r => path ++ s "/" ++ r | None => path end
  | None => imp
  end.

(** regexNoAlphaNum.ReplaceAllString(x, "_"): every rune that is not an ASCII letter or digit becomes one "_" *)
Fixpoint sanitize_fuel (fuel : nat) (x : str) : str :=
  match fuel with
  | O => []
  | S f =>
    match x with
    | [] => []
    | c :: _ =>
      match decode_rune x with
      | Some (r, w) => (if N.ltb r 128 && is_alnum c then c else "_"%char) :: sanitize_fuel f (skipn w x)
      | None => "_"%char :: sanitize_fuel f (skipn 1 x)
      end
    end
  end.
Definition sanitize (x : str) : str := sanitize_fuel (length x) x.

Definition local_name (counter : N) (path : str) : str :=
  s "i" ++ hex_of_N counter ++ s "_" ++ sanitize (last_or (split_on "/"%char path) []).

(** Alias on an already decorated (absolute) path *)
Definition alias_abs (st : ist) (path : str) : str * ist :=
  match lookup path (is_imports st) with
  | Some a => (a, st)
  | None =>
    let a := local_name (is_counter st) path in
    (a, {| is_counter := is_counter st + 1; is_imports := is_imports st ++ [(path, a)]; is_prefixes := is_prefixes st |})
  end.

(** Alias: user-written import (alias expansion first) *)
Definition alias (st : ist) (imp : str) : str * ist := alias_abs st (decorate_import st imp).

(** Imports(): sorted by path (stable) *)
Definition imports_sorted (st : ist) : list (str * str) := sorted_entries (is_imports st).
