(** Mirror of internal/pkg/input/input.go (after yaml.v3 decoding) and of the generic values yaml.v3 produces. *)
From GV Require Import Base.Str.

(** a value decoded into [any].  Numbers keep their Go kind and their %d / FormatFloat text: the tool never
    computes with them.  [POther] is anything that is not a primitive (its %T text is all the tool ever prints). *)
Inductive prim :=
| PNil
| PBool (b : bool)
| PInt (kind : str) (text : str)       (* int, int64, uint64, ... *)
| PFloat (kind : str) (text : str)     (* float64; text = strconv.FormatFloat(v,'f',-1,64) *)
| PStr (x : str)
| POther (gotype : str).

Definition is_primitive (p : prim) : bool := match p with POther _ => false | _ => true end.

Record call := { c_method : str; c_args : list prim; c_immutable : bool }.
Record tag := { t_name : str; t_prio : Z }.
Inductive scope := ScShared | ScContextual | ScNonShared.

Record service := {
  sv_getter : option str; sv_must_getter : option bool; sv_type : option str; sv_value : option str;
  sv_constructor : option str; sv_args : list prim; sv_calls : list call; sv_fields : list (str * prim);
  sv_tags : list tag; sv_scope : option scope; sv_todo : option bool }.

Record decorator := { d_tag : str; d_decorator : str; d_args : list prim }.

Record meta := {
  m_pkg : option str; m_container_type : option str; m_container_constructor : option str;
  m_default_must_getter : option bool; m_imports : list (str * str); m_functions : list (str * str) }.

Record input := {
  i_version : option str; i_meta : meta; i_params : list (str * prim); i_services : list (str * service);
  i_decorators : list decorator }.

Definition empty_meta : meta :=
  {| m_pkg := None; m_container_type := None; m_container_constructor := None; m_default_must_getter := None;
     m_imports := []; m_functions := [] |}.
Definition empty_input : input :=
  {| i_version := None; i_meta := empty_meta; i_params := []; i_services := []; i_decorators := [] |}.
Definition empty_service : service :=
  {| sv_getter := None; sv_must_getter := None; sv_type := None; sv_value := None; sv_constructor := None;
     sv_args := []; sv_calls := []; sv_fields := []; sv_tags := []; sv_scope := None; sv_todo := None |}.
