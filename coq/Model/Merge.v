(** internal/pkg/input/merge.go.  Go maps are association lists with unique keys; nil and empty are identified. *)
From GV Require Import Base.Str Base.Sort Model.Input.

Definition merge_ptr {A} (a b : option A) : option A := match b with Some _ => b | None => a end.

(** r[k]=v for every entry of a, then of b: keys of a keep their place, values of b win, new keys of b are appended *)
Fixpoint map_set {A} (k : str) (v : A) (m : list (str * A)) : list (str * A) :=
  match m with
  | [] => [(k, v)]
  | (k', v') :: m' => if str_eqb k k' then (k, v) :: m' else (k', v') :: map_set k v m'
  end.
Definition merge_map {A} (a b : list (str * A)) : list (str * A) :=
  fold_left (fun r kv => map_set (fst kv) (snd kv) r) b a.

Definition merge_args (a b : list prim) : list prim := match b with [] => a | _ => b end.

Definition merge_meta (a b : meta) : meta :=
  {| m_pkg := merge_ptr (m_pkg a) (m_pkg b);
     m_container_type := merge_ptr (m_container_type a) (m_container_type b);
     m_container_constructor := merge_ptr (m_container_constructor a) (m_container_constructor b);
     m_default_must_getter := merge_ptr (m_default_must_getter a) (m_default_must_getter b);
     m_imports := merge_map (m_imports a) (m_imports b);
     m_functions := merge_map (m_functions a) (m_functions b) |}.

Definition merge_service (a b : service) : service :=
  {| sv_getter := merge_ptr (sv_getter a) (sv_getter b);
     sv_must_getter := merge_ptr (sv_must_getter a) (sv_must_getter b);
     sv_type := merge_ptr (sv_type a) (sv_type b);
     sv_value := merge_ptr (sv_value a) (sv_value b);
     sv_constructor := merge_ptr (sv_constructor a) (sv_constructor b);
     sv_args := merge_args (sv_args a) (sv_args b);
     sv_calls := sv_calls a ++ sv_calls b;
     sv_fields := merge_map (sv_fields a) (sv_fields b);
     sv_tags := sv_tags a ++ sv_tags b;
     sv_scope := merge_ptr (sv_scope a) (sv_scope b);
     sv_todo := merge_ptr (sv_todo a) (sv_todo b) |}.

Definition merge_services (a b : list (str * service)) : list (str * service) :=
  fold_left (fun r kv =>
               match lookup (fst kv) a with
               | Some v1 => map_set (fst kv) (merge_service v1 (snd kv)) r
               | None => map_set (fst kv) (snd kv) r
               end) b a.

Definition merge (a b : input) : input :=
  {| i_version := merge_ptr (i_version a) (i_version b);
     i_meta := merge_meta (i_meta a) (i_meta b);
     i_params := merge_map (i_params a) (i_params b);
     i_services := merge_services (i_services a) (i_services b);
     i_decorators := i_decorators a ++ i_decorators b |}.
